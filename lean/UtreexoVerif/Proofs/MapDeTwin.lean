/-
  `deTwin` on the sorted canonical targets: what `MapPollard.remove` hands to `removeSingle`.
-/
import UtreexoVerif.Proofs.PForestSpec
import UtreexoVerif.Proofs.MapProve
import UtreexoVerif.Proofs.SpecPlan
import UtreexoVerif.Proofs.MapSInv

open UtreexoVerif Model Spec Spec.Forest Proofs MapInv MapPrune MapRep MapLiftGeo PForest PForestSpec Hasher SpecNodes

namespace UtreexoVerif.Proofs.MapDeTwin
set_option linter.unusedSectionVars false
variable {H : Type} [DecidableEq H] [Hasher H]

/-- `ds` are the detwinned deletion targets of the leaf list `L` in the forest `F`, in the order
in which `remove` processes them -/
structure DT (F : Forest H) (L : List H) (ds : List Pos) : Prop where
  /-- every target is a node of `F` -/
  node : ∀ d ∈ ds, ∃ h b, (d, h, b) ∈ F.nodes
  /-- every leaf below a target is deleted -/
  sub : ∀ d ∈ ds, ∀ t x, (t, x, true) ∈ F.nodes → Anc d t → x ∈ L
  /-- every deleted leaf lies below a target -/
  cover : ∀ x ∈ L, ∃ d ∈ ds, ∃ t, (t, x, true) ∈ F.nodes ∧ Anc d t
  /-- a later target lies neither below nor above the parent of an earlier one (so it is neither
  moved nor changed when the earlier one is removed) -/
  sep : ds.Pairwise (fun a b => ¬ Anc (parent a) b ∧ ¬ Anc b (parent a))

/-! ### list lemmas -/

/-- the right one of the two siblings `a`, `sib a` -/
def rsibP (a : Pos) : Pos := (a.1, 2 * (a.2 / 2) + 1)

theorem rsibP_eq_sib {a : Pos} (h : PLt a (rsibP a)) : rsibP a = sib a := by
  obtain ⟨r, o⟩ := a
  rw [PLt_iff] at h
  unfold rsibP at *
  unfold sib
  simp only at h ⊢
  have : o % 2 = 0 := by omega
  rw [if_pos this]
  congr 1; omega

theorem insertInOrder_encP {T : Nat} (hT : T ≤ 63) {x : Pos} (hx : ValidH T x) :
    ∀ (l : List Pos), (∀ p ∈ l, ValidH T p) →
      insertInOrder (l.map (encP T)) (encP T x) = (insertPos x l).map (encP T)
  | [], _ => rfl
  | y :: ys, hl => by
    have hy := hl y (by simp)
    rw [List.map_cons, insertInOrder, insertPos]
    by_cases hlt : Spec.Forest.posLt x y = true
    · rw [if_pos (show encP T y > encP T x from (encP_lt_iff hT hx hy).2 hlt), if_pos hlt]; rfl
    · rw [if_neg (fun hc : encP T y > encP T x => hlt ((encP_lt_iff hT hx hy).1 hc)), if_neg hlt,
        insertInOrder_encP hT hx ys (fun p hp => hl p (List.mem_cons_of_mem _ hp))]
      rfl

/-- inserting an element that is not smaller than any element of the prefix -/
theorem insertPos_append {x : Pos} : ∀ (pre rest : List Pos), (∀ c ∈ pre, ¬ PLt x c) →
    insertPos x (pre ++ rest) = pre ++ insertPos x rest
  | [], _, _ => rfl
  | c :: pre, rest, h => by
    rw [List.cons_append, insertPos, if_neg (h c (by simp)),
      insertPos_append pre rest (fun d hd => h d (List.mem_cons_of_mem _ hd))]
    rfl

theorem getElem?_pre {α : Type} (pre suf : List α) : (pre ++ suf)[pre.length]? = suf[0]? := by
  rw [List.getElem?_append_right (Nat.le_refl _), Nat.sub_self]

theorem getElem?_pre1 {α : Type} (pre suf : List α) : (pre ++ suf)[pre.length + 1]? = suf[1]? := by
  rw [List.getElem?_append_right (by omega)]
  congr 1; omega

theorem eraseIdx_pre {α : Type} (pre : List α) (a b : α) (rest : List α) :
    ((pre ++ a :: b :: rest).eraseIdx pre.length).eraseIdx pre.length = pre ++ rest := by
  rw [List.eraseIdx_append_of_length_le (Nat.le_refl _), Nat.sub_self, List.eraseIdx_cons_zero,
    List.eraseIdx_append_of_length_le (Nat.le_refl _), Nat.sub_self, List.eraseIdx_cons_zero]

theorem map_eraseIdx' {α β : Type} (f : α → β) : ∀ (l : List α) (i : Nat),
    (l.map f).eraseIdx i = (l.eraseIdx i).map f
  | [], _ => rfl
  | _ :: _, 0 => rfl
  | x :: l, i + 1 => by
    rw [List.map_cons, List.eraseIdx_cons_succ, List.eraseIdx_cons_succ, List.map_cons, map_eraseIdx' f l i]

theorem valid_parent {T : Nat} {a : Pos} (ha : ValidH T a) (hlt : a.1 < T) : ValidH T (parent a) := by
  have g := enc_facts_succ hlt
  have := ha.2
  exact ⟨by show a.1 + 1 ≤ T; omega, by show a.2 / 2 < 2 ^ (T - (a.1 + 1)); omega⟩

theorem rightSib_beq {T : Nat} (hT : T ≤ 63) {a q : Pos} (ha : ValidH T a) (hlt : a.1 < T)
    (hq : ValidH T q) : (rightSib (encP T a) == encP T q) = (q == rsibP a) :=
  rightSib_encP_beq (ρ := a.1) (o := a.2) hT hlt ha.2 hq

/-! ### one step of `deTwinLoop` on an encoded list, in zipper form -/

theorem loop_merge {T : Nat} (hT : T ≤ 63) (fuel : Nat) (pre rest : List Pos) (a : Pos)
    (hpre : ∀ p ∈ pre, ValidH T p) (hrest : ∀ p ∈ rest, ValidH T p) (ha : ValidH T a) (hlt : a.1 < T)
    (hb : ValidH T (rsibP a)) (hord : ∀ c ∈ pre, ¬ PLt (parent a) c) :
    deTwinLoop (H8 T) (fuel + 1) pre.length ((pre ++ a :: rsibP a :: rest).map (encP T)) =
      deTwinLoop (H8 T) fuel pre.length ((pre ++ insertPos (parent a) rest).map (encP T)) := by
  have e0 : ((pre ++ a :: rsibP a :: rest).map (encP T))[pre.length]? = some (encP T a) := by
    rw [List.getElem?_map, getElem?_pre]; rfl
  have e1 : ((pre ++ a :: rsibP a :: rest).map (encP T))[pre.length + 1]? = some (encP T (rsibP a)) := by
    rw [List.getElem?_map, getElem?_pre1]; rfl
  rw [deTwinLoop]
  simp only [e0, e1]
  rw [rightSib_beq hT ha hlt hb, beq_self_eq_true, if_pos rfl, map_eraseIdx', map_eraseIdx', eraseIdx_pre,
    show Parent (encP T a) (H8 T) = encP T (parent a) from parent_encP (ρ := a.1) (o := a.2) hT hlt ha.2,
    insertInOrder_encP hT (valid_parent ha hlt) (pre ++ rest) (by
      intro p hp
      rcases List.mem_append.1 hp with h | h
      · exact hpre p h
      · exact hrest p h),
    insertPos_append pre rest hord]

theorem loop_adv {T : Nat} (hT : T ≤ 63) (fuel : Nat) (pre rest : List Pos) (a b : Pos)
    (ha : ValidH T a) (hlt : a.1 < T) (hb : ValidH T b) (hne : b ≠ rsibP a) :
    deTwinLoop (H8 T) (fuel + 1) pre.length ((pre ++ a :: b :: rest).map (encP T)) =
      deTwinLoop (H8 T) fuel (pre ++ [a]).length (((pre ++ [a]) ++ b :: rest).map (encP T)) := by
  have e0 : ((pre ++ a :: b :: rest).map (encP T))[pre.length]? = some (encP T a) := by
    rw [List.getElem?_map, getElem?_pre]; rfl
  have e1 : ((pre ++ a :: b :: rest).map (encP T))[pre.length + 1]? = some (encP T b) := by
    rw [List.getElem?_map, getElem?_pre1]; rfl
  rw [deTwinLoop]
  simp only [e0, e1]
  rw [rightSib_beq hT ha hlt hb, beq_false_of_ne hne]
  simp

theorem loop_end {T : Nat} (fuel : Nat) (pre suf : List Pos) (h : suf.length ≤ 1) :
    deTwinLoop (H8 T) fuel pre.length ((pre ++ suf).map (encP T)) = (pre ++ suf).map (encP T) := by
  cases fuel with
  | zero => rfl
  | succ fuel =>
    have e1 : ((pre ++ suf).map (encP T))[pre.length + 1]? = none := by
      rw [List.getElem?_map, getElem?_pre1]
      match suf, h with
      | [], _ => rfl
      | [_], _ => rfl
    rw [deTwinLoop]
    simp only [e1]
    split <;> first | rfl | simp_all

/-! ### order facts -/

theorem sorted_facts {pre rest : List Pos} {a b : Pos} (h : SSorted (pre ++ a :: b :: rest)) :
    (∀ c ∈ pre, PLt c a) ∧ PLt a b ∧ (∀ c ∈ rest, PLt b c) := by
  obtain ⟨_, h2, h3⟩ := List.pairwise_append.1 h
  rw [List.pairwise_cons] at h2
  obtain ⟨h4, h5⟩ := h2
  rw [List.pairwise_cons] at h5
  exact ⟨fun c hc => h3 c hc a (by simp), h4 b (by simp), h5.1⟩

/-- nothing lies strictly between a node and its sibling -/
theorem sib_between {a b : Pos} (h1 : PLt a b) (h2 : PLt b (sib a)) : False := by
  obtain ⟨r, o⟩ := a
  obtain ⟨r', o'⟩ := b
  rw [PLt_iff] at h1 h2
  unfold sib at h2
  simp only at h1 h2
  split at h2 <;> omega

theorem sib_gt {a : Pos} (h : PLt a (sib a)) : sib a = rsibP a := by
  obtain ⟨r, o⟩ := a
  rw [PLt_iff] at h
  unfold sib at *
  unfold rsibP
  simp only at h ⊢
  split at h
  · rename_i he; rw [if_pos he]; congr 1; omega
  · omega

theorem row_lt_of_PLt {T : Nat} {a b : Pos} (ha : ValidH T a) (hb : ValidH T b) (h : PLt a b) : a.1 < T := by
  obtain ⟨r, o⟩ := a
  obtain ⟨r', o'⟩ := b
  obtain ⟨h1, h2⟩ := ha
  obtain ⟨h3, h4⟩ := hb
  rw [PLt_iff] at h
  simp only at h1 h2 h3 h4 h ⊢
  apply Decidable.byContradiction
  intro hc
  have e : r = T := by omega
  have e' : r' = T := by omega
  subst e
  subst e'
  simp at h2 h4
  omega

theorem length_insertPos (x : Pos) : ∀ (l : List Pos), (insertPos x l).length = l.length + 1
  | [] => rfl
  | y :: ys => by
    rw [insertPos]
    split
    · rfl
    · rw [List.length_cons, length_insertPos x ys, List.length_cons]

/-! ### the invariant of the scan (zipper form: `pre` = the part before the index) -/

def IsNode (N : List (Pos × H × Bool)) (d : Pos) : Prop := ∃ h b, (d, h, b) ∈ N

structure ZInv (N : List (Pos × H × Bool)) (L : List H) (pre suf : List Pos) : Prop where
  sorted : SSorted (pre ++ suf)
  node : ∀ d ∈ pre ++ suf, IsNode N d
  sub : ∀ d ∈ pre ++ suf, ∀ t x, (t, x, true) ∈ N → Anc d t → x ∈ L
  cover : ∀ x ∈ L, ∃ d ∈ pre ++ suf, ∃ t, (t, x, true) ∈ N ∧ Anc d t
  /-- every element has a leaf below it (it is not an empty root) -/
  live : ∀ d ∈ pre ++ suf, ∃ t x, (t, x, true) ∈ N ∧ Anc d t
  anti : ∀ a ∈ pre ++ suf, ∀ b ∈ pre ++ suf, Anc a b → a = b
  /-- no element of the part already scanned has its sibling in the list -/
  nosib : ∀ c ∈ pre, sib c ∉ pre ++ suf

section inv
variable {N : List (Pos × H × Bool)} {R : Pos → Prop} {L : List H}

theorem ZInv.adv {pre rest : List Pos} {a b : Pos} (I : ZInv N L pre (a :: b :: rest))
    (hne : b ≠ rsibP a) : ZInv N L (pre ++ [a]) (b :: rest) := by
  have e : (pre ++ [a]) ++ b :: rest = pre ++ a :: b :: rest := by simp
  obtain ⟨hpa, hab, hbr⟩ := sorted_facts I.sorted
  refine ⟨by rw [e]; exact I.sorted, by rw [e]; exact I.node, by rw [e]; exact I.sub,
    by rw [e]; exact I.cover, by rw [e]; exact I.live, by rw [e]; exact I.anti, ?_⟩
  rw [e]
  intro c hc
  rcases List.mem_append.1 hc with hc | hc
  · exact I.nosib c hc
  · simp only [List.mem_singleton] at hc
    subst hc
    intro hm
    have hc_mem : c ∈ pre ++ c :: b :: rest := by simp
    rcases List.mem_append.1 hm with h | h
    · have := I.nosib (sib c) h
      rw [sib_sib] at this
      exact this hc_mem
    · rcases List.mem_cons.1 h with h | h
      · exact sib_ne c h
      · rcases List.mem_cons.1 h with h | h
        · rw [← h] at hab
          exact hne (by rw [← sib_gt hab, h])
        · exact sib_between hab (hbr _ h)

theorem ZInv.final {pre suf : List Pos} (I : ZInv N L pre suf) (h : suf.length ≤ 1) :
    ∀ a ∈ pre ++ suf, sib a ∉ pre ++ suf := by
  intro a ha
  rcases List.mem_append.1 ha with ha' | ha'
  · exact I.nosib a ha'
  · match suf, h, ha' with
    | [z], _, hz =>
      simp only [List.mem_singleton] at hz
      subst hz
      intro hm
      rcases List.mem_append.1 hm with h1 | h1
      · have := I.nosib _ h1
        rw [sib_sib] at this
        exact this ha
      · simp only [List.mem_singleton] at h1
        exact sib_ne a h1

/-- two sibling nodes are not roots -/
theorem not_root_of_sib_node (Lw : Laws N R) (hR : ∀ q q', R q → R q' → q.1 = q'.1 → q = q')
    {a : Pos} (ha : IsNode N a) (hs : IsNode N (sib a)) : ¬ R a := by
  intro hr
  obtain ⟨h, b, hm⟩ := hs
  obtain ⟨ρ, hρ, hanc⟩ := Lw.under_root _ h b hm
  by_cases hrow : ρ.1 = (sib a).1
  · have := hanc.eq_of_row hrow
    subst this
    exact sib_ne a (hR _ _ hρ hr (sib_fst a))
  · have h1 : Anc ρ (parent (sib a)) := by
      rw [anc_parentR_iff]; exact ⟨hanc, by have := hanc.1; omega⟩
    rw [parent_sib] at h1
    have h2 := Anc.trans h1 (anc_parent_self a)
    have := Lw.root_disj ρ a a hρ hr h2 (Anc.refl a)
    subst this
    have := h1.1
    have : (parent ρ).1 = ρ.1 + 1 := rfl
    omega

theorem ZInv.merge (Lw : Laws N R) (hR : ∀ q q', R q → R q' → q.1 = q'.1 → q = q')
    {pre rest : List Pos} {a : Pos} (I : ZInv N L pre (a :: rsibP a :: rest)) :
    ZInv N L pre (insertPos (parent a) rest) ∧ (∀ c ∈ pre, ¬ PLt (parent a) c) := by
  obtain ⟨hpa, hab, hbr⟩ := sorted_facts I.sorted
  have hs : rsibP a = sib a := rsibP_eq_sib hab
  rw [hs] at I hab hbr
  have hprow : (parent a).1 = a.1 + 1 := rfl
  have hap : PLt a (parent a) := PLt_iff.2 (Or.inl (by omega))
  -- membership
  have ha_mem : a ∈ pre ++ a :: sib a :: rest := by simp
  have hs_mem : sib a ∈ pre ++ a :: sib a :: rest := by simp
  have hold : ∀ x, x ∈ pre ∨ x ∈ rest → x ∈ pre ++ a :: sib a :: rest := by
    intro x hx
    rcases hx with hx | hx
    · exact List.mem_append_left _ hx
    · exact List.mem_append_right _ (List.mem_cons_of_mem _ (List.mem_cons_of_mem _ hx))
  have hnew : ∀ x, x ∈ pre ++ insertPos (parent a) rest ↔ x = parent a ∨ x ∈ pre ∨ x ∈ rest := by
    intro x
    rw [List.mem_append, mem_insertPos]
    constructor
    · rintro (h | h | h)
      · exact Or.inr (Or.inl h)
      · exact Or.inl h
      · exact Or.inr (Or.inr h)
    · rintro (h | h | h)
      · exact Or.inr (Or.inl h)
      · exact Or.inl h
      · exact Or.inr (Or.inr h)
  have ha_old : ¬ (a ∈ pre ∨ a ∈ rest) := by
    rintro (h | h)
    · exact PLt_irrefl a (hpa a h)
    · exact PLt_asymm hab (hbr a h)
  have hs_old : ¬ (sib a ∈ pre ∨ sib a ∈ rest) := by
    rintro (h | h)
    · exact PLt_asymm hab (hpa _ h)
    · exact PLt_irrefl _ (hbr _ h)
  -- the parent
  have hnr : ¬ R a := not_root_of_sib_node Lw hR (I.node a ha_mem) (I.node _ hs_mem)
  obtain ⟨ha1, ha2, ham⟩ := I.node a ha_mem
  obtain ⟨hp, hpm, _⟩ := Lw.parent_node a ha1 ha2 ham hnr
  have hp_notin : parent a ∉ pre ++ a :: sib a :: rest := by
    intro h
    have := I.anti _ h a ha_mem (anc_parent_self a)
    have := congrArg Prod.fst this
    omega
  have hpre_lt : ∀ c ∈ pre, ¬ PLt (parent a) c := by
    intro c hc h
    exact PLt_asymm (PLt_trans (hpa c hc) hap) h
  refine ⟨⟨?_, ?_, ?_, ?_, ?_, ?_, ?_⟩, hpre_lt⟩
  · -- sorted
    rw [← insertPos_append pre rest hpre_lt]
    apply insertPos_ssorted
    · have hsub : (pre ++ rest).Sublist (pre ++ a :: sib a :: rest) :=
        List.Sublist.append_left (List.Sublist.cons _ (List.Sublist.cons _ (List.Sublist.refl _))) pre
      exact List.Pairwise.sublist hsub I.sorted
    · intro h
      exact hp_notin (hold _ (List.mem_append.1 h))
  · -- node
    intro d hd
    rcases (hnew d).1 hd with rfl | h
    · exact ⟨hp, false, hpm⟩
    · exact I.node d (hold d h)
  · -- sub
    intro d hd t x ht hanc
    rcases (hnew d).1 hd with rfl | h
    · rcases anc_parent_iff'.1 hanc with h1 | h1 | h1
      · subst h1
        have := (Lw.func _ _ _ _ _ ht hpm).2
        cases this
      · exact I.sub a ha_mem t x ht h1
      · exact I.sub _ hs_mem t x ht h1
    · exact I.sub d (hold d h) t x ht hanc
  · -- cover
    intro x hx
    obtain ⟨d, hd, t, ht, hanc⟩ := I.cover x hx
    rcases List.mem_append.1 hd with h | h
    · exact ⟨d, (hnew d).2 (Or.inr (Or.inl h)), t, ht, hanc⟩
    · rcases List.mem_cons.1 h with h | h
      · subst h
        exact ⟨_, (hnew _).2 (Or.inl rfl), t, ht, hanc.parent⟩
      · rcases List.mem_cons.1 h with h | h
        · subst h
          refine ⟨_, (hnew _).2 (Or.inl rfl), t, ht, ?_⟩
          have := hanc.parent
          rwa [parent_sib] at this
        · exact ⟨d, (hnew d).2 (Or.inr (Or.inr h)), t, ht, hanc⟩
  · -- live
    intro d hd
    rcases (hnew d).1 hd with rfl | h
    · obtain ⟨t, x, ht, hanc⟩ := I.live a ha_mem
      exact ⟨t, x, ht, hanc.parent⟩
    · exact I.live d (hold d h)
  · -- antichain
    intro x hx y hy hanc
    rcases (hnew x).1 hx with rfl | h1 <;> rcases (hnew y).1 hy with rfl | h2
    · rfl
    · rcases anc_parent_iff'.1 hanc with h3 | h3 | h3
      · exact h3.symm
      · have := I.anti a ha_mem y (hold y h2) h3
        subst this
        exact absurd h2 ha_old
      · have := I.anti _ hs_mem y (hold y h2) h3
        subst this
        exact absurd h2 hs_old
    · have := I.anti x (hold x h1) a ha_mem (Anc.trans hanc (anc_parent_self a))
      subst this
      exact absurd h1 ha_old
    · exact I.anti x (hold x h1) y (hold y h2) hanc
  · -- nosib
    intro c hc hm
    rcases (hnew _).1 hm with h | h
    · have h1 := PLt_iff.1 (hpa c hc)
      have h2 := congrArg Prod.fst h
      rw [sib_fst] at h2
      omega
    · exact I.nosib c hc (hold _ h)

/-- the final list: no two elements are siblings, so a later element is separated from the
parent of an earlier one -/
theorem sep_of_final {l : List Pos} (hs : SSorted l) (hanti : ∀ a ∈ l, ∀ b ∈ l, Anc a b → a = b)
    (hns : ∀ a ∈ l, sib a ∉ l) :
    l.Pairwise (fun a b => ¬ Anc (parent a) b ∧ ¬ Anc b (parent a)) := by
  apply List.Pairwise.imp_of_mem _ hs
  intro a b ha hb hab
  have hne : a ≠ b := fun e => PLt_irrefl b (e ▸ hab)
  have hrow : a.1 ≤ b.1 := by rcases PLt_iff.1 hab with h | h <;> omega
  constructor
  · intro h
    rcases anc_parent_iff'.1 h with h1 | h1 | h1
    · have : (parent a).1 = a.1 + 1 := rfl
      have := hanti b hb a ha (by rw [h1]; exact anc_parent_self a)
      exact hne this.symm
    · exact hne (hanti a ha b hb h1)
    · have := h1.eq_of_row (by have := h1.1; rw [sib_fst] at this ⊢; omega)
      exact hns a ha (this ▸ hb)
  · intro h
    exact hne (hanti b hb a ha (Anc.trans h (anc_parent_self a))).symm

/-- **the scan**: from a state satisfying the invariant, with enough fuel, `deTwinLoop` on the
encoded list ends in (the encoding of) a list satisfying the invariant with at most one
element left to scan -/
theorem loop_spec (Lw : Laws N R) (hR : ∀ q q', R q → R q' → q.1 = q'.1 → q = q')
    {T : Nat} (hT : T ≤ 63) (hv : ∀ d, IsNode N d → ValidH T d) :
    ∀ (fuel : Nat) (pre suf : List Pos), ZInv N L pre suf → suf.length ≤ fuel + 1 →
      ∃ pre' suf', ZInv N L pre' suf' ∧ suf'.length ≤ 1 ∧
        deTwinLoop (H8 T) fuel pre.length ((pre ++ suf).map (encP T)) = (pre' ++ suf').map (encP T) := by
  intro fuel
  induction fuel with
  | zero =>
    intro pre suf I hl
    exact ⟨pre, suf, I, by omega, rfl⟩
  | succ fuel ih =>
    intro pre suf I hl
    match suf, I, hl with
    | [], I, _ => exact ⟨pre, [], I, by simp, loop_end _ pre [] (by simp)⟩
    | [z], I, _ => exact ⟨pre, [z], I, by simp, loop_end _ pre [z] (by simp)⟩
    | a :: b :: rest, I, hl =>
      have hva : ValidH T a := hv a (I.node a (by simp))
      have hvb : ValidH T b := hv b (I.node b (by simp))
      have hlt : a.1 < T := row_lt_of_PLt hva hvb (sorted_facts I.sorted).2.1
      by_cases hb : b = rsibP a
      · subst hb
        obtain ⟨I', hord⟩ := I.merge Lw hR
        have hpre : ∀ p ∈ pre, ValidH T p := fun p hp => hv p (I.node p (List.mem_append_left _ hp))
        have hrest : ∀ p ∈ rest, ValidH T p := fun p hp =>
          hv p (I.node p (List.mem_append_right _ (List.mem_cons_of_mem _ (List.mem_cons_of_mem _ hp))))
        rw [loop_merge hT fuel pre rest a hpre hrest hva hlt hvb hord]
        apply ih pre _ I'
        rw [length_insertPos]
        simp only [List.length_cons] at hl
        omega
      · rw [loop_adv hT fuel pre rest a b hva hlt hvb hb]
        apply ih (pre ++ [a]) (b :: rest) (I.adv hb)
        simp only [List.length_cons] at hl ⊢
        omega

end inv

/-! ### the specification forest -/

theorem node_valid {F : Forest H} {T : Nat} (hrows : F.rows ≤ T) {d : Pos} (h : IsNode F.nodes d) :
    ValidH T d := by
  obtain ⟨x, b, hm⟩ := h
  obtain ⟨R, hb⟩ := belowRoot_of_mem_nodes hm
  have := belowRoot_valid' hrows hb
  exact ⟨this.1, this.2⟩

theorem froot_row {F : Forest H} : ∀ q q', FRoot F q → FRoot F q' → q.1 = q'.1 → q = q' := by
  intro q q' h1 h2 e
  rw [(eq_rootPos_of_isRootPos h1).2, (eq_rootPos_of_isRootPos h2).2, e]

/-- the sorted canonical targets satisfy the invariant (nothing scanned yet) -/
theorem zinv_start (nz : NZ H) (F : Forest H) (hn : F.numLeaves < 2 ^ 64) (hy : Hyg F)
    {L : List H} {ts : List Pos} {ps : List H} (hnd : L.Nodup) (hc : F.canon L = some (ts, ps)) :
    ZInv F.nodes L [] (sortPos ts) := by
  have Lw := laws_forest nz F hn hy
  obtain ⟨hts, hpos, _, _⟩ := SpecPlan.canon_spec hc
  have hmem : ∀ d, d ∈ [] ++ sortPos ts ↔ ∃ l ∈ L, F.posOf l = some d := by
    intro d
    rw [List.nil_append, mem_sortPos, hts, List.mem_map]
    constructor
    · rintro ⟨l, hl, rfl⟩
      obtain ⟨p, hp⟩ := hpos l hl
      exact ⟨l, hl, by rw [hp]; rfl⟩
    · rintro ⟨l, hl, hp⟩
      exact ⟨l, hl, by rw [hp]; rfl⟩
  refine ⟨?_, ?_, ?_, ?_, ?_, ?_, ?_⟩
  · rw [List.nil_append]
    exact sortPos_ssorted (SpecPlan.canon_targets_nodup hc hnd)
  · intro d hd
    obtain ⟨l, _, hp⟩ := (hmem d).1 hd
    exact ⟨l, true, posOf_mem hp⟩
  · intro d hd t x ht hanc
    obtain ⟨l, hl, hp⟩ := (hmem d).1 hd
    have := Lw.leaf_below d l t x true (posOf_mem hp) ht hanc
    subst this
    have := (Lw.func _ _ _ _ _ ht (posOf_mem hp)).1
    rw [this]; exact hl
  · intro x hx
    obtain ⟨p, hp⟩ := hpos x hx
    exact ⟨p, (hmem p).2 ⟨x, hx, hp⟩, p, posOf_mem hp, Anc.refl p⟩
  · intro d hd
    obtain ⟨l, _, hp⟩ := (hmem d).1 hd
    exact ⟨d, l, posOf_mem hp, Anc.refl d⟩
  · intro a ha b hb hanc
    obtain ⟨la, _, hpa⟩ := (hmem a).1 ha
    obtain ⟨lb, _, hpb⟩ := (hmem b).1 hb
    exact (Lw.leaf_below a la b lb true (posOf_mem hpa) (posOf_mem hpb) hanc).symm
  · intro c hc; cases hc

/-- the list handed to `deTwin`: the encodings (allocation `T`) of the sorted targets -/
theorem sorted_translated {F : Forest H} {ts : List Pos} (hts : ∀ p ∈ ts, IsNode F.nodes p)
    {T : Nat} (hT : T ≤ 63) (hrows : F.rows ≤ T) :
    (if H8 T ≠ H8 F.rows
      then translatePositions (sortU64 (ts.map (encP F.rows))) (H8 F.rows) (H8 T)
      else sortU64 (ts.map (encP F.rows))) = (sortPos ts).map (encP T) := by
  have hr63 : F.rows ≤ 63 := by omega
  rw [sortU64_encP hr63 ts (fun p hp => node_valid (Nat.le_refl _) (hts p hp))]
  by_cases e : T = F.rows
  · subst e
    rw [if_neg (fun h => h rfl)]
  · have hne : H8 T ≠ H8 F.rows := by
      intro hc
      have := congrArg BitVec.toNat hc
      rw [toNat_H8 hT, toNat_H8 hr63] at this
      exact e this
    rw [if_pos hne]
    unfold translatePositions
    rw [List.map_map]
    apply List.map_congr_left
    intro p hp
    have hp' := hts p (mem_sortPos.1 hp)
    have h1 : ValidH F.rows p := node_valid (Nat.le_refl _) hp'
    have h2 : ValidH T p := node_valid hrows hp'
    exact Props.C16.translatePos_enc hr63 h1.1 h1.2 hT h2.1 h2.2

/-- the full result of the scan: besides `DT`, the list is strictly sorted row-major, an antichain,
contains no pair of siblings, and consists of positions of the allocation `T` -/
theorem deTwin_spec_strong (nz : NZ H) (F : Forest H) (hn : F.numLeaves < 2 ^ 63) (hy : Hyg F)
    {L : List H} {ts : List Pos} {ps : List H} (hnd : L.Nodup) (hc : F.canon L = some (ts, ps))
    {T : Nat} (hT : T ≤ 63) (hrows : F.rows ≤ T) :
    ∃ ds : List Pos, DT F L ds ∧ SSorted ds ∧ (∀ a ∈ ds, ∀ b ∈ ds, Anc a b → a = b) ∧
      (∀ a ∈ ds, sib a ∉ ds) ∧ (∀ d ∈ ds, ValidH T d) ∧
      deTwin (if H8 T ≠ H8 F.rows
          then translatePositions (sortU64 (ts.map (encP F.rows))) (H8 F.rows) (H8 T)
          else sortU64 (ts.map (encP F.rows))) (H8 T) = ds.map (encP T) := by
  have hn64 : F.numLeaves < 2 ^ 64 := Nat.lt_trans hn (by decide)
  have Lw := laws_forest nz F hn64 hy
  have I0 := zinv_start nz F hn64 hy hnd hc
  have hts : ∀ p ∈ ts, IsNode F.nodes p := fun p hp =>
    I0.node p (by rw [List.nil_append]; exact mem_sortPos.2 hp)
  rw [sorted_translated hts hT hrows]
  unfold deTwin
  obtain ⟨pre', suf', I', hlen, heq⟩ := loop_spec Lw froot_row hT (fun d hd => node_valid hrows hd)
    (2 * ((sortPos ts).map (encP T)).length + 1) [] (sortPos ts) I0 (by rw [List.length_map]; omega)
  exact ⟨pre' ++ suf', ⟨I'.node, I'.sub, I'.cover, sep_of_final I'.sorted I'.anti (I'.final hlen)⟩,
    I'.sorted, I'.anti, I'.final hlen, fun d hd => node_valid hrows (I'.node d hd), heq⟩

/-- `deTwin_spec_strong`, and every detwinned target has a leaf below it -/
theorem deTwin_spec_live (nz : NZ H) (F : Forest H) (hn : F.numLeaves < 2 ^ 63) (hy : Hyg F)
    {L : List H} {ts : List Pos} {ps : List H} (hnd : L.Nodup) (hc : F.canon L = some (ts, ps))
    {T : Nat} (hT : T ≤ 63) (hrows : F.rows ≤ T) :
    ∃ ds : List Pos, DT F L ds ∧ (∀ d ∈ ds, ∃ t x, (t, x, true) ∈ F.nodes ∧ Anc d t) ∧
      (∀ d ∈ ds, ValidH T d) ∧
      deTwin (if H8 T ≠ H8 F.rows
          then translatePositions (sortU64 (ts.map (encP F.rows))) (H8 F.rows) (H8 T)
          else sortU64 (ts.map (encP F.rows))) (H8 T) = ds.map (encP T) := by
  have hn64 : F.numLeaves < 2 ^ 64 := Nat.lt_trans hn (by decide)
  have Lw := laws_forest nz F hn64 hy
  have I0 := zinv_start nz F hn64 hy hnd hc
  have hts : ∀ p ∈ ts, IsNode F.nodes p := fun p hp =>
    I0.node p (by rw [List.nil_append]; exact mem_sortPos.2 hp)
  rw [sorted_translated hts hT hrows]
  unfold deTwin
  obtain ⟨pre', suf', I', hlen, heq⟩ := loop_spec Lw froot_row hT (fun d hd => node_valid hrows hd)
    (2 * ((sortPos ts).map (encP T)).length + 1) [] (sortPos ts) I0 (by rw [List.length_map]; omega)
  exact ⟨pre' ++ suf', ⟨I'.node, I'.sub, I'.cover, sep_of_final I'.sorted I'.anti (I'.final hlen)⟩,
    I'.live, fun d hd => node_valid hrows (I'.node d hd), heq⟩

/-- **what `remove` hands to `removeSingle`**: sorting the canonical targets, translating them to
the allocation `T` and detwinning gives the encodings of a list `ds` with `DT F L ds` -/
theorem deTwin_spec (nz : NZ H) (F : Forest H) (hn : F.numLeaves < 2 ^ 63) (hy : Hyg F)
    {L : List H} {ts : List Pos} {ps : List H} (hnd : L.Nodup) (hc : F.canon L = some (ts, ps))
    {T : Nat} (hT : T ≤ 63) (hrows : F.rows ≤ T) :
    ∃ ds : List Pos, DT F L ds ∧
      deTwin (if H8 T ≠ H8 F.rows
          then translatePositions (sortU64 (ts.map (encP F.rows))) (H8 F.rows) (H8 T)
          else sortU64 (ts.map (encP F.rows))) (H8 T) = ds.map (encP T) := by
  obtain ⟨ds, h1, _, _, _, _, h2⟩ := deTwin_spec_strong nz F hn hy hnd hc hT hrows
  exact ⟨ds, h1, h2⟩

/-! ### non-vacuity -/

namespace Example
open Props.C09.Example MapSInv.Example

/-- the hypotheses of `deTwin_spec` hold of the five-leaf forest `F5` (rows 3) in the allocation
`T = 63`, deleting all five leaves in a scrambled order -/
example : ∃ ts ps ds, F5.canon [T.leaf 3, T.leaf 0, T.leaf 4, T.leaf 2, T.leaf 1] = some (ts, ps) ∧
    DT F5 [T.leaf 3, T.leaf 0, T.leaf 4, T.leaf 2, T.leaf 1] ds ∧
    deTwin (if H8 63 ≠ H8 F5.rows
        then translatePositions (sortU64 (ts.map (encP F5.rows))) (H8 F5.rows) (H8 63)
        else sortU64 (ts.map (encP F5.rows))) (H8 63) = ds.map (encP 63) := by
  have hc : F5.canon [T.leaf 3, T.leaf 0, T.leaf 4, T.leaf 2, T.leaf 1] =
      some ([(0, 3), (0, 0), (0, 4), (0, 2), (0, 1)], []) := by decide +kernel
  obtain ⟨ds, h1, h2⟩ := deTwin_spec crT.toNZ F5 (by decide) F5_hyg (by decide) hc (T := 63) (by decide)
    (by decide)
  exact ⟨_, _, ds, hc, h1, h2⟩

/-- … and the value: the root leaf `(0, 4)` and the root `(2, 0)` of the four-leaf tree (merges
on two levels) -/
example : deTwin (if H8 63 ≠ H8 F5.rows
      then translatePositions (sortU64 ([(0, 3), (0, 0), (0, 4), (0, 2), (0, 1)].map (encP F5.rows)))
        (H8 F5.rows) (H8 63)
      else sortU64 ([(0, 3), (0, 0), (0, 4), (0, 2), (0, 1)].map (encP F5.rows))) (H8 63) =
    [(0, 4), (2, 0)].map (encP 63) := by decide +kernel

/-- a partial deletion: leaves 1, 2, 3 of `F5` give the targets `(0, 1)` and `(1, 1)` -/
example : ∃ ts ps ds, F5.canon [T.leaf 3, T.leaf 1, T.leaf 2] = some (ts, ps) ∧
    DT F5 [T.leaf 3, T.leaf 1, T.leaf 2] ds ∧
    deTwin (sortU64 (ts.map (encP F5.rows))) (H8 F5.rows) = ds.map (encP F5.rows) ∧
    deTwin (sortU64 (ts.map (encP F5.rows))) (H8 F5.rows) = [(0, 1), (1, 1)].map (encP 3) := by
  have hc : F5.canon [T.leaf 3, T.leaf 1, T.leaf 2] = some ([(0, 3), (0, 1), (0, 2)], [T.leaf 0]) := by
    decide +kernel
  obtain ⟨ds, h1, h2⟩ := deTwin_spec crT.toNZ F5 (by decide) F5_hyg (by decide) hc (T := F5.rows) (by decide)
    (Nat.le_refl _)
  rw [if_neg (fun h => h rfl)] at h2
  exact ⟨_, _, ds, hc, h1, h2, by decide +kernel⟩

/-- `deTwin` on raw positions of a 3-row forest: merges on two levels, and a merge whose parent
pairs up with an element in front of it (`[2, 3, 8] → [8, 9] → [12]`) -/
example : deTwin [0#64, 1#64, 2#64, 3#64] 3#8 = [12#64] ∧
    deTwin [0#64, 1#64, 2#64, 3#64, 4#64, 5#64] 3#8 = [10#64, 12#64] ∧
    deTwin [2#64, 3#64, 8#64] 3#8 = [12#64] ∧
    deTwin [1#64, 2#64, 5#64, 6#64] 3#8 = [1#64, 2#64, 5#64, 6#64] ∧
    deTwin [0#64, 1#64, 2#64, 3#64, 4#64, 5#64, 6#64, 7#64] 3#8 = [14#64] := by decide +kernel

end Example

end UtreexoVerif.Proofs.MapDeTwin
