/-
  Pointer forest, heap model: soundness of the executable abstraction function / check
  (`Model/PollardHeapWF.lean`) with respect to the representation predicates.
-/
import UtreexoVerif.Proofs.PollardHeap
set_option linter.unusedSectionVars false
set_option linter.unusedVariables false

namespace UtreexoVerif.Proofs.PollardHeap
open UtreexoVerif UtreexoVerif.Model UtreexoVerif.Model.PollardHeap UtreexoVerif.Spec Hasher

variable {H : Type} [DecidableEq H] [Hasher H]

theorem readSub_sound (hp : Heap H) : ∀ (fuel n holder : Nat) (i : SubInfo H),
    readSub hp fuel n holder = some i → Sub hp n holder i.tree i.fp i.leaves := by
  intro fuel
  induction fuel with
  | zero => intro n holder i h; simp [readSub] at h
  | succ fuel ih =>
    intro n holder i h
    unfold readSub at h
    cases hn : hp[n]? with
    | none => simp [hn] at h
    | some nn =>
      cases hh : hp[holder]? with
      | none => simp [hn, hh] at h
      | some hn0 =>
        simp only [hn, hh] at h
        cases hL : hn0.lNiece with
        | none =>
          cases hR : hn0.rNiece with
          | none =>
            simp only [hL, hR, Option.some.injEq] at h
            subst h
            exact Sub.leaf hn rfl hh hL hR
          | some r => simp [hL, hR] at h
        | some l =>
          cases hR : hn0.rNiece with
          | none => simp [hL, hR] at h
          | some r =>
            simp only [hL, hR] at h
            cases el : hp[l]? with
            | none => simp [el] at h
            | some ln =>
              cases er : hp[r]? with
              | none => simp [el, er] at h
              | some rn =>
                simp only [el, er] at h
                split at h
                · rename_i haunt
                  cases ha : readSub hp fuel l r with
                  | none => simp [ha] at h
                  | some a =>
                    cases hb : readSub hp fuel r l with
                    | none => simp [ha, hb] at h
                    | some b =>
                      simp only [ha, hb] at h
                      split at h
                      · rename_i hd
                        simp only [Option.some.injEq] at h
                        subst h
                        exact Sub.node hn hd hh hL hR el er haunt.1 haunt.2 (ih _ _ _ ha) (ih _ _ _ hb)
                      · cases h
                · cases h

/-- footprint and leaves of an optional subtree -/
def fpOf (o : Option (SubInfo H)) : List Nat :=
  match o with
  | some i => i.fp
  | none => []

def lvOf (o : Option (SubInfo H)) : List (H × Nat) :=
  match o with
  | some i => i.leaves
  | none => []

theorem readRoot_sound (hp : Heap H) (row r : Nat) (o : Option (SubInfo H))
    (h : readRoot hp row r = some o) : ReprRoot hp r (o.map (·.tree)) (fpOf o) (lvOf o) := by
  unfold readRoot at h
  cases hr : hp[r]? with
  | none => simp [hr] at h
  | some rn =>
    simp only [hr] at h
    split at h
    · cases h
    · rename_i haunt
      have haunt' : rn.aunt = none := by
        cases ha : rn.aunt with
        | none => rfl
        | some a => exact absurd (by simp [ha]) haunt
      split at h
      · rename_i he
        simp only [Option.some.injEq] at h
        subst h
        unfold isEmptyRoot at he
        simp only [hr, Bool.and_eq_true, decide_eq_true_eq, Option.isNone_iff_eq_none] at he
        exact ⟨⟨rn, hr, haunt', he.1.1, he.1.2, he.2⟩, rfl, rfl⟩
      · cases hs : readSub hp (row + 1) r r with
        | none => simp [hs] at h
        | some i =>
          simp only [hs, Option.map_some, Option.some.injEq] at h
          subst h
          exact ⟨⟨rn, hr, haunt'⟩, readSub_sound hp _ _ _ _ hs⟩

theorem readRoots_sound (hp : Heap H) : ∀ (rows rs : List Nat) (l : List (Nat × Option (SubInfo H))),
    readRoots hp rows rs = some l →
    ReprRoots hp rs (l.map (fun e => e.2.map (·.tree))) (ownedOf l) (leavesOf l) ∧
      l.length = rows.length ∧ l.map (·.1) = rs := by
  intro rows
  induction rows with
  | nil =>
    intro rs l h
    cases rs with
    | nil => simp [readRoots] at h; subst h; exact ⟨ReprRoots.nil, rfl, rfl⟩
    | cons r rs => simp [readRoots] at h
  | cons row rows ih =>
    intro rs l h
    cases rs with
    | nil => simp [readRoots] at h
    | cons r rs =>
      unfold readRoots at h
      cases h1 : readRoot hp row r with
      | none => simp [h1] at h
      | some o =>
        cases h2 : readRoots hp rows rs with
        | none => simp [h1, h2] at h
        | some rest =>
          simp only [h1, h2, Option.some.injEq] at h
          subst h
          obtain ⟨a, b, c⟩ := ih rs rest h2
          refine ⟨?_, by simp [b], by simp [c]⟩
          have := ReprRoots.cons (readRoot_sound hp row r o h1) a
          have e1 : ownedOf ((r, o) :: rest) = r :: fpOf o ++ ownedOf rest := by
            cases o <;> simp [ownedOf, fpOf]
          have e2 : leavesOf ((r, o) :: rest) = lvOf o ++ leavesOf rest := by
            cases o <;> simp [leavesOf, lvOf]
          rw [e1, e2]
          simpa using this

theorem mapOK_of_checks (m lv : List (H × Nat)) (h2 : (m.map (·.1)).Nodup)
    (h3 : m.all (fun e => lv.contains e) = true) (h4 : lv.all (fun e => m.contains e) = true) :
    MapOK m lv := by
  refine ⟨h2, fun e => ⟨fun he => ?_, fun he => ?_⟩⟩
  · have := List.all_eq_true.mp h3 e he
    simpa using this
  · have := List.all_eq_true.mp h4 e he
    simpa using this

/-- what passing the four tests of `wfCheck` means -/
theorem wfCheck_tests (p : Pollard H) (hfull : p.full = true) (infos : List (Nat × Option (SubInfo H)))
    (hr : readRoots p.heap (treeRows p.numLeaves.toNat) p.roots = some infos) (h : wfCheck p = none) :
    (ownedOf infos).Nodup ∧ MapOK p.nodeMap (leavesOf infos) := by
  unfold wfCheck at h
  simp only [hr, hfull, Bool.true_and] at h
  by_cases h1 : (ownedOf infos).Nodup
  · by_cases h2 : (p.nodeMap.map (·.1)).Nodup
    · cases h3 : p.nodeMap.all (fun e => (leavesOf infos).contains e) with
      | false => simp only [h1, h2, decide_true, Bool.not_true, Bool.false_eq_true, if_false] at h; rw [h3] at h; simp at h
      | true =>
        cases h4 : (leavesOf infos).all (fun e => p.nodeMap.contains e) with
        | false => simp only [h1, h2, decide_true, Bool.not_true, Bool.false_eq_true, if_false] at h; rw [h3, h4] at h; simp at h
        | true => exact ⟨h1, mapOK_of_checks _ _ h2 h3 h4⟩
    · simp [h1, h2] at h
  · simp [h1] at h

/-- **soundness of the executable check**: a full pollard that passes `wfCheck` is well formed -/
theorem wfCheck_sound (p : Pollard H) (hfull : p.full = true) (h : wfCheck p = none) : WF p := by
  cases hr : readRoots p.heap (treeRows p.numLeaves.toNat) p.roots with
  | none => unfold wfCheck at h; simp [hr] at h
  | some infos =>
    obtain ⟨a, b, c⟩ := readRoots_sound p.heap _ _ infos hr
    obtain ⟨h1, h2⟩ := wfCheck_tests p hfull infos hr h
    exact ⟨_, _, _, a, h1, h2, by simp [b]⟩

/-- **soundness of the abstraction function**: what `absTrees` returns is represented by the
heap, root by root -/
theorem absTrees_sound (p : Pollard H) (ts : List (Nat × Option (CTree H)))
    (h : absTrees p = some ts) :
    ∃ owned lv, ReprRoots p.heap p.roots (ts.map (·.2)) owned lv ∧
      ts.map (·.1) = treeRows p.numLeaves.toNat := by
  unfold absTrees at h
  cases hr : readRoots p.heap (treeRows p.numLeaves.toNat) p.roots with
  | none => simp [hr] at h
  | some infos =>
    simp only [hr, Option.map_some, Option.some.injEq] at h
    obtain ⟨a, b, c⟩ := readRoots_sound p.heap _ _ infos hr
    subst h
    refine ⟨ownedOf infos, leavesOf infos, ?_, ?_⟩
    · rw [List.map_snd_zip (by simp [b])]
      exact a
    · rw [List.map_fst_zip (by simp [b])]

/-- the check and the abstraction function together give the abstraction relation -/
theorem abs_of_check (p : Pollard H) (F : Forest H) (hfull : p.full = true)
    (hc : wfCheck p = none) (hn : p.numLeaves.toNat = F.numLeaves)
    (ht : absTrees p = some F.trees) : Abs p F := by
  refine ⟨hn, ?_⟩
  unfold absTrees at ht
  cases hr : readRoots p.heap (treeRows p.numLeaves.toNat) p.roots with
  | none => simp [hr] at ht
  | some infos =>
    simp only [hr, Option.map_some, Option.some.injEq] at ht
    obtain ⟨a, b, c⟩ := readRoots_sound p.heap _ _ infos hr
    obtain ⟨h1, h2⟩ := wfCheck_tests p hfull infos hr hc
    have e : F.trees.map (·.2) = infos.map (fun e => e.2.map (·.tree)) := by
      rw [← ht, List.map_snd_zip (by simp [b])]
    rw [e]
    exact ⟨_, _, a, h1, h2⟩

/-! ### the represented trees are determined by the heap -/

theorem Sub.det {hp : Heap H} {n h : Nat} {t : CTree H} {fp : List Nat} {lv : List (H × Nat)}
    (s1 : Sub hp n h t fp lv) : ∀ {t' : CTree H} {fp' : List Nat} {lv' : List (H × Nat)},
    Sub hp n h t' fp' lv' → t = t' := by
  induction s1 with
  | leaf h1 h2 h3 h4 h5 =>
    intro t' fp' lv' s2
    cases s2 with
    | leaf g1 g2 g3 g4 g5 => rw [h1] at g1; cases g1; rw [← h2, ← g2]
    | node g1 g2 g3 g4 g5 => rw [h3] at g3; cases g3; rw [h4] at g4; cases g4
  | node h1 h2 h3 h4 h5 h6 h7 h8 h9 sa sb iha ihb =>
    intro t' fp' lv' s2
    cases s2 with
    | leaf g1 g2 g3 g4 g5 => rw [h3] at g3; cases g3; rw [h4] at g4; cases g4
    | node g1 g2 g3 g4 g5 g6 g7 g8 g9 ga gb =>
      rw [h3] at g3; cases g3
      rw [h4] at g4; cases g4
      rw [h5] at g5; cases g5
      rw [iha ga, ihb gb]

/-- root by root, the trees a heap represents are unique as soon as no present tree hashes to
the all-zero value (an empty root and a lone all-zero leaf look the same — in Go as well) -/
theorem ReprRoots.det {hp : Heap H} {rs : List Nat} {ts : List (Option (CTree H))} {o : List Nat}
    {l : List (H × Nat)} (h1 : ReprRoots hp rs ts o l) :
    ∀ {ts' : List (Option (CTree H))} {o' : List Nat} {l' : List (H × Nat)},
    ReprRoots hp rs ts' o' l' → (∀ t, some t ∈ ts → t.hash ≠ zero) → (∀ t, some t ∈ ts' → t.hash ≠ zero) →
    ts = ts' := by
  induction h1 with
  | nil => intro ts' o' l' h2 _ _; cases h2; rfl
  | @cons r t fp lv rs ts owned lvs a b ih =>
    intro ts' o' l' h2 z1 z2
    cases h2 with
    | @cons _ t' fp' lv' _ ts'' owned' lvs' a' b' =>
      have e := ih b' (fun t ht => z1 t (by simp [ht])) (fun t ht => z2 t (by simp [ht]))
      subst e
      congr 1
      cases t with
      | none =>
        cases t' with
        | none => rfl
        | some t' =>
          exfalso
          obtain ⟨⟨rn, e1, _, e2, _, _⟩, _⟩ := a
          obtain ⟨_, s2⟩ := a'
          obtain ⟨x, ex, dx⟩ := s2.hash
          rw [e1] at ex; cases ex
          exact z2 t' (by simp) (dx.symm.trans e2)
      | some t =>
        cases t' with
        | none =>
          exfalso
          obtain ⟨⟨rn, e1, _, e2, _, _⟩, _⟩ := a'
          obtain ⟨_, s2⟩ := a
          obtain ⟨x, ex, dx⟩ := s2.hash
          rw [e1] at ex; cases ex
          exact z1 t (by simp) (dx.symm.trans e2)
        | some t' =>
          obtain ⟨_, s1⟩ := a
          obtain ⟨_, s2⟩ := a'
          rw [s1.det s2]

end UtreexoVerif.Proofs.PollardHeap
