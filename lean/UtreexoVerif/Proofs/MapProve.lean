/-
  `MapPollard.Prove` (model) on a state satisfying the storage invariant returns the
  canonical proof of the specification forest: helper lemmas.
-/
import UtreexoVerif.Proofs.MapPrune
import UtreexoVerif.Props.C16c

namespace UtreexoVerif.Proofs.MapProve
open UtreexoVerif Model Spec Spec.Forest Proofs MapAL MapInv MapPrune
set_option linter.unusedSectionVars false

variable {H : Type} [DecidableEq H] [Hasher H]

/-! ### live leaves of the collapsed forest are never below one another -/

theorem under_trans {r o : Nat} {x y : Pos} (hx : SpecNodes.Under r o x) (hy : SpecNodes.Under x.1 x.2 y) : SpecNodes.Under r o y := by
  obtain ⟨h1, h2⟩ := hx
  obtain ⟨h3, h4⟩ := hy
  refine ⟨by omega, ?_⟩
  rw [← h2, ← h4, Nat.div_div_eq_div_mul, ← Nat.pow_add]
  congr 2; omega

theorem nodes_leaf_antichain : ∀ (t : CTree H) (r o : Nat), SpecNodes.depth t ≤ r →
    ∀ x ∈ t.nodes r o, x.2.2 = true → ∀ y ∈ t.nodes r o, SpecNodes.Under x.1.1 x.1.2 y.1 → y = x := by
  intro t
  induction t with
  | leaf h =>
    intro r o _ x hx _ y hy _
    simp only [CTree.nodes, List.mem_singleton] at hx hy
    rw [hx, hy]
  | node a b iha ihb =>
    intro r o hd x hx hl y hy hu
    simp only [SpecNodes.depth] at hd
    have hr : 1 ≤ r := by omega
    simp only [CTree.nodes, List.mem_cons, List.mem_append] at hx hy
    have split : ∀ (z : Pos) , SpecNodes.Under (r - 1) (2 * o) z → SpecNodes.Under (r - 1) (2 * o + 1) z → False := by
      intro z h1 h2
      have := h1.2.symm.trans h2.2
      omega
    rcases hx with rfl | hx | hx
    · simp at hl
    · have ux := SpecNodes.nodes_under a (r - 1) (2 * o) (by omega) x hx
      rcases hy with rfl | hy | hy
      · exfalso
        have := hu.1
        have := ux.1
        simp only at *
        omega
      · exact iha (r - 1) (2 * o) (by omega) x hx hl y hy hu
      · exfalso
        have uy := SpecNodes.nodes_under b (r - 1) (2 * o + 1) (by omega) y hy
        exact split y.1 (under_trans ux hu) uy
    · have ux := SpecNodes.nodes_under b (r - 1) (2 * o + 1) (by omega) x hx
      rcases hy with rfl | hy | hy
      · exfalso
        have := hu.1
        have := ux.1
        simp only at *
        omega
      · exfalso
        have uy := SpecNodes.nodes_under a (r - 1) (2 * o) (by omega) y hy
        exact split y.1 uy (under_trans ux hu)
      · exact ihb (r - 1) (2 * o + 1) (by omega) x hx hl y hy hu

/-- a node of the forest that lies at or below a leaf node is that leaf node -/
theorem leaf_antichain {F : Forest H} {x y : Pos × H × Bool} (hx : x ∈ F.nodes) (hy : y ∈ F.nodes)
    (hl : x.2.2 = true) (hu : SpecNodes.Under x.1.1 x.1.2 y.1) : y = x := by
  obtain ⟨h1, ⟨hb1, _⟩, hx'⟩ := SpecNodes.mem_nodes.1 hx
  obtain ⟨h2, ⟨hb2, _⟩, hy'⟩ := SpecNodes.mem_nodes.1 hy
  have ux := SpecNodes.treeNodes_under F h1 x hx'
  have uy := SpecNodes.treeNodes_under F h2 y hy'
  have uxy := under_trans ux hu
  rcases Nat.lt_trichotomy h1 h2 with hlt | heq | hgt
  · exact (SpecNodes.under_disjoint hlt hb2 uy uxy).elim
  · subst heq
    unfold SpecNodes.treeNodes at hx' hy'
    cases ht : collapse h1 ((F.slots.drop (treeStart F.numLeaves h1)).take (2 ^ h1)) with
    | some t =>
      rw [ht] at hx' hy'
      exact nodes_leaf_antichain t _ _ (SpecNodes.collapse_depth _ _ _ ht) x hx' hl y hy' hu
    | none =>
      rw [ht] at hx'
      simp only [List.mem_singleton] at hx'
      subst hx'
      simp at hl
  · exact (SpecNodes.under_disjoint hgt hb1 uxy uy).elim

theorem anc_iff_under {a b : Pos} : Anc a b ↔ SpecNodes.Under a.1 a.2 b := by
  unfold Anc SpecNodes.Under
  constructor
  · rintro ⟨h1, h2⟩; exact ⟨h1, h2.symm⟩
  · rintro ⟨h1, h2⟩; exact ⟨h1, h2.symm⟩

variable {F : Forest H}

/-- positions of live leaves form an antichain -/
theorem posOf_antichain {x y : H} {a b : Pos} (hx : F.posOf x = some a) (hy : F.posOf y = some b)
    (h : Anc a b) : a = b := by
  have := leaf_antichain (posOf_mem hx) (posOf_mem hy) rfl (anc_iff_under.1 h)
  exact (congrArg Prod.fst this).symm

/-! ### the targets of a `Prove` call -/

theorem cached_targets {m : MapPollard H} (inv : Inv m F) : ∀ (L : List H), (∀ x ∈ L, m.hasCached x = true) →
    ∃ tgts : List Pos, L.mapM F.posOf = some tgts ∧
      L.map (fun h => (m.getCached h).getD 0#64) = tgts.map (encP m.totalRows.toNat) ∧
      (∀ t ∈ tgts, ∃ x ∈ L, F.posOf x = some t) ∧ (L.Nodup → tgts.Nodup)
  | [], _ => ⟨[], rfl, rfl, by simp, by simp⟩
  | x :: L, hL => by
    obtain ⟨tgts, h1, h2, h3, h4⟩ := cached_targets inv L (fun y hy => hL y (List.mem_cons_of_mem _ hy))
    have hx := hL x List.mem_cons_self
    rw [hasCached_eq] at hx
    cases hc : m.getCached x with
    | none => rw [hc] at hx; cases hx
    | some p =>
      obtain ⟨t, ht, hp⟩ := inv.cached_pos x p hc
      refine ⟨t :: tgts, ?_, ?_, ?_, ?_⟩
      · rw [List.mapM_cons, ht, h1]; rfl
      · rw [List.map_cons, List.map_cons, h2, hc, hp]; rfl
      · intro t' ht'
        rcases List.mem_cons.1 ht' with rfl | h
        · exact ⟨x, List.mem_cons_self, ht⟩
        · obtain ⟨y, hy, hyp⟩ := h3 t' h
          exact ⟨y, List.mem_cons_of_mem _ hy, hyp⟩
      · intro hnd
        rw [List.nodup_cons] at hnd ⊢
        refine ⟨?_, h4 hnd.2⟩
        intro hmem
        obtain ⟨y, hy, hyp⟩ := h3 t hmem
        have := posOf_inj hyp ht
        rw [this] at hy
        exact hnd.1 hy

/-- the hashes stored at required positions are the hashes of the specification -/
theorem stored_hashes {m : MapPollard H} (inv : Inv m F) : ∀ (qs : List Pos),
    (∀ q ∈ qs, Required F (fun x => m.hasCached x = true) q) →
    ∃ ls : List (Leaf H), (qs.map (encP m.totalRows.toNat)).mapM (fun p => m.getNode p) = some ls ∧
      qs.mapM F.nodeAt = some (ls.map (·.hash))
  | [], _ => ⟨[], rfl, rfl⟩
  | q :: qs, h => by
    obtain ⟨ls, h1, h2⟩ := stored_hashes inv qs (fun q' hq' => h q' (List.mem_cons_of_mem _ hq'))
    have hreq := h q List.mem_cons_self
    have hst := inv.has_needed q hreq
    obtain ⟨R, hb⟩ := required_belowRoot hreq
    have hv : Valid m.totalRows.toNat q := belowRoot_valid' inv.rows_le hb
    rw [hasNode_eq] at hst
    cases hg : m.getNode (encP m.totalRows.toNat q) with
    | none => rw [hg] at hst; cases hst
    | some l =>
      have htrue := getNode_true inv hv hg
      refine ⟨l :: ls, ?_, ?_⟩
      · rw [List.map_cons, List.mapM_cons, hg, h1]; rfl
      · rw [List.mapM_cons, htrue, h2]; rfl

/-! ### `Prove` -/

theorem proofPositions_congr {A B : List Pos} (h : ∀ t, t ∈ A ↔ t ∈ B) :
    F.proofPositions A = F.proofPositions B := by
  apply eq_of_ssorted
  · unfold Forest.proofPositions; exact sortDedup_ssorted _
  · unfold Forest.proofPositions; exact sortDedup_ssorted _
  · intro q
    unfold Forest.proofPositions
    simp only [mem_sortDedup, List.mem_filter, List.mem_map, List.mem_flatMap, Bool.not_eq_true',
      List.contains_eq_mem, decide_eq_false_iff_not, h]

/-- **`Prove` of cached leaves returns the canonical proof**: for a state satisfying the
invariant and any duplicate-free list `L` of cached leaves, `Prove L` succeeds and returns
the targets of `canon F L` (positions of the leaves, in the order of `L`, in API
coordinates) with exactly the proof hashes of `canon F L`. -/
theorem prove_canon {m : MapPollard H} (inv : Inv m F) (L : List H)
    (hL : ∀ x ∈ L, m.hasCached x = true) (hnd : L.Nodup) :
    ∃ tgts hashes, F.canon L = some (tgts, hashes) ∧
      m.prove L = .ok (tgts.map (encP F.rows), hashes) := by
  have hT := inv.total_le
  obtain ⟨tgts, h1, h2, h3, h4⟩ := cached_targets inv L hL
  have htv : ∀ t ∈ tgts, Valid m.totalRows.toNat t := by
    intro t ht
    obtain ⟨x, _, hp⟩ := h3 t ht
    exact posOf_valid inv.rows_le hp
  have htv' : ∀ t ∈ tgts, Valid F.rows t := by
    intro t ht
    obtain ⟨x, _, hp⟩ := h3 t ht
    exact posOf_valid (Nat.le_refl _) hp
  -- the sorted targets satisfy the hypotheses of `proofPositions_spec`
  have hyp : PPHyp F.numLeaves (sortPos tgts) := {
    inForest := by
      intro t ht
      obtain ⟨x, _, hp⟩ := h3 t (mem_sortPos.1 ht)
      exact posOf_belowRoot hp
    sorted := sortPos_ssorted (h4 hnd)
    anti := by
      intro a ha b hb hab
      obtain ⟨x, _, hpa⟩ := h3 a (mem_sortPos.1 ha)
      obtain ⟨y, _, hpb⟩ := h3 b (mem_sortPos.1 hb)
      exact posOf_antichain hpa hpb hab }
  have hn64 : F.numLeaves < 2 ^ 64 := by have := inv.n_lt; omega
  have hPP := Props.C16.proofPositions_spec F (H := m.totalRows.toNat) (h := F.rows)
    (BitVec.ofNat 64 F.numLeaves) (toNat_ofNat64_of_lt hn64) (SpecView.treeRows_eq inv.n_lt) hT inv.rows_le
    (sortPos tgts) hyp
  have hcongr : F.proofPositions (sortPos tgts) = F.proofPositions tgts :=
    proofPositions_congr (fun t => mem_sortPos)
  rw [hcongr] at hPP
  -- every canonical proof position is required, hence stored with its true hash
  have hreq : ∀ q ∈ F.proofPositions tgts, Required F (fun x => m.hasCached x = true) q := by
    intro q hq
    rw [← hcongr] at hq
    obtain ⟨w, ⟨t, ht, R, hb, hanc, hle⟩, hnr, rfl, _⟩ := (mem_spec_proofPositions F hyp q).1 hq
    obtain ⟨x, hx, hp⟩ := h3 t (mem_sortPos.1 ht)
    exact Or.inr ⟨x, t, hL x hx, hp, Or.inr ⟨w, ⟨R, hb, hanc, hle⟩, hnr, rfl⟩⟩
  obtain ⟨ls, hs1, hs2⟩ := stored_hashes inv (F.proofPositions tgts) hreq
  refine ⟨tgts, ls.map (·.hash), ?_, ?_⟩
  · unfold Forest.canon
    rw [h1]
    simp only [Option.bind_eq_bind, Option.bind_some, hs2]
    rfl
  · unfold MapPollard.prove
    have hall : m.allCached L = true := by
      unfold MapPollard.allCached
      exact List.all_eq_true.2 hL
    rw [hall]
    simp only [Bool.not_true, Bool.false_eq_true, if_false]
    rw [h2, sortU64_encP hT tgts htv, inv.n_eq]
    have hm := totalRows_eq_H8 m
    have e : (ProofPositions (List.map (encP m.totalRows.toNat) (sortPos tgts)) (BitVec.ofNat 64 F.numLeaves) m.totalRows) =
        (ProofPositions (List.map (encP m.totalRows.toNat) (sortPos tgts)) (BitVec.ofNat 64 F.numLeaves) (H8 m.totalRows.toNat)) := by
      rw [← hm]
    rw [e, hPP]
    simp only [hs1]
    congr 2
    -- the targets in API coordinates
    by_cases hc : m.totalRows ≠ TreeRows (BitVec.ofNat 64 F.numLeaves)
    · rw [if_pos hc, List.map_map]
      apply List.map_congr_left
      intro t ht
      have := toApi inv (htv' t ht)
      rw [inv.n_eq, if_pos hc] at this
      exact this
    · rw [if_neg hc]
      apply List.map_congr_left
      intro t ht
      have := toApi inv (htv' t ht)
      rw [inv.n_eq, if_neg hc] at this
      exact this

end UtreexoVerif.Proofs.MapProve
