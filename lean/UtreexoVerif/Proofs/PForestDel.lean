/-
  The node list of a specification forest after deleting ALL leaves below one node `d`
  (`del_root`, `del_nonroot`), hygiene and live leaves after a deletion (`hyg_delLeaves`,
  `liveLeaves_delLeaves`).

  Route: `DelRel d P P'` states, for two node predicates, the four-part relation of
  `del_nonroot`.  It is established for one collapsed tree by induction (`prune_inside`), with
  the context lemmas `DelRel.ctx_other` / `DelRel.ctx_root` / `delRel_top`, and transported to
  the forest through `ofForest`.
-/
import UtreexoVerif.Proofs.PForestSpec
import UtreexoVerif.Proofs.SpecUndo
import UtreexoVerif.Proofs.MapSInv
open UtreexoVerif Model Spec Spec.Forest Proofs MapInv MapPrune MapRep MapLiftGeo PForest PForestSpec Hasher SpecNodes

namespace UtreexoVerif.Proofs.PForestDel
set_option linter.unusedSectionVars false
set_option linter.unusedVariables false
variable {H : Type} [DecidableEq H] [Hasher H]

/-! ### the relation between the node predicates before / after the deletion below `d` -/

/-- `P` = nodes before, `P'` = nodes after deleting everything below `d` (non-root):
(A) nodes incomparable with `parent d` are unchanged, (B) the subtree at `sib d` is lifted onto
`parent d`, (C) strict ancestors of `parent d` stay inner nodes; nothing else exists. -/
def DelRel (d : Pos) (P P' : Pos × H × Bool → Prop) : Prop :=
  (∀ e : Pos × H × Bool, P' e →
      (¬ Anc (parent d) e.1 ∧ ¬ Anc e.1 (parent d) ∧ P e) ∨
      (∃ c, Anc (sib d) c ∧ e.1 = liftP (sib d) c ∧ P (c, e.2)) ∨
      (Anc e.1 (parent d) ∧ e.1 ≠ parent d ∧ e.2.2 = false ∧ ∃ h0, P (e.1, h0, false))) ∧
  (∀ e : Pos × H × Bool, ¬ Anc (parent d) e.1 → ¬ Anc e.1 (parent d) → P e → P' e) ∧
  (∀ c h' b', Anc (sib d) c → P (c, h', b') → P' (liftP (sib d) c, h', b')) ∧
  (∀ z h0, P (z, h0, false) → Anc z (parent d) → z ≠ parent d → ∃ h1, P' (z, h1, false))

theorem DelRel.congr {d : Pos} {P P' Q Q' : Pos × H × Bool → Prop} (h : ∀ e, P e ↔ Q e)
    (h' : ∀ e, P' e ↔ Q' e) (r : DelRel d P P') : DelRel d Q Q' := by
  have e1 : P = Q := funext fun e => propext (h e)
  have e2 : P' = Q' := funext fun e => propext (h' e)
  rw [← e1, ← e2]; exact r

/-- adding unchanged nodes that are incomparable with `parent d` -/
theorem DelRel.ctx_other {d : Pos} {X X' O : Pos × H × Bool → Prop} (r : DelRel d X X')
    (hO : ∀ e, O e → ¬ Anc (parent d) e.1 ∧ ¬ Anc e.1 (parent d)) :
    DelRel d (fun e => X e ∨ O e) (fun e => X' e ∨ O e) := by
  obtain ⟨r1, r2, r3, r4⟩ := r
  refine ⟨?_, ?_, ?_, ?_⟩
  · rintro e (he | he)
    · rcases r1 e he with ⟨a, b, c⟩ | ⟨c, h1, h2, h3⟩ | ⟨h1, h2, h3, h0, h4⟩
      · exact Or.inl ⟨a, b, Or.inl c⟩
      · exact Or.inr (Or.inl ⟨c, h1, h2, Or.inl h3⟩)
      · exact Or.inr (Or.inr ⟨h1, h2, h3, h0, Or.inl h4⟩)
    · exact Or.inl ⟨(hO e he).1, (hO e he).2, Or.inr he⟩
  · rintro e h1 h2 (he | he)
    · exact Or.inl (r2 e h1 h2 he)
    · exact Or.inr he
  · rintro c h' b' hc (he | he)
    · exact Or.inl (r3 c h' b' hc he)
    · exact absurd (Anc.trans (anc_parent_sib d) hc) (hO _ he).1
  · rintro z h0 (he | he) hz hne
    · obtain ⟨h1, hh⟩ := r4 z h0 he hz hne
      exact ⟨h1, Or.inl hh⟩
    · exact absurd hz (hO _ he).2

/-- adding a strict ancestor of `parent d` whose hash changes -/
theorem DelRel.ctx_root {d ρ : Pos} {X X' : Pos × H × Bool → Prop} (r : DelRel d X X') (h h' : H)
    (hρ : Anc ρ (parent d)) (hne : ρ ≠ parent d) :
    DelRel d (fun e => e = (ρ, h, false) ∨ X e) (fun e => e = (ρ, h', false) ∨ X' e) := by
  obtain ⟨r1, r2, r3, r4⟩ := r
  refine ⟨?_, ?_, ?_, ?_⟩
  · rintro e (he | he)
    · subst he
      exact Or.inr (Or.inr ⟨hρ, hne, rfl, h, Or.inl rfl⟩)
    · rcases r1 e he with ⟨a, b, c⟩ | ⟨c, h1, h2, h3⟩ | ⟨h1, h2, h3, h0, h4⟩
      · exact Or.inl ⟨a, b, Or.inr c⟩
      · exact Or.inr (Or.inl ⟨c, h1, h2, Or.inr h3⟩)
      · exact Or.inr (Or.inr ⟨h1, h2, h3, h0, Or.inr h4⟩)
  · rintro e h1 h2 (he | he)
    · subst he; exact absurd hρ h2
    · exact Or.inr (r2 e h1 h2 he)
  · rintro c h'' b' hc (he | he)
    · exfalso
      simp only [Prod.mk.injEq] at he
      have hc' := hc
      rw [he.1] at hc'
      have := (Anc.trans hc' hρ).1
      rw [sib_fst] at this
      have : d.1 + 1 ≤ d.1 := this
      omega
    · exact Or.inr (r3 c h'' b' hc he)
  · rintro z h0 (he | he) hz hzne
    · simp only [Prod.mk.injEq] at he
      exact ⟨h', Or.inl (by rw [he.1])⟩
    · obtain ⟨h1, hh⟩ := r4 z h0 he hz hzne
      exact ⟨h1, Or.inr hh⟩

/-! ### one collapsed tree -/

/-- `d` is a child of the tree root `parent d`, the subtree `s` sits at `sib d`, everything
else below `d` goes: `s` re-placed at `parent d` -/
theorem delRel_top {d : Pos} (s : CTree H) (hs : depth s ≤ d.1) {N : Pos × H × Bool → Prop}
    (hN : ∀ e, N e → Anc (parent d) e.1)
    (hσ : ∀ e, Anc (sib d) e.1 → (N e ↔ e ∈ s.nodes (sib d).1 (sib d).2)) :
    DelRel d N (fun e => e ∈ s.nodes (parent d).1 (parent d).2) := by
  have hmap : s.nodes (parent d).1 (parent d).2 =
      (s.nodes (sib d).1 (sib d).2).map (fun e => (liftP (sib d) e.1, e.2)) := by
    have := nodes_liftP (sib d) s (sib d) (Anc.refl _) (by rw [sib_fst]; exact hs)
    rw [liftP_self, parent_sib] at this
    exact this
  have hunder : ∀ e ∈ s.nodes (sib d).1 (sib d).2, Anc (sib d) e.1 := fun e he =>
    MapProve.anc_iff_under.2 (nodes_under s _ _ (by rw [sib_fst]; exact hs) e he)
  refine ⟨?_, ?_, ?_, ?_⟩
  · intro e he
    rw [hmap, List.mem_map] at he
    obtain ⟨e0, he0, rfl⟩ := he
    exact Or.inr (Or.inl ⟨e0.1, hunder e0 he0, rfl, (hσ e0 (hunder e0 he0)).2 he0⟩)
  · intro e h1 _ he
    exact absurd (hN e he) h1
  · intro c h' b' hc he
    show _ ∈ _
    rw [hmap, List.mem_map]
    exact ⟨(c, h', b'), (hσ _ hc).1 he, rfl⟩
  · intro z h0 he hz hne
    exact absurd (Anc.antisymm hz (hN _ he)) hne

theorem sib_left (r o : Nat) : sib (r, 2 * o) = (r, 2 * o + 1) := by
  show (r, if 2 * o % 2 = 0 then 2 * o + 1 else 2 * o - 1) = _
  rw [if_pos (by omega)]

theorem sib_right (r o : Nat) : sib (r, 2 * o + 1) = (r, 2 * o) := by
  show (r, if (2 * o + 1) % 2 = 0 then 2 * o + 1 + 1 else 2 * o + 1 - 1) = _
  rw [if_neg (by omega)]; rfl

theorem parent_left {r : Nat} (hr : 1 ≤ r) (o : Nat) : parent (r - 1, 2 * o) = (r, o) := by
  show (r - 1 + 1, 2 * o / 2) = (r, o)
  rw [Nat.sub_add_cancel hr]; congr 1; omega

theorem parent_right {r : Nat} (hr : 1 ≤ r) (o : Nat) : parent (r - 1, 2 * o + 1) = (r, o) := by
  show (r - 1 + 1, (2 * o + 1) / 2) = (r, o)
  rw [Nat.sub_add_cancel hr]; congr 1; omega

theorem ctree_anc (t : CTree H) {c : Pos} (hd : depth t ≤ c.1) {e : Pos × H × Bool}
    (he : e ∈ t.nodes c.1 c.2) : Anc c e.1 :=
  MapProve.anc_iff_under.2 (nodes_under t _ _ hd e he)

section step
variable {R : List H} {X Y : CTree H} {cx d : Pos} {hr : H} {N : Pos × H × Bool → Prop}

/-- the sibling subtree contains no leaf of `R` -/
theorem other_clean (hX : depth X ≤ cx.1) (hY : depth Y ≤ cx.1)
    (hN : ∀ e, N e ↔ e = (parent cx, hr, false) ∨ e ∈ X.nodes cx.1 cx.2 ∨ e ∈ Y.nodes (sib cx).1 (sib cx).2)
    (hdis : ∀ x ∈ X.leaves, x ∉ Y.leaves) (hd : Anc cx d)
    (hR : ∀ x, (x ∈ X.leaves ∨ x ∈ Y.leaves) → (x ∈ R ↔ ∃ p, N (p, x, true) ∧ Anc d p)) :
    ∀ x ∈ Y.leaves, x ∉ R := by
  intro x hx hxR
  obtain ⟨p, hp, hdp⟩ := (hR x (Or.inr hx)).1 hxR
  rcases (hN _).1 hp with he | he | he
  · simp at he
  · exact hdis x (nodes_leaf_mem X _ _ _ he rfl) hx
  · exact not_anc_both (Anc.trans hd hdp) (ctree_anc Y (by rw [sib_fst]; exact hY) he)

/-- the `R`-condition restricted to the subtree containing `d` -/
theorem restrict_R (hX : depth X ≤ cx.1) (hY : depth Y ≤ cx.1)
    (hN : ∀ e, N e ↔ e = (parent cx, hr, false) ∨ e ∈ X.nodes cx.1 cx.2 ∨ e ∈ Y.nodes (sib cx).1 (sib cx).2)
    (hd : Anc cx d)
    (hR : ∀ x, (x ∈ X.leaves ∨ x ∈ Y.leaves) → (x ∈ R ↔ ∃ p, N (p, x, true) ∧ Anc d p)) :
    ∀ x ∈ X.leaves, x ∈ R ↔ ∃ p, (p, x, true) ∈ X.nodes cx.1 cx.2 ∧ Anc d p := by
  intro x hx
  rw [hR x (Or.inl hx)]
  constructor
  · rintro ⟨p, hp, hdp⟩
    rcases (hN _).1 hp with he | he | he
    · simp at he
    · exact ⟨p, he, hdp⟩
    · exact (not_anc_both (Anc.trans hd hdp) (ctree_anc Y (by rw [sib_fst]; exact hY) he)).elim
  · rintro ⟨p, hp, hdp⟩
    exact ⟨p, (hN _).2 (Or.inr (Or.inl hp)), hdp⟩

/-- `d` is the root of the subtree `X`: `X` disappears, `Y` is re-placed at the parent -/
theorem step_top (hX : depth X ≤ d.1) (hY : depth Y ≤ d.1)
    (hN : ∀ e, N e ↔ e = (parent d, hr, false) ∨ e ∈ X.nodes d.1 d.2 ∨ e ∈ Y.nodes (sib d).1 (sib d).2)
    (hdis : ∀ x ∈ X.leaves, x ∉ Y.leaves)
    (hR : ∀ x, (x ∈ X.leaves ∨ x ∈ Y.leaves) → (x ∈ R ↔ ∃ p, N (p, x, true) ∧ Anc d p)) :
    prune R X = none ∧ prune R Y = some Y ∧
      DelRel d N (fun e => e ∈ Y.nodes (parent d).1 (parent d).2) := by
  refine ⟨?_, ?_, ?_⟩
  · rw [prune_eq_none_iff]
    intro x hx
    obtain ⟨p, hp⟩ := ctree_leaf_entry X d.1 d.2 x hx
    exact (hR x (Or.inl hx)).2 ⟨p, (hN _).2 (Or.inr (Or.inl hp)), ctree_anc X hX hp⟩
  · exact prune_eq_self R Y (other_clean hX hY hN hdis (Anc.refl d) hR)
  · apply delRel_top Y hY
    · intro e he
      rcases (hN e).1 he with he | he | he
      · rw [he]; exact Anc.refl _
      · exact (ctree_anc X hX he).parent
      · have := (ctree_anc Y (by rw [sib_fst]; exact hY) he).parent
        rwa [parent_sib] at this
    · intro e hσ
      constructor
      · intro he
        rcases (hN e).1 he with he | he | he
        · exfalso
          rw [he] at hσ
          have := hσ.1
          rw [sib_fst] at this
          have : d.1 + 1 ≤ d.1 := this
          omega
        · exact (not_anc_both (ctree_anc X hX he) hσ).elim
        · exact he
      · intro he; exact (hN e).2 (Or.inr (Or.inr he))

/-- `d` lies strictly inside the subtree `X` -/
theorem step_in {X' : CTree H} (hY : depth Y ≤ cx.1) (hd : Anc cx d) (hne : d ≠ cx)
    (r : DelRel d (fun e => e ∈ X.nodes cx.1 cx.2) (fun e => e ∈ X'.nodes cx.1 cx.2)) (h h' : H) :
    DelRel d (fun e => e = (parent cx, h, false) ∨ e ∈ X.nodes cx.1 cx.2 ∨ e ∈ Y.nodes (sib cx).1 (sib cx).2)
      (fun e => e = (parent cx, h', false) ∨ e ∈ X'.nodes cx.1 cx.2 ∨ e ∈ Y.nodes (sib cx).1 (sib cx).2) := by
  have hlt : d.1 < cx.1 := by
    have := hd.1
    have : cx.1 ≠ d.1 := fun e => hne (hd.eq_of_row e).symm
    omega
  have hcp : Anc cx (parent d) := sunder_iff_parent.1 ⟨hd, hlt⟩
  apply DelRel.ctx_root (DelRel.ctx_other r ?_) h h' hcp.parent ?_
  · intro e he
    have hy := ctree_anc Y (c := sib cx) (by rw [sib_fst]; exact hY) he
    exact ⟨fun h1 => not_anc_both (Anc.trans hcp h1) hy, fun h1 => not_anc_both hcp (Anc.trans hy h1)⟩
  · intro e
    have := congrArg Prod.fst e
    have h2 : cx.1 + 1 = d.1 + 1 := this
    omega

end step

theorem nodup_append_disj {α : Type} {l₁ l₂ : List α} (h : (l₁ ++ l₂).Nodup) :
    l₁.Nodup ∧ l₂.Nodup ∧ ∀ x ∈ l₁, x ∉ l₂ := by
  obtain ⟨h1, h2, h3⟩ := List.nodup_append.mp h
  exact ⟨h1, h2, fun x hx hx' => h3 x hx x hx' rfl⟩

/-- **tree level, root**: deleting all leaves of a tree prunes it away -/
theorem prune_root (R : List H) (t : CTree H) (r o : Nat) (hd : depth t ≤ r)
    (hR : ∀ x ∈ t.leaves, (∃ p, (p, x, true) ∈ t.nodes r o ∧ Anc (r, o) p) → x ∈ R) :
    prune R t = none := by
  rw [prune_eq_none_iff]
  intro x hx
  obtain ⟨p, hp⟩ := ctree_leaf_entry t r o x hx
  exact hR x hx ⟨p, hp, ctree_anc t (c := (r, o)) hd hp⟩

/-- **tree level, non-root**: deleting all leaves below a non-root entry `d` of a placed tree -/
theorem prune_inside (R : List H) : ∀ (t : CTree H) (r o : Nat), depth t ≤ r → t.leaves.Nodup →
    ∀ (d : Pos) (h : H) (b : Bool), (d, h, b) ∈ t.nodes r o → d ≠ (r, o) →
    (∀ x ∈ t.leaves, x ∈ R ↔ ∃ p, (p, x, true) ∈ t.nodes r o ∧ Anc d p) →
    ∃ t', prune R t = some t' ∧ depth t' ≤ r ∧
      DelRel d (fun e => e ∈ t.nodes r o) (fun e => e ∈ t'.nodes r o) := by
  intro t
  induction t with
  | leaf x =>
    intro r o _ _ d h b hd hne _
    simp only [CTree.nodes, List.mem_singleton, Prod.mk.injEq] at hd
    exact absurd hd.1 hne
  | node A B ihA ihB =>
    intro r o hdep hnd d h b hd hne hR
    simp only [depth] at hdep
    have hr1 : 1 ≤ r := by omega
    have hA : depth A ≤ r - 1 := by omega
    have hB : depth B ≤ r - 1 := by omega
    simp only [CTree.leaves] at hnd
    obtain ⟨hndA, hndB, hdis⟩ := nodup_append_disj hnd
    have hR' : ∀ x, (x ∈ A.leaves ∨ x ∈ B.leaves) →
        (x ∈ R ↔ ∃ p, (p, x, true) ∈ (CTree.node A B).nodes r o ∧ Anc d p) := by
      intro x hx
      exact hR x (by simp only [CTree.leaves, List.mem_append]; exact hx)
    have hNl : ∀ e : Pos × H × Bool, e ∈ (CTree.node A B).nodes r o ↔
        e = (parent (r - 1, 2 * o), (CTree.node A B).hash, false) ∨
          e ∈ A.nodes (r - 1, 2 * o).1 (r - 1, 2 * o).2 ∨
          e ∈ B.nodes (sib (r - 1, 2 * o)).1 (sib (r - 1, 2 * o)).2 := by
      intro e
      rw [parent_left hr1, sib_left]
      simp only [CTree.nodes, List.mem_cons, List.mem_append]
    have hNr : ∀ e : Pos × H × Bool, e ∈ (CTree.node A B).nodes r o ↔
        e = (parent (r - 1, 2 * o + 1), (CTree.node A B).hash, false) ∨
          e ∈ B.nodes (r - 1, 2 * o + 1).1 (r - 1, 2 * o + 1).2 ∨
          e ∈ A.nodes (sib (r - 1, 2 * o + 1)).1 (sib (r - 1, 2 * o + 1)).2 := by
      intro e
      rw [parent_right hr1, sib_right]
      simp only [CTree.nodes, List.mem_cons, List.mem_append]
      constructor
      · rintro (h | h | h)
        · exact Or.inl h
        · exact Or.inr (Or.inr h)
        · exact Or.inr (Or.inl h)
      · rintro (h | h | h)
        · exact Or.inl h
        · exact Or.inr (Or.inr h)
        · exact Or.inr (Or.inl h)
    have hd' := hd
    simp only [CTree.nodes, List.mem_cons, List.mem_append, Prod.mk.injEq] at hd'
    rcases hd' with hd' | hd' | hd'
    · exact absurd hd'.1 hne
    · -- `d` in the left subtree
      by_cases hdc : d = (r - 1, 2 * o)
      · subst hdc
        obtain ⟨p1, p2, p3⟩ := step_top (R := R) (X := A) (Y := B) (d := (r - 1, 2 * o)) hA hB hNl hdis hR'
        refine ⟨B, by simp only [prune, p1, p2, join], by omega, ?_⟩
        rw [parent_left hr1] at p3
        exact p3
      · have hanc : Anc (r - 1, 2 * o) d := ctree_anc A (c := (r - 1, 2 * o)) hA hd'
        obtain ⟨A', q1, q2, q3⟩ := ihA (r - 1) (2 * o) hA hndA d h b hd' hdc
          (restrict_R (cx := (r - 1, 2 * o)) hA hB hNl hanc hR')
        have q4 := prune_eq_self R B (other_clean (cx := (r - 1, 2 * o)) hA hB hNl hdis hanc hR')
        refine ⟨.node A' B, by simp only [prune, q1, q4, join], by simp only [depth]; omega, ?_⟩
        have := step_in (Y := B) (cx := (r - 1, 2 * o)) hB hanc hdc q3 (CTree.node A B).hash (CTree.node A' B).hash
        rw [parent_left hr1, sib_left] at this
        refine DelRel.congr ?_ ?_ this
        · intro e; simp only [CTree.nodes, List.mem_cons, List.mem_append]
        · intro e; simp only [CTree.nodes, List.mem_cons, List.mem_append]
    · -- `d` in the right subtree
      have hdis' : ∀ x ∈ B.leaves, x ∉ A.leaves := fun x hx hx' => hdis x hx' hx
      have hR'' : ∀ x, (x ∈ B.leaves ∨ x ∈ A.leaves) →
          (x ∈ R ↔ ∃ p, (p, x, true) ∈ (CTree.node A B).nodes r o ∧ Anc d p) :=
        fun x hx => hR' x hx.symm
      by_cases hdc : d = (r - 1, 2 * o + 1)
      · subst hdc
        obtain ⟨p1, p2, p3⟩ := step_top (R := R) (X := B) (Y := A) (d := (r - 1, 2 * o + 1)) hB hA hNr hdis' hR''
        refine ⟨A, by simp only [prune, p1, p2, join], by omega, ?_⟩
        rw [parent_right hr1] at p3
        exact p3
      · have hanc : Anc (r - 1, 2 * o + 1) d := ctree_anc B (c := (r - 1, 2 * o + 1)) hB hd'
        obtain ⟨B', q1, q2, q3⟩ := ihB (r - 1) (2 * o + 1) hB hndB d h b hd' hdc
          (restrict_R (cx := (r - 1, 2 * o + 1)) hB hA hNr hanc hR'')
        have q4 := prune_eq_self R A (other_clean (cx := (r - 1, 2 * o + 1)) hB hA hNr hdis' hanc hR'')
        refine ⟨.node A B', by simp only [prune, q1, q4, join], by simp only [depth]; omega, ?_⟩
        have := step_in (Y := A) (cx := (r - 1, 2 * o + 1)) hA hanc hdc q3 (CTree.node A B).hash (CTree.node A B').hash
        rw [parent_right hr1, sib_right] at this
        refine DelRel.congr ?_ ?_ this
        · intro e; simp only [CTree.nodes, List.mem_cons, List.mem_append]
          constructor
          · rintro (h | h | h)
            · exact Or.inl h
            · exact Or.inr (Or.inr h)
            · exact Or.inr (Or.inl h)
          · rintro (h | h | h)
            · exact Or.inl h
            · exact Or.inr (Or.inr h)
            · exact Or.inr (Or.inl h)
        · intro e; simp only [CTree.nodes, List.mem_cons, List.mem_append]
          constructor
          · rintro (h | h | h)
            · exact Or.inl h
            · exact Or.inr (Or.inr h)
            · exact Or.inr (Or.inl h)
          · rintro (h | h | h)
            · exact Or.inl h
            · exact Or.inr (Or.inr h)
            · exact Or.inr (Or.inl h)

/-! ### live leaves and hygiene -/

/-- live leaves after a deletion -/
theorem liveLeaves_delLeaves (F : Forest H) (R : List H) :
    (F.delLeaves R).liveLeaves = F.liveLeaves.filter (fun x => x ∉ R) := by
  unfold Forest.liveLeaves
  rw [delLeaves_slots]
  generalize F.slots = l
  induction l with
  | nil => rfl
  | cons s l ih =>
    cases s with
    | none => simpa [kill] using ih
    | some h =>
      by_cases hh : h ∈ R
      · simpa [kill, hh] using ih
      · simpa [kill, hh] using ih

/-- hygiene survives deletions -/
theorem hyg_delLeaves {F : Forest H} (hy : Hyg F) (R : List H) : Hyg (F.delLeaves R) := by
  have hsub : ∀ x ∈ (F.delLeaves R).liveLeaves, x ∈ F.liveLeaves := by
    intro x hx
    rw [liveLeaves_delLeaves] at hx
    exact (List.mem_filter.1 hx).1
  refine ⟨?_, fun x hx => hy.nz x (hsub x hx), fun x hx => hy.nph x (hsub x hx)⟩
  rw [liveLeaves_delLeaves]
  exact hy.nodup.filter _

/-! ### the forest as a placed forest, before and after -/

theorem ofForest_delLeaves (F : Forest H) (R : List H) :
    ofForest (F.delLeaves R) = (ofForest F).map (fun e => (e.1, pruneO R e.2)) := by
  unfold ofForest
  rw [trees_delLeaves, numLeaves_delLeaves, List.map_map, List.map_map]
  rfl

section frame
variable {F : Forest H} {E : Pos × Option (CTree H)} {d : Pos} {R : List H}

/-- a leaf entry of the forest below `d` (itself below the root of `E`) is an entry of `E` -/
theorem entry_of_below (ok : OK (ofForest F)) (hE : E ∈ ofForest F) (hd : Anc E.1 d)
    {e : Pos × H × Bool} (he : e ∈ F.nodes) (hde : Anc d e.1) : e ∈ entryNodes E := by
  rw [← nodes_ofForest] at he
  obtain ⟨E', hE', hx⟩ := PForest.mem_nodes.1 he
  have := ok.disj E hE E' hE' e.1 (Anc.trans hd hde) (entry_anc ok hE' hx)
  rw [this]; exact hx

/-- the other trees contain no leaf of `R` -/
theorem frame_other (ok : OK (ofForest F)) (hE : E ∈ ofForest F) (hd : Anc E.1 d)
    (hR : ∀ x, x ∈ R → ∃ t, (t, x, true) ∈ F.nodes ∧ Anc d t) :
    ∀ E' ∈ ofForest F, E' ≠ E → pruneO R E'.2 = E'.2 := by
  intro E' hE' hne
  cases hT' : E'.2 with
  | none => rfl
  | some T' =>
    show prune R T' = some T'
    apply prune_eq_self
    intro x hx hxR
    obtain ⟨t, ht, hdt⟩ := hR x hxR
    have hin := entry_of_below ok hE hd ht hdt
    unfold entryNodes at hin
    cases hT : E.2 with
    | none =>
      rw [hT] at hin
      simp at hin
    | some T =>
      rw [hT] at hin
      have hxT : x ∈ T.leaves := nodes_leaf_mem T _ _ _ hin rfl
      exact hne (Spec.flatMap_nodup_common _ _ ok.nodup E' hE' E hE x (by rw [hT']; exact hx) (by rw [hT]; exact hxT))

theorem entryNodes_other (ok : OK (ofForest F)) (hE : E ∈ ofForest F) (hd : Anc E.1 d)
    (hR : ∀ x, x ∈ R → ∃ t, (t, x, true) ∈ F.nodes ∧ Anc d t) {E' : Pos × Option (CTree H)}
    (hE' : E' ∈ ofForest F) (hne : E' ≠ E) :
    entryNodes (E'.1, pruneO R E'.2) = (entryNodes E' : List (Pos × H × Bool)) := by
  rw [frame_other ok hE hd hR E' hE' hne]

/-- the nodes of the other trees -/
def Others (F : Forest H) (E : Pos × Option (CTree H)) (e : Pos × H × Bool) : Prop :=
  ∃ E' ∈ ofForest F, E' ≠ E ∧ e ∈ entryNodes E'

theorem mem_nodes_split (hE : E ∈ ofForest F) (e : Pos × H × Bool) :
    e ∈ F.nodes ↔ e ∈ entryNodes E ∨ Others F E e := by
  rw [← nodes_ofForest, PForest.mem_nodes]
  constructor
  · rintro ⟨E', hE', he⟩
    by_cases h : E' = E
    · subst h; exact Or.inl he
    · exact Or.inr ⟨E', hE', h, he⟩
  · rintro (he | ⟨E', hE', _, he⟩)
    · exact ⟨E, hE, he⟩
    · exact ⟨E', hE', he⟩

theorem mem_nodes_del_split (ok : OK (ofForest F)) (hE : E ∈ ofForest F) (hd : Anc E.1 d)
    (hR : ∀ x, x ∈ R → ∃ t, (t, x, true) ∈ F.nodes ∧ Anc d t) (e : Pos × H × Bool) :
    e ∈ (F.delLeaves R).nodes ↔ e ∈ entryNodes (E.1, pruneO R E.2) ∨ Others F E e := by
  rw [← nodes_ofForest, ofForest_delLeaves, PForest.mem_nodes]
  constructor
  · rintro ⟨E0, hE0, he⟩
    obtain ⟨E', hE', rfl⟩ := List.mem_map.1 hE0
    by_cases h : E' = E
    · subst h; exact Or.inl he
    · rw [entryNodes_other ok hE hd hR hE' h] at he
      exact Or.inr ⟨E', hE', h, he⟩
  · rintro (he | ⟨E', hE', h, he⟩)
    · exact ⟨_, List.mem_map.2 ⟨E, hE, rfl⟩, he⟩
    · refine ⟨_, List.mem_map.2 ⟨E', hE', rfl⟩, ?_⟩
      rw [entryNodes_other ok hE hd hR hE' h]; exact he

/-- the nodes of the other trees are incomparable with everything below the root of `E` -/
theorem others_incomparable (ok : OK (ofForest F)) (hE : E ∈ ofForest F) {e : Pos × H × Bool}
    (he : Others F E e) {q : Pos} (hq : Anc E.1 q) : ¬ Anc q e.1 ∧ ¬ Anc e.1 q := by
  obtain ⟨E', hE', hne, hx⟩ := he
  have ha := entry_anc ok hE' hx
  constructor
  · intro h; exact hne (ok.disj E' hE' E hE e.1 ha (Anc.trans hq h))
  · intro h; exact hne (ok.disj E' hE' E hE q (Anc.trans ha h) hq)

end frame

/-! ### the two forest-level theorems -/

/-- deleting ALL leaves below a ROOT `d`: the tree becomes an empty root, nothing else changes -/
theorem del_root (nz : NZ H) (F : Forest H) (hn : F.numLeaves < 2 ^ 64) (hy : Hyg F) {d : Pos}
    (hroot : isRootPos F.numLeaves d = true) (R : List H)
    (hR : ∀ x, x ∈ R ↔ ∃ t, (t, x, true) ∈ F.nodes ∧ Anc d t) :
    ∀ e : Pos × H × Bool, e ∈ (F.delLeaves R).nodes ↔ (¬ Anc d e.1 ∧ e ∈ F.nodes) ∨ e = (d, zero, false) := by
  have ok := ok_ofForest F hn hy
  obtain ⟨E, hE, hEd⟩ := (isRoot_ofForest F hn d).2 hroot
  subst hEd
  have hR1 : ∀ x, x ∈ R → ∃ t, (t, x, true) ∈ F.nodes ∧ Anc E.1 t := fun x hx => (hR x).1 hx
  -- the tree of `E` is pruned away
  have hnone : pruneO R E.2 = none := by
    cases hT : E.2 with
    | none => rfl
    | some T =>
      show prune R T = none
      apply prune_root R T E.1.1 E.1.2 (ok.depth E hE T hT)
      rintro x hx ⟨p, hp, hdp⟩
      refine (hR x).2 ⟨p, ?_, hdp⟩
      rw [← nodes_ofForest]
      exact PForest.mem_nodes.2 ⟨E, hE, by unfold entryNodes; rw [hT]; exact hp⟩
  intro e
  rw [mem_nodes_del_split ok hE (Anc.refl _) hR1 e, hnone]
  have hsingle : e ∈ (entryNodes (E.1, (none : Option (CTree H))) : List (Pos × H × Bool)) ↔ e = (E.1, zero, false) := by
    unfold entryNodes; simp
  rw [hsingle]
  constructor
  · rintro (he | he)
    · exact Or.inr he
    · exact Or.inl ⟨(others_incomparable ok hE he (Anc.refl _)).1, (mem_nodes_split hE e).2 (Or.inr he)⟩
  · rintro (⟨h1, h2⟩ | he)
    · rcases (mem_nodes_split hE e).1 h2 with h3 | h3
      · exact absurd (entry_anc ok hE h3) h1
      · exact Or.inr h3
    · exact Or.inl he

/-- `del_nonroot` with the conclusion packaged as `DelRel` -/
theorem del_nonroot_rel (nz : NZ H) (F : Forest H) (hn : F.numLeaves < 2 ^ 64) (hy : Hyg F) {d : Pos} {h : H} {b : Bool}
    (hd : (d, h, b) ∈ F.nodes) (hnr : isRootPos F.numLeaves d = false) (R : List H)
    (hR : ∀ x, x ∈ R ↔ ∃ t, (t, x, true) ∈ F.nodes ∧ Anc d t) :
    DelRel d (fun e => e ∈ F.nodes) (fun e => e ∈ (F.delLeaves R).nodes) := by
  have ok := ok_ofForest F hn hy
  have hd0 := hd
  rw [← nodes_ofForest] at hd0
  obtain ⟨E, hE, hdE⟩ := PForest.mem_nodes.1 hd0
  have hanc : Anc E.1 d := entry_anc ok hE hdE
  have hne : d ≠ E.1 := by
    intro e
    have : isRootPos F.numLeaves d = true := (isRoot_ofForest F hn d).1 ⟨E, hE, e.symm⟩
    rw [hnr] at this; cases this
  have hR1 : ∀ x, x ∈ R → ∃ t, (t, x, true) ∈ F.nodes ∧ Anc d t := fun x hx => (hR x).1 hx
  have hlt : d.1 < E.1.1 := by
    have := hanc.1
    have : E.1.1 ≠ d.1 := fun e => hne (hanc.eq_of_row e).symm
    omega
  have hpar : Anc E.1 (parent d) := sunder_iff_parent.1 ⟨hanc, hlt⟩
  cases hT : E.2 with
  | none =>
    exfalso
    unfold entryNodes at hdE
    rw [hT] at hdE
    simp only [List.mem_singleton, Prod.mk.injEq] at hdE
    exact hne hdE.1
  | some T =>
    have hdT : (d, h, b) ∈ T.nodes E.1.1 E.1.2 := by
      unfold entryNodes at hdE; rw [hT] at hdE; exact hdE
    have hndT : T.leaves.Nodup := by
      have := Spec.flatMap_nodup_block _ _ ok.nodup E hE
      rwa [hT] at this
    have hRT : ∀ x ∈ T.leaves, x ∈ R ↔ ∃ p, (p, x, true) ∈ T.nodes E.1.1 E.1.2 ∧ Anc d p := by
      intro x hx
      rw [hR x]
      constructor
      · rintro ⟨t, ht, hdt⟩
        have := entry_of_below ok hE hanc ht hdt
        unfold entryNodes at this; rw [hT] at this
        exact ⟨t, this, hdt⟩
      · rintro ⟨p, hp, hdp⟩
        refine ⟨p, ?_, hdp⟩
        rw [← nodes_ofForest]
        exact PForest.mem_nodes.2 ⟨E, hE, by unfold entryNodes; rw [hT]; exact hp⟩
    obtain ⟨T', hp1, hp2, hp3⟩ := prune_inside R T E.1.1 E.1.2 (ok.depth E hE T hT) hndT d h b hdT hne hRT
    have hrel := DelRel.ctx_other (O := Others F E) hp3
      (fun e he => others_incomparable ok hE he hpar)
    refine DelRel.congr ?_ ?_ hrel
    · intro e
      rw [mem_nodes_split hE e]
      unfold entryNodes; rw [hT]
    · intro e
      rw [mem_nodes_del_split ok hE hanc hR1 e, hT]
      show _ ↔ e ∈ entryNodes (E.1, prune R T) ∨ _
      rw [hp1]
      rfl

/-- deleting ALL leaves below a NON-ROOT node `d` (with `σ = sib d`, `P = parent d`):
  (A) nodes neither below `P` nor above `P` are unchanged,
  (B) the subtree at `σ` is lifted onto `P` (`liftP σ`),
  (C) the strict ancestors of `P` keep their positions (as inner nodes, with new hashes),
  and nothing else exists. -/
theorem del_nonroot (nz : NZ H) (F : Forest H) (hn : F.numLeaves < 2 ^ 64) (hy : Hyg F) {d : Pos} {h : H} {b : Bool}
    (hd : (d, h, b) ∈ F.nodes) (hnr : isRootPos F.numLeaves d = false) (R : List H)
    (hR : ∀ x, x ∈ R ↔ ∃ t, (t, x, true) ∈ F.nodes ∧ Anc d t) :
    (∀ e : Pos × H × Bool, e ∈ (F.delLeaves R).nodes →
      (¬ Anc (parent d) e.1 ∧ ¬ Anc e.1 (parent d) ∧ e ∈ F.nodes) ∨
      (∃ c, Anc (sib d) c ∧ e.1 = liftP (sib d) c ∧ (c, e.2) ∈ F.nodes) ∨
      (Anc e.1 (parent d) ∧ e.1 ≠ parent d ∧ e.2.2 = false ∧ ∃ h0, (e.1, h0, false) ∈ F.nodes)) ∧
    (∀ e : Pos × H × Bool, ¬ Anc (parent d) e.1 → ¬ Anc e.1 (parent d) → e ∈ F.nodes → e ∈ (F.delLeaves R).nodes) ∧
    (∀ c h' b', Anc (sib d) c → (c, h', b') ∈ F.nodes → (liftP (sib d) c, h', b') ∈ (F.delLeaves R).nodes) ∧
    (∀ z h0, (z, h0, false) ∈ F.nodes → Anc z (parent d) → z ≠ parent d →
      ∃ h1, (z, h1, false) ∈ (F.delLeaves R).nodes) :=
  del_nonroot_rel nz F hn hy hd hnr R hR

/-! ### non-vacuity: the forest `F5` of `Props/C09.lean` (five live leaves, term-algebra hash) -/

namespace Example
open Props.C09.Example MapSInv.Example

/-- the node list of `F5`: a four-leaf tree rooted at `(2, 0)` and the single leaf `(0, 4)` -/
theorem F5_nodes : F5.nodes =
    [((2, 0), .node (.node (.leaf 0) (.leaf 1)) (.node (.leaf 2) (.leaf 3)), false),
     ((1, 0), .node (.leaf 0) (.leaf 1), false), ((0, 0), .leaf 0, true), ((0, 1), .leaf 1, true),
     ((1, 1), .node (.leaf 2) (.leaf 3), false), ((0, 2), .leaf 2, true), ((0, 3), .leaf 3, true),
     ((0, 4), .leaf 4, true)] := by decide +kernel

/-- after deleting leaf 2 (`d = (0, 2)`): (A) `(1,0)`, `(0,0)`, `(0,1)`, `(0,4)` unchanged,
(B) the sibling `(0,3)` lifted to `(1,1)`, (C) the root `(2,0)` with a new hash -/
example : (F5.delLeaves [T.leaf 2]).nodes =
    [((2, 0), .node (.node (.leaf 0) (.leaf 1)) (.leaf 3), false),
     ((1, 0), .node (.leaf 0) (.leaf 1), false), ((0, 0), .leaf 0, true), ((0, 1), .leaf 1, true),
     ((1, 1), .leaf 3, true), ((0, 4), .leaf 4, true)] := by decide +kernel

/-- after deleting everything below the inner node `d = (1, 0)`: the subtree at `(1,1)` is lifted
onto the root -/
example : (F5.delLeaves [T.leaf 0, T.leaf 1]).nodes =
    [((2, 0), .node (.leaf 2) (.leaf 3), false), ((1, 0), .leaf 2, true), ((1, 1), .leaf 3, true),
     ((0, 4), .leaf 4, true)] := by decide +kernel

/-- after deleting everything below the root `d = (2, 0)`: an empty root -/
example : (F5.delLeaves [T.leaf 0, T.leaf 1, T.leaf 2, T.leaf 3]).nodes =
    [((2, 0), T.z, false), ((0, 4), .leaf 4, true)] := by decide +kernel

theorem R2_spec : ∀ x, x ∈ [T.leaf 2] ↔ ∃ t, (t, x, true) ∈ F5.nodes ∧ Anc (0, 2) t := by
  intro x
  rw [F5_nodes]
  constructor
  · intro hx
    simp only [List.mem_singleton] at hx
    subst hx
    exact ⟨(0, 2), by decide, by decide⟩
  · rintro ⟨t, ht, ha⟩
    simp only [List.mem_cons, Prod.mk.injEq, List.mem_nil_iff, or_false] at ht
    rcases ht with ht | ht | ht | ht | ht | ht | ht | ht <;> obtain ⟨rfl, rfl, hb⟩ := ht <;>
      first
        | decide
        | exact absurd ha (by decide)
        | cases hb

theorem R10_spec : ∀ x, x ∈ [T.leaf 0, T.leaf 1] ↔ ∃ t, (t, x, true) ∈ F5.nodes ∧ Anc (1, 0) t := by
  intro x
  rw [F5_nodes]
  constructor
  · intro hx
    simp only [List.mem_cons, List.mem_nil_iff, or_false] at hx
    rcases hx with rfl | rfl
    · exact ⟨(0, 0), by decide, by decide⟩
    · exact ⟨(0, 1), by decide, by decide⟩
  · rintro ⟨t, ht, ha⟩
    simp only [List.mem_cons, Prod.mk.injEq, List.mem_nil_iff, or_false] at ht
    rcases ht with ht | ht | ht | ht | ht | ht | ht | ht <;> obtain ⟨rfl, rfl, hb⟩ := ht <;>
      first
        | decide
        | exact absurd ha (by decide)
        | cases hb

theorem R20_spec : ∀ x, x ∈ [T.leaf 0, T.leaf 1, T.leaf 2, T.leaf 3] ↔
    ∃ t, (t, x, true) ∈ F5.nodes ∧ Anc (2, 0) t := by
  intro x
  rw [F5_nodes]
  constructor
  · intro hx
    simp only [List.mem_cons, List.mem_nil_iff, or_false] at hx
    rcases hx with rfl | rfl | rfl | rfl
    · exact ⟨(0, 0), by decide, by decide⟩
    · exact ⟨(0, 1), by decide, by decide⟩
    · exact ⟨(0, 2), by decide, by decide⟩
    · exact ⟨(0, 3), by decide, by decide⟩
  · rintro ⟨t, ht, ha⟩
    simp only [List.mem_cons, Prod.mk.injEq, List.mem_nil_iff, or_false] at ht
    rcases ht with ht | ht | ht | ht | ht | ht | ht | ht <;> obtain ⟨rfl, rfl, hb⟩ := ht <;>
      first
        | decide
        | exact absurd ha (by decide)
        | cases hb

/-- `hyg_delLeaves` and `liveLeaves_delLeaves` on `F5` -/
example : Hyg (F5.delLeaves [T.leaf 2]) ∧
    (F5.delLeaves [T.leaf 2]).liveLeaves = [T.leaf 0, T.leaf 1, T.leaf 3, T.leaf 4] :=
  ⟨hyg_delLeaves F5_hyg _, by rw [liveLeaves_delLeaves]; decide⟩

/-- `del_nonroot`: its hypotheses hold for the leaf `d = (0, 2)` of `F5` … -/
example := del_nonroot crT.toNZ F5 (by decide) F5_hyg (d := (0, 2)) (h := T.leaf 2) (b := true)
  (by rw [F5_nodes]; decide) (by decide) [T.leaf 2] R2_spec

/-- … and for the inner node `d = (1, 0)`; e.g. part (B) moves leaf 3 from `(0,3)` to `(1,1)` -/
example : ((1, 1), T.leaf 3, true) ∈ (F5.delLeaves [T.leaf 0, T.leaf 1]).nodes :=
  (del_nonroot crT.toNZ F5 (by decide) F5_hyg (d := (1, 0)) (h := .node (.leaf 0) (.leaf 1)) (b := false)
    (by rw [F5_nodes]; decide) (by decide) [T.leaf 0, T.leaf 1] R10_spec).2.2.1 (0, 3) (.leaf 3) true
      (by decide) (by rw [F5_nodes]; decide)

/-- `del_root`: its hypotheses hold for the root `d = (2, 0)` of `F5` -/
example : ∀ e : Pos × T × Bool, e ∈ (F5.delLeaves [T.leaf 0, T.leaf 1, T.leaf 2, T.leaf 3]).nodes ↔
    (¬ Anc (2, 0) e.1 ∧ e ∈ F5.nodes) ∨ e = ((2, 0), T.z, false) :=
  del_root crT.toNZ F5 (by decide) F5_hyg (d := (2, 0)) (by decide) _ R20_spec

end Example

#print axioms hyg_delLeaves
#print axioms liveLeaves_delLeaves
#print axioms del_root
#print axioms del_nonroot
#print axioms prune_inside
end UtreexoVerif.Proofs.PForestDel
