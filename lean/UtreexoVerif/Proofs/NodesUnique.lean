/-
  Uniqueness of hashes (and positions) among the nodes of the specification forest.
-/
import UtreexoVerif.Proofs.SpecForest
import UtreexoVerif.Spec.View
set_option linter.unusedSectionVars false
namespace UtreexoVerif.Spec
open Hasher
variable {H : Type} [DecidableEq H] [Hasher H]

/-! ### 1. the leaves of the trees are the live leaves -/

/-- every positive number is `2^(k+1) * c + 2^k` (`k` = index of the lowest set bit) -/
theorem exists_lowest_bit (n : Nat) (hn : 0 < n) : ∃ k c, n = 2 ^ (k + 1) * c + 2 ^ k := by
  induction n using Nat.strongRecOn with
  | _ n ih =>
    by_cases h2 : n % 2 = 1
    · exact ⟨0, n / 2, by simp; omega⟩
    · obtain ⟨k, c, h⟩ := ih (n / 2) (by omega) (by omega)
      refine ⟨k + 1, c, ?_⟩
      have e1 : 2 ^ (k + 1 + 1) = 2 * 2 ^ (k + 1) := by rw [Nat.pow_succ]; omega
      have e2 : 2 ^ (k + 1) = 2 * 2 ^ k := by rw [Nat.pow_succ]; omega
      rw [e1, Nat.mul_assoc]
      omega

theorem treesL_leaves : ∀ (n : Nat) (l : List (Option H)), l.length = n → n < 2 ^ 64 →
    (treesL l).flatMap (fun p => optLeaves p.2) = l.filterMap id := by
  intro n
  induction n using Nat.strongRecOn with
  | _ n ih =>
    intro l hl hn
    by_cases h0 : n = 0
    · subst h0
      have : l = [] := by simpa using hl
      subst this
      simp [treesL_nil]
    · obtain ⟨k, c, e⟩ := exists_lowest_bit n (by omega)
      have hpos := Nat.two_pow_pos k
      have hp : 2 ^ (k + 1) = 2 ^ k + 2 ^ k := by rw [Nat.pow_succ]; omega
      have hk : k ≤ 64 := by
        apply Classical.byContradiction
        intro hk
        have : 2 ^ 64 ≤ 2 ^ k := Nat.pow_le_pow_right (by decide) (by omega)
        omega
      have h1 : (l.take (2 ^ (k + 1) * c)).length = 2 ^ (k + 1) * c := by
        rw [List.length_take]; omega
      have h2 : (l.drop (2 ^ (k + 1) * c)).length = 2 ^ k := by
        rw [List.length_drop]; omega
      have := treesL_append (l.take (2 ^ (k + 1) * c)) (l.drop (2 ^ (k + 1) * c)) h1 (by omega)
      rw [List.take_append_drop] at this
      rw [this, List.flatMap_append, ih _ (by omega) _ h1 (by omega),
        treesL_two_pow hk _ h2]
      simp only [List.flatMap_cons, List.flatMap_nil, List.append_nil, optLeaves_collapse]
      rw [← h2, List.take_length, ← List.filterMap_append, List.take_append_drop]

theorem trees_leaves (F : Forest H) (hn : F.numLeaves < 2 ^ 64) :
    F.trees.flatMap (fun p => optLeaves p.2) = F.liveLeaves :=
  treesL_leaves F.numLeaves F.slots rfl hn


/-! ### 2. the hash of a collapsed tree determines the tree -/

theorem CTree.hash_inj (cr : CR H) : ∀ (t t' : CTree H),
    (∀ x ∈ t.leaves, ∀ a b : H, x ≠ ph a b) → (∀ x ∈ t'.leaves, ∀ a b : H, x ≠ ph a b) →
    t.hash = t'.hash → t = t' := by
  intro t
  induction t with
  | leaf h =>
    intro t' h1 h2 e
    cases t' with
    | leaf h' => simpa [CTree.hash] using e
    | node a b => exact absurd e (h1 h (by simp [CTree.leaves]) _ _)
  | node a b iha ihb =>
    intro t' h1 h2 e
    cases t' with
    | leaf h' => exact absurd e.symm (h2 h' (by simp [CTree.leaves]) _ _)
    | node a' b' =>
      obtain ⟨e1, e2⟩ := cr.inj _ _ _ _ e
      have ha := iha a' (fun x hx => h1 x (by simp [CTree.leaves, hx]))
        (fun x hx => h2 x (by simp [CTree.leaves, hx])) e1
      have hb := ihb b' (fun x hx => h1 x (by simp [CTree.leaves, hx]))
        (fun x hx => h2 x (by simp [CTree.leaves, hx])) e2
      rw [ha, hb]

/-! ### 3. a non-zero hash occurs at one position only -/

theorem CTree.leaves_length_pos (t : CTree H) : 0 < t.leaves.length :=
  List.length_pos_iff.mpr (CTree.leaves_ne_nil t)

/-- every entry of `t.nodes r o` is the root of a subtree of `t`; entries other than the
first one belong to strictly smaller subtrees -/
theorem CTree.nodes_sub : ∀ (t : CTree H) (r o : Nat) (e : Pos × H × Bool), e ∈ t.nodes r o →
    ∃ s : CTree H, e.2.1 = s.hash ∧ (∀ x ∈ s.leaves, x ∈ t.leaves) ∧
      s.leaves.length ≤ t.leaves.length := by
  intro t
  induction t with
  | leaf h =>
    intro r o e he
    simp only [CTree.nodes, List.mem_singleton] at he
    subst he
    exact ⟨.leaf h, rfl, fun x hx => hx, Nat.le_refl _⟩
  | node a b iha ihb =>
    intro r o e he
    simp only [CTree.nodes, List.mem_cons, List.mem_append] at he
    rcases he with rfl | he | he
    · exact ⟨.node a b, rfl, fun x hx => hx, Nat.le_refl _⟩
    · obtain ⟨s, h1, h2, h3⟩ := iha _ _ e he
      refine ⟨s, h1, fun x hx => ?_, ?_⟩
      · simp [CTree.leaves, h2 x hx]
      · simp only [CTree.leaves, List.length_append]; omega
    · obtain ⟨s, h1, h2, h3⟩ := ihb _ _ e he
      refine ⟨s, h1, fun x hx => ?_, ?_⟩
      · simp [CTree.leaves, h2 x hx]
      · simp only [CTree.leaves, List.length_append]; omega

/-- entries of two trees with disjoint leaves have different hashes -/
theorem CTree.nodes_disjoint (cr : CR H) (t t' : CTree H)
    (hl : ∀ x ∈ t.leaves, ∀ a b : H, x ≠ ph a b) (hl' : ∀ x ∈ t'.leaves, ∀ a b : H, x ≠ ph a b)
    (hd : ∀ x ∈ t.leaves, x ∉ t'.leaves) (r o r' o' : Nat) (e e' : Pos × H × Bool)
    (he : e ∈ t.nodes r o) (he' : e' ∈ t'.nodes r' o') : e.2.1 ≠ e'.2.1 := by
  intro heq
  obtain ⟨s, h1, h2, _⟩ := CTree.nodes_sub t r o e he
  obtain ⟨s', h1', h2', _⟩ := CTree.nodes_sub t' r' o' e' he'
  have : s = s' := CTree.hash_inj cr s s' (fun x hx => hl x (h2 x hx))
    (fun x hx => hl' x (h2' x hx)) (by rw [← h1, ← h1', heq])
  subst this
  obtain ⟨x, hx⟩ := List.exists_mem_of_ne_nil _ (CTree.leaves_ne_nil s)
  exact hd x (h2 x hx) (h2' x hx)

/-- the root's hash differs from the hash of every entry of its subtrees -/
theorem CTree.root_ne_desc (cr : CR H) (a b c : CTree H)
    (hl : ∀ x ∈ (CTree.node a b).leaves, ∀ u v : H, x ≠ ph u v)
    (hc : ∀ x ∈ c.leaves, x ∈ (CTree.node a b).leaves)
    (hlen : c.leaves.length < (CTree.node a b).leaves.length)
    (r o : Nat) (e : Pos × H × Bool) (he : e ∈ c.nodes r o) :
    e.2.1 ≠ (CTree.node a b).hash := by
  intro heq
  obtain ⟨s, h1, h2, h3⟩ := CTree.nodes_sub c r o e he
  have : s = CTree.node a b := CTree.hash_inj cr s _ (fun x hx => hl x (hc x (h2 x hx))) hl
    (by rw [← h1, heq])
  subst this
  omega

/-- inside one tree with distinct leaves, equal hashes mean equal entries -/
theorem CTree.nodes_hash_unique (cr : CR H) : ∀ (t : CTree H), t.leaves.Nodup →
    (∀ x ∈ t.leaves, ∀ a b : H, x ≠ ph a b) → ∀ (r o : Nat) (e e' : Pos × H × Bool),
    e ∈ t.nodes r o → e' ∈ t.nodes r o → e.2.1 = e'.2.1 → e = e' := by
  intro t
  induction t with
  | leaf h =>
    intro _ _ r o e e' he he' _
    simp only [CTree.nodes, List.mem_singleton] at he he'
    rw [he, he']
  | node a b iha ihb =>
    intro hnd hl r o e e' he he' heq
    have hnd' : (a.leaves ++ b.leaves).Nodup := hnd
    obtain ⟨hna, hnb, hdis⟩ := List.nodup_append.mp hnd'
    have hla : ∀ x ∈ a.leaves, ∀ u v : H, x ≠ ph u v :=
      fun x hx => hl x (by simp [CTree.leaves, hx])
    have hlb : ∀ x ∈ b.leaves, ∀ u v : H, x ≠ ph u v :=
      fun x hx => hl x (by simp [CTree.leaves, hx])
    have hpa := CTree.leaves_length_pos a
    have hpb := CTree.leaves_length_pos b
    have ra := CTree.root_ne_desc cr a b a hl (fun x hx => by simp [CTree.leaves, hx])
      (by simp only [CTree.leaves, List.length_append]; omega) (r - 1) (2 * o)
    have rb := CTree.root_ne_desc cr a b b hl (fun x hx => by simp [CTree.leaves, hx])
      (by simp only [CTree.leaves, List.length_append]; omega) (r - 1) (2 * o + 1)
    have dab := CTree.nodes_disjoint cr a b hla hlb (fun x hx hx' => hdis x hx x hx' rfl)
      (r - 1) (2 * o) (r - 1) (2 * o + 1)
    simp only [CTree.nodes, List.mem_cons, List.mem_append] at he he'
    rcases he with rfl | he | he <;> rcases he' with rfl | he' | he'
    · rfl
    · exact absurd heq.symm (ra _ he')
    · exact absurd heq.symm (rb _ he')
    · exact absurd heq (ra _ he)
    · exact iha hna hla _ _ _ _ he he' heq
    · exact absurd heq (dab _ _ he he')
    · exact absurd heq (rb _ he)
    · exact absurd heq.symm (dab _ _ he' he)
    · exact ihb hnb hlb _ _ _ _ he he' heq

/-- in a duplicate-free concatenation a common element identifies the block -/
theorem flatMap_nodup_common {α β : Type} (g : α → List β) : ∀ (L : List α),
    (L.flatMap g).Nodup → ∀ x ∈ L, ∀ y ∈ L, ∀ a, a ∈ g x → a ∈ g y → x = y := by
  intro L
  induction L with
  | nil => intro _ x hx; cases hx
  | cons z L ih =>
    intro hnd x hx y hy a hax hay
    rw [List.flatMap_cons] at hnd
    obtain ⟨_, h2, h3⟩ := List.nodup_append.mp hnd
    rcases List.mem_cons.mp hx with hxz | hxL <;> rcases List.mem_cons.mp hy with hyz | hyL
    · rw [hxz, hyz]
    · subst hxz
      exact absurd rfl (h3 a hax a (List.mem_flatMap.mpr ⟨y, hyL, hay⟩))
    · subst hyz
      exact absurd rfl (h3 a hay a (List.mem_flatMap.mpr ⟨x, hxL, hax⟩))
    · exact ih h2 x hxL y hyL a hax hay

theorem flatMap_nodup_block {α β : Type} (g : α → List β) : ∀ (L : List α),
    (L.flatMap g).Nodup → ∀ x ∈ L, (g x).Nodup := by
  intro L
  induction L with
  | nil => intro _ x hx; cases hx
  | cons z L ih =>
    intro hnd x hx
    rw [List.flatMap_cons] at hnd
    obtain ⟨h1, h2, _⟩ := List.nodup_append.mp hnd
    rcases List.mem_cons.mp hx with rfl | hx
    · exact h1
    · exact ih h2 x hx

theorem nodes_hash_unique (cr : CR H) (F : Forest H) (hn : F.numLeaves < 2 ^ 64)
    (hnd : F.liveLeaves.Nodup) (hleaf : ∀ x ∈ F.liveLeaves, ∀ a b : H, x ≠ ph a b) :
    ∀ (p p' : Pos) (h : H) (lf lf' : Bool), h ≠ (zero : H) →
      (p, h, lf) ∈ F.nodes → (p', h, lf') ∈ F.nodes → p = p' ∧ lf = lf' := by
  intro p p' h lf lf' hz he he'
  have hnd' := hnd
  rw [← trees_leaves F hn] at hnd'
  have hsub : ∀ q ∈ F.trees, ∀ x ∈ optLeaves q.2, x ∈ F.liveLeaves := by
    intro q hq x hx
    rw [← trees_leaves F hn]
    exact List.mem_flatMap.mpr ⟨q, hq, hx⟩
  simp only [Forest.nodes, List.mem_flatMap] at he he'
  obtain ⟨⟨T, ot⟩, hq, he⟩ := he
  obtain ⟨⟨T', ot'⟩, hq', he'⟩ := he'
  cases ot with
  | none =>
    simp only [List.mem_singleton, Prod.mk.injEq] at he
    exact absurd he.2.1 hz
  | some t =>
  cases ot' with
  | none =>
    simp only [List.mem_singleton, Prod.mk.injEq] at he'
    exact absurd he'.2.1 hz
  | some t' =>
  simp only at he he'
  have hl : ∀ x ∈ t.leaves, ∀ a b : H, x ≠ ph a b := fun x hx => hleaf x (hsub _ hq x hx)
  have hl' : ∀ x ∈ t'.leaves, ∀ a b : H, x ≠ ph a b := fun x hx => hleaf x (hsub _ hq' x hx)
  obtain ⟨s, h1, h2, _⟩ := CTree.nodes_sub t _ _ _ he
  obtain ⟨s', h1', h2', _⟩ := CTree.nodes_sub t' _ _ _ he'
  have hs : s = s' := CTree.hash_inj cr s s' (fun x hx => hl x (h2 x hx))
    (fun x hx => hl' x (h2' x hx)) (by rw [← h1, ← h1'])
  subst hs
  obtain ⟨x, hx⟩ := List.exists_mem_of_ne_nil _ (CTree.leaves_ne_nil s)
  have hsame := flatMap_nodup_common _ _ hnd' _ hq _ hq' x (h2 x hx) (h2' x hx)
  simp only [Prod.mk.injEq, Option.some.injEq] at hsame
  obtain ⟨rfl, rfl⟩ := hsame
  have htn : t.leaves.Nodup := flatMap_nodup_block _ _ hnd' _ hq
  have := CTree.nodes_hash_unique cr t htn hl _ _ _ _ he he' rfl
  simp only [Prod.mk.injEq] at this
  exact ⟨this.1, this.2.2⟩


/-! ### 3'. the hash of a LEAF occurs at one position only — no injectivity of `ph` needed

What the honest-behaviour proofs need about leaf hashes (a map keyed by hash finds the right
leaf) follows from the leaves being pairwise different and not being parent hashes; the
injectivity of `ph` (`CR.inj`) plays no role. -/

/-- a leaf entry of a collapsed tree carries one of the tree's leaves -/
theorem CTree.leafEntry_mem_leaves : ∀ (t : CTree H) (r o : Nat), ∀ e ∈ t.nodes r o, e.2.2 = true →
    e.2.1 ∈ t.leaves := by
  intro t
  induction t with
  | leaf h =>
    intro r o e he _
    simp only [CTree.nodes, List.mem_singleton] at he
    subst he
    simp [CTree.leaves]
  | node a b iha ihb =>
    intro r o e he hf
    simp only [CTree.nodes, List.mem_cons, List.mem_append] at he
    rcases he with rfl | he | he
    · simp at hf
    · simp only [CTree.leaves, List.mem_append]
      exact Or.inl (iha _ _ e he hf)
    · simp only [CTree.leaves, List.mem_append]
      exact Or.inr (ihb _ _ e he hf)

/-- an entry whose hash is not a parent hash is a leaf entry carrying one of the tree's leaves -/
theorem CTree.nonParent_entry : ∀ (t : CTree H) (r o : Nat), ∀ e ∈ t.nodes r o,
    (∀ a b : H, e.2.1 ≠ ph a b) → e.2.2 = true ∧ e.2.1 ∈ t.leaves := by
  intro t
  induction t with
  | leaf h =>
    intro r o e he _
    simp only [CTree.nodes, List.mem_singleton] at he
    subst he
    simp [CTree.leaves]
  | node a b iha ihb =>
    intro r o e he hn
    simp only [CTree.nodes, List.mem_cons, List.mem_append] at he
    rcases he with rfl | he | he
    · exact absurd rfl (hn a.hash b.hash)
    · obtain ⟨h1, h2⟩ := iha _ _ e he hn
      exact ⟨h1, by simp only [CTree.leaves, List.mem_append]; exact Or.inl h2⟩
    · obtain ⟨h1, h2⟩ := ihb _ _ e he hn
      exact ⟨h1, by simp only [CTree.leaves, List.mem_append]; exact Or.inr h2⟩

/-- inside one tree with distinct leaves that are not parent hashes, an entry carrying the hash
of a leaf entry IS that leaf entry (no `CR`) -/
theorem CTree.nodes_leaf_hash_unique : ∀ (t : CTree H), t.leaves.Nodup →
    (∀ x ∈ t.leaves, ∀ a b : H, x ≠ ph a b) → ∀ (r o : Nat) (e e' : Pos × H × Bool),
    e ∈ t.nodes r o → e' ∈ t.nodes r o → e.2.2 = true → e.2.1 = e'.2.1 → e = e' := by
  intro t
  induction t with
  | leaf h =>
    intro _ _ r o e e' he he' _ _
    simp only [CTree.nodes, List.mem_singleton] at he he'
    rw [he, he']
  | node a b iha ihb =>
    intro hnd hl r o e e' he he' hf heq
    have hnd' : (a.leaves ++ b.leaves).Nodup := hnd
    obtain ⟨hna, hnb, hdis⟩ := List.nodup_append.mp hnd'
    have hla : ∀ x ∈ a.leaves, ∀ u v : H, x ≠ ph u v :=
      fun x hx => hl x (by simp [CTree.leaves, hx])
    have hlb : ∀ x ∈ b.leaves, ∀ u v : H, x ≠ ph u v :=
      fun x hx => hl x (by simp [CTree.leaves, hx])
    simp only [CTree.nodes, List.mem_cons, List.mem_append] at he he'
    rcases he with rfl | he | he
    · simp at hf
    · have hxa : e.2.1 ∈ a.leaves := CTree.leafEntry_mem_leaves a _ _ e he hf
      rcases he' with rfl | he' | he'
      · exact absurd heq (hla _ hxa _ _)
      · exact iha hna hla _ _ _ _ he he' hf heq
      · have := (CTree.nonParent_entry b _ _ e' he' (by rw [← heq]; exact hla _ hxa)).2
        rw [← heq] at this
        exact absurd rfl (hdis _ hxa _ this)
    · have hxb : e.2.1 ∈ b.leaves := CTree.leafEntry_mem_leaves b _ _ e he hf
      rcases he' with rfl | he' | he'
      · exact absurd heq (hlb _ hxb _ _)
      · have := (CTree.nonParent_entry a _ _ e' he' (by rw [← heq]; exact hlb _ hxb)).2
        rw [← heq] at this
        exact absurd rfl (hdis _ this _ hxb)
      · exact ihb hnb hlb _ _ _ _ he he' hf heq

/-- in a forest with distinct live leaves that are not parent hashes, a node carrying the hash
of a leaf node sits at that leaf's position and is that leaf (no `CR`) -/
theorem nodes_leaf_hash_unique (F : Forest H) (hn : F.numLeaves < 2 ^ 64)
    (hnd : F.liveLeaves.Nodup) (hleaf : ∀ x ∈ F.liveLeaves, ∀ a b : H, x ≠ ph a b) :
    ∀ (p p' : Pos) (h : H) (lf' : Bool), h ≠ (zero : H) →
      (p, h, true) ∈ F.nodes → (p', h, lf') ∈ F.nodes → p = p' ∧ lf' = true := by
  intro p p' h lf' hz he he'
  have hnd' := hnd
  rw [← trees_leaves F hn] at hnd'
  have hsub : ∀ q ∈ F.trees, ∀ x ∈ optLeaves q.2, x ∈ F.liveLeaves := by
    intro q hq x hx
    rw [← trees_leaves F hn]
    exact List.mem_flatMap.mpr ⟨q, hq, hx⟩
  simp only [Forest.nodes, List.mem_flatMap] at he he'
  obtain ⟨⟨T, ot⟩, hq, he⟩ := he
  obtain ⟨⟨T', ot'⟩, hq', he'⟩ := he'
  cases ot with
  | none =>
    simp only [List.mem_singleton, Prod.mk.injEq] at he
    exact absurd he.2.1 hz
  | some t =>
  cases ot' with
  | none =>
    simp only [List.mem_singleton, Prod.mk.injEq] at he'
    exact absurd he'.2.1 hz
  | some t' =>
  simp only at he he'
  have hl : ∀ x ∈ t.leaves, ∀ a b : H, x ≠ ph a b := fun x hx => hleaf x (hsub _ hq x hx)
  have hht : h ∈ t.leaves := CTree.leafEntry_mem_leaves t _ _ _ he rfl
  have hht' : h ∈ t'.leaves := (CTree.nonParent_entry t' _ _ _ he' (hl h hht)).2
  have hsame := flatMap_nodup_common _ _ hnd' _ hq _ hq' h hht hht'
  simp only [Prod.mk.injEq, Option.some.injEq] at hsame
  obtain ⟨rfl, rfl⟩ := hsame
  have htn : t.leaves.Nodup := flatMap_nodup_block _ _ hnd' _ hq
  have := CTree.nodes_leaf_hash_unique t htn hl _ _ _ _ he he' rfl rfl
  simp only [Prod.mk.injEq] at this
  exact ⟨this.1, this.2.2.symm⟩


/-! ### 3''. a FINITE substitute for the injectivity of `ph`, about one forest

`CR H` is impossible for a finite hash type.  What the proofs that need "equal hashes, equal
nodes" use of it is a statement about the finitely many nodes of the forest(s) at hand:
`NodesDistinct F`.  It is decidable, follows from `CR` (`nodesDistinct_of_CR`), and is what one
expects of a real hash on any forest that will ever exist (a violation is an explicit
collision). -/

/-- no non-zero hash sits at two places of `F` -/
def NodesDistinct (F : Forest H) : Prop :=
  ∀ x ∈ F.nodes, ∀ y ∈ F.nodes, x.2.1 ≠ (zero : H) → x.2.1 = y.2.1 → x.1 = y.1 ∧ x.2.2 = y.2.2

instance (F : Forest H) : Decidable (NodesDistinct F) := by
  unfold NodesDistinct; infer_instance

theorem NodesDistinct.unique {F : Forest H} (hd : NodesDistinct F) {p p' : Pos} {h : H}
    {lf lf' : Bool} (hz : h ≠ (zero : H)) (h1 : (p, h, lf) ∈ F.nodes) (h2 : (p', h, lf') ∈ F.nodes) :
    p = p' ∧ lf = lf' :=
  hd _ h1 _ h2 hz rfl

/-- under `CR` every forest with distinct live leaves that are not parent hashes has it -/
theorem nodesDistinct_of_CR (cr : CR H) (F : Forest H) (hn : F.numLeaves < 2 ^ 64)
    (hnd : F.liveLeaves.Nodup) (hleaf : ∀ x ∈ F.liveLeaves, ∀ a b : H, x ≠ ph a b) :
    NodesDistinct F := by
  rintro ⟨p, h, lf⟩ hx ⟨p', h', lf'⟩ hy hz he
  simp only at hz he
  subst he
  exact nodes_hash_unique cr F hn hnd hleaf p p' h lf lf' hz hx hy


/-- `NodesDistinct` for every forest reached along a history (after each block): finitely many
decidable conditions -/
def DistinctRun : Forest H → List (Forest.Block H) → Prop
  | _, [] => True
  | F, b :: rest => NodesDistinct (F.modify b.1 b.2) ∧ DistinctRun (F.modify b.1 b.2) rest

instance decDistinctRun : (F : Forest H) → (hist : List (Forest.Block H)) →
    Decidable (DistinctRun F hist)
  | _, [] => isTrue trivial
  | F, b :: rest =>
    have := decDistinctRun (F.modify b.1 b.2) rest
    inferInstanceAs (Decidable (NodesDistinct (F.modify b.1 b.2) ∧ DistinctRun (F.modify b.1 b.2) rest))

theorem distinctRun_append {F : Forest H} {h1 h2 : List (Forest.Block H)} :
    DistinctRun F (h1 ++ h2) ↔ DistinctRun F h1 ∧ DistinctRun (Forest.run F h1) h2 := by
  induction h1 generalizing F with
  | nil => simp [DistinctRun, Forest.run]
  | cons b r ih =>
    simp only [List.cons_append, DistinctRun, Forest.run, ih, and_assoc]

/-- the forest reached by a non-empty prefix of a `DistinctRun` history has `NodesDistinct` -/
theorem DistinctRun.last {F : Forest H} {pre : List (Forest.Block H)} {b : Forest.Block H}
    (h : DistinctRun F (pre ++ [b])) : NodesDistinct (Forest.run F (pre ++ [b])) := by
  rw [Forest.run_append]
  exact ((distinctRun_append.1 h).2).1


/-! ### 4. a position occurs only once -/

/-- depth of a collapsed tree -/
def CTree.depth : CTree H → Nat
  | .leaf _ => 0
  | .node a b => max a.depth b.depth + 1

theorem depth_collapse (k : Nat) : ∀ (l : List (Option H)) (t : CTree H),
    collapse k l = some t → t.depth ≤ k := by
  induction k with
  | zero =>
    intro l t ht
    match l with
    | [] => simp [collapse] at ht
    | none :: _ => simp [collapse] at ht
    | some h :: _ =>
      simp only [collapse, Option.some.injEq] at ht
      subst ht
      simp [CTree.depth]
  | succ k ih =>
    intro l t ht
    simp only [collapse] at ht
    cases ha : collapse k (l.take (2 ^ k)) with
    | none =>
      cases hb : collapse k (l.drop (2 ^ k)) with
      | none => simp [ha, hb, join] at ht
      | some b =>
        simp only [ha, hb, join, Option.some.injEq] at ht
        subst ht
        exact Nat.le_succ_of_le (ih _ _ hb)
    | some a =>
      cases hb : collapse k (l.drop (2 ^ k)) with
      | none =>
        simp only [ha, hb, join, Option.some.injEq] at ht
        subst ht
        exact Nat.le_succ_of_le (ih _ _ ha)
      | some b =>
        simp only [ha, hb, join, Option.some.injEq] at ht
        subst ht
        have := ih _ _ ha
        have := ih _ _ hb
        simp only [CTree.depth]
        omega

/-- every entry of `t.nodes r o` lies below `(r, o)` -/
theorem CTree.nodes_pos : ∀ (t : CTree H) (r o : Nat), t.depth ≤ r →
    ∀ e ∈ t.nodes r o, e.1.1 ≤ r ∧ e.1.2 / 2 ^ (r - e.1.1) = o := by
  intro t
  induction t with
  | leaf h =>
    intro r o _ e he
    simp only [CTree.nodes, List.mem_singleton] at he
    subst he
    simp
  | node a b iha ihb =>
    intro r o hd e he
    simp only [CTree.depth] at hd
    simp only [CTree.nodes, List.mem_cons, List.mem_append] at he
    rcases he with rfl | he | he
    · simp
    · obtain ⟨h1, h2⟩ := iha (r - 1) (2 * o) (by omega) e he
      refine ⟨by omega, ?_⟩
      have e1 : r - e.1.1 = (r - 1 - e.1.1) + 1 := by omega
      rw [e1, Nat.pow_succ, ← Nat.div_div_eq_div_mul, h2]
      omega
    · obtain ⟨h1, h2⟩ := ihb (r - 1) (2 * o + 1) (by omega) e he
      refine ⟨by omega, ?_⟩
      have e1 : r - e.1.1 = (r - 1 - e.1.1) + 1 := by omega
      rw [e1, Nat.pow_succ, ← Nat.div_div_eq_div_mul, h2]
      omega

/-- inside one tree, equal positions mean equal entries -/
theorem CTree.nodes_pos_unique : ∀ (t : CTree H) (r o : Nat), t.depth ≤ r →
    ∀ (e e' : Pos × H × Bool), e ∈ t.nodes r o → e' ∈ t.nodes r o → e.1 = e'.1 → e = e' := by
  intro t
  induction t with
  | leaf h =>
    intro r o _ e e' he he' _
    simp only [CTree.nodes, List.mem_singleton] at he he'
    rw [he, he']
  | node a b iha ihb =>
    intro r o hd e e' he he' heq
    simp only [CTree.depth] at hd
    have pa := CTree.nodes_pos a (r - 1) (2 * o) (by omega)
    have pb := CTree.nodes_pos b (r - 1) (2 * o + 1) (by omega)
    simp only [CTree.nodes, List.mem_cons, List.mem_append] at he he'
    rcases he with he | he | he <;> rcases he' with he' | he' | he'
    · rw [he, he']
    · exfalso
      have := (pa _ he').1
      rw [← heq, he] at this
      simp only at this
      omega
    · exfalso
      have := (pb _ he').1
      rw [← heq, he] at this
      simp only at this
      omega
    · exfalso
      have := (pa _ he).1
      rw [heq, he'] at this
      simp only at this
      omega
    · exact iha _ _ (by omega) _ _ he he' heq
    · exfalso
      have h1 := (pa _ he).2
      have h2 := (pb _ he').2
      rw [heq] at h1
      omega
    · exfalso
      have := (pb _ he).1
      rw [heq, he'] at this
      simp only at this
      omega
    · exfalso
      have h1 := (pb _ he).2
      have h2 := (pa _ he').2
      rw [heq] at h1
      omega
    · exact ihb _ _ (by omega) _ _ he he' heq

/-- two different trees are not both above the same position -/
theorem no_common_descendant {n T1 T2 r o : Nat} (hlt : T2 < T1) (hr : r ≤ T2)
    (hb : n.testBit T1 = true)
    (h1 : o / 2 ^ (T1 - r) = 2 * (n >>> (T1 + 1)))
    (h2 : o / 2 ^ (T2 - r) = 2 * (n >>> (T2 + 1))) : False := by
  rw [Nat.shiftRight_eq_div_pow] at h1 h2
  have hp1 : 2 ^ (T1 - r) = 2 ^ (T2 - r) * (2 * 2 ^ (T1 - T2 - 1)) := by
    rw [← Nat.pow_succ', ← Nat.pow_add]; congr 1; omega
  have hp2 : 2 ^ T1 = 2 ^ (T2 + 1) * 2 ^ (T1 - T2 - 1) := by
    rw [← Nat.pow_add]; congr 1; omega
  have hp3 : 2 ^ (T1 + 1) = 2 ^ T1 * 2 := Nat.pow_succ ..
  have key : o / 2 ^ (T1 - r) = n / 2 ^ T1 := by
    rw [hp1, ← Nat.div_div_eq_div_mul, h2, Nat.mul_div_mul_left _ _ (by decide : 0 < 2),
      Nat.div_div_eq_div_mul, ← hp2]
  rw [key, hp3, ← Nat.div_div_eq_div_mul] at h1
  have h3 : n / 2 ^ T1 % 2 = 1 := by
    have := Nat.testBit_eq_decide_div_mod_eq (x := n) (i := T1)
    rw [hb] at this
    simpa using this.symm
  omega

/-- the entries contributed by one tree of the forest -/
theorem mem_trees {F : Forest H} {q : Nat × Option (CTree H)} (hq : q ∈ F.trees) :
    F.numLeaves.testBit q.1 = true ∧
    q.2 = collapse q.1 ((F.slots.drop (treeStart F.numLeaves q.1)).take (2 ^ q.1)) := by
  simp only [Forest.trees, List.mem_map] at hq
  obtain ⟨h, hh, rfl⟩ := hq
  exact ⟨(mem_treeRows.mp hh).2, rfl⟩

set_option linter.unusedVariables false in
theorem nodes_pos_unique (F : Forest H) (hn : F.numLeaves < 2 ^ 64) :
    ∀ (p : Pos) (h h' : H) (lf lf' : Bool),
      (p, h, lf) ∈ F.nodes → (p, h', lf') ∈ F.nodes → h = h' ∧ lf = lf' := by
  intro p h h' lf lf' he he'
  -- every entry of the tree on row `T` lies below the root position of that tree
  have below : ∀ q ∈ F.trees, ∀ e : Pos × H × Bool,
      e ∈ (match q.2 with
        | some t => t.nodes q.1 (rootPos F.numLeaves q.1).2
        | none => [(rootPos F.numLeaves q.1, zero, false)]) →
      e.1.1 ≤ q.1 ∧ e.1.2 / 2 ^ (q.1 - e.1.1) = 2 * (F.numLeaves >>> (q.1 + 1)) := by
    intro q hq e he
    obtain ⟨T, ot⟩ := q
    cases ot with
    | none =>
      simp only [List.mem_singleton] at he
      subst he
      simp [rootPos]
    | some t =>
      simp only at he
      have hd : t.depth ≤ T := depth_collapse T _ t (mem_trees hq).2.symm
      exact CTree.nodes_pos t T _ hd e he
  simp only [Forest.nodes, List.mem_flatMap] at he he'
  obtain ⟨⟨T, ot⟩, hq, he⟩ := he
  obtain ⟨⟨T', ot'⟩, hq', he'⟩ := he'
  have b1 := below _ hq _ he
  have b2 := below _ hq' _ he'
  simp only at b1 b2
  have hT : T = T' := by
    apply Classical.byContradiction
    intro hne
    rcases Nat.lt_or_gt_of_ne hne with hlt | hlt
    · exact no_common_descendant hlt b1.1 (mem_trees hq').1 b2.2 b1.2
    · exact no_common_descendant hlt b2.1 (mem_trees hq).1 b1.2 b2.2
  subst hT
  have hot : ot = ot' := by
    have h1 := (mem_trees hq).2
    have h2 := (mem_trees hq').2
    simp only at h1 h2
    rw [h1, h2]
  subst hot
  cases ot with
  | none =>
    simp only [List.mem_singleton, Prod.mk.injEq] at he he'
    exact ⟨he.2.1.trans he'.2.1.symm, he.2.2.trans he'.2.2.symm⟩
  | some t =>
    simp only at he he'
    have hd : t.depth ≤ T := depth_collapse T _ t (mem_trees hq).2.symm
    have := CTree.nodes_pos_unique t T _ hd _ _ he he' rfl
    simp only [Prod.mk.injEq] at this
    exact ⟨this.2.1, this.2.2⟩


/-! ### non-vacuity: a collision-free hasher and a forest satisfying all hypotheses -/

namespace NodesUniqueExample

/-- free term algebra: the canonical collision-free "hash" -/
inductive Term where
  | z
  | atom (n : Nat)
  | pair (a b : Term)
deriving DecidableEq, Repr

instance : Hasher Term := ⟨Term.pair, Term.z⟩

theorem termCR : CR Term where
  inj := by
    intro a b c d h
    simp only [Hasher.ph] at h
    cases h
    exact ⟨rfl, rfl⟩
  nonzero := by
    intro a b h
    simp only [Hasher.ph, Hasher.zero] at h
    cases h

/-- five slots (trees on rows 2 and 0), one dead slot -/
def exF : Forest Term :=
  ⟨[some (.atom 1), none, some (.atom 2), some (.atom 3), some (.atom 4)]⟩

theorem exF_num : exF.numLeaves < 2 ^ 64 := by decide

theorem exF_nodup : exF.liveLeaves.Nodup := by decide

theorem exF_leaf : ∀ x ∈ exF.liveLeaves, ∀ a b : Term, x ≠ ph a b := by
  intro x hx a b
  have : x = .atom 1 ∨ x = .atom 2 ∨ x = .atom 3 ∨ x = .atom 4 := by
    simpa [exF, Forest.liveLeaves] using hx
  rcases this with rfl | rfl | rfl | rfl <;> (simp only [Hasher.ph]; intro h; cases h)

example : exF.trees.flatMap (fun p => optLeaves p.2) = exF.liveLeaves :=
  trees_leaves exF exF_num

example : exF.nodes.length = 6 := by decide

example : ∀ (p p' : Pos) (h : Term) (lf lf' : Bool), h ≠ (zero : Term) →
    (p, h, lf) ∈ exF.nodes → (p', h, lf') ∈ exF.nodes → p = p' ∧ lf = lf' :=
  nodes_hash_unique termCR exF exF_num exF_nodup exF_leaf

example : ∀ (p : Pos) (h h' : Term) (lf lf' : Bool),
    (p, h, lf) ∈ exF.nodes → (p, h', lf') ∈ exF.nodes → h = h' ∧ lf = lf' :=
  nodes_pos_unique exF exF_num

example : NodesDistinct exF := nodesDistinct_of_CR termCR exF exF_num exF_nodup exF_leaf

example : NodesDistinct exF := by decide

example : ∀ (p p' : Pos) (h : Term) (lf' : Bool), h ≠ (zero : Term) →
    (p, h, true) ∈ exF.nodes → (p', h, lf') ∈ exF.nodes → p = p' ∧ lf' = true :=
  nodes_leaf_hash_unique exF exF_num exF_nodup exF_leaf

end NodesUniqueExample

end UtreexoVerif.Spec
