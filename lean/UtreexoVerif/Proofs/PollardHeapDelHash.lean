/-
  Pointer forest, heap model: `hashToRoot` along a context.

  `hashToRoot_ctx`: from a node `c` whose two children are represented (`KidsRepr`) and whose
  context up to the root is represented (`CtxRepr`, ancestor data arbitrary), `hashToRoot`
  re-computes the data of `c` and of every ancestor; afterwards the root represents the
  plugged tree.  Only the `data` fields of `c` and its ancestors change.
-/
import UtreexoVerif.Proofs.PollardHeapDelCtx
set_option linter.unusedSectionVars false
set_option linter.unusedVariables false
set_option linter.unusedSimpArgs false

namespace UtreexoVerif.Proofs.PollardHeap
open UtreexoVerif UtreexoVerif.Model UtreexoVerif.Model.PollardHeap UtreexoVerif.Spec Hasher
open UtreexoVerif.Model.PollardAbs

variable {H : Type} [DecidableEq H] [Hasher H]

/-- a list of distinct indexes below `n` has at most `n` elements -/
theorem nodup_length_le {l : List Nat} {n : Nat} (nd : l.Nodup) (h : ∀ i ∈ l, i < n) :
    l.length ≤ n := by
  have := List.Nodup.length_le_of_subset (l₂ := List.range n) nd
    (fun i hi => List.mem_range.2 (h i hi))
  simpa using this

/-- `getSibling` of a left niece -/
theorem getSibling_left {st : Pollard H} {c h : Nat} {cn hn : PolNode H}
    (hc : st.heap[c]? = some cn) (ha : cn.aunt = some h) (hh : st.heap[h]? = some hn)
    (hl : hn.lNiece = some c) : getSibling (some c) st = (.ok hn.rNiece, st) := by
  unfold getSibling rd
  simp [hc, ha, hh, hl]

/-- `getSibling` of a right niece -/
theorem getSibling_right {st : Pollard H} {c h : Nat} {cn hn : PolNode H}
    (hc : st.heap[c]? = some cn) (ha : cn.aunt = some h) (hh : st.heap[h]? = some hn)
    (hl : hn.lNiece ≠ some c) (hr : hn.rNiece = some c) :
    getSibling (some c) st = (.ok hn.lNiece, st) := by
  unfold getSibling rd
  simp [hc, ha, hh, hl, hr]

theorem getSibling_root {st : Pollard H} {c : Nat} {cn : PolNode H}
    (hc : st.heap[c]? = some cn) (ha : cn.aunt = none) :
    getSibling (some c) st = (.ok none, st) := by
  unfold getSibling rd
  simp [hc, ha]

theorem getParent_root {st : Pollard H} {c : Nat} {cn : PolNode H}
    (hc : st.heap[c]? = some cn) (ha : cn.aunt = none) :
    getParent (some c) st = (.ok none, st) := by
  unfold getParent rd
  simp [hc, ha]

/-- `getParent` of a node whose aunt pointer is the niece holder `h` of the context node `n`:
the parent is `n` -/
theorem getParent_child {st : Pollard H} {root : Nat} {up : CCtx H} {c n h : Nat} {cn : PolNode H}
    {fpu : List Nat} {l1 l2 : List (H × Nat)}
    (hc : st.heap[c]? = some cn) (ha : cn.aunt = some h)
    (hup : CtxRepr st.heap root up n h fpu l1 l2) (nd : (root :: fpu).Nodup) :
    getParent (some c) st = (.ok (some n), st) := by
  unfold getParent rd
  cases hup with
  | top h1 h2 => simp [hc, ha, h1, h2]
  | left hu h1 h2 h3 h4 h5 h6 h7 hs =>
    rename_i up2 n2 h2' hn2 cn2 sn2 ts2 fs2 fpu2 ls2 l2'
    have hne : n ≠ h := by
      simp only [List.nodup_cons, List.mem_cons, not_or] at nd
      exact nd.2.1.1
    have : hn2.lNiece ≠ some h := by rw [h2]; intro e; cases e; exact hne rfl
    simp [hc, ha, h5, h7, h1, this, h3, h2, hne]
  | right hu h1 h2 h3 h4 h5 h6 h7 hs =>
    rename_i up2 n2 h2' hn2 cn2 sn2 ts2 fs2 fpu2 ls2 l1'
    simp [hc, ha, h5, h7, h1, h2, h3]

/-- the children of a context node, as `getChildren` finds them -/
theorem getChildren_ctx {st : Pollard H} {root : Nat} {ctx : CCtx H} {c hc : Nat} {fpc : List Nat}
    {l1 l2 : List (H × Nat)} {hn : PolNode H}
    (h : CtxRepr st.heap root ctx c hc fpc l1 l2) (nd : (root :: fpc).Nodup)
    (hh : st.heap[hc]? = some hn) :
    getChildren (some c) st = (.ok (hn.lNiece, hn.rNiece), st) := by
  cases h with
  | top h1 h2 =>
    rw [hh] at h1; cases h1
    unfold getChildren rd
    simp [hh, h2]
  | left hu h1 h2 h3 h4 h5 h6 h7 hs =>
    rename_i up n h0 hn0 cn sn ts fs fpu ls l2'
    rw [h5] at hh; cases hh
    have e := getSibling_left (st := st) h4 h6 h1 h2
    unfold getChildren rd
    simp only [bind_apply, deref_some, node_apply, h4, h6, e, h3, h5, pure_apply]
  | right hu h1 h2 h3 h4 h5 h6 h7 hs =>
    rename_i up n h0 hn0 cn sn ts fs fpu ls l1'
    rw [h5] at hh; cases hh
    have hne : hn0.lNiece ≠ some c := by
      simp only [List.nodup_cons, List.mem_cons, not_or] at nd
      rw [h2]; intro e; cases e
      exact nd.2.1.1 rfl
    have e := getSibling_right (st := st) h4 h6 h1 hne h3
    unfold getChildren rd
    simp only [bind_apply, deref_some, node_apply, h4, h6, e, h2, h5, pure_apply]

/-- set the `data` field -/
def setData (hp : Heap H) (i : Nat) (d : H) : Heap H := hp.modify i (fun x => { x with data := d })

theorem getElem?_setData (hp : Heap H) (i j : Nat) (d : H) :
    (setData hp i d)[j]? = if i = j then (hp[j]?).map (fun x => { x with data := d }) else hp[j]? := by
  unfold setData; rw [Array.getElem?_modify]

@[simp] theorem size_setData (hp : Heap H) (i : Nat) (d : H) : (setData hp i d).size = hp.size := by
  unfold setData; simp

/-- the children of `c` are represented; give `c` the right data: `c` is represented -/
theorem KidsRepr.toSub {hp : Heap H} {c hc : Nat} {a b : CTree H} {fp : List Nat}
    {lv : List (H × Nat)} {cn : PolNode H} (k : KidsRepr hp c hc a b fp lv)
    (hcn : hp[c]? = some cn) (hcfp : c ∉ fp) :
    Sub (setData hp c (ph a.hash b.hash)) c hc (.node a b) fp lv := by
  obtain ⟨l, r, hn, ln, rn, fa, fb, la, lb, k1, k2, k3, k4, k5, k6, k7, sa, sb, rfl, rfl⟩ := k
  simp only [List.mem_cons, List.mem_append, not_or] at hcfp
  obtain ⟨cl, cr, cfa, cfb⟩ := hcfp
  have e : ∀ j, j ≠ c → (setData hp c (ph a.hash b.hash))[j]? = hp[j]? := by
    intro j hj; rw [getElem?_setData, if_neg (Ne.symm hj)]
  have ec : (setData hp c (ph a.hash b.hash))[c]? = some { cn with data := ph a.hash b.hash } := by
    rw [getElem?_setData, if_pos rfl, hcn]; rfl
  have eh : ∃ hn', (setData hp c (ph a.hash b.hash))[hc]? = some hn' ∧ hn'.lNiece = some l ∧
      hn'.rNiece = some r := by
    by_cases hch : hc = c
    · subst hch; rw [hcn] at k1; cases k1; exact ⟨_, ec, k2, k3⟩
    · exact ⟨hn, (e hc hch).trans k1, k2, k3⟩
  obtain ⟨hn', e1, e2, e3⟩ := eh
  refine Sub.node ec rfl e1 e2 e3 ((e l (Ne.symm cl)).trans k4) ((e r (Ne.symm cr)).trans k5) k6 k7 ?_ ?_
  · apply sa.frame
    · intro x hx; exact ⟨x, (e l (Ne.symm cl)).trans hx, rfl⟩
    · intro x hx; exact ⟨x, (e r (Ne.symm cr)).trans hx, rfl, rfl⟩
    · intro i hi; exact e i (fun h => cfa (h ▸ hi))
  · apply sb.frame
    · intro x hx; exact ⟨x, (e r (Ne.symm cr)).trans hx, rfl⟩
    · intro x hx; exact ⟨x, (e l (Ne.symm cl)).trans hx, rfl, rfl⟩
    · intro i hi; exact e i (fun h => cfb (h ▸ hi))

/-- one iteration of `hashToRoot` at a context node whose children are represented -/
theorem hashToRoot_step {st : Pollard H} {root : Nat} {ctx : CCtx H} {c hc : Nat} {fpc : List Nat}
    {l1 l2 : List (H × Nat)} {a b : CTree H} {fp : List Nat} {lv : List (H × Nat)} (fuel : Nat)
    (h : CtxRepr st.heap root ctx c hc fpc l1 l2) (k : KidsRepr st.heap c hc a b fp lv)
    (nd : (root :: fpc).Nodup) (nxt : Ptr)
    (hp : getParent (some c) { st with heap := setData st.heap c (ph a.hash b.hash) } =
      (.ok nxt, { st with heap := setData st.heap c (ph a.hash b.hash) })) :
    hashToRoot (fuel + 1) (some c) st =
      hashToRoot fuel nxt { st with heap := setData st.heap c (ph a.hash b.hash) } := by
  obtain ⟨l, r, hn, ln, rn, fa, fb, la, lb, k1, k2, k3, k4, k5, k6, k7, sa, sb, rfl, rfl⟩ := k
  obtain ⟨ln', el, dl⟩ := sa.hash
  obtain ⟨rn', er, dr⟩ := sb.hash
  rw [k4] at el; cases el
  rw [k5] at er; cases er
  rw [hashToRoot]
  simp only [bind_apply, getChildren_ctx h nd k1, k2, k3, rd, deref_some, node_apply, k4, k5,
    setNode_apply, dl, dr]
  unfold setData at hp
  simp only [hp]
  rfl

/-- **`hashToRoot` along a context** -/
theorem hashToRoot_ctx {root : Nat} : ∀ (ctx : CCtx H) (st : Pollard H) (c hc : Nat) (fpc : List Nat)
    (l1 l2 : List (H × Nat)) (a b : CTree H) (fp : List Nat) (lv : List (H × Nat)) (fuel : Nat),
    CtxRepr st.heap root ctx c hc fpc l1 l2 → KidsRepr st.heap c hc a b fp lv →
    (root :: fpc ++ fp).Nodup → ctx.depth + 1 ≤ fuel →
    ∃ hp', hashToRoot fuel (some c) st = (.ok (), { st with heap := hp' }) ∧
      hp'.size = st.heap.size ∧
      (∀ i, i ∉ root :: fpc → hp'[i]? = st.heap[i]?) ∧
      (∃ rn, hp'[root]? = some rn ∧ rn.aunt = none) ∧
      ∃ fp', Sub hp' root root (ctx.plug (.node a b)) fp' (l1 ++ lv ++ l2) ∧
        fp'.Perm (fpc ++ fp) := by
  intro ctx
  induction ctx with
  | top =>
    intro st c hc fpc l1 l2 a b fp lv fuel h k nd hf
    obtain ⟨f, rfl⟩ : ∃ f, fuel = f + 1 := ⟨fuel - 1, by simp [CCtx.depth] at hf; omega⟩
    have nd0 : (root :: fpc).Nodup := by
      have := nd; rw [List.cons_append] at this
      simp only [List.nodup_cons, List.nodup_append, List.mem_append, not_or] at this ⊢
      exact ⟨this.1.1, this.2.1⟩
    cases h with
    | top h1 h2 =>
      rename_i rn
      have hpar : getParent (some root) { st with heap := setData st.heap root (ph a.hash b.hash) } =
          (.ok none, { st with heap := setData st.heap root (ph a.hash b.hash) }) := by
        apply getParent_root (cn := { rn with data := ph a.hash b.hash })
        · show (setData st.heap root (ph a.hash b.hash))[root]? = _
          rw [getElem?_setData, if_pos rfl, h1]; rfl
        · exact h2
      rw [hashToRoot_step f (CtxRepr.top h1 h2) k nd0 none hpar]
      refine ⟨setData st.heap root (ph a.hash b.hash), by simp [hashToRoot], by simp, ?_, ?_, ?_⟩
      · intro i hi
        simp only [List.mem_cons, List.not_mem_nil, or_false] at hi
        rw [getElem?_setData, if_neg (Ne.symm hi)]
      · exact ⟨{ rn with data := ph a.hash b.hash },
          by rw [getElem?_setData, if_pos rfl, h1]; rfl, h2⟩
      · refine ⟨fp, ?_, by simp⟩
        have hcfp : root ∉ fp := by
          simp only [List.nil_append, List.cons_append, List.nodup_cons] at nd
          exact nd.1
        simpa [CCtx.plug] using k.toSub h1 hcfp
  | left up ts ih =>
    intro st c hc fpc l1 l2 a b fp lv fuel h k nd hf
    obtain ⟨f, rfl⟩ : ∃ f, fuel = f + 1 := ⟨fuel - 1, by simp [CCtx.depth] at hf; omega⟩
    have nd0 : (root :: fpc).Nodup := by
      have := nd; rw [List.cons_append] at this
      simp only [List.nodup_cons, List.nodup_append, List.mem_append, not_or] at this ⊢
      exact ⟨this.1.1, this.2.1⟩
    have hall := h
    cases h with
    | left hu h1 h2 h3 h4 h5 h6 h7 hs =>
      rename_i n h0 hn0 cn sn fs fpu ls l2'
      -- facts from distinctness
      have ndl := nd
      simp only [List.cons_append, List.nodup_cons, List.mem_cons, List.mem_append, not_or,
        List.nodup_append] at ndl
      obtain ⟨⟨hrc, hrs, ⟨hrfs, hrfpu⟩, hrfp⟩, ⟨hcs, ⟨hcfs, hcfpu⟩, hcfp⟩, ⟨⟨hsfs, hsfpu⟩, hsfp⟩,
        ⟨ndfs, ndfpu, dfsfpu⟩, ndfp, dd⟩ := ndl
      obtain ⟨hp1, hp1_def⟩ : ∃ hp1, hp1 = setData st.heap c (ph a.hash b.hash) := ⟨_, rfl⟩
      have e1 : ∀ j, j ≠ c → hp1[j]? = st.heap[j]? := by
        intro j hj; rw [hp1_def, getElem?_setData, if_neg (Ne.symm hj)]
      have ec : hp1[c]? = some { cn with data := ph a.hash b.hash } := by
        rw [hp1_def, getElem?_setData, if_pos rfl, h4]; rfl
      have hu1 : CtxRepr hp1 root up n h0 fpu l1 l2' := by
        apply hu.frame
        intro i hi
        apply e1
        intro hic; subst hic
        simp only [List.mem_cons] at hi
        rcases hi with hi | hi
        · exact hrc hi.symm
        · exact hcfpu hi
      have ndu : (root :: fpu).Nodup := by
        simp only [List.nodup_cons]; exact ⟨hrfpu, ndfpu⟩
      have hpar : getParent (some c) { st with heap := hp1 } = (.ok (some n), { st with heap := hp1 }) :=
        getParent_child (st := { st with heap := hp1 }) ec h6 hu1 ndu
      rw [hashToRoot_step f hall k nd0 (some n) (by rw [← hp1_def]; exact hpar), ← hp1_def]
      -- the node `n` one level up: its children `c`, `hc` are represented
      have hh0 : h0 ≠ c := by
        intro e
        have := hu.holder_mem
        rw [e] at this
        simp only [List.mem_cons] at this
        rcases this with h | h
        · exact hrc h.symm
        · exact hcfpu h
      have subC : Sub hp1 c hc (.node a b) fp lv := by
        rw [hp1_def]; exact k.toSub h4 hcfp
      have subS : Sub hp1 hc c ts fs ls := by
        apply hs.frame
        · intro x hx; exact ⟨x, (e1 hc (Ne.symm hcs)).trans hx, rfl⟩
        · intro x hx; rw [h4] at hx; cases hx; exact ⟨_, ec, rfl, rfl⟩
        · intro i hi; exact e1 i (fun e => hcfs (e ▸ hi))
      have k' : KidsRepr hp1 n h0 (.node a b) ts (c :: hc :: (fp ++ fs)) (lv ++ ls) :=
        ⟨c, hc, hn0, _, sn, fp, fs, lv, ls, (e1 h0 hh0).trans h1, h2, h3, ec,
          (e1 hc (Ne.symm hcs)).trans h5, h6, h7, subC, subS, rfl, rfl⟩
      have nd' : (root :: fpu ++ (c :: hc :: (fp ++ fs))).Nodup := by
        refine (List.Perm.nodup_iff ?_).1 nd
        perm_count
      obtain ⟨hp', g1, g2, g3, g4, fp', g5, g6⟩ := ih { st with heap := hp1 } n h0 fpu l1 l2' (.node a b) ts
        (c :: hc :: (fp ++ fs)) (lv ++ ls) f hu1 k' nd' (by simp [CCtx.depth] at hf; omega)
      refine ⟨hp', g1, by rw [g2, hp1_def]; simp, ?_, g4, fp', ?_, ?_⟩
      · intro i hi
        simp only [List.mem_cons, List.mem_append, not_or] at hi
        rw [g3 i (by simp only [List.mem_cons, not_or]; exact ⟨hi.1, hi.2.2.2.2⟩)]
        exact e1 i hi.2.1
      · simpa [CCtx.plug, List.append_assoc] using g5
      · refine g6.trans ?_
        perm_count
  | right ts up ih =>
    intro st c hc fpc l1 l2 a b fp lv fuel h k nd hf
    obtain ⟨f, rfl⟩ : ∃ f, fuel = f + 1 := ⟨fuel - 1, by simp [CCtx.depth] at hf; omega⟩
    have nd0 : (root :: fpc).Nodup := by
      have := nd; rw [List.cons_append] at this
      simp only [List.nodup_cons, List.nodup_append, List.mem_append, not_or] at this ⊢
      exact ⟨this.1.1, this.2.1⟩
    have hall := h
    cases h with
    | right hu h1 h2 h3 h4 h5 h6 h7 hs =>
      rename_i n h0 hn0 cn sn fs fpu ls l1'
      have ndl := nd
      simp only [List.cons_append, List.nodup_cons, List.mem_cons, List.mem_append, not_or,
        List.nodup_append] at ndl
      obtain ⟨⟨hrc, hrs, ⟨hrfs, hrfpu⟩, hrfp⟩, ⟨hcs, ⟨hcfs, hcfpu⟩, hcfp⟩, ⟨⟨hsfs, hsfpu⟩, hsfp⟩,
        ⟨ndfs, ndfpu, dfsfpu⟩, ndfp, dd⟩ := ndl
      obtain ⟨hp1, hp1_def⟩ : ∃ hp1, hp1 = setData st.heap c (ph a.hash b.hash) := ⟨_, rfl⟩
      have e1 : ∀ j, j ≠ c → hp1[j]? = st.heap[j]? := by
        intro j hj; rw [hp1_def, getElem?_setData, if_neg (Ne.symm hj)]
      have ec : hp1[c]? = some { cn with data := ph a.hash b.hash } := by
        rw [hp1_def, getElem?_setData, if_pos rfl, h4]; rfl
      have hu1 : CtxRepr hp1 root up n h0 fpu l1' l2 := by
        apply hu.frame
        intro i hi
        apply e1
        intro hic; subst hic
        simp only [List.mem_cons] at hi
        rcases hi with hi | hi
        · exact hrc hi.symm
        · exact hcfpu hi
      have ndu : (root :: fpu).Nodup := by
        simp only [List.nodup_cons]; exact ⟨hrfpu, ndfpu⟩
      have hpar : getParent (some c) { st with heap := hp1 } = (.ok (some n), { st with heap := hp1 }) :=
        getParent_child (st := { st with heap := hp1 }) ec h6 hu1 ndu
      rw [hashToRoot_step f hall k nd0 (some n) (by rw [← hp1_def]; exact hpar), ← hp1_def]
      have hh0 : h0 ≠ c := by
        intro e
        have := hu.holder_mem
        rw [e] at this
        simp only [List.mem_cons] at this
        rcases this with h | h
        · exact hrc h.symm
        · exact hcfpu h
      have subC : Sub hp1 c hc (.node a b) fp lv := by
        rw [hp1_def]; exact k.toSub h4 hcfp
      have subS : Sub hp1 hc c ts fs ls := by
        apply hs.frame
        · intro x hx; exact ⟨x, (e1 hc (Ne.symm hcs)).trans hx, rfl⟩
        · intro x hx; rw [h4] at hx; cases hx; exact ⟨_, ec, rfl, rfl⟩
        · intro i hi; exact e1 i (fun e => hcfs (e ▸ hi))
      have k' : KidsRepr hp1 n h0 ts (.node a b) (hc :: c :: (fs ++ fp)) (ls ++ lv) :=
        ⟨hc, c, hn0, sn, _, fs, fp, ls, lv, (e1 h0 hh0).trans h1, h2, h3,
          (e1 hc (Ne.symm hcs)).trans h5, ec, h7, h6, subS, subC, rfl, rfl⟩
      have nd' : (root :: fpu ++ (hc :: c :: (fs ++ fp))).Nodup := by
        refine (List.Perm.nodup_iff ?_).1 nd
        perm_count
      obtain ⟨hp', g1, g2, g3, g4, fp', g5, g6⟩ := ih { st with heap := hp1 } n h0 fpu l1' l2 ts (.node a b)
        (hc :: c :: (fs ++ fp)) (ls ++ lv) f hu1 k' nd' (by simp [CCtx.depth] at hf; omega)
      refine ⟨hp', g1, by rw [g2, hp1_def]; simp, ?_, g4, fp', ?_, ?_⟩
      · intro i hi
        simp only [List.mem_cons, List.mem_append, not_or] at hi
        rw [g3 i (by simp only [List.mem_cons, not_or]; exact ⟨hi.1, hi.2.2.2.2⟩)]
        exact e1 i hi.2.1
      · simpa [CCtx.plug, List.append_assoc] using g5
      · refine g6.trans ?_
        perm_count

/-- a frame lemma that lets the niece holder of the context node change its niece pointers (and
`remember`): what `transferAunt` does to the aunt of the parent -/
theorem CtxRepr.frame_holder {hp hp' : Heap H} {root : Nat} {ctx : CCtx H} {c hc : Nat}
    {fpc : List Nat} {l1 l2 : List (H × Nat)} (h : CtxRepr hp root ctx c hc fpc l1 l2)
    (nd : (root :: fpc).Nodup)
    (e : ∀ i ∈ root :: fpc, i ≠ hc → hp'[i]? = hp[i]?)
    (eh : ∀ x, hp[hc]? = some x → ∃ x', hp'[hc]? = some x' ∧ x'.aunt = x.aunt ∧ x'.data = x.data) :
    CtxRepr hp' root ctx c hc fpc l1 l2 := by
  cases h with
  | top h1 h2 =>
    obtain ⟨x', e1, e2, _⟩ := eh _ h1
    exact CtxRepr.top e1 (e2.trans h2)
  | left hu h1 h2 h3 h4 h5 h6 h7 hs =>
    rename_i up n h0 hn0 cn sn ts fs fpu ls l2'
    have ndl := nd
    simp only [List.nodup_cons, List.mem_cons, List.mem_append, not_or, List.nodup_append] at ndl
    obtain ⟨⟨hrc, hrs, hrfs, hrfpu⟩, ⟨hcs, hcfs, hcfpu⟩, ⟨hsfs, hsfpu⟩, ndfs, ndfpu, dd⟩ := ndl
    have hmem : ∀ i ∈ root :: fpu, i ≠ hc ∧ i ∈ root :: c :: hc :: (fs ++ fpu) := by
      intro i hi
      simp only [List.mem_cons] at hi
      rcases hi with rfl | hi
      · exact ⟨hrs, by simp⟩
      · exact ⟨fun e => hsfpu (e ▸ hi), by simp [hi]⟩
    obtain ⟨x', e1, e2, e3⟩ := eh _ h5
    have hh := hmem h0 hu.holder_mem
    refine CtxRepr.left (hu.frame (fun i hi => e i (hmem i hi).2 (hmem i hi).1))
      ((e h0 hh.2 hh.1).trans h1) h2 h3 ((e c (by simp) hcs).trans h4) e1 h6 (e2.trans h7)
      (hs.frame ?_ ?_ ?_)
    · intro x hx; rw [h5] at hx; cases hx; exact ⟨x', e1, e3⟩
    · intro x hx; exact ⟨x, (e c (by simp) hcs).trans hx, rfl, rfl⟩
    · intro i hi; exact e i (by simp [hi]) (fun e' => hsfs (e' ▸ hi))
  | right hu h1 h2 h3 h4 h5 h6 h7 hs =>
    rename_i up n h0 hn0 cn sn ts fs fpu ls l1'
    have ndl := nd
    simp only [List.nodup_cons, List.mem_cons, List.mem_append, not_or, List.nodup_append] at ndl
    obtain ⟨⟨hrc, hrs, hrfs, hrfpu⟩, ⟨hcs, hcfs, hcfpu⟩, ⟨hsfs, hsfpu⟩, ndfs, ndfpu, dd⟩ := ndl
    have hmem : ∀ i ∈ root :: fpu, i ≠ hc ∧ i ∈ root :: c :: hc :: (fs ++ fpu) := by
      intro i hi
      simp only [List.mem_cons] at hi
      rcases hi with rfl | hi
      · exact ⟨hrs, by simp⟩
      · exact ⟨fun e => hsfpu (e ▸ hi), by simp [hi]⟩
    obtain ⟨x', e1, e2, e3⟩ := eh _ h5
    have hh := hmem h0 hu.holder_mem
    refine CtxRepr.right (hu.frame (fun i hi => e i (hmem i hi).2 (hmem i hi).1))
      ((e h0 hh.2 hh.1).trans h1) h2 h3 ((e c (by simp) hcs).trans h4) e1 h6 (e2.trans h7)
      (hs.frame ?_ ?_ ?_)
    · intro x hx; rw [h5] at hx; cases hx; exact ⟨x', e1, e3⟩
    · intro x hx; exact ⟨x, (e c (by simp) hcs).trans hx, rfl, rfl⟩
    · intro i hi; exact e i (by simp [hi]) (fun e' => hsfs (e' ▸ hi))

theorem CtxRepr.depth_le {hp : Heap H} {root : Nat} {ctx : CCtx H} {c hc : Nat} {fpc : List Nat}
    {l1 l2 : List (H × Nat)} (h : CtxRepr hp root ctx c hc fpc l1 l2) : ctx.depth ≤ fpc.length := by
  induction h with
  | top => simp [CCtx.depth]
  | left _ _ _ _ _ _ _ _ _ ih => simp [CCtx.depth]; omega
  | right _ _ _ _ _ _ _ _ _ ih => simp [CCtx.depth]; omega

/-- `getSibling` of a context node does not fail -/
theorem getSibling_ctx {st : Pollard H} {root : Nat} {ctx : CCtx H} {c hc : Nat} {fpc : List Nat}
    {l1 l2 : List (H × Nat)} (h : CtxRepr st.heap root ctx c hc fpc l1 l2)
    (nd : (root :: fpc).Nodup) : ∃ x, getSibling (some c) st = (.ok x, st) := by
  cases h with
  | top h1 h2 => exact ⟨_, getSibling_root h1 h2⟩
  | left hu h1 h2 h3 h4 h5 h6 h7 hs => exact ⟨_, getSibling_left h4 h6 h1 h2⟩
  | right hu h1 h2 h3 h4 h5 h6 h7 hs =>
    rename_i up n h0 hn0 cn sn ts fs fpu ls l1'
    have hne : hn0.lNiece ≠ some c := by
      simp only [List.nodup_cons, List.mem_cons, not_or] at nd
      rw [h2]; intro e; cases e
      exact nd.2.1.1 rfl
    exact ⟨_, getSibling_right h4 h6 h1 hne h3⟩

theorem childPath_append : ∀ (p q : List Bool) (t : CTree H),
    childPath t (p ++ q) = (childPath t p).bind (fun s => childPath s q) := by
  intro p
  induction p with
  | nil => intro q t; rfl
  | cons d p ih =>
    intro q t
    simp only [List.cons_append, childPath]
    cases child t d with
    | none => rfl
    | some c => exact ih q c

end UtreexoVerif.Proofs.PollardHeap
