/-
  `Stump.add` (Model/Stump.lean, transliteration of stump.go) refines the slot
  specification: helper lemmas for Props/C01.
-/
import UtreexoVerif.Model.Stump
import UtreexoVerif.Proofs.SpecForest
import UtreexoVerif.Proofs.Bits
set_option linter.unusedSectionVars false

namespace UtreexoVerif.Proofs.StumpAdd
open UtreexoVerif Model Hasher Spec

variable {H : Type} [DecidableEq H] [Hasher H]

/-! ### small facts -/

@[simp] theorem ok_bind {α β} (a : α) (f : α → Out β) : (Out.ok a >>= f) = f a := rfl

/-- the loop condition `(numLeaves >> h) & 1 == 1` tests binary digit `h` -/
theorem bit_test {n : Nat} (hn : n < 2 ^ 64) (j : Nat) :
    ((BitVec.ofNat 64 n >>> j) &&& 1#64 == 1#64) = n.testBit j := by
  rw [Bool.eq_iff_iff, beq_iff_eq, ← BitVec.toNat_inj, BitVec.toNat_and, BitVec.toNat_ushiftRight,
    BitVec.toNat_ofNat, Nat.mod_eq_of_lt hn, Nat.testBit_eq_decide_div_mod_eq,
    Nat.shiftRight_eq_div_pow]
  simp [Nat.and_one_is_mod]

theorem popLast_concat {α} (l : List α) (x : α) : popLast (l ++ [x]) = .ok (x, l) := by
  simp [popLast]

theorem toNat_h8 {j : Nat} (hj : j ≤ 64) : (BitVec.ofNat 8 j).toNat = j := by
  rw [BitVec.toNat_ofNat]; omega

theorem u64_succ (n : Nat) : BitVec.ofNat 64 n + 1 = BitVec.ofNat 64 (n + 1) := by
  rw [BitVec.ofNat_add]; rfl

theorem h8_succ (j : Nat) : BitVec.ofNat 8 j + 1 = BitVec.ofNat 8 (j + 1) := by
  rw [BitVec.ofNat_add]; rfl

/-- merging from the right = popping from the end -/
theorem mergeHash_eq_foldl (lo : List H) (x : H) :
    mergeHash lo x = lo.reverse.foldl (fun acc r => if r ≠ zero then ph r acc else acc) x := by
  rw [mergeHash, List.foldl_reverse]

/-! ### the merge loop of `add` -/

theorem addInner_spec (ar : U8) {n t : Nat} (hn : n < 2 ^ 64) (ht : t ≤ 64)
    (hlow : ∀ j < t, n.testBit j = true) (hat : n.testBit t = false) (pre : List H) :
    ∀ (rl : List H) (j fuel : Nat) (nr : H) (pos : U64) (upd : List (H × U64)),
      j + rl.length = t → rl.length < fuel →
      ∃ upd', addInner ar (BitVec.ofNat 64 n) fuel (BitVec.ofNat 8 j) (pre ++ rl.reverse) nr pos upd =
        .ok (pre, rl.foldl (fun acc r => if r ≠ zero then ph r acc else acc) nr, upd') := by
  intro rl
  induction rl with
  | nil =>
    intro j fuel nr pos upd hj hf
    obtain ⟨f, rfl⟩ : ∃ f, fuel = f + 1 := ⟨fuel - 1, by omega⟩
    have : j = t := by simpa using hj
    subst this
    unfold addInner
    rw [toNat_h8 ht, bit_test hn, hat]
    exact ⟨upd, by simp⟩
  | cons r rest ih =>
    intro j fuel nr pos upd hj hf
    obtain ⟨f, rfl⟩ : ∃ f, fuel = f + 1 := ⟨fuel - 1, by omega⟩
    simp only [List.length_cons] at hj hf
    unfold addInner
    rw [toNat_h8 (by omega), bit_test hn, hlow j (by omega)]
    simp only [if_true, List.reverse_cons, ← List.append_assoc, popLast_concat, ok_bind,
      List.foldl_cons]
    rw [h8_succ]
    by_cases hr : r = zero
    · simp only [hr, ne_eq, not_true_eq_false, if_false]
      exact ih (j + 1) f nr pos upd (by omega) (by omega)
    · simp only [ne_eq, hr, not_false_eq_true, if_true]
      exact ih (j + 1) f _ _ _ (by omega) (by omega)

/-! ### `rootsToDestory` never panics on a well-formed stump -/

theorem rtdInner_spec (ra : U8) {n t : Nat} (hn : n < 2 ^ 64) (ht : t ≤ 64)
    (hlow : ∀ j < t, n.testBit j = true) (hat : n.testBit t = false) (pre : List H) :
    ∀ (rl : List H) (j fuel : Nat) (deleted : List U64),
      j + rl.length = t → rl.length < fuel →
      ∃ d', rtdInner (BitVec.ofNat 64 n) ra fuel (BitVec.ofNat 8 j) (pre ++ rl.reverse) deleted =
        .ok (pre, d') := by
  intro rl
  induction rl with
  | nil =>
    intro j fuel deleted hj hf
    obtain ⟨f, rfl⟩ : ∃ f, fuel = f + 1 := ⟨fuel - 1, by omega⟩
    have : j = t := by simpa using hj
    subst this
    unfold rtdInner
    rw [toNat_h8 ht, bit_test hn, hat]
    exact ⟨deleted, by simp⟩
  | cons r rest ih =>
    intro j fuel deleted hj hf
    obtain ⟨f, rfl⟩ : ∃ f, fuel = f + 1 := ⟨fuel - 1, by omega⟩
    simp only [List.length_cons] at hj hf
    unfold rtdInner
    rw [toNat_h8 (by omega), bit_test hn, hlow j (by omega)]
    simp only [if_true, List.reverse_cons, ← List.append_assoc, popLast_concat, ok_bind]
    rw [h8_succ]
    exact ih (j + 1) f _ (by omega) (by omega)

/-- split a root list of a forest with `2^(t+1) * c + (2^t - 1)` leaves into the high
roots and the `t` low roots -/
theorem split_roots {t c : Nat} (ht : t ≤ 64) (roots : List H)
    (hl : roots.length = (treeRows (2 ^ (t + 1) * c + (2 ^ t - 1))).length) :
    ∃ pre rl : List H, roots = pre ++ rl.reverse ∧ rl.length = t ∧
      pre.length = (treeRows (2 ^ (t + 1) * c)).length := by
  rw [(treeRows_length_trailing ht).1] at hl
  refine ⟨roots.take (treeRows (2 ^ (t + 1) * c)).length,
    (roots.drop (treeRows (2 ^ (t + 1) * c)).length).reverse, ?_, ?_, ?_⟩
  · rw [List.reverse_reverse, List.take_append_drop]
  · rw [List.length_reverse, List.length_drop]; omega
  · rw [List.length_take]; omega

theorem trailing_lt {t c n : Nat} (h : n = 2 ^ (t + 1) * c + (2 ^ t - 1)) (hn : n < 2 ^ 64) : t ≤ 64 := by
  apply Classical.byContradiction
  intro hc
  have : 2 ^ 65 ≤ 2 ^ t := Nat.pow_le_pow_right (by decide) (by omega)
  omega

theorem rtdOuter_ok (nonZero : H) (numAdds : U64) :
    ∀ (k : Nat) (i : U64) (n : Nat) (roots : List H) (deleted : List U64),
      n + k ≤ 2 ^ 64 → (k = 0 ∨ n < 2 ^ 64) → roots.length = (treeRows n).length →
      ∃ d, rtdOuter nonZero numAdds k i (BitVec.ofNat 64 n) roots deleted = .ok d := by
  intro k
  induction k with
  | zero => intro i n roots deleted _ _ _; exact ⟨deleted, rfl⟩
  | succ k ih =>
    intro i n roots deleted hk hn0 hl
    have hn : n < 2 ^ 64 := by omega
    obtain ⟨t, c, hdec⟩ := exists_trailing_ones n
    have ht := trailing_lt hdec hn
    subst hdec
    obtain ⟨pre, rl, rfl, hrl, hpre⟩ := split_roots ht roots hl
    obtain ⟨d', hd'⟩ := rtdInner_spec (H := H) (TreeRows (BitVec.ofNat 64 (2 ^ (t + 1) * c + (2 ^ t - 1)) + (numAdds - i)))
      hn ht (fun j hj => testBit_trailing_low hj) testBit_trailing_at pre rl 0 65 deleted
      (by omega) (by omega)
    unfold rtdOuter
    rw [show (0#8) = BitVec.ofNat 8 0 from rfl, hd']
    simp only [ok_bind]
    rw [u64_succ]
    apply ih
    · omega
    · omega
    · rw [(treeRows_length_trailing ht).2, List.length_append, hpre]; rfl

theorem rootsToDestroy_ok (nonZero : H) (k n : Nat) (roots : List H) (hk : n + k < 2 ^ 64)
    (hl : roots.length = (treeRows n).length) :
    ∃ d, rootsToDestroy nonZero k (BitVec.ofNat 64 n) roots = .ok d := by
  unfold rootsToDestroy
  split
  · exact rtdOuter_ok nonZero _ k _ n roots [] (by omega) (by omega) hl
  · exact ⟨[], rfl⟩

/-! ### the main loop of `add` -/

theorem add_addMany (F : Forest H) (x : H) (rest : List H) :
    (F.add x).addMany rest = F.addMany (x :: rest) := by
  simp [Forest.add, Forest.addMany]

theorem addMany_nil (F : Forest H) : F.addMany [] = F := by
  simp [Forest.addMany]

theorem numLeaves_add (F : Forest H) (x : H) : (F.add x).numLeaves = F.numLeaves + 1 := by
  simp [Forest.add, Forest.numLeaves]

theorem numLeaves_addMany (F : Forest H) (xs : List H) :
    (F.addMany xs).numLeaves = F.numLeaves + xs.length := by
  simp [Forest.addMany, Forest.numLeaves]

theorem liveLeaves_add (F : Forest H) (x : H) : (F.add x).liveLeaves = F.liveLeaves ++ [x] := by
  simp [Forest.add, Forest.liveLeaves]

theorem loop_spec (nonZero : H) (ar : U8) (hph : ∀ a b : H, ph a b ≠ (zero : H)) :
    ∀ (adds : List H) (F : Forest H) (s : Stump H) (upd : List (H × U64)) (remaining : Nat),
      remaining = adds.length → s.roots = F.roots → s.numLeaves = BitVec.ofNat 64 F.numLeaves →
      F.numLeaves + adds.length < 2 ^ 64 → (∀ y ∈ F.liveLeaves, y ≠ (zero : H)) →
      (∀ y ∈ adds, y ≠ (zero : H)) →
      ∃ upd', Stump.add.loop nonZero ar adds remaining s upd =
        .ok (⟨(F.addMany adds).roots, BitVec.ofNat 64 (F.numLeaves + adds.length)⟩, upd') := by
  intro adds
  induction adds with
  | nil =>
    intro F s upd remaining _ hr hn _ _ _
    refine ⟨upd, ?_⟩
    cases s
    simp only at hr hn
    simp [Stump.add.loop, addMany_nil, hr, hn]
  | cons x rest ih =>
    intro F s upd remaining hrem hr hn hlt hlive hadds
    simp only [List.length_cons] at hrem hlt
    obtain ⟨t, c, hdec⟩ := exists_trailing_ones F.numLeaves
    have hnlt : F.numLeaves < 2 ^ 64 := by omega
    have ht : t ≤ 64 := trailing_lt hdec hnlt
    obtain ⟨hi, lo, hroots, hlo, hadd⟩ := roots_add F x hdec ht hph hlive
    obtain ⟨d, hd⟩ := rootsToDestroy_ok nonZero remaining F.numLeaves s.roots (by omega)
      (by rw [hr, roots_length])
    rw [Stump.add.loop, hn, hd]
    simp only [ok_bind]
    have hbits_low : ∀ j < t, F.numLeaves.testBit j = true := by
      intro j hj; rw [hdec]; exact testBit_trailing_low hj
    have hbit_at : F.numLeaves.testBit t = false := by rw [hdec]; exact testBit_trailing_at
    obtain ⟨upd1, h1⟩ := addInner_spec ar hnlt ht hbits_low hbit_at hi lo.reverse 0 65 x
      (d.foldl (fun pos del =>
        if isAncestor (Parent del ar) pos ar then (calcNextPosition pos del ar).1 else pos)
        (BitVec.ofNat 64 F.numLeaves))
      (mapPut upd x (d.foldl (fun pos del =>
        if isAncestor (Parent del ar) pos ar then (calcNextPosition pos del ar).1 else pos)
        (BitVec.ofNat 64 F.numLeaves)))
      (by rw [List.length_reverse]; omega) (by rw [List.length_reverse]; omega)
    rw [List.reverse_reverse, ← hroots, ← hr] at h1
    rw [show (0#8) = BitVec.ofNat 8 0 from rfl, h1]
    simp only [ok_bind]
    rw [← mergeHash_eq_foldl, u64_succ]
    obtain ⟨upd', h2⟩ := ih (F.add x) ⟨hi ++ [mergeHash lo x], BitVec.ofNat 64 (F.numLeaves + 1)⟩ upd1
      (remaining - 1) (by omega) hadd.symm (by rw [numLeaves_add]) (by rw [numLeaves_add]; omega)
      (by
        intro y hy
        rw [liveLeaves_add, List.mem_append] at hy
        rcases hy with hy | hy
        · exact hlive y hy
        · rw [List.mem_singleton] at hy
          subst hy
          exact hadds y List.mem_cons_self)
      (fun y hy => hadds y (List.mem_cons_of_mem _ hy))
    refine ⟨upd', ?_⟩
    rw [h2, add_addMany, numLeaves_add]
    congr 4
    simp only [List.length_cons]
    omega

/-- `Stump.add` computes the roots and leaf count of the specification forest -/
theorem add_refines (nonZero : H) (F : Forest H) (s : Stump H) (adds : List H)
    (hph : ∀ a b : H, ph a b ≠ (zero : H))
    (hr : s.roots = F.roots) (hn : s.numLeaves = BitVec.ofNat 64 F.numLeaves)
    (hlt : F.numLeaves + adds.length < 2 ^ 64)
    (hlive : ∀ y ∈ F.liveLeaves, y ≠ (zero : H)) (hadds : ∀ y ∈ adds, y ≠ (zero : H)) :
    ∃ upd td, s.add nonZero adds =
      .ok (⟨(F.addMany adds).roots, BitVec.ofNat 64 (F.numLeaves + adds.length)⟩, upd, td) := by
  obtain ⟨d, hd⟩ := rootsToDestroy_ok nonZero adds.length F.numLeaves s.roots hlt
    (by rw [hr, roots_length])
  obtain ⟨upd', h⟩ := loop_spec nonZero (TreeRows (s.numLeaves + BitVec.ofNat 64 adds.length)) hph adds F s []
    adds.length rfl hr hn hlt hlive hadds
  refine ⟨sortHP (upd'.map (fun e => (e.2, e.1))), d, ?_⟩
  unfold Stump.add
  simp only
  rw [hn] at h ⊢
  rw [hd, ok_bind, h, ok_bind]
  rfl

/-! ### a block without deletions: `Stump.Update` is `add` -/

theorem calcLoop_empty (n : U64) (tr : U8) (fuel : Nat) (pr : List H) :
    calcLoop n tr (fuel + 1)
      ({ toProve := [], next := [], done := [], proof := pr, row := 0#8, roots := [], rootRows := [] } : CalcSt H) =
      .ok { toProve := [], next := [], done := [], proof := pr, row := 0#8, roots := [], rootRows := [] } := by
  unfold calcLoop calcStep
  simp [nextLeast]
  rfl

theorem calculateHashes_empty (n : U64) (dh : Option (List H)) (hd : dh = none ∨ dh = some []) :
    calculateHashes n dh [] ([] : List H) = .ok { nodes := [], roots := [], rootRows := [] } := by
  rcases hd with rfl | rfl
  · simp [calculateHashes, toHashAndPos, sortHP, sortBy, calcFuel, bind, Out.bind, calcLoop_empty,
      mergeHP, pure]
  · simp [calculateHashes, toHashAndPos, sortHP, sortBy, calcFuel, bind, Out.bind, calcLoop_empty,
      mergeHP, pure]

/-- with no deletions (empty targets, empty proof) `Stump.Update` accepts and is `add` -/
theorem update_no_dels (nonZero : H) (s : Stump H) (adds : List H) :
    s.update nonZero [] adds [] [] =
      match s.add nonZero adds with
      | .ok (s2, newAdd, td) =>
        .ok (s2, { toDestroy := td, prevNumLeaves := s.numLeaves, newDel := [], newAdd := newAdd })
      | .err => .err
      | .panic => .panic
      | .hang => .hang := by
  unfold Stump.update Stump.updateSt Stump.delSt verify
  simp only [List.length_nil, ne_eq, not_true_eq_false, if_false, bind, Out.bind,
    calculateHashes_empty _ _ (Or.inr rfl), calculateHashes_empty _ _ (Or.inl rfl), matchRoots]
  simp only [List.zip_nil_right, List.foldl_nil]
  cases s
  simp only
  generalize Stump.add nonZero _ adds = r
  rcases r with ⟨s2, na, td⟩ | _ | _ | _ <;> rfl

end UtreexoVerif.Proofs.StumpAdd
