/-
  An accepted proof is at least as long as the canonical proof of its targets.

  `MapPollard.ingest` (mappollard.go) stores `proof.Proof[i]` for every `i < len(proofPos)`,
  `proofPos = ProofPositions(sorted targets)`.  It is only ever called after `Verify` has
  accepted `(delHashes, proof)`.  This file proves that the index is in range:

      verify n roots hs ts ps = ok  →  |ProofPositions(sort ts)| ≤ |ps|        (`accepted_targets`)

  for ARBITRARY roots, hashes and hash function (no collision-freeness, no forest, no non-zero
  hypothesis), `n ≤ 2^63`; and more: the accepted targets are pairwise distinct nodes of the
  forest none of which is an ancestor of another (`PPHyp`), so that `ProofPositions` of them —
  in ANY row allocation `T ≥ TreeRows` (`proofPositions_any`) — is the `(row, offset)`
  algorithm `refPP`, i.e. the specification's canonical list.

  Method.  Everything is read BACKWARDS along the run of `calculateHashes`, from its final
  state (both queues empty; `matchRoots` accepted, so no two root candidates on one row):
    * `loop_allNd` — every element ever queued is the encoding of a node of the forest
      (a value outside the forest can only move to values outside the forest, is never a root
      position, and the loop only ends when the queues are empty).  Hence each step has an exact
      description on `(row, offset)` pairs (`Shape`): a root step, a proof step `q ↦ parent q`
      consuming one proof hash, or a pair step `q, sib q ↦ parent q`;
    * `Good`  — the queued positions are pairwise unrelated by `Anc` and none lies below an
                already recorded root candidate;
    * `Cover` — for every queued `q` and every non-root ancestor-or-self `y` of `q` whose
                sibling is on no target's path, a proof hash is consumed for `sib y` later in
                the run.
  `Good` of the start state is `PPHyp`; `Cover` of the start state puts every canonical proof
  position among the consumed ones.
-/
import UtreexoVerif.Proofs.ProofPosFinal
import UtreexoVerif.Proofs.CalcGeo
import UtreexoVerif.Proofs.CalcSound
import UtreexoVerif.Proofs.ProofOps

namespace UtreexoVerif.Proofs.IngestBound
open UtreexoVerif Spec Spec.Forest Model Hasher GoInt
open UtreexoVerif.Proofs

/-! ### `(row, offset)` facts -/

/-- neither is an ancestor-or-self of the other -/
def Indep (a b : Pos) : Prop := ¬ Anc a b ∧ ¬ Anc b a

theorem Indep.symm {a b : Pos} (h : Indep a b) : Indep b a := ⟨h.2, h.1⟩

theorem anc_parent_self (q : Pos) : Anc (parent q) q := (Anc.refl q).parent

/-- a descendant of a node below a root is below that root -/
theorem belowRoot_desc {n R : Nat} {p l : Pos} (hb : BelowRoot n p.1 p.2 R) (ha : Anc p l) :
    BelowRoot n l.1 l.2 R := by
  obtain ⟨h1, h2, h3⟩ := hb
  obtain ⟨a1, a2⟩ := ha
  refine ⟨by omega, h2, ?_⟩
  rw [← h3, a2, Nat.div_div_eq_div_mul, ← Nat.pow_add, show p.1 - l.1 + (R - p.1) = R - l.1 by omega]

theorem indep_of_parent {q l : Pos} (h : Indep (parent q) l) : Indep q l := by
  refine ⟨fun ha => h.1 ha.parent, fun ha => ?_⟩
  by_cases e : l.1 = q.1
  · have := ha.eq_of_row e
    subst this
    exact h.1 (anc_parent_self l)
  · have h1 := ha.1
    exact h.2 (anc_parent_iff.2 ⟨ha, by omega⟩)

theorem indep_sib (q : Pos) : Indep q (sib q) := by
  constructor
  · intro ha
    exact ProofPosSpec_sib_ne q (ha.eq_of_row rfl).symm
  · intro ha
    exact ProofPosSpec_sib_ne q (ha.eq_of_row rfl)
where
  ProofPosSpec_sib_ne (p : Pos) : sib p ≠ p := UtreexoVerif.Proofs.sib_ne p

/-- a root is unrelated to every node that is not below it -/
theorem indep_root {n : Nat} {q l : Pos} {Rl : Nat} (hq : BelowRoot n q.1 q.2 q.1)
    (hl : BelowRoot n l.1 l.2 Rl) (hnb : ¬ BelowRoot n l.1 l.2 q.1) : Indep q l := by
  constructor
  · intro ha
    exact hnb (belowRoot_desc hq ha)
  · intro ha
    have hq' := belowRoot_desc hl ha
    have := belowRoot_unique hq hq'
    have h1 := ha.1
    have h2 := hl.1
    have e : l.1 = q.1 := by omega
    have := ha.eq_of_row e
    subst this
    exact hnb hq

/-- the state the backward induction carries: queued positions, rows of the recorded roots -/
def Good (n : Nat) (L : List Pos) (rr : List Nat) : Prop :=
  L.Pairwise Indep ∧ (∀ q ∈ L, ∀ r ∈ rr, ¬ BelowRoot n q.1 q.2 r) ∧ rr.Nodup

theorem Good.perm {n : Nat} {L L' : List Pos} {rr : List Nat} (h : Good n L rr) (p : L.Perm L') :
    Good n L' rr :=
  ⟨(p.pairwise_iff (fun h => Indep.symm h)).1 h.1, fun q hq => h.2.1 q (p.mem_iff.2 hq), h.2.2⟩

/-- backwards over a proof step or the `q` half of a pair step -/
theorem good_single {n : Nat} {q : Pos} {L : List Pos} {rr : List Nat} {R : Nat}
    (hb : BelowRoot n q.1 q.2 R) (hlt : q.1 < R) (h : Good n (parent q :: L) rr) :
    Good n (q :: L) rr := by
  obtain ⟨h1, h2, h3⟩ := h
  rw [List.pairwise_cons] at h1
  refine ⟨List.pairwise_cons.2 ⟨fun l hl => indep_of_parent (h1.1 l hl), h1.2⟩, ?_, h3⟩
  intro x hx r hr hbx
  rcases List.mem_cons.1 hx with rfl | hx
  · have e := belowRoot_unique hbx hb
    subst e
    exact h2 (parent x) (by simp) r hr (belowRoot_parent hb (by omega))
  · exact h2 x (List.mem_cons_of_mem _ hx) r hr hbx

theorem belowRoot_sib' {n R : Nat} {q : Pos} (hb : BelowRoot n q.1 q.2 R) (hlt : q.1 < R) :
    BelowRoot n (sib q).1 (sib q).2 R :=
  belowRoot_sib (r := q.1) (o := q.2) hb (Nat.ne_of_lt hlt)

theorem good_pair {n : Nat} {q : Pos} {L : List Pos} {rr : List Nat} {R : Nat}
    (hb : BelowRoot n q.1 q.2 R) (hlt : q.1 < R) (h : Good n (parent q :: L) rr) :
    Good n (q :: sib q :: L) rr := by
  have hs : Good n (sib q :: L) rr := by
    apply good_single (belowRoot_sib' hb hlt) (show (sib q).1 < R from hlt)
    rw [UtreexoVerif.Proofs.parent_sib]
    exact h
  have hq : Good n (q :: L) rr := good_single hb hlt h
  refine ⟨?_, ?_, h.2.2⟩
  · rw [List.pairwise_cons]
    refine ⟨?_, hs.1⟩
    intro l hl
    rcases List.mem_cons.1 hl with rfl | hl
    · exact indep_sib q
    · exact (List.pairwise_cons.1 hq.1).1 l hl
  · intro x hx
    rcases List.mem_cons.1 hx with rfl | hx
    · exact hq.2.1 x (by simp)
    · exact hs.2.1 x hx

theorem good_root {n : Nat} {q : Pos} {L : List Pos} {rr : List Nat}
    (hq : BelowRoot n q.1 q.2 q.1) (hL : ∀ l ∈ L, ∃ R, BelowRoot n l.1 l.2 R)
    (h : Good n L (rr ++ [q.1])) : Good n (q :: L) rr := by
  obtain ⟨h1, h2, h3⟩ := h
  refine ⟨?_, ?_, (List.nodup_append.1 h3).1⟩
  · rw [List.pairwise_cons]
    refine ⟨fun l hl => ?_, h1⟩
    obtain ⟨Rl, hbl⟩ := hL l hl
    exact indep_root hq hbl (h2 l hl q.1 (by simp))
  · intro x hx r hr hbx
    rcases List.mem_cons.1 hx with rfl | hx
    · have e := belowRoot_unique hbx hq
      exact (List.nodup_append.1 h3).2.2 r hr x.1 (by simp) e
    · exact h2 x hx r (by simp [hr]) hbx

/-- what the rest of the run owes to the queued positions: `C` lists the positions whose hash
is taken from the proof later on -/
def Cover (n : Nat) (Tg : List Pos) (L : List Pos) (C : List Pos) : Prop :=
  ∀ q ∈ L, ∀ R, BelowRoot n q.1 q.2 R → ∀ y, Anc y q → y.1 < R → ¬ InP n Tg (sib y) → sib y ∈ C

theorem Cover.perm {n : Nat} {Tg L L' C : List Pos} (h : Cover n Tg L C) (p : L.Perm L') :
    Cover n Tg L' C := fun q hq => h q (p.mem_iff.2 hq)

theorem cover_up {n : Nat} {Tg L C : List Pos} {q : Pos} (h : Cover n Tg (parent q :: L) C)
    {R : Nat} (hb : BelowRoot n q.1 q.2 R) (hlt : q.1 < R) :
    ∀ R', BelowRoot n q.1 q.2 R' → ∀ y, Anc y q → q.1 < y.1 → y.1 < R' → ¬ InP n Tg (sib y) → sib y ∈ C := by
  intro R' hb' y ha hy hyR hn
  have e := belowRoot_unique hb' hb
  subst e
  exact h (parent q) (by simp) R' (belowRoot_parent hb (by omega)) y (anc_parent_iff.2 ⟨ha, hy⟩) hyR hn

theorem cover_single {n : Nat} {Tg L C : List Pos} {q : Pos} {R : Nat}
    (hb : BelowRoot n q.1 q.2 R) (hlt : q.1 < R) (h : Cover n Tg (parent q :: L) C) :
    Cover n Tg (q :: L) (sib q :: C) := by
  intro x hx R' hb' y ha hyR hn
  rcases List.mem_cons.1 hx with rfl | hx
  · by_cases e : y.1 = x.1
    · rw [ha.eq_of_row e]; simp
    · have := ha.1
      exact List.mem_cons_of_mem _ (cover_up h hb hlt R' hb' y ha (by omega) hyR hn)
  · exact List.mem_cons_of_mem _ (h x (List.mem_cons_of_mem _ hx) R' hb' y ha hyR hn)

theorem cover_pair {n : Nat} {Tg L C : List Pos} {q : Pos} {R : Nat}
    (hb : BelowRoot n q.1 q.2 R) (hlt : q.1 < R) (hq : InP n Tg q) (hs : InP n Tg (sib q))
    (h : Cover n Tg (parent q :: L) C) : Cover n Tg (q :: sib q :: L) C := by
  intro x hx R' hb' y ha hyR hn
  rcases List.mem_cons.1 hx with rfl | hx
  · by_cases e : y.1 = x.1
    · rw [ha.eq_of_row e] at hn; exact absurd hs hn
    · have := ha.1
      exact cover_up h hb hlt R' hb' y ha (by omega) hyR hn
  rcases List.mem_cons.1 hx with rfl | hx
  · by_cases e : y.1 = (sib q).1
    · rw [ha.eq_of_row e, UtreexoVerif.Proofs.sib_sib] at hn; exact absurd hq hn
    · have := ha.1
      have h' : Cover n Tg (parent (sib q) :: L) C := by
        rw [UtreexoVerif.Proofs.parent_sib]; exact h
      exact cover_up h' (belowRoot_sib' hb hlt) (show (sib q).1 < R from hlt) R' hb' y ha (by omega) hyR hn
  · exact h x (List.mem_cons_of_mem _ hx) R' hb' y ha hyR hn

theorem cover_root {n : Nat} {Tg L C : List Pos} {q : Pos} (hq : BelowRoot n q.1 q.2 q.1)
    (h : Cover n Tg L C) : Cover n Tg (q :: L) C := by
  intro x hx R' hb' y ha hyR hn
  rcases List.mem_cons.1 hx with rfl | hx
  · have e := belowRoot_unique hb' hq
    have := ha.1
    omega
  · exact h x hx R' hb' y ha hyR hn

/-! ### one step of the loop, with the proof list -/

section
set_option linter.unusedSectionVars false
variable {H : Type} [DecidableEq H] [Hasher H]
open CalcSound CalcGeo SpecView

/-- `SibOK` of `Proofs/CalcSound.lean` with what happens to the proof list -/
def SibOK' (p : U64) (tp nx : HP H) (pr : List H) (sib : H) (tp' nx' : HP H) (pr' : List H) : Prop :=
  (∃ y, Pop tp nx y tp' nx' ∧ p ≠ y.1 ∧ rightSib p = y.1 ∧ sib = y.2 ∧ pr' = pr) ∨
  (tp' = tp ∧ nx' = nx ∧ sib ≠ zero ∧ pr = sib :: pr')

theorem sibSel_none' {tp nx dn : HP H} {pr : List H} {r}
    (h : sibSel none tp nx dn pr = .ok r) :
    r.2.1 = tp ∧ r.2.2.1 = nx ∧ r.1 ≠ zero ∧ pr = r.1 :: r.2.2.2.2 := by
  cases pr with
  | nil => simp [sibSel] at h
  | cons a pr =>
    simp only [sibSel] at h
    split at h
    · simp at h
    · rename_i hne
      injection h with h
      subst h
      exact ⟨rfl, rfl, hne, rfl⟩

theorem sibSel_ok' {p : U64} {tp nx dn : HP H} {pr : List H} {r}
    (h : sibSel (sibFrom p tp nx) tp nx dn pr = .ok r) :
    SibOK' p tp nx pr r.1 r.2.1 r.2.2.1 r.2.2.2.2 := by
  have hnone : ∀ {tp nx : HP H}, sibSel none tp nx dn pr = .ok r →
      SibOK' p tp nx pr r.1 r.2.1 r.2.2.1 r.2.2.2.2 := fun h => Or.inr (sibSel_none' h)
  have hF : ∀ {a : U64 × H} {tp nx : HP H},
      sibSel (if (p != a.1 && rightSib p == a.1) = true then some false else none)
        (a :: tp) nx dn pr = .ok r → SibOK' p (a :: tp) nx pr r.1 r.2.1 r.2.2.1 r.2.2.2.2 := by
    intro a tp nx h
    split at h
    · rename_i hc
      simp only [Bool.and_eq_true, bne_iff_ne, beq_iff_eq] at hc
      rw [sibSel_false] at h
      injection h with h
      subst h
      exact Or.inl ⟨a, Or.inl ⟨rfl, rfl⟩, hc.1, hc.2, rfl, rfl⟩
    · exact hnone h
  have hT : ∀ {b : U64 × H} {tp nx : HP H},
      sibSel (if (p != b.1 && rightSib p == b.1) = true then some true else none)
        tp (b :: nx) dn pr = .ok r → SibOK' p tp (b :: nx) pr r.1 r.2.1 r.2.2.1 r.2.2.2.2 := by
    intro b tp nx h
    split at h
    · rename_i hc
      simp only [Bool.and_eq_true, bne_iff_ne, beq_iff_eq] at hc
      rw [sibSel_true] at h
      injection h with h
      subst h
      exact Or.inl ⟨b, Or.inr ⟨rfl, rfl⟩, hc.1, hc.2, rfl, rfl⟩
    · exact hnone h
  rcases tp with _ | ⟨a, tp⟩ <;> rcases nx with _ | ⟨b, nx⟩
  · exact hnone h
  · exact hT h
  · exact hF h
  · by_cases hab : a.1 < b.1
    · have : sibFrom p (a :: tp) (b :: nx) =
          if (p != a.1 && rightSib p == a.1) = true then some false else none := by
        simp [sibFrom, nextLeast, hab]
      rw [this] at h
      exact hF h
    · have : sibFrom p (a :: tp) (b :: nx) =
          if (p != b.1 && rightSib p == b.1) = true then some true else none := by
        simp [sibFrom, nextLeast, hab]
      rw [this] at h
      exact hT h

/-- shape of a continuing step, with the proof list -/
theorem calcStep_cont' {n : U64} {tr : U8} {s s' : CalcSt H}
    (h : calcStep n tr s = .ok (.cont s')) :
    ∃ x tp nx, Pop s.toProve s.next x tp nx ∧ rowCursor n tr x.1 257 s.row = .ok s'.row ∧
      ((isRootPositionOnRow x.1 n s'.row = true ∧ s'.toProve = tp ∧ s'.next = nx ∧
          s'.rootRows = s.rootRows ++ [s'.row] ∧ s'.proof = s.proof ∧
          s'.roots = s.roots ++ [x.2]) ∨
       (∃ sib tp' nx', SibOK' x.1 tp nx s.proof sib tp' nx' s'.proof ∧ s'.toProve = tp' ∧
          s'.next = nx' ++ [(Parent x.1 tr, getNextHash x.1 x.2 sib)] ∧
          s'.rootRows = s.rootRows ∧ s'.roots = s.roots)) := by
  rw [calcStep_eq] at h
  unfold calcStep' at h
  split at h
  · simp at h
  split at h
  · simp at h
  rename_i fromNext hnl
  have hP := popLeast_pop s.done hnl
  generalize popLeast fromNext s.toProve s.next s.done = pop at h hP
  obtain ⟨p, hsh, tp, nx, dn⟩ := pop
  simp only at h hP
  rw [bind_eq_ok] at h
  obtain ⟨row, hrow, h⟩ := h
  refine ⟨(p, hsh), tp, nx, hP, ?_⟩
  split at h
  · rename_i hroot
    injection h with h
    injection h with h
    subst h
    exact ⟨hrow, Or.inl ⟨hroot, rfl, rfl, rfl, rfl, rfl⟩⟩
  · rw [bind_eq_ok] at h
    obtain ⟨r, hsel, h⟩ := h
    injection h with h
    injection h with h
    subst h
    exact ⟨hrow, Or.inr ⟨r.1, r.2.1, r.2.2.1, sibSel_ok' hsel, rfl, rfl, rfl, rfl⟩⟩

theorem Pop.perm {tp nx tp' nx' : HP H} {x : U64 × H} (h : Pop tp nx x tp' nx') :
    (tp ++ nx).Perm (x :: (tp' ++ nx')) := by
  rcases h with ⟨rfl, rfl⟩ | ⟨rfl, rfl⟩
  · exact List.Perm.refl _
  · exact List.perm_middle

/-! ### decoding -/

/-- decode a `uint64` position of the `rows`-row geometry -/
def dq (rows : Nat) (p : U64) : Pos := (dec rows p.toNat).getD (0, 0)

theorem dq_E {rows : Nat} (hr : rows ≤ 63) {q : Pos} (hq : CalcGeo.Valid rows q) :
    dq rows (E rows q) = q := by
  unfold dq
  rw [E_toNat hr hq]
  obtain ⟨r, o⟩ := q
  rw [dec_enc _ _ _ hq.1 hq.2]
  rfl

/-- `p` is the encoding of a node of the forest of `n` leaves -/
def Nd (n : Nat) (p : U64) : Prop :=
  (∃ R, BelowRoot n (dq (forestRows n) p).1 (dq (forestRows n) p).2 R) ∧
    p = E (forestRows n) (dq (forestRows n) p)

theorem nd_valid {n : Nat} {p : U64} (h : Nd n p) : CalcGeo.Valid (forestRows n) (dq (forestRows n) p) := by
  obtain ⟨⟨R, hb⟩, _⟩ := h
  have := belowRoot_valid (le_two_pow_forestRows n) hb
  exact ⟨this.2.1, this.2.2⟩

theorem nd_E {n : Nat} (hn : n ≤ 2 ^ 63) {q : Pos} {R : Nat} (hb : BelowRoot n q.1 q.2 R) :
    Nd n (E (forestRows n) q) ∧ dq (forestRows n) (E (forestRows n) q) = q := by
  have hv : CalcGeo.Valid (forestRows n) q := by
    have := belowRoot_valid (le_two_pow_forestRows n) hb
    exact ⟨this.2.1, this.2.2⟩
  have hd := dq_E (rows_le_63 hn) hv
  unfold Nd
  rw [hd]
  exact ⟨⟨⟨R, hb⟩, rfl⟩, rfl⟩

/-- every value up to the top position is an encoding -/
theorem exists_E {rows : Nat} (hr : rows ≤ 63) {p : U64} (hp : p.toNat ≤ 2 ^ (rows + 1) - 2) :
    ∃ q, CalcGeo.Valid rows q ∧ p = E rows q := by
  obtain ⟨r, o, h1, h2, h3⟩ := exists_enc hp
  refine ⟨(r, o), ⟨h1, h2⟩, ?_⟩
  apply BitVec.eq_of_toNat_eq
  rw [E_toNat hr (p := (r, o)) ⟨h1, h2⟩, h3]

/-- a non-root step, read backwards: if `Parent p` is a node of the forest and `p` is in the
address range allowed by the row cursor, then `p` is a node strictly below its root and
`Parent p` is its parent -/
theorem nonroot_geom {n : Nat} (hn : n ≤ 2 ^ 63) {p : U64}
    (hp : p.toNat ≤ 2 ^ (forestRows n + 1) - 2)
    (hpar : Nd n (Parent p (H8 (forestRows n)))) :
    Nd n p ∧ ∃ R, BelowRoot n (dq (forestRows n) p).1 (dq (forestRows n) p).2 R ∧
      (dq (forestRows n) p).1 < R ∧
      dq (forestRows n) (Parent p (H8 (forestRows n))) = parent (dq (forestRows n) p) := by
  have htr : forestRows n ≤ 63 := rows_le_63 hn
  have hv' := nd_valid hpar
  obtain ⟨q, hv, he⟩ := exists_E htr hp
  obtain ⟨⟨R', hb'⟩, he'⟩ := hpar
  have hdq : dq (forestRows n) p = q := by rw [he]; exact dq_E htr hv
  generalize hq' : dq (forestRows n) (Parent p (H8 (forestRows n))) = q' at *
  by_cases hlt : q.1 < forestRows n
  · have hpe : Parent p (H8 (forestRows n)) = E (forestRows n) (parent q) := by
      rw [he]; exact parent_E htr hv hlt
    have hqq : q' = parent q := by
      rw [← hq', hpe]
      exact dq_E htr (parent_valid hv hlt)
    subst hqq
    have hbq : BelowRoot n q.1 q.2 R' := belowRoot_desc hb' (anc_parent_self q)
    have h2 : q.1 + 1 ≤ R' := hb'.1
    have hnd : Nd n p := by
      unfold Nd; rw [hdq]; exact ⟨⟨R', hbq⟩, he⟩
    rw [hdq]
    exact ⟨hnd, R', hbq, by omega, rfl⟩
  · exfalso
    have h1 := hv.1
    have e : q.1 = forestRows n := by omega
    have h2 := hv.2
    rw [e, Nat.sub_self] at h2
    have hq0 : q = (forestRows n, 0) := by
      obtain ⟨a, b⟩ := q
      simp only at e h2 ⊢
      subst e
      have : b = 0 := by omega
      rw [this]
    have htop := parent_top htr
    rw [hq0] at he
    have : p = encU (forestRows n) (forestRows n) 0 := he
    rw [← this, he', E_toNat htr hv'] at htop
    have h3 : Spec.enc (forestRows n) q' < 2 ^ (forestRows n + 1) - 1 := enc_lt_aux hv'.1 hv'.2
    omega

/-- a root step: the popped position is the root of the tree on the cursor's row -/
theorem root_geom {n : Nat} (hn : n ≤ 2 ^ 63) {p : U64} {row : U8}
    (hle : row ≤ H8 (forestRows n))
    (hroot : isRootPositionOnRow p (BitVec.ofNat 64 n) row = true) :
    Nd n p ∧ (dq (forestRows n) p).1 = row.toNat ∧
      BelowRoot n (dq (forestRows n) p).1 (dq (forestRows n) p).2 (dq (forestRows n) p).1 := by
  have htr : forestRows n ≤ 63 := rows_le_63 hn
  obtain ⟨hex, hpos⟩ := isRootPositionOnRow_true hroot
  obtain ⟨hrow, hk⟩ := row_eq_H8 htr hle
  generalize row.toNat = k at hrow hk
  subst hrow
  have hb := testBit_of_rootExists (by omega : n < 2 ^ 64) (by omega : k ≤ 63) hex
  have hle2 : n ≤ 2 ^ forestRows n := le_two_pow_forestRows n
  have hlt : n < 2 ^ (forestRows n + 1) := by
    have := two_pow_succ' (forestRows n)
    have := Nat.two_pow_pos (forestRows n)
    omega
  rw [treeRows_eq' hn, rootPosition_enc htr hk hlt (rootOffset_lt hb)] at hpos
  have hbr : BelowRoot n (rootPos n k).1 (rootPos n k).2 k := ⟨Nat.le_refl _, hb, by simp [rootPos]⟩
  have hpE : p = E (forestRows n) (rootPos n k) := hpos
  obtain ⟨hnd, hd⟩ := nd_E hn hbr
  rw [hpE, hd]
  exact ⟨hnd, rfl, hbr⟩

/-- a pair step: the partner is the sibling, a node of the forest as well -/
theorem pair_geom {n : Nat} (hn : n ≤ 2 ^ 63) {p y : U64} (hp : Nd n p) {R : Nat}
    (hb : BelowRoot n (dq (forestRows n) p).1 (dq (forestRows n) p).2 R)
    (hlt : (dq (forestRows n) p).1 < R) (hne : p ≠ y) (hrs : rightSib p = y) :
    Nd n y ∧ dq (forestRows n) y = sib (dq (forestRows n) p) := by
  have htr : forestRows n ≤ 63 := rows_le_63 hn
  have hv := nd_valid hp
  obtain ⟨_, he⟩ := hp
  have hRle := (belowRoot_valid (le_two_pow_forestRows n) hb).1
  generalize dq (forestRows n) p = q at *
  have hlt' : q.1 < forestRows n := by omega
  have hy : y = E (forestRows n) (q.1, 2 * (q.2 / 2) + 1) := by
    rw [← hrs, he]; exact rightSib_E htr hv
  have heven : q.2 % 2 = 0 := by
    by_cases h : q.2 % 2 = 0
    · exact h
    · exfalso
      apply hne
      rw [hy, he]
      congr 1
      obtain ⟨a, b⟩ := q
      simp only [Prod.mk.injEq, true_and] at h ⊢
      omega
  have hs : (q.1, 2 * (q.2 / 2) + 1) = sib q := by
    unfold sib
    rw [if_pos heven]
    simp only [Prod.mk.injEq, true_and]
    omega
  rw [hs] at hy
  obtain ⟨hnd, hd⟩ := nd_E hn (belowRoot_sib' hb hlt)
  rw [hy, hd]
  exact ⟨hnd, rfl⟩

/-- the queued positions of a state -/
def items (rows : Nat) (s : CalcSt H) : List Pos :=
  (s.toProve ++ s.next).map (fun x => dq rows x.1)

/-- rows of the recorded root candidates -/
def rrows (s : CalcSt H) : List Nat := s.rootRows.map (·.toNat)

/-- every queued element is a node of the forest -/
def AllNd (n : Nat) (s : CalcSt H) : Prop := ∀ x ∈ s.toProve ++ s.next, Nd n x.1

/-- one continuing step on `(row, offset)` pairs -/
inductive Shape (n : Nat) (L : List Pos) (rr : List Nat) (pl : Nat) (L' : List Pos) (rr' : List Nat)
    (pl' : Nat) : Prop
  | root (q : Pos) : L.Perm (q :: L') → BelowRoot n q.1 q.2 q.1 → rr' = rr ++ [q.1] → pl' = pl →
      Shape n L rr pl L' rr' pl'
  | single (q : Pos) (L0 : List Pos) (R : Nat) : L.Perm (q :: L0) → BelowRoot n q.1 q.2 R → q.1 < R →
      L'.Perm (parent q :: L0) → rr' = rr → pl' + 1 = pl → Shape n L rr pl L' rr' pl'
  | pair (q : Pos) (L0 : List Pos) (R : Nat) : L.Perm (q :: sib q :: L0) → BelowRoot n q.1 q.2 R →
      q.1 < R → L'.Perm (parent q :: L0) → rr' = rr → pl' = pl → Shape n L rr pl L' rr' pl'

/-- **one step, read backwards**: if everything queued AFTER the step is a node of the forest,
so is everything queued before it, and the step is one of the three shapes -/
theorem shape_of_step {n : Nat} (hn : n ≤ 2 ^ 63) {s s' : CalcSt H}
    (hstep : calcStep (BitVec.ofNat 64 n) (H8 (forestRows n)) s = .ok (.cont s'))
    (hrow : s.row ≤ H8 (forestRows n)) (ha' : AllNd n s') :
    AllNd n s ∧ Shape n (items (forestRows n) s) (rrows s) s.proof.length
      (items (forestRows n) s') (rrows s') s'.proof.length := by
  have htr : forestRows n ≤ 63 := rows_le_63 hn
  obtain ⟨x, tp, nx, hP, hcur, hcase⟩ := calcStep_cont' hstep
  have hperm : (items (forestRows n) s).Perm
      (dq (forestRows n) x.1 :: (tp ++ nx).map (fun x => dq (forestRows n) x.1)) :=
    (Pop.perm hP).map _
  obtain ⟨hle, hmax⟩ := rowCursor_ok _ _ _ hcur hrow
  rcases hcase with ⟨hroot, h1, h2, h3, h4, _⟩ | ⟨sb, tp', nx', hsib, h1, h2, h3, _⟩
  · obtain ⟨hxnd, hq1, hqb⟩ := root_geom hn hle hroot
    constructor
    · intro z hz
      rcases (hP.mem_iff z).1 hz with rfl | hz
      · exact hxnd
      · exact ha' z (by rw [h1, h2]; exact hz)
    · refine Shape.root (dq (forestRows n) x.1) ?_ hqb ?_ (by rw [h4])
      · unfold items; rw [h1, h2]; exact hperm
      · unfold rrows; rw [h3, hq1]; simp
  · have hpnd : Nd n (Parent x.1 (H8 (forestRows n))) :=
      ha' (Parent x.1 (H8 (forestRows n)), getNextHash x.1 x.2 sb) (by rw [h2]; simp)
    have hxle : x.1.toNat ≤ 2 ^ (forestRows n + 1) - 2 := by
      have h1 := maxPositionAtRow_le htr s'.row (BitVec.ofNat 64 n)
        (by rw [N_toNat hn]; exact le_two_pow_forestRows n)
      have h2 : x.1.toNat ≤ (maxPositionAtRow s'.row (H8 (forestRows n)) (BitVec.ofNat 64 n)).1.toNat :=
        BitVec.le_def.1 hmax
      omega
    obtain ⟨hxnd, R, hb, hlt, hpar⟩ := nonroot_geom hn hxle hpnd
    have hrest : ∀ z ∈ tp' ++ nx', Nd n z.1 := by
      intro z hz
      apply ha' z
      rw [h1, h2, ← List.append_assoc]
      exact List.mem_append_left _ hz
    have hperm' : (items (forestRows n) s').Perm
        (parent (dq (forestRows n) x.1) :: (tp' ++ nx').map (fun x => dq (forestRows n) x.1)) := by
      unfold items
      rw [h1, h2, ← List.append_assoc, List.map_append, List.map_cons, List.map_nil, hpar]
      exact List.perm_append_comm
    rcases hsib with ⟨y, hPy, hne, hrs, _, hpr⟩ | ⟨rfl, rfl, _, hpr⟩
    · obtain ⟨hynd, hy⟩ := pair_geom hn hxnd hb hlt hne hrs
      constructor
      · intro z hz
        rcases (hP.mem_iff z).1 hz with rfl | hz
        · exact hxnd
        · rcases (hPy.mem_iff z).1 hz with rfl | hz
          · exact hynd
          · exact hrest z hz
      · refine Shape.pair (dq (forestRows n) x.1) ((tp' ++ nx').map (fun x => dq (forestRows n) x.1)) R
          ?_ hb hlt hperm' (by unfold rrows; rw [h3]) (by rw [hpr])
        refine hperm.trans (List.Perm.cons _ ?_)
        rw [← hy]
        exact (Pop.perm hPy).map _
    · constructor
      · intro z hz
        rcases (hP.mem_iff z).1 hz with rfl | hz
        · exact hxnd
        · exact hrest z hz
      · exact Shape.single (dq (forestRows n) x.1) _ R hperm hb hlt hperm' (by unfold rrows; rw [h3])
          (by rw [hpr]; simp)

/-! ### list helpers -/

theorem pairwise_forall {α : Type} {R : α → α → Prop} (hs : ∀ a b, R a b → R b a) :
    ∀ {l : List α}, l.Pairwise R → ∀ a ∈ l, ∀ b ∈ l, a ≠ b → R a b
  | [], _, a, ha, _, _, _ => by simp at ha
  | x :: l, h, a, ha, b, hb, hne => by
    rw [List.pairwise_cons] at h
    rcases List.mem_cons.1 ha with e1 | ha'
    · rcases List.mem_cons.1 hb with e2 | hb'
      · exact absurd (e1.trans e2.symm) hne
      · rw [e1]; exact h.1 b hb'
    · rcases List.mem_cons.1 hb with e2 | hb'
      · rw [e2]; exact hs _ _ (h.1 a ha')
      · exact pairwise_forall hs h.2 a ha' b hb' hne

theorem length_le_of_nodup_subset {α : Type} [DecidableEq α] :
    ∀ (l₁ l₂ : List α), l₁.Nodup → (∀ x ∈ l₁, x ∈ l₂) → l₁.length ≤ l₂.length
  | [], _, _, _ => by simp
  | a :: t, l₂, hnd, hsub => by
    rw [List.nodup_cons] at hnd
    have ha : a ∈ l₂ := hsub a (by simp)
    have ih := length_le_of_nodup_subset t (l₂.erase a) hnd.2 (by
      intro x hx
      have hne : x ≠ a := fun e => hnd.1 (e ▸ hx)
      exact (List.mem_erase_of_ne hne).2 (hsub x (List.mem_cons_of_mem _ hx)))
    rw [List.length_erase_of_mem ha] at ih
    have : 0 < l₂.length := List.length_pos_of_mem ha
    simp only [List.length_cons]
    omega

/-! ### the invariant that needs no hypothesis on hashes -/

/-- the row cursor stays inside the forest rows; one row per candidate -/
structure LInv (tr : U8) (s : CalcSt H) : Prop where
  row_le : s.row ≤ tr
  len : s.roots.length = s.rootRows.length

theorem LInv.step {n : U64} {tr : U8} {s s' : CalcSt H}
    (h : calcStep n tr s = .ok (.cont s')) (inv : LInv tr s) : LInv tr s' := by
  obtain ⟨x, tp, nx, _, hcur, hcase⟩ := calcStep_cont' h
  have hle := (rowCursor_ok _ _ _ hcur inv.row_le).1
  rcases hcase with ⟨_, _, _, h3, _, h5⟩ | ⟨_, _, _, _, _, _, h3, h5⟩
  · exact ⟨hle, by rw [h3, h5]; simp [inv.len]⟩
  · exact ⟨hle, by rw [h3, h5]; exact inv.len⟩

theorem items_belowRoot {n : Nat} {s : CalcSt H} (h : AllNd n s) :
    ∀ q ∈ items (forestRows n) s, ∃ R, BelowRoot n q.1 q.2 R := by
  intro q hq
  obtain ⟨x, hx, rfl⟩ := List.mem_map.1 hq
  exact (h x hx).1

theorem inP_parent {n : Nat} {Tg : List Pos} {q : Pos} {R : Nat} (hb : BelowRoot n q.1 q.2 R)
    (hlt : q.1 < R) (h : InP n Tg q) : InP n Tg (parent q) := by
  apply h.parent
  rw [show q = (q.1, q.2) from rfl, belowRoot_isRootPos hb]
  simp; omega

/-! ### the run, backwards -/

section main
variable {n : Nat} (hn : n ≤ 2 ^ 63)
include hn

/-- **everything ever queued in a run that ends is a node of the forest** — no hypothesis on
the hashes, the roots or the hash function: a position outside the forest can only move to
positions outside the forest and is never a root position, so its chain cannot end -/
theorem loop_allNd :
    ∀ (fuel : Nat) (s sf : CalcSt H),
      calcLoop (BitVec.ofNat 64 n) (H8 (forestRows n)) fuel s = .ok sf →
      LInv (H8 (forestRows n)) s → AllNd n s := by
  intro fuel
  induction fuel with
  | zero => intro s sf h; simp [calcLoop] at h
  | succ fuel ih =>
    intro s sf hloop inv
    unfold calcLoop at hloop
    simp only [bind] at hloop
    rw [bind_eq_ok] at hloop
    obtain ⟨so, hstep, h⟩ := hloop
    cases so with
    | cont s1 =>
      simp only at h
      exact (shape_of_step hn hstep inv.row_le (ih s1 sf h (inv.step hstep))).1
    | stop s1 =>
      obtain ⟨rfl, hstop⟩ := calcStep_stop hstep
      rcases hstop with hgt | ⟨h1, h2⟩
      · exact absurd inv.row_le (BitVec.not_le.mpr hgt)
      · intro x hx; rw [h1, h2] at hx; simp at hx

theorem run_back (Tg : List Pos) :
    ∀ (fuel : Nat) (s sf : CalcSt H),
      calcLoop (BitVec.ofNat 64 n) (H8 (forestRows n)) fuel s = .ok sf →
      LInv (H8 (forestRows n)) s →
      (∀ q ∈ items (forestRows n) s, InP n Tg q) → (rrows sf).Nodup →
      ∃ C : List Pos, C.length + sf.proof.length ≤ s.proof.length ∧
        Good n (items (forestRows n) s) (rrows s) ∧ Cover n Tg (items (forestRows n) s) C := by
  intro fuel
  induction fuel with
  | zero => intro s sf h; simp [calcLoop] at h
  | succ fuel ih =>
    intro s sf hloop inv hinP hnd
    unfold calcLoop at hloop
    simp only [bind] at hloop
    rw [bind_eq_ok] at hloop
    obtain ⟨so, hstep, h⟩ := hloop
    cases so with
    | cont s1 =>
      simp only at h
      have inv1 := inv.step hstep
      have hnd1 := loop_allNd hn fuel s1 sf h inv1
      obtain ⟨_, shape⟩ := shape_of_step hn hstep inv.row_le hnd1
      have hbr1 := items_belowRoot hnd1
      cases shape with
      | root q hp hq hrr hpl =>
        have hinP1 : ∀ x ∈ items (forestRows n) s1, InP n Tg x :=
          fun x hx => hinP x (hp.mem_iff.2 (List.mem_cons_of_mem _ hx))
        obtain ⟨C, hlen, hgood, hcov⟩ := ih s1 sf h inv1 hinP1 hnd
        refine ⟨C, by omega, ?_, ?_⟩
        · rw [hrr] at hgood
          exact (good_root hq hbr1 hgood).perm hp.symm
        · exact (cover_root hq hcov).perm hp.symm
      | single q L0 R hp hb hlt hp' hrr hpl =>
        have hq : InP n Tg q := hinP q (hp.mem_iff.2 (by simp))
        have hinP1 : ∀ x ∈ items (forestRows n) s1, InP n Tg x := by
          intro x hx
          rcases List.mem_cons.1 (hp'.mem_iff.1 hx) with rfl | hx
          · exact inP_parent hb hlt hq
          · exact hinP x (hp.mem_iff.2 (List.mem_cons_of_mem _ hx))
        obtain ⟨C, hlen, hgood, hcov⟩ := ih s1 sf h inv1 hinP1 hnd
        refine ⟨sib q :: C, by simp only [List.length_cons]; omega, ?_, ?_⟩
        · rw [hrr] at hgood
          exact (good_single hb hlt (hgood.perm hp')).perm hp.symm
        · exact (cover_single hb hlt (hcov.perm hp')).perm hp.symm
      | pair q L0 R hp hb hlt hp' hrr hpl =>
        have hq : InP n Tg q := hinP q (hp.mem_iff.2 (by simp))
        have hsq : InP n Tg (sib q) := hinP (sib q) (hp.mem_iff.2 (by simp))
        have hinP1 : ∀ x ∈ items (forestRows n) s1, InP n Tg x := by
          intro x hx
          rcases List.mem_cons.1 (hp'.mem_iff.1 hx) with rfl | hx
          · exact inP_parent hb hlt hq
          · exact hinP x (hp.mem_iff.2 (List.mem_cons_of_mem _ (List.mem_cons_of_mem _ hx)))
        obtain ⟨C, hlen, hgood, hcov⟩ := ih s1 sf h inv1 hinP1 hnd
        refine ⟨C, by omega, ?_, ?_⟩
        · rw [hrr] at hgood
          exact (good_pair hb hlt (hgood.perm hp')).perm hp.symm
        · exact (cover_pair hb hlt hq hsq (hcov.perm hp')).perm hp.symm
    | stop s1 =>
      simp only [pure] at h
      injection h with h
      obtain ⟨rfl, hstop⟩ := calcStep_stop hstep
      subst h
      have hempty : items (forestRows n) s1 = [] := by
        rcases hstop with hgt | ⟨h1, h2⟩
        · exact absurd inv.row_le (BitVec.not_le.mpr hgt)
        · unfold items; rw [h1, h2]; rfl
      rw [hempty]
      exact ⟨[], by simp, ⟨List.Pairwise.nil, by simp, hnd⟩, by intro q hq; simp at hq⟩

end main

/-! ### the recorded root rows are pairwise distinct in an accepted run -/

theorem rowCursor_ge {n : U64} {tr : U8} {p : U64} (htr : tr.toNat < 255) :
    ∀ (fuel : Nat) (row row' : U8), rowCursor n tr p fuel row = .ok row' → row ≤ tr → row ≤ row' := by
  intro fuel
  induction fuel with
  | zero => intro row row' h; simp [rowCursor] at h
  | succ fuel ih =>
    intro row row' h hle
    unfold rowCursor at h
    split at h
    · simp only at h
      split at h
      · simp at h
      · rename_i hnot
        have := ih _ _ h (BitVec.not_lt.mp hnot)
        bv_omega
    · injection h with h
      subst h
      exact BitVec.le_refl _

/-- rows of the candidates are ascending and not above the cursor -/
def RowsMono (s : CalcSt H) : Prop :=
  s.rootRows.Pairwise (· ≤ ·) ∧ ∀ r ∈ s.rootRows, r ≤ s.row

theorem RowsMono.step {n : U64} {tr : U8} (htr : tr.toNat < 255) {s s' : CalcSt H}
    (h : calcStep n tr s = .ok (.cont s')) (hrow : s.row ≤ tr) (m : RowsMono s) : RowsMono s' := by
  obtain ⟨x, tp, nx, _, hcur, hcase⟩ := calcStep_cont' h
  have hge := rowCursor_ge htr _ _ _ hcur hrow
  have hall : ∀ r ∈ s.rootRows, r ≤ s'.row := fun r hr => by
    have := m.2 r hr
    bv_omega
  rcases hcase with ⟨_, _, _, h3, _⟩ | ⟨_, _, _, _, _, _, h3, _⟩
  · rw [RowsMono, h3]
    refine ⟨List.pairwise_append.2 ⟨m.1, by simp, fun a ha b hb => ?_⟩, fun r hr => ?_⟩
    · rw [List.mem_singleton] at hb
      subst hb
      exact hall a ha
    · rcases List.mem_append.1 hr with hr | hr
      · exact hall r hr
      · rw [List.mem_singleton] at hr
        subst hr
        exact BitVec.le_refl _
  · rw [RowsMono, h3]
    exact ⟨m.1, hall⟩

theorem loop_inv {n : U64} {tr : U8} (htr : tr.toNat < 255) :
    ∀ (fuel : Nat) (s sf : CalcSt H), calcLoop n tr fuel s = .ok sf → LInv tr s →
      RowsMono s → LInv tr sf ∧ RowsMono sf := by
  intro fuel
  induction fuel with
  | zero => intro s sf h; simp [calcLoop] at h
  | succ fuel ih =>
    intro s sf h inv m
    unfold calcLoop at h
    simp only [bind] at h
    rw [bind_eq_ok] at h
    obtain ⟨so, hstep, h⟩ := h
    cases so with
    | cont s1 =>
      simp only at h
      exact ih s1 sf h (inv.step hstep) (m.step htr hstep inv.row_le)
    | stop s1 =>
      simp only [pure] at h
      injection h with h
      obtain ⟨rfl, _⟩ := calcStep_stop hstep
      subst h
      exact ⟨inv, m⟩

omit [Hasher H] in
theorem matchRoots_nodup {n : U64} {roots : List H} :
    ∀ (cs : List H) (rs : List U8) (prev : Option U8) (idx : List Nat),
      matchRoots n roots cs rs prev = .ok idx → cs.length = rs.length → rs.Pairwise (· ≤ ·) →
      (∀ p, prev = some p → ∀ r ∈ rs, p ≤ r) →
      rs.Nodup ∧ ∀ p, prev = some p → p ∉ rs := by
  intro cs
  induction cs with
  | nil =>
    intro rs prev idx _ hlen _ _
    have : rs = [] := List.eq_nil_of_length_eq_zero (by simpa using hlen.symm)
    subst this
    exact ⟨List.nodup_nil, by simp⟩
  | cons c cs ih =>
    intro rs prev idx h hlen hs hp
    cases rs with
    | nil => simp at hlen
    | cons r rs =>
      unfold matchRoots at h
      simp only at h
      split at h
      · simp at h
      rename_i hprev
      split at h
      · split at h
        · rw [bind_eq_ok] at h
          obtain ⟨l, hl, _⟩ := h
          rw [List.pairwise_cons] at hs
          obtain ⟨hnd, hnot⟩ := ih rs (some r) l hl (by simpa using hlen) hs.2
            (fun p hp' r' hr' => by injection hp' with hp'; subst hp'; exact hs.1 r' hr')
          refine ⟨List.nodup_cons.2 ⟨hnot r rfl, hnd⟩, ?_⟩
          intro p hpp hmem
          subst hpp
          rcases List.mem_cons.1 hmem with e | hmem
          · exact hprev (by rw [e])
          · have h1 := hp p rfl r (by simp)
            have h2 := hs.1 p hmem
            have : p = r := by bv_omega
            exact hprev (by rw [this])
        · simp at h
      · simp at h

/-! ### the accepted targets -/

section assemble

theorem indep_irrefl (a : Pos) : ¬ Indep a a := fun h => h.1 (Anc.refl a)

/-- a forest of `n` dead slots: only its leaf count matters below -/
def dummy (H : Type) (n : Nat) : Forest H := ⟨List.replicate n none⟩

theorem dummy_numLeaves (n : Nat) : (dummy H n).numLeaves = n := by
  simp [dummy, Forest.numLeaves]

/-- **What `Verify` accepts** — for ANY roots, hashes and hash function (no collision-freeness,
no forest): the targets of an accepted proof are, up to order, a list `Tg` of pairwise
different nodes of the forest of `n` leaves none of which is an ancestor of another, and the
proof has at least as many hashes as `ProofPositions` yields for `Tg` (in any row allocation). -/
theorem accepted_targets {n : Nat} (hn : n ≤ 2 ^ 63) {roots hs : List H} {ts : List U64}
    {ps : List H} {idx : List Nat}
    (hv : verify (BitVec.ofNat 64 n) roots hs ts ps = .ok idx) :
    ∃ Tg : List Pos, PPHyp n Tg ∧ sortU64 ts = Tg.map (encP (forestRows n)) ∧
      ∀ T, forestRows n ≤ T → (refPP n T Tg).1.length ≤ ps.length := by
  have htr : forestRows n ≤ 63 := rows_le_63 hn
  unfold verify at hv
  split at hv
  · simp at hv
  rename_i hlen
  have hlen : hs.length = ts.length := by simpa using hlen
  simp only [bind] at hv
  rw [bind_eq_ok] at hv
  obtain ⟨r, hc, hm⟩ := hv
  unfold calculateHashes at hc
  simp only [bind, pure] at hc
  rw [bind_eq_ok] at hc
  obtain ⟨tp, htp, hc⟩ := hc
  rw [bind_eq_ok] at hc
  obtain ⟨sf, hloop, hc⟩ := hc
  injection hc with hc
  subst hc
  simp only at hm
  have htp' : tp = sortHP (ts.zip hs) := by
    unfold toHashAndPos at htp
    split at htp
    · injection htp with htp; exact htp.symm
    · simp at htp
  subst htp'
  obtain ⟨s0, hs0⟩ : ∃ s0 : CalcSt H, s0 = ⟨sortHP (ts.zip hs), [], [], ps, 0#8, [], []⟩ := ⟨_, rfl⟩
  rw [← hs0, treeRows_eq' hn] at hloop
  have inv0 : LInv (H8 (forestRows n)) s0 := by
    subst hs0
    exact ⟨by simp [BitVec.le_def], rfl⟩
  have hnd0 := loop_allNd hn _ s0 sf hloop inv0
  -- the root rows of the final state are pairwise distinct
  have htr255 : (H8 (forestRows n)).toNat < 255 := by rw [toNat_H8 htr]; omega
  have mono0 : RowsMono s0 := by subst hs0; exact ⟨List.Pairwise.nil, by simp⟩
  obtain ⟨invf, monof⟩ := loop_inv htr255 _ _ _ hloop inv0 mono0
  have hndf : (rrows sf).Nodup := by
    have := (matchRoots_nodup _ _ _ _ hm invf.len monof.1 (by simp)).1
    unfold rrows
    exact List.Pairwise.map _ (fun a b hab h => hab (BitVec.eq_of_toNat_eq h)) this
  -- the targets
  refine ⟨items (forestRows n) s0, ?_⟩
  have hbr0 := items_belowRoot hnd0
  have hinP : ∀ q ∈ items (forestRows n) s0, InP n (items (forestRows n) s0) q := by
    intro q hq
    obtain ⟨R, hb⟩ := hbr0 q hq
    exact ⟨q, hq, R, hb, Anc.refl q, hb.1⟩
  obtain ⟨C, hlenC, hgood, hcov⟩ :=
    run_back hn (items (forestRows n) s0) _ s0 sf hloop inv0 hinP hndf
  have hitems : items (forestRows n) s0 =
      (sortHP (ts.zip hs)).map (fun x => dq (forestRows n) x.1) := by
    subst hs0; unfold items; simp
  have hproof : s0.proof = ps := by subst hs0; rfl
  have hE : ∀ x ∈ sortHP (ts.zip hs), x.1 = E (forestRows n) (dq (forestRows n) x.1) := by
    intro x hx
    exact (hnd0 x (by subst hs0; simpa using hx)).2
  have hvalid : ∀ q ∈ items (forestRows n) s0, CalcGeo.Valid (forestRows n) q := by
    intro q hq
    obtain ⟨R, hb⟩ := hbr0 q hq
    have := belowRoot_valid (le_two_pow_forestRows n) hb
    exact ⟨this.2.1, this.2.2⟩
  have hyp : PPHyp n (items (forestRows n) s0) := by
    refine ⟨hbr0, ?_, ?_⟩
    · -- strictly sorted
      have hsorted : (sortHP (ts.zip hs)).Pairwise (fun a b => a.1 ≤ b.1) :=
        ProofOps.sorted_sortBy (fun x : U64 × H => x.1) (ts.zip hs)
      have hind := hgood.1
      rw [hitems, List.pairwise_map] at hind
      show List.Pairwise _ _
      rw [hitems, List.pairwise_map]
      refine List.Pairwise.imp_of_mem ?_ (hsorted.and hind)
      intro a b ha hb ⟨hle, hi⟩
      have hva := hvalid _ (by rw [hitems]; exact List.mem_map_of_mem ha)
      have hvb := hvalid _ (by rw [hitems]; exact List.mem_map_of_mem hb)
      show Forest.posLt _ _ = true
      rw [Sorted.posLt_iff]
      rcases Sorted.PLt.tri (dq (forestRows n) a.1) (dq (forestRows n) b.1) with e | h | h
      · rw [e] at hi; exact absurd hi (indep_irrefl _)
      · exact h
      · have := (E_lt_iff htr hvb hva).2 h
        rw [← hE a ha, ← hE b hb] at this
        exact absurd hle (BitVec.not_le.mpr this)
    · intro a ha b hb hanc
      by_cases e : a = b
      · exact e
      · exact absurd hanc (pairwise_forall (fun _ _ h => Indep.symm h) hgood.1 a ha b hb e).1
  refine ⟨hyp, ?_, ?_⟩
  · have h1 : (sortHP (ts.zip hs)).positions = sortU64 ts := by
      rw [ProofOps.sortHP_positions, ProofOps.zip_positions ts hs hlen.symm]
    rw [← h1, hitems, List.map_map]
    unfold HP.positions
    apply List.map_congr_left
    intro x hx
    exact hE x hx
  · intro T hT
    have hyp' : PPHyp (dummy H n).numLeaves (items (forestRows n) s0) := by
      rw [dummy_numLeaves]; exact hyp
    have hrows : (dummy H n).rows ≤ T := by
      unfold Forest.rows; rw [dummy_numLeaves]; exact hT
    have hspec := refPP_eq_spec (dummy H n) hyp' hrows
    rw [dummy_numLeaves] at hspec
    rw [hspec]
    simp only
    have hsub : ∀ q ∈ (dummy H n).proofPositions (items (forestRows n) s0), q ∈ C := by
      intro q hq
      obtain ⟨x, ⟨t, ht, R, hb, ha, hxR⟩, hroot, rfl, hnot⟩ :=
        (mem_spec_proofPositions (dummy H n) hyp' q).1 hq
      rw [dummy_numLeaves] at hb hroot hnot
      have hbx := belowRoot_anc hb ha hxR
      have hne : x.1 ≠ R := by
        intro e
        have := belowRoot_isRootPos hbx
        rw [show (x.1, x.2) = x from rfl, hroot] at this
        simp [e] at this
      exact hcov t ht R hb x ha (by omega) hnot
    have hndp : ((dummy H n).proofPositions (items (forestRows n) s0)).Nodup := by
      unfold Forest.proofPositions
      exact SSorted.nodup (sortDedup_ssorted _)
    have := length_le_of_nodup_subset _ _ hndp hsub
    rw [hproof] at hlenC
    omega

/-- `ProofPositions` of such targets, written in ANY row allocation `T ≥ TreeRows`, is the
`(row, offset)` algorithm `refPP` written in that allocation -/
theorem proofPositions_any {n : Nat} (hn : n ≤ 2 ^ 63) {Tg : List Pos}
    (hyp : PPHyp n Tg) {T : Nat} (hT : forestRows n ≤ T) (hT63 : T ≤ 63) :
    ProofPositions (Tg.map (encP T)) (BitVec.ofNat 64 n) (H8 T) =
      ((refPP n T Tg).1.map (encP T), (refPP n T Tg).2.map (encP T)) := by
  have h := proofPositions_eq_refPP (H := T) (h := forestRows n) (BitVec.ofNat 64 n)
    (treeRows_eq' hn) hT63 hT Tg (by rw [N_toNat hn]; exact hyp.inForest)
  rw [N_toNat hn] at h
  exact h

/-- … which is the specification's canonical list for every forest with that many leaves -/
theorem refPP_spec {F : Forest H} {Tg : List Pos} (hyp : PPHyp F.numLeaves Tg) {T : Nat}
    (hT : F.rows ≤ T) : refPP F.numLeaves T Tg = (F.proofPositions Tg, F.computable Tg) :=
  refPP_eq_spec F hyp hT

end assemble

end

end UtreexoVerif.Proofs.IngestBound
