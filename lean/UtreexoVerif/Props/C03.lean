/-
  C03 — verification is sound: proofs of the statements in `Props/C03_statement.lean`.
  All three verifiers reduce to `Proofs.CalcSound.calc_sound`.
-/
import UtreexoVerif.Props.C03_statement
import UtreexoVerif.Proofs.CalcSound

namespace UtreexoVerif.Props.C03
open UtreexoVerif Model Hasher Proofs.CalcSound

section
variable {H : Type} [DecidableEq H] [Hasher H]

theorem verify_sound : verify_sound_statement H := by
  intro n roots V cr hs ts ps idx hnz h
  unfold verify at h
  split at h
  · simp at h
  · simp only [bind] at h
    rw [bind_eq_ok] at h
    obtain ⟨r, hc, hm⟩ := h
    exact calc_sound V cr hnz hc hm

theorem pollardVerify_sound : pollardVerify_sound_statement H := by
  intro n roots V cr hs ts ps hnz h
  unfold pollardVerify at h
  split at h
  · rename_i hempty
    have : hs = [] := by simpa using hempty
    subst this
    intro x hx
    simp at hx
  split at h
  · simp at h
  · simp only [bind] at h
    rw [bind_eq_ok] at h
    obtain ⟨r, hc, h⟩ := h
    split at h
    · simp at h
    · rw [bind_eq_ok] at h
      obtain ⟨idx, hm, _⟩ := h
      exact calc_sound V cr hnz hc hm

theorem mapVerify_sound : mapVerify_sound_statement H := by
  intro n roots V cr hs ts ps idx hnz h
  unfold mapVerify at h
  simp only [ne_eq, not_true_eq_false, if_false] at h
  exact verify_sound n roots V cr hs ts ps idx hnz h

end

/-! ### non-vacuity

The collision-freeness hypothesis `CR` is satisfiable (free term algebra), the model accepts
a genuine proof over it, and a `ForestView` exists for a concrete forest, so the soundness
theorem applies to a concrete accepted run. -/

namespace Example

inductive T where
  | z
  | leaf (n : Nat)
  | node (l r : T)
deriving DecidableEq

instance : Hasher T := ⟨T.node, T.z⟩

theorem cr : CR T :=
  ⟨fun _ _ _ _ h => by cases h; exact ⟨rfl, rfl⟩, fun _ _ h => by cases h⟩

/-- two leaves, prove leaf 0 with leaf 1 as the proof hash: accepted, root 0 matched -/
example : verify (H := T) 2#64 [T.node (.leaf 0) (.leaf 1)] [.leaf 0] [0#64] [.leaf 1] = .ok [0] := by
  decide +kernel

/-- a wrong leaf hash is rejected -/
example : verify (H := T) 2#64 [T.node (.leaf 0) (.leaf 1)] [.leaf 7] [0#64] [.leaf 1] = .err := by
  decide +kernel

/-- the forest view of the one-leaf forest `[leaf 0]` -/
def oneLeafView : ForestView T 1#64 [T.leaf 0] where
  nodeAt p := if p = 0#64 then some (T.leaf 0) else none
  root_ok := by
    intro row h hle _ hroot
    have hrow : row = 0#8 := by
      have : TreeRows 1#64 = 0#8 := by decide +kernel
      rw [this] at hle
      exact BitVec.le_zero_iff.mp hle
    subst hrow
    have h1 : rootPosition 1#64 0#8 (TreeRows 1#64) = 0#64 := by decide +kernel
    have h2 : rootIdxOfRow 1#64 0#8 = 0 := by decide +kernel
    rw [h2] at hroot
    rw [h1]
    simpa using hroot
  children_ok := by
    intro p row a b _ _ hnode
    split at hnode
    · injection hnode with hnode
      cases hnode
    · cases hnode

example : verify (H := T) 1#64 [T.leaf 0] [.leaf 0] [0#64] [] = .ok [0] := by
  decide +kernel

/-- the soundness theorem applied to a concrete accepted run -/
example : oneLeafView.nodeAt 0#64 = some (T.leaf 0) :=
  verify_sound 1#64 [T.leaf 0] oneLeafView cr [.leaf 0] [0#64] [] [0]
    (by intro h hh; simp at hh; subst hh; intro hz; cases hz) (by decide +kernel) (0#64, T.leaf 0) (by simp)

end Example

end UtreexoVerif.Props.C03
