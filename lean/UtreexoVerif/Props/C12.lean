/-
  C12 — the map forest is race-free and every query sees a whole-block state.

  What is proved here is about the EXTRACTED LOCK DISCIPLINE, not about the Go runtime:

  * `Gen/LockTable.lean` is regenerated from `mappollard.go` on every check
    (translate/locktable): per `*MapPollard` method, which lock its first statements take,
    whether the unlock is deferred at once, which fields it reads / writes directly, which
    methods it calls.
  * `Model/Lock.lean` gives an interleaving semantics of one `sync.RWMutex` (writer mutex,
    writer inside, reader count) and of threads executing any instruction sequences that a
    table allows (`Gen`: every order / repetition / prefix of the accesses and calls of a
    body, so every control flow including early returns and panics, the unlock being
    deferred).  The scheduler is arbitrary: every interleaving, every thread suspended
    anywhere for any time (e.g. a writer at a `verifPoint` inside its critical section).
  * GENERIC theorems (any field/method/value types, any table, any number of goroutines,
    any sequence of calls of exported methods per goroutine): if `LockDiscipline table`
    computes to `true` then in EVERY reachable state
      (a) `RaceFree`      no two conflicting accesses are simultaneously enabled,
      (b) `Atomic`        every section is atomic and starts from the state left by the last
                          completed write section (no half-applied block is observable),
      (c) `DeadlockFree`  some thread can move unless all have finished,
      and never-written fields (here: `Full`) keep their constructor value.
  * INSTANCE (`Props/C12Table.lean`, the regenerated tie):
    `lockTable_ok : LockDiscipline table allMethods = true := by decide +kernel` and
    `C12 : C12_statement table allMethods`.

  Trusted / outside the model: Go's memory model, the runtime's `sync.RWMutex`, scheduler
  and map implementation; the translator (syntactic, < 600 lines); that a method body does
  what its syntax says (no reflection / unsafe); callers that touch the exported struct
  fields directly instead of using the methods.  The runtime half of the check (harness
  family `conc`, built with `-race`) ties the table to the real code on executed schedules.
-/
import UtreexoVerif.Proofs.Lock

namespace UtreexoVerif.Props.C12
open UtreexoVerif.Model.Lock UtreexoVerif.Proofs.Lock

/-! ## The statement at full strength (model level) -/

/-- For a lock table `T` (methods `allM`): any number of goroutines, each calling any
sequence of exported methods (with any arguments: bodies are over-approximated by their
footprints), under every interleaving: no data race, atomic whole-block views, no deadlock,
and never-written fields never change.  The instance for the table extracted from the
current `mappollard.go` is `Props.C12Table.C12`. -/
def C12_statement {F M : Type} [DecidableEq F] [DecidableEq M] (T : M → MethodInfo F M) (allM : List M) : Prop :=
  ∀ (V : Type) (mem0 : Mem F V) (progs : List (List (Instr F V))),
    (∀ p ∈ progs, ApiProg T p) →
    ∀ s, Reachable (State.initial mem0 progs) s →
      RaceFree s ∧ Atomic s ∧ DeadlockFree s ∧ (∀ f, mutF T allM f = false → s.mem f = mem0 f)

/-! ## Generic theorems: well-formed programs -/

section Generic
variable {F V : Type} [DecidableEq F]

/-- (a) DATA-RACE FREEDOM for programs that respect the discipline. -/
theorem raceFree (mu : F → Bool) (mem0 : Mem F V) (progs : List (List (Instr F V)))
    (hwf : ∀ p ∈ progs, wfProg mu .none p = true) (s : State F V)
    (hr : Reachable (State.initial mem0 progs) s) : RaceFree s :=
  let h := inv_reachable hwf hr
  raceFree_of_inv h.ok h.lock

/-- (b) ATOMIC SECTIONS / WHOLE-BLOCK VIEWS for programs that respect the discipline:
see `Model.Lock.Atomic`. -/
theorem atomic (mu : F → Bool) (mem0 : Mem F V) (progs : List (List (Instr F V)))
    (hwf : ∀ p ∈ progs, wfProg mu .none p = true) (s : State F V)
    (hr : Reachable (State.initial mem0 progs) s) : Atomic s :=
  (inv_reachable hwf hr).atomic

/-- (b, reader form) a thread inside a read section: the memory IS the committed state (the
state left by the last completed write section), everything it has read so far is what a
sequential run of its accesses on that state returns, … -/
theorem reader_sees_whole_block (mu : F → Bool) (mem0 : Mem F V) (progs : List (List (Instr F V)))
    (hwf : ∀ p ∈ progs, wfProg mu .none p = true) (s : State F V)
    (hr : Reachable (State.initial mem0 progs) s) (j : Nat) (t : Thread F V)
    (hj : s.threads[j]? = some t) (hh : t.held = .r) :
    s.mem = s.committed ∧ s.committed = replay mem0 s.hist ∧
    runOps t.done (s.committed, t.log0) = (s.committed, t.log) := by
  have h := inv_reachable hwf hr
  have hv := reader_view h hj hh
  have hi : s.init = mem0 := init_const hr
  exact ⟨hv.1, by rw [← hi]; exact h.atomic.1, hv.2⟩

/-- … and no step of anybody changes the committed state or the memory while it is inside:
the whole read section sees ONE state between two blocks, current during the call. -/
theorem reader_view_stable (mu : F → Bool) (mem0 : Mem F V) (progs : List (List (Instr F V)))
    (hwf : ∀ p ∈ progs, wfProg mu .none p = true) (s s' : State F V)
    (hr : Reachable (State.initial mem0 progs) s) (i j : Nat) (t : Thread F V) (st : Step s i s')
    (hj : s.threads[j]? = some t) (hh : t.held = .r) :
    s'.committed = s.committed ∧ s'.mem = s.mem :=
  stable_while_reading (inv_reachable hwf hr) st hj hh

/-- (b, writer form) a thread inside a write section excludes every other thread from every
section (so no access of another thread to a mutable field is interleaved with its block). -/
theorem writer_excludes (mu : F → Bool) (mem0 : Mem F V) (progs : List (List (Instr F V)))
    (hwf : ∀ p ∈ progs, wfProg mu .none p = true) (s : State F V)
    (hr : Reachable (State.initial mem0 progs) s) (i j : Nat) (ti tj : Thread F V)
    (hi : s.threads[i]? = some ti) (hj : s.threads[j]? = some tj) (hne : j ≠ i) (hw : ti.held = .w) :
    tj.held = .out ∨ tj.held = .pend := by
  have h := inv_reachable hwf hr
  cases hh : tj.held with
  | out => exact Or.inl rfl
  | pend => exact Or.inr rfl
  | r => exact (mutual_exclusion h.lock hi hj hne hw (Or.inl hh)).elim
  | w => exact (mutual_exclusion h.lock hi hj hne hw (Or.inr hh)).elim

/-- (b, what the runtime harness observes) while a thread is inside a write section — for
instance suspended at a `verifPoint` — the only moves any OTHER thread can make are accesses
outside the lock (which, by the discipline, read never-written fields): every `RLock`/`Lock`
of another thread is disabled, so every lock-taking query stays blocked until the release. -/
theorem others_blocked_while_writer_inside (mu : F → Bool) (mem0 : Mem F V) (progs : List (List (Instr F V)))
    (hwf : ∀ p ∈ progs, wfProg mu .none p = true) (s s' : State F V)
    (hr : Reachable (State.initial mem0 progs) s) (i j : Nat) (ti : Thread F V)
    (hi : s.threads[i]? = some ti) (hw : ti.held = .w) (hne : j ≠ i) (st : Step s j s') :
    ∃ tj a p, s.threads[j]? = some tj ∧ tj.held = .out ∧ tj.prog = .acc a :: p ∧ a.ok mu .none = true := by
  have h := inv_reachable hwf hr
  have hm : s.lock.wmutex = some i := (h.lock.wmutex i ti hi).mp (Or.inr hw)
  cases st with
  | @acc t a p ht hp =>
    have hout : t.held = .out := by
      rcases writer_excludes mu mem0 progs hwf s hr i j ti t hi ht hne hw with h1 | h1
      · exact h1
      · obtain ⟨p', hp'⟩ := (h.ok j t ht).2 h1
        rw [hp] at hp'; cases hp'
    have hwf' := (h.ok j t ht).1
    rw [hp, hout] at hwf'
    exact ⟨t, a, p, ht, hout, hp, (wf_acc.mp hwf').1⟩
  | rlock ht hp hh hw' => rw [hm] at hw'; cases hw'
  | wannounce ht hp hh hw' => rw [hm] at hw'; cases hw'
  | @wenter t p ht hp hh hr' =>
    have := (h.lock.wmutex j t ht).mp (Or.inl hh)
    rw [hm] at this
    exact absurd (Option.some.inj this).symm hne
  | @runlock t p ht hp hh => exact (mutual_exclusion h.lock hi ht hne hw (Or.inl hh)).elim
  | @wunlock t p ht hp hh => exact (mutual_exclusion h.lock hi ht hne hw (Or.inr hh)).elim

/-- (c) NO DEADLOCK for programs that respect the discipline. -/
theorem deadlockFree (mu : F → Bool) (mem0 : Mem F V) (progs : List (List (Instr F V)))
    (hwf : ∀ p ∈ progs, wfProg mu .none p = true) (s : State F V)
    (hr : Reachable (State.initial mem0 progs) s) : DeadlockFree s :=
  let h := inv_reachable hwf hr
  deadlockFree_of_inv h.ok h.lock

/-- never-written fields keep their initial value -/
theorem immutable_const (mu : F → Bool) (mem0 : Mem F V) (progs : List (List (Instr F V)))
    (hwf : ∀ p ∈ progs, wfProg mu .none p = true) (s : State F V)
    (hr : Reachable (State.initial mem0 progs) s) (f : F) (hf : mu f = false) : s.mem f = mem0 f := by
  have h := inv_reachable hwf hr
  have hi : s.init = mem0 := init_const hr
  rw [← hi]; exact h.frozen f hf

end Generic

/-! ## Generic theorem: from the computable check of a table -/

section Table
variable {F M V : Type} [DecidableEq F] [DecidableEq M]

/-- Every goroutine program over a table that passes `LockDiscipline` respects the
discipline.  (`hall`: the list of methods is complete.) -/
theorem discipline_wf (T : M → MethodInfo F M) (allM : List M) (hall : ∀ m, m ∈ allM)
    (hd : LockDiscipline T allM = true) (p : List (Instr F V)) (hp : ApiProg T p) :
    wfProg (mutF T allM) .none p = true :=
  apiProg_wf hall hd hp

/-- THE GENERIC THEOREM.  If the computable check accepts the table, then for any number of
goroutines calling exported methods, in every reachable state of every execution:
(a) no data race, (b) atomic sections on whole-block states, (c) no deadlock; and fields no
method writes keep their initial value. -/
theorem discipline_sound (T : M → MethodInfo F M) (allM : List M) (hall : ∀ m, m ∈ allM)
    (hd : LockDiscipline T allM = true)
    (mem0 : Mem F V) (progs : List (List (Instr F V))) (hp : ∀ p ∈ progs, ApiProg T p)
    (s : State F V) (hr : Reachable (State.initial mem0 progs) s) :
    RaceFree s ∧ Atomic s ∧ DeadlockFree s ∧ (∀ f, mutF T allM f = false → s.mem f = mem0 f) := by
  have hwf : ∀ p ∈ progs, wfProg (mutF T allM) .none p = true :=
    fun p hm => discipline_wf T allM hall hd p (hp p hm)
  exact ⟨raceFree _ mem0 progs hwf s hr, atomic _ mem0 progs hwf s hr, deadlockFree _ mem0 progs hwf s hr,
    fun f hf => immutable_const _ mem0 progs hwf s hr f hf⟩

end Table

/-- C12 for every table that passes the computable check. -/
theorem C12_of_discipline {F M : Type} [DecidableEq F] [DecidableEq M] (T : M → MethodInfo F M) (allM : List M)
    (hall : ∀ m, m ∈ allM) (hd : LockDiscipline T allM = true) : C12_statement T allM := by
  intro V mem0 progs hp s hr
  exact discipline_sound T allM hall hd mem0 progs hp s hr

/-! ## Non-vacuity and necessity of the premises -/

namespace Examples

/-- two fields of a toy struct -/
inductive Fld where
  | numLeaves | full
  deriving DecidableEq, Repr

/-- `numLeaves` is written by somebody, `full` by nobody -/
def mu : Fld → Bool
  | .numLeaves => true
  | .full => false

/-- a getter as it should be: `RLock; read numLeaves; RUnlock`, preceded by an unlocked read
of the immutable field -/
def goodGetter : List (Instr Fld Nat) :=
  [.acc (.read .full), .acquire .r, .acc (.read .numLeaves), .release .r]

/-- a block: `Lock; read numLeaves; hook; write numLeaves := old+1; Unlock` -/
def goodWriter : List (Instr Fld Nat) :=
  [.acquire .w, .acc (.read .numLeaves), .acc .hook, .acc (.write .numLeaves (fun l => l.getLastD 0 + 1)), .release .w]

/-- NON-VACUITY of the generic theorems: these programs respect the discipline -/
example : wfProg mu .none goodGetter = true ∧ wfProg mu .none goodWriter = true := by decide

/-- NECESSITY 1 (the defect fixed by commit 561319c): a getter WITHOUT the read lock is
rejected by `wfProg`, and the race is real in the model — after the writer has entered,
`read numLeaves` of the getter and `write numLeaves` of the writer are both enabled. -/
def unlockedGetter : List (Instr Fld Nat) := [.acc (.read .numLeaves)]
def wbody : List (Instr Fld Nat) := [.acc (.write .numLeaves (fun _ => 1)), .release .w]
def writerOnly : List (Instr Fld Nat) := .acquire .w :: wbody

example : wfProg mu .none unlockedGetter = false := by decide

def r0 : State Fld Nat := State.initial (fun _ => 0) [unlockedGetter, writerOnly]
def r1 : State Fld Nat :=
  { r0 with lock := { wmutex := some 1 }, threads := [{ prog := unlockedGetter }, { prog := writerOnly, held := .pend }] }
def r2 : State Fld Nat :=
  { r0 with lock := { wmutex := some 1, writer := some 1 }, threads := [{ prog := unlockedGetter }, { prog := wbody, held := .w }] }

theorem r0_r1 : Step r0 1 r1 :=
  Step.wannounce (s := r0) (t := { prog := writerOnly }) (p := wbody) rfl rfl rfl rfl
theorem r1_r2 : Step r1 1 r2 :=
  Step.wenter (s := r1) (t := { prog := writerOnly, held := .pend }) (p := wbody) rfl rfl rfl rfl

theorem unlocked_getter_races : ∃ s, Reachable r0 s ∧ ¬ RaceFree s := by
  refine ⟨r2, Reachable.step (Reachable.step Reachable.refl r0_r1) r1_r2, ?_⟩
  intro hrf
  exact hrf 0 1 { prog := unlockedGetter } { prog := wbody, held := .w } (.read .numLeaves)
    (.write .numLeaves (fun _ => 1)) [] [.release .w] (by decide) rfl rfl rfl rfl rfl

/-- NECESSITY 2: a locking method reached while the lock is held (re-entrancy) is rejected
by `wfProg`, and the thread is stuck for ever in the model (self-deadlock). -/
def reentrant : List (Instr Fld Nat) := [.acquire .r, .acquire .r, .release .r, .release .r]

example : wfProg mu .none reentrant = false := by decide

def d0 : State Fld Nat := State.initial (fun _ => 0) [reentrant]
def d1 : State Fld Nat :=
  { d0 with lock := { readers := 1 }, threads := [{ prog := [.acquire .r, .release .r, .release .r], held := .r }] }

theorem d0_d1 : Step d0 0 d1 :=
  Step.rlock (s := d0) (t := { prog := reentrant }) (p := [.acquire .r, .release .r, .release .r]) rfl rfl rfl rfl

theorem reentrancy_deadlocks : ∃ s, Reachable d0 s ∧ ¬ DeadlockFree s := by
  refine ⟨d1, Reachable.step Reachable.refl d0_d1, ?_⟩
  intro hd
  rcases hd with hall | ⟨i, s', st⟩
  · have := hall _ (List.mem_cons_self)
    cases this
  · -- thread 0 holds the read lock and its next instruction is an acquire: no rule applies
    have hget : ∀ (t : Thread Fld Nat), d1.threads[i]? = some t →
        t.prog = [.acquire .r, .release .r, .release .r] ∧ t.held = .r := by
      intro t ht
      cases i with
      | zero => simp [d1] at ht; subst ht; exact ⟨rfl, rfl⟩
      | succ n => simp [d1] at ht
    cases st with
    | acc ht hp => have := hget _ ht; rw [this.1] at hp; cases hp
    | rlock ht hp hh hw => have := hget _ ht; rw [this.2] at hh; cases hh
    | wannounce ht hp hh hw => have := hget _ ht; rw [this.2] at hh; cases hh
    | wenter ht hp hh hr => have := hget _ ht; rw [this.2] at hh; cases hh
    | runlock ht hp hh => have := hget _ ht; rw [this.1] at hp; cases hp
    | wunlock ht hp hh => have := hget _ ht; rw [this.2] at hh; cases hh

/-- NECESSITY 3 (no half-applied block): a writer that RELEASES the lock in the middle of a
block (two sections instead of one) is still well formed — atomicity is per SECTION — but the
state in between becomes a committed state that any reader may observe.  Keeping a block
inside ONE section is what the table check enforces (unlock deferred, `extraLockOps = 0`). -/
def half2 : List (Instr Fld Nat) := [.acquire .w, .acc (.write .numLeaves (fun _ => 2)), .release .w]
def splitWriter : List (Instr Fld Nat) :=
  .acquire .w :: .acc (.write .numLeaves (fun _ => 1)) :: .release .w :: half2

example : wfProg mu .none splitWriter = true := by decide

def w1 : Acc Fld Nat := .write .numLeaves (fun _ => 1)
def q0 : State Fld Nat := State.initial (fun _ => 0) [splitWriter]
def q1 : State Fld Nat :=
  { q0 with lock := { wmutex := some 0 }, threads := [{ prog := splitWriter, held := .pend }] }
def q2 : State Fld Nat :=
  { q0 with lock := { wmutex := some 0, writer := some 0 },
            threads := [{ prog := .acc w1 :: .release .w :: half2, held := .w }] }
def q3 : State Fld Nat :=
  { q0 with lock := { wmutex := some 0, writer := some 0 }, mem := (w1.run (q0.mem, [])).1,
            threads := [{ prog := .release .w :: half2, held := .w, done := [w1] }] }
def q4 : State Fld Nat :=
  { q0 with mem := (w1.run (q0.mem, [])).1, committed := (w1.run (q0.mem, [])).1, hist := [([w1], [])],
            threads := [{ prog := half2, held := .out, done := [w1] }] }

theorem q0_q1 : Step q0 0 q1 :=
  Step.wannounce (s := q0) (t := { prog := splitWriter }) (p := .acc w1 :: .release .w :: half2) rfl rfl rfl rfl
theorem q1_q2 : Step q1 0 q2 :=
  Step.wenter (s := q1) (t := { prog := splitWriter, held := .pend }) (p := .acc w1 :: .release .w :: half2) rfl rfl rfl rfl
theorem q2_q3 : Step q2 0 q3 :=
  Step.acc (s := q2) (t := { prog := .acc w1 :: .release .w :: half2, held := .w }) (a := w1) (p := .release .w :: half2) rfl rfl
theorem q3_q4 : Step q3 0 q4 :=
  Step.wunlock (s := q3) (t := { prog := .release .w :: half2, held := .w, done := [w1] }) (p := half2) rfl rfl rfl

/-- the half-applied block is a committed state, with the mutex completely free -/
theorem split_block_is_visible :
    ∃ s, Reachable q0 s ∧ s.committed .numLeaves = 1 ∧ s.lock.writer = none ∧ s.lock.wmutex = none ∧
      ∃ t, s.threads[0]? = some t ∧ t.prog = half2 :=
  ⟨q4, Reachable.step (Reachable.step (Reachable.step (Reachable.step Reachable.refl q0_q1) q1_q2) q2_q3) q3_q4,
    rfl, rfl, rfl, _, rfl, rfl⟩

end Examples

end UtreexoVerif.Props.C12
