/-
  The pointer forest (`Pollard`: pollard.go, polnode.go) — theorems about its faithful heap
  model `Model/PollardHeap.lean`.

  ## What the model is

  `Model.PollardHeap.Pollard H` = heap of `polNode`s + `roots` + `NumLeaves`, `NumDels`,
  `NodeMap`, `full`; every Go function of the two files is transliterated statement by
  statement with explicit `.panic` (nil dereference, index out of range) / `.err` / `.hang`
  outcomes (see the header of the model file; `NodeMap` is keyed by the full hash — 12-byte
  prefix collisions are out of scope).  The driver replays every `Modify`/`Undo`/query the
  harness applies to the Go `Pollard` on this model and compares the complete pointer
  structure after every operation (kinds `ph:*`).

  ## What is proved here (for all heaps / forests / leaf lists, no bounds)

  * `WF` (structural well-formedness of the aunt/niece heap) and the abstraction relation
    `Abs p F` ("heap `p` represents the specification forest `F`", i.e. `p` is in the
    `Spec.Equiv`-class of `F`: same leaf count, root by root the same collapsed tree);
    `abs_unique_up_to_equiv`: two forests represented by the same heap are `Spec.Equiv`;
  * `NewAccumulator()` is well formed and represents the empty forest (`wf_new`, `abs_new`);
  * **the addition path** (`add` → `calculateNewRoot` → `swapNieces`/`updateAunt`/`prune`,
    including additions that skip over empty roots): `addOne_refines`, `add_refines` —
    on a full pollard representing `F`, adding distinct, non-zero, not yet tracked leaves never
    panics/errs/hangs and the result represents `F.addMany adds` (preservation of `WF` and
    commutation of `abs` with `Forest.add`); `add_from_empty` for every leaf list from the
    empty accumulator; `getRoots_refines`: `GetRoots` of a represented forest = `F.roots`;
    `getHash_refines` / `getHash_spec`: `GetHash` (the literal niece walk over the heap) of a
    represented forest is, for every `uint64` position, the specification look-up
    `nodeAt` (all-zero hash when there is no node);
  * the executable abstraction function `absTrees` and check `wfCheck` (evaluated by the driver
    on every replayed state, kind `ph:wf`) are sound: `wfCheck_sound`, `absTrees_sound`,
    `abs_of_check`.

  ## What is NOT proved (statements kept visible below, correspondence + `ph:wf` only)

  * `modify_refines_statement`: deletion (`deleteFromMap`, `remove`, `deleteRoot`,
    `deleteSingle` with `transferAunt`/`transferNiece`/`hashToRoot`) preserves `Abs` and commutes
    with `Forest.modify`;
  * `undo_refines_statement`: `Undo` computes a heap representing the previous forest;
  * `queries_statement`: `calculatePosition`/`Prove` on a represented forest equal
    `posOf`/`canon` (for the look-up arithmetic itself see `Props/C10.lean`; `GetHash` IS proved:
    `getHash_refines`, `getHash_spec`).
  On concrete instances these are checked by kernel evaluation (`Example`), on every generated
  history by the correspondence run.
-/
import UtreexoVerif.Proofs.PollardHeapAdd
import UtreexoVerif.Proofs.PollardHeapCheck
import UtreexoVerif.Proofs.PollardHeapLookup
import UtreexoVerif.Props.C10
import UtreexoVerif.Proofs.NodesUnique
set_option linter.unusedSectionVars false
set_option linter.unusedVariables false

namespace UtreexoVerif.Props.PollardHeap
open UtreexoVerif UtreexoVerif.Model UtreexoVerif.Model.PollardHeap UtreexoVerif.Spec Hasher
open UtreexoVerif.Proofs.PollardHeap

variable {H : Type} [DecidableEq H] [Hasher H]

/-! ### statements -/

/-- full statement for a block: on a full pollard representing `F`, `Modify` with the
canonical encoding of a valid block (distinct live leaves `dels` with their positions as
targets, distinct fresh non-zero `adds`) succeeds and the result represents `F.modify`. -/
def modify_refines_statement (H : Type) [DecidableEq H] [Hasher H] : Prop :=
  (∀ a b : H, ph a b ≠ (zero : H)) →
  ∀ (p : Pollard H) (F : Forest H) (dels : List H) (targets : List U64) (adds : List (H × Bool)),
    Abs p F → p.full = true → TreesNZ F → F.numLeaves + adds.length < 2 ^ 64 →
    dels.Nodup → (∀ d ∈ dels, d ∈ F.liveLeaves) →
    (∀ ts, dels.mapM F.posOf = some ts → targets = ts.map (fun q => BitVec.ofNat 64 (enc F.rows q))) →
    (dels.mapM F.posOf).isSome →
    (adds.map (·.1)).Nodup → (∀ e ∈ adds, e.1 ∉ F.liveLeaves ∧ e.1 ≠ zero) →
    ∃ p', PollardHeap.modify adds dels targets p = (.ok (), p') ∧
      Abs p' (F.modify dels (adds.map (·.1))) ∧ p'.full = true

/-- full statement for undo: after a block, `Undo` with the block's data and the previous
roots yields a heap representing the previous forest (up to `Spec.Equiv`, which `Abs` ignores). -/
def undo_refines_statement (H : Type) [DecidableEq H] [Hasher H] : Prop :=
  (∀ a b : H, ph a b ≠ (zero : H)) →
  ∀ (p p' : Pollard H) (F : Forest H) (dels : List H) (targets : List U64) (adds : List (H × Bool)),
    Abs p F → p.full = true → TreesNZ F →
    PollardHeap.modify adds dels targets p = (.ok (), p') →
    Abs p' (F.modify dels (adds.map (·.1))) →
    ∃ p'', PollardHeap.undo (BitVec.ofNat 64 adds.length) targets dels F.roots p' = (.ok (), p'') ∧
      Abs p'' F

/-- full statement for the remaining queries on a represented forest (`GetHash` is proved:
`getHash_refines`, `getHash_spec`): `GetLeafPosition` (= `NodeMap` look-up + `calculatePosition`
over the aunt pointers) is the specification position, `Prove` returns the canonical proof -/
def queries_statement (H : Type) [DecidableEq H] [Hasher H] : Prop :=
  ∀ (p : Pollard H) (F : Forest H), Abs p F → p.full = true → F.liveLeaves.Nodup → TreesNZ F →
    F.roots.Nodup → F.numLeaves < 2 ^ 63 →
    (∀ h : H, getLeafPosition h p = (.ok (PollardAbs.pollardGetLeafPosition F h), p)) ∧
    (∀ hs : List H, (∀ h ∈ hs, h ∈ F.liveLeaves) → 1 < F.numLeaves → hs ≠ [] →
      ∃ ts ps, F.canon hs = some (ts, ps) ∧
        prove hs p = (.ok (ts.map (fun q => BitVec.ofNat 64 (enc F.rows q)), ps), p))

/-! ### the empty accumulator -/

/-- `NewAccumulator()` represents the empty forest -/
theorem abs_new : Abs (newAccumulator : Pollard H) Forest.empty := Proofs.PollardHeap.abs_new

/-- `NewAccumulator()` is well formed -/
theorem wf_new : WF (newAccumulator : Pollard H) := abs_new.wf

/-! ### additions -/

/-- **one addition** preserves the abstraction relation and commutes with `Forest.add`:
for every full pollard `p` representing `F` (below `2^64 - 1` leaves, every present tree with a
non-zero root hash), every leaf `x` not yet in `NodeMap` and every `Remember` flag,
`addOne` succeeds — no panic, error or fuel exhaustion — and the result represents `F.add x`. -/
theorem addOne_refines {p : Pollard H} {F : Forest H} (a : Abs p F) (hfull : p.full = true)
    (hn : F.numLeaves + 1 < 2 ^ 64) (x : H) (rem : Bool) (hx : x ∉ p.nodeMap.map (·.1))
    (hnz : TreesNZ F) :
    ∃ p', addOne (x, rem) p = (.ok (), p') ∧ Abs p' (F.add x) ∧ p'.full = true ∧
      p'.nodeMap = (x, p.heap.size) :: p.nodeMap :=
  addOne_abs a hfull hn x rem hx hnz

/-- **`Pollard.add`** of any list of distinct, non-zero, not yet tracked leaves -/
theorem add_refines (hph : ∀ a b : H, ph a b ≠ (zero : H)) (adds : List (H × Bool)) {p : Pollard H}
    {F : Forest H} (a : Abs p F) (hfull : p.full = true) (hn : F.numLeaves + adds.length < 2 ^ 64)
    (hnd : (adds.map (·.1)).Nodup) (hx : ∀ e ∈ adds, e.1 ∉ p.nodeMap.map (·.1) ∧ e.1 ≠ zero)
    (hnz : TreesNZ F) :
    ∃ p', add adds p = (.ok (), p') ∧ Abs p' (F.addMany (adds.map (·.1))) ∧ p'.full = true ∧
      TreesNZ (F.addMany (adds.map (·.1))) :=
  add_abs hph adds a hfull hn hnd hx hnz

/-- the addition path preserves well-formedness -/
theorem add_preserves_wf (hph : ∀ a b : H, ph a b ≠ (zero : H)) (adds : List (H × Bool))
    {p : Pollard H} {F : Forest H} (a : Abs p F) (hfull : p.full = true)
    (hn : F.numLeaves + adds.length < 2 ^ 64) (hnd : (adds.map (·.1)).Nodup)
    (hx : ∀ e ∈ adds, e.1 ∉ p.nodeMap.map (·.1) ∧ e.1 ≠ zero) (hnz : TreesNZ F) :
    ∃ p', add adds p = (.ok (), p') ∧ WF p' := by
  obtain ⟨p', h1, h2, _⟩ := add_refines hph adds a hfull hn hnd hx hnz
  exact ⟨p', h1, h2.wf⟩

/-- **every addition-only history from the empty accumulator**: `Modify(adds, nil, {})` on
`NewAccumulator()` succeeds for every list of distinct non-zero leaves, the result is well
formed and represents the specification forest with exactly those leaves appended. -/
theorem add_from_empty (hph : ∀ a b : H, ph a b ≠ (zero : H)) (adds : List (H × Bool))
    (hlen : adds.length < 2 ^ 64) (hnd : (adds.map (·.1)).Nodup) (hnz : ∀ e ∈ adds, e.1 ≠ zero) :
    ∃ p', PollardHeap.modify adds [] [] (newAccumulator : Pollard H) = (.ok (), p') ∧
      Abs p' (Forest.empty.addMany (adds.map (·.1))) ∧ WF p' := by
  obtain ⟨p', h1, h2, _⟩ := add_refines hph adds (abs_new (H := H)) rfl
    (by simpa [Forest.empty, Forest.numLeaves] using hlen) hnd
    (fun e he => ⟨by simp [newAccumulator], hnz e he⟩) treesNZ_empty
  refine ⟨p', ?_, h2, h2.wf⟩
  have : PollardHeap.modify adds [] [] (newAccumulator : Pollard H) = add adds newAccumulator := by
    unfold PollardHeap.modify
    simp [deleteFromMap, remove, removeLoop, sortU64, sortBy, deTwin, deTwinLoop, newAccumulator]
  rw [this]; exact h1

/-- `GetRoots` of a heap representing `F` returns the roots of the specification -/
theorem getRoots_refines {p : Pollard H} {F : Forest H} (a : Abs p F) :
    getRootHashes p = (.ok F.roots, p) := getRoots_abs a

/-- **`GetHash` on the heap = the look-up model of `Props/C10`**, for every `uint64` position -/
theorem getHash_refines {p : Pollard H} {F : Forest H} (a : Abs p F) (pos : U64) :
    getHash pos p = (.ok (PollardAbs.pollardGetHashNiece F pos), p) := getHash_abs a pos

/-- **`GetHash` on the heap tells the truth**: the hash of the specification node at that
position, the all-zero hash when the position holds no node (outside the forest, vacated,
below a moved-up leaf or an empty root) -/
theorem getHash_spec {p : Pollard H} {F : Forest H} (a : Abs p F) (hn : F.numLeaves < 2 ^ 63)
    (pos : U64) :
    getHash pos p = (.ok (((Proofs.SpecView.dec F.rows pos.toNat).bind F.nodeAt).getD zero), p) := by
  rw [getHash_refines a pos, Props.C10.pollardGetHashNiece_spec F hn pos]

/-- **`abs` is well defined on `Spec.Equiv`-classes**: two specification forests represented
by the same heap are observationally equivalent (given that no present tree hashes to the
all-zero value — an empty root and a lone all-zero leaf look the same, in Go as well) -/
theorem abs_unique_up_to_equiv {p : Pollard H} {F G : Forest H} (a : Abs p F) (b : Abs p G)
    (zF : TreesNZ F) (zG : TreesNZ G) : Spec.Equiv F G := by
  have hn : F.numLeaves = G.numLeaves := a.numLeaves.symm.trans b.numLeaves
  refine ⟨hn, ?_⟩
  obtain ⟨_, _, h1, _⟩ := a.repr
  obtain ⟨_, _, h2, _⟩ := b.repr
  have e : F.trees.map (·.2) = G.trees.map (·.2) := by
    apply h1.det h2
    · intro t ht
      simp only [List.mem_map] at ht
      obtain ⟨q, hq, e⟩ := ht
      exact zF q hq t e
    · intro t ht
      simp only [List.mem_map] at ht
      obtain ⟨q, hq, e⟩ := ht
      exact zG q hq t e
  have r1 : F.trees.map (·.1) = G.trees.map (·.1) := by simp [Forest.trees, hn]
  apply List.ext_getElem
  · simpa using congrArg List.length r1
  · intro i h1' h2'
    have a1 : (F.trees.map (·.1))[i]? = (G.trees.map (·.1))[i]? := by rw [r1]
    have a2 : (F.trees.map (·.2))[i]? = (G.trees.map (·.2))[i]? := by rw [e]
    simp only [List.getElem?_map, List.getElem?_eq_getElem h1', List.getElem?_eq_getElem h2',
      Option.map_some, Option.some.injEq] at a1 a2
    exact Prod.ext a1 a2

/-! ### the executable abstraction function and check -/

/-- a full pollard passing the executable check (driver kind `ph:wf`) is well formed -/
theorem wfCheck_sound (p : Pollard H) (hfull : p.full = true) (h : wfCheck p = none) : WF p :=
  Proofs.PollardHeap.wfCheck_sound p hfull h

/-- what the executable abstraction function returns is represented by the heap -/
theorem absTrees_sound (p : Pollard H) (ts : List (Nat × Option (CTree H))) (h : absTrees p = some ts) :
    ∃ owned lv, ReprRoots p.heap p.roots (ts.map (·.2)) owned lv ∧
      ts.map (·.1) = treeRows p.numLeaves.toNat :=
  Proofs.PollardHeap.absTrees_sound p ts h

/-- check + abstraction function = the abstraction relation -/
theorem abs_of_check (p : Pollard H) (F : Forest H) (hfull : p.full = true) (hc : wfCheck p = none)
    (hn : p.numLeaves.toNat = F.numLeaves) (ht : absTrees p = some F.trees) : Abs p F :=
  Proofs.PollardHeap.abs_of_check p F hfull hc hn ht

/-! ### non-vacuity and concrete instances (free term algebra as the hash) -/

namespace Example
open UtreexoVerif.Spec.NodesUniqueExample

def leaves5 : List (Term × Bool) :=
  [(.atom 1, true), (.atom 2, false), (.atom 3, true), (.atom 4, true), (.atom 5, false)]

/-- five additions on the empty accumulator, by evaluation of the model -/
def p5 : Pollard Term := (PollardHeap.add leaves5 newAccumulator).2

def F5 : Forest Term := Forest.empty.addMany (leaves5.map (·.1))

theorem hphT : ∀ a b : Term, ph a b ≠ (zero : Term) := termCR.nonzero

/-- the hypotheses of `add_refines` / `add_from_empty` are satisfiable -/
example : ∃ p', PollardHeap.modify leaves5 [] [] (newAccumulator : Pollard Term) = (.ok (), p') ∧
    Abs p' F5 ∧ WF p' :=
  add_from_empty hphT leaves5 (by decide) (by decide) (by decide)

/-- … and the executable check / abstraction function agree on the evaluated state -/
example : wfCheck p5 = none := by decide +kernel
example : absTrees p5 = some F5.trees := by decide +kernel
example : Abs p5 F5 := abs_of_check p5 F5 (by decide +kernel) (by decide +kernel) (by decide +kernel)
  (by decide +kernel)

/-- a block with deletions (leaves 1 and 4 of `F5`, canonical targets 0 and 3; leaf 1's sibling
moves up, `deleteSingle` in both its branches) plus two additions, then its undo: the
unproved statements on a concrete instance, by kernel evaluation -/
def dels : List Term := [.atom 1, .atom 4]
def targets : List U64 := [0#64, 3#64]
def adds2 : List (Term × Bool) := [(.atom 6, true), (.atom 7, true)]
def p6 : Pollard Term := (PollardHeap.modify adds2 dels targets p5).2
def F6 : Forest Term := F5.modify dels (adds2.map (·.1))

example : (PollardHeap.modify adds2 dels targets p5).1 = .ok () := by decide +kernel
example : wfCheck p6 = none := by decide +kernel
example : absTrees p6 = some F6.trees := by decide +kernel
example : Abs p6 F6 := abs_of_check p6 F6 (by decide +kernel) (by decide +kernel) (by decide +kernel)
  (by decide +kernel)

def p7 : Pollard Term := (PollardHeap.undo 2#64 targets dels F5.roots p6).2
example : (PollardHeap.undo 2#64 targets dels F5.roots p6).1 = .ok () := by decide +kernel
example : Abs p7 F5 := abs_of_check p7 F5 (by decide +kernel) (by decide +kernel) (by decide +kernel)
  (by decide +kernel)

/-- deleting a whole tree leaves an empty root that the next addition skips over -/
def p8 : Pollard Term := (PollardHeap.modify [(.atom 9, true)] [.atom 5] [4#64] p5).2
example : Abs p8 (F5.modify [.atom 5] [.atom 9]) :=
  abs_of_check _ _ (by decide +kernel) (by decide +kernel) (by decide +kernel) (by decide +kernel)

end Example

end UtreexoVerif.Props.PollardHeap
