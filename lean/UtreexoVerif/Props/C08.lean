/-
  C08 — undoing a cached proof yields a canonical proof for the previous state.

  THIS FILE IS ABOUT THE CODE BEFORE THE REPAIR OF `Proof.undoAdd` (model `proofUndoOld` =
  `proofUndoAddOld` then `proofUndoDel`): the full statement is false of it (two witnesses) and true
  outside the two defect classes.  The repaired code (`proofUndo`) is proved in full in
  `Props/C08b.lean` (`C08b.C08`), which reuses `expectedUndo`, `proofUndoDel_canonical`, the
  `undone_*` corollaries and the history lemmas of this file.

  "After a cached proof has been updated for a block and is then undone with that block's data, it
  is a canonical, verifying proof against the pre-block verifier state for exactly those of its
  leaves that already existed before the block.  It never contains a leaf the undone block added,
  never invents a leaf, and - apart from leaves the block itself deleted, which are documented as
  not restored - never loses a leaf that is live both before and after the block."

  Model: `Model/ProofUpdate.lean` (`proofUndoOld` = `proofUndoAddOld` then `proofUndoDel`,
  transliterated from /repo/prove.go `Proof.Undo`).  Specification: `Spec.Forest.canon`.

  * `C08_statement` — the full statement: for every valid block on `F` (deleting `D`, adding
    `adds`; `G = F.modify D adds`), every duplicate-free list `C'` of live leaves of `G` with its
    canonical proof, and the update data `ud` that `Stump.Update` returns for the block,
    `proofUndoOld (canon G C') (block data, ud.ToDestroy)` returns, without error, the canonical proof
    in `F` of a permutation `K` of `C' \ adds` (targets ascending) and `K` as the cached hashes.
  * `C08_fails_emptyRootsOverwritten`, `C08_fails_toEmpty` — the full statement is FALSE of the
    code as it is: the two recorded defect classes (`known_findings.jsonl`,
    `C08.undo.emptyRootsOverwritten` and `C08.undo.toEmpty`), each on a concrete witness.
  * `proofUndo_canonical_partial`, `C08_partial` — the statement holds for every block OUTSIDE the
    two classes: `ToDestroy = ∅` (the additions overwrite no empty root) and `F.numLeaves ≠ 0`.
  * `undone_proof_verifies`, `undone_no_added_leaf`, `undone_no_invented_leaf`,
    `undone_keeps_live_leaves` — the clauses of the property text, as corollaries.

  Levels (helper lemmas in `Proofs/`):
  1. `Proofs/ProofUndoAdd.lean` — `proofUndoAdd_canonical`: `proofUndoAddOld` is the inverse of the
     addition step (old nodes keep their (row, offset) position; `pruneEdges` keeps exactly the
     positions that exist in the previous forest; re-encoding for the previous number of rows;
     the needed proof hashes are a subset of the old ones).
  2. `Proofs/ProofUndoMove.lean`, `Proofs/ProofUndoLoops.lean`, `Proofs/ProofUndoDeTwin.lean`,
     `Proofs/ProofUndoDel.lean` — `proofUndoDel_canonical`: `proofUndoDel` is the inverse of the
     deletion movement (`calcPrevPosition` along the de-twinned targets in descending order undoes
     `movePos` step by step; the hashes on the deletion paths come from the block proof
     (`calculateHashes`), the others are carried along).
-/
import UtreexoVerif.Proofs.ProofUndoAdd
import UtreexoVerif.Proofs.ProofUndoDel
import UtreexoVerif.Props.C07

namespace UtreexoVerif.Props.C08
open UtreexoVerif Spec Spec.Forest Hasher Model
open UtreexoVerif.Proofs UtreexoVerif.Proofs.SpecNodes UtreexoVerif.Proofs.SpecSubs
open UtreexoVerif.Proofs.SpecPlan UtreexoVerif.Proofs.CalcComplete
open UtreexoVerif.Proofs.CalcGeo UtreexoVerif.Proofs.Movement
open UtreexoVerif.Proofs.Sorted UtreexoVerif.Proofs.FinalPos
open UtreexoVerif.Proofs.AddMove
open UtreexoVerif.Props.C11 UtreexoVerif.Props.C11del

section
set_option linter.unusedSectionVars false
variable {H : Type} [DecidableEq H] [Hasher H]

/-- what the client is expected to hold after the undo: its leaves that the block did not add -/
def expectedUndo (C' adds : List H) : List H := C'.filter (fun x => decide (x ∉ adds))

section statement
variable (H : Type) [DecidableEq H] [Hasher H]

/-- **C08, one block, full statement.**  `F`: the accumulator before the block (at most `2^63`
leaves after it; live leaves pairwise distinct, non-zero, not parent hashes); the block deletes the
duplicate-free list `D` with canonical proof `(tgD, hsD)` and adds `adds` (pairwise distinct,
non-zero, not parent hashes, different from every leaf that stays alive); `ud` is the update data
`Stump.Update` returns for the block; the client holds the canonical proof `(tgG, hsG)`, in the
forest after the block, of a duplicate-free list `C'` of live leaves (any order).  Then
`Proof.Undo`, given the block's data, returns without error the canonical proof in `F` of a
permutation `K` of `expectedUndo C' adds`, targets ascending, and `K` as the cached hashes. -/
def C08_statement : Prop :=
  ∀ (nonZero : H) (F : Forest H) (C' D adds : List H) (tgG tgD : List Pos) (hsG hsD : List H)
    (s' : Stump H) (ud : UpdateData H),
    CR H → nonZero ≠ (zero : H) → F.numLeaves + adds.length ≤ 2 ^ 63 → F.liveLeaves.Nodup →
    (∀ x ∈ F.liveLeaves, x ≠ (zero : H) ∧ ∀ a b : H, x ≠ ph a b) →
    (∀ x ∈ adds, x ≠ (zero : H) ∧ ∀ a b : H, x ≠ ph a b) → adds.Nodup →
    (∀ x ∈ adds, x ∈ F.liveLeaves → x ∈ D) →
    D.Nodup → F.canon D = some (tgD, hsD) →
    C'.Nodup → (F.modify D adds).canon C' = some (tgG, hsG) →
    (C01b.stumpOf F).update nonZero D adds (C01.encTargets F.rows tgD) hsD = .ok (s', ud) →
    ∃ K tg hs, K.Perm (expectedUndo C' adds) ∧ F.canon K = some (tg, hs) ∧
      tg.Pairwise Sorted.PLt ∧
      proofUndoOld ⟨tgG.map (E (F.modify D adds).rows), hsG⟩ (BitVec.ofNat 64 adds.length)
          (BitVec.ofNat 64 (F.modify D adds).numLeaves) (C01.encTargets F.rows tgD) D C'
          ud.toDestroy (C01.encTargets F.rows tgD) hsD =
        .ok (⟨tg.map (E F.rows), hs⟩, K)

/-- **C08 outside the two recorded defect classes**: the same statement for blocks whose
additions overwrite no empty root (`ToDestroy = ∅`) and whose pre-block accumulator is not empty -/
def C08_partial_statement : Prop :=
  ∀ (nonZero : H) (F : Forest H) (C' D adds : List H) (tgG tgD : List Pos) (hsG hsD : List H)
    (s' : Stump H) (ud : UpdateData H),
    CR H → nonZero ≠ (zero : H) → F.numLeaves + adds.length ≤ 2 ^ 63 → F.liveLeaves.Nodup →
    (∀ x ∈ F.liveLeaves, x ≠ (zero : H) ∧ ∀ a b : H, x ≠ ph a b) →
    (∀ x ∈ adds, x ≠ (zero : H) ∧ ∀ a b : H, x ≠ ph a b) → adds.Nodup →
    (∀ x ∈ adds, x ∈ F.liveLeaves → x ∈ D) →
    D.Nodup → F.canon D = some (tgD, hsD) →
    C'.Nodup → (F.modify D adds).canon C' = some (tgG, hsG) →
    (C01b.stumpOf F).update nonZero D adds (C01.encTargets F.rows tgD) hsD = .ok (s', ud) →
    ud.toDestroy = [] → F.numLeaves ≠ 0 →
    ∃ K tg hs, K.Perm (expectedUndo C' adds) ∧ F.canon K = some (tg, hs) ∧
      tg.Pairwise Sorted.PLt ∧
      proofUndoOld ⟨tgG.map (E (F.modify D adds).rows), hsG⟩ (BitVec.ofNat 64 adds.length)
          (BitVec.ofNat 64 (F.modify D adds).numLeaves) (C01.encTargets F.rows tgD) D C'
          ud.toDestroy (C01.encTargets F.rows tgD) hsD =
        .ok (⟨tg.map (E F.rows), hs⟩, K)

end statement

/-! ### Levels 1 and 2 -/

/-- **Level 1: `proofUndoAddOld` is the inverse of the addition step** when no empty root is
destroyed and the forest before the additions is not empty (see `Proofs/ProofUndoAdd.lean`) -/
theorem proofUndoAdd_canonical {F : Forest H} {adds : List H} (nz : NZ H)
    (hN : F.numLeaves + adds.length ≤ 2 ^ 63)
    (hndG : (F.addMany adds).liveLeaves.Nodup)
    (hleaf : ∀ x ∈ (F.addMany adds).liveLeaves, x ≠ (zero : H) ∧ ∀ a b : H, x ≠ ph a b)
    (hL : DestroySpec F.slots adds.length []) (hn0 : F.numLeaves ≠ 0)
    {C' : List H} {tgG : List Pos} {hsG : List H} (hC' : C'.Nodup)
    (hcG : (F.addMany adds).canon C' = some (tgG, hsG)) :
    ∃ K tgK hsK, K.Perm (expectedUndo C' adds) ∧
      F.canon K = some (tgK, hsK) ∧ tgK.Pairwise Sorted.PLt ∧
      proofUndoAddOld ⟨tgG.map (E (F.addMany adds).rows), hsG⟩ (BitVec.ofNat 64 adds.length)
          (BitVec.ofNat 64 (F.addMany adds).numLeaves) C' [] =
        .ok (⟨tgK.map (E F.rows), hsK⟩, K) :=
  ProofUndoAdd.proofUndoAdd_canonical nz hN hndG hleaf hL hn0 hC' hcG

/-- **Level 2: `proofUndoDel` is the inverse of the deletion movement** (see
`Proofs/ProofUndoDel.lean`) -/
theorem proofUndoDel_canonical {F : Forest H} (hn : F.numLeaves ≤ 2 ^ 63)
    (hnz : ∀ a b : H, ph a b ≠ (zero : H)) (hlive : ∀ l ∈ F.liveLeaves, l ≠ (zero : H))
    (hnd : F.liveLeaves.Nodup) {D K : List H} {tgD tgK1 : List Pos} {hsD hsK1 : List H}
    (hD : D.Nodup) (hcD : F.canon D = some (tgD, hsD))
    (hcK1 : (F.delLeaves D).canon K = some (tgK1, hsK1)) (hsorted1 : tgK1.Pairwise Sorted.PLt) :
    ∃ K' tg hs, K'.Perm K ∧ F.canon K' = some (tg, hs) ∧ tg.Pairwise Sorted.PLt ∧
      proofUndoDel ⟨tgK1.map (E F.rows), hsK1⟩ (tgD.map (E F.rows)) D K (tgD.map (E F.rows)) hsD
          (BitVec.ofNat 64 F.numLeaves) = .ok (⟨tg.map (E F.rows), hs⟩, K') :=
  ProofUndoDel.proofUndoDel_canonical hn hnz hlive hnd hD hcD hcK1 hsorted1

/-! ### Level 3: one block, outside the two defect classes -/

/-- **`Proof.Undo` is canonical outside the two defect classes** (specification form: the
hypothesis on the destroyed roots is `DestroySpec … []`, i.e. no all-zero root of the forest after
the deletions is merged over by the additions) -/
theorem proofUndo_canonical_partial (nz : NZ H) (F : Forest H) (C' D adds : List H)
    (tgG tgD : List Pos) (hsG hsD : List H)
    (hN : F.numLeaves + adds.length ≤ 2 ^ 63) (hnd : F.liveLeaves.Nodup)
    (hleaf : ∀ x ∈ F.liveLeaves, x ≠ (zero : H) ∧ ∀ a b : H, x ≠ ph a b)
    (hadds : ∀ x ∈ adds, x ≠ (zero : H) ∧ ∀ a b : H, x ≠ ph a b) (haddsnd : adds.Nodup)
    (hnew : ∀ x ∈ adds, x ∈ F.liveLeaves → x ∈ D)
    (hD : D.Nodup) (hcD : F.canon D = some (tgD, hsD))
    (hC' : C'.Nodup) (hcG : (F.modify D adds).canon C' = some (tgG, hsG))
    (hL : DestroySpec (F.delLeaves D).slots adds.length []) (hn0 : F.numLeaves ≠ 0) :
    ∃ K tg hs, K.Perm (expectedUndo C' adds) ∧ F.canon K = some (tg, hs) ∧
      tg.Pairwise Sorted.PLt ∧
      proofUndoOld ⟨tgG.map (E (F.modify D adds).rows), hsG⟩ (BitVec.ofNat 64 adds.length)
          (BitVec.ofNat 64 (F.modify D adds).numLeaves) (tgD.map (E F.rows)) D C' []
          (tgD.map (E F.rows)) hsD =
        .ok (⟨tg.map (E F.rows), hs⟩, K) := by
  have hn : F.numLeaves ≤ 2 ^ 63 := by omega
  obtain ⟨g1, g2⟩ := addMany_delLeaves_ok (dels := D) hnd hleaf hadds haddsnd hnew
  have hn' : (F.delLeaves D).numLeaves = F.numLeaves := delLeaves_numLeaves F D
  have hrows : (F.delLeaves D).rows = F.rows := by unfold Forest.rows; rw [hn']
  obtain ⟨K1, tgK1, hsK1, hperm1, hcK1, hsorted1, hua⟩ :=
    ProofUndoAdd.proofUndoAdd_canonical (F := F.delLeaves D) nz (by rw [hn']; exact hN) g1 g2 hL
      (by rw [hn']; exact hn0) hC' hcG
  obtain ⟨K, tg, hs, hperm2, hcK, hsorted, hud⟩ :=
    ProofUndoDel.proofUndoDel_canonical hn nz.nonzero (fun l hl => (hleaf l hl).1) hnd hD hcD hcK1
      hsorted1
  refine ⟨K, tg, hs, hperm2.trans hperm1, hcK, hsorted, ?_⟩
  have hnumG : (F.modify D adds).numLeaves = F.numLeaves + adds.length := by
    show ((F.delLeaves D).addMany adds).numLeaves = _
    simp [Forest.addMany, Forest.numLeaves, Forest.delLeaves]
  have hsub : BitVec.ofNat 64 (F.modify D adds).numLeaves - BitVec.ofNat 64 adds.length =
      BitVec.ofNat 64 F.numLeaves := by
    rw [hnumG, BitVec.ofNat_add, BitVec.add_sub_cancel]
  unfold proofUndoOld
  have hua' : proofUndoAddOld ⟨tgG.map (E (F.modify D adds).rows), hsG⟩ (BitVec.ofNat 64 adds.length)
      (BitVec.ofNat 64 (F.modify D adds).numLeaves) C' [] =
      .ok (⟨tgK1.map (E F.rows), hsK1⟩, K1) := by
    rw [← hrows]; exact hua
  rw [hua']
  simp only [bind, Out.bind, hsub]
  exact hud

/-- the rows of the destroyed roots from the update data of `Stump.Update`: an empty `ToDestroy`
means that no all-zero root is merged over -/
theorem destroySpec_of_toDestroy_nil (nz : NZ H) {G : Forest H} {adds : List H} {upd : HP H}
    (hN : G.numLeaves + adds.length ≤ 2 ^ 63) (hndG : (G.addMany adds).liveLeaves.Nodup)
    (hleaf : ∀ x ∈ (G.addMany adds).liveLeaves, x ≠ (zero : H) ∧ ∀ a b : H, x ≠ ph a b)
    (hspec : AddDataSpec G adds upd []) : DestroySpec G.slots adds.length [] := by
  obtain ⟨_, _, _, L, htd, hLasc, hLmem⟩ := hspec
  have hL : L = [] := by
    cases L with
    | nil => rfl
    | cons a t => simp at htd
  subst hL
  exact ProofUpdateAdd.destroySpec_of nz hN hndG hleaf hLasc hLmem

/-- **C08 for one block, outside the two defect classes**, fed by the update data of the
verifier-state update -/
theorem C08_partial : C08_partial_statement H := by
  intro nonZero F C' D adds tgG tgD hsG hsD s' ud cr hnz hN hnd hleaf hadds haddsnd hnew hD hcD hC'
    hcG hupd htd hn0
  obtain ⟨ud', h1, _, _, h4⟩ := stump_update_data cr nonZero hnz F (C01b.stumpOf F) D adds tgD hsD
    [] rfl rfl hN hnd hleaf hadds haddsnd hnew hD hcD
  rw [List.append_nil, hupd] at h1
  have e : ud = ud' := by
    injection h1 with h1
    exact (Prod.mk.inj h1).2
  subst e
  rw [htd] at h4 ⊢
  obtain ⟨g1, g2⟩ := addMany_delLeaves_ok (dels := D) hnd hleaf hadds haddsnd hnew
  have hn' : (F.delLeaves D).numLeaves = F.numLeaves := delLeaves_numLeaves F D
  have hL := destroySpec_of_toDestroy_nil cr.toNZ (by rw [hn']; exact hN) g1 g2 h4
  exact proofUndo_canonical_partial cr.toNZ F C' D adds tgG tgD hsG hsD hN hnd hleaf hadds haddsnd hnew hD
    hcD hC' hcG hL hn0

/-! ### the clauses of the property text -/

/-- "It never contains a leaf the undone block added" -/
theorem undone_no_added_leaf {C' adds K : List H} (hperm : K.Perm (expectedUndo C' adds)) :
    ∀ x ∈ K, x ∉ adds := by
  intro x hx
  have := (List.mem_filter.1 (hperm.mem_iff.1 hx)).2
  simpa using this

/-- "never invents a leaf" -/
theorem undone_no_invented_leaf {C' adds K : List H} (hperm : K.Perm (expectedUndo C' adds)) :
    ∀ x ∈ K, x ∈ C' := fun _ hx => (List.mem_filter.1 (hperm.mem_iff.1 hx)).1

/-- "apart from leaves the block itself deleted … never loses a leaf that is live both before and
after the block": a cached leaf (hence live after the block) that was live before the block and
not deleted by it is still cached after the undo -/
theorem undone_keeps_live_leaves {F : Forest H} {C' D adds K : List H}
    (hnew : ∀ x ∈ adds, x ∈ F.liveLeaves → x ∈ D) (hperm : K.Perm (expectedUndo C' adds)) :
    ∀ x ∈ C', x ∈ F.liveLeaves → x ∉ D → x ∈ K := by
  intro x hx hlive hxD
  apply hperm.mem_iff.2
  apply List.mem_filter.2
  refine ⟨hx, ?_⟩
  simp only [decide_eq_true_eq]
  exact fun ha => hxD (hnew x ha hlive)

/-- exactly: the undone proof holds the cached leaves that existed before the block -/
theorem undone_exactly {F : Forest H} {C' D adds K : List H}
    (hnew : ∀ x ∈ adds, x ∈ F.liveLeaves → x ∈ D)
    (hC'live : ∀ x ∈ C', x ∈ (F.modify D adds).liveLeaves)
    (hperm : K.Perm (expectedUndo C' adds)) :
    ∀ x, x ∈ K ↔ x ∈ C' ∧ x ∈ F.liveLeaves ∧ x ∉ D := by
  intro x
  constructor
  · intro hx
    have h1 := undone_no_invented_leaf hperm x hx
    have h2 := undone_no_added_leaf hperm x hx
    rcases LiveLeaves.mem_liveLeaves_modify.1 (hC'live x h1) with ⟨h3, h4⟩ | h3
    · exact ⟨h1, h3, h4⟩
    · exact absurd h3 h2
  · rintro ⟨h1, h2, h3⟩
    exact undone_keeps_live_leaves hnew hperm x h1 h2 h3

/-- "it is a canonical, verifying proof against the pre-block verifier state": the result of the
undo is accepted by `Verify` against the roots of the accumulator before the block -/
theorem undone_proof_verifies (nz : NZ H) {F : Forest H} (hn : F.numLeaves ≤ 2 ^ 63)
    (hlive : ∀ l ∈ F.liveLeaves, l ≠ (zero : H)) {K : List H} {tg : List Pos} {hs : List H}
    (hcK : F.canon K = some (tg, hs)) (hsorted : tg.Pairwise Sorted.PLt) :
    verify (BitVec.ofNat 64 F.numLeaves) F.roots K (tg.map (E F.rows)) hs =
      .ok (touchedIdx F.numLeaves tg) := by
  have hK : K.Nodup := by
    have h1 := hsorted
    rw [ProofUpdateRemove.canon_targets_eq hcK, List.pairwise_map] at h1
    exact h1.imp (fun {a b} hab e => by rw [e] at hab; exact PLt.irrefl _ hab)
  exact C02.honest_proof_verifies_CR nz hn hlive hK hcK

/-! ### update, then undo -/

/-- **`Proof.Update` followed by `Proof.Undo` with the same block** (outside the two defect
classes) gives back the canonical proof, in the accumulator before the block, of the previously
cached leaves minus those the block deleted -/
theorem update_then_undo_partial (cr : CR H) (nonZero : H) (hnz : nonZero ≠ (zero : H))
    (F : Forest H) (C D adds : List H) (tgC tgD : List Pos) (hsC hsD : List H)
    (remembers : List Nat)
    (hN : F.numLeaves + adds.length ≤ 2 ^ 63) (hnd : F.liveLeaves.Nodup)
    (hleaf : ∀ x ∈ F.liveLeaves, x ≠ (zero : H) ∧ ∀ a b : H, x ≠ ph a b)
    (hadds : ∀ x ∈ adds, x ≠ (zero : H) ∧ ∀ a b : H, x ≠ ph a b) (haddsnd : adds.Nodup)
    (hnew : ∀ x ∈ adds, x ∈ F.liveLeaves → x ∈ D)
    (hD : D.Nodup) (hcD : F.canon D = some (tgD, hsD))
    (hC : C.Nodup) (hcC : F.canon C = some (tgC, hsC))
    (hrem : remembers.Pairwise (· ≤ ·)) (hn0 : F.numLeaves ≠ 0) :
    ∃ (ud : UpdateData H) (p' : CProof H) (C' : List H),
      (C01b.stumpOf F).update nonZero D adds (C01.encTargets F.rows tgD) hsD =
        .ok (C01b.stumpOf (F.modify D adds), ud) ∧
      proofUpdate ⟨tgC.map (E F.rows), hsC⟩ C adds (C01.encTargets F.rows tgD) remembers
        (C07.toM ud) = .ok (p', C') ∧
      (ud.toDestroy = [] →
        ∃ K tg hs, K.Perm (C.filter (fun x => decide (x ∉ D))) ∧ F.canon K = some (tg, hs) ∧
          tg.Pairwise Sorted.PLt ∧
          proofUndoOld p' (BitVec.ofNat 64 adds.length) (BitVec.ofNat 64 (F.modify D adds).numLeaves)
              (C01.encTargets F.rows tgD) D C' ud.toDestroy (C01.encTargets F.rows tgD) hsD =
            .ok (⟨tg.map (E F.rows), hs⟩, K)) := by
  obtain ⟨ud, C', tg', hs', h1, h2, h3, h4, h5⟩ := C07.proofUpdate_with_stump cr nonZero hnz F C D
    adds tgC tgD hsC hsD [] remembers hN hnd hleaf hadds haddsnd hnew hD hcD hC hcC hrem
  rw [List.append_nil] at h1
  refine ⟨ud, _, C', h1, h5, ?_⟩
  intro htd
  have hC' : C'.Nodup := by
    have := h4
    rw [ProofUpdateRemove.canon_targets_eq h3, List.pairwise_map] at this
    exact this.imp (fun {x y} hxy e => by rw [e] at hxy; exact PLt.irrefl _ hxy)
  obtain ⟨K, tg, hs, g1, g2, g3, g4⟩ := C08_partial nonZero F C' D adds tg' tgD hs' hsD _ ud cr hnz hN
    hnd hleaf hadds haddsnd hnew hD hcD hC' h3 h1 htd hn0
  refine ⟨K, tg, hs, g1.trans ?_, g2, g3, g4⟩
  -- the leaves that were not added are the old cached leaves that were not deleted
  have hCl : ∀ x ∈ C, x ∈ F.liveLeaves := fun x hx => C02.canon_live hcC x hx
  unfold expectedUndo
  refine (h2.filter _).trans ?_
  unfold C07.expected
  rw [List.filter_append]
  have e1 : (ProofUpdateAdd.remAdds adds remembers).filter (fun x => decide (x ∉ adds)) = [] := by
    apply List.filter_eq_nil_iff.2
    intro x hx
    simp only [decide_eq_true_eq, Decidable.not_not]
    exact ProofUpdateAdd.remAdds_sub hx
  have e2 : (C.filter (fun x => decide (x ∉ D))).filter (fun x => decide (x ∉ adds)) =
      C.filter (fun x => decide (x ∉ D)) := by
    apply List.filter_eq_self.2
    intro x hx
    obtain ⟨hxC, hxD⟩ := List.mem_filter.1 hx
    simp only [decide_eq_true_eq] at hxD ⊢
    exact fun ha => hxD (hnew x ha (hCl x hxC))
  rw [e1, e2, List.append_nil]

/-! ### along a valid history: undoing the newest block -/

/-- `C07.client_from`, additionally exporting that the cached leaves are pairwise different -/
theorem client_from_nodup (cr : CR H) (nonZero : H) (hnz : nonZero ≠ (zero : H)) :
    ∀ (hist : List (C07.CBlock H)) (F : Forest H) (C Cexp : List H) (tg : List Pos) (hs : List H),
      C07.Inv F hist → C.Nodup → F.canon C = some (tg, hs) → C.Perm Cexp →
      ∃ C' tg' hs',
        C07.clientRun nonZero F (⟨tg.map (E F.rows), hs⟩, C) hist =
          some (⟨tg'.map (E (run F (hist.map C07.toBlock)).rows), hs'⟩, C') ∧
        (run F (hist.map C07.toBlock)).canon C' = some (tg', hs') ∧
        C'.Perm (C07.expectedRun Cexp hist) ∧ C'.Nodup := by
  intro hist
  induction hist with
  | nil =>
    intro F C Cexp tg hs _ hC hc hp
    exact ⟨C, tg, hs, rfl, hc, hp, hC⟩
  | cons b rest ih =>
    obtain ⟨d, a, r⟩ := b
    intro F C Cexp tg hs inv hC hc hp
    have hsm := inv.ok.small
    simp only [List.map_cons, C07.toBlock, allAdds_cons, List.length_append] at hsm
    have hN : F.numLeaves + a.length ≤ 2 ^ 63 := by omega
    have hand := inv.ok.adds_nodup
    simp only [List.map_cons, C07.toBlock, allAdds_cons] at hand
    have hleaf : ∀ x ∈ F.liveLeaves, x ≠ (zero : H) ∧ ∀ p q : H, x ≠ ph p q :=
      fun x hx => ⟨inv.ok.live_nonzero x hx, inv.leafF x hx⟩
    have hadds : ∀ x ∈ a, x ≠ (zero : H) ∧ ∀ p q : H, x ≠ ph p q := by
      intro x hx
      have hm : x ∈ allAdds (((d, a, r) :: rest).map C07.toBlock) := by
        simp only [List.map_cons, C07.toBlock, allAdds_cons]
        exact List.mem_append_left _ hx
      exact ⟨inv.ok.adds_nonzero x hm, inv.leafA x hm⟩
    have hnew : ∀ x ∈ a, x ∈ F.liveLeaves → x ∈ d := by
      intro x hx hl
      exact absurd hl (inv.ok.adds_new x (by
        simp only [List.map_cons, C07.toBlock, allAdds_cons]
        exact List.mem_append_left _ hx))
    have hD : d.Nodup := inv.dnd (d, a) (by simp [C07.toBlock])
    obtain ⟨tgD, hsD, hcD⟩ := C02.canon_defined (L := d) (by omega : F.numLeaves ≤ 2 ^ 63) inv.live.1
    obtain ⟨ud, C', tg', hs', h1, h2, h3, h4, h5⟩ := C07.proofUpdate_with_stump cr nonZero hnz F C d a
      tg tgD hs hsD [] r hN inv.ok.live_nodup hleaf hadds (List.nodup_append.1 hand).1 hnew hD hcD hC
      hc (inv.rems (d, a, r) (by simp))
    rw [List.append_nil] at h1
    have hC' : C'.Nodup := by
      have := h4
      rw [ProofUpdateRemove.canon_targets_eq h3, List.pairwise_map] at this
      exact this.imp (fun {x y} hxy e => by rw [e] at hxy; exact PLt.irrefl _ hxy)
    obtain ⟨C'', tg'', hs'', g1, g2, g3, g4⟩ := ih (F.modify d a) C' (C07.expected Cexp d a r) tg' hs'
      inv.step hC' h3 (h2.trans (List.Perm.append_right _ (hp.filter _)))
    refine ⟨C'', tg'', hs'', ?_, g2, g3, g4⟩
    rw [C07.clientRun]
    dsimp only
    rw [hcD]
    dsimp only
    rw [h1]
    dsimp only
    rw [h5]
    exact g1

/-- `client_from_nodup` without collision-freeness: `NZ H`, and every forest reached along the
history has pairwise distinct non-zero node hashes (`DistinctRun`, `Proofs/NodesUnique.lean`) -/
theorem client_from_nodup_nd (nz : NZ H) (nonZero : H) (hnz : nonZero ≠ (zero : H)) :
    ∀ (hist : List (C07.CBlock H)) (F : Forest H) (C Cexp : List H) (tg : List Pos) (hs : List H),
      C07.Inv F hist → DistinctRun F (hist.map C07.toBlock) → C.Nodup → F.canon C = some (tg, hs) → C.Perm Cexp →
      ∃ C' tg' hs',
        C07.clientRun nonZero F (⟨tg.map (E F.rows), hs⟩, C) hist =
          some (⟨tg'.map (E (run F (hist.map C07.toBlock)).rows), hs'⟩, C') ∧
        (run F (hist.map C07.toBlock)).canon C' = some (tg', hs') ∧
        C'.Perm (C07.expectedRun Cexp hist) ∧ C'.Nodup := by
  intro hist
  induction hist with
  | nil =>
    intro F C Cexp tg hs _ _ hC hc hp
    exact ⟨C, tg, hs, rfl, hc, hp, hC⟩
  | cons b rest ih =>
    obtain ⟨d, a, r⟩ := b
    intro F C Cexp tg hs inv hdr hC hc hp
    have hsm := inv.ok.small
    simp only [List.map_cons, C07.toBlock, allAdds_cons, List.length_append] at hsm
    have hN : F.numLeaves + a.length ≤ 2 ^ 63 := by omega
    have hand := inv.ok.adds_nodup
    simp only [List.map_cons, C07.toBlock, allAdds_cons] at hand
    have hleaf : ∀ x ∈ F.liveLeaves, x ≠ (zero : H) ∧ ∀ p q : H, x ≠ ph p q :=
      fun x hx => ⟨inv.ok.live_nonzero x hx, inv.leafF x hx⟩
    have hadds : ∀ x ∈ a, x ≠ (zero : H) ∧ ∀ p q : H, x ≠ ph p q := by
      intro x hx
      have hm : x ∈ allAdds (((d, a, r) :: rest).map C07.toBlock) := by
        simp only [List.map_cons, C07.toBlock, allAdds_cons]
        exact List.mem_append_left _ hx
      exact ⟨inv.ok.adds_nonzero x hm, inv.leafA x hm⟩
    have hnew : ∀ x ∈ a, x ∈ F.liveLeaves → x ∈ d := by
      intro x hx hl
      exact absurd hl (inv.ok.adds_new x (by
        simp only [List.map_cons, C07.toBlock, allAdds_cons]
        exact List.mem_append_left _ hx))
    have hD : d.Nodup := inv.dnd (d, a) (by simp [C07.toBlock])
    obtain ⟨tgD, hsD, hcD⟩ := C02.canon_defined (L := d) (by omega : F.numLeaves ≤ 2 ^ 63) inv.live.1
    obtain ⟨ud, C', tg', hs', h1, h2, h3, h4, h5⟩ := C07.proofUpdate_with_stump_nd nz nonZero hnz F C d a
      tg tgD hs hsD [] r hN inv.ok.live_nodup hleaf hadds (List.nodup_append.1 hand).1 hnew hD hcD hC
      hc (inv.rems (d, a, r) (by simp)) hdr.1
    rw [List.append_nil] at h1
    have hC' : C'.Nodup := by
      have := h4
      rw [ProofUpdateRemove.canon_targets_eq h3, List.pairwise_map] at this
      exact this.imp (fun {x y} hxy e => by rw [e] at hxy; exact PLt.irrefl _ hxy)
    obtain ⟨C'', tg'', hs'', g1, g2, g3, g4⟩ := ih (F.modify d a) C' (C07.expected Cexp d a r) tg' hs'
      inv.step hdr.2 hC' h3 (h2.trans (List.Perm.append_right _ (hp.filter _)))
    refine ⟨C'', tg'', hs'', ?_, g2, g3, g4⟩
    rw [C07.clientRun]
    dsimp only
    rw [hcD]
    dsimp only
    rw [h1]
    dsimp only
    rw [h5]
    exact g1

/-- the client run over a concatenated history -/
theorem client_run_append (nonZero : H) : ∀ (h1 h2 : List (C07.CBlock H)) (F : Forest H)
    (c : CProof H × List H),
    C07.clientRun nonZero F c (h1 ++ h2) =
      (C07.clientRun nonZero F c h1).bind
        (fun c' => C07.clientRun nonZero (run F (h1.map C07.toBlock)) c' h2) := by
  intro h1
  induction h1 with
  | nil => intro h2 F c; rfl
  | cons b rest ih =>
    intro h2 F c
    rw [List.cons_append, C07.clientRun, C07.clientRun]
    cases hc : F.canon b.1 with
    | none => rfl
    | some tp =>
      obtain ⟨targets, proof⟩ := tp
      simp only
      cases hu : (C01b.stumpOf F).update nonZero b.1 b.2.1 (C01.encTargets F.rows targets) proof with
      | ok su =>
        simp only
        cases hp : proofUpdate c.1 c.2 b.2.1 (C01.encTargets F.rows targets) b.2.2 (C07.toM su.2) with
        | ok c' => exact ih h2 _ c'
        | err => rfl
        | panic => rfl
        | hang => rfl
      | err => rfl
      | panic => rfl
      | hang => rfl

/-- the invariant of `Props/C07.lean` after a prefix of the history -/
theorem inv_prefix : ∀ (pre post : List (C07.CBlock H)) (F : Forest H),
    C07.Inv F (pre ++ post) → C07.Inv (run F (pre.map C07.toBlock)) post := by
  intro pre
  induction pre with
  | nil => intro post F inv; exact inv
  | cons b rest ih =>
    intro post F inv
    obtain ⟨d, a, r⟩ := b
    exact ih post _ (C07.Inv.step inv)

/-- **C08 along a valid history** (outside the two defect classes): a light client that started
from the empty proof and followed the history `pre ++ [(d, a, r)]` with `Proof.Update`, and then
undoes the newest block with that block's data — when the block's `ToDestroy` is empty and the
accumulator before the block is not empty — holds exactly the canonical proof, in the accumulator
before the block, of the leaves it held before the block minus those the block deleted. -/
theorem client_history_undo_last_partial (cr : CR H) (nonZero : H) (hnz : nonZero ≠ (zero : H))
    (pre : List (C07.CBlock H)) (d a : List H) (r : List Nat)
    (v : C01.ValidHistory ((pre ++ [(d, a, r)]).map C07.toBlock))
    (hrem : ∀ b ∈ pre ++ [(d, a, r)], b.2.2.Pairwise (· ≤ ·))
    (hn0 : (run Forest.empty (pre.map C07.toBlock)).numLeaves ≠ 0) :
    ∃ (tgD : List Pos) (hsD : List H) (ud : UpdateData H) (p' : CProof H) (C' : List H),
      (run Forest.empty (pre.map C07.toBlock)).canon d = some (tgD, hsD) ∧
      (C01b.stumpOf (run Forest.empty (pre.map C07.toBlock))).update nonZero d a
          (C01.encTargets (run Forest.empty (pre.map C07.toBlock)).rows tgD) hsD =
        .ok (C01b.stumpOf (run Forest.empty ((pre ++ [(d, a, r)]).map C07.toBlock)), ud) ∧
      C07.clientRun nonZero Forest.empty (⟨[], []⟩, []) (pre ++ [(d, a, r)]) = some (p', C') ∧
      (ud.toDestroy = [] →
        ∃ K tg hs, K.Perm ((C07.expectedRun [] pre).filter (fun x => decide (x ∉ d))) ∧
          (run Forest.empty (pre.map C07.toBlock)).canon K = some (tg, hs) ∧
          tg.Pairwise Sorted.PLt ∧
          proofUndoOld p' (BitVec.ofNat 64 a.length)
              (BitVec.ofNat 64 (run Forest.empty ((pre ++ [(d, a, r)]).map C07.toBlock)).numLeaves)
              (C01.encTargets (run Forest.empty (pre.map C07.toBlock)).rows tgD) d C' ud.toDestroy
              (C01.encTargets (run Forest.empty (pre.map C07.toBlock)).rows tgD) hsD =
            .ok (⟨tg.map (E (run Forest.empty (pre.map C07.toBlock)).rows), hs⟩, K)) := by
  -- the invariant at the accumulator before the newest block
  have inv0 : C07.Inv (Forest.empty : Forest H) (pre ++ [(d, a, r)]) :=
    { ok := ⟨List.nodup_nil, fun x hx => (by cases hx), v.adds_nodup, fun x _ hx => (by cases hx),
        fun x hx => (v.adds_leaf x hx).1, (by show 0 + _ ≤ _; have := v.small; omega)⟩
      live := v.live
      dnd := v.dels_nodup
      leafF := fun x hx => (by cases hx)
      leafA := fun x hx => (v.adds_leaf x hx).2
      rems := hrem }
  have inv := inv_prefix pre [(d, a, r)] Forest.empty inv0
  generalize hF : run Forest.empty (pre.map C07.toBlock) = F at *
  have hsm := inv.ok.small
  simp only [List.map_cons, List.map_nil, C07.toBlock, allAdds_cons, List.length_append] at hsm
  have hN : F.numLeaves + a.length ≤ 2 ^ 63 := by omega
  have hand := inv.ok.adds_nodup
  simp only [List.map_cons, List.map_nil, C07.toBlock, allAdds_cons] at hand
  have hleaf : ∀ x ∈ F.liveLeaves, x ≠ (zero : H) ∧ ∀ p q : H, x ≠ ph p q :=
    fun x hx => ⟨inv.ok.live_nonzero x hx, inv.leafF x hx⟩
  have hadds : ∀ x ∈ a, x ≠ (zero : H) ∧ ∀ p q : H, x ≠ ph p q := by
    intro x hx
    have hm : x ∈ allAdds ([(d, a, r)].map C07.toBlock) := by
      simp only [List.map_cons, List.map_nil, C07.toBlock, allAdds_cons]
      exact List.mem_append_left _ hx
    exact ⟨inv.ok.adds_nonzero x hm, inv.leafA x hm⟩
  have hnew : ∀ x ∈ a, x ∈ F.liveLeaves → x ∈ d := by
    intro x hx hl
    exact absurd hl (inv.ok.adds_new x (by
      simp only [List.map_cons, List.map_nil, C07.toBlock, allAdds_cons]
      exact List.mem_append_left _ hx))
  have hD : d.Nodup := inv.dnd (d, a) (by simp [C07.toBlock])
  obtain ⟨tgD, hsD, hcD⟩ := C02.canon_defined (L := d) (by omega : F.numLeaves ≤ 2 ^ 63) inv.live.1
  -- the client before the newest block
  have vpre : C01.ValidHistory (pre.map C07.toBlock) := by
    have e : (pre ++ [(d, a, r)]).map C07.toBlock = pre.map C07.toBlock ++ [(d, a)] := by
      simp [C07.toBlock]
    rw [e] at v
    exact C07.validHistory_prefix v
  have invpre : C07.Inv (Forest.empty : Forest H) pre :=
    { ok := ⟨List.nodup_nil, fun x hx => (by cases hx), vpre.adds_nodup, fun x _ hx => (by cases hx),
        fun x hx => (vpre.adds_leaf x hx).1, (by show 0 + _ ≤ _; have := vpre.small; omega)⟩
      live := vpre.live
      dnd := vpre.dels_nodup
      leafF := fun x hx => (by cases hx)
      leafA := fun x hx => (vpre.adds_leaf x hx).2
      rems := fun b hb => hrem b (List.mem_append_left _ hb) }
  obtain ⟨C, tgC, hsC, hrun, hcC, hpermC, hC⟩ := client_from_nodup cr nonZero hnz pre Forest.empty
    [] [] [] [] invpre List.nodup_nil rfl (List.Perm.refl _)
  rw [hF] at hrun hcC
  -- update, then undo
  obtain ⟨ud, p', C', h1, h2, h3⟩ := update_then_undo_partial cr nonZero hnz F C d a tgC tgD hsC hsD r
    hN inv.ok.live_nodup hleaf hadds (List.nodup_append.1 hand).1 hnew hD hcD hC hcC
    (hrem (d, a, r) (by simp)) hn0
  have hFG : run Forest.empty ((pre ++ [(d, a, r)]).map C07.toBlock) = F.modify d a := by
    rw [List.map_append, run_append, hF]
    rfl
  refine ⟨tgD, hsD, ud, p', C', hcD, by rw [hFG]; exact h1, ?_, ?_⟩
  · -- the client run over the whole history
    have hrun' : C07.clientRun nonZero Forest.empty (⟨[], []⟩, []) pre =
        some (⟨tgC.map (E F.rows), hsC⟩, C) := hrun
    rw [client_run_append, hrun', hF]
    simp only [Option.bind_some, C07.clientRun, hcD, h1, h2]
  · intro htd
    obtain ⟨K, tg, hs, g1, g2, g3, g4⟩ := h3 htd
    refine ⟨K, tg, hs, g1.trans (hpermC.filter _), g2, g3, ?_⟩
    rw [hFG]
    exact g4

/-! ### the full statement is false of the code as it is: the two recorded defect classes -/

namespace Example
open UtreexoVerif.Props.C01 UtreexoVerif.Props.C01.Example UtreexoVerif.Props.C11.Example

/-- three slots `[dead, 1, 2]`: leaf 1 is the root of the (collapsed) tree on row 1, at `(1,0)`;
leaf 2 is the tree on row 0 -/
def Fw : Forest T := ⟨[none, some (.leaf 1), some (.leaf 2)]⟩

theorem Fw_live (x : T) (hx : x ∈ Fw.liveLeaves) : x ≠ (zero : T) ∧ ∀ a b : T, x ≠ ph a b := by
  have : x = .leaf 1 ∨ x = .leaf 2 := by simpa [Fw, Forest.liveLeaves] using hx
  rcases this with rfl | rfl <;> exact leafT _

theorem adds34 (x : T) (hx : x ∈ [T.leaf 3, T.leaf 4]) :
    x ≠ (zero : T) ∧ ∀ a b : T, x ≠ ph a b := by
  have : x = .leaf 3 ∨ x = .leaf 4 := by simpa using hx
  rcases this with rfl | rfl <;> exact leafT _

theorem adds34_new (x : T) (hx : x ∈ [T.leaf 3, T.leaf 4]) : x ∉ Fw.liveLeaves := by
  have h1 : x = .leaf 3 ∨ x = .leaf 4 := by simpa using hx
  intro hx'
  have h2 : x = .leaf 1 ∨ x = .leaf 2 := by simpa [Fw, Forest.liveLeaves] using hx'
  rcases h1 with rfl | rfl <;> rcases h2 with h | h <;> cases h

/-- **the full statement fails when the additions overwrite an empty root**
(`C08.undo.emptyRootsOverwritten`).  Accumulator `[dead, 1, 2]`; the client caches leaf 1 (at
`(1,0)`, position 4).  The block deletes leaf 2 (its tree becomes an all-zero root) and adds leaves
3 and 4: leaf 3 is merged over the empty root (`ToDestroy = [2]`) and the forest grows to 3 rows;
after the block leaf 1 is cached at `(1,0)` of the 3-row forest (position 8) with proof `[3]`.
`Proof.Undo` with the block's data returns the EMPTY proof: leaf 1 — live before and after the
block, not deleted by it — is lost (expected: leaf 1 at position 4). -/
theorem fails_emptyRootsOverwritten : ¬ C08_statement T := by
  intro h
  have hcD : Fw.canon [T.leaf 2] = some ([(0, 2)], []) := by decide +kernel
  have hcG : (Fw.modify [T.leaf 2] [T.leaf 3, .leaf 4]).canon [T.leaf 1] =
      some ([(1, 0)], [T.leaf 3]) := by decide +kernel
  obtain ⟨ud, hupd, _, _, _⟩ := stump_update_data' cr (T.leaf 0) (by intro h; cases h) Fw
    [T.leaf 2] [T.leaf 3, T.leaf 4] [(0, 2)] [] (by decide) (by decide) Fw_live adds34 (by decide)
    adds34_new (by decide) hcD
  have htd : ud.toDestroy = [2#64] := by
    have : ((C01b.stumpOf Fw).update (T.leaf 0) [T.leaf 2] [T.leaf 3, T.leaf 4]
        (encTargets Fw.rows [(0, 2)]) []).toOption.map (fun r => r.2.toDestroy) = some [2#64] := by
      decide +kernel
    rw [hupd] at this
    simpa [Out.toOption] using this
  obtain ⟨K, tg, hs, hperm, _, _, hrun⟩ := h (T.leaf 0) Fw [T.leaf 1] [T.leaf 2] [T.leaf 3, .leaf 4]
    [(1, 0)] [(0, 2)] [T.leaf 3] [] _ ud cr (by intro h; cases h) (by decide) (by decide) Fw_live
    adds34 (by decide) (fun x hx hx' => absurd hx' (adds34_new x hx)) (by decide) hcD (by decide)
    hcG hupd
  rw [htd] at hrun
  have hval : proofUndoOld (H := T)
      ⟨[((1, 0) : Pos)].map (E (Fw.modify [T.leaf 2] [T.leaf 3, .leaf 4]).rows), [T.leaf 3]⟩
      (BitVec.ofNat 64 [T.leaf 3, T.leaf 4].length)
      (BitVec.ofNat 64 (Fw.modify [T.leaf 2] [T.leaf 3, .leaf 4]).numLeaves)
      (encTargets Fw.rows [(0, 2)]) [T.leaf 2] [T.leaf 1] [2#64] (encTargets Fw.rows [(0, 2)]) [] =
      .ok (⟨[], []⟩, []) := by decide +kernel
  rw [hval] at hrun
  injection hrun with hrun
  have hK : K = [] := (Prod.mk.inj hrun).2.symm
  subst hK
  have hmem : T.leaf 1 ∈ expectedUndo [T.leaf 1] [T.leaf 3, T.leaf 4] := by decide
  have := hperm.mem_iff.2 hmem
  cases this

/-- **the full statement fails when the undo leads back to the empty accumulator**
(`C08.undo.toEmpty`).  Empty accumulator; the block adds leaf 1, which the client caches (position
0, empty proof).  `Proof.Undo` keeps leaf 1 cached at position 0 although the undone block added
it (expected: the empty proof; the result does not verify against the empty verifier state). -/
theorem fails_toEmpty : ¬ C08_statement T := by
  intro h
  have hcD : (Forest.empty : Forest T).canon [] = some ([], []) := rfl
  have hcG : ((Forest.empty : Forest T).modify [] [T.leaf 1]).canon [T.leaf 1] =
      some ([(0, 0)], []) := by decide +kernel
  have hadd : ∀ x ∈ [T.leaf 1], x ≠ (zero : T) ∧ ∀ a b : T, x ≠ ph a b := by
    intro x hx
    have : x = .leaf 1 := by simpa using hx
    subst this
    exact leafT _
  obtain ⟨ud, hupd, _, _, _⟩ := stump_update_data' cr (T.leaf 0) (by intro h; cases h)
    (Forest.empty : Forest T) [] [T.leaf 1] [] [] (by decide) (by decide)
    (fun x hx => by cases hx) hadd (by decide) (fun x _ hx => by cases hx) (by decide) hcD
  have htd : ud.toDestroy = [] := by
    have : ((C01b.stumpOf (Forest.empty : Forest T)).update (T.leaf 0) [] [T.leaf 1]
        (encTargets (Forest.empty : Forest T).rows []) []).toOption.map (fun r => r.2.toDestroy) =
        some [] := by decide +kernel
    rw [hupd] at this
    simpa [Out.toOption] using this
  obtain ⟨K, tg, hs, hperm, _, _, hrun⟩ := h (T.leaf 0) (Forest.empty : Forest T) [T.leaf 1] []
    [T.leaf 1] [(0, 0)] [] [] [] _ ud cr (by intro h; cases h) (by decide) (by decide)
    (fun x hx => by cases hx) hadd (by decide) (fun x _ hx => by cases hx) (by decide) hcD
    (by decide) hcG hupd
  rw [htd] at hrun
  have hval : proofUndoOld (H := T)
      ⟨[((0, 0) : Pos)].map (E ((Forest.empty : Forest T).modify [] [T.leaf 1]).rows), []⟩
      (BitVec.ofNat 64 [T.leaf 1].length)
      (BitVec.ofNat 64 ((Forest.empty : Forest T).modify [] [T.leaf 1]).numLeaves)
      (encTargets (Forest.empty : Forest T).rows []) [] [T.leaf 1] []
      (encTargets (Forest.empty : Forest T).rows []) [] =
      .ok (⟨[0#64], []⟩, [T.leaf 1]) := by decide +kernel
  rw [hval] at hrun
  injection hrun with hrun
  have hK : K = [T.leaf 1] := (Prod.mk.inj hrun).2.symm
  subst hK
  have hnil : expectedUndo [T.leaf 1] [T.leaf 1] = [] := by decide
  rw [hnil] at hperm
  have := hperm.length_eq
  simp at this

/-! ### non-vacuity: a block outside the two classes; the model simply evaluated -/

/-- four live leaves `1 2 3 4` (one tree, 2 rows).  The block deletes leaf 2 (leaf 1 moves up to
`(1,0)`) and adds leaves 5 and 6 (a new tree on row 1; the forest grows to 3 rows; no empty root
is involved: `ToDestroy = ∅`) -/
def Fv : Forest T := ⟨[some (.leaf 1), some (.leaf 2), some (.leaf 3), some (.leaf 4)]⟩

theorem Fv_live (x : T) (hx : x ∈ Fv.liveLeaves) : x ≠ (zero : T) ∧ ∀ a b : T, x ≠ ph a b := by
  have : x = .leaf 1 ∨ x = .leaf 2 ∨ x = .leaf 3 ∨ x = .leaf 4 := by
    simpa [Fv, Forest.liveLeaves] using hx
  rcases this with rfl | rfl | rfl | rfl <;> exact leafT _

theorem adds56 (x : T) (hx : x ∈ [T.leaf 5, T.leaf 6]) :
    x ≠ (zero : T) ∧ ∀ a b : T, x ≠ ph a b := by
  have : x = .leaf 5 ∨ x = .leaf 6 := by simpa using hx
  rcases this with rfl | rfl <;> exact leafT _

theorem adds56_new (x : T) (hx : x ∈ [T.leaf 5, T.leaf 6]) : x ∉ Fv.liveLeaves := by
  have h1 : x = .leaf 5 ∨ x = .leaf 6 := by simpa using hx
  intro hx'
  have h2 : x = .leaf 1 ∨ x = .leaf 2 ∨ x = .leaf 3 ∨ x = .leaf 4 := by
    simpa [Fv, Forest.liveLeaves] using hx'
  rcases h1 with rfl | rfl <;> rcases h2 with h | h | h | h <;> cases h

theorem canonDv : Fv.canon [T.leaf 2] = some ([(0, 1)], [T.leaf 1, .node (.leaf 3) (.leaf 4)]) := by
  decide +kernel

/-- after the block the client caches leaves 6, 1, 3 (requested in that order) -/
theorem canonGv : (Fv.modify [T.leaf 2] [T.leaf 5, .leaf 6]).canon [T.leaf 6, .leaf 1, .leaf 3] =
    some ([(0, 5), (1, 0), (0, 2)], [T.leaf 4, .leaf 5]) := by decide +kernel

/-- **`C08_partial` applies**: with the update data of `Stump.Update` (`ToDestroy = ∅`) the undo
returns the canonical proof, before the block, of a permutation of `[1, 3]` -/
example : ∃ (s' : Stump T) (ud : UpdateData T) (K : List T) (tg : List Pos) (hs : List T),
    (C01b.stumpOf Fv).update (T.leaf 0) [T.leaf 2] [T.leaf 5, .leaf 6]
      (encTargets Fv.rows [(0, 1)]) [T.leaf 1, .node (.leaf 3) (.leaf 4)] = .ok (s', ud) ∧
    ud.toDestroy = [] ∧
    K.Perm (expectedUndo [T.leaf 6, .leaf 1, .leaf 3] [T.leaf 5, .leaf 6]) ∧
    Fv.canon K = some (tg, hs) ∧ tg.Pairwise Sorted.PLt ∧
    proofUndoOld ⟨[((0, 5) : Pos), (1, 0), (0, 2)].map (E (Fv.modify [T.leaf 2] [T.leaf 5, .leaf 6]).rows),
        [T.leaf 4, .leaf 5]⟩ (BitVec.ofNat 64 [T.leaf 5, T.leaf 6].length)
        (BitVec.ofNat 64 (Fv.modify [T.leaf 2] [T.leaf 5, .leaf 6]).numLeaves)
        (encTargets Fv.rows [(0, 1)]) [T.leaf 2] [T.leaf 6, .leaf 1, .leaf 3] ud.toDestroy
        (encTargets Fv.rows [(0, 1)]) [T.leaf 1, .node (.leaf 3) (.leaf 4)] =
      .ok (⟨tg.map (E Fv.rows), hs⟩, K) := by
  obtain ⟨ud, hupd, _, _, _⟩ := stump_update_data' cr (T.leaf 0) (by intro h; cases h) Fv
    [T.leaf 2] [T.leaf 5, T.leaf 6] [(0, 1)] [T.leaf 1, .node (.leaf 3) (.leaf 4)] (by decide)
    (by decide) Fv_live adds56 (by decide) adds56_new (by decide) canonDv
  have htd : ud.toDestroy = [] := by
    have : ((C01b.stumpOf Fv).update (T.leaf 0) [T.leaf 2] [T.leaf 5, T.leaf 6]
        (encTargets Fv.rows [(0, 1)]) [T.leaf 1, .node (.leaf 3) (.leaf 4)]).toOption.map
        (fun r => r.2.toDestroy) = some [] := by decide +kernel
    rw [hupd] at this
    simpa [Out.toOption] using this
  obtain ⟨K, tg, hs, g1, g2, g3, g4⟩ := C08_partial (T.leaf 0) Fv [T.leaf 6, .leaf 1, .leaf 3]
    [T.leaf 2] [T.leaf 5, .leaf 6] _ [(0, 1)] _ _ _ ud cr (by intro h; cases h) (by decide)
    (by decide) Fv_live adds56 (by decide) (fun x hx hx' => absurd hx' (adds56_new x hx))
    (by decide) canonDv (by decide) canonGv hupd htd (by decide)
  exact ⟨_, ud, K, tg, hs, hupd, htd, g1, g2, g3, g4⟩

/-- the model, simply run: the client ends with leaf 1 at position 0 and leaf 3 at position 2 of
the 2-row forest, with the proof `[2, 4]` — the hash of the deleted leaf 2 is re-inserted … -/
example : proofUndoOld (H := T) ⟨[5#64, 8#64, 2#64], [T.leaf 4, .leaf 5]⟩ 2#64 6#64 [1#64] [T.leaf 2]
    [T.leaf 6, .leaf 1, .leaf 3] [] [1#64] [T.leaf 1, .node (.leaf 3) (.leaf 4)] =
    .ok (⟨[0#64, 2#64], [T.leaf 2, .leaf 4]⟩, [T.leaf 1, .leaf 3]) := by decide +kernel

/-- … which is the canonical proof of those leaves before the block -/
example : Fv.canon [T.leaf 1, .leaf 3] = some ([(0, 0), (0, 2)], [T.leaf 2, .leaf 4]) := by
  decide +kernel

/-- the clauses of the property text on the instance -/
example : ∀ x, x ∈ [T.leaf 1, T.leaf 3] ↔
    x ∈ [T.leaf 6, T.leaf 1, T.leaf 3] ∧ x ∈ Fv.liveLeaves ∧ x ∉ [T.leaf 2] :=
  undone_exactly (fun x hx hx' => absurd hx' (adds56_new x hx))
    (fun x hx => by
      have : x = .leaf 6 ∨ x = .leaf 1 ∨ x = .leaf 3 := by simpa using hx
      rcases this with rfl | rfl | rfl <;> decide)
    (List.Perm.refl _)

/-- `undone_proof_verifies` applies: the undone proof verifies against the pre-block roots -/
example : verify (BitVec.ofNat 64 Fv.numLeaves) Fv.roots [T.leaf 1, .leaf 3]
    ([((0, 0) : Pos), (0, 2)].map (E Fv.rows)) [T.leaf 2, .leaf 4] =
    .ok (touchedIdx Fv.numLeaves [(0, 0), (0, 2)]) :=
  undone_proof_verifies cr.toNZ (by decide) (fun l hl => (Fv_live l hl).1) (by decide +kernel)
    (by simp [Sorted.PLt])

/-- level 1, `proofUndoAdd_canonical` applies to the forest after the deletion -/
example : ∃ K tgK hsK, K.Perm (expectedUndo [T.leaf 6, .leaf 1, .leaf 3] [T.leaf 5, .leaf 6]) ∧
    (Fv.delLeaves [T.leaf 2]).canon K = some (tgK, hsK) ∧ tgK.Pairwise Sorted.PLt ∧
    proofUndoAddOld ⟨[((0, 5) : Pos), (1, 0), (0, 2)].map
        (E ((Fv.delLeaves [T.leaf 2]).addMany [T.leaf 5, .leaf 6]).rows), [T.leaf 4, .leaf 5]⟩
        (BitVec.ofNat 64 [T.leaf 5, T.leaf 6].length)
        (BitVec.ofNat 64 ((Fv.delLeaves [T.leaf 2]).addMany [T.leaf 5, .leaf 6]).numLeaves)
        [T.leaf 6, .leaf 1, .leaf 3] [] =
      .ok (⟨tgK.map (E (Fv.delLeaves [T.leaf 2]).rows), hsK⟩, K) := by
  obtain ⟨g1, g2⟩ := addMany_delLeaves_ok (dels := [T.leaf 2]) (by decide : Fv.liveLeaves.Nodup)
    Fv_live adds56 (by decide) (fun x hx hx' => absurd hx' (adds56_new x hx))
  refine proofUndoAdd_canonical cr.toNZ (by decide) g1 g2 ?_ (by decide) (by decide) canonGv
  refine ⟨trivial, ?_⟩
  intro h
  match h with
  | 0 => decide
  | 1 => decide
  | 2 => decide
  | h + 3 =>
    have : (4 : Nat).testBit (h + 3) = false :=
      Nat.testBit_lt_two_pow (Nat.lt_of_lt_of_le (by decide) (Nat.pow_le_pow_right (by decide)
        (Nat.le_add_left 3 h)))
    simp [Fv, Forest.delLeaves, this]

/-- the model of level 1, simply run: leaf 6 (added) is dropped, the positions are re-encoded for
2 rows: leaf 3 at `(0,2) = 2`, leaf 1 at `(1,0) = 4`, proof `[4]` -/
example : proofUndoAddOld (H := T) ⟨[5#64, 8#64, 2#64], [T.leaf 4, .leaf 5]⟩ 2#64 6#64
    [T.leaf 6, .leaf 1, .leaf 3] [] = .ok (⟨[2#64, 4#64], [T.leaf 4]⟩, [T.leaf 3, .leaf 1]) := by
  decide +kernel

/-- level 2, `proofUndoDel_canonical` applies -/
example : ∃ K' tg hs, K'.Perm [T.leaf 3, .leaf 1] ∧ Fv.canon K' = some (tg, hs) ∧
    tg.Pairwise Sorted.PLt ∧
    proofUndoDel ⟨[((0, 2) : Pos), (1, 0)].map (E Fv.rows), [T.leaf 4]⟩
        ([((0, 1) : Pos)].map (E Fv.rows)) [T.leaf 2] [T.leaf 3, .leaf 1]
        ([((0, 1) : Pos)].map (E Fv.rows)) [T.leaf 1, .node (.leaf 3) (.leaf 4)]
        (BitVec.ofNat 64 Fv.numLeaves) = .ok (⟨tg.map (E Fv.rows), hs⟩, K') :=
  proofUndoDel_canonical (by decide) cr.nonzero (fun l hl => (Fv_live l hl).1) (by decide)
    (by decide) canonDv (by decide +kernel) (by simp [Sorted.PLt])

/-- the model of level 2, simply run: leaf 1 moves back from `(1,0) = 4` to `(0,0) = 0`; the hash
of the deleted leaf 2 becomes a proof hash -/
example : proofUndoDel (H := T) ⟨[2#64, 4#64], [T.leaf 4]⟩ [1#64] [T.leaf 2] [T.leaf 3, .leaf 1]
    [1#64] [T.leaf 1, .node (.leaf 3) (.leaf 4)] 4#64 =
    .ok (⟨[0#64, 2#64], [T.leaf 2, .leaf 4]⟩, [T.leaf 1, .leaf 3]) := by decide +kernel

/-- `update_then_undo_partial` applies: the client holds leaves 1 and 3, the block deletes leaf 2
and adds 5, 6 (remember index 1, leaf 6) -/
example : ∃ (ud : UpdateData T) (p' : CProof T) (C' : List T),
    (C01b.stumpOf Fv).update (T.leaf 0) [T.leaf 2] [T.leaf 5, .leaf 6]
        (encTargets Fv.rows [(0, 1)]) [T.leaf 1, .node (.leaf 3) (.leaf 4)] =
      .ok (C01b.stumpOf (Fv.modify [T.leaf 2] [T.leaf 5, .leaf 6]), ud) ∧
    proofUpdate ⟨[((0, 0) : Pos), (0, 2)].map (E Fv.rows), [T.leaf 2, .leaf 4]⟩ [T.leaf 1, .leaf 3]
        [T.leaf 5, .leaf 6] (encTargets Fv.rows [(0, 1)]) [1] (C07.toM ud) = .ok (p', C') ∧
    (ud.toDestroy = [] →
      ∃ K tg hs, K.Perm ([T.leaf 1, T.leaf 3].filter (fun x => decide (x ∉ [T.leaf 2]))) ∧
        Fv.canon K = some (tg, hs) ∧ tg.Pairwise Sorted.PLt ∧
        proofUndoOld p' (BitVec.ofNat 64 [T.leaf 5, T.leaf 6].length)
            (BitVec.ofNat 64 (Fv.modify [T.leaf 2] [T.leaf 5, .leaf 6]).numLeaves)
            (encTargets Fv.rows [(0, 1)]) [T.leaf 2] C' ud.toDestroy
            (encTargets Fv.rows [(0, 1)]) [T.leaf 1, .node (.leaf 3) (.leaf 4)] =
          .ok (⟨tg.map (E Fv.rows), hs⟩, K)) :=
  update_then_undo_partial cr (T.leaf 0) (by intro h; cases h) Fv [T.leaf 1, .leaf 3] [T.leaf 2]
    [T.leaf 5, .leaf 6] _ _ _ _ [1] (by decide) (by decide) Fv_live adds56 (by decide)
    (fun x hx hx' => absurd hx' (adds56_new x hx)) (by decide) canonDv (by decide)
    (by decide +kernel) (by decide) (by decide)

/-- `client_history_undo_last_partial` applies to the three-block history of `Props/C07.lean`
(block 3 deletes leaves 1 and 4 and adds leaf 6; the accumulator before it holds 5 slots) -/
example : ∃ (tgD : List Pos) (hsD : List T) (ud : UpdateData T) (p' : CProof T) (C' : List T),
    (run Forest.empty ((C07.Example.histR.take 2).map C07.toBlock)).canon [T.leaf 1, .leaf 4] =
      some (tgD, hsD) ∧
    (C01b.stumpOf (run Forest.empty ((C07.Example.histR.take 2).map C07.toBlock))).update (T.leaf 0)
        [T.leaf 1, .leaf 4] [T.leaf 6]
        (encTargets (run Forest.empty ((C07.Example.histR.take 2).map C07.toBlock)).rows tgD) hsD =
      .ok (C01b.stumpOf (run Forest.empty ((C07.Example.histR.take 2 ++
        [([T.leaf 1, .leaf 4], [T.leaf 6], [])]).map C07.toBlock)), ud) ∧
    C07.clientRun (T.leaf 0) Forest.empty (⟨[], []⟩, [])
      (C07.Example.histR.take 2 ++ [([T.leaf 1, .leaf 4], [T.leaf 6], [])]) = some (p', C') ∧
    (ud.toDestroy = [] →
      ∃ K tg hs, K.Perm ((C07.expectedRun [] (C07.Example.histR.take 2)).filter
          (fun x => decide (x ∉ [T.leaf 1, T.leaf 4]))) ∧
        (run Forest.empty ((C07.Example.histR.take 2).map C07.toBlock)).canon K = some (tg, hs) ∧
        tg.Pairwise Sorted.PLt ∧
        proofUndoOld p' (BitVec.ofNat 64 [T.leaf 6].length)
            (BitVec.ofNat 64 (run Forest.empty ((C07.Example.histR.take 2 ++
              [([T.leaf 1, .leaf 4], [T.leaf 6], [])]).map C07.toBlock)).numLeaves)
            (encTargets (run Forest.empty ((C07.Example.histR.take 2).map C07.toBlock)).rows tgD)
            [T.leaf 1, .leaf 4] C' ud.toDestroy
            (encTargets (run Forest.empty ((C07.Example.histR.take 2).map C07.toBlock)).rows tgD) hsD =
          .ok (⟨tg.map (E (run Forest.empty ((C07.Example.histR.take 2).map C07.toBlock)).rows), hs⟩,
            K)) :=
  client_history_undo_last_partial cr (T.leaf 0) (by intro h; cases h) (C07.Example.histR.take 2)
    [T.leaf 1, .leaf 4] [T.leaf 6] []
    (by
      have : (C07.Example.histR.take 2 ++ [([T.leaf 1, .leaf 4], [T.leaf 6], [])]).map C07.toBlock =
          histC := rfl
      rw [this]
      exact histC_valid)
    (by
      intro b hb
      have : b = ([], [T.leaf 1, .leaf 2, .leaf 3], [1]) ∨ b = ([T.leaf 3], [T.leaf 4, .leaf 5], [0, 1]) ∨
          b = ([T.leaf 1, .leaf 4], [T.leaf 6], []) := by
        simpa [C07.Example.histR] using hb
      rcases this with rfl | rfl | rfl <;> decide)
    (by decide)

/-- on that history the model, simply run: the client holds leaves 2, 5, 4 after two blocks; after
the third block it holds 5 and 2; undoing the third block (`ToDestroy = ∅`) it holds 2 and 5 again
(leaf 4, deleted by the block, is not restored — as documented) with their canonical proof in the
5-slot accumulator `[1, 2, dead, 4, 5]` -/
example : proofUndoOld (H := T) ⟨[4#64, 12#64], [T.leaf 6]⟩ 1#64 6#64 [0#64, 9#64] [T.leaf 1, .leaf 4]
    [T.leaf 5, .leaf 2] [] [0#64, 9#64] [T.leaf 2] =
    .ok (⟨[1#64, 4#64], [T.leaf 1, .leaf 4]⟩, [T.leaf 2, .leaf 5]) := by decide +kernel

example : (run Forest.empty ((C07.Example.histR.take 2).map C07.toBlock)).canon [T.leaf 2, .leaf 5] =
    some ([(0, 1), (0, 4)], [T.leaf 1, .leaf 4]) := by decide +kernel

end Example

/-- **C08 full statement is false (class `C08.undo.emptyRootsOverwritten`)**, on the term-algebra
hash; see `Example.fails_emptyRootsOverwritten` for the witness -/
theorem C08_fails_emptyRootsOverwritten : ¬ C08_statement C01.Example.T :=
  Example.fails_emptyRootsOverwritten

/-- **C08 full statement is false (class `C08.undo.toEmpty`)**, on the term-algebra hash; see
`Example.fails_toEmpty` for the witness -/
theorem C08_fails_toEmpty : ¬ C08_statement C01.Example.T := Example.fails_toEmpty

end
end UtreexoVerif.Props.C08
