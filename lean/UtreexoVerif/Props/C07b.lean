/-
  C07 (model level) — totality of the transliterated `Proof.Update`.

  `Proof.Update` never returns an error in Go (`return cachedHashes, nil`) and contains no
  unbounded loop.  What can go wrong is an index expression on a `hashAndPos` whose two slices
  have different lengths (built unchecked from caller data by `toHashAndPos`).  The model is
  exact where every `toHashAndPos` call receives slices of equal length and marks the
  boundary of that domain by `.panic` (beyond it Go panics on some index expressions and pads
  with zero values on others; not modelled).  Theorems, for ALL inputs:

  * `proofUpdate_no_err_no_hang`: the model never yields `.err` or `.hang`;
  * `updateProofRemove_total`: with one cached hash per target and one proof hash per proof
    position ("consistent lengths") the deletion half stays inside the domain and hands over
    as many hashes as targets;
  * `proofUpdate_total`: the whole update stays inside the domain (returns `.ok`) provided
    the proof produced by the deletion half again has one hash per proof position of the
    targets it produced — which is what C07 (the update of a canonical proof is canonical)
    gives for honest block data; it can fail for update data that does not belong to the
    block (e.g. `NewDelHash` empty at a position the cached proof still needs).
-/
import UtreexoVerif.Model.ProofUpdate

namespace UtreexoVerif.Props.C07b
open UtreexoVerif Model Hasher

section
variable {H : Type} [DecidableEq H] [Hasher H]

omit [DecidableEq H] [Hasher H] in
theorem toHashAndPos_cases (ts : List U64) (hs : List H) :
    (ts.length = hs.length ∧ toHashAndPos ts hs = .ok (sortHP (ts.zip hs))) ∨
    (ts.length ≠ hs.length ∧ toHashAndPos ts hs = .panic) := by
  unfold toHashAndPos
  by_cases h : ts.length = hs.length
  · exact Or.inl ⟨h, by simp [h]⟩
  · exact Or.inr ⟨h, by simp [h]⟩

/-- one cached hash per target, one proof hash per proof position -/
def Consistent (n : U64) (p : CProof H) (cachedHashes : List H) : Prop :=
  cachedHashes.length = p.targets.length ∧
  p.proof.length = (ProofPositions (sortU64 p.targets) n (TreeRows n)).1.length

theorem updateProofRemove_cases (p : CProof H) (blockTargets : List U64) (cachedHashes : List H)
    (updated : HP H) (n : U64) :
    (∃ r, updateProofRemove p blockTargets cachedHashes updated n = .ok r ∧ r.2.length = r.1.targets.length) ∨
    updateProofRemove p blockTargets cachedHashes updated n = .panic := by
  unfold updateProofRemove
  simp only [bind, Out.bind]
  rcases toHashAndPos_cases p.targets cachedHashes with ⟨_, h1⟩ | ⟨_, h1⟩
  · rw [h1]
    simp only
    rcases toHashAndPos_cases (ProofPositions (sortU64 p.targets) n (TreeRows n)).1 p.proof with ⟨_, h2⟩ | ⟨_, h2⟩
    · rw [h2]
      refine Or.inl ⟨_, rfl, ?_⟩
      simp [HP.positions, HP.hashes]
    · rw [h2]; exact Or.inr rfl
  · rw [h1]; exact Or.inr rfl

/-- the deletion half of `Proof.Update` is total on inputs of consistent lengths -/
theorem updateProofRemove_total (p : CProof H) (blockTargets : List U64) (cachedHashes : List H)
    (updated : HP H) (n : U64) (hc : Consistent n p cachedHashes) :
    ∃ r, updateProofRemove p blockTargets cachedHashes updated n = .ok r ∧ r.2.length = r.1.targets.length := by
  unfold updateProofRemove
  simp only [bind, Out.bind]
  rcases toHashAndPos_cases p.targets cachedHashes with ⟨_, h1⟩ | ⟨hne, _⟩
  · rw [h1]
    simp only
    rcases toHashAndPos_cases (ProofPositions (sortU64 p.targets) n (TreeRows n)).1 p.proof with ⟨_, h2⟩ | ⟨hne, _⟩
    · rw [h2]
      exact ⟨_, rfl, by simp [HP.positions, HP.hashes]⟩
    · exact absurd hc.2.symm hne
  · exact absurd hc.1.symm hne

theorem updateProofAdd_cases (p : CProof H) (adds cachedDelHashes : List H) (remembers : List Nat)
    (newNodes : HP H) (n : U64) (toDestroy : List U64) :
    (∃ r, updateProofAdd p adds cachedDelHashes remembers newNodes n toDestroy = .ok r) ∨
    updateProofAdd p adds cachedDelHashes remembers newNodes n toDestroy = .panic := by
  unfold updateProofAdd
  simp only [bind, Out.bind]
  rcases toHashAndPos_cases p.targets cachedDelHashes with ⟨_, h1⟩ | ⟨_, h1⟩
  · rw [h1]
    simp only
    rcases toHashAndPos_cases (ProofPositions (sortHP (p.targets.zip cachedDelHashes)).positions n (TreeRows n)).1 p.proof
      with ⟨_, h2⟩ | ⟨_, h2⟩
    · rw [h2]; exact Or.inl ⟨_, rfl⟩
    · rw [h2]; exact Or.inr rfl
  · rw [h1]; exact Or.inr rfl

/-- the addition half succeeds exactly on consistent lengths -/
theorem updateProofAdd_total (p : CProof H) (adds cachedDelHashes : List H) (remembers : List Nat)
    (newNodes : HP H) (n : U64) (toDestroy : List U64)
    (h1 : p.targets.length = cachedDelHashes.length)
    (h2 : (ProofPositions (sortHP (p.targets.zip cachedDelHashes)).positions n (TreeRows n)).1.length = p.proof.length) :
    ∃ r, updateProofAdd p adds cachedDelHashes remembers newNodes n toDestroy = .ok r := by
  unfold updateProofAdd
  simp only [bind, Out.bind]
  simp only [toHashAndPos, h1, h2, if_true]
  exact ⟨_, rfl⟩

/-- `Proof.Update` (model) never returns an error and never spins — for ALL inputs -/
theorem proofUpdate_no_err_no_hang (p : CProof H) (cachedHashes addHashes : List H) (blockTargets : List U64)
    (remembers : List Nat) (ud : UpdateDataM H) :
    proofUpdate p cachedHashes addHashes blockTargets remembers ud ≠ .err ∧
    proofUpdate p cachedHashes addHashes blockTargets remembers ud ≠ .hang := by
  unfold proofUpdate
  simp only [bind, Out.bind]
  rcases updateProofRemove_cases p blockTargets cachedHashes ud.newDel ud.prevNumLeaves with ⟨r, h, _⟩ | h
  · rw [h]
    simp only
    rcases updateProofAdd_cases r.1 addHashes r.2 remembers ud.newAdd ud.prevNumLeaves ud.toDestroy with ⟨r2, h2⟩ | h2
    · rw [h2]; exact ⟨by simp, by simp⟩
    · rw [h2]; exact ⟨by simp, by simp⟩
  · rw [h]; exact ⟨by simp, by simp⟩

/-- `Proof.Update` (model) is total on a cached proof of consistent lengths whose deletion half
again produces a proof of consistent lengths -/
theorem proofUpdate_total (p : CProof H) (cachedHashes addHashes : List H) (blockTargets : List U64)
    (remembers : List Nat) (ud : UpdateDataM H) (hc : Consistent ud.prevNumLeaves p cachedHashes)
    (hmid : ∀ r, updateProofRemove p blockTargets cachedHashes ud.newDel ud.prevNumLeaves = .ok r →
      (ProofPositions (sortHP (r.1.targets.zip r.2)).positions ud.prevNumLeaves (TreeRows ud.prevNumLeaves)).1.length
        = r.1.proof.length) :
    ∃ r, proofUpdate p cachedHashes addHashes blockTargets remembers ud = .ok r := by
  obtain ⟨r, h, hl⟩ := updateProofRemove_total p blockTargets cachedHashes ud.newDel ud.prevNumLeaves hc
  unfold proofUpdate
  simp only [bind, Out.bind]
  rw [h]
  exact updateProofAdd_total r.1 addHashes r.2 remembers ud.newAdd ud.prevNumLeaves ud.toDestroy hl.symm (hmid r h)

end

/-! ## Non-vacuity -/

section examples

inductive T where
  | leaf (n : Nat)
  | node (l r : T)
deriving DecidableEq, Repr

instance : Hasher T := ⟨T.node, T.leaf 0⟩

open T in
/-- 4 leaves `1 2 3 4`; the client caches leaf 1 (position 0, proof `[leaf 2, node 3 4]`); the
block deletes leaf 3 (position 2) and adds nothing: leaf 4 moves up to position 5. -/
example : proofUpdate (H := T) ⟨[0#64], [leaf 2, node (leaf 3) (leaf 4)]⟩ [leaf 1] [] [2#64] []
    { toDestroy := [], prevNumLeaves := 4#64,
      newDel := [(2#64, leaf 0), (5#64, leaf 4), (6#64, node (node (leaf 1) (leaf 2)) (leaf 4))], newAdd := [] } =
    .ok (⟨[0#64], [leaf 2, leaf 4]⟩, [leaf 1]) := by decide +kernel

open T in
example : Consistent (H := T) 4#64 ⟨[0#64], [leaf 2, node (leaf 3) (leaf 4)]⟩ [leaf 1] :=
  ⟨rfl, by decide +kernel⟩

end examples

end UtreexoVerif.Props.C07b
