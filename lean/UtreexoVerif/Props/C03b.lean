/-
  C03b — verification is sound *with respect to the specification forest*.

  `Props/C03.lean` proves soundness of the three verifiers against an abstract
  `ForestView`.  `Proofs/SpecView.lean` constructs that view from `Spec.Forest`
  (`specView`), so here the soundness theorems are restated with no abstract interface left:
  whatever `Verify` accepts against the roots of a specification forest `F` is a true claim
  about the nodes of `F`.

  Hypotheses:
  * `CR H`            — collision-freeness of the hash (hypothesis, never an axiom);
  * `LeafOK F`        — no moved-up live leaf carries a hash of the form `ph a b` with `a`, `b`
                        non-zero (`Proofs/SpecNodes.lean`; implied by the same condition on all
                        live leaves, `LeafOK.of_liveLeaves`);
  * `F.numLeaves < 2^63` — the forest fits Go's `uint64` position arithmetic (`TreeRows ≤ 63`);
  * the claimed hashes are non-zero.
-/
import UtreexoVerif.Props.C03
import UtreexoVerif.Proofs.SpecView

namespace UtreexoVerif.Props.C03b
open UtreexoVerif Model Hasher Spec
open UtreexoVerif.Proofs UtreexoVerif.Proofs.SpecNodes UtreexoVerif.Proofs.SpecView

section
variable (H : Type) [DecidableEq H] [Hasher H]

/-- what an accepted claim `(position, hash)` means in the specification forest: the value is
the encoding of a valid `(row, offset)` and the node there has that hash -/
def TrueClaim {H : Type} [DecidableEq H] [Hasher H] (F : Forest H) (x : U64 × H) : Prop :=
  ∃ r o, r ≤ F.rows ∧ o < 2 ^ (F.rows - r) ∧ x.1 = encU F.rows r o ∧ F.nodeAt (r, o) = some x.2

/-- stand-alone `Verify` against the roots of a specification forest -/
def verify_sound_spec_statement : Prop :=
  ∀ (F : Forest H), CR H → LeafOK F → F.numLeaves < 2 ^ 63 →
  ∀ (hs : List H) (ts : List U64) (ps : List H) (idx : List Nat),
    (∀ h ∈ hs, h ≠ (zero : H)) →
    verify (BitVec.ofNat 64 F.numLeaves) F.roots hs ts ps = .ok idx →
    ∀ x ∈ ts.zip hs, TrueClaim F x

/-- `Pollard.Verify` -/
def pollardVerify_sound_spec_statement : Prop :=
  ∀ (F : Forest H), CR H → LeafOK F → F.numLeaves < 2 ^ 63 →
  ∀ (hs : List H) (ts : List U64) (ps : List H),
    (∀ h ∈ hs, h ≠ (zero : H)) →
    pollardVerify (BitVec.ofNat 64 F.numLeaves) F.roots hs ts ps = .ok () →
    ∀ x ∈ ts.zip hs, TrueClaim F x

/-- `MapPollard.verify` with `TotalRows = TreeRows` -/
def mapVerify_sound_spec_statement : Prop :=
  ∀ (F : Forest H), CR H → LeafOK F → F.numLeaves < 2 ^ 63 →
  ∀ (hs : List H) (ts : List U64) (ps : List H) (idx : List Nat),
    (∀ h ∈ hs, h ≠ (zero : H)) →
    mapVerify (BitVec.ofNat 64 F.numLeaves) (TreeRows (BitVec.ofNat 64 F.numLeaves)) F.roots
      hs ts ps = .ok idx →
    ∀ x ∈ ts.zip hs, TrueClaim F x

end

section
variable {H : Type} [DecidableEq H] [Hasher H]

theorem trueClaim_of_view {F : Forest H} (hF : LeafOK F) (hn : F.numLeaves < 2 ^ 63) (cr : CR H)
    {x : U64 × H} (h : (specView F hF hn cr).nodeAt x.1 = some x.2) : TrueClaim F x :=
  viewNodeAt_eq_some h

theorem verify_sound_spec_full : verify_sound_spec_statement H := by
  intro F cr hF hn hs ts ps idx hnz h x hx
  exact trueClaim_of_view hF hn cr
    (C03.verify_sound _ _ (specView F hF hn cr) cr hs ts ps idx hnz h x hx)

theorem pollardVerify_sound_spec_full : pollardVerify_sound_spec_statement H := by
  intro F cr hF hn hs ts ps hnz h x hx
  exact trueClaim_of_view hF hn cr
    (C03.pollardVerify_sound _ _ (specView F hF hn cr) cr hs ts ps hnz h x hx)

theorem mapVerify_sound_spec_full : mapVerify_sound_spec_statement H := by
  intro F cr hF hn hs ts ps idx hnz h x hx
  exact trueClaim_of_view hF hn cr
    (C03.mapVerify_sound _ _ (specView F hF hn cr) cr hs ts ps idx hnz h x hx)

/-- **`Verify` is sound for the specification forest**: every accepted `(target, hash)` pair
names a position `(r, o)` of `F` whose node has that hash. -/
theorem verify_sound_spec {F : Forest H} (cr : CR H) (hF : LeafOK F) (hn : F.numLeaves < 2 ^ 63)
    {hs : List H} {ts : List U64} {ps : List H} {idx : List Nat}
    (hnz : ∀ h ∈ hs, h ≠ (zero : H))
    (h : verify (BitVec.ofNat 64 F.numLeaves) F.roots hs ts ps = .ok idx) :
    ∀ x ∈ ts.zip hs, ∃ r o, x.1 = encU F.rows r o ∧ F.nodeAt (r, o) = some x.2 := by
  intro x hx
  obtain ⟨r, o, _, _, h1, h2⟩ := verify_sound_spec_full F cr hF hn hs ts ps idx hnz h x hx
  exact ⟨r, o, h1, h2⟩

theorem pollardVerify_sound_spec {F : Forest H} (cr : CR H) (hF : LeafOK F)
    (hn : F.numLeaves < 2 ^ 63) {hs : List H} {ts : List U64} {ps : List H}
    (hnz : ∀ h ∈ hs, h ≠ (zero : H))
    (h : pollardVerify (BitVec.ofNat 64 F.numLeaves) F.roots hs ts ps = .ok ()) :
    ∀ x ∈ ts.zip hs, ∃ r o, x.1 = encU F.rows r o ∧ F.nodeAt (r, o) = some x.2 := by
  intro x hx
  obtain ⟨r, o, _, _, h1, h2⟩ := pollardVerify_sound_spec_full F cr hF hn hs ts ps hnz h x hx
  exact ⟨r, o, h1, h2⟩

theorem mapVerify_sound_spec {F : Forest H} (cr : CR H) (hF : LeafOK F)
    (hn : F.numLeaves < 2 ^ 63) {hs : List H} {ts : List U64} {ps : List H} {idx : List Nat}
    (hnz : ∀ h ∈ hs, h ≠ (zero : H))
    (h : mapVerify (BitVec.ofNat 64 F.numLeaves) (TreeRows (BitVec.ofNat 64 F.numLeaves)) F.roots
      hs ts ps = .ok idx) :
    ∀ x ∈ ts.zip hs, ∃ r o, x.1 = encU F.rows r o ∧ F.nodeAt (r, o) = some x.2 := by
  intro x hx
  obtain ⟨r, o, _, _, h1, h2⟩ := mapVerify_sound_spec_full F cr hF hn hs ts ps idx hnz h x hx
  exact ⟨r, o, h1, h2⟩

/-- a claimed position determines the node: an accepted hash at `encU rows r o` for a valid
`(r, o)` is *the* hash of the node at `(r, o)` -/
theorem verify_sound_spec_at {F : Forest H} (cr : CR H) (hF : LeafOK F)
    (hn : F.numLeaves < 2 ^ 63) {hs : List H} {ts : List U64} {ps : List H} {idx : List Nat}
    (hnz : ∀ h ∈ hs, h ≠ (zero : H))
    (h : verify (BitVec.ofNat 64 F.numLeaves) F.roots hs ts ps = .ok idx)
    {r o : Nat} {c : H} (hr : r ≤ F.rows) (ho : o < 2 ^ (F.rows - r))
    (hx : (encU F.rows r o, c) ∈ ts.zip hs) : F.nodeAt (r, o) = some c := by
  have := C03.verify_sound _ _ (specView F hF hn cr) cr hs ts ps idx hnz h _ hx
  rwa [specView_nodeAt_encU F hF hn cr hr ho] at this

end

/-! ### non-vacuity

A five-slot forest over the free term algebra `C03.Example.T` in which leaf 1 has been
deleted: the tree on row 2 collapses (leaf 0 moves up to `(1, 0)`), the tree on row 0 is
leaf 4.

```
row 2:            (2,0) = 12
row 1:   (1,0) = 8: leaf 0      (1,1) = 9
row 0:                      (0,2) = 2: leaf 2   (0,3) = 3: leaf 3        (0,4) = 4: leaf 4
```
-/

namespace Example
open C03.Example

def F : Forest T := ⟨[some (.leaf 0), none, some (.leaf 2), some (.leaf 3), some (.leaf 4)]⟩

example : F.numLeaves = 5 ∧ F.rows = 3 := by decide

example : F.roots = [T.node (.leaf 0) (.node (.leaf 2) (.leaf 3)), .leaf 4] := by decide +kernel

theorem leafOK : LeafOK F := by
  apply LeafOK.of_liveLeaves
  intro l hl a b _ _ he
  have : l = .leaf 0 ∨ l = .leaf 2 ∨ l = .leaf 3 ∨ l = .leaf 4 := by
    simpa [F, Forest.liveLeaves] using hl
  rcases this with rfl | rfl | rfl | rfl <;> cases he

theorem small : F.numLeaves < 2 ^ 63 := by decide

/-- the moved-up leaf 0 (position 8 = `(1, 0)`) and leaf 2 (position 2) are proved together
with the single proof hash leaf 3; the model accepts and matches root 0 -/
theorem accepted :
    verify (BitVec.ofNat 64 F.numLeaves) F.roots [T.leaf 0, .leaf 2] [8#64, 2#64] [.leaf 3]
      = .ok [0] := by
  decide +kernel

/-- the same claim for leaf 0 at its *old* position 0 is rejected -/
example :
    verify (BitVec.ofNat 64 F.numLeaves) F.roots [T.leaf 0, .leaf 2] [0#64, 2#64] [.leaf 3]
      = .err := by
  decide +kernel

/-- `verify_sound_spec` applied to the accepted run -/
example : ∀ x ∈ [8#64, 2#64].zip [T.leaf 0, T.leaf 2],
    ∃ r o, x.1 = encU F.rows r o ∧ F.nodeAt (r, o) = some x.2 :=
  verify_sound_spec cr leafOK small
    (by intro h hh; simp at hh; rcases hh with rfl | rfl <;> (intro hz; cases hz)) accepted

/-- … and read off at the concrete positions -/
example : F.nodeAt (1, 0) = some (T.leaf 0) :=
  verify_sound_spec_at (F := F) cr leafOK small
    (by intro h hh; simp at hh; rcases hh with rfl | rfl <;> (intro hz; cases hz)) accepted
    (r := 1) (o := 0) (by decide) (by decide) (by decide)

example : F.nodeAt (0, 2) = some (T.leaf 2) :=
  verify_sound_spec_at (F := F) cr leafOK small
    (by intro h hh; simp at hh; rcases hh with rfl | rfl <;> (intro hz; cases hz)) accepted
    (r := 0) (o := 2) (by decide) (by decide) (by decide)

/-- the view of the example forest agrees with `nodeAt` on encoded positions and is empty on the
non-position `2^(rows+1) - 1 = 15` -/
example : (specView F leafOK small cr).nodeAt 9#64 = some (T.node (.leaf 2) (.leaf 3)) := by
  rw [specView_nodeAt]; decide +kernel

example : (specView F leafOK small cr).nodeAt 15#64 = none := by
  rw [specView_nodeAt]; decide +kernel

/-- `Pollard.Verify` and `MapPollard.verify` accept the same proof -/
example : pollardVerify (BitVec.ofNat 64 F.numLeaves) F.roots [T.leaf 0, .leaf 2] [8#64, 2#64]
    [.leaf 3] = .ok () := by
  decide +kernel

example : mapVerify (BitVec.ofNat 64 F.numLeaves) (TreeRows (BitVec.ofNat 64 F.numLeaves)) F.roots
    [T.leaf 0, .leaf 2] [8#64, 2#64] [.leaf 3] = .ok [0] := by
  decide +kernel

end Example

end UtreexoVerif.Props.C03b
