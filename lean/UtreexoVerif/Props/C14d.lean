/-
  C14 (specification level, end) — the full statements.

  With `Proofs/LeafPositions.lean` (`leaf_positions_PPHyp`: the sorted positions of distinct live
  leaves satisfy the hypotheses `PPHyp` of `proofPositions_spec` — nodes of the forest, strictly
  sorted, none an ancestor of another) the model-level refinements of `Props/C14b.lean` and
  `Props/C14c.lean` become statements about `Spec.Forest.canon`:

  * `C14_addProof`  : `C14_addProof_statement` exactly as written in `Props/C14.lean`: combining
                      the canonical proofs of two lists of live leaves (any request orders) gives
                      the canonical proof of the union, targets ascending, hashes parallel;
  * `C14_missing`   : `GetMissingPositions` = the canonical proof positions of the extra targets
                      that are neither held targets, nor held proof positions, nor computable
                      (`C14_missing_positions : C14_missing_statement'`), AND the proof assembled
                      from the held proof and the true hashes at the reported positions is the
                      canonical proof of the union, which `verify` accepts;
  * `C14_subset`    : `C14_subset_statement'`: `GetProofSubset` of a canonical proof (targets and
                      hashes in any parallel permutation) and duplicate-free wanted targets (any
                      order) returns the hashes of the wanted targets in the order of the request,
                      the wanted targets, and the canonical proof of exactly those leaves; an error
                      iff a wanted target is not covered.  Position-level form:
                      `getProofSubset_refines` (through `calc_generic`: the node list of
                      `calculateHashes` carries every path node of the big proof with its true
                      hash; every canonical proof position of the wanted targets is a path node
                      or a proof position of the big proof, `proofPositions_subset_cases`).

  Two of the three statements of `Props/C14.lean` are FALSE as written; the corrected statements
  are `C14_missing_statement'` (held and desired leaves duplicate-free) and
  `C14_subset_statement'` (the hypotheses of C02: no live leaf and no parent hash is the all-zero
  hash); the counterexamples are `C14_missing_statement_false` (a leaf desired twice is reported
  twice: `[3, 3]` instead of `[3]`, same in the Go code) and `C14_subset_statement_false` (a live
  leaf with the all-zero hash: `calculateHashes` rejects the zero proof hash, "Empty proof hash"
  in the Go code).
-/
import UtreexoVerif.Props.C14c
import UtreexoVerif.Props.C02
import UtreexoVerif.Proofs.LeafPositions

namespace UtreexoVerif.Props.C14
open UtreexoVerif Model Spec Spec.Forest Hasher Proofs Proofs.ProofOps Props.C16
open UtreexoVerif.Proofs.SpecNodes UtreexoVerif.Proofs.SpecSubs UtreexoVerif.Proofs.SpecPlan
open UtreexoVerif.Proofs.CalcGeo UtreexoVerif.Proofs.LeafPositions UtreexoVerif.Proofs.CalcPlan

section
set_option linter.unusedSectionVars false
variable {H : Type} [DecidableEq H] [Hasher H]

/-! ## bridging: `canon`, true hashes, order independence -/

/-- the hash of the node at a position (the all-zero hash where there is no node) -/
def trueHash (F : Forest H) (p : Pos) : H := (F.nodeAt p).getD zero

/-- the position `canon` assigns to a requested leaf -/
def posD (F : Forest H) (l : H) : Pos := (F.posOf l).getD (0, 0)

theorem encU_eq_encP (F : Forest H) : C14.encU F = encP F.rows := rfl

theorem trueHash_of_sub {F : Forest H} {h : Nat} {p : Pos} {t : CTree H} (s : SubAtT F h p t) :
    trueHash F p = t.hash := by
  unfold trueHash
  rw [s.nodeAt]
  rfl

theorem valid_of_sub {F : Forest H} {h : Nat} {p : Pos} {t : CTree H} (s : SubAtT F h p t) :
    ValidH F.rows p := s.inF.valid

theorem valid_of_tok {F : Forest H} {Tg : List Pos} (tok : TargetsOK F Tg) : ∀ p ∈ Tg, ValidH F.rows p := by
  intro p hp
  obtain ⟨h, l, s⟩ := tok p hp
  exact valid_of_sub s

theorem proofPositions_congr (F : Forest H) {t1 t2 : List Pos} (h : ∀ x, x ∈ t1 ↔ x ∈ t2) :
    F.proofPositions t1 = F.proofPositions t2 := by
  rw [proofPositions_eq, proofPositions_eq, C02.pathSet_congr F h]

theorem computable_congr (F : Forest H) {t1 t2 : List Pos} (h : ∀ x, x ∈ t1 ↔ x ∈ t2) :
    F.computable t1 = F.computable t2 := by
  unfold Forest.computable
  apply eq_of_ssorted (sortDedup_ssorted _) (sortDedup_ssorted _)
  intro a
  rw [Proofs.mem_sortDedup, Proofs.mem_sortDedup, List.mem_flatMap, List.mem_flatMap]
  constructor
  · rintro ⟨t, ht, hx⟩; exact ⟨t, (h t).1 ht, hx⟩
  · rintro ⟨t, ht, hx⟩; exact ⟨t, (h t).2 ht, hx⟩

/-- every canonical proof position of leaf targets is a node of the forest -/
theorem proofPositions_sub {F : Forest H} {Tg : List Pos} (tok : TargetsOK F Tg) :
    ∀ q ∈ F.proofPositions Tg, ∃ h s, SubAtT F h q s := by
  intro q hq
  rw [proofPositions_eq] at hq
  obtain ⟨c, hcm, rfl⟩ := List.mem_map.1 hq
  obtain ⟨hcP, hnp⟩ := List.mem_filter.1 hcm
  simp only [needsProof, Bool.and_eq_true, Bool.not_eq_eq_eq_not, Bool.not_true,
    decide_eq_false_iff_not] at hnp
  obtain ⟨h, t, s⟩ := pathSet_sub tok hcP
  obtain ⟨_, s', _, hsib⟩ := s.parent hnp.1
  exact ⟨h, s', hsib⟩

/-- `canon` in closed form -/
theorem canon_eq {F : Forest H} {L : List H} (hpos : ∀ l ∈ L, ∃ p, F.posOf l = some p) :
    F.canon L = some (L.map (posD F), (F.proofPositions (L.map (posD F))).map (trueHash F)) := by
  have tok : TargetsOK F (L.map (posD F)) := by
    intro t ht
    obtain ⟨l, hl, rfl⟩ := List.mem_map.1 ht
    obtain ⟨hh, s⟩ := posOf_getD_sub (hpos l hl)
    exact ⟨hh, l, s⟩
  have hnode : ∀ p ∈ F.proofPositions (L.map (posD F)), ∃ x, F.nodeAt p = some x := by
    intro p hp
    obtain ⟨h, s, hs⟩ := proofPositions_sub tok p hp
    exact ⟨_, hs.nodeAt⟩
  unfold Forest.canon
  rw [CanonTotal.mapM_of_forall_some F.posOf (0, 0) L hpos]
  simp only [bind, Option.bind]
  rw [show (List.map (fun a => (F.posOf a).getD (0, 0)) L) = L.map (posD F) from rfl,
    CanonTotal.mapM_of_forall_some F.nodeAt zero _ hnode]
  rfl

/-- what a successful `canon` returned -/
theorem canon_inv {F : Forest H} {L : List H} {ts : List Pos} {ps : List H}
    (hc : F.canon L = some (ts, ps)) :
    (∀ l ∈ L, ∃ p, F.posOf l = some p) ∧ ts = L.map (posD F) ∧
      ps = (F.proofPositions ts).map (trueHash F) := by
  obtain ⟨h1, h2, h3, _⟩ := canon_spec hc
  exact ⟨h2, h1, h3⟩

/-- the leaf requested at a position is the true hash there -/
theorem trueHash_posD {F : Forest H} {l : H} (h : ∃ p, F.posOf l = some p) :
    trueHash F (posD F l) = l := by
  obtain ⟨hh, s⟩ := posOf_getD_sub h
  exact trueHash_of_sub s

theorem map_trueHash_posD {F : Forest H} {L : List H} (hpos : ∀ l ∈ L, ∃ p, F.posOf l = some p) :
    (L.map (posD F)).map (trueHash F) = L := by
  rw [List.map_map]
  conv => rhs; rw [← List.map_id L]
  apply List.map_congr_left
  intro l hl
  exact trueHash_posD (hpos l hl)

theorem tok_posD {F : Forest H} {L : List H} (hpos : ∀ l ∈ L, ∃ p, F.posOf l = some p) :
    TargetsOK F (L.map (posD F)) := by
  intro t ht
  obtain ⟨l, hl, rfl⟩ := List.mem_map.1 ht
  obtain ⟨hh, s⟩ := posOf_getD_sub (hpos l hl)
  exact ⟨hh, l, s⟩

theorem nodup_posD {F : Forest H} {L : List H} (hpos : ∀ l ∈ L, ∃ p, F.posOf l = some p)
    (hnd : L.Nodup) : (L.map (posD F)).Nodup :=
  nodup_of_mapM (CanonTotal.mapM_of_forall_some F.posOf (0, 0) L hpos) hnd

/-- the model's leaf count, tree rows -/
theorem nLeaves_toNat {F : Forest H} (hn : F.numLeaves ≤ 2 ^ 63) : (nLeaves F).toNat = F.numLeaves :=
  N_toNat hn

theorem nLeaves_rows {F : Forest H} (hn : F.numLeaves ≤ 2 ^ 63) : TreeRows (nLeaves F) = H8 F.rows :=
  treeRows_eq' hn

/-! ## AddProof -/

omit [DecidableEq H] [Hasher H] in
theorem insertPair_fst (x : Pos × H) : ∀ l : List (Pos × H),
    (insertPair x l).map (·.1) = insertSorted x.1 (l.map (·.1))
  | [] => rfl
  | y :: ys => by
    have ih := insertPair_fst x ys
    by_cases h1 : posLt x.1 y.1 = true
    · simp [insertPair, insertSorted, h1]
    · by_cases h2 : (x.1 == y.1) = true
      · simp [insertPair, insertSorted, h1, h2]
      · simp [insertPair, insertSorted, h1, h2, ih]

omit [DecidableEq H] [Hasher H] in
theorem mem_insertPair (x z : Pos × H) : ∀ l : List (Pos × H), z ∈ insertPair x l → z = x ∨ z ∈ l
  | [] => by simp [insertPair]
  | y :: ys => by
    have ih := mem_insertPair x z ys
    unfold insertPair
    split
    · simp
    · split
      · intro h; exact Or.inr h
      · intro h
        rcases List.mem_cons.1 h with h | h
        · exact Or.inr (by rw [h]; simp)
        · rcases ih h with h | h
          · exact Or.inl h
          · exact Or.inr (List.mem_cons_of_mem _ h)

omit [DecidableEq H] [Hasher H] in
theorem foldr_insertPair_fst (Q : List (Pos × H)) :
    (Q.foldr insertPair []).map (·.1) = sortDedup (Q.map (·.1)) := by
  induction Q with
  | nil => rfl
  | cons x Q ih =>
    rw [List.foldr_cons, insertPair_fst, ih]
    rfl

omit [DecidableEq H] [Hasher H] in
theorem mem_foldr_insertPair (Q : List (Pos × H)) (z : Pos × H) : z ∈ Q.foldr insertPair [] → z ∈ Q := by
  induction Q with
  | nil => simp
  | cons x Q ih =>
    rw [List.foldr_cons]
    intro h
    rcases mem_insertPair x z _ h with h | h
    · rw [h]; simp
    · exact List.mem_cons_of_mem _ (ih h)

theorem filterMap_posOf {F : Forest H} {L : List H} (hpos : ∀ l ∈ L, ∃ p, F.posOf l = some p) :
    L.filterMap (fun l => (F.posOf l).map (fun p => (p, l))) = L.map (fun l => (posD F l, l)) := by
  induction L with
  | nil => rfl
  | cons a L ih =>
    obtain ⟨p, hp⟩ := hpos a (by simp)
    rw [List.filterMap_cons, hp, List.map_cons, ih (fun l hl => hpos l (List.mem_cons_of_mem _ hl))]
    simp [posD, hp]

/-- **`C14_addProof_statement` holds**: combining the canonical proofs of two lists of live
leaves (any request orders) gives the canonical proof of the union, targets ascending. -/
theorem C14_addProof : C14_addProof_statement (H := H) := by
  intro F A B tA tB pA pB hn hndA hndB hcA hcB
  have hn' : F.numLeaves ≤ 2 ^ 63 := Nat.le_of_lt hn
  obtain ⟨hposA, rfl, rfl⟩ := canon_inv hcA
  obtain ⟨hposB, rfl, rfl⟩ := canon_inv hcB
  have tokA := tok_posD hposA
  have tokB := tok_posD hposB
  have hposAB : ∀ l ∈ A ++ B, ∃ p, F.posOf l = some p := by
    intro l hl
    rcases List.mem_append.1 hl with h | h
    · exact hposA l h
    · exact hposB l h
  have tokAB : TargetsOK F (A.map (posD F) ++ B.map (posD F)) := by
    intro t ht
    rcases List.mem_append.1 ht with h | h
    · exact tokA t h
    · exact tokB t h
  have hA := leaf_PPHyp_sortPos tokA (nodup_posD hposA hndA)
  have hB := leaf_PPHyp_sortPos tokB (nodup_posD hposB hndB)
  have hU := leaf_PPHyp_sortDedup tokAB
  -- the model-level theorem
  have key := addProof_refines F (nLeaves F) (nLeaves_toNat hn') (nLeaves_rows hn') (rows_le_63 hn')
    (trueHash F) (A.map (posD F)) (B.map (posD F)) hA hB hU
  rw [proofPositions_congr F (fun x => mem_sortPos (l := A.map (posD F))),
    proofPositions_congr F (fun x => mem_sortPos (l := B.map (posD F))),
    map_trueHash_posD hposA, map_trueHash_posD hposB] at key
  -- the union pairs
  have hQ := filterMap_posOf hposAB
  have hfst : (unionPairs F A B).map (·.1) = sortDedup (A.map (posD F) ++ B.map (posD F)) := by
    unfold unionPairs
    rw [foldr_insertPair_fst, hQ, List.map_map, ← List.map_append]
    rfl
  have hmem : ∀ x ∈ unionPairs F A B, x.2 ∈ A ++ B ∧ x.1 = posD F x.2 := by
    intro x hx
    unfold unionPairs at hx
    have := mem_foldr_insertPair _ x hx
    rw [hQ] at this
    obtain ⟨l, hl, rfl⟩ := List.mem_map.1 this
    exact ⟨hl, rfl⟩
  have hsnd : (unionPairs F A B).map (·.2) =
      (sortDedup (A.map (posD F) ++ B.map (posD F))).map (trueHash F) := by
    rw [← hfst, List.map_map]
    apply List.map_congr_left
    intro x hx
    obtain ⟨h1, h2⟩ := hmem x hx
    simp only [Function.comp]
    rw [h2, trueHash_posD (hposAB _ h1)]
  have hposU : ∀ l ∈ (unionPairs F A B).map (·.2), ∃ p, F.posOf l = some p := by
    intro l hl
    obtain ⟨x, hx, rfl⟩ := List.mem_map.1 hl
    exact hposAB _ (hmem x hx).1
  have hposD : ((unionPairs F A B).map (·.2)).map (posD F) = (unionPairs F A B).map (·.1) := by
    rw [List.map_map]
    apply List.map_congr_left
    intro x hx
    exact (hmem x hx).2.symm
  refine ⟨(F.proofPositions (sortDedup (A.map (posD F) ++ B.map (posD F)))).map (trueHash F), ?_, ?_⟩
  · rw [canon_eq hposU, hposD, hfst]
  · rw [encU_eq_encP, hsnd]
    rw [show (unionPairs F A B).map (fun x => encP F.rows x.1) =
      ((unionPairs F A B).map (·.1)).map (encP F.rows) by rw [List.map_map]; rfl, hfst]
    exact key


/-! ## GetMissingPositions -/

/-- `C14_missing_statement` with the hypotheses it needs: no leaf is held or desired twice.
(Without `D.Nodup` the statement is false: `C14_missing_statement_false` below.) -/
def C14_missing_statement' : Prop :=
  ∀ (F : Forest H) (A D : List H) (tA tD : List Pos),
    F.numLeaves < 2 ^ 63 → A.Nodup → D.Nodup →
    A.mapM F.posOf = some tA → D.mapM F.posOf = some tD →
    let extra := tD.filter (fun p => !tA.contains p)
    let have_ := tA ++ F.proofPositions tA ++ F.computable tA
    getMissingPositions (nLeaves F) (tA.map (encU F)) (tD.map (encU F)) =
      ((F.proofPositions extra).filter (fun p => !have_.contains p)).map (encU F)

omit [DecidableEq H] [Hasher H] in
theorem contains_congr {l1 l2 : List Pos} (h : ∀ x, x ∈ l1 ↔ x ∈ l2) (p : Pos) :
    l1.contains p = l2.contains p := by
  rw [Bool.eq_iff_iff]
  simp only [List.contains_eq_mem, decide_eq_true_eq]
  exact h p

/-- `GetMissingPositions` on positions of distinct live leaves (closed form over `posD`) -/
theorem missing_positions {F : Forest H} (hn : F.numLeaves ≤ 2 ^ 63) {A D : List H}
    (hndA : A.Nodup) (hndD : D.Nodup)
    (hposA : ∀ l ∈ A, ∃ p, F.posOf l = some p) (hposD : ∀ l ∈ D, ∃ p, F.posOf l = some p) :
    getMissingPositions (nLeaves F) ((A.map (posD F)).map (encU F)) ((D.map (posD F)).map (encU F)) =
      ((F.proofPositions ((D.map (posD F)).filter (fun p => !(A.map (posD F)).contains p))).filter
        (fun p => !(A.map (posD F) ++ F.proofPositions (A.map (posD F)) ++
          F.computable (A.map (posD F))).contains p)).map (encU F) := by
  have tokA := tok_posD hposA
  have tokD := tok_posD hposD
  have hA := leaf_PPHyp_sortPos tokA (nodup_posD hposA hndA)
  have hD := leaf_PPHyp_sortPos tokD (nodup_posD hposD hndD)
  have key := getMissingPositions_refines F (h := F.rows) (nLeaves F) (nLeaves_toNat hn)
    (nLeaves_rows hn) (rows_le_63 hn) (A.map (posD F)) (D.map (posD F)) (nodup_posD hposD hndD)
    (valid_of_tok tokD) hA (PPHyp.filter hD _)
  rw [encU_eq_encP, key]
  have e1 : F.proofPositions ((sortPos (D.map (posD F))).filter
        (fun p => !(sortPos (A.map (posD F))).contains p)) =
      F.proofPositions ((D.map (posD F)).filter (fun p => !(A.map (posD F)).contains p)) := by
    apply proofPositions_congr
    intro x
    simp only [List.mem_filter, mem_sortPos, Bool.not_eq_true', List.contains_eq_mem,
      decide_eq_false_iff_not]
  rw [e1, proofPositions_congr F (fun x => mem_sortPos (l := A.map (posD F))),
    computable_congr F (fun x => mem_sortPos (l := A.map (posD F)))]
  congr 1
  apply List.filter_congr
  intro p _
  congr 1
  apply contains_congr
  intro x
  simp only [List.mem_append, mem_sortPos]

/-- **the corrected `C14_missing_statement` holds** -/
theorem C14_missing_positions : C14_missing_statement' (H := H) := by
  intro F A D tA tD hn hndA hndD hmA hmD
  obtain ⟨rfl, hposA⟩ := mapM_posOf hmA
  obtain ⟨rfl, hposD⟩ := mapM_posOf hmD
  exact missing_positions (Nat.le_of_lt hn) hndA hndD hposA hposD

/-! ### completing the held proof with the true hashes at the missing positions -/

/-- look a position up in a list of (position, hash) pairs -/
def lookupHP (known : HP H) (p : U64) : Option H := (known.find? (fun x => x.1 == p)).map (·.2)

omit [DecidableEq H] [Hasher H] in
theorem lookup_labelled {h : Nat} (hh : h ≤ 63) (val : Pos → H) (K : List Pos)
    (hv : ∀ p ∈ K, ValidH h p) (q : Pos) (hq : q ∈ K) :
    lookupHP (K.map (fun p => (encP h p, val p))) (encP h q) = some (val q) := by
  unfold lookupHP
  cases hf : (K.map (fun p => (encP h p, val p))).find? (fun x => x.1 == encP h q) with
  | none =>
    have := List.find?_eq_none.1 hf _ (List.mem_map.2 ⟨q, hq, rfl⟩)
    simp at this
  | some x =>
    have hx := List.mem_of_find?_eq_some hf
    have hp := List.find?_some hf
    simp only [beq_iff_eq] at hp
    obtain ⟨p, hpK, rfl⟩ := List.mem_map.1 hx
    simp only at hp
    rw [encP_inj hh (hv p hpK) (hv q hq) hp]
    rfl

theorem mapM_eq_some_map {α β : Type} (f : α → Option β) (g : α → β) : ∀ (l : List α),
    (∀ a ∈ l, f a = some (g a)) → l.mapM f = some (l.map g) := by
  intro l
  induction l with
  | nil => intro _; rfl
  | cons a l ih =>
    intro h
    rw [List.mapM_cons, h a (by simp), ih (fun x hx => h x (List.mem_cons_of_mem _ hx))]
    rfl

/-- **C14, `GetMissingPositions`, full statement.**  For held live leaves `A` with their
canonical proof `(tA, pA)` and desired live leaves `D` (no leaf twice in either list):

* `GetMissingPositions` returns — ascending — exactly the canonical proof positions of the extra
  targets that are neither held targets, nor held proof positions, nor computable from the
  held targets;
* looking the canonical proof positions of `A ∪ D` up in (held proof positions with the held
  proof hashes) ++ (missing positions with the true hashes there) finds every one of them, the
  result is the canonical proof of `A ∪ D`, and `verify` accepts it (with the hypotheses of C02:
  no live leaf and no parent hash is the all-zero hash). -/
theorem C14_missing (F : Forest H) (hn : F.numLeaves < 2 ^ 63)
    (hnz : ∀ a b : H, ph a b ≠ (zero : H)) (hlive : ∀ l ∈ F.liveLeaves, l ≠ (zero : H))
    (A D : List H) (hndA : A.Nodup) (hndD : D.Nodup) (tA tD : List Pos) (pA : List H)
    (hcA : F.canon A = some (tA, pA)) (hmD : D.mapM F.posOf = some tD) :
    let extra := tD.filter (fun p => !tA.contains p)
    let have_ := tA ++ F.proofPositions tA ++ F.computable tA
    let missing := (F.proofPositions extra).filter (fun p => !have_.contains p)
    getMissingPositions (nLeaves F) (tA.map (encU F)) (tD.map (encU F)) = missing.map (encU F) ∧
    (let U := A ++ D.filter (fun d => !A.contains d)
     let known : HP H := ((F.proofPositions tA).map (encU F)).zip pA ++
       (missing.map (encU F)).zip (missing.map (trueHash F))
     ∃ tU pU, F.canon U = some (tU, pU) ∧
       ((F.proofPositions tU).map (encU F)).mapM (lookupHP known) = some pU ∧
       verify (nLeaves F) F.roots U (tU.map (encU F)) pU =
         .ok (CalcComplete.touchedIdx F.numLeaves tU)) := by
  have hn' : F.numLeaves ≤ 2 ^ 63 := Nat.le_of_lt hn
  have hh := rows_le_63 hn'
  obtain ⟨hposA, rfl, rfl⟩ := canon_inv hcA
  obtain ⟨rfl, hposD⟩ := mapM_posOf hmD
  intro extra have_ missing
  refine ⟨missing_positions hn' hndA hndD hposA hposD, ?_⟩
  intro U known
  -- the union of the leaves
  have hposU : ∀ l ∈ U, ∃ p, F.posOf l = some p := by
    intro l hl
    rcases List.mem_append.1 hl with h | h
    · exact hposA l h
    · exact hposD l (List.mem_filter.1 h).1
  have hndU : U.Nodup := by
    apply List.nodup_append.2
    refine ⟨hndA, hndD.filter _, ?_⟩
    intro a ha b hb e
    subst e
    have := (List.mem_filter.1 hb).2
    simp [ha] at this
  have hcU := canon_eq hposU
  refine ⟨U.map (posD F), _, hcU, ?_, ?_⟩
  · -- the completed proof
    have tokA := tok_posD hposA
    have tokD := tok_posD hposD
    have tokU := tok_posD hposU
    have tokE : TargetsOK F extra := fun t ht => tokD t (List.mem_filter.1 ht).1
    have hA := leaf_PPHyp_sortPos tokA (nodup_posD hposA hndA)
    have hD := leaf_PPHyp_sortPos tokD (nodup_posD hposD hndD)
    have hUh := leaf_PPHyp_sortPos tokU (nodup_posD hposU hndU)
    have hE : PPHyp F.numLeaves ((sortPos (D.map (posD F))).filter
        (fun p => !(sortPos (A.map (posD F))).contains p)) := PPHyp.filter hD _
    have hEmem : ∀ x, x ∈ (sortPos (D.map (posD F))).filter
        (fun p => !(sortPos (A.map (posD F))).contains p) ↔ x ∈ extra := by
      intro x
      simp only [extra, List.mem_filter, mem_sortPos, Bool.not_eq_true', List.contains_eq_mem,
        decide_eq_false_iff_not]
      exact Iff.rfl
    have hUmem : ∀ p, p ∈ sortPos (U.map (posD F)) ↔ p ∈ sortPos (A.map (posD F)) ∨
        p ∈ (sortPos (D.map (posD F))).filter (fun p => !(sortPos (A.map (posD F))).contains p) := by
      intro p
      rw [hEmem, mem_sortPos, mem_sortPos]
      simp only [U, extra, List.map_append, List.mem_append, List.mem_map, List.mem_filter,
        Bool.not_eq_true', List.contains_eq_mem, decide_eq_false_iff_not]
      constructor
      · rintro (h | ⟨l, ⟨hlD, hlA⟩, rfl⟩)
        · exact Or.inl h
        · by_cases hc : ∃ a, a ∈ A ∧ posD F a = posD F l
          · exact Or.inl hc
          · exact Or.inr ⟨⟨l, hlD, rfl⟩, hc⟩
      · rintro (h | ⟨⟨l, hlD, rfl⟩, hna⟩)
        · exact Or.inl h
        · refine Or.inr ⟨l, ⟨hlD, ?_⟩, rfl⟩
          intro hlA
          exact hna ⟨l, hlA, rfl⟩
    have hvK : ∀ p ∈ F.proofPositions (A.map (posD F)) ++ missing, ValidH F.rows p := by
      intro p hp
      rcases List.mem_append.1 hp with h | h
      · obtain ⟨_, _, s⟩ := proofPositions_sub tokA p h
        exact valid_of_sub s
      · obtain ⟨_, _, s⟩ := proofPositions_sub tokE p (List.mem_filter.1 h).1
        exact valid_of_sub s
    have hknown : known = (F.proofPositions (A.map (posD F)) ++ missing).map
        (fun p => (encP F.rows p, trueHash F p)) := by
      simp only [known, encU_eq_encP]
      rw [zip_map_labelled, zip_map_labelled, List.map_append]
    rw [hknown, encU_eq_encP, List.mapM_map]
    apply mapM_eq_some_map
    intro q hq
    simp only [Function.comp]
    apply lookup_labelled hh (trueHash F) _ hvK
    rw [← proofPositions_congr F (fun x => mem_sortPos (l := U.map (posD F))),
      mem_proofPositions_union F hA hE hUh hUmem] at hq
    obtain ⟨hpp, hc1, _, ht1, _⟩ := hq
    rw [proofPositions_congr F (fun x => mem_sortPos (l := A.map (posD F)))] at hpp
    rw [computable_congr F (fun x => mem_sortPos (l := A.map (posD F)))] at hc1
    rw [mem_sortPos] at ht1
    rw [proofPositions_congr F hEmem] at hpp
    by_cases hqa : q ∈ F.proofPositions (A.map (posD F))
    · exact List.mem_append.2 (Or.inl hqa)
    · rcases hpp with h | h
      · exact absurd h hqa
      · refine List.mem_append.2 (Or.inr (List.mem_filter.2 ⟨h, ?_⟩))
        simp only [have_, Bool.not_eq_true', List.contains_eq_mem, decide_eq_false_iff_not,
          List.mem_append]
        rintro ((h1 | h1) | h1)
        · exact ht1 h1
        · exact hqa h1
        · exact hc1 h1
  · have := C02.honest_proof_verifies F hn' hnz hlive U _ _ [] hndU hcU
    rw [List.append_nil] at this
    exact this


/-! ## GetProofSubset -/

/-! ### sorted-list operations on lists labelled by a valuation -/

section labelled2
variable {h : Nat}

omit [DecidableEq H] [Hasher H] in
theorem positions_map_labelled (val : Pos → H) (l : List Pos) :
    HP.positions (l.map (fun p => (encP h p, val p))) = l.map (encP h) := by
  simp [HP.positions, List.map_map, Function.comp_def]

omit [DecidableEq H] [Hasher H] in
theorem hashes_map_labelled (val : Pos → H) (l : List Pos) :
    HP.hashes (l.map (fun p => (encP h p, val p))) = l.map val := by
  simp [HP.hashes, List.map_map, Function.comp_def]

omit [DecidableEq H] [Hasher H] in
theorem sortHP_labelled (hh : h ≤ 63) (val : Pos → H) (l : List Pos) (hv : ∀ p ∈ l, ValidH h p) :
    sortHP (l.map (fun p => (encP h p, val p))) = (sortPos l).map (fun p => (encP h p, val p)) := by
  apply labelled_eq hh val (sortPos l) _ (fun p hp => hv p (mem_sortPos.1 hp))
  · intro x hx
    have := (mem_sortBy _ x _).mp hx
    obtain ⟨p, hp, rfl⟩ := List.mem_map.1 this
    exact ⟨p, hv p hp, rfl⟩
  · rw [sortHP_positions, positions_map_labelled, sortU64_encP hh l hv]

omit [DecidableEq H] [Hasher H] in
theorem sortHP_labelled_sorted (hh : h ≤ 63) (val : Pos → H) (l : List Pos) (hv : ∀ p ∈ l, ValidH h p)
    (hs : SSorted l) :
    sortHP (l.map (fun p => (encP h p, val p))) = l.map (fun p => (encP h p, val p)) := by
  rw [sortHP_labelled hh val l hv, sortPos_of_ssorted hs]

omit [DecidableEq H] [Hasher H] in
theorem subsetHP_labelled (hh : h ≤ 63) (val : Pos → H) (X Y : List Pos) (hX : SSorted X)
    (hY : SSorted Y) (hvX : ∀ p ∈ X, ValidH h p) (hsub : ∀ p ∈ Y, p ∈ X) :
    subsetHP (X.map (fun p => (encP h p, val p))) (Y.map (encP h)) =
      Y.map (fun p => (encP h p, val p)) := by
  have hvY : ∀ p ∈ Y, ValidH h p := fun p hp => hvX p (hsub p hp)
  apply labelled_eq hh val Y _ hvY
  · intro x hx
    have := (subsetHP_sublist _ _).subset hx
    obtain ⟨p, hp, rfl⟩ := List.mem_map.1 this
    exact ⟨p, hvX p hp, rfl⟩
  · apply subsetHP_positions_of_subtract_nil
    rw [positions_map_labelled]
    apply subtractU64_eq_nil _ _ (strict_map_encP hh Y hY hvY)
      (le_of_strict (strict_map_encP hh X hX hvX))
    intro w hw
    obtain ⟨p, hp, rfl⟩ := List.mem_map.1 hw
    exact List.mem_map.2 ⟨p, hsub p hp, rfl⟩

omit [DecidableEq H] [Hasher H] in
theorem mergeHP_labelled (hh : h ≤ 63) (val : Pos → H) (X Y : List Pos) (hX : SSorted X)
    (hY : SSorted Y) (hvX : ∀ p ∈ X, ValidH h p) (hvY : ∀ p ∈ Y, ValidH h p) :
    mergeHP (X.map (fun p => (encP h p, val p))) (Y.map (fun p => (encP h p, val p))) =
      (sortDedup (X ++ Y)).map (fun p => (encP h p, val p)) := by
  have hvU : ∀ p ∈ sortDedup (X ++ Y), ValidH h p := by
    intro p hp
    rcases List.mem_append.1 (Proofs.mem_sortDedup.1 hp) with h1 | h1
    · exact hvX p h1
    · exact hvY p h1
  apply labelled_eq hh val _ _ hvU
  · intro x hx
    rcases mem_mergeHP _ _ x hx with h1 | h1
    · obtain ⟨p, hp, rfl⟩ := List.mem_map.1 h1
      exact ⟨p, hvX p hp, rfl⟩
    · obtain ⟨p, hp, rfl⟩ := List.mem_map.1 h1
      exact ⟨p, hvY p hp, rfl⟩
  · rw [mergeHP_positions, positions_map_labelled, positions_map_labelled]
    apply eq_of_strict_of_mem_iff _ _
      (strict_mergeU64 _ _ (strict_map_encP hh X hX hvX) (strict_map_encP hh Y hY hvY))
      (strict_map_encP hh _ (sortDedup_ssorted _) hvU)
    intro x
    rw [mem_mergeU64]
    simp only [List.mem_map, Proofs.mem_sortDedup, List.mem_append]
    constructor
    · rintro (⟨p, hp, rfl⟩ | ⟨p, hp, rfl⟩)
      · exact ⟨p, Or.inl hp, rfl⟩
      · exact ⟨p, Or.inr hp, rfl⟩
    · rintro ⟨p, hp | hp, rfl⟩
      · exact Or.inl ⟨p, hp, rfl⟩
      · exact Or.inr ⟨p, hp, rfl⟩

omit [DecidableEq H] [Hasher H] in
theorem lookupHashes_labelled (hh : h ≤ 63) (val : Pos → H) (X : List Pos)
    (hvX : ∀ p ∈ X, ValidH h p) : ∀ (W : List Pos), (∀ p ∈ W, p ∈ X) →
    lookupHashes (X.map (fun p => (encP h p, val p))) (W.map (encP h)) = .ok (W.map val)
  | [], _ => rfl
  | w :: W, hW => by
    have ih := lookupHashes_labelled hh val X hvX W (fun p hp => hW p (List.mem_cons_of_mem _ hp))
    have hl := lookup_labelled hh val X hvX w (hW w (by simp))
    unfold lookupHP at hl
    obtain ⟨x, hx, hx2⟩ := Option.map_eq_some_iff.1 hl
    simp only [List.map_cons, lookupHashes, hx, ih, Out.bind, hx2]

end labelled2

omit [DecidableEq H] [Hasher H] in
theorem filterMap_eq_map {α β : Type} (f : α → Option β) (g : α → β) : ∀ (l : List α),
    (∀ a ∈ l, f a = some (g a)) → l.filterMap f = l.map g := by
  intro l
  induction l with
  | nil => intro _; rfl
  | cons a l ih =>
    intro h
    rw [List.filterMap_cons, h a (by simp), ih (fun x hx => h x (List.mem_cons_of_mem _ hx))]
    rfl

omit [DecidableEq H] [Hasher H] in
/-- a list of encoded positions all of which encode members of `T` -/
theorem exists_positions {h : Nat} (T : List Pos) : ∀ (wants : List U64),
    (∀ w ∈ wants, w ∈ T.map (encP h)) → ∃ Wp : List Pos, wants = Wp.map (encP h) ∧ ∀ p ∈ Wp, p ∈ T
  | [], _ => ⟨[], rfl, by simp⟩
  | w :: ws, hw => by
    obtain ⟨Wp, e, hWp⟩ := exists_positions T ws (fun v hv => hw v (List.mem_cons_of_mem _ hv))
    obtain ⟨p, hp, e'⟩ := List.mem_map.1 (hw w (by simp))
    refine ⟨p :: Wp, by rw [List.map_cons, e', e], ?_⟩
    intro q hq
    rcases List.mem_cons.1 hq with rfl | hq
    · exact hp
    · exact hWp q hq

/-! ### the canonical proof positions of a subset of the targets -/

/-- every canonical proof position of a subset `W` of the targets `T` is a path node of `T` or a
canonical proof position of `T` -/
theorem proofPositions_subset_cases (F : Forest H) {W T : List Pos} (hW : PPHyp F.numLeaves W)
    (hT : PPHyp F.numLeaves T) (hsub : ∀ p ∈ W, p ∈ T) :
    ∀ q ∈ F.proofPositions W, q ∈ pathSet F T ∨ q ∈ F.proofPositions T := by
  intro q hq
  obtain ⟨x, ⟨t, ht, R, hb, ha, hp⟩, hr, rfl, _⟩ := (mem_spec_proofPositions F hW q).1 hq
  have hx' : InP F.numLeaves T x := ⟨t, hsub t ht, R, hb, ha, hp⟩
  by_cases hin : InP F.numLeaves T (sib x)
  · exact Or.inl ((mem_paths F hT _).2 hin)
  · exact Or.inr ((mem_spec_proofPositions F hT _).2 ⟨x, hx', hr, rfl, hin⟩)

/-- **`GetProofSubset` is exact** (position level): applied to the canonical proof of the live
leaves `L` — targets and hashes in the order of `L` — and wanted targets `Wp` (any order, no
repetition) among the targets, it returns the hashes of the wanted targets in the order of the
request, the wanted targets, and the canonical proof of the wanted targets. -/
theorem getProofSubset_refines (F : Forest H) (hn : F.numLeaves ≤ 2 ^ 63)
    (hnz : ∀ a b : H, ph a b ≠ (zero : H)) (hlive : ∀ l ∈ F.liveLeaves, l ≠ (zero : H))
    (L : List H) (hnd : L.Nodup) (hpos : ∀ l ∈ L, ∃ p, F.posOf l = some p)
    (Wp : List Pos) (hWnd : Wp.Nodup) (hW : ∀ p ∈ Wp, p ∈ L.map (posD F)) :
    getProofSubset (nLeaves F) ((L.map (posD F)).map (encU F))
        ((F.proofPositions (L.map (posD F))).map (trueHash F)) L (Wp.map (encU F)) =
      .ok (Wp.map (trueHash F), Wp.map (encU F), (F.proofPositions Wp).map (trueHash F)) := by
  have hh : F.rows ≤ 63 := rows_le_63 hn
  have hc := canon_eq hpos
  have tok := tok_posD hpos
  have hTnd := nodup_posD hpos hnd
  have hvT := valid_of_tok tok
  have tokW : TargetsOK F Wp := fun t ht => tok t (hW t ht)
  have hT := leaf_PPHyp_sortPos tok hTnd
  have hWh := leaf_PPHyp_sortPos tokW hWnd
  have hWsub : ∀ p ∈ sortPos Wp, p ∈ sortPos (L.map (posD F)) :=
    fun p hp => mem_sortPos.2 (hW p (mem_sortPos.1 hp))
  have ppT := proofPositions_congr F (fun x => mem_sortPos (l := L.map (posD F)))
  have ppW := proofPositions_congr F (fun x => mem_sortPos (l := Wp))
  have psT := C02.pathSet_congr F (fun x => mem_sortPos (l := L.map (posD F)))
  have hLeq := map_trueHash_posD hpos
  -- (a) the coverage check
  have hcov : subtractU64 (sortU64 (Wp.map (encP F.rows))) (sortU64 ((L.map (posD F)).map (encP F.rows))) = [] := by
    apply coverage_check_passes
    · unfold List.Nodup
      rw [List.pairwise_map]
      apply List.Pairwise.imp_of_mem _ hWnd
      intro a b ha hb hab e
      exact hab (encP_inj hh (hvT a (hW a ha)) (hvT b (hW b hb)) e)
    · intro w hw
      obtain ⟨p, hp, rfl⟩ := List.mem_map.1 hw
      exact List.mem_map.2 ⟨p, hW p hp, rfl⟩
  -- (b) the target hashes with their positions
  have hb : toHashAndPos ((L.map (posD F)).map (encP F.rows)) L =
      .ok ((sortPos (L.map (posD F))).map (fun p => (encP F.rows p, trueHash F p))) := by
    have hb' : toHashAndPos ((L.map (posD F)).map (encP F.rows)) ((L.map (posD F)).map (trueHash F)) =
        .ok ((sortPos (L.map (posD F))).map (fun p => (encP F.rows p, trueHash F p))) := by
      unfold toHashAndPos
      rw [if_pos (by simp), zip_map_labelled, sortHP_labelled hh _ _ hvT]
    rw [hLeq] at hb'
    exact hb'
  -- (c) calculateHashes
  have good : ∀ {h p t}, SubAtT F h p t → Good t :=
    fun s l hl => hlive l (s.leaves_live l hl)
  obtain ⟨r, hr, _, _, hnodes⟩ := calc_generic hn hnz hlive hnd hc CTree.hash
    (fun a b ga gb => hash_node_comb hnz ga gb) (fun _ _ _ _ _ _ _ => rfl) (some L)
    (hLeq.symm.trans (List.map_congr_left (fun p hp => by
      obtain ⟨h, l, s⟩ := tok p hp
      rw [trueHash_of_sub s, valAt_of s]))) []
  rw [List.append_nil] at hr
  have hr' : calculateHashes (nLeaves F) (some L) ((L.map (posD F)).map (encP F.rows))
      ((F.proofPositions (L.map (posD F))).map (trueHash F)) = .ok r := hr
  have hnodes' : r.nodes = (pathSet F (L.map (posD F))).map (fun p => (encP F.rows p, trueHash F p)) := by
    rw [hnodes]
    apply List.map_congr_left
    intro p hp
    obtain ⟨h, t, s⟩ := pathSet_sub tok hp
    unfold G
    rw [trueHash_of_sub s, valAt_of s]
    rfl
  have hvPS : ∀ p ∈ pathSet F (L.map (posD F)), ValidH F.rows p := by
    intro p hp
    obtain ⟨h, t, s⟩ := pathSet_sub tok hp
    exact valid_of_sub s
  have hsPS : SSorted (pathSet F (L.map (posD F))) := sortDedup_ssorted _
  have hvPP : ∀ p ∈ F.proofPositions (L.map (posD F)), ValidH F.rows p := by
    intro p hp
    obtain ⟨_, _, s⟩ := proofPositions_sub tok p hp
    exact valid_of_sub s
  have hsPP : SSorted (F.proofPositions (L.map (posD F))) := ssorted_proofPositions F _
  -- (e) the proof positions of the big proof
  have he : ProofPositions (sortU64 ((L.map (posD F)).map (encP F.rows))) (nLeaves F) (H8 F.rows) =
      ((F.proofPositions (L.map (posD F))).map (encP F.rows),
        (F.computable (sortPos (L.map (posD F)))).map (encP F.rows)) := by
    rw [sortU64_encP hh _ hvT, proofPositions_spec F (nLeaves F) (nLeaves_toNat hn) (nLeaves_rows hn) hh
      (Nat.le_refl _) _ hT, ppT]
  -- (h) the wanted targets
  have hsw : sortU64 (Wp.map (encP F.rows)) = (sortPos Wp).map (encP F.rows) :=
    sortU64_encP hh _ (fun p hp => hvT p (hW p hp))
  have hi : ProofPositions ((sortPos Wp).map (encP F.rows)) (nLeaves F) (H8 F.rows) =
      ((F.proofPositions Wp).map (encP F.rows), (F.computable (sortPos Wp)).map (encP F.rows)) := by
    rw [proofPositions_spec F (nLeaves F) (nLeaves_toNat hn) (nLeaves_rows hn) hh
      (Nat.le_refl _) _ hWh, ppW]
  -- (j) the wanted proof positions are among the merged positions
  have hvMG : ∀ p ∈ sortDedup (pathSet F (L.map (posD F)) ++ F.proofPositions (L.map (posD F))),
      ValidH F.rows p := by
    intro p hp
    rcases List.mem_append.1 (Proofs.mem_sortDedup.1 hp) with h1 | h1
    · exact hvPS p h1
    · exact hvPP p h1
  have hj : ∀ q ∈ F.proofPositions Wp,
      q ∈ sortDedup (pathSet F (L.map (posD F)) ++ F.proofPositions (L.map (posD F))) := by
    intro q hq
    rw [← ppW] at hq
    rw [Proofs.mem_sortDedup, List.mem_append, ← psT, ← ppT]
    exact proofPositions_subset_cases F hWh hT hWsub q hq
  -- run the model
  unfold getProofSubset
  simp only [bind, Out.bind, encU_eq_encP, hcov, List.isEmpty_nil, Bool.not_true, Bool.false_eq_true,
    if_false, hb, hr', nLeaves_rows hn, he, hnodes',
    sortHP_labelled_sorted hh (trueHash F) _ hvPS hsPS]
  simp only [toHashAndPos2, List.length_map, if_true, zip_map_labelled,
    sortHP_labelled_sorted hh (trueHash F) _ hvPP hsPP]
  rw [mergeHP2_consistent _ _ _ _ (by simp [HP.positions, HP.hashes]) (by simp [HP.positions, HP.hashes])]
  simp only [mergeHP_labelled hh (trueHash F) _ _ hsPS hsPP hvPS hvPP, hsw,
    subsetHP_labelled hh (trueHash F) _ _ hT.sorted hWh.sorted
      (fun p hp => hvT p (mem_sortPos.1 hp)) hWsub,
    positions_map_labelled, hi,
    subsetHP_labelled hh (trueHash F) _ _ (sortDedup_ssorted _) (ssorted_proofPositions F Wp) hvMG hj,
    List.length_map, ne_eq, not_true_eq_false, if_false,
    lookupHashes_labelled hh (trueHash F) (sortPos Wp) (fun p hp => hvT p (hW p (mem_sortPos.1 hp))) Wp
      (fun p hp => mem_sortPos.2 hp), hashes_map_labelled, pure, zip_map_labelled]


/-- `C14_subset_statement` with the hypotheses of C02 that `calculateHashes` needs: no parent hash
and no live leaf is the all-zero hash.  (Without them the statement is false:
`C14_subset_statement_false` below.) -/
def C14_subset_statement' : Prop :=
  ∀ (F : Forest H) (U : List H) (tU : List Pos) (pU : List H) (σ : List (Pos × H)) (wants : List U64),
    F.numLeaves < 2 ^ 63 → (∀ a b : H, ph a b ≠ (zero : H)) → (∀ l ∈ F.liveLeaves, l ≠ (zero : H)) →
    U.Nodup → F.canon U = some (tU, pU) → σ.Perm (tU.zip U) → wants.Nodup →
    let ts := σ.map (fun x => encU F x.1)
    let hs := σ.map (·.2)
    (¬ (∀ w ∈ wants, w ∈ ts) → getProofSubset (nLeaves F) ts pU hs wants = .err) ∧
    ((∀ w ∈ wants, w ∈ ts) →
      let W := wants.filterMap (fun w => (σ.find? (fun x => encU F x.1 == w)).map (·.2))
      ∃ tW pW, F.canon W = some (tW, pW) ∧ tW.map (encU F) = wants ∧
        getProofSubset (nLeaves F) ts pU hs wants = .ok (W, wants, pW))

omit [DecidableEq H] [Hasher H] in
theorem zip_map_self {α β : Type} (f : α → β) (l : List α) :
    (l.map f).zip l = l.map (fun a => (f a, a)) := by
  induction l with
  | nil => rfl
  | cons a l ih => simp [ih]

/-- **C14, `GetProofSubset`, full statement** (with the hypotheses of C02). -/
theorem C14_subset : C14_subset_statement' (H := H) := by
  intro F U tU pU σ wants hn hnz hlive hndU hcU hσ hwnd ts hs
  have hn' : F.numLeaves ≤ 2 ^ 63 := Nat.le_of_lt hn
  have hh : F.rows ≤ 63 := rows_le_63 hn'
  refine ⟨?_, ?_⟩
  · intro hnc
    have : ∃ w, w ∈ wants ∧ w ∉ ts := by
      apply Classical.byContradiction
      intro hcon
      apply hnc
      intro w hw
      apply Classical.byContradiction
      intro hwn
      exact hcon ⟨w, hw, hwn⟩
    obtain ⟨w, hw, hwn⟩ := this
    exact getProofSubset_err_of_uncovered _ _ _ _ _ w hw hwn
  · intro hcov W
    obtain ⟨hposU, rfl, rfl⟩ := canon_inv hcU
    -- the permuted request
    rw [zip_map_self] at hσ
    have hσm : ∀ x ∈ σ, x.2 ∈ U ∧ x.1 = posD F x.2 := by
      intro x hx
      obtain ⟨l, hl, rfl⟩ := List.mem_map.1 (hσ.subset hx)
      exact ⟨hl, rfl⟩
    have hperm : hs.Perm U := by
      have := hσ.map (·.2)
      rw [List.map_map] at this
      simpa [Function.comp_def] using this
    have hndL : hs.Nodup := hperm.nodup_iff.2 hndU
    have hposL : ∀ l ∈ hs, ∃ p, F.posOf l = some p := fun l hl => hposU l (hperm.subset hl)
    have hfst : σ.map (·.1) = hs.map (posD F) := by
      simp only [hs, List.map_map]
      apply List.map_congr_left
      intro x hx
      exact (hσm x hx).2
    have hts : ts = (hs.map (posD F)).map (encU F) := by
      rw [← hfst, List.map_map]
      rfl
    have hpp : F.proofPositions (U.map (posD F)) = F.proofPositions (hs.map (posD F)) := by
      apply proofPositions_congr
      intro x
      simp only [List.mem_map]
      constructor
      · rintro ⟨l, hl, rfl⟩; exact ⟨l, hperm.mem_iff.2 hl, rfl⟩
      · rintro ⟨l, hl, rfl⟩; exact ⟨l, hperm.mem_iff.1 hl, rfl⟩
    have tok := tok_posD hposL
    have hvT := valid_of_tok tok
    -- the wanted targets as positions
    obtain ⟨Wp, hWe, hWp⟩ := exists_positions (h := F.rows) (hs.map (posD F)) wants
      (by intro w hw; have := hcov w hw; rw [hts] at this; exact this)
    have hWnd : Wp.Nodup := by
      rw [hWe] at hwnd
      exact List.Pairwise.of_map (encP F.rows) (fun a b h e => h (by rw [e])) hwnd
    -- the leaf found for a wanted target
    have hfind : ∀ p ∈ Wp, (σ.find? (fun x => encU F x.1 == encP F.rows p)).map (·.2) =
        some (trueHash F p) := by
      intro p hp
      have hpT := hWp p hp
      cases hf : σ.find? (fun x => encU F x.1 == encP F.rows p) with
      | none =>
        exfalso
        rw [← hfst] at hpT
        obtain ⟨y, hy, rfl⟩ := List.mem_map.1 hpT
        have := List.find?_eq_none.1 hf y hy
        simp [encU_eq_encP] at this
      | some x =>
        have hx := List.mem_of_find?_eq_some hf
        have hpx := List.find?_some hf
        simp only [beq_iff_eq] at hpx
        obtain ⟨h1, h2⟩ := hσm x hx
        have hxT : x.1 ∈ hs.map (posD F) := by rw [← hfst]; exact List.mem_map.2 ⟨x, hx, rfl⟩
        have e : x.1 = p := encP_inj hh (hvT _ hxT) (hvT p hpT) hpx
        simp only [Option.map_some, Option.some.injEq]
        rw [← e, h2, trueHash_posD (hposU _ h1)]
    have hW : W = Wp.map (trueHash F) := by
      simp only [W, hWe, List.filterMap_map]
      exact filterMap_eq_map _ _ Wp hfind
    have hposD : ∀ p ∈ Wp, (∃ q, F.posOf (trueHash F p) = some q) ∧ posD F (trueHash F p) = p := by
      intro p hp
      obtain ⟨l, hl, rfl⟩ := List.mem_map.1 (hWp p hp)
      rw [trueHash_posD (hposL l hl)]
      exact ⟨hposL l hl, rfl⟩
    have hposW : ∀ l ∈ Wp.map (trueHash F), ∃ q, F.posOf l = some q := by
      intro l hl
      obtain ⟨p, hp, rfl⟩ := List.mem_map.1 hl
      exact (hposD p hp).1
    have hWpos : (Wp.map (trueHash F)).map (posD F) = Wp := by
      rw [List.map_map]
      conv => rhs; rw [← List.map_id Wp]
      apply List.map_congr_left
      intro p hp
      exact (hposD p hp).2
    refine ⟨Wp, (F.proofPositions Wp).map (trueHash F), ?_, ?_, ?_⟩
    · rw [hW, canon_eq hposW, hWpos]
    · rw [hWe]; rfl
    · rw [hW, hts, hpp, hWe]
      exact getProofSubset_refines F hn' hnz hlive hs hndL hposL Wp hWnd hWp

end

/-! ## The statements of `Props/C14.lean` that are false as written -/

section counterexamples
open T

/-- **`C14_missing_statement` is false without `D.Nodup`**: a leaf desired twice is reported
twice.  4 live leaves, held = leaf 1 (position 0), desired = leaf 3 twice (position 2):
`GetMissingPositions` returns `[3, 3]` (so does the Go code), the specification `[3]`. -/
theorem C14_missing_statement_false : ¬ C14_missing_statement (H := T) := by
  intro h
  have := h F4 [leaf 1] [leaf 3, leaf 3] [(0, 0)] [(0, 2), (0, 2)] (by decide)
    (by decide +kernel) (by decide +kernel)
  exact absurd this (by decide +kernel)

/-- the model's answer on that instance -/
example : getMissingPositions 4#64 [0#64] [2#64, 2#64] = [3#64, 3#64] := by decide +kernel

/-- 4 live leaves the first of which carries the all-zero hash (`zero = leaf 0` in `T`) -/
def Fz : Forest T := ⟨[some (leaf 0), some (leaf 2), some (leaf 3), some (leaf 4)]⟩

theorem Fz_err : getProofSubset (nLeaves Fz) (List.map (fun x => encU Fz x.1) [((0, 1), leaf 2)])
    [leaf 0, node (leaf 3) (leaf 4)] (List.map (·.2) [((0, 1), leaf 2)]) [1#64] = .err := by
  decide +kernel

theorem Fz_canon : Fz.canon [leaf 2] = some ([(0, 1)], [leaf 0, node (leaf 3) (leaf 4)]) := by
  decide +kernel

theorem Fz_enc : encU Fz (0, 1) = 1#64 := by decide +kernel

theorem Fz_cov : ∀ w ∈ [1#64], w ∈ List.map (fun x => encU Fz x.1) [((0, 1), leaf 2)] := by
  intro w hw
  simp only [List.mem_cons, List.not_mem_nil, or_false] at hw
  subst hw
  exact List.mem_map.2 ⟨((0, 1), leaf 2), by simp, Fz_enc⟩

/-- **`C14_subset_statement` is false without "live leaves are non-zero"**: the canonical
proof of `leaf 2` contains the all-zero hash of its sibling, which `calculateHashes` rejects
("Empty proof hash" in the Go code), so `GetProofSubset` fails although the wanted target is
covered. -/
theorem C14_subset_statement_false : ¬ C14_subset_statement (H := T) := by
  intro h
  have h1 := h Fz [leaf 2] [(0, 1)] [leaf 0, node (leaf 3) (leaf 4)] [((0, 1), leaf 2)] [1#64]
    (by decide) (by decide) Fz_canon (List.Perm.refl _) (by decide)
  obtain ⟨_, _, _, _, h3⟩ := h1.2 Fz_cov
  have := Fz_err.symm.trans h3
  cases this

end counterexamples

/-! ## Non-vacuity: a five-slot forest with a dead slot

Slots `leaf 1, dead, leaf 3, leaf 4, leaf 5`: the tree on row 2 is collapsed — `leaf 1` has
moved up to `(1, 0)` = position 8 — and `leaf 5` is the lone root on row 0 (position 4). -/

section examples
open T

def F5d : Forest T := ⟨[some (leaf 1), none, some (leaf 3), some (leaf 4), some (leaf 5)]⟩

theorem F5d_small : F5d.numLeaves < 2 ^ 63 := by decide

theorem T_nonzero : ∀ a b : T, ph a b ≠ (zero : T) := by
  intro a b h
  cases h

theorem F5d_live : ∀ l ∈ F5d.liveLeaves, l ≠ (zero : T) := by
  intro l hl
  have : l = leaf 1 ∨ l = leaf 3 ∨ l = leaf 4 ∨ l = leaf 5 := by
    simpa [F5d, Forest.liveLeaves] using hl
  rcases this with rfl | rfl | rfl | rfl <;> (intro h; cases h)

/-- the positions of three live leaves, requested in the order leaf 5, leaf 1, leaf 4 -/
theorem F5d_pos : [leaf 5, leaf 1, leaf 4].mapM F5d.posOf = some [(0, 4), (1, 0), (0, 3)] := by
  decide +kernel

/-- Goal 1 on that instance: the sorted positions `(0,3), (0,4), (1,0)` satisfy `PPHyp` -/
example : PPHyp F5d.numLeaves (sortPos [(0, 4), (1, 0), (0, 3)]) :=
  leaf_positions_PPHyp (by decide) F5d_pos

example : sortPos [(0, 4), (1, 0), (0, 3)] = [(0, 3), (0, 4), (1, 0)] := by decide

/-- the canonical proofs of `[leaf 4, leaf 1]` (request order) and of `[leaf 5, leaf 1]` -/
theorem F5d_canonA : F5d.canon [leaf 4, leaf 1] = some ([(0, 3), (1, 0)], [leaf 3]) := by decide +kernel
theorem F5d_canonB : F5d.canon [leaf 5, leaf 1] = some ([(0, 4), (1, 0)], [node (leaf 3) (leaf 4)]) := by
  decide +kernel

/-- `C14_addProof` applied: its hypotheses hold on this instance … -/
example : ∃ pC,
    F5d.canon ((unionPairs F5d [leaf 4, leaf 1] [leaf 5, leaf 1]).map (·.2)) =
      some ((unionPairs F5d [leaf 4, leaf 1] [leaf 5, leaf 1]).map (·.1), pC) ∧
    addProof (nLeaves F5d) ([(0, 3), (1, 0)].map (encU F5d)) [leaf 3] [leaf 4, leaf 1]
        ([(0, 4), (1, 0)].map (encU F5d)) [node (leaf 3) (leaf 4)] [leaf 5, leaf 1] =
      .ok ((unionPairs F5d [leaf 4, leaf 1] [leaf 5, leaf 1]).map (·.2),
        (unionPairs F5d [leaf 4, leaf 1] [leaf 5, leaf 1]).map (fun x => encU F5d x.1), pC) :=
  C14_addProof F5d _ _ _ _ _ _ F5d_small (by decide) (by decide) F5d_canonA F5d_canonB

/-- … and this is what it says there: targets 3, 4, 8 ascending with their leaves, proof `[leaf 3]` -/
example : addProof (nLeaves F5d) [3#64, 8#64] [leaf 3] [leaf 4, leaf 1]
    [4#64, 8#64] [node (leaf 3) (leaf 4)] [leaf 5, leaf 1] =
    .ok ([leaf 4, leaf 5, leaf 1], [3#64, 4#64, 8#64], [leaf 3]) := by decide +kernel

theorem F5d_canonU : F5d.canon [leaf 4, leaf 5, leaf 1] = some ([(0, 3), (0, 4), (1, 0)], [leaf 3]) := by
  decide +kernel

/-- `C14_missing` applied: held = `[leaf 5, leaf 1]` with its canonical proof, desired =
`[leaf 4, leaf 5]` -/
theorem F5d_posD : [leaf 4, leaf 5].mapM F5d.posOf = some [(0, 3), (0, 4)] := by decide +kernel

example :=
  C14_missing F5d F5d_small T_nonzero F5d_live [leaf 5, leaf 1] [leaf 4, leaf 5] (by decide) (by decide)
    _ _ _ F5d_canonB F5d_posD

/-- there: leaf 4 (position 3) is the extra target; of its proof positions 2 and 8 only 2 is
missing (8 is a held target) -/
example : getMissingPositions (nLeaves F5d) [4#64, 8#64] [3#64, 4#64] = [2#64] := by decide +kernel

/-- `C14_subset` applied: the proof of `[leaf 4, leaf 5, leaf 1]`, given in the parallel order
`leaf 1, leaf 5, leaf 4`, restricted to the targets 4 and 8 (in that order) -/
example :=
  C14_subset F5d [leaf 4, leaf 5, leaf 1] [(0, 3), (0, 4), (1, 0)] [leaf 3]
    [((1, 0), leaf 1), ((0, 4), leaf 5), ((0, 3), leaf 4)] [4#64, 8#64]
    F5d_small T_nonzero F5d_live (by decide) F5d_canonU
    (List.reverse_perm [((0, 3), leaf 4), ((0, 4), leaf 5), ((1, 0), leaf 1)]) (by decide)

/-- there: hashes and targets in the order of `wants`, and the canonical proof
`[node (leaf 3) (leaf 4)]` of `[leaf 5, leaf 1]` — a hash that is not part of the big proof but
is recomputed from it -/
example : getProofSubset (nLeaves F5d) [8#64, 4#64, 3#64] [leaf 3] [leaf 1, leaf 5, leaf 4] [4#64, 8#64] =
    .ok ([leaf 5, leaf 1], [4#64, 8#64], [node (leaf 3) (leaf 4)]) := by decide +kernel

/-- a wanted target that is not covered (position 2 = leaf 3) is an error -/
example : getProofSubset (nLeaves F5d) [8#64, 4#64, 3#64] [leaf 3] [leaf 1, leaf 5, leaf 4] [4#64, 2#64] = .err := by
  decide +kernel

end examples

end UtreexoVerif.Props.C14
