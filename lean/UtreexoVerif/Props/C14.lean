/-
  C14 — proof combination, restriction and completion are exact.

  Property text: "Combining two valid proofs of the same state gives the canonical proof of the
  union of their targets; restricting a valid proof to a subset of its targets gives the
  canonical proof of that subset with hashes and targets in the requested order, and fails
  with an error exactly when a requested target is not covered.  The positions reported as
  missing for proving extra targets are exactly the canonical proof positions that cannot be
  taken or computed from what is already held, and supplying the true hashes at those
  positions makes verification succeed."

  This file holds
  * the FULL statements, against the specification forest (`C14_addProof_statement`,
    `C14_subset_statement`, `C14_missing_statement`).  They are what the correspondence run
    evaluates on every generated case.  `Props/C14b.lean` and `Props/C14c.lean` prove the
    bodies of the `missing` and `addProof` statements for every target list that satisfies the
    hypotheses `PPHyp` of C16c's `proofPositions_spec` (nodes of the forest, none an ancestor
    of another — true of every set of leaves): `getMissingPositions_refines`,
    `addProof_refines`.  Not proved: that leaf positions of a `Spec.Forest` satisfy `PPHyp`
    (the last step to the two statements as written), and `C14_subset_statement` (needs the
    node list returned by `calculateHashes`, i.e. `CalcPlan.plan_run`, carried through
    `GetProofSubset`);
  * theorems about the transliterated models (`Model/ProofOps.lean`) for ALL inputs:
    totality under consistent lengths, the closed form of `AddProof`, parallelism and order of
    its outputs, the error behaviour and output order of `GetProofSubset`, and the set
    identity of `GetMissingPositions` over `ProofPositions`.
-/
import UtreexoVerif.Proofs.ProofOps
import UtreexoVerif.Props.C04

namespace UtreexoVerif.Props.C14
open UtreexoVerif Model Hasher Spec Proofs.ProofOps

section
variable {H : Type} [DecidableEq H] [Hasher H]

/-! ## Full statements (specification level) -/

/-- encoded position of a specification position -/
def encU (F : Forest H) (p : Pos) : U64 := BitVec.ofNat 64 (enc F.rows p)

def nLeaves (F : Forest H) : U64 := BitVec.ofNat 64 F.numLeaves

/-- insertion into a list of (position, leaf) pairs ascending by position (row, then offset) -/
def insertPair (x : Pos × H) : List (Pos × H) → List (Pos × H)
  | [] => [x]
  | y :: ys => if Forest.posLt x.1 y.1 then x :: y :: ys else if x.1 == y.1 then y :: ys else y :: insertPair x ys

/-- the live leaves of `A ∪ B` with their positions, ascending by position, no repetition -/
def unionPairs (F : Forest H) (A B : List H) : List (Pos × H) :=
  ((A ++ B).filterMap (fun l => (F.posOf l).map (fun p => (p, l)))).foldr insertPair []

/-- AddProof of the canonical proofs of two lists of live leaves (each in any request order) is
the canonical proof of the union: targets ascending, hashes parallel, canonical proof hashes. -/
def C14_addProof_statement : Prop :=
  ∀ (F : Forest H) (A B : List H) (tA tB : List Pos) (pA pB : List H),
    F.numLeaves < 2 ^ 63 → A.Nodup → B.Nodup →
    F.canon A = some (tA, pA) → F.canon B = some (tB, pB) →
    ∃ pC, F.canon ((unionPairs F A B).map (·.2)) = some ((unionPairs F A B).map (·.1), pC) ∧
      addProof (nLeaves F) (tA.map (encU F)) pA A (tB.map (encU F)) pB B =
        .ok ((unionPairs F A B).map (·.2), (unionPairs F A B).map (fun x => encU F x.1), pC)

/-- GetProofSubset of a canonical proof whose (target, hash) pairs are given in any parallel
order: for wanted targets that are all covered, the hashes and targets in the order of
`wants` with the canonical proof of exactly those leaves; an error otherwise. -/
def C14_subset_statement : Prop :=
  ∀ (F : Forest H) (U : List H) (tU : List Pos) (pU : List H) (σ : List (Pos × H)) (wants : List U64),
    F.numLeaves < 2 ^ 63 → U.Nodup →
    F.canon U = some (tU, pU) → σ.Perm (tU.zip U) → wants.Nodup →
    let ts := σ.map (fun x => encU F x.1)
    let hs := σ.map (·.2)
    (¬ (∀ w ∈ wants, w ∈ ts) → getProofSubset (nLeaves F) ts pU hs wants = .err) ∧
    ((∀ w ∈ wants, w ∈ ts) →
      let W := wants.filterMap (fun w => (σ.find? (fun x => encU F x.1 == w)).map (·.2))
      ∃ tW pW, F.canon W = some (tW, pW) ∧ tW.map (encU F) = wants ∧
        getProofSubset (nLeaves F) ts pU hs wants = .ok (W, wants, pW))

/-- GetMissingPositions for held leaves `A` and desired leaves `D`: ascending, exactly the
canonical proof positions of the extra leaves that are neither held targets, nor held proof
positions, nor computable from the held targets. -/
def C14_missing_statement : Prop :=
  ∀ (F : Forest H) (A D : List H) (tA tD : List Pos),
    F.numLeaves < 2 ^ 63 → A.mapM F.posOf = some tA → D.mapM F.posOf = some tD →
    let extra := tD.filter (fun p => !tA.contains p)
    let have_ := tA ++ F.proofPositions tA ++ F.computable tA
    getMissingPositions (nLeaves F) (tA.map (encU F)) (tD.map (encU F)) =
      ((F.proofPositions extra).filter (fun p => !have_.contains p)).map (encU F)

/-! ## AddProof: totality, closed form, parallel and ordered outputs -/

omit [DecidableEq H] [Hasher H] in
theorem zip_positions_hashes (l : HP H) : l.positions.zip l.hashes = l := by
  unfold HP.positions HP.hashes
  induction l with
  | nil => rfl
  | cons x xs ih => simp [ih]

/-- what "consistent lengths" means for `AddProof`: as many hashes as targets on both sides,
and as many proof hashes as `ProofPositions` asks for -/
structure AddProofConsistent (n : U64) (tA : List U64) (pA hA : List H) (tB : List U64) (pB hB : List H) : Prop where
  hashesA : hA.length = tA.length
  hashesB : hB.length = tB.length
  proofA : pA.length = (ProofPositions (sortU64 tA) n (TreeRows n)).1.length
  proofB : pB.length = (ProofPositions (sortU64 tB) n (TreeRows n)).1.length

/-- Closed form of `AddProof` on inputs of consistent lengths: no index expression of the Go
code is out of range (the model has an explicit `.panic` at each of them), and the result is
the sorted-list computation below — for arbitrary targets (unsorted, duplicates, outside the
forest) and arbitrary hashes. -/
theorem addProof_closed_form (n : U64) (tA : List U64) (pA hA : List H) (tB : List U64) (pB hB : List H)
    (hc : AddProofConsistent n tA pA hA tB pB hB) :
    addProof n tA pA hA tB pB hB = .ok (
      (mergeHP (sortHP (tA.zip hA)) (sortHP (tB.zip hB))).hashes,
      mergeU64 (sortU64 tA) (sortU64 tB),
      (subtractHP (subtractHP (mergeHP ((ProofPositions (sortU64 tA) n (TreeRows n)).1.zip pA)
          ((ProofPositions (sortU64 tB) n (TreeRows n)).1.zip pB))
        (mergeU64 (ProofPositions (sortU64 tA) n (TreeRows n)).2 (ProofPositions (sortU64 tB) n (TreeRows n)).2))
        (mergeU64 (sortU64 tA) (sortU64 tB))).hashes) := by
  unfold addProof
  simp only [bind, Out.bind]
  rw [mergeHP2_consistent _ _ _ _ hc.proofA hc.proofB]
  simp only [toHashAndPos2, hc.hashesA.symm, hc.hashesB.symm, if_true]
  rw [mergeHP2_consistent _ _ _ _ (by simp [HP.positions, HP.hashes]) (by simp [HP.positions, HP.hashes])]
  simp only [zip_positions_hashes]
  rfl

/-- `AddProof` is total on inputs of consistent lengths -/
theorem addProof_total (n : U64) (tA : List U64) (pA hA : List H) (tB : List U64) (pB hB : List H)
    (hc : AddProofConsistent n tA pA hA tB pB hB) :
    ∃ r, addProof n tA pA hA tB pB hB = .ok r :=
  ⟨_, addProof_closed_form n tA pA hA tB pB hB hc⟩

/-- The outputs of `AddProof` are parallel and ordered: the returned targets are the merge of
the two sorted target lists — ascending; strictly ascending (no duplicates) when neither
input repeats a target; a position is returned iff it is a target of A or of B — and the
i-th returned hash is a hash the caller paired with the i-th returned target. -/
theorem addProof_outputs (n : U64) (tA : List U64) (pA hA : List H) (tB : List U64) (pB hB : List H)
    (hc : AddProofConsistent n tA pA hA tB pB hB) (hs : List H) (ts : List U64) (ps : List H)
    (h : addProof n tA pA hA tB pB hB = .ok (hs, ts, ps)) :
    hs.length = ts.length ∧
    ts.Pairwise (· ≤ ·) ∧
    (tA.Nodup → tB.Nodup → ts.Pairwise (· < ·)) ∧
    (∀ x, x ∈ ts ↔ x ∈ tA ∨ x ∈ tB) ∧
    (∀ x ∈ ts.zip hs, x ∈ tA.zip hA ∨ x ∈ tB.zip hB) := by
  rw [addProof_closed_form n tA pA hA tB pB hB hc] at h
  simp only [Out.ok.injEq, Prod.mk.injEq] at h
  obtain ⟨h1, h2, _⟩ := h
  subst h1 h2
  have hpos : (mergeHP (sortHP (tA.zip hA)) (sortHP (tB.zip hB))).positions = mergeU64 (sortU64 tA) (sortU64 tB) := by
    rw [mergeHP_positions, sortHP_positions, sortHP_positions,
      zip_positions tA hA hc.hashesA.symm, zip_positions tB hB hc.hashesB.symm]
  refine ⟨?_, ?_, ?_, ?_, ?_⟩
  · rw [← hpos]; simp [HP.positions, HP.hashes]
  · exact sorted_mergeU64 _ _ (sorted_sortU64 tA) (sorted_sortU64 tB)
  · intro ha hb
    exact strict_mergeU64 _ _ (strict_sortU64 tA ha) (strict_sortU64 tB hb)
  · intro x
    rw [mem_mergeU64, mem_sortU64, mem_sortU64]
  · intro x hx
    rw [← hpos, zip_positions_hashes] at hx
    rcases mem_mergeHP _ _ x hx with hx | hx
    · exact Or.inl ((mem_sortBy _ x _).mp hx)
    · exact Or.inr ((mem_sortBy _ x _).mp hx)


/-- Set identity of the proof returned by `AddProof` over `ProofPositions` (for all inputs of
consistent lengths; the sortedness of the `ProofPositions` outputs is what C02's lemma gives
for sorted leaf positions): the returned proof hashes sit, in ascending order of position, at
exactly the proof positions of A or of B that are neither computable from A or B nor targets;
and each returned hash is the one an input proof carried at that position. -/
theorem addProof_proof_identity (n : U64) (tA : List U64) (pA hA : List H) (tB : List U64) (pB hB : List H)
    (hc : AddProofConsistent n tA pA hA tB pB hB)
    (hsA : (ProofPositions (sortU64 tA) n (TreeRows n)).1.Pairwise (· < ·))
    (hsB : (ProofPositions (sortU64 tB) n (TreeRows n)).1.Pairwise (· < ·))
    (hcA : (ProofPositions (sortU64 tA) n (TreeRows n)).2.Pairwise (· ≤ ·))
    (hcB : (ProofPositions (sortU64 tB) n (TreeRows n)).2.Pairwise (· ≤ ·)) :
    ∃ (l : HP H) (hs : List H) (ts : List U64),
      addProof n tA pA hA tB pB hB = .ok (hs, ts, l.hashes) ∧
      l.positions.Pairwise (· < ·) ∧
      (∀ x ∈ l, x ∈ (ProofPositions (sortU64 tA) n (TreeRows n)).1.zip pA ∨
                x ∈ (ProofPositions (sortU64 tB) n (TreeRows n)).1.zip pB) ∧
      (∀ p, p ∈ l.positions ↔
        (p ∈ (ProofPositions (sortU64 tA) n (TreeRows n)).1 ∨ p ∈ (ProofPositions (sortU64 tB) n (TreeRows n)).1) ∧
        p ∉ (ProofPositions (sortU64 tA) n (TreeRows n)).2 ∧ p ∉ (ProofPositions (sortU64 tB) n (TreeRows n)).2 ∧
        p ∉ tA ∧ p ∉ tB) := by
  refine ⟨_, _, _, addProof_closed_form n tA pA hA tB pB hB hc, ?_, ?_, ?_⟩
  · rw [subtractHP_positions, subtractHP_positions, mergeHP_positions,
      zip_positions _ _ hc.proofA.symm, zip_positions _ _ hc.proofB.symm]
    exact ((strict_mergeU64 _ _ hsA hsB).sublist (subtractU64_sublist _ _)).sublist (subtractU64_sublist _ _)
  · intro x hx
    have h1 := (subtractBy_sublist (fun (y : U64 × H) => y.1) _ _).subset hx
    have h2 := (subtractBy_sublist (fun (y : U64 × H) => y.1) _ _).subset h1
    exact mem_mergeHP _ _ x h2
  · intro p
    rw [subtractHP_positions, subtractHP_positions, mergeHP_positions,
      zip_positions _ _ hc.proofA.symm, zip_positions _ _ hc.proofB.symm]
    have hm := strict_mergeU64 _ _ hsA hsB
    rw [mem_subtractU64_iff _ _ (hm.sublist (subtractU64_sublist _ _))
        (sorted_mergeU64 _ _ (sorted_sortU64 tA) (sorted_sortU64 tB)),
      mem_subtractU64_iff _ _ hm (sorted_mergeU64 _ _ hcA hcB),
      mem_mergeU64, mem_mergeU64, mem_mergeU64, mem_sortU64, mem_sortU64]
    constructor
    · rintro ⟨⟨h1, h2⟩, h3⟩
      exact ⟨h1, fun h => h2 (Or.inl h), fun h => h2 (Or.inr h), fun h => h3 (Or.inl h), fun h => h3 (Or.inr h)⟩
    · rintro ⟨h1, h2, h3, h4, h5⟩
      exact ⟨⟨h1, fun h => h.elim h2 h3⟩, fun h => h.elim h4 h5⟩

/-! ## GetMissingPositions: order and set identity over `ProofPositions` -/

/-- The extra targets `GetMissingPositions` works on: desired minus held (for a desired list
without repetitions; any order of both lists). -/
theorem mem_extraTargets (held desired : List U64) (hn : desired.Nodup) (x : U64) :
    x ∈ subtractU64 (sortU64 desired) (sortU64 held) ↔ x ∈ desired ∧ x ∉ held := by
  rw [mem_subtractU64_iff _ _ (strict_sortU64 desired hn) (sorted_sortU64 held), mem_sortU64, mem_sortU64]

/-- Set identity of `GetMissingPositions` (for all inputs): with `D'` the extra targets and
provided `ProofPositions D'` is strictly ascending (it is for the sorted leaf positions of a
forest; C02's `ProofPositions` lemma), a position is reported iff it is a proof position of
the extra targets and is neither a held target, nor a proof position of the held targets, nor
computable from them; the report is a sub-list of `ProofPositions D'`, hence ascending. -/
theorem getMissingPositions_spec (n : U64) (held desired : List U64) :
    let A := sortU64 held
    let D' := subtractU64 (sortU64 desired) A
    let ppD := (ProofPositions D' n (TreeRows n)).1
    let ppA := ProofPositions A n (TreeRows n)
    (D' = [] → getMissingPositions n held desired = []) ∧
    (getMissingPositions n held desired).Sublist ppD ∧
    (D' ≠ [] → ppD.Pairwise (· < ·) →
      ∀ x, x ∈ getMissingPositions n held desired ↔
        x ∈ ppD ∧ x ∉ ppA.1 ∧ x ∉ held ∧ x ∉ ppA.2) := by
  intro A D' ppD ppA
  refine ⟨?_, ?_, ?_⟩
  · intro h
    unfold getMissingPositions
    simp only [show subtractU64 (sortU64 desired) (sortU64 held) = [] from h, List.isEmpty_nil, if_true]
  · unfold getMissingPositions
    simp only
    split
    · exact List.nil_sublist _
    · exact subtractU64_sublist _ _
  · intro hne hsorted x
    unfold getMissingPositions
    have hne' : (subtractU64 (sortU64 desired) (sortU64 held)).isEmpty = false := by
      cases hD : subtractU64 (sortU64 desired) (sortU64 held) with
      | nil => exact absurd hD hne
      | cons _ _ => rfl
    simp only [hne', Bool.false_eq_true, if_false]
    rw [mem_subtractU64_iff _ _ hsorted (sorted_sortU64 _), mem_sortU64]
    simp only [List.mem_append, mem_sortU64]
    constructor
    · rintro ⟨h1, h2⟩
      exact ⟨h1, fun h => h2 (Or.inl (Or.inl h)), fun h => h2 (Or.inl (Or.inr h)), fun h => h2 (Or.inr h)⟩
    · rintro ⟨h1, h2, h3, h4⟩
      refine ⟨h1, ?_⟩
      rintro ((h | h) | h)
      · exact h2 h
      · exact h3 h
      · exact h4 h

/-! ## GetProofSubset: order of the outputs, error behaviour, totality -/

omit [DecidableEq H] [Hasher H] in
theorem lookupHashes_ok (sub : HP H) (ws : List U64) (out : List H) (h : lookupHashes sub ws = .ok out) :
    out.length = ws.length ∧ ∀ x ∈ ws.zip out, x ∈ sub := by
  induction ws generalizing out with
  | nil =>
    simp only [lookupHashes, Out.ok.injEq] at h
    subst h
    simp
  | cons w ws ih =>
    simp only [lookupHashes] at h
    split at h
    · rename_i y hy
      cases hr : lookupHashes sub ws with
      | ok rest =>
        rw [hr] at h
        simp only [Out.bind, Out.ok.injEq] at h
        subst h
        obtain ⟨l1, l2⟩ := ih rest hr
        refine ⟨by simp [l1], ?_⟩
        intro x hx
        simp only [List.zip_cons_cons, List.mem_cons] at hx
        rcases hx with rfl | hx
        · have h1 := List.find?_some hy
          have hmem := List.mem_of_find?_eq_some hy
          simp only [beq_iff_eq] at h1
          rw [← h1]
          exact hmem
        · exact l2 x hx
      | err => rw [hr] at h; simp [Out.bind] at h
      | panic => rw [hr] at h; simp [Out.bind] at h
      | hang => rw [hr] at h; simp [Out.bind] at h
    · exact absurd h (by simp)

omit [DecidableEq H] [Hasher H] in
theorem lookupHashes_total (sub : HP H) (ws : List U64) (hall : ∀ w ∈ ws, w ∈ sub.positions) :
    ∃ out, lookupHashes sub ws = .ok out := by
  induction ws with
  | nil => exact ⟨[], rfl⟩
  | cons w ws ih =>
    obtain ⟨rest, hrest⟩ := ih (fun v hv => hall v (List.mem_cons_of_mem _ hv))
    have hw := hall w (List.mem_cons_self ..)
    simp only [HP.positions, List.mem_map] at hw
    obtain ⟨y, hy, hyw⟩ := hw
    have : (sub.find? (fun x => x.1 == w)).isSome := by
      rw [List.find?_isSome]
      exact ⟨y, hy, by simp [hyw]⟩
    obtain ⟨z, hz⟩ := Option.isSome_iff_exists.mp this
    exact ⟨z.2 :: rest, by simp only [lookupHashes, hz, hrest, Out.bind]⟩

/-- A successful `GetProofSubset` returns exactly the wanted targets in the requested order,
one hash per target, and the i-th hash is a hash the caller paired with the i-th wanted
target (for arbitrary parallel order of `targets`/`hashes`, duplicates included). -/
theorem getProofSubset_ok (n : U64) (targets : List U64) (proof hashes : List H) (wants : List U64)
    (hs : List H) (ts : List U64) (ps : List H)
    (h : getProofSubset n targets proof hashes wants = .ok (hs, ts, ps)) :
    ts = wants ∧ hs.length = wants.length ∧ ∀ x ∈ wants.zip hs, x ∈ targets.zip hashes := by
  unfold getProofSubset at h
  simp only [bind, Out.bind] at h
  split at h
  · exact absurd h (by simp)
  · unfold toHashAndPos at h
    by_cases hlen : targets.length = hashes.length
    · simp only [hlen, if_true] at h
      split at h <;> try (cases h; done)
      split at h <;> try (cases h; done)
      split at h <;> try (cases h; done)
      split at h
      · cases h
      · split at h <;> try (cases h; done)
        rename_i rh hmap
        simp only [pure, Out.ok.injEq, Prod.mk.injEq] at h
        obtain ⟨h1, h2, _⟩ := h
        subst h1 h2
        obtain ⟨k1, k2⟩ := lookupHashes_ok _ _ _ hmap
        refine ⟨rfl, k1, ?_⟩
        intro x hx
        have := (subsetHP_sublist _ _).subset (k2 x hx)
        exact (mem_sortBy _ x _).mp this
    · simp only [hlen, if_false] at h
      exact absurd h (by simp)

/-- `GetProofSubset` fails with an error whenever a wanted target is not among the proof's
targets — for arbitrary inputs, in any order. -/
theorem getProofSubset_err_of_uncovered (n : U64) (targets : List U64) (proof hashes : List H) (wants : List U64)
    (w : U64) (hw : w ∈ wants) (hu : w ∉ targets) :
    getProofSubset n targets proof hashes wants = .err := by
  unfold getProofSubset
  have : subtractU64 (sortU64 wants) (sortU64 targets) ≠ [] :=
    subtractU64_ne_nil _ _ w ((mem_sortU64 _ _).mpr hw) (fun h => hu ((mem_sortU64 _ _).mp h))
  have h2 : (subtractU64 (sortU64 wants) (sortU64 targets)).isEmpty = false := by
    cases hD : subtractU64 (sortU64 wants) (sortU64 targets) with
    | nil => exact absurd hD this
    | cons _ _ => rfl
  simp [h2]

/-- Conversely the coverage check passes when every wanted target is covered and no target is
wanted twice: an error can then only come from the proof itself (`calculateHashes` rejects
it, or a needed proof hash is not in it). -/
theorem coverage_check_passes (targets wants : List U64) (hn : wants.Nodup) (hc : ∀ w ∈ wants, w ∈ targets) :
    subtractU64 (sortU64 wants) (sortU64 targets) = [] :=
  subtractU64_eq_nil _ _ (strict_sortU64 wants hn) (sorted_sortU64 targets)
    (fun w hw => (mem_sortU64 _ _).mpr (hc w ((mem_sortU64 _ _).mp hw)))

/-- `GetProofSubset` is total on inputs of consistent lengths (as many hashes as targets, as
many proof hashes as `ProofPositions` asks for): it never panics — in particular
`slices.Index` never returns -1 — and never spins, for arbitrary targets, hashes and wants. -/
theorem getProofSubset_total (n : U64) (hn : n.toNat ≤ 2 ^ 63) (targets : List U64) (proof hashes : List H)
    (wants : List U64) (hlen : hashes.length = targets.length)
    (hplen : proof.length = (ProofPositions (sortU64 targets) n (TreeRows n)).1.length) :
    C04.Total (getProofSubset n targets proof hashes wants) := by
  unfold getProofSubset
  simp only [bind, Out.bind]
  split
  · exact ⟨by simp, by simp⟩
  · rename_i hcov
    have hcov' : subtractU64 (sortU64 wants) (sortU64 targets) = [] := by
      simpa using hcov
    unfold toHashAndPos
    simp only [hlen.symm, if_true]
    have hcalc := C04.calc_total_uncond n hn (some hashes) targets proof (by intro l hl; cases hl; exact hlen)
    cases hc : calculateHashes n (some hashes) targets proof with
    | hang => exact absurd hc hcalc.1
    | panic => exact absurd hc hcalc.2
    | err => exact ⟨by simp, by simp⟩
    | ok r =>
      simp only
      simp only [toHashAndPos2, hplen.symm, if_true]
      rw [mergeHP2_consistent _ _ _ _ (by simp [HP.positions, HP.hashes]) (by simp [HP.positions, HP.hashes])]
      simp only
      split
      · exact ⟨by simp, by simp⟩
      · -- the look-ups: the extracted sub-list carries exactly the sorted wants
        have hpos := subsetHP_positions_of_subtract_nil (sortHP (targets.zip hashes)) (sortU64 wants)
          (by rw [sortHP_positions, zip_positions targets hashes hlen.symm]; exact hcov')
        obtain ⟨out, hout⟩ := lookupHashes_total (subsetHP (sortHP (targets.zip hashes)) (sortU64 wants)) wants (by
          intro w hw
          rw [hpos]
          exact (mem_sortU64 _ _).mpr hw)
        rw [hout]
        exact ⟨by simp [pure], by simp [pure]⟩

end

/-! ## Non-vacuity: concrete instances over the free term algebra -/

section examples

/-- hashes as terms: injective `ph`, `zero` a distinguished leaf -/
inductive T where
  | leaf (n : Nat)
  | node (l r : T)
deriving DecidableEq, Repr

instance : Hasher T := ⟨T.node, T.leaf 0⟩

open T in
/-- 4 leaves `1 2 3 4` at positions 0..3, parents 4 = node 1 2, 5 = node 3 4.  The proof of
leaf 0 is `[leaf 2, node 3 4]`, that of leaf 2 is `[leaf 4, node 1 2]`; combined, the parents
become computable and only the two sibling leaves remain. -/
example : addProof (H := T) 4#64 [0#64] [leaf 2, node (leaf 3) (leaf 4)] [leaf 1]
    [2#64] [leaf 4, node (leaf 1) (leaf 2)] [leaf 3] =
    .ok ([leaf 1, leaf 3], [0#64, 2#64], [leaf 2, leaf 4]) := by decide +kernel

open T in
/-- the hypotheses of `addProof_closed_form` hold on that instance -/
example : AddProofConsistent (H := T) 4#64 [0#64] [leaf 2, node (leaf 3) (leaf 4)] [leaf 1]
    [2#64] [leaf 4, node (leaf 1) (leaf 2)] [leaf 3] :=
  ⟨rfl, rfl, by decide +kernel, by decide +kernel⟩

open T in
/-- restriction with targets/hashes in a non-sorted parallel order, wants in another order -/
example : getProofSubset (H := T) 4#64 [2#64, 0#64] [leaf 2, leaf 4] [leaf 3, leaf 1] [0#64] =
    .ok ([leaf 1], [0#64], [leaf 2, node (leaf 3) (leaf 4)]) := by decide +kernel

open T in
/-- an uncovered wanted target is an error -/
example : getProofSubset (H := T) 4#64 [2#64, 0#64] [leaf 2, leaf 4] [leaf 3, leaf 1] [0#64, 1#64] = .err := by
  decide +kernel

open T in
/-- a panic that inconsistent lengths trigger in the real code (reproduced by the harness,
kind `addproof:prooflen:panic`): proof A one hash short — `mergeSortedHashAndPos` indexes
`a.hashes[1]` of `hashAndPos{proofPosA, proofA.Proof}` whose slices have lengths 2 and 1 -/
theorem addProof_panics_on_short_proof :
    addProof (H := T) 4#64 [2#64] [leaf 4] [leaf 3] [0#64] [leaf 2, node (leaf 3) (leaf 4)] [leaf 1] = .panic := by
  decide +kernel

open T in
/-- … whereas a missing LAST proof hash can go unnoticed: `copy` of the shorter hash slice
just truncates the merged `hashAndPos` (here position 5 is dropped, which the union does not
need anyway) -/
theorem addProof_silent_on_short_proof :
    addProof (H := T) 4#64 [0#64] [leaf 2] [leaf 1] [2#64] [leaf 4, node (leaf 1) (leaf 2)] [leaf 3] =
      .ok ([leaf 1, leaf 3], [0#64, 2#64], [leaf 2, leaf 4]) := by
  decide +kernel

/-- holding the proof of leaf 0 (targets [0]: proof positions 1 and 5, computable 4 and 6), the
positions missing for leaf 2 are just its sibling 3: 4 is computable, 5 is not needed -/
example : getMissingPositions 4#64 [0#64] [2#64] = [3#64] := by decide +kernel

/-- the hypotheses of `getMissingPositions_spec` (extra targets non-empty, strictly ascending
proof positions) hold on that instance -/
example : subtractU64 (sortU64 [2#64]) (sortU64 [0#64]) ≠ [] ∧
    (ProofPositions (subtractU64 (sortU64 [2#64]) (sortU64 [0#64])) 4#64 (TreeRows 4#64)).1 = [3#64, 4#64] := by
  decide +kernel


/-! ### the full statements hold on a concrete instance (sanity of the statements themselves) -/

open T in
/-- 4 live leaves -/
def F4 : Forest T := ⟨[some (leaf 1), some (leaf 2), some (leaf 3), some (leaf 4)]⟩

open T in
/-- the body of `C14_addProof_statement` at `F4`, A = [leaf 3, leaf 1] (request order), B = [leaf 2] -/
example :
    ∃ tA pA tB pB pC, F4.canon [leaf 3, leaf 1] = some (tA, pA) ∧ F4.canon [leaf 2] = some (tB, pB) ∧
      F4.canon ((unionPairs F4 [leaf 3, leaf 1] [leaf 2]).map (·.2)) = some ((unionPairs F4 [leaf 3, leaf 1] [leaf 2]).map (·.1), pC) ∧
      addProof (nLeaves F4) (tA.map (encU F4)) pA [leaf 3, leaf 1] (tB.map (encU F4)) pB [leaf 2] =
        .ok ((unionPairs F4 [leaf 3, leaf 1] [leaf 2]).map (·.2), (unionPairs F4 [leaf 3, leaf 1] [leaf 2]).map (fun x => encU F4 x.1), pC) :=
  ⟨[(0, 2), (0, 0)], [leaf 2, leaf 4], [(0, 1)], [leaf 1, node (leaf 3) (leaf 4)], [leaf 4], by decide +kernel⟩

open T in
/-- the body of `C14_missing_statement` at `F4`, held = [leaf 1], desired = [leaf 3, leaf 1] -/
example :
    let tA : List Pos := [(0, 0)]
    let tD : List Pos := [(0, 2), (0, 0)]
    let extra := tD.filter (fun p => !tA.contains p)
    let have_ := tA ++ F4.proofPositions tA ++ F4.computable tA
    getMissingPositions (nLeaves F4) (tA.map (encU F4)) (tD.map (encU F4)) =
      ((F4.proofPositions extra).filter (fun p => !have_.contains p)).map (encU F4) := by decide +kernel

open T in
/-- the body of `C14_subset_statement` at `F4`: U = [leaf 1, leaf 3] given in the order (leaf 3, leaf 1), wants = [0] -/
example :
    let σ : List (Pos × T) := [((0, 2), leaf 3), ((0, 0), leaf 1)]
    let ts := σ.map (fun x => encU F4 x.1)
    let hs := σ.map (·.2)
    F4.canon [leaf 1, leaf 3] = some ([(0, 0), (0, 2)], [leaf 2, leaf 4]) ∧
    getProofSubset (nLeaves F4) ts [leaf 2, leaf 4] hs [0#64] = .ok ([leaf 1], [0#64], [leaf 2, node (leaf 3) (leaf 4)]) ∧
    F4.canon [leaf 1] = some ([(0, 0)], [leaf 2, node (leaf 3) (leaf 4)]) ∧
    getProofSubset (nLeaves F4) ts [leaf 2, leaf 4] hs [0#64, 1#64] = .err := by decide +kernel

end examples

end UtreexoVerif.Props.C14
