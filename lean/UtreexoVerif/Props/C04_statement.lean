/-
  C04 — verifiers are total on untrusted input and reject atomically.
  Full statements; proofs in Props/C04.lean.
-/
import UtreexoVerif.Spec.View
import UtreexoVerif.Model.Verifiers
import UtreexoVerif.Model.Stump

namespace UtreexoVerif.Props.C04
open UtreexoVerif Model Hasher

/-- The two facts about rows that the step count rests on (discharged from the geometry of
utils.go in `Proofs/RowFacts.lean`): a position admitted by the row cursor lies on a row of
the forest, and `Parent` moves one row up. -/
structure RowFacts (n : U64) : Prop where
  detectRow_le : ∀ (p : U64) (row : U8), row ≤ TreeRows n →
    p ≤ (maxPositionAtRow row (TreeRows n) n).1 → DetectRow p (TreeRows n) ≤ TreeRows n
  detectRow_parent : ∀ (p : U64), DetectRow p (TreeRows n) ≤ TreeRows n →
    (DetectRow (Parent p (TreeRows n)) (TreeRows n)).toNat = (DetectRow p (TreeRows n)).toNat + 1

variable (H : Type) [DecidableEq H] [Hasher H]

def Total {α : Type} (o : Out α) : Prop := o ≠ .hang ∧ o ≠ .panic

/-- `calculateHashes` never spins and never panics, for arbitrary targets (up to 2^64-1,
duplicates, any order) and arbitrary proofs: its main loop needs at most
`(|targets|+1)·(rows+2)` iterations (that is the fuel `calcFuel`), each with an inner row
cursor of at most `rows+1` steps. -/
def calc_total_statement : Prop :=
  ∀ (n : U64), n.toNat ≤ 2^63 → RowFacts n →
  ∀ (hs : Option (List H)) (ts : List U64) (ps : List H),
    (∀ l, hs = some l → l.length = ts.length) →
    Total (calculateHashes n hs ts ps)

def verify_total_statement : Prop :=
  ∀ (n : U64), n.toNat ≤ 2^63 → RowFacts n →
  ∀ (roots hs : List H) (ts : List U64) (ps : List H), Total (verify n roots hs ts ps)

def pollardVerify_total_statement : Prop :=
  ∀ (n : U64), n.toNat ≤ 2^63 → RowFacts n →
  ∀ (roots hs : List H) (ts : List U64) (ps : List H), Total (pollardVerify n roots hs ts ps)

def mapVerify_total_statement : Prop :=
  ∀ (n : U64) (totalRows : U8), n.toNat ≤ 2^63 → RowFacts n →
  ∀ (roots hs : List H) (ts : List U64) (ps : List H), Total (mapVerify n totalRows roots hs ts ps)

/-- A rejected `Stump.Update` leaves the leaf count and every root unchanged. -/
def update_reject_atomic_statement : Prop :=
  ∀ (nonZero : H) (s : Stump H) (dels adds : List H) (ts : List U64) (ps : List H),
    (s.updateSt nonZero dels adds ts ps).2 = .err → (s.updateSt nonZero dels adds ts ps).1 = s

/-- well-formed stump: one root per set bit of the leaf count -/
def WellFormed (s : Stump H) : Prop := (s.roots.length : Int) = GoInt.onesCount64 s.numLeaves

/-- `Stump.Update` is total on a well-formed stump (that does not overflow 2^63 leaves). -/
def update_total_statement : Prop :=
  ∀ (nonZero : H), nonZero ≠ (zero : H) → ∀ (s : Stump H), WellFormed H s →
  ∀ (dels adds : List H) (ts : List U64) (ps : List H),
    s.numLeaves.toNat + adds.length ≤ 2^63 → RowFacts s.numLeaves →
    Total (s.updateSt nonZero dels adds ts ps).2

end UtreexoVerif.Props.C04
