/-
  C16 (continued) — the proof-position functions `proofPosition` and `ProofPositions`.
-/
import UtreexoVerif.Proofs.ProofPosFinal

namespace UtreexoVerif.Props.C16
open UtreexoVerif UtreexoVerif.GoInt UtreexoVerif.Proofs

/-! ### `proofPosition` (single target) -/

theorem proofPositionLoop_spec {H h R : Nat} (n : U64) (hT : Model.TreeRows n = H8 h)
    (hH : H ≤ 63) (hhH : h ≤ H) :
    ∀ (d r o : Nat), BelowRoot n.toNat r o R → r + d = R →
      ∀ (f1 f2 : Nat) (acc : List U64), d < f1 → d ≤ f2 →
        Model.proofPositionLoop n (H8 H) f1 (encU H r o) acc =
          acc ++ ((Spec.Forest.pathUp n.toNat f2 (r, o)).dropLast.map
            (fun p => encP H (Spec.sib p))) := by
  have hh : h ≤ 63 := by omega
  have hn := le_of_treeRows n hT hh
  intro d
  induction d with
  | zero =>
    intro r o hb hrd f1 f2 acc hf1 _
    obtain ⟨f, rfl⟩ : ∃ f, f1 = f + 1 := ⟨f1 - 1, by omega⟩
    obtain ⟨_, hr, ho⟩ := belowRoot_valid hn hb
    have hoH : o < 2 ^ (H - r) := Nat.lt_of_lt_of_le ho (two_pow_le_of_le (by omega))
    have hroot : Spec.isRootPos n.toNat (r, o) = true := by
      rw [belowRoot_isRootPos hb]; simp; omega
    unfold Model.proofPositionLoop
    rw [isRootPositionTotalRows_enc n hT hH (by omega) hoH hh hr ho, hroot]
    cases f2 with
    | zero => simp [Spec.Forest.pathUp]
    | succ f2 => simp [Spec.Forest.pathUp, hroot]
  | succ d ih =>
    intro r o hb hrd f1 f2 acc hf1 hf2
    obtain ⟨f, rfl⟩ : ∃ f, f1 = f + 1 := ⟨f1 - 1, by omega⟩
    obtain ⟨g, rfl⟩ : ∃ g, f2 = g + 1 := ⟨f2 - 1, by omega⟩
    obtain ⟨hRh, hr, ho⟩ := belowRoot_valid hn hb
    have hoH : o < 2 ^ (H - r) := Nat.lt_of_lt_of_le ho (two_pow_le_of_le (by omega))
    have hroot : Spec.isRootPos n.toNat (r, o) = false := by
      rw [belowRoot_isRootPos hb]; simp; omega
    have hb' := belowRoot_parent hb (by omega)
    unfold Model.proofPositionLoop
    rw [isRootPositionTotalRows_enc n hT hH (by omega) hoH hh hr ho, hroot]
    simp only [Bool.false_eq_true, if_false]
    rw [parent_enc hH (by omega) hoH, ih (r + 1) (o / 2) hb' (by omega) f g _ (by omega) (by omega),
      sibling_enc_sib hH (by omega) hoH]
    have hne : Spec.Forest.pathUp n.toNat g (Spec.parent (r, o)) ≠ [] := by
      cases g <;> simp [Spec.Forest.pathUp] <;> split <;> simp
    rw [Spec.Forest.pathUp, hroot]
    simp only [Bool.false_eq_true, if_false]
    rw [List.dropLast_cons_of_ne_nil hne, List.map_cons, List.append_assoc]
    rfl

/-- `proofPosition target` lists the siblings of the nodes on the path from the target up to
(not including) the root of its tree — for every position of the forest, in a forest
allocated for `H ≥ TreeRows numLeaves` rows -/
theorem proofPosition_enc {H h r o R : Nat} (n : U64) (hT : Model.TreeRows n = H8 h)
    (hH : H ≤ 63) (hhH : h ≤ H) (hb : BelowRoot n.toNat r o R) :
    Model.proofPosition (encU H r o) n (H8 H) =
      (Spec.Forest.pathUp n.toNat (H + 1) (r, o)).dropLast.map (fun p => encP H (Spec.sib p)) := by
  have hh : h ≤ 63 := by omega
  have hn := le_of_treeRows n hT hh
  obtain ⟨hRh, hr, ho⟩ := belowRoot_valid hn hb
  have hoH : o < 2 ^ (H - r) := Nat.lt_of_lt_of_le ho (two_pow_le_of_le (by omega))
  unfold Model.proofPosition
  simp only [detectRow_enc hH (show r ≤ H by omega) hoH]
  have hgt : ¬ (H8 r > H8 H) := by
    rw [gt_iff_lt, BitVec.lt_def, toNat_H8 hH, toNat_H8 (by omega)]; omega
  rw [if_neg hgt, toNat_H8 hH, toNat_H8 (by omega),
    proofPositionLoop_spec n hT hH hhH (R - r) r o hb (by have := hb.1; omega) (H - r + 1) (H + 1) []
      (by omega) (by omega)]
  rfl

/-- 5 leaves, leaf 1: siblings 0 and 9 -/
example : Model.proofPosition 1#64 5#64 3#8 = [0#64, 9#64] := by decide +kernel
example : Model.proofPosition (encU 3 0 1) 5#64 (H8 3) =
    (Spec.Forest.pathUp 5 4 (0, 1)).dropLast.map (fun p => encP 3 (Spec.sib p)) :=
  proofPosition_enc (h := 3) (R := 2) 5#64 (by decide) (by decide) (by decide)
    ⟨by decide, by decide, by decide⟩
example : Spec.Forest.pathUp 5 4 (0, 1) = [(0, 1), (1, 0), (2, 0)] := by decide


/-! ### `ProofPositions` -/

/-- **`ProofPositions` is the (row, offset) algorithm `refPP`** (`Proofs/ProofPosRef.lean`: per
row a left-to-right scan using only `parent`, `sib`, `isRootPos`, then a sort and the removal
of adjacent duplicates) — for every
list of targets that are nodes of the forest (sorted or not, nested or not), in a forest
allocated for `H ≥ TreeRows numLeaves` rows, `H ≤ 63`. -/
theorem proofPositions_refines {H h : Nat} (n : U64) (hT : Model.TreeRows n = H8 h)
    (hH : H ≤ 63) (hhH : h ≤ H) (targets : List Spec.Pos)
    (htg : ∀ p ∈ targets, ∃ R, BelowRoot n.toNat p.1 p.2 R) :
    Model.ProofPositions (targets.map (encP H)) n (H8 H) =
      ((refPP n.toNat H targets).1.map (encP H), (refPP n.toNat H targets).2.map (encP H)) :=
  proofPositions_eq_refPP n hT hH hhH targets htg

/-- **`ProofPositions` on sorted, un-nested targets is the specification's canonical answer.**
For a forest `F` with `numLeaves` leaves, allocated for `H` rows (`TreeRows numLeaves ≤ H ≤ 63`),
and targets that are nodes of the forest, strictly sorted, none an ancestor of another
(`PPHyp`; true of every set of leaves of the collapsed forest):
`ProofPositions` returns exactly `Spec.Forest.proofPositions` (the siblings on the targets'
paths that are neither targets nor computable, by row then position) and
`Spec.Forest.computable` (the strict ancestors of the targets up to the roots). -/
theorem proofPositions_spec {Hh : Type} (F : Spec.Forest Hh) {H h : Nat} (n : U64)
    (hn : n.toNat = F.numLeaves) (hT : Model.TreeRows n = H8 h) (hH : H ≤ 63) (hhH : h ≤ H)
    (targets : List Spec.Pos) (hyp : PPHyp F.numLeaves targets) :
    Model.ProofPositions (targets.map (encP H)) n (H8 H) =
      ((F.proofPositions targets).map (encP H), (F.computable targets).map (encP H)) := by
  have hrows : F.rows ≤ H := by
    have h1 := treeRows_spec n.isLt
    rw [BitVec.ofNat_toNat, BitVec.setWidth_eq, hT, toNat_H8 (by omega), hn] at h1
    unfold Spec.Forest.rows
    omega
  rw [proofPositions_eq_refPP n hT hH hhH targets (by rw [hn]; exact hyp.inForest), hn,
    refPP_eq_spec F hyp hrows]

/-- **`ProofPositions` is the specification's canonical answer for EVERY sorted list of forest
nodes — no antichain hypothesis.**  For a forest `F` with `numLeaves` leaves, allocated for `H`
rows (`TreeRows numLeaves ≤ H ≤ 63`), and targets that are nodes of the forest, strictly
ascending (`PPHyp0`; a target may be an ancestor of other targets): `ProofPositions` returns
LITERALLY the lists `Spec.Forest.proofPositions` (the siblings on the targets' paths that are
neither targets nor computable — i.e. not themselves on a path —, by row then position, each
once) and `Spec.Forest.computable` (the strict ancestors of the targets up to the roots, by row
then position, each once; an explicit target that is an ancestor of another target is
computable and is listed).  This is the repaired function (per-row `slices.Compact`); the
function before the repair fails it (`proofPositions_nested_fails`). -/
theorem proofPositions_spec_all {Hh : Type} (F : Spec.Forest Hh) {H h : Nat} (n : U64)
    (hn : n.toNat = F.numLeaves) (hT : Model.TreeRows n = H8 h) (hH : H ≤ 63) (hhH : h ≤ H)
    (targets : List Spec.Pos) (hyp : PPHyp0 F.numLeaves targets) :
    Model.ProofPositions (targets.map (encP H)) n (H8 H) =
      ((F.proofPositions targets).map (encP H), (F.computable targets).map (encP H)) := by
  have hrows : F.rows ≤ H := by
    have h1 := treeRows_spec n.isLt
    rw [BitVec.ofNat_toNat, BitVec.setWidth_eq, hT, toNat_H8 (by omega), hn] at h1
    unfold Spec.Forest.rows
    omega
  rw [proofPositions_eq_refPP n hT hH hhH targets (by rw [hn]; exact hyp.inForest), hn,
    refPP_eq_spec_all F hyp hrows]

/-- the hypotheses of `proofPositions_spec_all` in elementary terms: every target `(r, o)` is
a node of the forest (`(o+1)·2^r ≤ numLeaves` restricted to a tree: it lies below a root) and
the list is strictly ascending by (row, offset) — which is the order of the encoded positions -/
theorem PPHyp0_iff {n : Nat} {targets : List Spec.Pos} :
    PPHyp0 n targets ↔
      (∀ t ∈ targets, ∃ R, BelowRoot n t.1 t.2 R) ∧
      targets.Pairwise (fun a b => a.1 < b.1 ∨ (a.1 = b.1 ∧ a.2 < b.2)) := by
  constructor
  · rintro ⟨h1, h2⟩
    exact ⟨h1, List.Pairwise.imp (fun h => PLt_iff.1 h) h2⟩
  · rintro ⟨h1, h2⟩
    exact ⟨h1, List.Pairwise.imp (fun h => PLt_iff.2 h) h2⟩

/-- 5 leaves; targets: leaf 1 and leaf 4 (the lone root).  Proof positions 0 and 9;
computable 8 and 12. -/
def F5 : Spec.Forest Unit := ⟨[some (), some (), some (), some (), some ()]⟩

example : Model.ProofPositions [1#64, 4#64] 5#64 3#8 = ([0#64, 9#64], [8#64, 12#64]) := by
  decide +kernel

theorem F5_hyp : PPHyp F5.numLeaves [(0, 1), (0, 4)] where
  inForest := by
    intro t ht
    simp only [List.mem_cons, List.not_mem_nil, or_false] at ht
    rcases ht with rfl | rfl
    · exact ⟨2, by decide, by decide, by decide⟩
    · exact ⟨0, by decide, by decide, by decide⟩
  sorted := by decide
  anti := by
    intro a ha b hb hab
    simp only [List.mem_cons, List.not_mem_nil, or_false] at ha hb
    rcases ha with rfl | rfl <;> rcases hb with rfl | rfl
    · rfl
    · exact absurd hab.2 (by decide)
    · exact absurd hab.2 (by decide)
    · rfl

example : Model.ProofPositions ([(0, 1), (0, 4)].map (encP 3)) 5#64 (H8 3) =
    ((F5.proofPositions [(0, 1), (0, 4)]).map (encP 3), (F5.computable [(0, 1), (0, 4)]).map (encP 3)) :=
  proofPositions_spec F5 (h := 3) 5#64 (by decide) (by decide) (by decide) (by decide) _ F5_hyp
example : F5.proofPositions [(0, 1), (0, 4)] = [(0, 0), (1, 1)] ∧
    F5.computable [(0, 1), (0, 4)] = [(1, 0), (2, 0)] := by decide

/-- **Nested targets: the function BEFORE the repair fails the property** (recorded finding
`C16.proofpositions.nested`; `Model.ProofPositionsOld` is the loop without the per-row
`slices.Compact`).  4 leaves, targets 2, 3 and their parent 5 (`(0,2), (0,3), (1,1)`): the
canonical proof is position 4 = `(1,0)`, the sibling of target 5, but the old `ProofPositions`
returns no proof position at all: the parent computed from the pair (2,3) duplicates target 5
and, 5 being a right sibling, `rightSib(5) == 5` pairs the duplicate with itself.  (Same result
from the unrepaired Go code.)  With targets 0, 1, 4 the sibling 5 is reported twice and 6 is
computed twice. -/
def F4 : Spec.Forest Unit := ⟨[some (), some (), some (), some ()]⟩

theorem proofPositions_nested_fails :
    Model.ProofPositionsOld ([(0, 2), (0, 3), (1, 1)].map (encP 2)) 4#64 2#8 = ([], [5#64, 6#64]) ∧
    (F4.proofPositions [(0, 2), (0, 3), (1, 1)]).map (encP 2) = [4#64] ∧
    Model.ProofPositionsOld ([(0, 0), (0, 1), (1, 0)].map (encP 2)) 4#64 2#8 =
      ([5#64, 5#64], [4#64, 6#64, 6#64]) ∧
    (F4.proofPositions [(0, 0), (0, 1), (1, 0)]).map (encP 2) = [5#64] := by
  decide +kernel

/-- the two witnesses of the finding, on the repaired function: canonical -/
theorem proofPositions_nested_repaired :
    Model.ProofPositions [2#64, 3#64, 5#64] 4#64 2#8 = ([4#64], [5#64, 6#64]) ∧
    Model.ProofPositions [0#64, 1#64, 4#64] 4#64 2#8 = ([5#64], [4#64, 6#64]) := by
  decide +kernel

/-- non-vacuity of `proofPositions_spec_all` on nested targets: 4 leaves, targets 2, 3 and
their parent 5 -/
theorem F4_hyp0 : PPHyp0 F4.numLeaves [(0, 2), (0, 3), (1, 1)] where
  inForest := by
    intro t ht
    simp only [List.mem_cons, List.not_mem_nil, or_false] at ht
    rcases ht with rfl | rfl | rfl <;> exact ⟨2, by decide, by decide, by decide⟩
  sorted := by decide

example : Model.ProofPositions ([(0, 2), (0, 3), (1, 1)].map (encP 2)) 4#64 (H8 2) =
    ((F4.proofPositions [(0, 2), (0, 3), (1, 1)]).map (encP 2),
      (F4.computable [(0, 2), (0, 3), (1, 1)]).map (encP 2)) :=
  proofPositions_spec_all F4 (h := 2) 4#64 (by decide) (by decide) (by decide) (by decide) _ F4_hyp0
example : F4.proofPositions [(0, 2), (0, 3), (1, 1)] = [(1, 0)] ∧
    F4.computable [(0, 2), (0, 3), (1, 1)] = [(1, 1), (2, 0)] := by decide
/-- the target (1,1) IS an ancestor of the targets (0,2), (0,3): the antichain hypothesis of
`proofPositions_spec` fails here -/
example : Anc (1, 1) (0, 2) ∧ ((1, 1) : Spec.Pos) ≠ (0, 2) := ⟨⟨by decide, by decide⟩, by decide⟩

/-! ### the same on `uint64` lists -/

/-- every `uint64` that `inForest` accepts (forest of `n ≤ 2^H` leaves allocated for `H` rows)
is the encoding of a node of the forest -/
theorem decode_inForest {H : Nat} (hH : H ≤ 63) (n : U64) (hn : n.toNat ≤ 2 ^ H) (t : U64)
    (hin : Model.inForest t n (H8 H) = true) :
    ∃ p : Spec.Pos, t = encP H p ∧ ValidH H p ∧ ∃ R, BelowRoot n.toNat p.1 p.2 R := by
  have hlt : t.toNat < 2 ^ (H + 1) - 1 := by
    apply Classical.byContradiction
    intro hc
    rw [inForest_out_of_range hH t n (by omega), decide_eq_true_iff, BitVec.lt_def] at hin
    have : 2 ^ (H + 1) = 2 * 2 ^ H := by rw [Nat.pow_succ]; omega
    have := Nat.two_pow_pos H
    omega
  obtain ⟨r, o, hr, ho, rfl⟩ := position_exists (h := H) t hlt
  obtain ⟨R, hR⟩ := (inForest_iff_below_root hH hr ho n).1 hin
  exact ⟨(r, o), rfl, ⟨hr, ho⟩, R, hR⟩

theorem decode_targets {H : Nat} (hH : H ≤ 63) (n : U64) (hn : n.toNat ≤ 2 ^ H) :
    ∀ ts : List U64, (∀ t ∈ ts, Model.inForest t n (H8 H) = true) →
      ∃ targets : List Spec.Pos, ts = targets.map (encP H) ∧
        ∀ p ∈ targets, ValidH H p ∧ ∃ R, BelowRoot n.toNat p.1 p.2 R
  | [], _ => ⟨[], rfl, by simp⟩
  | t :: ts, h => by
    obtain ⟨p, rfl, hv, hb⟩ := decode_inForest hH n hn t (h t (by simp))
    obtain ⟨tg, rfl, htg⟩ := decode_targets hH n hn ts (fun t' ht' => h t' (List.mem_cons_of_mem _ ht'))
    refine ⟨p :: tg, rfl, ?_⟩
    intro q hq
    rcases List.mem_cons.1 hq with rfl | hq
    · exact ⟨hv, hb⟩
    · exact htg q hq

/-- **`ProofPositions` on `uint64` lists**: for EVERY strictly ascending list `ts` of positions
that `inForest` accepts — nested or not — the result is literally the specification's canonical
pair of lists for the decoded targets. -/
theorem proofPositions_spec_all_u64 {Hh : Type} (F : Spec.Forest Hh) {H h : Nat} (n : U64)
    (hn : n.toNat = F.numLeaves) (hT : Model.TreeRows n = H8 h) (hH : H ≤ 63) (hhH : h ≤ H)
    (ts : List U64) (hasc : ts.Pairwise (· < ·))
    (hin : ∀ t ∈ ts, Model.inForest t n (H8 H) = true) :
    ∃ targets : List Spec.Pos, ts = targets.map (encP H) ∧ PPHyp0 F.numLeaves targets ∧
      Model.ProofPositions ts n (H8 H) =
        ((F.proofPositions targets).map (encP H), (F.computable targets).map (encP H)) := by
  have hnle : n.toNat ≤ 2 ^ H :=
    Nat.le_trans (le_of_treeRows n hT (by omega)) (two_pow_le_of_le hhH)
  obtain ⟨targets, rfl, htg⟩ := decode_targets hH n hnle ts hin
  have hyp : PPHyp0 F.numLeaves targets := by
    refine ⟨fun t ht => by rw [← hn]; exact (htg t ht).2, ?_⟩
    rw [List.pairwise_map] at hasc
    exact List.Pairwise.imp_of_mem
      (fun {a b} ha hb hab => (encP_lt_iff hH (htg a ha).1 (htg b hb).1).1 hab) hasc
  exact ⟨targets, rfl, hyp, proofPositions_spec_all F n hn hT hH hhH targets hyp⟩

example : ∃ targets : List Spec.Pos, [2#64, 3#64, 5#64] = targets.map (encP 2) ∧
    PPHyp0 F4.numLeaves targets ∧
    Model.ProofPositions [2#64, 3#64, 5#64] 4#64 (H8 2) =
      ((F4.proofPositions targets).map (encP 2), (F4.computable targets).map (encP 2)) :=
  proofPositions_spec_all_u64 F4 (h := 2) 4#64 (by decide) (by decide) (by decide) (by decide) _
    (by simp only [List.pairwise_cons, List.mem_cons, List.not_mem_nil, or_false, forall_eq_or_imp,
          forall_eq, List.Pairwise.nil, and_true, false_imp_iff, implies_true]; decide)
    (by
      intro t ht
      simp only [List.mem_cons, List.not_mem_nil, or_false] at ht
      rcases ht with rfl | rfl | rfl <;> decide +kernel)

end UtreexoVerif.Props.C16
