/-
  C16 (continued) — the proof-position functions `proofPosition` and `ProofPositions`.
-/
import UtreexoVerif.Proofs.ProofPosFinal

namespace UtreexoVerif.Props.C16
open UtreexoVerif UtreexoVerif.GoInt UtreexoVerif.Proofs

/-! ### `proofPosition` (single target) -/

theorem proofPositionLoop_spec {H h R : Nat} (n : U64) (hT : Model.TreeRows n = H8 h)
    (hH : H ≤ 63) (hhH : h ≤ H) :
    ∀ (d r o : Nat), BelowRoot n.toNat r o R → r + d = R →
      ∀ (f1 f2 : Nat) (acc : List U64), d < f1 → d ≤ f2 →
        Model.proofPositionLoop n (H8 H) f1 (encU H r o) acc =
          acc ++ ((Spec.Forest.pathUp n.toNat f2 (r, o)).dropLast.map
            (fun p => encP H (Spec.sib p))) := by
  have hh : h ≤ 63 := by omega
  have hn := le_of_treeRows n hT hh
  intro d
  induction d with
  | zero =>
    intro r o hb hrd f1 f2 acc hf1 _
    obtain ⟨f, rfl⟩ : ∃ f, f1 = f + 1 := ⟨f1 - 1, by omega⟩
    obtain ⟨_, hr, ho⟩ := belowRoot_valid hn hb
    have hoH : o < 2 ^ (H - r) := Nat.lt_of_lt_of_le ho (two_pow_le_of_le (by omega))
    have hroot : Spec.isRootPos n.toNat (r, o) = true := by
      rw [belowRoot_isRootPos hb]; simp; omega
    unfold Model.proofPositionLoop
    rw [isRootPositionTotalRows_enc n hT hH (by omega) hoH hh hr ho, hroot]
    cases f2 with
    | zero => simp [Spec.Forest.pathUp]
    | succ f2 => simp [Spec.Forest.pathUp, hroot]
  | succ d ih =>
    intro r o hb hrd f1 f2 acc hf1 hf2
    obtain ⟨f, rfl⟩ : ∃ f, f1 = f + 1 := ⟨f1 - 1, by omega⟩
    obtain ⟨g, rfl⟩ : ∃ g, f2 = g + 1 := ⟨f2 - 1, by omega⟩
    obtain ⟨hRh, hr, ho⟩ := belowRoot_valid hn hb
    have hoH : o < 2 ^ (H - r) := Nat.lt_of_lt_of_le ho (two_pow_le_of_le (by omega))
    have hroot : Spec.isRootPos n.toNat (r, o) = false := by
      rw [belowRoot_isRootPos hb]; simp; omega
    have hb' := belowRoot_parent hb (by omega)
    unfold Model.proofPositionLoop
    rw [isRootPositionTotalRows_enc n hT hH (by omega) hoH hh hr ho, hroot]
    simp only [Bool.false_eq_true, if_false]
    rw [parent_enc hH (by omega) hoH, ih (r + 1) (o / 2) hb' (by omega) f g _ (by omega) (by omega),
      sibling_enc_sib hH (by omega) hoH]
    have hne : Spec.Forest.pathUp n.toNat g (Spec.parent (r, o)) ≠ [] := by
      cases g <;> simp [Spec.Forest.pathUp] <;> split <;> simp
    rw [Spec.Forest.pathUp, hroot]
    simp only [Bool.false_eq_true, if_false]
    rw [List.dropLast_cons_of_ne_nil hne, List.map_cons, List.append_assoc]
    rfl

/-- `proofPosition target` lists the siblings of the nodes on the path from the target up to
(not including) the root of its tree — for every position of the forest, in a forest
allocated for `H ≥ TreeRows numLeaves` rows -/
theorem proofPosition_enc {H h r o R : Nat} (n : U64) (hT : Model.TreeRows n = H8 h)
    (hH : H ≤ 63) (hhH : h ≤ H) (hb : BelowRoot n.toNat r o R) :
    Model.proofPosition (encU H r o) n (H8 H) =
      (Spec.Forest.pathUp n.toNat (H + 1) (r, o)).dropLast.map (fun p => encP H (Spec.sib p)) := by
  have hh : h ≤ 63 := by omega
  have hn := le_of_treeRows n hT hh
  obtain ⟨hRh, hr, ho⟩ := belowRoot_valid hn hb
  have hoH : o < 2 ^ (H - r) := Nat.lt_of_lt_of_le ho (two_pow_le_of_le (by omega))
  unfold Model.proofPosition
  simp only [detectRow_enc hH (show r ≤ H by omega) hoH]
  have hgt : ¬ (H8 r > H8 H) := by
    rw [gt_iff_lt, BitVec.lt_def, toNat_H8 hH, toNat_H8 (by omega)]; omega
  rw [if_neg hgt, toNat_H8 hH, toNat_H8 (by omega),
    proofPositionLoop_spec n hT hH hhH (R - r) r o hb (by have := hb.1; omega) (H - r + 1) (H + 1) []
      (by omega) (by omega)]
  rfl

/-- 5 leaves, leaf 1: siblings 0 and 9 -/
example : Model.proofPosition 1#64 5#64 3#8 = [0#64, 9#64] := by decide +kernel
example : Model.proofPosition (encU 3 0 1) 5#64 (H8 3) =
    (Spec.Forest.pathUp 5 4 (0, 1)).dropLast.map (fun p => encP 3 (Spec.sib p)) :=
  proofPosition_enc (h := 3) (R := 2) 5#64 (by decide) (by decide) (by decide)
    ⟨by decide, by decide, by decide⟩
example : Spec.Forest.pathUp 5 4 (0, 1) = [(0, 1), (1, 0), (2, 0)] := by decide


/-! ### `ProofPositions` -/

/-- **`ProofPositions` is the (row, offset) algorithm `refPP`** (`Proofs/ProofPosRef.lean`: per
row a left-to-right scan using only `parent`, `sib`, `isRootPos`, then a sort) — for every
list of targets that are nodes of the forest (sorted or not, nested or not), in a forest
allocated for `H ≥ TreeRows numLeaves` rows, `H ≤ 63`. -/
theorem proofPositions_refines {H h : Nat} (n : U64) (hT : Model.TreeRows n = H8 h)
    (hH : H ≤ 63) (hhH : h ≤ H) (targets : List Spec.Pos)
    (htg : ∀ p ∈ targets, ∃ R, BelowRoot n.toNat p.1 p.2 R) :
    Model.ProofPositions (targets.map (encP H)) n (H8 H) =
      ((refPP n.toNat H targets).1.map (encP H), (refPP n.toNat H targets).2.map (encP H)) :=
  proofPositions_eq_refPP n hT hH hhH targets htg

/-- **`ProofPositions` on sorted, un-nested targets is the specification's canonical answer.**
For a forest `F` with `numLeaves` leaves, allocated for `H` rows (`TreeRows numLeaves ≤ H ≤ 63`),
and targets that are nodes of the forest, strictly sorted, none an ancestor of another
(`PPHyp`; true of every set of leaves of the collapsed forest):
`ProofPositions` returns exactly `Spec.Forest.proofPositions` (the siblings on the targets'
paths that are neither targets nor computable, by row then position) and
`Spec.Forest.computable` (the strict ancestors of the targets up to the roots). -/
theorem proofPositions_spec {Hh : Type} (F : Spec.Forest Hh) {H h : Nat} (n : U64)
    (hn : n.toNat = F.numLeaves) (hT : Model.TreeRows n = H8 h) (hH : H ≤ 63) (hhH : h ≤ H)
    (targets : List Spec.Pos) (hyp : PPHyp F.numLeaves targets) :
    Model.ProofPositions (targets.map (encP H)) n (H8 H) =
      ((F.proofPositions targets).map (encP H), (F.computable targets).map (encP H)) := by
  have hrows : F.rows ≤ H := by
    have h1 := treeRows_spec n.isLt
    rw [BitVec.ofNat_toNat, BitVec.setWidth_eq, hT, toNat_H8 (by omega), hn] at h1
    unfold Spec.Forest.rows
    omega
  rw [proofPositions_eq_refPP n hT hH hhH targets (by rw [hn]; exact hyp.inForest), hn,
    refPP_eq_spec F hyp hrows]

/-- 5 leaves; targets: leaf 1 and leaf 4 (the lone root).  Proof positions 0 and 9;
computable 8 and 12. -/
def F5 : Spec.Forest Unit := ⟨[some (), some (), some (), some (), some ()]⟩

example : Model.ProofPositions [1#64, 4#64] 5#64 3#8 = ([0#64, 9#64], [8#64, 12#64]) := by
  decide +kernel

theorem F5_hyp : PPHyp F5.numLeaves [(0, 1), (0, 4)] where
  inForest := by
    intro t ht
    simp only [List.mem_cons, List.not_mem_nil, or_false] at ht
    rcases ht with rfl | rfl
    · exact ⟨2, by decide, by decide, by decide⟩
    · exact ⟨0, by decide, by decide, by decide⟩
  sorted := by decide
  anti := by
    intro a ha b hb hab
    simp only [List.mem_cons, List.not_mem_nil, or_false] at ha hb
    rcases ha with rfl | rfl <;> rcases hb with rfl | rfl
    · rfl
    · exact absurd hab.2 (by decide)
    · exact absurd hab.2 (by decide)
    · rfl

example : Model.ProofPositions ([(0, 1), (0, 4)].map (encP 3)) 5#64 (H8 3) =
    ((F5.proofPositions [(0, 1), (0, 4)]).map (encP 3), (F5.computable [(0, 1), (0, 4)]).map (encP 3)) :=
  proofPositions_spec F5 (h := 3) 5#64 (by decide) (by decide) (by decide) (by decide) _ F5_hyp
example : F5.proofPositions [(0, 1), (0, 4)] = [(0, 0), (1, 1)] ∧
    F5.computable [(0, 1), (0, 4)] = [(1, 0), (2, 0)] := by decide

/-- **Nested targets: the property fails.**  4 leaves, targets 2, 3 and their parent 5
(`(0,2), (0,3), (1,1)`): the canonical proof is position 4 = `(1,0)`, the sibling of target 5,
but `ProofPositions` returns no proof position at all: the parent computed from the pair
(2,3) duplicates target 5 and, 5 being a right sibling, `rightSib(5) == 5` pairs the
duplicate with itself.  (Same result from the Go code.)  With targets 0, 1, 4 the sibling 5
is reported twice and 6 is computed twice. -/
def F4 : Spec.Forest Unit := ⟨[some (), some (), some (), some ()]⟩

theorem proofPositions_nested_fails :
    Model.ProofPositions ([(0, 2), (0, 3), (1, 1)].map (encP 2)) 4#64 2#8 = ([], [5#64, 6#64]) ∧
    (F4.proofPositions [(0, 2), (0, 3), (1, 1)]).map (encP 2) = [4#64] ∧
    Model.ProofPositions ([(0, 0), (0, 1), (1, 0)].map (encP 2)) 4#64 2#8 =
      ([5#64, 5#64], [4#64, 6#64, 6#64]) ∧
    (F4.proofPositions [(0, 0), (0, 1), (1, 0)]).map (encP 2) = [5#64] := by
  decide +kernel

end UtreexoVerif.Props.C16
