/-
  C12, what `SingleSection` MEANS in the semantics of `Model/Lock.lean`.

  `SingleSection T allM exempt` is a computation on the lock table; the property it stands for is
  about executions: the instruction list `is` of ANY call (`Gen T .none (.call m) is`) of ANY
  exported method `m` outside the exemptions contains at most one `acquire` — the whole call is ONE
  critical section, so the per-section theorems of `Props/C12.lean` (`Atomic`, reader/writer
  views) speak about whole calls.

  RESULT.  As a statement about arbitrary tables this is FALSE for the definition as it stands
  (`single_section_call_statement_false`), for two independent reasons, each shown on a concrete
  table that passes `LockDiscipline` and `SingleSection` and still has a call with two acquires:
    * `preGap`   `SingleSection` only looks at exported methods that take NO lock.  An exported
                 method that takes the lock itself but calls a lock-taking method in the statements
                 BEFORE its lock statement (`preCalls`) is two critical sections;
    * `fuelGap`  `reachLocking` keeps no visited set: its work list enumerates the PATHS of the
                 call graph breadth first, there can be exponentially many, and the fuel
                 `|allM|² + 1` then runs out before the lock-taking method is found (a chain of 8
                 diamonds, 26 methods).
  Neither occurs in the table extracted from mappollard.go: every `preCalls` is empty and the only
  exported methods that take no lock are the two exempt printers.
  With the two missing checks (`PreSingle`, `Explored`; all three together:
  `SingleSectionStrong`, computable) the statement holds for every table:
    * `single_section_unlocked`  a call of an exported method that takes no lock contains no mutex
                                 operation at all;
    * `single_section_locked`    a call of an exported method that takes lock `k` is
                                 `p1 ++ acquire k :: p2 ++ [release k]` with `p1`, `p2` free of mutex
                                 operations, every access in `p1` a hook or a read of a never-written
                                 field, every access in `p2` admissible under `k`;
    * `single_section_call`      at most one acquire, at most one release.
  Conversely (`not_single_many_acquires`, any fuel): if `SingleSection` fails on a table that passes
  `LockDiscipline`, some exported method outside the exemptions has calls with any number of acquires;
  and (`acquire_not_single`, enough fuel) an exported method that takes no lock and has a call with an
  acquire is listed by `multiSection`.
  Instance: `real_calls_single_section`, `real_call_shape` for the regenerated table.
-/
import UtreexoVerif.Proofs.LockSingle
import UtreexoVerif.Props.C12Table

namespace UtreexoVerif.Props.C12Single
open UtreexoVerif.Model.Lock UtreexoVerif.Proofs.Lock UtreexoVerif.Proofs.LockSingle

/-! ## The statement as asked — false for the definition as it stands -/

/-- "`SingleSection` (with `LockDiscipline`) implies that every call of an exported method outside
the exemptions contains at most one acquire", for every table.  FALSE: see
`single_section_call_statement_false`. -/
def single_section_call_statement : Prop :=
  ∀ (F V M : Type) [DecidableEq F] [DecidableEq M] (T : M → MethodInfo F M) (allM exempt : List M),
    (∀ m, m ∈ allM) → LockDiscipline T allM = true → SingleSection T allM exempt = true →
    ∀ (m : M) (is : List (Instr F V)), (T m).exported = true → m ∉ exempt →
      Gen T .none (.call m) is → acquires is ≤ 1

/-! ## Generic theorems -/

section Generic
variable {F V M : Type} [DecidableEq F] [DecidableEq M]

omit [DecidableEq F] in
/-- (1, method without lock) A passed `SingleSection` — the exploration having run to completion
(`Explored`) — means: a call of an exported method outside the exemptions that takes no lock
itself executes NO operation on the mutex, in whatever context it starts. -/
theorem single_section_unlocked (T : M → MethodInfo F M) (allM exempt : List M) (hall : ∀ m, m ∈ allM)
    (hS : SingleSection T allM exempt = true) (hE : Explored T allM exempt = true)
    (m : M) (hexp : (T m).exported = true) (hne : m ∉ exempt) (hl : (T m).lock = .none)
    (c : LockKind) (is : List (Instr F V)) (hg : Gen T c (.call m) is) :
    Flat is ∧ acquires is = 0 ∧ releases is = 0 := by
  have hq : Quiet T m := quiet_of_single hall hS hE hexp hne hl
  have hf : Flat is := gen_quiet hg hq
  exact ⟨hf, hf.acquires, hf.releases⟩

/-- (1, method with lock) Under `LockDiscipline`, `PreSingle` and `Explored`: a call of an exported
method outside the exemptions that takes lock `k` is ONE critical section: accesses that touch no
mutable field (`Acc.ok mu .none`: hooks and reads of never-written fields, see `ok_none_iff`), the
acquire, accesses admissible under `k`, the release — and nothing else. -/
theorem single_section_locked (T : M → MethodInfo F M) (allM exempt : List M) (hall : ∀ m, m ∈ allM)
    (hd : LockDiscipline T allM = true)
    (hP : PreSingle T allM exempt = true) (hE : Explored T allM exempt = true)
    (m : M) (hexp : (T m).exported = true) (hne : m ∉ exempt) (k : LockKind) (hl : (T m).lock = k)
    (hk : k ≠ .none) (is : List (Instr F V)) (hg : Gen T .none (.call m) is) :
    ∃ p1 p2, is = p1 ++ .acquire k :: (p2 ++ [.release k]) ∧ Flat p1 ∧ Flat p2 ∧
      (∀ a, Instr.acc a ∈ p1 → a.ok (mutF T allM) .none = true) ∧
      (∀ a, Instr.acc a ∈ p2 → a.ok (mutF T allM) k = true) := by
  have hty : typingOK T allM (mutF T allM) (inferCtxs T allM) = true := hd
  have hmo := methodOK_of_typing hall hty m
  have hc0 := hmo.1 hexp
  have hm := hmo.2
  simp only [methodOK, List.all_eq_true] at hm
  have hc := hm .none ((mem_toList_iff _ _).mpr hc0)
  have hne' : ¬ (T m).lock = .none := by rw [hl]; exact hk
  simp only [hne', if_false, Bool.and_eq_true, List.all_eq_true, beq_iff_eq] at hc
  obtain ⟨⟨⟨hpre, hprec⟩, _⟩, ⟨_, hbody⟩, hbodyc⟩ := hc
  have hpq := preQuiet_of_preSingle hall hP hE hexp hne hne'
  cases hg with
  | callPlain hl0 _ _ _ => exact (hne' hl0).elim
  | @callLocked _ _ k' p1 p2 hlock hk' hreg h1 h2 =>
    have hkk : k' = k := by rw [← hlock, hl]
    subst hkk
    rw [hl] at hbody hbodyc
    have hf1 : Flat p1 := gen_quiet h1 hpq
    have hwf1 := gen_wf hall hty h1 ⟨hpre, hprec⟩ [] rfl
    have hheld := gen_held_flat hall hty h2 hk ⟨hbody, hbodyc⟩
    exact ⟨p1, p2, rfl, hf1, hheld.1, flat_wf_ok hf1 hwf1, hheld.2⟩

/-- the counts that go with `single_section_locked` -/
theorem single_section_locked_counts (T : M → MethodInfo F M) (allM exempt : List M) (hall : ∀ m, m ∈ allM)
    (hd : LockDiscipline T allM = true)
    (hP : PreSingle T allM exempt = true) (hE : Explored T allM exempt = true)
    (m : M) (hexp : (T m).exported = true) (hne : m ∉ exempt) (k : LockKind) (hl : (T m).lock = k)
    (hk : k ≠ .none) (is : List (Instr F V)) (hg : Gen T .none (.call m) is) :
    acquires is = 1 ∧ releases is = 1 ∧ is.filter (fun i => !isAcc i) = [.acquire k, .release k] := by
  obtain ⟨p1, p2, rfl, h1, h2, _, _⟩ := single_section_locked T allM exempt hall hd hP hE m hexp hne k hl hk is hg
  exact section_counts h1 h2

/-- (1) THE MEANING OF THE (completed) CHECK: every call of an exported method outside the
exemptions acquires the lock at most once and releases it at most once. -/
theorem single_section_call (T : M → MethodInfo F M) (allM exempt : List M) (hall : ∀ m, m ∈ allM)
    (hd : LockDiscipline T allM = true) (hS : SingleSectionStrong T allM exempt = true)
    (m : M) (hexp : (T m).exported = true) (hne : m ∉ exempt)
    (is : List (Instr F V)) (hg : Gen T .none (.call m) is) :
    acquires is ≤ 1 ∧ releases is ≤ 1 := by
  simp only [SingleSectionStrong, Bool.and_eq_true] at hS
  obtain ⟨⟨hS, hP⟩, hE⟩ := hS
  by_cases hl : (T m).lock = .none
  · have := single_section_unlocked T allM exempt hall hS hE m hexp hne hl .none is hg
    omega
  · have := single_section_locked_counts T allM exempt hall hd hP hE m hexp hne _ rfl hl is hg
    omega

omit [DecidableEq F] in
/-- (2, the direction asked for; needs the exploration from `m` to have completed) an exported
method that takes no lock and has a call containing an acquire is listed by `multiSection`, so
`SingleSection` fails unless `m` is exempt. -/
theorem acquire_not_single (T : M → MethodInfo F M) (allM exempt : List M) (hall : ∀ m, m ∈ allM)
    (m : M) (hdone : exploreDone T (fuelOf allM) [m] = true)
    (hexp : (T m).exported = true) (hne : m ∉ exempt) (hl : (T m).lock = .none)
    (c : LockKind) (is : List (Instr F V)) (hg : Gen T c (.call m) is) (h1 : 1 ≤ acquires is) :
    (∃ r, (m, r) ∈ multiSection T allM) ∧ SingleSection T allM exempt = false := by
  rcases listed_or_quiet hall hdone hexp hl with ⟨r, hmem⟩ | hq
  · refine ⟨⟨r, hmem⟩, ?_⟩
    simp only [SingleSection, List.all_eq_false]
    exact ⟨(m, r), hmem, by simpa using hne⟩
  · have := (gen_quiet hg hq).acquires
    omega

/-- (2, converse, ANY fuel) the check rejects nothing it should accept: if `SingleSection` fails on a
table that passes `LockDiscipline`, some exported method outside the exemptions takes no lock and has
calls, started with nothing held, with ANY number `j` of acquires (in particular two). -/
theorem not_single_many_acquires (T : M → MethodInfo F M) (allM exempt : List M) (hall : ∀ m, m ∈ allM)
    (hd : LockDiscipline T allM = true) (hS : SingleSection T allM exempt = false) :
    ∃ m, (T m).exported = true ∧ m ∉ exempt ∧ (T m).lock = .none ∧
      ∀ j, ∃ is : List (Instr F V), Gen T .none (.call m) is ∧ acquires is = j := by
  have hty : typingOK T allM (mutF T allM) (inferCtxs T allM) = true := hd
  obtain ⟨m, l, hexp, hne, hl, hr⟩ := reaches_of_not_single hS
  refine ⟨m, hexp, hne, hl, ?_⟩
  exact reaches_gen_core (fun x => (inferCtxs T allM x).has .none = true)
    (fun x hx => (typing_plain_step hall hty hx).1)
    (fun x n hx hlx hn => (typing_plain_step hall hty hx).2 hlx n hn)
    hr ((methodOK_of_typing hall hty m).1 hexp) hl

omit [DecidableEq F] in
/-- the same for any table all of whose methods have the regular lock pattern -/
theorem not_single_many_acquires' (T : M → MethodInfo F M) (allM exempt : List M)
    (hreg : ∀ m, (T m).regular = true) (hS : SingleSection T allM exempt = false) :
    ∃ m, (T m).exported = true ∧ m ∉ exempt ∧ (T m).lock = .none ∧
      ∀ j, ∃ is : List (Instr F V), Gen T .none (.call m) is ∧ acquires is = j := by
  obtain ⟨m, l, hexp, hne, hl, hr⟩ := reaches_of_not_single hS
  exact ⟨m, hexp, hne, hl, reaches_gen_core (fun _ => True) (fun x _ => hreg x) (fun _ _ _ _ _ => trivial) hr trivial hl⟩

end Generic

/-! ## The regenerated table -/

section Real
open UtreexoVerif.Gen.LockTable UtreexoVerif.Props.C12Table

/-- the two checks `SingleSection` lacks hold for the table extracted from mappollard.go (every
`preCalls` is empty; the only exported methods without a lock are the exempt printers) -/
theorem real_single_section_strong :
    SingleSectionStrong table allMethods [.«String», .«AllSubTreesToString»] = true := by decide +kernel

/-- (3) every call of every exported method of the current mappollard.go, the two printers apart,
acquires the lock at most once (and releases it at most once) -/
theorem real_calls_single_section (V : Type) (m : Method) (hexp : (table m).exported = true)
    (h1 : m ≠ .«String») (h2 : m ≠ .«AllSubTreesToString»)
    (is : List (Instr Field V)) (hg : Gen table .none (.call m) is) :
    acquires is ≤ 1 ∧ releases is ≤ 1 :=
  single_section_call table allMethods _ allMethods_complete lockTable_ok real_single_section_strong m hexp
    (by simp [h1, h2]) is hg

/-- all of them take a lock themselves … -/
theorem real_exported_lock (m : Method) (hexp : (table m).exported = true)
    (h1 : m ≠ .«String») (h2 : m ≠ .«AllSubTreesToString») : (table m).lock ≠ .none := by
  cases m <;> first | exact (h1 rfl).elim | exact (h2 rfl).elim | exact (by decide) | exact (by cases hexp)

/-- … so every such call is EXACTLY one critical section: unlocked accesses that touch no mutable
field (in the current table: `Prune` reading `Full`), `acquire k`, accesses under `k`, `release k`. -/
theorem real_call_shape (V : Type) (m : Method) (hexp : (table m).exported = true)
    (h1 : m ≠ .«String») (h2 : m ≠ .«AllSubTreesToString»)
    (is : List (Instr Field V)) (hg : Gen table .none (.call m) is) :
    ∃ p1 p2, is = p1 ++ .acquire (table m).lock :: (p2 ++ [.release (table m).lock]) ∧ Flat p1 ∧ Flat p2 ∧
      (∀ a, Instr.acc a ∈ p1 → a.ok (mutF table allMethods) .none = true) ∧
      (∀ a, Instr.acc a ∈ p2 → a.ok (mutF table allMethods) (table m).lock = true) := by
  have hS := real_single_section_strong
  simp only [SingleSectionStrong, Bool.and_eq_true] at hS
  exact single_section_locked table allMethods _ allMethods_complete lockTable_ok hS.1.2 hS.2 m hexp
    (by simp [h1, h2]) _ rfl (real_exported_lock m hexp h1 h2) is hg

namespace Examples
open UtreexoVerif.Props.C12Table.Examples

/-- the `Gen` derivations behind `getNumLeaves_api` / `modifyOnce_api` -/
theorem getNumLeaves_gen : Gen (V := Nat) table .none (.call Method.GetNumLeaves) getNumLeaves :=
  Gen.callLocked (T := table) (m := Method.GetNumLeaves) (p1 := []) (p2 := [.acc (.read .NumLeaves)])
    rfl (by decide) rfl Gen.segNil
    (Gen.segAcc (a := Acc.read Field.NumLeaves) (by show Field.NumLeaves ∈ _; decide) Gen.segNil)

theorem modifyOnce_gen : Gen (V := Nat) table .none (.call Method.Modify) modifyOnce := by
  have hadd : Gen (V := Nat) table .w (.call Method.add)
      ([] ++ [.acc (.read .NumLeaves), .acc .hook, .acc (.write .NumLeaves (fun l => l.getLastD 0 + 1))]) :=
    Gen.callPlain (T := table) (m := Method.add) rfl rfl Gen.segNil
      (Gen.segAcc (a := Acc.read Field.NumLeaves) (by show Field.NumLeaves ∈ _; decide)
        (Gen.segAcc (a := Acc.hook) True.intro
          (Gen.segAcc (a := Acc.write Field.NumLeaves _) (by show Field.NumLeaves ∈ _; decide) Gen.segNil)))
  have hbody : Gen (V := Nat) table .w
      (.seg (table Method.Modify).reads (table Method.Modify).writes (table Method.Modify).calls)
      (([] ++ [.acc (.read .NumLeaves), .acc .hook, .acc (.write .NumLeaves (fun l => l.getLastD 0 + 1))]) ++ []) :=
    Gen.segCall (n := Method.add) (by decide) hadd Gen.segNil
  exact Gen.callLocked (T := table) (m := Method.Modify) (p1 := []) rfl (by decide) rfl Gen.segNil hbody

/-- NON-VACUITY of `real_calls_single_section` / `real_call_shape`: their hypotheses hold for these two
calls of the real table (one reader, one writer), and the bound is attained -/
example : acquires getNumLeaves ≤ 1 ∧ releases getNumLeaves ≤ 1 :=
  real_calls_single_section Nat .GetNumLeaves rfl (by decide) (by decide) _ getNumLeaves_gen

example : acquires modifyOnce ≤ 1 ∧ releases modifyOnce ≤ 1 :=
  real_calls_single_section Nat .Modify rfl (by decide) (by decide) _ modifyOnce_gen

example : acquires getNumLeaves = 1 ∧ acquires modifyOnce = 1 := by decide

end Examples
end Real

/-! ## Non-vacuity of the generic theorems on a small table with an UNLOCKED exported method -/

namespace Positive

inductive Fld where
  | full | n
  deriving DecidableEq, Repr

inductive Mth where
  | IsFull | isFull | Get | Set
  deriving DecidableEq, Repr

def allM : List Mth := [.IsFull, .isFull, .Get, .Set]

/-- `IsFull` (exported, no lock) calls the helper `isFull`, which reads the never-written `full`;
`Get` reads `full` before taking the read lock and `n` under it; `Set` writes `n` under the write lock -/
def T : Mth → MethodInfo Fld Mth
  | .IsFull => { exported := true, lock := .none, lockIndex := 0, deferred := false, extraLockOps := 0,
                 preReads := [], preWrites := [], preCalls := [], reads := [], writes := [],
                 calls := [.isFull], hook := false }
  | .isFull => { exported := false, lock := .none, lockIndex := 0, deferred := false, extraLockOps := 0,
                 preReads := [], preWrites := [], preCalls := [], reads := [.full], writes := [],
                 calls := [], hook := false }
  | .Get => { exported := true, lock := .r, lockIndex := 1, deferred := true, extraLockOps := 0,
              preReads := [.full], preWrites := [], preCalls := [.isFull], reads := [.n], writes := [],
              calls := [], hook := false }
  | .Set => { exported := true, lock := .w, lockIndex := 0, deferred := true, extraLockOps := 0,
              preReads := [], preWrites := [], preCalls := [], reads := [.n], writes := [.n],
              calls := [], hook := false }

theorem allM_complete : ∀ m : Mth, m ∈ allM := by intro m; cases m <;> decide
theorem discipline_ok : LockDiscipline T allM = true := by decide
theorem strong_ok : SingleSectionStrong T allM [] = true := by decide

def isFullCall : List (Instr Fld Nat) := [.acc (.read .full)]

theorem isFull_gen : Gen T .none (.call Mth.IsFull) isFullCall := by
  have hh : Gen (V := Nat) T .none (.call Mth.isFull) ([] ++ [.acc (.read .full)]) :=
    Gen.callPlain (T := T) (m := Mth.isFull) rfl rfl Gen.segNil
      (Gen.segAcc (a := Acc.read Fld.full) (by show Fld.full ∈ _; decide) Gen.segNil)
  have hb : Gen (V := Nat) T .none (.seg (T Mth.IsFull).reads (T Mth.IsFull).writes (T Mth.IsFull).calls)
      (([] ++ [.acc (.read .full)]) ++ []) := Gen.segCall (n := Mth.isFull) (by decide) hh Gen.segNil
  exact Gen.callPlain (T := T) (m := Mth.IsFull) (p1 := []) rfl rfl Gen.segNil hb

/-- `Get`: `read full; (isFull:) read full; RLock; read n; RUnlock` -/
def getCall : List (Instr Fld Nat) :=
  [.acc (.read .full), .acc (.read .full), .acquire .r, .acc (.read .n), .release .r]

theorem get_gen : Gen T .none (.call Mth.Get) getCall := by
  have hh : Gen (V := Nat) T .none (.call Mth.isFull) ([] ++ [.acc (.read .full)]) :=
    Gen.callPlain (T := T) (m := Mth.isFull) rfl rfl Gen.segNil
      (Gen.segAcc (a := Acc.read Fld.full) (by show Fld.full ∈ _; decide) Gen.segNil)
  have hpre : Gen (V := Nat) T .none (.seg (T Mth.Get).preReads (T Mth.Get).preWrites (T Mth.Get).preCalls)
      (.acc (.read .full) :: (([] ++ [.acc (.read .full)]) ++ [])) :=
    Gen.segAcc (a := Acc.read Fld.full) (by show Fld.full ∈ _; decide)
      (Gen.segCall (n := Mth.isFull) (by decide) hh Gen.segNil)
  exact Gen.callLocked (T := T) (m := Mth.Get) (p2 := [.acc (.read .n)]) rfl (by decide) rfl hpre
    (Gen.segAcc (a := Acc.read Fld.n) (by show Fld.n ∈ _; decide) Gen.segNil)

/-- NON-VACUITY of `single_section_unlocked`: all hypotheses hold for the call of `IsFull` -/
example : Flat isFullCall ∧ acquires isFullCall = 0 ∧ releases isFullCall = 0 := by
  have h := strong_ok
  simp only [SingleSectionStrong, Bool.and_eq_true] at h
  exact single_section_unlocked T allM [] allM_complete h.1.1 h.2 .IsFull rfl (by simp) rfl .none _ isFull_gen

/-- NON-VACUITY of `single_section_locked` (with a non-empty pre-segment that calls a helper) -/
example : ∃ p1 p2, getCall = p1 ++ .acquire .r :: (p2 ++ [.release .r]) ∧ Flat p1 ∧ Flat p2 ∧
    (∀ a, Instr.acc a ∈ p1 → a.ok (mutF T allM) .none = true) ∧
    (∀ a, Instr.acc a ∈ p2 → a.ok (mutF T allM) .r = true) := by
  have h := strong_ok
  simp only [SingleSectionStrong, Bool.and_eq_true] at h
  exact single_section_locked T allM [] allM_complete discipline_ok h.1.2 h.2 .Get rfl (by simp) .r rfl
    (by decide) _ get_gen

/-- NON-VACUITY of `single_section_call` -/
example : acquires getCall ≤ 1 ∧ releases getCall ≤ 1 :=
  single_section_call T allM [] allM_complete discipline_ok strong_ok .Get rfl (by simp) _ get_gen

end Positive

/-! ## `Explored` is sufficient, not necessary: a recursive helper -/

namespace Recursive

inductive Mth where
  | Walk | walk
  deriving DecidableEq, Repr

def allM : List Mth := [.Walk, .walk]

/-- `Walk` (exported, no lock) calls the recursive helper `walk`; nobody takes a lock -/
def T : Mth → MethodInfo Unit Mth
  | .Walk => { exported := true, lock := .none, lockIndex := 0, deferred := false, extraLockOps := 0,
               preReads := [], preWrites := [], preCalls := [], reads := [], writes := [],
               calls := [.walk], hook := false }
  | .walk => { exported := false, lock := .none, lockIndex := 0, deferred := false, extraLockOps := 0,
               preReads := [], preWrites := [], preCalls := [], reads := [()], writes := [],
               calls := [.walk], hook := false }

/-- the work list of `reachLocking` never empties on a cycle of lock-free calls, whatever the fuel:
`SingleSection` holds (rightly: no lock anywhere), `Explored` cannot confirm it -/
theorem never_done (n : Nat) : exploreDone T n [Mth.Walk] = false :=
  exploreDone_cycle T (fun _ => True) (fun x _ => ⟨.walk, by cases x <;> decide, trivial⟩) n _
    ⟨_, List.mem_cons_self, trivial⟩

example : SingleSection T allM [] = true ∧ Explored T allM [] = false := by decide

end Recursive

/-! ## Negative example: an exported method stringing two read sections together -/

namespace Negative

inductive Fld where
  | a | b
  deriving DecidableEq, Repr

inductive Mth where
  | Both | GetA | GetB | Set
  deriving DecidableEq, Repr

def allM : List Mth := [.Both, .GetA, .GetB, .Set]

/-- `Both` takes no lock and calls the read-locked getters `GetA` and `GetB` one after the other;
`Set` writes both fields under the write lock -/
def T : Mth → MethodInfo Fld Mth
  | .Both => { exported := true, lock := .none, lockIndex := 0, deferred := false, extraLockOps := 0,
               preReads := [], preWrites := [], preCalls := [], reads := [], writes := [],
               calls := [.GetA, .GetB], hook := false }
  | .GetA => { exported := true, lock := .r, lockIndex := 0, deferred := true, extraLockOps := 0,
               preReads := [], preWrites := [], preCalls := [], reads := [.a], writes := [],
               calls := [], hook := false }
  | .GetB => { exported := true, lock := .r, lockIndex := 0, deferred := true, extraLockOps := 0,
               preReads := [], preWrites := [], preCalls := [], reads := [.b], writes := [],
               calls := [], hook := false }
  | .Set => { exported := true, lock := .w, lockIndex := 0, deferred := true, extraLockOps := 0,
              preReads := [], preWrites := [], preCalls := [], reads := [], writes := [.a, .b],
              calls := [], hook := false }

theorem allM_complete : ∀ m : Mth, m ∈ allM := by intro m; cases m <;> decide

/-- the table is race-free, atomic per section, deadlock-free … -/
theorem discipline_ok : LockDiscipline T allM = true := by decide

/-- … but `Both` is not ONE section, and the check says so -/
theorem not_single : SingleSection T allM [] = false := by decide

theorem lists_both : multiSection T allM = [(.Both, [.GetA, .GetB])] := by decide

/-- a call of `Both`: `RLock; read a; RUnlock; RLock; read b; RUnlock` -/
def both : List (Instr Fld Nat) :=
  [.acquire .r, .acc (.read .a), .release .r, .acquire .r, .acc (.read .b), .release .r]

theorem both_gen : Gen T .none (.call Mth.Both) both := by
  have ha : Gen (V := Nat) T .none (.call Mth.GetA) ([] ++ .acquire .r :: ([.acc (.read .a)] ++ [.release .r])) :=
    Gen.callLocked (T := T) (m := Mth.GetA) rfl (by decide) rfl Gen.segNil
      (Gen.segAcc (a := Acc.read Fld.a) (by show Fld.a ∈ _; decide) Gen.segNil)
  have hb : Gen (V := Nat) T .none (.call Mth.GetB) ([] ++ .acquire .r :: ([.acc (.read .b)] ++ [.release .r])) :=
    Gen.callLocked (T := T) (m := Mth.GetB) rfl (by decide) rfl Gen.segNil
      (Gen.segAcc (a := Acc.read Fld.b) (by show Fld.b ∈ _; decide) Gen.segNil)
  have hbody : Gen (V := Nat) T .none (.seg (T Mth.Both).reads (T Mth.Both).writes (T Mth.Both).calls)
      (([] ++ .acquire .r :: ([.acc (.read .a)] ++ [.release .r])) ++
        (([] ++ .acquire .r :: ([.acc (.read .b)] ++ [.release .r])) ++ [])) :=
    Gen.segCall (n := Mth.GetA) (by decide) ha (Gen.segCall (n := Mth.GetB) (by decide) hb Gen.segNil)
  exact Gen.callPlain (T := T) (m := Mth.Both) (p1 := []) rfl rfl Gen.segNil hbody

/-- NEGATIVE EXAMPLE: the check fails and a call with two acquires exists (and is a well-formed
program: `LockDiscipline` alone does not exclude it) -/
theorem both_two_sections :
    SingleSection T allM [] = false ∧ (T .Both).exported = true ∧
      Gen T .none (.call Mth.Both) both ∧ acquires both = 2 ∧ wfProg (mutF T allM) .none both = true :=
  ⟨not_single, rfl, both_gen, by decide, by decide⟩

/-- the generic converse produces such calls from the failed check alone -/
example : ∃ m, (T m).exported = true ∧ m ∉ ([] : List Mth) ∧ (T m).lock = .none ∧
    ∀ j, ∃ is : List (Instr Fld Nat), Gen T .none (.call m) is ∧ acquires is = j :=
  not_single_many_acquires T allM [] allM_complete discipline_ok not_single

/-- and the generic direction (2) applies to `both` (the exploration from `Both` completes) -/
example : (∃ r, (Mth.Both, r) ∈ multiSection T allM) ∧ SingleSection T allM [] = false :=
  acquire_not_single T allM [] allM_complete .Both (by decide) rfl (by simp) rfl .none both both_gen (by decide)

end Negative

/-! ## Gap 1: the statements before the lock statement -/

namespace PreGap

inductive Mth where
  | Outer | Inner
  deriving DecidableEq, Repr

def allM : List Mth := [.Outer, .Inner]

/-- `Outer` (exported) calls the read-locked `Inner` and only THEN takes the write lock:
`func (m) Outer() { n := m.Inner(); m.rwLock.Lock(); defer m.rwLock.Unlock(); … }` -/
def T : Mth → MethodInfo Unit Mth
  | .Outer => { exported := true, lock := .w, lockIndex := 1, deferred := true, extraLockOps := 0,
                preReads := [], preWrites := [], preCalls := [.Inner], reads := [()], writes := [()],
                calls := [], hook := false }
  | .Inner => { exported := true, lock := .r, lockIndex := 0, deferred := true, extraLockOps := 0,
                preReads := [], preWrites := [], preCalls := [], reads := [()], writes := [],
                calls := [], hook := false }

theorem allM_complete : ∀ m : Mth, m ∈ allM := by intro m; cases m <;> decide

/-- a call of `Outer`: `RLock; RUnlock; Lock; Unlock` -/
def outer : List (Instr Unit Nat) := [.acquire .r, .release .r, .acquire .w, .release .w]

theorem outer_gen : Gen T .none (.call Mth.Outer) outer := by
  have hi : Gen (V := Nat) T .none (.call Mth.Inner) ([] ++ .acquire .r :: ([] ++ [.release .r])) :=
    Gen.callLocked (T := T) (m := Mth.Inner) rfl (by decide) rfl Gen.segNil Gen.segNil
  have hpre : Gen (V := Nat) T .none (.seg (T Mth.Outer).preReads (T Mth.Outer).preWrites (T Mth.Outer).preCalls)
      (([] ++ .acquire .r :: ([] ++ [.release .r])) ++ []) :=
    Gen.segCall (n := Mth.Inner) (by decide) hi Gen.segNil
  exact Gen.callLocked (T := T) (m := Mth.Outer) (p2 := []) rfl (by decide) rfl hpre Gen.segNil

/-- GAP 1 of `SingleSection`: this table passes `LockDiscipline` and `SingleSection` (no exemption),
yet a call of the exported `Outer` consists of two critical sections; `PreSingle` rejects it. -/
theorem preGap :
    LockDiscipline T allM = true ∧ SingleSection T allM [] = true ∧ (T .Outer).exported = true ∧
      Gen T .none (.call Mth.Outer) outer ∧ acquires outer = 2 ∧ PreSingle T allM [] = false :=
  ⟨by decide, by decide, rfl, outer_gen, by decide, by decide⟩

end PreGap

/-! ## Gap 2: the fuel of `reachLocking` -/

namespace FuelGap

abbrev Mth := Fin 26

def allM : List Mth := List.finRange 26

/-- a chain of 8 diamonds: method `3j` (j < 8) calls `3j+1` and `3j+2`, each of which calls `3j+3`;
method 24 calls method 25, the only one that takes a lock (read).  Only method 0 is exported.
No lock-taking method is ever reached with a lock held, nothing is written: the table passes
`LockDiscipline`. -/
def T (i : Mth) : MethodInfo Unit Mth :=
  { exported := i.val == 0, lock := if i.val = 25 then .r else .none, lockIndex := 0,
    deferred := i.val == 25, extraLockOps := 0,
    preReads := [], preWrites := [], preCalls := [], reads := [], writes := [],
    calls := if i.val = 25 then [] else if i.val = 24 then [25]
             else if i.val % 3 = 0 then [i + 1, i + 2] else if i.val % 3 = 1 then [i + 2] else [i + 1],
    hook := false }

theorem allM_complete : ∀ m : Mth, m ∈ allM := fun m => List.mem_finRange m

theorem discipline_ok : LockDiscipline T allM = true := by decide +kernel

/-- the fuel `26² + 1 = 677` runs out while the work list still enumerates the `3·(2⁸−1) = 765` paths
to the methods before method 24: `reachLocking` returns `[]` for method 0 … -/
theorem single_ok : SingleSection T allM [] = true := by decide +kernel

/-- … although method 0 reaches the lock-taking method 25 (found with more fuel) -/
theorem reaches : Reaches T (0 : Mth) 25 := by
  apply reachLocking_sound T 0 800 [0] []
  · intro x hx
    rcases List.mem_cons.mp hx with rfl | hx
    · exact PlainPath.refl
    · cases hx
  · intro l hl; cases hl
  · decide +kernel

/-- GAP 2 of `SingleSection`: this table passes `LockDiscipline` and `SingleSection` (no exemption),
yet the exported method 0, which takes no lock, has calls with two (with any number of) acquires;
`Explored` reports that the exploration was cut short. -/
theorem fuelGap :
    LockDiscipline T allM = true ∧ SingleSection T allM [] = true ∧ (T 0).exported = true ∧
      (T 0).lock = .none ∧
      (∀ j, ∃ is : List (Instr Unit Nat), Gen T .none (.call (0 : Mth)) is ∧ acquires is = j) ∧
      Explored T allM [] = false := by
  refine ⟨discipline_ok, single_ok, rfl, rfl, ?_, by decide +kernel⟩
  exact reaches_gen_core (fun _ => True) (fun x _ => by revert x; decide +kernel) (fun _ _ _ _ _ => trivial)
    reaches trivial rfl

end FuelGap

/-- THE STATEMENT AS ASKED IS FALSE (here through the fuel gap; `PreGap.preGap` refutes it as well). -/
theorem single_section_call_statement_false : ¬ single_section_call_statement := by
  intro h
  obtain ⟨hd, hs, hexp, _, hgen, _⟩ := FuelGap.fuelGap
  obtain ⟨is, hg, h2⟩ := hgen 2
  have := h Unit Nat FuelGap.Mth FuelGap.T FuelGap.allM [] FuelGap.allM_complete hd hs 0 is hexp (by simp) hg
  omega

/-- … and through the pre-segment gap -/
theorem single_section_call_statement_false' : ¬ single_section_call_statement := by
  intro h
  obtain ⟨hd, hs, hexp, hg, h2, _⟩ := PreGap.preGap
  have := h Unit Nat PreGap.Mth PreGap.T PreGap.allM [] PreGap.allM_complete hd hs .Outer _ hexp (by simp) hg
  omega

end UtreexoVerif.Props.C12Single
