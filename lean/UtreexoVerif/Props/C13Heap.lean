/-
  Property C13 for the pointer forest ON THE HEAP: `Pollard.WriteTo` and `RestorePollardFrom`
  of the faithful heap model (`Model/PollardHeapSerial.lean`: `writeToH`, `restoreH` — the Go
  statements over `Model/PollardHeap.lean`'s `polNode` heap, compared byte for byte with the
  Go code by the driver, kinds `ph:ser:*`) refine the wire format, and **a restored heap
  REPRESENTS the forest that was written**.

  `Props/C13.lean` proves C13 for the pointer forest at the level of its shape (`PNode`,
  `PState.ofForest F`); its clause "a restored instance behaves identically to the one that was
  written" was the equality of shapes, the behaviour of the Go pointer surgery on a restored
  instance being tied to it by the correspondence run only.  Here that clause is a theorem:

  1. **write refines** — `writeToH_refines`: on a heap representing `F` (`Abs p F`) whose `NumDels`
     field is the number of dead slots of `F` (`DelsOK`; `Abs` does not mention that field),
     `WriteTo` on the heap returns, for EVERY sink, what the shape-level `writeTo` returns on
     `PState.ofForest F` (same count, same outcome, same sink).  Hence `writeToH_sink_ok` (room
     enough: the sink receives exactly `encodePollard F`, the count is its length) and
     `writeToH_sink_fail` (a sink failing after `k < length` bytes: an error, count ≤ `k`).
     Nothing else is assumed — not `full`, not `LeavesOK`, no bound beyond the one `Abs` implies.
     `encodePollard_equiv`: the stream is the same for `Spec.Equiv` forests (`numDead` is a
     function of leaf count and trees), so it does not matter which representative `F` of the
     class the heap represents is used.
  2. **restore refines** — for EVERY reader (stream and chunking): `restoreH_count` (same byte
     count as the shape-level `restorePollard`), `restoreH_total` (never a panic, always returns),
     `restoreH_parse_fail` (a stream that cannot be parsed fails alike), and `restoreH_refines`:
     when no two records entered into `NodeMap` collide (`NoMiniCollision`: same 12-byte key ⇔ same
     hash — the scope of the heap model, whose `NodeMap` is keyed by the full hash) the two
     decoders agree on the outcome kind and a shape-level result `st` comes with a heap-level
     result `p'` such that `ShapeOf p' st`.  The hypothesis is necessary:
     `restoreH_agrees_statement` (agreement for EVERY stream) is false,
     `Example.restoreH_agrees_statement_false` (two leaf records sharing 12 bytes: the heap model
     accepts, the shape model — like Go — rejects; the documented scope limit of the heap MODEL).
     `restorePollard_leafRecs` says what `leafRecs` is in terms of the shape-level decoder alone.
     `ShapeOf` is structural: an arbitrary accepted
     stream need not carry consistent parent hashes (`RestorePollardFrom` does not check them),
     so `WF p'` does NOT follow in general.  For a VALID stream it does —
     `restoreH_roundtrip`: `r.data = encodePollard F` gives `restoreH r = ⟨length, .ok p'⟩` with
     **`Abs p' F`**, `WF p'`, `p'.full`, `DelsOK p' F`; `restoreH_prefix`: a strict prefix is an
     error with count ≤ the bytes present.
  3. **end to end** — `restore_write_behaves_identically`; `restored_modify_agrees`: the SAME valid
     block applied to the original and to the restored heap succeeds on both and yields heaps
     representing the same forest `F.modify dels adds` (which can be written again, to the same
     bytes: `restored_modify_writes_same`); `restored_queries_agree`: `GetRoots`, `GetHash`,
     `GetLeafPosition`, `Prove`, `Verify` return the same on both.

  About `remember`: `readOne` leaves `remember = false` on every node (`ShapeOf` records it)
  while `add` sets it on the nodes it creates in a full pollard.  Neither `WF` nor `Abs` mentions
  `remember`, and the refinement theorems (`modify_refines`, … — `Props/PollardHeapB/C`) are
  proved from `Abs` and `full = true` alone, so they apply to restored heaps verbatim: in a
  full pollard `prune` only consults `remember` of the two nieces of a freshly created root, one
  of which is a freshly created (remembered) node.  No behavioural difference exists.
-/
import UtreexoVerif.Proofs.PollardHeapSerialG
import UtreexoVerif.Props.PollardHeapC
import UtreexoVerif.Props.C13
set_option linter.unusedSectionVars false
set_option linter.unusedVariables false
set_option linter.unusedSimpArgs false

namespace UtreexoVerif.Props.C13Heap
open UtreexoVerif UtreexoVerif.Model UtreexoVerif.Model.PollardHeap UtreexoVerif.Spec Hasher
open UtreexoVerif.Model.Serial UtreexoVerif.Proofs.PollardHeap UtreexoVerif.Proofs.PollardHeapSerial

variable {H : Type} [DecidableEq H] [Hasher H] [HashBytes H]

/-! ### definitions -/

/-- the one field `WriteTo` writes that `Abs` does not constrain: `NumDels` is the number of
dead slots (kept by `Modify`: `delsOK_modify`; established by `RestorePollardFrom`) -/
def DelsOK (p : Pollard H) (F : Forest H) : Prop := p.numDels = BitVec.ofNat 64 (numDead F)

/-- **the representation relation for an arbitrary restored state**: heap `p` carries the
shape-level state `st` — `NumLeaves`/`NumDels` equal, `full`, the roots (no aunt) carry the
`PNode`s in their niece pointers with aunt pointers pointing back and `remember = false`
everywhere (`PRoots`/`PShape`), the heap holds exactly these nodes, each once, and `NodeMap` is
`st.nodeMap` as a key → node map: distinct keys, the keys are the hashes `st.nodeMap` maps to
(the heap model prepends new keys, the shape model appends them), every entry points at a node
of the forest that carries the key's hash -/
structure ShapeOf (p : Pollard H) (st : PState H) : Prop where
  numLeaves : p.numLeaves = st.numLeaves
  numDels : p.numDels = st.numDels
  full : p.full = true
  roots : ∃ owned, PRoots p.heap p.roots st.roots owned ∧ owned.Nodup ∧ owned.length = p.heap.size ∧
    ∀ e ∈ p.nodeMap, e.2 ∈ owned ∧ ∃ x, p.heap[e.2]? = some x ∧ x.data = e.1
  keys : p.nodeMap.map (·.1) = (st.nodeMap.map (·.2)).reverse
  keysNodup : (p.nodeMap.map (·.1)).Nodup

/-- no two records the stream enters into `NodeMap` (leaf flag set, data not all-zero — the
records `leafRecs` of the parse `restoreL`) collide: they share their 12-byte key exactly when
they are the same hash.  (Go keys `NodeMap` by the 12-byte prefix, the heap model by the full
hash; the model is faithful on such streams only.) -/
def NoMiniCollision (H : Type) [DecidableEq H] [Hasher H] [HashBytes H] (r : Reader) : Prop :=
  ∀ n nl nd ts, restoreL r = ⟨n, .ok (nl, nd, ts)⟩ →
    ∀ a ∈ ts.flatMap (leafRecs H), ∀ b ∈ ts.flatMap (leafRecs H),
      (a.take 12 = b.take 12 ↔ (ofBytes a : H) = ofBytes b)

/-! ### 1. write refines -/

/-- **`WriteTo` on the heap refines the shape-level writer**: same count, same outcome, same
sink, for every sink -/
theorem writeToH_refines {p : Pollard H} {F : Forest H} (a : Abs p F) (hd : DelsOK p F) (w : Sink) :
    writeToH p w = writeTo (PState.ofForest F) w :=
  writeToH_abs a hd w

/-- a writer with enough room receives exactly `encodePollard F`, the count is its length -/
theorem writeToH_sink_ok (ok : Proofs.Serial.HashBytesOK H) {p : Pollard H} {F : Forest H}
    (a : Abs p F) (hd : DelsOK p F) (k : Nat) (hk : (encodePollard F).length ≤ k) :
    writeToH p ⟨[], k⟩ =
      (⟨(encodePollard F).length, .ok ()⟩, ⟨encodePollard F, k - (encodePollard F).length⟩) := by
  rw [writeToH_refines a hd]; exact Props.C13.pollard_sink_ok ok F k hk

/-- a writer that fails after `k` bytes, `k` below the length: an error, count ≤ `k` -/
theorem writeToH_sink_fail (ok : Proofs.Serial.HashBytesOK H) {p : Pollard H} {F : Forest H}
    (a : Abs p F) (hd : DelsOK p F) (k : Nat) (hk : k < (encodePollard F).length) :
    (writeToH p ⟨[], k⟩).1.out = .err ∧ (writeToH p ⟨[], k⟩).1.n ≤ k := by
  rw [writeToH_refines a hd]; exact Props.C13.pollard_sink_fail ok F k hk

/-- the number of dead slots is a function of the leaf count and the collapsed trees -/
theorem numDead_equiv {F G : Forest H} (e : Spec.Equiv F G) (hn : F.numLeaves < 2 ^ 64) :
    numDead F = numDead G := by
  have h1 := Proofs.Serial.live_dead_count F
  have h2 := Proofs.Serial.live_dead_count G
  have h3 := Spec.trees_leaves F hn
  have h4 := Spec.trees_leaves G (by rw [← e.numLeaves]; exact hn)
  rw [e.trees, h4] at h3
  rw [← h3, e.numLeaves] at h1
  omega

/-- **the stream does not depend on the representative**: `Abs` determines `F` up to
`Spec.Equiv` only, and equivalent forests are written to the same bytes -/
theorem encodePollard_equiv {F G : Forest H} (e : Spec.Equiv F G) (hn : F.numLeaves < 2 ^ 64) :
    encodePollard F = encodePollard G := by
  unfold encodePollard
  rw [e.numLeaves, e.trees, numDead_equiv e hn]

/-! ### 2. restore refines -/

/-- the byte count is the same on the heap and on the shapes — every stream, every chunking -/
theorem restoreH_count (r : Reader) : (restoreH (H := H) r).n = (restorePollard (H := H) r).n :=
  restoreH_n r

/-- `RestorePollardFrom` on the heap, any stream through any chunking: never a panic, always returns
(`pollard_total` transported) -/
theorem restoreH_total (r : Reader) :
    (restoreH (H := H) r).out ≠ .panic ∧ (restoreH (H := H) r).out ≠ .hang :=
  Proofs.PollardHeapSerial.restoreH_total r

/-- a stream that cannot be parsed (short header, short record) fails alike on both levels -/
theorem restoreH_parse_fail (r : Reader) (h : ∀ x, (restoreL r).out ≠ .ok x) :
    restoreH (H := H) r = ⟨(restoreL r).n, .err⟩ ∧ restorePollard (H := H) r = ⟨(restoreL r).n, .err⟩ :=
  restore_parse_fail r h

/-- chunking independence of the heap-level decoder (`pollard_chunking` transported): the outcome
kind and the count depend on the concatenation of the chunks only -/
theorem restoreH_chunking_count (r1 r2 : Reader) (h : r1.data = r2.data) :
    (restoreH (H := H) r1).n = (restoreH (H := H) r2).n := by
  rw [restoreH_count, restoreH_count, Props.C13.pollard_chunking r1 r2 h]

/-- **`RestorePollardFrom` on the heap refines the shape-level decoder** on every stream whose
`NodeMap` records do not collide: same count, same outcome kind, and a shape-level result `st`
comes with a heap-level result carrying `st` -/
theorem restoreH_refines (r : Reader) (hnc : NoMiniCollision H r) :
    (restoreH (H := H) r).n = (restorePollard (H := H) r).n ∧
    (restoreH (H := H) r).out.tag = (restorePollard (H := H) r).out.tag ∧
    ∀ n st, restorePollard (H := H) r = ⟨n, .ok st⟩ →
      ∃ p', restoreH (H := H) r = ⟨n, .ok p'⟩ ∧ ShapeOf p' st := by
  refine ⟨restoreH_n r, ?_⟩
  have hnc' := hnc
  unfold NoMiniCollision at hnc'
  rw [restoreH_eq, restorePollard_eq]
  rcases hy : restoreL r with ⟨n, o⟩
  cases o with
  | ok x =>
    obtain ⟨nl, nd, ts⟩ := x
    have hcol := hnc' n nl nd ts hy
    obtain ⟨s1, s2, s3, owned, ents, s4, s5, s6, s7, s8, s9, s10⟩ := buildAll_shape (H := H) nl nd ts
    have hkeys : (buildAll (H := H) nl nd ts).nodeMap.map (·.1) =
        ((putLs ([] : NodeMap H) ts).map (·.2)).reverse := by
      rw [s7]
      exact maps_agree (ts.flatMap (leafRecs H)) hcol (ts.flatMap (leafRecs H)) ents [] [] s8
        (fun a ha => ha) rfl (by simp)
    have hlen : (buildAll (H := H) nl nd ts).nodeMap.length = (putLs ([] : NodeMap H) ts).length := by
      have := congrArg List.length hkeys
      simpa using this
    simp only [s1, s2, hlen]
    by_cases hs : ((putLs ([] : NodeMap H) ts).length : Int) = (nl - nd).toInt
    · simp only [hs, ne_eq, not_true_eq_false, if_false, bne_self_eq_false, Bool.false_eq_true]
      refine ⟨rfl, ?_⟩
      intro n' st hst
      simp only [Res.mk.injEq, Out.ok.injEq] at hst
      obtain ⟨rfl, rfl⟩ := hst
      exact ⟨_, rfl, ⟨s1, s2, s3, ⟨owned, s4, s5, s6, s10⟩, hkeys, s9⟩⟩
    · have hb : (((putLs ([] : NodeMap H) ts).length : Int) != (nl - nd).toInt) = true := by
        simpa using hs
      simp only [hb, if_true, ne_eq, hs, not_false_eq_true]
      refine ⟨rfl, ?_⟩
      intro n' st hst
      simp at hst
  | err => exact ⟨rfl, fun n' st hst => by simp [failAs] at hst⟩
  | panic => exact ⟨rfl, fun n' st hst => by simp [failAs] at hst⟩
  | hang => exact ⟨rfl, fun n' st hst => by simp [failAs] at hst⟩

/-- what `leafRecs` means, in terms of the shape-level decoder alone: when `restorePollard`
accepts a stream, the parse succeeds with the same count, header and shapes, and the decoder's
`NodeMap` is the result of `NodeMap[rec[:12]] = ofBytes rec` for exactly the records `leafRecs`
of the parse, in stream order -/
theorem restorePollard_leafRecs (r : Reader) (n : Nat) (st : PState H)
    (h : restorePollard (H := H) r = ⟨n, .ok st⟩) :
    ∃ ts, restoreL r = ⟨n, .ok (st.numLeaves, st.numDels, ts)⟩ ∧ st.roots = ts.map LNode.erase ∧
      st.nodeMap = putRecs [] (ts.flatMap (leafRecs H)) := by
  rw [restorePollard_eq] at h
  rcases hy : restoreL r with ⟨n', o⟩
  rw [hy] at h
  cases o with
  | ok x =>
    obtain ⟨nl, nd, ts⟩ := x
    simp only [] at h
    split at h
    · simp at h
    · simp only [Res.mk.injEq, Out.ok.injEq] at h
      obtain ⟨rfl, rfl⟩ := h
      exact ⟨ts, rfl, rfl, rfl⟩
  | err => simp [failAs] at h
  | panic => simp [failAs] at h
  | hang => simp [failAs] at h

/-- the full statement WITHOUT the collision hypothesis: the two decoders always agree on the
outcome kind.  It is FALSE (`Example.restoreH_agrees_statement_false`): the heap model keys
`NodeMap` by the full hash, Go and the shape model by its first 12 bytes, so a stream with two
leaf records that share 12 bytes and differ later passes the sanity check of the heap model
and fails the one of the shape model (and of Go) — the documented scope limit of
`Model/PollardHeap.lean`, not a defect of the Go code.  `restoreH_refines` is this statement
with exactly the hypothesis `NoMiniCollision` added. -/
def restoreH_agrees_statement (H : Type) [DecidableEq H] [Hasher H] [HashBytes H] : Prop :=
  ∀ r : Reader, (restoreH (H := H) r).out.tag = (restorePollard (H := H) r).out.tag

theorem restoreH_agrees_partial (r : Reader) (hnc : NoMiniCollision H r) :
    (restoreH (H := H) r).out.tag = (restorePollard (H := H) r).out.tag :=
  (restoreH_refines r hnc).2.1

/-- a valid stream has no colliding records (the hypothesis of `restoreH_refines` is the
hypothesis `LeavesOK` of C13 there) -/
theorem noMiniCollision_encode (ok : Proofs.Serial.HashBytesOK H) (F : Forest H)
    (hF : Proofs.Serial.LeavesOK F) (r : Reader) (hd : r.data = encodePollard F) :
    NoMiniCollision H r := by
  intro n nl nd ts h
  have hsmall := hF.small
  rw [restoreL_encode ok F (by omega) r hd] at h
  simp only [Res.mk.injEq, Out.ok.injEq, Prod.mk.injEq] at h
  obtain ⟨_, _, _, rfl⟩ := h
  exact no_collision_encode ok F hF

/-- **round trip on the heap**: the bytes `WriteTo` produces for `F`, through ANY chunking, are
restored — count = length of the stream — to a full pollard that REPRESENTS `F`, is well
formed, and whose `NumDels` is the number of dead slots -/
theorem restoreH_roundtrip (ok : Proofs.Serial.HashBytesOK H) (F : Forest H)
    (hF : Proofs.Serial.LeavesOK F) (r : Reader) (hd : r.data = encodePollard F) :
    ∃ p', restoreH r = ⟨(encodePollard F).length, .ok p'⟩ ∧ Abs p' F ∧ WF p' ∧ p'.full = true ∧
      DelsOK p' F := by
  obtain ⟨p', h1, h2, h3, h4⟩ := restoreH_encode ok F hF r hd
  exact ⟨p', h1, h2, h2.wf, h3, h4⟩

/-- … and that heap carries the shape `PState.ofForest F` the shape-level decoder returns -/
theorem restoreH_roundtrip_shape (ok : Proofs.Serial.HashBytesOK H) (F : Forest H)
    (hF : Proofs.Serial.LeavesOK F) (r : Reader) (hd : r.data = encodePollard F) :
    ∃ p', restoreH r = ⟨(encodePollard F).length, .ok p'⟩ ∧ ShapeOf p' (PState.ofForest F) ∧ Abs p' F := by
  obtain ⟨p', h1, h2, _⟩ := restoreH_encode ok F hF r hd
  obtain ⟨p'', g1, g2⟩ := (restoreH_refines r (noMiniCollision_encode ok F hF r hd)).2.2 _ _
    (Props.C13.pollard_roundtrip ok F hF r hd)
  rw [h1] at g1
  simp only [Res.mk.injEq, Out.ok.injEq, true_and] at g1
  subst g1
  exact ⟨p', h1, g2, h2⟩

/-- **truncation** (`pollard_prefix` transported): restoring on the heap from a strict prefix of a
valid stream, through any chunking, is an error — never a panic, never a heap — and the count
does not exceed the bytes present -/
theorem restoreH_prefix (ok : Proofs.Serial.HashBytesOK H) (F : Forest H) (hn : F.numLeaves < 2 ^ 64)
    (r : Reader) (t : Nat) (ht : t < (encodePollard F).length) (hd : r.data = (encodePollard F).take t) :
    (restoreH (H := H) r).out = .err ∧ (restoreH (H := H) r).n ≤ t := by
  obtain ⟨h1, h2⟩ := restoreL_prefix ok F hn r t ht hd
  obtain ⟨e, _⟩ := restore_parse_fail (H := H) r (by rw [h1]; intro x; simp)
  rw [e]; exact ⟨rfl, h2⟩

/-! ### 3. end to end -/

/-- **what was written is restored to a heap representing the same forest.**  If `WriteTo` on a
heap representing `F` succeeds into a sink (`len` bytes reported, `bytes` received), then
`RestorePollardFrom` on ANY reader delivering `bytes` returns `len` and a well-formed full pollard
that represents `F` (and can be written again: `DelsOK`). -/
theorem restore_write_behaves_identically (ok : Proofs.Serial.HashBytesOK H) {p : Pollard H} {F : Forest H}
    (a : Abs p F) (hd : DelsOK p F) (hF : Proofs.Serial.LeavesOK F) (k len room : Nat) (bytes : List Byte)
    (hw : writeToH p ⟨[], k⟩ = (⟨len, .ok ()⟩, ⟨bytes, room⟩)) :
    ∀ r : Reader, r.data = bytes →
      ∃ p', restoreH r = ⟨len, .ok p'⟩ ∧ Abs p' F ∧ WF p' ∧ p'.full = true ∧ DelsOK p' F := by
  intro r hr
  by_cases hk : (encodePollard F).length ≤ k
  · rw [writeToH_sink_ok ok a hd k hk] at hw
    simp only [Prod.mk.injEq, Res.mk.injEq, Sink.mk.injEq, and_true] at hw
    obtain ⟨rfl, rfl, _⟩ := hw
    exact restoreH_roundtrip ok F hF r hr
  · have := (writeToH_sink_fail ok a hd k (by omega)).1
    rw [hw] at this
    simp at this

/-- `Modify` keeps `NumDels` = number of dead slots -/
theorem delsOK_modify (hph : ∀ a b : H, ph a b ≠ (zero : H)) (p : Pollard H) (F : Forest H)
    (dels dels' : List H) (targets : List U64) (adds : List (H × Bool))
    (hA : Abs p F) (hd : DelsOK p F) (hfull : p.full = true) (hok : Proofs.PollardHeap.LeavesOK F)
    (hn : F.numLeaves + adds.length < 2 ^ 63)
    (hnd : dels.Nodup) (hlive : ∀ d ∈ dels, d ∈ F.liveLeaves) (hperm : dels'.Perm dels)
    (htargets : ∀ ts, dels'.mapM F.posOf = some ts →
      targets = ts.map (fun q => BitVec.ofNat 64 (enc F.rows q)))
    (hpos : (dels'.mapM F.posOf).isSome)
    (hadd : (adds.map (·.1)).Nodup) (hfresh : ∀ e ∈ adds, e.1 ∉ F.liveLeaves ∧ e.1 ≠ zero) :
    ∃ p', PollardHeap.modify adds dels targets p = (.ok (), p') ∧
      Abs p' (F.modify dels (adds.map (·.1))) ∧ p'.full = true ∧
      DelsOK p' (F.modify dels (adds.map (·.1))) := by
  obtain ⟨p', h1, h2, h3, h4, _⟩ := Props.PollardHeapB.modify_refines hph p F dels dels' targets adds hA hfull hok hn
    hnd hlive hperm htargets hpos hadd hfresh
  refine ⟨p', h1, h2, h3, ?_⟩
  obtain ⟨ts, hts⟩ := Option.isSome_iff_exists.1 hpos
  have e1 := Props.PollardHeapB.mapM_posOf dels' ts hts
  have e2 := htargets ts hts
  have hlen : targets.length = dels.length := by rw [e2, e1]; simp [hperm.length_eq]
  have hlnd : F.liveLeaves.Nodup := Props.PollardHeapC.abs_liveLeaves_nodup hA (by omega)
  have hdead := numDead_modify F dels (adds.map (·.1)) hlnd hnd hlive
  unfold DelsOK at hd ⊢
  rw [h4, hd, hlen, hdead]
  apply BitVec.eq_of_toNat_eq
  simp [BitVec.toNat_add, BitVec.toNat_ofNat]

/-- **the restored heap behaves like the original under the same block**: for a valid block
(distinct live deletions with their positions as targets in any order, distinct fresh non-zero
additions), `Modify` on the heap `p` that was written and on ANY heap `p'` restored from the
written bytes both succeed, and both results represent `F.modify dels adds` (and can be written
again) -/
theorem restored_modify_agrees (ok : Proofs.Serial.HashBytesOK H) (hph : ∀ a b : H, ph a b ≠ (zero : H))
    {p : Pollard H} {F : Forest H}
    (a : Abs p F) (hd : DelsOK p F) (hfull : p.full = true)
    (hF : Proofs.Serial.LeavesOK F) (hok : Proofs.PollardHeap.LeavesOK F)
    (k len room : Nat) (bytes : List Byte)
    (hw : writeToH p ⟨[], k⟩ = (⟨len, .ok ()⟩, ⟨bytes, room⟩)) (r : Reader) (hr : r.data = bytes)
    (dels dels' : List H) (targets : List U64) (adds : List (H × Bool))
    (hn : F.numLeaves + adds.length < 2 ^ 63)
    (hnd : dels.Nodup) (hlive : ∀ d ∈ dels, d ∈ F.liveLeaves) (hperm : dels'.Perm dels)
    (htargets : ∀ ts, dels'.mapM F.posOf = some ts →
      targets = ts.map (fun q => BitVec.ofNat 64 (enc F.rows q)))
    (hpos : (dels'.mapM F.posOf).isSome)
    (hadd : (adds.map (·.1)).Nodup) (hfresh : ∀ e ∈ adds, e.1 ∉ F.liveLeaves ∧ e.1 ≠ zero) :
    ∃ p' q q', restoreH r = ⟨len, .ok p'⟩ ∧
      PollardHeap.modify adds dels targets p = (.ok (), q) ∧
      PollardHeap.modify adds dels targets p' = (.ok (), q') ∧
      Abs q (F.modify dels (adds.map (·.1))) ∧ Abs q' (F.modify dels (adds.map (·.1))) ∧
      q.full = true ∧ q'.full = true ∧
      DelsOK q (F.modify dels (adds.map (·.1))) ∧ DelsOK q' (F.modify dels (adds.map (·.1))) := by
  obtain ⟨p', h1, a', _, hfull', hd'⟩ := restore_write_behaves_identically ok a hd hF k len room bytes hw r hr
  obtain ⟨q, m1, m2, m3, m4⟩ := delsOK_modify hph p F dels dels' targets adds a hd hfull hok hn hnd hlive
    hperm htargets hpos hadd hfresh
  obtain ⟨q', n1, n2, n3, n4⟩ := delsOK_modify hph p' F dels dels' targets adds a' hd' hfull' hok hn hnd hlive
    hperm htargets hpos hadd hfresh
  exact ⟨p', q, q', h1, m1, n1, m2, n2, m3, n3, m4, n4⟩

/-- two heaps representing the same forest (with `NumDels` right) are written to the same bytes,
with the same count and outcome, into every sink -/
theorem writeToH_same {p q : Pollard H} {F : Forest H} (a : Abs p F) (b : Abs q F)
    (hp : DelsOK p F) (hq : DelsOK q F) (w : Sink) : writeToH p w = writeToH q w := by
  rw [writeToH_refines a hp, writeToH_refines b hq]

/-- **every observable of the restored heap is that of the original**: on a heap `p` representing
`F` and on any heap `p'` representing `F` too (in particular one restored from what `p` wrote),
`GetRoots`, `GetHash` (every position), `GetLeafPosition` (every hash), `Prove` (every duplicate-free
request of live leaves) and `Verify` return the same — the answers of the specification forest -/
theorem restored_queries_agree (hph : ∀ a b : H, ph a b ≠ (zero : H)) {p p' : Pollard H} {F : Forest H}
    (a : Abs p F) (a' : Abs p' F) (hn : F.numLeaves < 2 ^ 63)
    (hnz : ∀ x ∈ F.liveLeaves, x ≠ (zero : H)) :
    (getRootHashes p = (.ok F.roots, p) ∧ getRootHashes p' = (.ok F.roots, p')) ∧
    (∀ pos : U64, getHash pos p = (.ok (PollardAbs.pollardGetHashNiece F pos), p) ∧
      getHash pos p' = (.ok (PollardAbs.pollardGetHashNiece F pos), p')) ∧
    (F.roots.Nodup → ∀ h : H,
      getLeafPosition h p = (.ok (PollardAbs.pollardGetLeafPosition F h), p) ∧
      getLeafPosition h p' = (.ok (PollardAbs.pollardGetLeafPosition F h), p')) ∧
    (F.roots.Nodup → ∀ hs : List H, (∀ h ∈ hs, h ∈ F.liveLeaves) → hs.Nodup → 1 < F.numLeaves →
      hs ≠ [] → ∃ ts ps, F.canon hs = some (ts, ps) ∧
        prove hs p = (.ok (ts.map (fun q => BitVec.ofNat 64 (enc F.rows q)), ps), p) ∧
        prove hs p' = (.ok (ts.map (fun q => BitVec.ofNat 64 (enc F.rows q)), ps), p')) ∧
    (∀ (delHashes : List H) (targets : List U64) (proofHashes : List H) (rem : Bool),
      (PollardHeap.verify delHashes targets proofHashes rem p).1 =
        (PollardHeap.verify delHashes targets proofHashes rem p').1) := by
  refine ⟨⟨Props.PollardHeap.getRoots_refines a, Props.PollardHeap.getRoots_refines a'⟩,
    fun pos => ⟨Props.PollardHeap.getHash_refines a pos, Props.PollardHeap.getHash_refines a' pos⟩,
    fun hr h => ⟨Props.PollardHeapB.getLeafPosition_refines a hn hr h,
      Props.PollardHeapB.getLeafPosition_refines a' hn hr h⟩, ?_, ?_⟩
  · intro hr hs hl hnd' h1' hne
    obtain ⟨ts, ps, hc, hp0⟩ := Props.PollardHeapB.prove_refines hph a hn hr hnz hs hl hnd' h1' hne
    obtain ⟨ts', ps', hc', hp1⟩ := Props.PollardHeapB.prove_refines hph a' hn hr hnz hs hl hnd' h1' hne
    rw [hc] at hc'
    obtain ⟨rfl, rfl⟩ := Prod.mk.inj (Option.some.inj hc')
    exact ⟨ts, ps, hc, hp0, hp1⟩
  · intro dh tg phs rem
    rw [Props.PollardHeapB.verify_refines a (by omega), Props.PollardHeapB.verify_refines a' (by omega)]

/-- after the same valid block the two results are again written to the same bytes -/
theorem restored_modify_writes_same {q q' : Pollard H} {G : Forest H} (b : Abs q G) (b' : Abs q' G)
    (hq : DelsOK q G) (hq' : DelsOK q' G) (w : Sink) : writeToH q w = writeToH q' w :=
  writeToH_same b b' hq hq' w

/-! ### 4. non-vacuity: a concrete heap with a dead slot and two trees -/

namespace Example

/-- a toy hash type with a 32-byte wire form: one byte padded with zeros; parent hashes have the
top bit set (so they are never all-zero and never a leaf with the top bit clear) -/
structure Hx where
  v : U8
deriving DecidableEq, Repr

instance : Hasher Hx := ⟨fun a b => ⟨(a.v * 31#8 + b.v) ||| 0x80#8⟩, ⟨0#8⟩⟩
instance : HashBytes Hx := ⟨fun h => h.v :: List.replicate 31 0#8, fun bs => ⟨bs.headD 0#8⟩⟩

theorem okHx : Proofs.Serial.HashBytesOK Hx :=
  ⟨fun _ => by simp [toBytes], fun h => by cases h; simp [toBytes, ofBytes]⟩

theorem ph_top (u v : Hx) : (ph u v).v.getLsbD 7 = true := by
  show ((u.v * 31#8 + v.v) ||| 0x80#8).getLsbD 7 = true
  simp

theorem hphHx : ∀ a b : Hx, ph a b ≠ (zero : Hx) := by
  intro a b h
  have := ph_top a b
  rw [h] at this
  revert this
  decide

theorem low_not_ph (x : Hx) (hx : x.v.getLsbD 7 = false) (u v : Hx) : x ≠ ph u v := by
  intro h
  have := ph_top u v
  rw [← h, hx] at this
  cases this

def leaves5 : List (Hx × Bool) :=
  [(⟨1#8⟩, true), (⟨2#8⟩, false), (⟨3#8⟩, true), (⟨4#8⟩, true), (⟨5#8⟩, false)]

/-- five additions on `NewAccumulator()`, then a block deleting leaf `2` (position 1): by
evaluation of the heap model -/
def p0 : Pollard Hx := (PollardHeap.add leaves5 newAccumulator).2
def p : Pollard Hx := (PollardHeap.modify [] [⟨2#8⟩] [1#64] p0).2

/-- five slots, one dead: trees `[1 · 3 4]` (leaf 1 moved up) and `[5]` -/
def F : Forest Hx := ⟨[some ⟨1#8⟩, none, some ⟨3#8⟩, some ⟨4#8⟩, some ⟨5#8⟩]⟩

theorem liveF : F.liveLeaves = [⟨1#8⟩, ⟨3#8⟩, ⟨4#8⟩, ⟨5#8⟩] := by decide

/-- the hypotheses of the theorems are satisfiable: `p` represents `F`, its `NumDels` is right,
it is full, and `F` satisfies both leaf conditions -/
theorem abs_p : Abs p F :=
  Props.PollardHeap.abs_of_check p F (by decide +kernel) (by decide +kernel) (by decide +kernel)
    (by decide +kernel)
theorem delsOK_p : DelsOK p F := by
  show p.numDels = _
  decide +kernel
theorem full_p : p.full = true := by decide +kernel
theorem leavesOK_ser : Proofs.Serial.LeavesOK F := ⟨by decide, by decide, by decide⟩
theorem leavesOK_ph : Proofs.PollardHeap.LeavesOK F := by
  intro x hx
  rw [liveF] at hx
  simp only [List.mem_cons, List.not_mem_nil, or_false] at hx
  rcases hx with rfl | rfl | rfl | rfl <;> exact ⟨by decide, low_not_ph _ (by decide)⟩

/-- write refines, on the instance: 6 nodes, 220 bytes -/
theorem write_p : writeToH p ⟨[], 1000⟩ = (⟨220, .ok ()⟩, ⟨encodePollard F, 780⟩) := by
  have h := writeToH_sink_ok okHx abs_p delsOK_p 1000 (by decide +kernel)
  have hl : (encodePollard F).length = 220 := by decide +kernel
  rw [hl] at h; exact h
/-- … and by evaluation of the heap model alone -/
example : (writeToH p ⟨[], 1000⟩).1.n = 220 ∧ (writeToH p ⟨[], 1000⟩).1.out = .ok () ∧
    (writeToH p ⟨[], 1000⟩).2.written = encodePollard F ∧ (writeToH p ⟨[], 1000⟩).2.room = 780 := by
  decide +kernel
/-- a sink with room for 100 bytes: an error, at most 100 bytes reported -/
example : (writeToH p ⟨[], 100⟩).1.out = .err ∧ (writeToH p ⟨[], 100⟩).1.n ≤ 100 :=
  writeToH_sink_fail okHx abs_p delsOK_p 100 (by decide +kernel)

theorem flatten_singletons {α : Type} (l : List α) : (l.map (fun x => [x])).flatten = l := by
  induction l with
  | nil => rfl
  | cons a l ih => simp [ih]

/-- the reader that hands out the written bytes one at a time, `io.EOF` with the last one -/
def rd1 : Reader := ⟨(encodePollard F).map ([·]), true⟩
theorem rd1_data : rd1.data = encodePollard F := by simp [rd1, Reader.data, flatten_singletons]

/-- restore refines, on the instance: the restored heap represents `F` -/
example : ∃ p', restoreH rd1 = ⟨220, .ok p'⟩ ∧ Abs p' F ∧ WF p' ∧ p'.full = true ∧ DelsOK p' F := by
  have h := restoreH_roundtrip okHx F leavesOK_ser rd1 rd1_data
  have hl : (encodePollard F).length = 220 := by decide +kernel
  rw [hl] at h; exact h

/-- the restored heap, by evaluation of the heap model -/
def pr : Pollard Hx :=
  match restoreH (H := Hx) rd1 with
  | ⟨_, .ok q⟩ => q
  | _ => newAccumulator

example : (restoreH (H := Hx) rd1).n = 220 := by decide +kernel
example : wfCheck pr = none := by decide +kernel
example : absTrees pr = some F.trees := by decide +kernel
/-- it is NOT the heap that was written: 6 nodes instead of 8 (the two nodes `Modify` unlinked are
gone), `remember = false` everywhere instead of `true` — and it represents the same forest -/
example : pr.heap.size = 6 ∧ p.heap.size = 8 := by decide +kernel
example : pr.heap.toList.map (·.remember) = List.replicate 6 false ∧
    p.heap.toList.map (·.remember) = List.replicate 8 true := by decide +kernel

/-- a strict prefix ending at a node boundary is rejected by the heap-level decoder -/
example : (restoreH (H := Hx) (Reader.whole ((encodePollard F).take 186))).out = .err :=
  (restoreH_prefix okHx F (by decide) _ 186 (by decide +kernel) (by simp [Reader.whole, Reader.data])).1

/-- the general theorem applies too: the stream has no colliding records, the restored heap carries
the shape the shape-level decoder returns -/
example : NoMiniCollision Hx rd1 := noMiniCollision_encode okHx F leavesOK_ser rd1 rd1_data
example : ∃ p', restoreH rd1 = ⟨(encodePollard F).length, .ok p'⟩ ∧ ShapeOf p' (PState.ofForest F) ∧ Abs p' F :=
  restoreH_roundtrip_shape okHx F leavesOK_ser rd1 rd1_data

/-- a block: delete leaf `4` (position 3), add `6` and `7` -/
def dels : List Hx := [⟨4#8⟩]
def targets : List U64 := [3#64]
def adds : List (Hx × Bool) := [(⟨6#8⟩, true), (⟨7#8⟩, false)]

/-- **write → restore → modify agrees**, on the instance: the end-to-end theorem with all its
hypotheses discharged -/
example : ∃ p' q q', restoreH rd1 = ⟨220, .ok p'⟩ ∧
    PollardHeap.modify adds dels targets p = (.ok (), q) ∧
    PollardHeap.modify adds dels targets p' = (.ok (), q') ∧
    Abs q (F.modify dels (adds.map (·.1))) ∧ Abs q' (F.modify dels (adds.map (·.1))) ∧
    q.full = true ∧ q'.full = true ∧
    DelsOK q (F.modify dels (adds.map (·.1))) ∧ DelsOK q' (F.modify dels (adds.map (·.1))) :=
  restored_modify_agrees okHx hphHx abs_p delsOK_p full_p leavesOK_ser leavesOK_ph 1000 220 780 _
    write_p rd1 rd1_data dels dels targets adds (by decide) (by decide) (by decide) (List.Perm.refl _)
    (by
      intro ts h
      have e : dels.mapM F.posOf = some [(0, 3)] := by decide +kernel
      rw [e] at h; cases h; decide +kernel)
    (by decide +kernel) (by decide) (by decide)

/-- … and by evaluation of the heap model: both `Modify` calls succeed and both results pass the
executable check and abstract to the trees of `F.modify dels adds` -/
def q : Pollard Hx := (PollardHeap.modify adds dels targets p).2
def q' : Pollard Hx := (PollardHeap.modify adds dels targets pr).2
example : (PollardHeap.modify adds dels targets p).1 = .ok () ∧
    (PollardHeap.modify adds dels targets pr).1 = .ok () := by decide +kernel
example : wfCheck q = none ∧ wfCheck q' = none := by decide +kernel
example : absTrees q = some (F.modify dels (adds.map (·.1))).trees ∧
    absTrees q' = some (F.modify dels (adds.map (·.1))).trees := by decide +kernel
/-- the observables agree: roots, every position's hash below 16, the position of every leaf -/
example : (getRootHashes q).1 = (getRootHashes q').1 := by decide +kernel
example : (List.range 16).all (fun i => decide ((getHash (BitVec.ofNat 64 i) q).1 = (getHash (BitVec.ofNat 64 i) q').1)) = true := by
  decide +kernel
example : ([1, 3, 5, 6, 7, 4].map (fun i => (getLeafPosition (⟨BitVec.ofNat 8 i⟩ : Hx) q).1)) =
    ([1, 3, 5, 6, 7, 4].map (fun i => (getLeafPosition (⟨BitVec.ofNat 8 i⟩ : Hx) q').1)) := by decide +kernel
example : (prove [⟨1#8⟩, ⟨6#8⟩] q).1 = (prove [(⟨1#8⟩ : Hx), ⟨6#8⟩] q').1 := by decide +kernel
/-- and they are written to the same bytes again -/
example : (writeToH q ⟨[], 1000⟩).2.written = (writeToH q' ⟨[], 1000⟩).2.written := by decide +kernel

/-! the collision hypothesis of `restoreH_refines` is necessary -/

/-- a hash type whose wire form uses byte 0 and byte 12 -/
structure Hy where
  v : BitVec 16
deriving DecidableEq, Repr

instance : Hasher Hy := ⟨fun a b => ⟨a.v + b.v⟩, ⟨0#16⟩⟩
instance : HashBytes Hy :=
  ⟨fun h => (h.v.setWidth 8) :: List.replicate 11 0#8 ++ [(h.v >>> 8).setWidth 8] ++ List.replicate 19 0#8,
   fun bs => ⟨((bs.getD 12 0#8).setWidth 16 <<< 8) ||| (bs.headD 0#8).setWidth 16⟩⟩

/-- two leaves, one root with two leaf nieces whose hashes share their first 12 bytes and differ in
byte 12 -/
def collide : List Byte :=
  le64 2#64 ++ le64 0#64 ++ toBytes (⟨0x0302#16⟩ : Hy) ++ [0#8, 1#8] ++
    toBytes (⟨0x0101#16⟩ : Hy) ++ [1#8, 0#8] ++ toBytes (⟨0x0201#16⟩ : Hy) ++ [1#8, 0#8]

theorem restoreH_agrees_statement_false : ¬ restoreH_agrees_statement Hy := by
  intro h
  have h0 := h (Reader.whole collide)
  have h1 : (restorePollard (H := Hy) (Reader.whole collide)).out = .err := by decide +kernel
  have h2 : (restoreH (H := Hy) (Reader.whole collide)).out.isOk = true := by decide +kernel
  rw [h1] at h0
  revert h0 h2
  generalize (restoreH (H := Hy) (Reader.whole collide)).out = o
  intro h0 h2
  cases o with
  | ok x => revert h0; simp only [Out.tag]; decide
  | err => simp [Out.isOk] at h2
  | panic => simp [Out.isOk] at h2
  | hang => simp [Out.isOk] at h2

end Example

end UtreexoVerif.Props.C13Heap
