/-
  C04 — verifiers are total on untrusted input and reject atomically: proofs of the
  statements in `Props/C04_statement.lean`.
-/
import UtreexoVerif.Props.C04_statement
import UtreexoVerif.Proofs.StumpNoErr
import UtreexoVerif.Proofs.RowFacts
import UtreexoVerif.Proofs.CalcTotal
import UtreexoVerif.Proofs.StumpTotal

namespace UtreexoVerif.Props.C04
open UtreexoVerif Model Hasher

section
variable {H : Type} [DecidableEq H] [Hasher H]

/-- `delSt` only writes the roots back on success -/
theorem delSt_not_ok (s : Stump H) (dels : List H) (ts : List U64) (ps : List H)
    (h : ∀ x, (s.delSt dels ts ps).2 ≠ .ok x) : (s.delSt dels ts ps).1 = s := by
  unfold Stump.delSt at h ⊢
  generalize verify s.numLeaves s.roots dels ts ps = v at h ⊢
  cases v with
  | ok idx =>
    simp only at h ⊢
    generalize calculateHashes s.numLeaves none ts ps = c at h ⊢
    cases c with
    | ok r =>
      simp only at h ⊢
      split
      · rfl
      · rename_i hc
        simp [hc] at h
    | _ => rfl
  | _ => rfl

theorem update_reject_atomic : update_reject_atomic_statement H := by
  intro nonZero s dels adds ts ps h
  have hd := delSt_not_ok s dels ts ps
  unfold Stump.updateSt at h ⊢
  generalize s.delSt dels ts ps = d at h hd ⊢
  obtain ⟨s1, o⟩ := d
  cases o with
  | ok newDel =>
    simp only at h ⊢
    have := Proofs.StumpNoErr.add_ne_err nonZero s1 adds
    split at h <;> simp_all
  | err => exact hd (by simp)
  | panic => simp at h
  | hang => simp at h

/-! ### the row facts hold for every forest of at most 2^63 leaves -/

theorem rowFacts : ∀ n : U64, n.toNat ≤ 2 ^ 63 → RowFacts n := Proofs.RowFacts.rowFacts

/-! ### totality -/

theorem calc_total : calc_total_statement H := by
  intro n _ rf hs ts ps hlen
  exact Proofs.CalcTotal.calculateHashes_total rf hs ts ps hlen

theorem verify_total : verify_total_statement H := by
  intro n _ rf roots hs ts ps
  exact Proofs.CalcTotal.verify_total' rf roots hs ts ps

theorem pollardVerify_total : pollardVerify_total_statement H := by
  intro n _ rf roots hs ts ps
  exact Proofs.CalcTotal.pollardVerify_total' rf roots hs ts ps

theorem mapVerify_total : mapVerify_total_statement H := by
  intro n totalRows _ rf roots hs ts ps
  unfold mapVerify
  exact Proofs.CalcTotal.verify_total' rf roots hs _ ps

/-! ### `Stump.Update` is total on a well-formed stump -/

theorem foldl_set_length {α} (l : List (Nat × α)) :
    ∀ rs : List α, (l.foldl (fun rs (x : Nat × α) => rs.set x.1 x.2) rs).length = rs.length := by
  induction l with
  | nil => intro rs; rfl
  | cons x l ih => intro rs; rw [List.foldl_cons, ih, List.length_set]

/-- `del` is total and keeps the shape of the stump -/
theorem delSt_spec {n : U64} (s : Stump H) (hn : s.numLeaves = n) (rf : RowFacts n)
    (dels : List H) (ts : List U64) (ps : List H) :
    Total (s.delSt dels ts ps).2 ∧ (s.delSt dels ts ps).1.numLeaves = s.numLeaves ∧
      (s.delSt dels ts ps).1.roots.length = s.roots.length := by
  subst hn
  have hv := Proofs.CalcTotal.verify_total' rf s.roots dels ts ps
  have hc := Proofs.CalcTotal.calculateHashes_total rf (none : Option (List H)) ts ps
    (by intro l hl; cases hl)
  unfold Stump.delSt
  generalize verify s.numLeaves s.roots dels ts ps = v at hv ⊢
  cases v with
  | ok idx =>
    simp only
    generalize calculateHashes s.numLeaves none ts ps = c at hc ⊢
    cases c with
    | ok r =>
      simp only
      split
      · exact ⟨Proofs.CalcTotal.total_err, rfl, rfl⟩
      · refine ⟨Proofs.CalcTotal.total_ok _, rfl, ?_⟩
        exact foldl_set_length _ _
    | err => exact ⟨Proofs.CalcTotal.total_err, rfl, rfl⟩
    | panic => exact absurd rfl hc.2
    | hang => exact absurd rfl hc.1
  | err => exact ⟨Proofs.CalcTotal.total_err, rfl, rfl⟩
  | panic => exact absurd rfl hv.2
  | hang => exact absurd rfl hv.1

/-- totality of `Update`; the placeholder hash need not even be non-zero -/
theorem update_total_core (nz : H) (s : Stump H) (hwf : WellFormed H s)
    (dels adds : List H) (ts : List U64) (ps : List H)
    (hn : s.numLeaves.toNat + adds.length ≤ 2 ^ 63) (rf : RowFacts s.numLeaves) :
    Total (s.updateSt nz dels adds ts ps).2 := by
  obtain ⟨hd, hnl, hlen⟩ := delSt_spec s rfl rf dels ts ps
  unfold Stump.updateSt
  generalize s.delSt dels ts ps = d at hd hnl hlen ⊢
  obtain ⟨s1, o⟩ := d
  simp only at hd hnl hlen
  cases o with
  | ok newDel =>
    simp only
    have hadd : Total (s1.add nz adds) := by
      apply Proofs.StumpTotal.add_total
      · rw [hnl]; exact hn
      · have h1 : (s.roots.length : Int) = Proofs.StumpTotal.cnt s.numLeaves 0 := by
          rw [Proofs.StumpTotal.cnt_zero]; exact hwf
        rw [hlen, hnl]
        exact Int.ofNat.inj h1
    generalize s1.add nz adds = a at hadd ⊢
    cases a with
    | ok r => exact Proofs.CalcTotal.total_ok _
    | err => exact Proofs.CalcTotal.total_err
    | panic => exact absurd rfl hadd.2
    | hang => exact absurd rfl hadd.1
  | err => exact Proofs.CalcTotal.total_err
  | panic => exact absurd rfl hd.2
  | hang => exact absurd rfl hd.1

theorem update_total : update_total_statement H := by
  intro nz _ s hwf dels adds ts ps hn rf
  exact update_total_core nz s hwf dels adds ts ps hn rf

/-- the `RowFacts` hypothesis of the statements is redundant: unconditional forms -/
theorem calc_total_uncond (n : U64) (hn : n.toNat ≤ 2 ^ 63) (hs : Option (List H))
    (ts : List U64) (ps : List H) (hlen : ∀ l, hs = some l → l.length = ts.length) :
    Total (calculateHashes n hs ts ps) :=
  calc_total n hn (rowFacts n hn) hs ts ps hlen

theorem verify_total_uncond (n : U64) (hn : n.toNat ≤ 2 ^ 63) (roots hs : List H)
    (ts : List U64) (ps : List H) : Total (verify n roots hs ts ps) :=
  verify_total n hn (rowFacts n hn) roots hs ts ps

theorem pollardVerify_total_uncond (n : U64) (hn : n.toNat ≤ 2 ^ 63) (roots hs : List H)
    (ts : List U64) (ps : List H) : Total (pollardVerify n roots hs ts ps) :=
  pollardVerify_total n hn (rowFacts n hn) roots hs ts ps

theorem update_total_uncond (nonZero : H) (s : Stump H) (hwf : WellFormed H s)
    (dels adds : List H) (ts : List U64) (ps : List H)
    (hn : s.numLeaves.toNat + adds.length ≤ 2 ^ 63) :
    Total (s.updateSt nonZero dels adds ts ps).2 :=
  update_total_core nonZero s hwf dels adds ts ps hn (rowFacts _ (by omega))

theorem mapVerify_total_uncond (n : U64) (totalRows : U8) (hn : n.toNat ≤ 2 ^ 63)
    (roots hs : List H) (ts : List U64) (ps : List H) :
    Total (mapVerify n totalRows roots hs ts ps) :=
  mapVerify_total n totalRows hn (rowFacts n hn) roots hs ts ps

end

/-! ### non-vacuity -/

namespace Example

inductive T where
  | z
  | leaf (n : Nat)
  | node (l r : T)
deriving DecidableEq

instance : Hasher T := ⟨T.node, T.z⟩

/-- the hypotheses of the totality theorems are satisfiable: 4 leaves -/
example : (4#64).toNat ≤ 2 ^ 63 ∧ RowFacts 4#64 := ⟨by decide, rowFacts _ (by decide)⟩

/-- 4 leaves, target 7 (no such position; this input made the Go row cursor spin forever
before the fix): rejected -/
example : verify (H := T) 4#64 [T.node (.node (.leaf 0) (.leaf 1)) (.node (.leaf 2) (.leaf 3))]
    [.leaf 9] [7#64] [] = .err := by decide +kernel

/-- the same through the totality theorem -/
example : Total (verify (H := T) 4#64
    [T.node (.node (.leaf 0) (.leaf 1)) (.node (.leaf 2) (.leaf 3))] [.leaf 9] [7#64] []) :=
  verify_total_uncond _ (by decide) _ _ _ _

/-- targets up to 2^64-1, duplicates, oversized proofs: rejected, never a panic -/
example : verify (H := T) 4#64 [T.node (.node (.leaf 0) (.leaf 1)) (.node (.leaf 2) (.leaf 3))]
    [.leaf 9, .leaf 0, .leaf 0] [BitVec.allOnes 64, 0#64, 0#64] [.leaf 1, .leaf 1, .leaf 1] = .err := by
  decide +kernel

/-- the other two entry points on the same out-of-range target -/
example : pollardVerify (H := T) 4#64
    [T.node (.node (.leaf 0) (.leaf 1)) (.node (.leaf 2) (.leaf 3))] [.leaf 9] [7#64] [] = .err := by
  decide +kernel

example : mapVerify (H := T) 4#64 3#8
    [T.node (.node (.leaf 0) (.leaf 1)) (.node (.leaf 2) (.leaf 3))] [.leaf 9] [15#64] [] = .err := by
  decide +kernel

example : Total (mapVerify (H := T) 4#64 3#8
    [T.node (.node (.leaf 0) (.leaf 1)) (.node (.leaf 2) (.leaf 3))] [.leaf 9] [15#64] []) :=
  mapVerify_total_uncond _ _ (by decide) _ _ _ _

/-- `calculateHashes` with `delHashes = nil` (second call of `Stump.del`) on a mixed input -/
example : Total (calculateHashes (H := T) 4#64 none [7#64, 0#64, 0#64] [.leaf 1]) :=
  calc_total_uncond _ (by decide) _ _ _ (by intro l hl; cases hl)

/-- an accepted run (so `Total` is not only about rejections) -/
example : verify (H := T) 4#64 [T.node (.node (.leaf 0) (.leaf 1)) (.node (.leaf 2) (.leaf 3))]
    [.leaf 0] [0#64] [.leaf 1, .node (.leaf 2) (.leaf 3)] = .ok [0] := by decide +kernel

def isErr {α} : Out α → Bool
  | .err => true
  | _ => false

theorem eq_err_of_isErr {α} {o : Out α} (h : isErr o = true) : o = .err := by
  cases o <;> simp_all [isErr]

/-- atomic rejection on a concrete rejected update (wrong leaf hash): the hypothesis of
`update_reject_atomic` is satisfiable -/
theorem reject_example : ((Stump.mk [T.node (.leaf 0) (.leaf 1)] 2#64).updateSt (T.leaf 1000)
    [.leaf 7] [.leaf 5] [0#64] [.leaf 1]).2 = .err :=
  eq_err_of_isErr (by decide +kernel)

example : ((Stump.mk [T.node (.leaf 0) (.leaf 1)] 2#64).updateSt (T.leaf 1000) [.leaf 7] [.leaf 5]
    [0#64] [.leaf 1]).1 = Stump.mk [T.node (.leaf 0) (.leaf 1)] 2#64 :=
  update_reject_atomic _ _ _ _ _ _ reject_example

/-- a well-formed stump and an accepted `Update` (delete leaf 0 of 2, add one leaf): the
hypotheses of `update_total` are satisfiable and the outcome is `.ok` -/
theorem wf_example : WellFormed T (Stump.mk [T.node (.leaf 0) (.leaf 1)] 2#64) := by
  unfold WellFormed; decide

example : T.leaf 1000 ≠ (zero : T) := by decide

example : ((Stump.mk [T.node (.leaf 0) (.leaf 1)] 2#64).updateSt (T.leaf 1000) [.leaf 0] [.leaf 5]
    [0#64] [.leaf 1]).2.isOk = true := by decide +kernel

example : Total ((Stump.mk [T.node (.leaf 0) (.leaf 1)] 2#64).updateSt (T.leaf 1000) [.leaf 0]
    [.leaf 5] [0#64] [.leaf 1]).2 :=
  update_total_uncond _ _ wf_example _ _ _ _ (by decide)

/-- the two row facts on a concrete position: 9 = (row 1, offset 1) of a 3-row forest -/
example : DetectRow 9#64 (TreeRows 8#64) = 1#8 ∧
    DetectRow (Parent 9#64 (TreeRows 8#64)) (TreeRows 8#64) = 2#8 := by decide

/-- The row cursor as it was BEFORE the fix (no `row > totalRows` check).  Only used for the
historical witness below. -/
def rowCursorOld (numLeaves : U64) (totalRows : U8) (provePos : U64) : Nat → U8 → Out U8
  | 0, _ => .hang
  | fuel+1, row =>
    if provePos > (maxPositionAtRow row totalRows numLeaves).1 then
      rowCursorOld numLeaves totalRows provePos fuel (row + 1)
    else .ok row

/-- witness for the unfixed code: 4 leaves, target 7 — after 256 increments the `uint8` row is
back at 0 and no iteration has exited, so the loop never exits -/
example : rowCursorOld 4#64 (TreeRows 4#64) 7#64 257 0#8 = .hang := by decide +kernel

/-- the fixed cursor rejects the same input -/
example : rowCursor 4#64 (TreeRows 4#64) 7#64 257 0#8 = .err := by decide +kernel

end Example

end UtreexoVerif.Props.C04
