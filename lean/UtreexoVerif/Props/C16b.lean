/-
  C16 (continued) — multi-step ancestors/descendants, root positions, forest membership,
  ancestor test, `calcNextPosition`/`calcPrevPosition`, `DetectOffset`.

  Conventions as in `Props/C16.lean`: `encU h r o` is the `uint64` position of node
  (row `r`, offset `o`) in a forest allocated for `h` rows, `H8 h` a row count as `uint8`.
  Standing hypotheses: `h ≤ 63`, `r ≤ h`, `o < 2^(h-r)`.
-/
import UtreexoVerif.Proofs.Geometry2
import UtreexoVerif.Proofs.DetectOffset
import UtreexoVerif.Props.C16

namespace UtreexoVerif.Props.C16
open UtreexoVerif UtreexoVerif.GoInt UtreexoVerif.Proofs

/-! ### `ParentMany` / `ChildMany` -/

/-- `ParentMany` climbs `k` rows: `(r, o) ↦ (r + k, o / 2^k)`, without error -/
theorem parentMany_enc {h r o k : Nat} (hh : h ≤ 63) (hr : r + k ≤ h) (ho : o < 2 ^ (h - r)) :
    Model.ParentMany (encU h r o) (H8 k) (H8 h) = (encU h (r + k) (o / 2 ^ k), false) := by
  by_cases hk0 : k = 0
  · subst hk0
    simp [Model.ParentMany]
  · rw [parentMany_toNat hh (by omega) (by omega) _
      (by rw [toNat_encU hh (by omega) ho]; have := enc_lt_aux (show r ≤ h by omega) ho; omega),
      toNat_encU hh (by omega) ho, enc_div_two_pow hr]
    rfl

/-- `ParentMany` reports an error exactly when `rise > forestRows` (all inputs) -/
theorem parentMany_error_iff (x : U64) (rise forestRows : U8) :
    (Model.ParentMany x rise forestRows).2 = true ↔ rise > forestRows := by
  rw [parentMany_err]; simp [BitVec.lt_def]

/-- `Parent` iterated `k` times -/
theorem parent_iterate_enc {h r o k : Nat} (hh : h ≤ 63) (hr : r + k ≤ h) (ho : o < 2 ^ (h - r)) :
    Nat.repeat (fun p => Model.Parent p (H8 h)) k (encU h r o) = encU h (r + k) (o / 2 ^ k) := by
  induction k with
  | zero => simp [Nat.repeat]
  | succ k ih =>
    have hok : o / 2 ^ k < 2 ^ (h - (r + k)) := by
      rw [Nat.div_lt_iff_lt_mul (Nat.two_pow_pos _), ← Nat.pow_add,
        show h - (r + k) + k = h - r by omega]
      exact ho
    rw [Nat.repeat, ih (by omega), parent_enc hh (by omega) hok, Nat.div_div_eq_div_mul,
      Nat.pow_succ]
    rfl

/-- `ParentMany` is `Parent` iterated -/
theorem parentMany_eq_iterate {h r o k : Nat} (hh : h ≤ 63) (hr : r + k ≤ h) (ho : o < 2 ^ (h - r)) :
    (Model.ParentMany (encU h r o) (H8 k) (H8 h)).1 =
      Nat.repeat (fun p => Model.Parent p (H8 h)) k (encU h r o) := by
  rw [parentMany_enc hh hr ho, parent_iterate_enc hh hr ho]

example : Model.ParentMany 1#64 2#8 3#8 = (12#64, false) := by decide
example : Model.ParentMany 1#64 4#8 3#8 = (0#64, true) := by decide
example : Model.ParentMany (encU 3 0 5) (H8 2) (H8 3) = (encU 3 2 1, false) :=
  parentMany_enc (by decide) (by decide) (by decide)


/-- `ChildMany` descends `k` rows along left children: `(r, o) ↦ (r - k, o * 2^k)` -/
theorem childMany_enc {h r o k : Nat} (hh : h ≤ 63) (hr : r ≤ h) (hk : k ≤ r) (ho : o < 2 ^ (h - r)) :
    Model.ChildMany (encU h r o) (H8 k) (H8 h) = (encU h (r - k) (o * 2 ^ k), false) := by
  have hk8 : (H8 k).toNat = k := toNat_H8 (by omega)
  have hh8 : (H8 h).toNat = h := toNat_H8 hh
  by_cases hk0 : k = 0
  · subst hk0
    simp [Model.ChildMany]
  · have h0 : (H8 k == 0#8) = false := by rw [U8_beq_zero, hk8]; simp; omega
    have hgt : decide (H8 k > H8 h) = false := by rw [U8_gt_iff, hk8, hh8]; simp; omega
    unfold Model.ChildMany
    rw [h0, hgt]
    simp only [Bool.false_eq_true, if_false]
    congr 1
    apply BitVec.eq_of_toNat_eq
    rw [hh8, hk8, toNat_shl_and_mask hh, toNat_encU hh hr ho,
      toNat_encU hh (by omega) (mul_two_pow_lt hr hk ho), childMany_nat hr hk ho]

/-- `ChildMany` reports an error exactly when `drop > forestRows` (all inputs) -/
theorem childMany_error_iff (x : U64) (drop forestRows : U8) :
    (Model.ChildMany x drop forestRows).2 = true ↔ drop > forestRows := by
  rw [childMany_err]; simp [BitVec.lt_def]

/-- `LeftChild` iterated `k` times -/
theorem leftChild_iterate_enc {h r o k : Nat} (hh : h ≤ 63) (hr : r ≤ h) (hk : k ≤ r)
    (ho : o < 2 ^ (h - r)) :
    Nat.repeat (fun p => Model.LeftChild p (H8 h)) k (encU h r o) = encU h (r - k) (o * 2 ^ k) := by
  induction k with
  | zero => simp [Nat.repeat]
  | succ k ih =>
    have hok := mul_two_pow_lt hr (show k ≤ r by omega) ho
    have e : r - k = (r - (k + 1)) + 1 := by omega
    rw [Nat.repeat, ih (by omega), e, leftChild_enc hh (by omega) (by rw [← e]; exact hok),
      Nat.pow_succ]
    congr 1
    rw [Nat.mul_comm, Nat.mul_assoc]

/-- `ChildMany` is `LeftChild` iterated -/
theorem childMany_eq_iterate {h r o k : Nat} (hh : h ≤ 63) (hr : r ≤ h) (hk : k ≤ r)
    (ho : o < 2 ^ (h - r)) :
    (Model.ChildMany (encU h r o) (H8 k) (H8 h)).1 =
      Nat.repeat (fun p => Model.LeftChild p (H8 h)) k (encU h r o) := by
  rw [childMany_enc hh hr hk ho, leftChild_iterate_enc hh hr hk ho]

/-- climbing back up after descending returns to the start -/
theorem parentMany_childMany {h r o k : Nat} (hh : h ≤ 63) (hr : r ≤ h) (hk : k ≤ r)
    (ho : o < 2 ^ (h - r)) :
    Model.ParentMany (Model.ChildMany (encU h r o) (H8 k) (H8 h)).1 (H8 k) (H8 h) =
      (encU h r o, false) := by
  rw [childMany_enc hh hr hk ho, parentMany_enc hh (by omega) (mul_two_pow_lt hr hk ho),
    Nat.mul_div_cancel _ (Nat.two_pow_pos _), show r - k + k = r by omega]

/-- descending after climbing gives the leftmost descendant of the ancestor on the original row -/
theorem childMany_parentMany {h r o k : Nat} (hh : h ≤ 63) (hr : r + k ≤ h) (ho : o < 2 ^ (h - r)) :
    Model.ChildMany (Model.ParentMany (encU h r o) (H8 k) (H8 h)).1 (H8 k) (H8 h) =
      (encU h r (o / 2 ^ k * 2 ^ k), false) := by
  have hok : o / 2 ^ k < 2 ^ (h - (r + k)) := by
    rw [Nat.div_lt_iff_lt_mul (Nat.two_pow_pos _), ← Nat.pow_add,
      show h - (r + k) + k = h - r by omega]
    exact ho
  rw [parentMany_enc hh hr ho, childMany_enc hh (by omega) (by omega) hok,
    show r + k - k = r by omega]

example : Model.ChildMany 12#64 2#8 3#8 = (0#64, false) := by decide
example : Model.ChildMany 13#64 2#8 3#8 = (4#64, false) := by decide
example : Model.ChildMany 13#64 4#8 3#8 = (0#64, true) := by decide
example : Model.ChildMany (encU 63 63 0) (H8 63) (H8 63) = (encU 63 0 0, false) :=
  childMany_enc (by decide) (by decide) (by decide) (by decide)


/-! ### root positions -/

/-- `rootPosition` is the encoding of `Spec.rootPos` (for `numLeaves < 2^(h+1)`, in particular
for every `numLeaves ≤ 2^h`, the capacity of a forest with `h` rows) -/
theorem rootPosition_enc {h row : Nat} (hh : h ≤ 63) (hrow : row ≤ h) (n : U64)
    (hn : n.toNat < 2 ^ (h + 1)) :
    Model.rootPosition n (H8 row) (H8 h) = encU h row (Spec.rootPos n.toNat row).2 := by
  apply BitVec.eq_of_toNat_eq
  have f := enc_facts hrow
  have h64 : 2 ^ (h + 1) ≤ 2 ^ 64 := two_pow_le_64 (by omega)
  have hd : n.toNat / 2 ^ (row + 1) < 2 ^ (h - row) := by
    rw [Nat.div_lt_iff_lt_mul (Nat.two_pow_pos _), ← Nat.pow_add,
      show h - row + (row + 1) = h + 1 by omega]
    exact hn
  rw [rootPosition_toNat hh hrow n hn]
  show _ = (BitVec.ofNat 64 (Spec.enc h (row, 2 * (n.toNat >>> (row + 1))))).toNat
  rw [enc_val, Nat.shiftRight_eq_div_pow, toNat_ofNat64_of_lt (by omega)]

/-- the root of an existing tree is a proper position of the forest -/
theorem rootPos_valid {n h row : Nat} (hn : n ≤ 2 ^ h) (hb : n.testBit row = true) :
    row ≤ h ∧ (Spec.rootPos n row).2 < 2 ^ (h - row) :=
  rootPos_offset_lt hn hb

/-- a tree exists on row `h` iff bit `h` of the leaf count is set (all inputs) -/
theorem rootExistsOnRow_spec (n : U64) (row : U8) :
    Model.rootExistsOnRow n row = n.toNat.testBit row.toNat :=
  rootExistsOnRow_eq n row

/-- `h = TreeRows n` rows have room for `n` leaves -/
theorem le_of_treeRows {h : Nat} (n : U64) (hT : Model.TreeRows n = H8 h) (hh : h ≤ 63) :
    n.toNat ≤ 2 ^ h := by
  have h1 := treeRows_spec n.isLt
  rw [BitVec.ofNat_toNat, BitVec.setWidth_eq, hT, toNat_H8 hh] at h1
  rw [h1]
  exact forestRows_spec_le _

theorem isRootPositionOnRow_enc_aux {h r o k : Nat} (n : U64) (hk : k < 256)
    (hT : Model.TreeRows n = H8 h)
    (hh : h ≤ 63) (hr : r ≤ h) (ho : o < 2 ^ (h - r)) :
    Model.isRootPositionOnRow (encU h r o) n (H8 k) =
      (decide (k = r) && Spec.isRootPos n.toNat (r, o)) := by
  have hn := le_of_treeRows n hT hh
  have hk8 : (H8 k).toNat = k := by rw [BitVec.toNat_ofNat]; omega
  unfold Model.isRootPositionOnRow
  simp only [rootPresent_eq, hT, hk8]
  cases hb : n.toNat.testBit k
  · simp only [Bool.false_and]
    by_cases hrr : k = r
    · simp [Spec.isRootPos, ← hrr, hb]
    · simp [hrr]
  · obtain ⟨hrow, hoff⟩ := rootPos_valid hn hb
    have f := two_pow_succ' h
    have f' := Nat.two_pow_pos h
    rw [rootPosition_enc hh hrow n (by omega)]
    simp only [Bool.true_and]
    by_cases hrr : k = r
    · subst hrr
      simp only [Spec.isRootPos, hb, Bool.true_and, decide_true]
      by_cases ho2 : o = 2 * (n.toNat >>> (k + 1))
      · subst ho2; simp [Spec.rootPos]
      · have : encU h k (Spec.rootPos n.toNat k).2 ≠ encU h k o := by
          intro hc
          have := congrArg BitVec.toNat hc
          rw [toNat_encU hh hrow hoff, toNat_encU hh hr ho] at this
          exact ho2 (enc_injective hrow hoff hr ho this).2.symm
        rw [beq_false_of_ne this, beq_false_of_ne ho2]
    · have : encU h k (Spec.rootPos n.toNat k).2 ≠ encU h r o := by
        intro hc
        have := congrArg BitVec.toNat hc
        rw [toNat_encU hh hrow hoff, toNat_encU hh hr ho] at this
        exact hrr (enc_injective hrow hoff hr ho this).1
      simp [this, hrr]

/-- `isRootPositionOnRow` for the forest height `h = TreeRows numLeaves`:
true iff the requested row is the position's row and the position is the root of the tree on
that row (`Spec.isRootPos`); any `row : uint8`. -/
theorem isRootPositionOnRow_enc {h r o : Nat} (n : U64) (row : U8)
    (hT : Model.TreeRows n = H8 h)
    (hh : h ≤ 63) (hr : r ≤ h) (ho : o < 2 ^ (h - r)) :
    Model.isRootPositionOnRow (encU h r o) n row =
      (decide (row.toNat = r) && Spec.isRootPos n.toNat (r, o)) := by
  have := isRootPositionOnRow_enc_aux (k := row.toNat) n row.isLt hT hh hr ho
  rwa [show H8 row.toNat = row by simp [H8]] at this


/-- `isRootPosition` (forest height `TreeRows numLeaves`) decides `Spec.isRootPos` -/
theorem isRootPosition_enc {h r o : Nat} (n : U64) (hT : Model.TreeRows n = H8 h)
    (hh : h ≤ 63) (hr : r ≤ h) (ho : o < 2 ^ (h - r)) :
    Model.isRootPosition (encU h r o) n = Spec.isRootPos n.toNat (r, o) := by
  unfold Model.isRootPosition
  simp only [hT, detectRow_enc hh hr ho]
  rw [isRootPositionOnRow_enc n _ hT hh hr ho, toNat_H8 (by omega)]
  simp

/-- `isRootPositionTotalRows`: the position is given in a forest allocated for `H` rows;
it must also exist in the forest of `h = TreeRows numLeaves` rows (true of every position
that is in the forest) -/
theorem isRootPositionTotalRows_enc {H h r o : Nat} (n : U64) (hT : Model.TreeRows n = H8 h)
    (hH : H ≤ 63) (hrH : r ≤ H) (hoH : o < 2 ^ (H - r))
    (hh : h ≤ 63) (hr : r ≤ h) (ho : o < 2 ^ (h - r)) :
    Model.isRootPositionTotalRows (encU H r o) n (H8 H) = Spec.isRootPos n.toNat (r, o) := by
  unfold Model.isRootPositionTotalRows
  rw [hT]
  split
  · rw [translatePos_enc hH hrH hoH hh hr ho, isRootPosition_enc n hT hh hr ho]
  · rename_i hne
    have : H = h := by
      have h1 : H8 H = H8 h := by simpa using hne
      have := congrArg BitVec.toNat h1
      rwa [toNat_H8 hH, toNat_H8 hh] at this
    subst this
    exact isRootPosition_enc n hT hh hr ho

/-- the `…OnRow…TotalRows` variant -/
theorem isRootPositionOnRowTotalRows_enc {H h r o : Nat} (n : U64) (row : U8)
    (hT : Model.TreeRows n = H8 h)
    (hH : H ≤ 63) (hrH : r ≤ H) (hoH : o < 2 ^ (H - r))
    (hh : h ≤ 63) (hr : r ≤ h) (ho : o < 2 ^ (h - r)) :
    Model.isRootPositionOnRowTotalRows (encU H r o) n row (H8 H) =
      (decide (row.toNat = r) && Spec.isRootPos n.toNat (r, o)) := by
  unfold Model.isRootPositionOnRowTotalRows
  rw [hT]
  split
  · rw [translatePos_enc hH hrH hoH hh hr ho, isRootPositionOnRow_enc n row hT hh hr ho]
  · rename_i hne
    have : H = h := by
      have h1 : H8 h = H8 H := by simpa using hne
      have := congrArg BitVec.toNat h1
      rw [toNat_H8 hH, toNat_H8 hh] at this
      exact this.symm
    subst this
    exact isRootPositionOnRow_enc n row hT hh hr ho

/-- 5 leaves: trees on rows 2 and 0; `TreeRows 5 = 3`; roots at (2, 0) = 12 and (0, 4) = 4 -/
example : Model.isRootPosition 12#64 5#64 = true ∧ Model.isRootPosition 4#64 5#64 = true ∧
    Model.isRootPosition 13#64 5#64 = false ∧ Model.rootPosition 5#64 2#8 3#8 = 12#64 := by decide
example : Model.isRootPosition (encU 3 2 0) 5#64 = Spec.isRootPos 5 (2, 0) :=
  isRootPosition_enc 5#64 (by decide) (by decide) (by decide) (by decide)
example : Spec.isRootPos 5 (2, 0) = true := by decide

/-- Boundary remark: when the position does not exist in the `TreeRows numLeaves`-row forest
(it is then outside the forest), `isRootPositionTotalRows` can answer `true`:
leaf slot 4 of a 3-row allocation is not a node of a 3-leaf forest, but translates to
position 4 of the 2-row forest, which is the root (1, 0). -/
example : Model.isRootPositionTotalRows 4#64 3#64 3#8 = true ∧
    Spec.isRootPos 3 (0, 4) = false := by decide


theorem rootPositionsFrom_spec {h : Nat} (hh : h ≤ 63) (n : U64) (hn : n.toNat < 2 ^ (h + 1)) :
    ∀ k, k ≤ h → Model.rootPositionsFrom n (H8 h) k =
      (Spec.treeRowsFrom k n.toNat).map (fun r => encU h r (Spec.rootPos n.toNat r).2)
  | 0, _ => by
    rw [Model.rootPositionsFrom, Spec.treeRowsFrom, rootExistsOnRow_eq]
    rw [show (0#8 : U8) = H8 0 from rfl, rootPosition_enc hh (Nat.zero_le h) n hn,
      show (H8 0).toNat = 0 from rfl]
    split <;> rfl
  | k + 1, hk => by
    rw [Model.rootPositionsFrom, Spec.treeRowsFrom, rootExistsOnRow_eq, toNat_H8 (by omega),
      rootPosition_enc hh hk n hn, rootPositionsFrom_spec hh n hn k (by omega)]
    split <;> rfl

/-- `RootPositions numLeaves h` lists the roots of the trees given by the set bits of
`numLeaves`, highest tree first, whenever the forest of `h ≤ 63` rows has room for the leaves -/
theorem rootPositions_spec {h : Nat} (hh : h ≤ 63) (n : U64) (hn : n.toNat ≤ 2 ^ h) :
    Model.RootPositions n (H8 h) =
      (Spec.treeRows n.toNat).map (fun r => encU h r (Spec.rootPos n.toNat r).2) := by
  have f := two_pow_succ' h
  have f' := Nat.two_pow_pos h
  unfold Model.RootPositions
  rw [toNat_H8 hh, rootPositionsFrom_spec hh n (by omega) h (Nat.le_refl _),
    treeRows_eq_from (by omega) (show n.toNat < 2 ^ (h + 1) by omega)]

/-- every listed row carries a tree, so each listed root is a proper position -/
theorem mem_treeRows {n r : Nat} (hr : r ∈ Spec.treeRows n) : n.testBit r = true := by
  unfold Spec.treeRows at hr
  generalize 64 = k at hr
  induction k with
  | zero =>
    rw [Spec.treeRowsFrom] at hr
    split at hr
    · simp at hr; subst hr; assumption
    · simp at hr
  | succ k ih =>
    rw [Spec.treeRowsFrom] at hr
    split at hr
    · simp at hr
      rcases hr with rfl | hr
      · assumption
      · exact ih hr
    · exact ih hr

example : Model.RootPositions 5#64 3#8 = [12#64, 4#64] := by decide
example : Model.RootPositions 5#64 (H8 3) = (Spec.treeRows 5).map (fun r => encU 3 r (Spec.rootPos 5 r).2) :=
  rootPositions_spec (by decide) 5#64 (by decide)
example : Spec.treeRows 5 = [2, 0] := by decide


/-! ### `maxPositionAtRow`, `inForest`, `isAncestor` -/

/-- `maxPositionAtRow row h n` is one less than the position (row, n / 2^row) — the last
position of the row whose leaves all lie below `n` (for `n ≥ 2^row`); it is `0` for the
empty forest on row 0.  Holds for every `n < 2^(h+1)`, in particular `n ≤ 2^h`. -/
theorem maxPositionAtRow_enc {h row : Nat} (hh : h ≤ 63) (hrow : row ≤ h) (n : U64)
    (hn : n.toNat < 2 ^ (h + 1)) :
    Model.maxPositionAtRow (H8 row) (H8 h) n =
      (BitVec.ofNat 64 (Spec.enc h (row, n.toNat / 2 ^ row) - 1), false) := by
  have f := enc_facts hrow
  have h64 : 2 ^ (h + 1) ≤ 2 ^ 64 := two_pow_le_64 (by omega)
  have hd : n.toNat / 2 ^ row < 2 ^ (h + 1 - row) := by
    rw [Nat.div_lt_iff_lt_mul (Nat.two_pow_pos _), ← Nat.pow_add,
      show h + 1 - row + row = h + 1 by omega]
    exact hn
  unfold Model.maxPositionAtRow
  by_cases h0 : row = 0
  · subst h0
    have e : Model.ParentMany n (H8 0) (H8 h) = (n, false) := by simp [Model.ParentMany]
    rw [e]
    simp only [Bool.false_eq_true, if_false]
    rw [enc_val, Nat.sub_zero, Nat.sub_self, Nat.zero_add, Nat.pow_zero, Nat.div_one]
    by_cases hn0 : n = 0#64
    · subst hn0; simp
    · have hne : (n != 0#64) = true := by simp [hn0]
      rw [hne]
      simp only [if_true]
      congr 1
      apply BitVec.eq_of_toNat_eq
      have : n.toNat ≠ 0 := fun hc => hn0 (BitVec.eq_of_toNat_eq hc)
      have := n.isLt
      rw [BitVec.toNat_sub, toNat_ofNat64_of_lt (by omega)]
      simp only [BitVec.toNat_ofNat]
      omega
  · rw [parentMany_toNat hh (by omega) hrow n hn]
    generalize n.toNat / 2 ^ row = q at *
    simp only [Bool.false_eq_true, if_false]
    have hlt : 2 ^ (h + 1) - 2 ^ (h + 1 - row) + q < 2 ^ 64 := by omega
    have hpos : 0 < 2 ^ (h + 1) - 2 ^ (h + 1 - row) + q := by
      have : 2 ^ (h + 1 - row) ≤ 2 ^ h := two_pow_le_of_le (by omega)
      omega
    have hne : (BitVec.ofNat 64 (2 ^ (h + 1) - 2 ^ (h + 1 - row) + q) != 0#64) = true := by
      rw [bne_iff_ne]
      intro hc
      have := congrArg BitVec.toNat hc
      rw [toNat_ofNat64_of_lt hlt] at this
      simp at this
      omega
    rw [hne]
    simp only [if_true]
    congr 1
    rw [enc_val]
    exact BitVec.ofNat_sub_ofNat_of_le _ 1 (by decide) (by omega)

/-- for a forest with at least `2^row` leaves this is the last node of the row that lies
entirely below `numLeaves` -/
theorem maxPositionAtRow_enc' {h row : Nat} (hh : h ≤ 63) (hrow : row ≤ h) (n : U64)
    (hn : n.toNat < 2 ^ (h + 1)) (hge : 2 ^ row ≤ n.toNat) :
    Model.maxPositionAtRow (H8 row) (H8 h) n = (encU h row (n.toNat / 2 ^ row - 1), false) := by
  rw [maxPositionAtRow_enc hh hrow n hn]
  have : 0 < n.toNat / 2 ^ row := Nat.div_pos hge (Nat.two_pow_pos _)
  generalize n.toNat / 2 ^ row = q at *
  unfold encU
  rw [enc_val, enc_val]
  congr 2
  omega

theorem maxPositionAtRow_error_iff (row forestRows : U8) (n : U64) :
    (Model.maxPositionAtRow row forestRows n).2 = true ↔ row > forestRows := by
  rw [← parentMany_error_iff n]
  unfold Model.maxPositionAtRow
  rcases Model.ParentMany n row forestRows with ⟨m, e⟩
  cases e <;> simp <;> split <;> simp

example : Model.maxPositionAtRow 1#8 3#8 5#64 = (9#64, false) := by decide
example : Model.maxPositionAtRow (H8 1) (H8 3) 5#64 = (encU 3 1 1, false) :=
  maxPositionAtRow_enc' (by decide) (by decide) 5#64 (by decide) (by decide)


/-- `inForest`: a position is in the forest iff the leaves below it, the slots
`[o * 2^r, (o + 1) * 2^r)`, all lie within `[0, numLeaves)`.  Any `numLeaves : uint64`. -/
theorem inForest_enc {h r o : Nat} (hh : h ≤ 63) (hr : r ≤ h) (ho : o < 2 ^ (h - r)) (n : U64) :
    Model.inForest (encU h r o) n (H8 h) = decide ((o + 1) * 2 ^ r ≤ n.toNat) := by
  obtain ⟨hle, hcap, hpos⟩ := last_leaf_le_enc hr ho
  have hlt := enc_lt_aux hr ho
  have h64 : 2 ^ (h + 1) ≤ 2 ^ 64 := two_pow_le_64 (by omega)
  have f := two_pow_succ' h
  unfold Model.inForest
  by_cases h1 : encU h r o < n
  · have h1' := h1
    rw [BitVec.lt_def, toNat_encU hh hr ho] at h1'
    simp only [h1, decide_true, if_true]
    symm; rw [decide_eq_true_iff]; omega
  · simp only [h1, decide_false, Bool.false_eq_true, if_false]
    rw [toNat_H8 hh, shl_one_shl_one hh]
    have h2 : ¬ (encU h r o ≥ shl 2#64 h - 1#64) := by
      rw [ge_iff_le, BitVec.le_def, toNat_mask hh, toNat_encU hh hr ho]; omega
    simp only [h2, decide_false, Bool.false_eq_true, if_false]
    rw [inForest_loop hh r o 300 hr ho (by omega)]
    simp only
    rw [encU_row_zero]
    congr 1
    rw [BitVec.lt_def, toNat_ofNat64_of_lt (by omega)]
    apply propext
    omega

/-- values that are not positions of the `h`-row forest (`≥ 2^(h+1) - 1`) are in the forest
only through the first test `pos < numLeaves`, which cannot hold when `numLeaves ≤ 2^h` -/
theorem inForest_out_of_range {h : Nat} (hh : h ≤ 63) (p n : U64)
    (hp : 2 ^ (h + 1) - 1 ≤ p.toNat) : Model.inForest p n (H8 h) = decide (p < n) := by
  unfold Model.inForest
  by_cases h1 : p < n
  · simp [h1]
  · simp only [h1, decide_false, Bool.false_eq_true, if_false]
    rw [toNat_H8 hh, shl_one_shl_one hh]
    have h2 : p ≥ shl 2#64 h - 1#64 := by
      rw [ge_iff_le, BitVec.le_def, toNat_mask hh]; exact hp
    simp [h2]

example : Model.inForest 12#64 5#64 3#8 = true ∧ Model.inForest 13#64 5#64 3#8 = false ∧
    Model.inForest 10#64 5#64 3#8 = false ∧ Model.inForest 4#64 5#64 3#8 = true := by decide
example : Model.inForest (encU 3 2 0) 5#64 (H8 3) = decide ((0 + 1) * 2 ^ 2 ≤ 5) :=
  inForest_enc (by decide) (by decide) (by decide) 5#64

/-- … equivalently: the node is, or lies below, the root of one of the trees given by the
binary digits of the leaf count -/
theorem inForest_iff_below_root {h r o : Nat} (hh : h ≤ 63) (hr : r ≤ h) (ho : o < 2 ^ (h - r))
    (n : U64) :
    Model.inForest (encU h r o) n (H8 h) = true ↔
      ∃ R, r ≤ R ∧ n.toNat.testBit R = true ∧ o / 2 ^ (R - r) = (Spec.rootPos n.toNat R).2 := by
  rw [inForest_enc hh hr ho, decide_eq_true_iff, below_root_iff]
  rfl

/-- every `uint64` below `2^(h+1) - 1` is the position of exactly one node `(r, o)` of the
`h`-row geometry (uniqueness: `enc_injective`), so the theorems of this file cover every
value `inForest` can accept -/
theorem position_exists {h : Nat} (p : U64) (hp : p.toNat < 2 ^ (h + 1) - 1) :
    ∃ r o, r ≤ h ∧ o < 2 ^ (h - r) ∧ p = encU h r o := by
  obtain ⟨r, o, hr, ho, e⟩ := enc_surjective hp
  refine ⟨r, o, hr, ho, ?_⟩
  unfold encU
  rw [e]
  simp

/-- `isAncestor higher lower`: strictly higher row and the `ParentMany` image coincides -/
theorem isAncestor_enc {h r o r' o' : Nat} (hh : h ≤ 63) (hr : r ≤ h) (ho : o < 2 ^ (h - r))
    (hr' : r' ≤ h) (ho' : o' < 2 ^ (h - r')) :
    Model.isAncestor (encU h r' o') (encU h r o) (H8 h) =
      decide (r < r' ∧ o / 2 ^ (r' - r) = o') := by
  have hinj : ∀ {a b c d : Nat}, a ≤ h → b < 2 ^ (h - a) → c ≤ h → d < 2 ^ (h - c) →
      encU h a b = encU h c d → a = c ∧ b = d := by
    intro a b c d ha hb hc hd e
    have := congrArg BitVec.toNat e
    rw [toNat_encU hh ha hb, toNat_encU hh hc hd] at this
    exact enc_injective ha hb hc hd this
  unfold Model.isAncestor
  by_cases heq : encU h r' o' = encU h r o
  · obtain ⟨e1, e2⟩ := hinj hr' ho' hr ho heq
    subst e1 e2
    simp
  · rw [beq_false_of_ne heq]
    simp only [Bool.false_eq_true, if_false, detectRow_enc hh hr ho, detectRow_enc hh hr' ho']
    by_cases hlt : r' < r
    · have : H8 r' < H8 r := by
        rw [BitVec.lt_def, toNat_H8 (by omega), toNat_H8 (by omega)]; exact hlt
      simp only [this, decide_true, if_true]
      symm; rw [decide_eq_false_iff_not]; omega
    · have : ¬ H8 r' < H8 r := by
        rw [BitVec.lt_def, toNat_H8 (by omega), toNat_H8 (by omega)]; exact hlt
      simp only [this, decide_false, Bool.false_eq_true, if_false]
      have e : H8 r' - H8 r = H8 (r' - r) := by
        apply BitVec.eq_of_toNat_eq
        rw [toNat_H8_sub (by omega) (by omega), toNat_H8 (by omega)]
      rw [e, parentMany_enc hh (by omega) ho, show r + (r' - r) = r' by omega]
      simp only [Bool.false_or]
      have hok : o / 2 ^ (r' - r) < 2 ^ (h - r') := by
        rw [Nat.div_lt_iff_lt_mul (Nat.two_pow_pos _), ← Nat.pow_add,
          show h - r' + (r' - r) = h - r by omega]
        exact ho
      by_cases hoo : o / 2 ^ (r' - r) = o'
      · have hrr : r < r' := by
          rcases Nat.lt_or_ge r r' with h' | h'
          · exact h'
          · exfalso
            have : r' = r := by omega
            subst this
            rw [Nat.sub_self, Nat.pow_zero, Nat.div_one] at hoo
            subst hoo
            exact heq rfl
        simp [hoo, hrr]
      · have : encU h r' o' ≠ encU h r' (o / 2 ^ (r' - r)) := by
          intro hc
          exact hoo (hinj hr' ho' hr' hok hc).2.symm
        simp [this, hoo]

/-- 12 = (2,0) is an ancestor of 0 = (0,0); 13 = (2,1) is not -/
example : Model.isAncestor 12#64 0#64 3#8 = true ∧ Model.isAncestor 13#64 0#64 3#8 = false := by
  decide
example : Model.isAncestor (encU 3 2 0) (encU 3 0 0) (H8 3) = decide (0 < 2 ∧ 0 / 2 ^ (2 - 0) = 0) :=
  isAncestor_enc (by decide) (by decide) (by decide) (by decide) (by decide)


/-! ### `removeBit` / `addBit`, `calcNextPosition` / `calcPrevPosition` -/

/-- `removeBit` deletes bit `bit` (bits above move down); all inputs -/
theorem removeBit_spec (v bit : U64) :
    (Model.removeBit v bit).toNat = removeBitNat v.toNat bit.toNat :=
  removeBit_toNat v bit

/-- `addBit` inserts `bit` at `place` (bits at and above move up, the top bit is lost); all inputs -/
theorem addBit_spec (v place : U64) (bit : Bool) :
    (Model.addBit v place bit).toNat = addBitNat v.toNat place.toNat bit % 2 ^ 64 :=
  addBit_toNat v place bit

/-- bit-level reading of the two `Nat` functions -/
theorem removeBitNat_testBit (v b j : Nat) :
    (removeBitNat v b).testBit j = if j < b then v.testBit j else v.testBit (j + 1) :=
  testBit_removeBitNat v b j

theorem addBitNat_testBit (v p : Nat) (bit : Bool) (j : Nat) :
    (addBitNat v p bit).testBit j =
      if j < p then v.testBit j else if j = p then bit else v.testBit (j - 1) :=
  testBit_addBitNat v p bit j

/-- removing the bit that was just inserted gives the value back, provided the top bit of
the value was clear (it is shifted out otherwise); any place -/
theorem removeBit_addBit (v place : U64) (bit : Bool) (hv : v.toNat < 2 ^ 63) :
    Model.removeBit (Model.addBit v place bit) place = v := by
  apply BitVec.eq_of_getLsbD_eq
  intro i hi
  rw [removeBit_getLsbD]
  have h63 : v.getLsbD 63 = false := by
    rw [← BitVec.testBit_toNat]; exact Nat.testBit_lt_two_pow hv
  by_cases h1 : i < place.toNat
  · rw [if_pos h1, addBit_getLsbD _ _ _ _ hi, if_pos h1]
  · rw [if_neg h1]
    by_cases h2 : i + 1 < 64
    · rw [addBit_getLsbD _ _ _ _ h2, if_neg (by omega), if_neg (by omega), Nat.add_sub_cancel]
    · have : i = 63 := by omega
      subst this
      rw [BitVec.getLsbD_of_ge _ _ (by omega), h63]

/-- re-inserting the removed bit gives the value back; all inputs -/
theorem addBit_removeBit (v place : U64) :
    Model.addBit (Model.removeBit v place) place (v.getLsbD place.toNat) = v := by
  apply BitVec.eq_of_getLsbD_eq
  intro i hi
  rw [addBit_getLsbD _ _ _ _ hi]
  by_cases h1 : i < place.toNat
  · rw [if_pos h1, removeBit_getLsbD, if_pos h1]
  · rw [if_neg h1]
    by_cases h2 : i = place.toNat
    · rw [if_pos h2, h2]
    · rw [if_neg h2, removeBit_getLsbD, if_neg (by omega), show i - 1 + 1 = i by omega]

/-- the comment in utils.go: removing bit 2 of 1011 gives 111; inserting a 1 at place 2 of 1001 gives 10101 -/
example : Model.removeBit 11#64 2#64 = 7#64 ∧ Model.addBit 9#64 2#64 true = 21#64 := by decide
example : removeBitNat 11 2 = 7 ∧ addBitNat 9 2 true = 21 := by decide

/-- `calcNextPosition`: when the node `del = (r', o')` is deleted, a node `(r, o)` below del's
sibling (`r ≤ r' < h`) moves up one row and loses the path bit that chose between `del` and
its sibling: `(r, o) ↦ (r + 1, o without bit r' - r)` -/
theorem calcNextPosition_enc {h r o r' o' : Nat} (hh : h ≤ 63) (hrr : r ≤ r') (hr' : r' < h)
    (ho : o < 2 ^ (h - r)) (ho' : o' < 2 ^ (h - r')) :
    Model.calcNextPosition (encU h r o) (encU h r' o') (H8 h) =
      (encU h (r + 1) (removeBitNat o (r' - r)), false) := by
  have hx : removeBitNat o (r' - r) < 2 ^ (h - (r + 1)) :=
    removeBitNat_lt (by omega) (by rw [show h - (r + 1) + 1 = h - r by omega]; exact ho)
  unfold Model.calcNextPosition
  simp only [detectRow_enc hh (show r ≤ h by omega) ho, detectRow_enc hh (show r' ≤ h by omega) ho']
  have hlt : ¬ H8 r' < H8 r := by
    rw [BitVec.lt_def, toNat_H8 (by omega), toNat_H8 (by omega)]; omega
  simp only [hlt, decide_false, Bool.false_eq_true, if_false]
  congr 1
  apply BitVec.eq_of_toNat_eq
  have e1 : (conv 64 (H8 r' - H8 r) : U64).toNat = r' - r := by
    rw [toNat_conv64_U8, toNat_H8_sub (by omega) hrr]
  have e2 : (conv 64 (H8 h - (H8 r + 1#8)) : U64).toNat = h - (r + 1) := by
    rw [toNat_conv64_U8, H8_add_one, toNat_H8_sub hh (by omega)]
  have e3 : (H8 r + 1#8).toNat = r + 1 := H8_add_one_toNat (by omega)
  have e4 : (shl (shl 1#64 (r + 1)) (h - (r + 1))).toNat = 2 ^ h := by
    rw [toNat_shl, toNat_one_shl (by omega), ← Nat.pow_add, show r + 1 + (h - (r + 1)) = h by omega]
    exact Nat.mod_eq_of_lt (two_pow_lt_64 (by omega))
  rw [BitVec.toNat_or, e2, e3, e4, removeBit_toNat, e1, toNat_encU hh (by omega) ho,
    toNat_encU hh (by omega) hx, calcNext_nat (by omega) ho]

/-- `calcNextPosition` reports an error exactly when `del` is on a lower row than the position -/
theorem calcNextPosition_error_iff {h r o r' o' : Nat} (hh : h ≤ 63) (hr : r ≤ h) (hr' : r' ≤ h)
    (ho : o < 2 ^ (h - r)) (ho' : o' < 2 ^ (h - r')) :
    (Model.calcNextPosition (encU h r o) (encU h r' o') (H8 h)).2 = true ↔ r' < r := by
  unfold Model.calcNextPosition
  simp only [detectRow_enc hh hr ho, detectRow_enc hh hr' ho']
  have e : (H8 r' < H8 r) ↔ r' < r := by
    rw [BitVec.lt_def, toNat_H8 (by omega), toNat_H8 (by omega)]
  by_cases hlt : r' < r
  · simp [e.2 hlt, hlt]
  · have : ¬ H8 r' < H8 r := fun hc => hlt (e.1 hc)
    simp [this, hlt]

/-- the example in utils.go: position 1 moves to 5 when 5's sibling... (pos 1, del 5 in a 2-row forest) -/
example : Model.calcNextPosition 1#64 5#64 2#8 = (5#64, false) := by decide
example : Model.calcNextPosition (encU 3 0 5) (encU 3 1 3) (H8 3) = (encU 3 1 (removeBitNat 5 1), false) :=
  calcNextPosition_enc (by decide) (by decide) (by decide) (by decide) (by decide)


/-- the three branches of `calcPrevPosition` compute the same thing -/
theorem calcPrevPosition_eq (p del : U64) (fr : U8) :
    Model.calcPrevPosition p del fr =
      Model.addBit
        (p &&& ~~~(shl (shl 1#64 (Model.DetectRow p fr).toNat)
          (conv 64 (fr - Model.DetectRow p fr) : U64).toNat))
        (conv 64 (Model.DetectRow del fr - (Model.DetectRow p fr - 1#8)))
        (Model.isLeftNiece del) := by
  unfold Model.calcPrevPosition
  simp only
  split
  · split
    · rename_i h; rw [h]
    · rename_i h; simp only [Bool.not_eq_true] at h; rw [h]
  · rfl

/-- `calcPrevPosition`: where was the node now at `(r + 1, x)` before `del = (r', o')`
(`r ≤ r' < h`) was deleted?  One row down, with the path bit pointing to del's sibling
re-inserted at place `r' - r`: `(r + 1, x) ↦ (r, x with bit [del is a left child] inserted)` -/
theorem calcPrevPosition_enc {h r x r' o' : Nat} (hh : h ≤ 63) (hrr : r ≤ r') (hr' : r' < h)
    (hx : x < 2 ^ (h - (r + 1))) (ho' : o' < 2 ^ (h - r')) :
    Model.calcPrevPosition (encU h (r + 1) x) (encU h r' o') (H8 h) =
      encU h r (addBitNat x (r' - r) (decide (o' % 2 = 0))) := by
  have hy : addBitNat x (r' - r) (decide (o' % 2 = 0)) < 2 ^ (h - r) := by
    have := addBitNat_lt (p := r' - r) (k := h - (r + 1)) (decide (o' % 2 = 0)) (by omega) hx
    rwa [show h - (r + 1) + 1 = h - r by omega] at this
  rw [calcPrevPosition_eq]
  simp only [detectRow_enc hh (show r + 1 ≤ h by omega) hx,
    detectRow_enc hh (show r' ≤ h by omega) ho', isLeftNiece_enc hh (show r' ≤ h by omega) ho']
  have e1 : (conv 64 (H8 r' - (H8 (r + 1) - 1#8)) : U64).toNat = r' - r := by
    have : H8 (r + 1) - 1#8 = H8 r := by
      rw [show H8 (r + 1) = H8 r + 1#8 from H8_add_one.symm, BitVec.add_sub_cancel]
    rw [this, toNat_conv64_U8, toNat_H8_sub (by omega) hrr]
  have e2 : (conv 64 (H8 h - H8 (r + 1)) : U64).toNat = h - (r + 1) := by
    rw [toNat_conv64_U8, toNat_H8_sub hh (by omega)]
  have e4 : shl (shl 1#64 (r + 1)) (h - (r + 1)) = BitVec.twoPow 64 h := by
    apply BitVec.eq_of_toNat_eq
    rw [toNat_shl, toNat_one_shl (by omega), ← Nat.pow_add, show r + 1 + (h - (r + 1)) = h by omega,
      BitVec.toNat_twoPow_of_lt (by omega)]
    exact Nat.mod_eq_of_lt (two_pow_lt_64 (by omega))
  apply BitVec.eq_of_getLsbD_eq
  intro j hj
  rw [addBit_getLsbD _ _ _ _ hj, e1, e2, toNat_H8 (by omega), e4]
  have hand : ∀ i, i < 64 → (encU h (r + 1) x &&& ~~~BitVec.twoPow 64 h).getLsbD i =
      ((Spec.enc h (r + 1, x)).testBit i && !decide (i = h)) := by
    intro i hi
    rw [BitVec.getLsbD_and, BitVec.getLsbD_not, BitVec.getLsbD_twoPow, encU, getLsbD_ofNat64 hi]
    by_cases hih : i = h
    · subst hih; simp [hi]
    · have : ¬ h = i := fun hc => hih hc.symm
      simp [hi, hih, this]
  have hR : (encU h r (addBitNat x (r' - r) (decide (o' % 2 = 0)))).getLsbD j =
      (Spec.enc h (r, addBitNat x (r' - r) (decide (o' % 2 = 0)))).testBit j := by
    rw [encU, getLsbD_ofNat64 hj]
  rw [hR, calcPrev_testBit _ (by omega) hx, hand j hj]
  by_cases h1 : j < r' - r
  · rw [if_pos h1, if_pos h1]
  · rw [if_neg h1, if_neg h1]
    by_cases h2 : j = r' - r
    · rw [if_pos h2, if_pos h2]
    · rw [if_neg h2, if_neg h2, hand (j - 1) (by omega)]

/-- the example in utils.go (pos 5, del 5 in a 2-row forest gives 1) -/
example : Model.calcPrevPosition 5#64 5#64 2#8 = 1#64 := by decide
example : Model.calcPrevPosition (encU 3 1 3) (encU 3 1 2) (H8 3) = encU 3 0 (addBitNat 3 1 true) :=
  calcPrevPosition_enc (by decide) (by decide) (by decide) (by decide) (by decide)

/-- `calcPrevPosition` undoes `calcNextPosition` for every node whose ancestor on del's row
is del's sibling (that is: `Parent del` is an ancestor of the node and the node is not below
`del` itself) -/
theorem calcPrev_calcNext {h r o r' o' : Nat} (hh : h ≤ 63) (hrr : r ≤ r') (hr' : r' < h)
    (ho : o < 2 ^ (h - r)) (ho' : o' < 2 ^ (h - r'))
    (hsib : o / 2 ^ (r' - r) = o' ^^^ 1) :
    Model.calcPrevPosition (Model.calcNextPosition (encU h r o) (encU h r' o') (H8 h)).1
      (encU h r' o') (H8 h) = encU h r o := by
  have hx : removeBitNat o (r' - r) < 2 ^ (h - (r + 1)) :=
    removeBitNat_lt (by omega) (by rw [show h - (r + 1) + 1 = h - r by omega]; exact ho)
  rw [calcNextPosition_enc hh hrr hr' ho ho', calcPrevPosition_enc hh hrr hr' hx ho']
  have hb : decide (o' % 2 = 0) = o.testBit (r' - r) := by
    rw [Nat.testBit_eq_decide_div_mod_eq, hsib, nat_xor_one]
    by_cases he : o' % 2 = 0
    · simp [he]; omega
    · simp [he]; omega
  rw [hb, addBitNat_removeBitNat]

/-- and conversely `calcNextPosition` undoes `calcPrevPosition` (always, on the domain) -/
theorem calcNext_calcPrev {h r x r' o' : Nat} (hh : h ≤ 63) (hrr : r ≤ r') (hr' : r' < h)
    (hx : x < 2 ^ (h - (r + 1))) (ho' : o' < 2 ^ (h - r')) :
    Model.calcNextPosition (Model.calcPrevPosition (encU h (r + 1) x) (encU h r' o') (H8 h))
      (encU h r' o') (H8 h) = (encU h (r + 1) x, false) := by
  have hy : addBitNat x (r' - r) (decide (o' % 2 = 0)) < 2 ^ (h - r) := by
    have := addBitNat_lt (p := r' - r) (k := h - (r + 1)) (decide (o' % 2 = 0)) (by omega) hx
    rwa [show h - (r + 1) + 1 = h - r by omega] at this
  rw [calcPrevPosition_enc hh hrr hr' hx ho', calcNextPosition_enc hh hrr hr' hy ho',
    removeBitNat_addBitNat]

/-- 8 leaves, delete 9 = (1,1): leaf 0 = (0,0) lies below 9's sibling 8 and moves to 8 = (1,0) -/
example : Model.calcPrevPosition (Model.calcNextPosition (encU 3 0 1) (encU 3 1 1) (H8 3)).1
    (encU 3 1 1) (H8 3) = encU 3 0 1 :=
  calcPrev_calcNext (by decide) (by decide) (by decide) (by decide) (by decide) (by decide)


/-! ### `DetectOffset` -/

/-- What `DetectOffset` computes on any position `(r, o)` of the `h = TreeRows numLeaves` row
geometry, in the forest or not.  Let `L = o * 2^r` be the leftmost leaf slot below the node.
The loop stops at the highest row `R ≤ h` that carries a tree (`numLeaves` has bit `R`)
while `L` has bit `R` clear; it then returns, without error, the index of that tree in
`Spec.treeRows` (highest first), the `uint8` difference `R - r`, and the bit field
`^((pos - treeStart numLeaves R) ^ 1)`. -/
theorem detectOffset_general {h r o R : Nat} (n : U64) (hT : Model.TreeRows n = H8 h) (hh : h ≤ 63)
    (hr : r ≤ h) (ho : o < 2 ^ (h - r)) (hRh : R ≤ h) (hnR : n.toNat.testBit R = true)
    (hLR : (o * 2 ^ r).testBit R = false)
    (hmax : ∀ t, R < t → t ≤ h → n.toNat.testBit t = true → (o * 2 ^ r).testBit t = true) :
    Model.DetectOffset (encU h r o) n =
      (BitVec.ofNat 8 ((Spec.treeRows n.toNat).idxOf R), H8 R - H8 r,
        ~~~((encU h r o - BitVec.ofNat 64 (Spec.treeStart n.toNat R)) ^^^ 1#64), false) := by
  have hn := le_of_treeRows n hT hh
  have f := two_pow_succ' h
  have f' := Nat.two_pow_pos h
  have hn' : n.toNat < 2 ^ (R + (h - R) + 1) := by
    rw [show R + (h - R) + 1 = h + 1 by omega]; omega
  have hloop := detectOffset_loop n hh hr ho hnR hLR hmax (h - R) 300 0 0#8
    (by omega) (by omega) (Nat.dvd_zero _)
  rw [show R + (h - R) = h by omega] at hloop
  simp only [Nat.zero_add] at hloop
  rw [show BitVec.ofNat 64 0 = 0#64 from rfl, BitVec.sub_zero, BitVec.zero_add,
    sumBits_eq_treeStart hn', ← idxOf_treeRowsFrom hnR, show R + (h - R) = h by omega,
    ← treeRows_eq_from (by omega) (show n.toNat < 2 ^ (h + 1) by omega)] at hloop
  unfold Model.DetectOffset
  have e1 : toInt (Model.TreeRows n) = (h : Int) := by
    unfold toInt; rw [hT, toNat_H8 hh]
  have e2 : ofInt 8 (h : Int) = H8 h := by unfold ofInt; rw [BitVec.ofInt_natCast]
  simp only [e1, e2, detectRow_enc hh hr ho, hloop]
  have e3 : ofInt 8 (R : Int) = H8 R := by unfold ofInt; rw [BitVec.ofInt_natCast]
  rw [e3]

/-- `DetectOffset` returns its error exactly when no tree row "catches" the position: every
set bit `t ≤ h` of `numLeaves` is also set in the leftmost leaf slot `o * 2^r`. -/
theorem detectOffset_error_iff {h r o : Nat} (n : U64) (hT : Model.TreeRows n = H8 h) (hh : h ≤ 63)
    (hr : r ≤ h) (ho : o < 2 ^ (h - r)) :
    (Model.DetectOffset (encU h r o) n).2.2.2 = true ↔
      ∀ t, t ≤ h → n.toNat.testBit t = true → (o * 2 ^ r).testBit t = true := by
  constructor
  · intro herr
    apply Classical.byContradiction
    intro hnot
    have hex : ∃ t, t ≤ h ∧ (n.toNat.testBit t = true ∧ (o * 2 ^ r).testBit t = false) := by
      apply Classical.byContradiction
      intro hne
      apply hnot
      intro t ht hb
      cases hL : (o * 2 ^ r).testBit t
      · exact absurd ⟨t, ht, hb, hL⟩ hne
      · rfl
    obtain ⟨R, hRh, ⟨hnR, hLR⟩, hmax⟩ := exists_highest h hex
    rw [detectOffset_general n hT hh hr ho hRh hnR hLR
      (fun t h1 h2 hb => by
        cases hL : (o * 2 ^ r).testBit t
        · exact absurd ⟨hb, hL⟩ (hmax t h1 h2)
        · rfl)] at herr
    simp at herr
  · intro hall
    have hloop := detectOffset_loop_err n hh hr ho h 300 0 0#8 (by omega) (Nat.le_refl _)
      (Nat.dvd_zero _) hall
    rw [show BitVec.ofNat 64 0 = 0#64 from rfl, BitVec.sub_zero] at hloop
    unfold Model.DetectOffset
    have e1 : toInt (Model.TreeRows n) = (h : Int) := by
      unfold toInt; rw [hT, toNat_H8 hh]
    have e2 : ofInt 8 (h : Int) = H8 h := by unfold ofInt; rw [BitVec.ofInt_natCast]
    simp only [e1, e2, detectRow_enc hh hr ho, hloop]

/-- `DetectOffset` on a position of the forest.  Let the node `(r, o)` lie below (or be) the
root of the tree on row `R` (`numLeaves` has bit `R` set and the ancestor of the node on row
`R` is `Spec.rootPos numLeaves R`).  Then, without error, the result is
* the index of that tree in the list of trees, highest first (`Spec.treeRows`),
* the depth `R - r` of the node below the root,
* the bit field `^((pos - treeStart) ^ 1)`, whose low `R - r` bits are described by
  `detectOffset_bits` below. -/
theorem detectOffset_enc {h r o R : Nat} (n : U64) (hT : Model.TreeRows n = H8 h) (hh : h ≤ 63)
    (hr : r ≤ R) (ho : o < 2 ^ (h - r)) (hnR : n.toNat.testBit R = true)
    (hroot : o / 2 ^ (R - r) = (Spec.rootPos n.toNat R).2) :
    Model.DetectOffset (encU h r o) n =
      (BitVec.ofNat 8 ((Spec.treeRows n.toNat).idxOf R), H8 (R - r),
        ~~~((encU h r o - BitVec.ofNat 64 (Spec.treeStart n.toNat R)) ^^^ 1#64), false) := by
  have hn := le_of_treeRows n hT hh
  obtain ⟨hRh, _⟩ := rootPos_valid hn hnR
  obtain ⟨hLR, habove⟩ := leftmost_leaf_bits hr hroot
  rw [detectOffset_general n hT hh (by omega) ho hRh hnR hLR
    (fun t ht _ hb => by rw [habove t ht]; exact hb)]
  have e3 : H8 R - H8 r = H8 (R - r) := by
    apply BitVec.eq_of_toNat_eq
    rw [toNat_H8_sub (by omega) hr, toNat_H8 (by omega)]
  rw [e3]

/-- in particular: every position that `inForest` accepts is located without error -/
theorem detectOffset_of_inForest {h r o : Nat} (n : U64) (hT : Model.TreeRows n = H8 h) (hh : h ≤ 63)
    (hr : r ≤ h) (ho : o < 2 ^ (h - r)) (hin : Model.inForest (encU h r o) n (H8 h) = true) :
    ∃ R, r ≤ R ∧ n.toNat.testBit R = true ∧ o / 2 ^ (R - r) = (Spec.rootPos n.toNat R).2 ∧
      Model.DetectOffset (encU h r o) n =
        (BitVec.ofNat 8 ((Spec.treeRows n.toNat).idxOf R), H8 (R - r),
          ~~~((encU h r o - BitVec.ofNat 64 (Spec.treeStart n.toNat R)) ^^^ 1#64), false) := by
  rw [inForest_enc hh hr ho, decide_eq_true_iff, below_root_iff] at hin
  obtain ⟨R, h1, h2, h3⟩ := hin
  exact ⟨R, h1, h2, h3, detectOffset_enc n hT hh h1 ho h2 h3⟩

/-- the low `R - r` bits of the returned bit field: bit 0 is the node's own offset bit,
every higher bit is the complement of the offset bit (Pollard's nodes point to their nieces) -/
theorem detectOffset_bits {h r o R k : Nat} (n : U64) (hh : h ≤ 63) (hr : r ≤ R) (hRh : R ≤ h)
    (ho : o < 2 ^ (h - r)) (hk : k < R - r) :
    (~~~((encU h r o - BitVec.ofNat 64 (Spec.treeStart n.toNat R)) ^^^ 1#64)).getLsbD k =
      if k = 0 then o.testBit 0 else !o.testBit k := by
  have hS : 2 ^ (R + 1) ∣ Spec.treeStart n.toNat R := by
    unfold Spec.treeStart
    rw [Nat.shiftLeft_eq]
    exact Nat.dvd_mul_left _ _
  have h1 : (1#64 : U64).getLsbD k = decide (k = 0) := by
    rw [← BitVec.testBit_toNat, BitVec.toNat_one (by decide)]
    cases k with
    | zero => rfl
    | succ k => rw [Nat.testBit_succ]; simp
  rw [BitVec.getLsbD_not, BitVec.getLsbD_xor, sub_ofNat_getLsbD _ (by omega) hS (by omega), h1,
    encU, getLsbD_ofNat64 (by omega), enc_testBit (by omega) ho, if_pos (by omega)]
  have : k < 64 := by omega
  by_cases h0 : k = 0
  · subst h0; simp
  · simp [h0, this]

/-- 5 leaves (trees on rows 2 and 0): node 9 = (1,1) is one step below the root 12 of tree 0 -/
example : Model.DetectOffset 9#64 5#64 = (0#8, 1#8, ~~~(9#64 ^^^ 1#64), false) := by decide +kernel
example : Model.DetectOffset (encU 3 1 1) 5#64 =
    (BitVec.ofNat 8 ((Spec.treeRows 5).idxOf 2), H8 (2 - 1),
      ~~~((encU 3 1 1 - BitVec.ofNat 64 (Spec.treeStart 5 2)) ^^^ 1#64), false) :=
  detectOffset_enc (R := 2) 5#64 (by decide) (by decide) (by decide) (by decide) (by decide) (by decide)

/-- **The error flag of `DetectOffset` is not exact.**  The property text asks for an error
exactly outside the forest; leaf slot 6 is not a node of a 5-leaf forest (`inForest` says so)
but `DetectOffset 6 5` reports tree 1, depth 0 and no error (the same happens in the Go code).
For 13 = (2,1), whose leaves 4..7 are only partly present, it reports depth `254` and no error. -/
theorem detectOffset_error_not_exact :
    Model.inForest 6#64 5#64 (Model.TreeRows 5#64) = false ∧
    (Model.DetectOffset 6#64 5#64).1 = 1#8 ∧ (Model.DetectOffset 6#64 5#64).2.1 = 0#8 ∧
    (Model.DetectOffset 6#64 5#64).2.2.2 = false ∧
    Model.inForest 13#64 5#64 (Model.TreeRows 5#64) = false ∧
    (Model.DetectOffset 13#64 5#64).2.1 = 254#8 ∧ (Model.DetectOffset 13#64 5#64).2.2.2 = false := by
  decide +kernel


/-! ### more instances (non-vacuity), including the `h = 63` boundary where `2 << 63` wraps to 0 -/

example : Model.ParentMany (encU 63 0 5) (H8 63) (H8 63) = (encU 63 63 (5 / 2 ^ 63), false) :=
  parentMany_enc (by decide) (by decide) (by decide)
example : Model.rootPosition (BitVec.ofNat 64 (2 ^ 63)) (H8 63) (H8 63) =
    encU 63 63 (Spec.rootPos (BitVec.ofNat 64 (2 ^ 63)).toNat 63).2 :=
  rootPosition_enc (by decide) (by decide) _ (by decide)
example : Model.inForest (encU 63 62 1) (BitVec.ofNat 64 (2 ^ 63)) (H8 63) =
    decide ((1 + 1) * 2 ^ 62 ≤ (BitVec.ofNat 64 (2 ^ 63)).toNat) :=
  inForest_enc (by decide) (by decide) (by decide) _
example : Model.calcNextPosition (encU 63 0 5) (encU 63 1 3) (H8 63) =
    (encU 63 1 (removeBitNat 5 1), false) :=
  calcNextPosition_enc (by decide) (by decide) (by decide) (by decide) (by decide)
example : Model.isRootPositionTotalRows (encU 4 2 0) 5#64 (H8 4) = Spec.isRootPos 5 (2, 0) :=
  isRootPositionTotalRows_enc (h := 3) 5#64 (by decide) (by decide) (by decide) (by decide)
    (by decide) (by decide) (by decide)
example : Model.isRootPositionOnRowTotalRows (encU 4 2 0) 5#64 2#8 (H8 4) =
    (decide ((2#8 : U8).toNat = 2) && Spec.isRootPos 5 (2, 0)) :=
  isRootPositionOnRowTotalRows_enc (h := 3) 5#64 2#8 (by decide) (by decide) (by decide) (by decide)
    (by decide) (by decide) (by decide)
example : Model.maxPositionAtRow (H8 2) (H8 3) 5#64 =
    (BitVec.ofNat 64 (Spec.enc 3 (2, (5#64 : U64).toNat / 2 ^ 2) - 1), false) :=
  maxPositionAtRow_enc (by decide) (by decide) 5#64 (by decide)
example : Model.removeBit (Model.addBit 9#64 2#64 true) 2#64 = 9#64 :=
  removeBit_addBit 9#64 2#64 true (by decide)
example : Model.calcNextPosition (Model.calcPrevPosition (encU 3 1 3) (encU 3 1 2) (H8 3))
    (encU 3 1 2) (H8 3) = (encU 3 1 3, false) :=
  calcNext_calcPrev (r := 0) (by decide) (by decide) (by decide) (by decide) (by decide)
example : Model.inForest (encU 3 1 1) 5#64 (H8 3) = true ↔
    ∃ R, 1 ≤ R ∧ (5#64 : U64).toNat.testBit R = true ∧
      1 / 2 ^ (R - 1) = (Spec.rootPos (5#64 : U64).toNat R).2 :=
  inForest_iff_below_root (by decide) (by decide) (by decide) 5#64
/-- slot 5 of a 5-leaf forest: every tree bit of 5 = 101b is set in the slot number: error -/
example : (Model.DetectOffset 5#64 5#64).2.2.2 = true := by decide +kernel
example : (Model.DetectOffset (encU 3 0 5) 5#64).2.2.2 = true ↔
    ∀ t, t ≤ 3 → (5#64 : U64).toNat.testBit t = true → (5 * 2 ^ 0).testBit t = true :=
  detectOffset_error_iff 5#64 (by decide) (by decide) (by decide) (by decide)
/-- slot 6 of a 5-leaf forest (outside the forest): caught by the tree on row 0 -/
example : Model.DetectOffset (encU 3 0 6) 5#64 =
    (BitVec.ofNat 8 ((Spec.treeRows (5#64 : U64).toNat).idxOf 0), H8 0 - H8 0,
      ~~~((encU 3 0 6 - BitVec.ofNat 64 (Spec.treeStart (5#64 : U64).toNat 0)) ^^^ 1#64), false) :=
  detectOffset_general (R := 0) 5#64 (by decide) (by decide) (by decide) (by decide) (by decide)
    (by decide) (by decide) (by
      intro t h1 h2 hb
      have : t = 1 ∨ t = 2 ∨ t = 3 := by omega
      rcases this with rfl | rfl | rfl
      · exact absurd hb (by decide)
      · decide
      · exact absurd hb (by decide))

end UtreexoVerif.Props.C16
