/-
  Property C13 for the MAP forest, joined with C09: a restored `MapPollard` satisfies the same
  storage invariant as the instance that was written, so it behaves identically ever after.

  What `Props/C13.lean` proves of `MapPollard.Write` / `Read` is the byte-level round trip over the
  serialised state `MapSt`.  The restored Go instance is NOT literally the written one: `Read`
  rebuilds the two maps from the stream (a different iteration order than the original's — Go's
  order is random anyway), `Full` is not serialised (the receiver keeps its own flag), and `Read`
  does not clear the receiver.  Here (helpers: `Proofs/SerialMapInv.lean`):

  1. BRIDGE (`Proofs.SerialMapInv`): `toSt`, `ofSt`, `restore`, `Walk` (`Write` walking the maps in
     any order), `write`, `read` on `Model.MapPollard`; `Equiv` = same finite maps and scalars.
  2. INVARIANT TRANSPORT: `Inv_congr` / `SInv_congr` / `FInv_congr` (the invariants depend on the maps
     as look-up functions only); `inv_write_read`, `finv_write_read`: BYTES — a state satisfying the
     invariant, written in any map order and read through any chunking into a fresh receiver with
     the same `Full` flag, is accepted and the receiver then satisfies the invariant for the SAME
     forest (hypothesis `HashBytesOK` only; no collision-freeness).
  3. CLOSURES: `ReachSer` / `ReachFullSer` = `ReachU` / `ReachFullU` of `Props/C09b|c.lean` plus the
     step "serialise, restore into a fresh receiver"; `C09_reach_ser`, `C09_reach_full_ser`,
     `lookups_reach_ser`, `lookups_reach_full_ser` (hypothesis `NZ` only: parent hashes are never
     the zero hash; no injectivity of `ph`).
  4. BEHAVIOUR UNDER HONEST CALLS (from the invariants): `Twin m m' F` (both track `F`, same cache);
     `twin_restore`, `twin_step`, `twin_queries`, `lockstep` (every honest run succeeds on both, step
     by step, and ends in twins), `map_restored_behaves_identically`; the same for full forests (`TwinF`).
  5. Non-vacuity: `Example` (term-algebra hasher, `CR`) and `ExampleBytes` (one-byte hashes on the
     wire, 1-byte-chunk reader; also: restoring into a receiver with the other `Full` flag, and into a
     used receiver — both replayed on the Go code with the same outcome).
  6. BEHAVIOUR UNDER ALL CALLS (no invariant, no collision-freeness): `Equiv` is a bisimulation for
     the whole model (`Proofs/MapSim.lean`, `MapSimUndo.lean`, `MapSimQuery.lean`: every function of
     `Model/MapPollard.lean` reads the maps through look-ups only); `restored_bisim`,
     `map_restored_bisim` (bytes, any chunking, any map order → identical verdicts and observations
     after every call of every sequence of calls with any arguments), `map_restored_bisim_bytes32`
     (Go's `[32]byte`, any parent hash), `read_ok_sane`.

  WHY BYTES AND CLOSURES ARE KEPT APART (historical; the closures now assume `NZ H` only, which IS
  compatible with `HashBytesOK H`, see `Props/NZ.lean` for a finite `NZ` hash).  `CR H` (the parent
  hash is injective — formerly the hypothesis of every C09 preservation theorem, still that of the
  soundness theorems C03) and `HashBytesOK H` (a hash IS 32 bytes on the wire — the
  hypothesis of every C13 byte theorem) cannot both hold of one type: an injective `H × H → H` does
  not exist on a finite type with two elements (`Props/C13MapNote.lean`, `cr_hashBytesOK_incompatible`).
  A theorem assuming both would be vacuous.  The two
  halves therefore meet in hypothesis-free objects: the byte half says that `Read` returns
  `restore m0 st` for a walk `st` of `m` (given only `Sane m`, which `Inv` implies), the closure half
  takes `restore m0 st` as its serialisation step.  Section 6 needs neither hypothesis about
  collisions: it holds for real 32-byte hashes.
-/
import UtreexoVerif.Proofs.SerialMapInv
import UtreexoVerif.Proofs.MapSimQuery
import UtreexoVerif.Props.C09c
import UtreexoVerif.Props.C13b

namespace UtreexoVerif.Props.C13Map
open UtreexoVerif Model Model.Serial Spec Spec.Forest Proofs MapAL MapInv MapSInv PForestSpec MapFull Hasher
open Proofs.Serial Proofs.SerialMapInv Proofs.MapSim
set_option linter.unusedSectionVars false
set_option linter.unusedVariables false

abbrev BD (H : Type) := Props.C09.BlockData H

/-! ### 2. invariant transport -/

section State
variable {H : Type} [DecidableEq H] [Hasher H]

/-- **state level**: the instance `Read` leaves behind (`restore m0 st`, for ANY order `st` in which
`Write` walked the maps of `m`, and a receiver with `m`'s `Full` flag) satisfies the storage
invariant for the same forest -/
theorem inv_restore {m m0 : MapPollard H} {F : Forest H} {st : MapSt H} (inv : Inv m F) (w : Walk m st)
    (hfull : m0.full = m.full) : Inv (restore m0 st) F := Inv_congr (restore_equiv w hfull) inv

theorem sinv_restore {m m0 : MapPollard H} {F : Forest H} {st : MapSt H} (s : SInv m F) (w : Walk m st)
    (hfull : m0.full = false) : SInv (restore m0 st) F :=
  SInv_congr (restore_equiv w (hfull.trans s.full.symm)) s

theorem finv_restore {m m0 : MapPollard H} {F : Forest H} {st : MapSt H} (s : FInv m F) (w : Walk m st)
    (hfull : m0.full = true) : FInv (restore m0 st) F :=
  FInv_congr (restore_equiv w (hfull.trans s.full.symm)) s

/-- `Read` establishes key-distinctness: the lists of the restored instance have one entry per key
(so `toSt` of it is field-by-field, `toSt_of_nodup`) -/
theorem restore_keys {m m0 : MapPollard H} {st : MapSt H} (w : Walk m st) :
    ((restore m0 st).nodes.map (·.1)).Nodup ∧ ((restore m0 st).cached.map (·.1)).Nodup := by
  constructor
  · show ((st.nodes.map leafOf).map (·.1)).Nodup
    rw [keys_map_leafOf]; exact w.nodeKeys
  · exact w.cachedKeys

/-- a full forest is sane (every cached leaf has its node): what `Read` re-checks -/
theorem finv_sane {m : MapPollard H} {F : Forest H} (s : FInv m F) : Sane m := by
  intro x p hc
  obtain ⟨t, ht, hp⟩ := (s.cached x p).1 hc
  exact ⟨⟨x, true⟩, (s.nodes p ⟨x, true⟩).2 ⟨t, true, ht, hp, rfl⟩, rfl⟩

end State

section Bytes
variable {H : Type} [DecidableEq H] [Hasher H] [HashBytes H]

/-- **`Write ; Read` preserves the storage invariant (bytes)**.  Let `m` satisfy `Inv m F`; let
`Write` walk the two maps in any order (`Walk m st`) and let the stream `encodeMap st` be read
through ANY chunking into a receiver whose maps are empty and whose `Full` flag is `m`'s.  Then
`Read` accepts, reports the length of the stream, and the receiver then satisfies `Inv … F`, with
the same finite maps and scalars as `m`. -/
theorem inv_write_read (ok : HashBytesOK H) {m : MapPollard H} {F : Forest H} (inv : Inv m F) (hf : Fits m)
    {st : MapSt H} (w : Walk m st) (m0 : MapPollard H) (hn0 : m0.nodes = []) (hc0 : m0.cached = [])
    (hfull : m0.full = m.full) (r : Reader) (hd : r.data = encodeMap st) :
    ∃ m', read m0 r = ⟨(encodeMap st).length, .ok m'⟩ ∧ m' = restore m0 st ∧ Equiv m m' ∧ Inv m' F ∧
      m'.full = m.full :=
  ⟨_, read_write ok w (inv_sane inv) hf m0 hn0 hc0 r hd, rfl, restore_equiv w hfull, inv_restore inv w hfull, hfull⟩

/-- the same for the invariant of a FULL map forest -/
theorem finv_write_read (ok : HashBytesOK H) {m : MapPollard H} {F : Forest H} (s : FInv m F) (hf : Fits m)
    {st : MapSt H} (w : Walk m st) (m0 : MapPollard H) (hn0 : m0.nodes = []) (hc0 : m0.cached = [])
    (hfull : m0.full = true) (r : Reader) (hd : r.data = encodeMap st) :
    ∃ m', read m0 r = ⟨(encodeMap st).length, .ok m'⟩ ∧ m' = restore m0 st ∧ Equiv m m' ∧ FInv m' F :=
  ⟨_, read_write ok w (finv_sane s) hf m0 hn0 hc0 r hd, rfl, restore_equiv w (hfull.trans s.full.symm),
    finv_restore s w hfull⟩

/-- the same for the strong invariant `SInv` of `Props/C09b.lean` (with `Inv`, which `SInv` implies
under collision-freeness, given separately so that no such hypothesis is needed here) -/
theorem sinv_write_read (ok : HashBytesOK H) {m : MapPollard H} {F : Forest H} (s : SInv m F) (inv : Inv m F)
    (hf : Fits m) {st : MapSt H} (w : Walk m st) (m0 : MapPollard H) (hn0 : m0.nodes = []) (hc0 : m0.cached = [])
    (hfull : m0.full = false) (r : Reader) (hd : r.data = encodeMap st) :
    ∃ m', read m0 r = ⟨(encodeMap st).length, .ok m'⟩ ∧ m' = restore m0 st ∧ Equiv m m' ∧ SInv m' F ∧ Inv m' F :=
  ⟨_, read_write ok w (inv_sane inv) hf m0 hn0 hc0 r hd, rfl, restore_equiv w (hfull.trans s.full.symm),
    sinv_restore s w hfull, inv_restore inv w (hfull.trans s.full.symm)⟩

/-- the restored instance can be written and restored again (its lists have distinct keys, it is
sane, and it fits Go's `int` if the original did) -/
theorem restore_fits {m m0 : MapPollard H} {st : MapSt H} (w : Walk m st) (hf : Fits m) : Fits (restore m0 st) := by
  obtain ⟨hn, hc⟩ := restore_keys (m0 := m0) w
  unfold Fits
  rw [toSt_of_nodup hn hc]
  constructor
  · show st.cached.length < _
    rw [w.cached.length_eq]; exact hf.1
  · show ((st.nodes.map leafOf).map recOf).length < _
    rw [List.length_map, List.length_map, w.nodes.length_eq]; exact hf.2

end Bytes

/-! ### 3. the closures of C09 extended by the serialisation step -/

section Closure
variable {H : Type} [DecidableEq H] [Hasher H]

/-- honest operations on a PARTIAL map forest (`Props.C09b.ReachU`: `NewMapPollard(false)`,
`NewMapPollardFromRoots`, `Modify` — here with the targets in any order —, `Verify`, `Ingest`,
`Prune`, `Undo` of the newest block) AND `Write ; Read`: the state is serialised with the maps
walked in any order and restored into any receiver with `Full = false` (`restore m0 w` is what
`Read` leaves in a receiver with empty maps: `Proofs.SerialMapInv.read_write`).  The undo
history is the caller's, not the instance's, and is kept across the step. -/
inductive ReachSer (nonZero : H) : MapPollard H → Forest H → List (BD H) → Prop
  | new : ReachSer nonZero (MapPollard.new false) Forest.empty []
  | fromRoots (F : Forest H) (m : MapPollard H) : F.numLeaves < 2 ^ 63 → Hyg F →
      MapPollard.fromRoots F.roots (BitVec.ofNat 64 F.numLeaves) false = .ok m → ReachSer nonZero m F []
  | modify {m m' F st} (adds : List (Leaf H)) (dels : List H) (ts : List Pos) (ps : List H) (tgts : List U64) :
      ReachSer nonZero m F st → (∀ x ∈ dels, m.hasCached x = true) → dels.Nodup → F.canon dels = some (ts, ps) →
      (ts.map (encP F.rows)).Perm tgts →
      (∀ a ∈ adds, a.hash ≠ zero ∧ a.hash ∉ F.liveLeaves ∧ ∀ u v : H, a.hash ≠ ph u v) →
      (adds.map (·.hash)).Nodup → F.numLeaves + adds.length < 2 ^ 63 →
      MapPollard.modify adds dels tgts m = (m', .ok ()) →
      ReachSer nonZero m' (F.modify dels (adds.map (·.hash))) (⟨F, adds.length, dels, ts, ps⟩ :: st)
  | verify {m m' F st} (L : List H) (ts : List Pos) (ps : List H) (remember : Bool) :
      ReachSer nonZero m F st → L.Nodup → F.canon L = some (ts, ps) →
      MapPollard.verifyM L (ts.map (encP F.rows)) ps remember m = (m', .ok ()) → ReachSer nonZero m' F st
  | ingest {m m' F st} (L : List H) (ts : List Pos) (ps : List H) :
      ReachSer nonZero m F st → L.Nodup → F.canon L = some (ts, ps) →
      MapPollard.ingest L (ts.map (encP F.rows)) ps m = (m', .ok ()) → ReachSer nonZero m' F st
  | prune {m m' F st} (L : List H) :
      ReachSer nonZero m F st → MapPollard.prune L m = (m', .ok ()) → ReachSer nonZero m' F st
  | undo {m m' F st} (b : BD H) :
      ReachSer nonZero m F (b :: st) →
      MapPollard.undo nonZero (BitVec.ofNat 64 b.numAdds) (b.targets.map (encP b.prev.rows)) b.proof b.dels
        b.prev.roots m = (m', .ok ()) →
      ReachSer nonZero m' b.prev st
  /-- `Write` (maps walked in the order of `w`) ; `Read` into the receiver `m0` -/
  | restore {m F st} (w : MapSt H) (m0 : MapPollard H) :
      ReachSer nonZero m F st → Walk m w → m0.full = false → ReachSer nonZero (restore m0 w) F st

/-- every state of `Props.C09b.ReachU` is a state of `ReachSer` -/
theorem ReachSer.of_reachU {nonZero : H} {m : MapPollard H} {F : Forest H} {st : List (BD H)}
    (hr : C09b.ReachU nonZero m F st) : ReachSer nonZero m F st := by
  induction hr with
  | new => exact .new
  | fromRoots F m hn hy hm => exact .fromRoots F m hn hy hm
  | modify adds dels ts ps _ hca hnd hc hfr hndA hn he ih =>
    exact .modify adds dels ts ps _ ih hca hnd hc (List.Perm.refl _) hfr hndA hn he
  | verify L ts ps remember _ hnd hc he ih => exact .verify L ts ps remember ih hnd hc he
  | ingest L ts ps _ hnd hc he ih => exact .ingest L ts ps ih hnd hc he
  | prune L _ he ih => exact .prune L ih he
  | undo b _ he ih => exact .undo b ih he

/-- `Modify` on a partial forest with the targets in any order (`C09b.inv_modify` +
`C09b.modify_encoding_independent`) -/
theorem inv_modify_any_order (nz : NZ H) {m : MapPollard H} {F : Forest H} (s : SInv m F) (adds : List (Leaf H))
    (dels : List H) (ts : List Pos) (ps : List H) {tgts : List U64}
    (hcached : ∀ x ∈ dels, m.hasCached x = true) (hnd : dels.Nodup) (hc : F.canon dels = some (ts, ps))
    (hp : (ts.map (encP F.rows)).Perm tgts)
    (hfr : ∀ a ∈ adds, a.hash ∉ F.liveLeaves ∧ a.hash ≠ zero ∧ ∀ u v : H, a.hash ≠ ph u v)
    (hndA : (adds.map (·.hash)).Nodup) (hn : F.numLeaves + adds.length < 2 ^ 63) :
    ∃ m', MapPollard.modify adds dels tgts m = (m', .ok ()) ∧
      SInv m' (F.modify dels (adds.map (·.hash))) ∧ Inv m' (F.modify dels (adds.map (·.hash))) ∧
      m'.roots = (F.modify dels (adds.map (·.hash))).roots ∧
      (∀ y, m'.hasCached y = true ↔
        ((m.hasCached y = true ∧ y ∉ dels) ∨ ∃ a ∈ adds, a.remember = true ∧ a.hash = y)) := by
  rw [C09b.modify_encoding_independent m adds dels hp (C09c.canon_enc_nodup s.n_lt hnd hc)]
  exact C09b.inv_modify nz s adds dels ts ps hcached hnd hc hfr hndA hn

/-- the induction: every `ReachSer` state satisfies the strong invariant and its undo stack fits -/
theorem ReachSer.stack (nz : NZ H) {nonZero : H} (hnz : nonZero ≠ (zero : H)) :
    ∀ {m : MapPollard H} {F : Forest H} {st : List (BD H)}, ReachSer nonZero m F st →
      SInv m F ∧ C09b.StackOK F st := by
  intro m F st hr
  induction hr with
  | new => exact C09b.ReachU.stack nz hnz .new
  | fromRoots F m hn hy hm => exact C09b.ReachU.stack nz hnz (.fromRoots F m hn hy hm)
  | modify adds dels ts ps tgts _ hca hnd hc hp hfr hndA hn he ih =>
    obtain ⟨m2, h2, s2, _⟩ := inv_modify_any_order nz ih.1 adds dels ts ps hca hnd hc hp
      (fun a ha => ⟨(hfr a ha).2.1, (hfr a ha).1, (hfr a ha).2.2⟩) hndA hn
    rw [he] at h2
    rw [(Prod.mk.inj h2).1]
    exact ⟨s2, ⟨adds.map (·.hash), by simp, rfl⟩, ih.1.hyg, hnd, hc, ih.2⟩
  | verify L ts ps remember _ hnd hc he ih =>
    obtain ⟨m2, h2, s2, _⟩ := C09b.inv_verify nz ih.1 L ts ps [] hnd hc remember
    rw [List.append_nil, he] at h2
    rw [(Prod.mk.inj h2).1]; exact ⟨s2, ih.2⟩
  | ingest L ts ps _ hnd hc he ih =>
    obtain ⟨m2, h2, s2, _⟩ := C09b.inv_ingest nz ih.1 L ts ps [] hnd hc
    rw [List.append_nil, he] at h2
    rw [(Prod.mk.inj h2).1]; exact ⟨s2, ih.2⟩
  | prune L _ he ih =>
    obtain ⟨m2, h2, s2, _⟩ := C09b.inv_prune nz ih.1 L
    rw [he] at h2
    rw [(Prod.mk.inj h2).1]; exact ⟨s2, ih.2⟩
  | undo b _ he ih =>
    obtain ⟨s, ⟨adds, hlen, hF⟩, hy, hnd, hc, hst⟩ := ih
    rw [hF] at s
    obtain ⟨m2, h2, s2, _⟩ := C09b.inv_undo nz s hy hnd hc nonZero hnz
    rw [hlen, he] at h2
    rw [(Prod.mk.inj h2).1]; exact ⟨s2, hst⟩
  | restore w m0 _ hw hfull ih => exact ⟨sinv_restore ih.1 hw hfull, ih.2⟩

/-- **C09 for the partial map forest, every operation AND `Write ; Read`** (`C09b.C09_reach`
extended): every state reachable by honest `Modify` / `Verify` / `Ingest` / `Prune` / `Undo` and
serialise-and-restore is partial, satisfies the strong invariant (hence `Inv`), has the
specification's roots and is sane (so `Read` accepts its stream); and on such a state every honest
call succeeds — `Verify`, `Ingest`, `Prune`, `Modify` (targets in any order), `Undo` of the newest
block (also right after a restore: the history is the caller's) — and it can be serialised and
restored again. -/
theorem C09_reach_ser (nz : NZ H) (nonZero : H) (hnz : nonZero ≠ (zero : H)) :
    (∀ (m : MapPollard H) (F : Forest H) (st : List (BD H)), ReachSer nonZero m F st →
      m.full = false ∧ SInv m F ∧ Inv m F ∧ m.roots = F.roots ∧ Sane m) ∧
    (∀ (m : MapPollard H) (F : Forest H) (st : List (BD H)), ReachSer nonZero m F st →
      (∀ L ts ps remember, L.Nodup → F.canon L = some (ts, ps) →
        (∃ m', MapPollard.verifyM L (ts.map (encP F.rows)) ps remember m = (m', .ok ())) ∧
        (∃ m', MapPollard.ingest L (ts.map (encP F.rows)) ps m = (m', .ok ()))) ∧
      (∀ L, ∃ m', MapPollard.prune L m = (m', .ok ())) ∧
      (∀ adds dels ts ps tgts, (∀ x ∈ dels, m.hasCached x = true) → dels.Nodup → F.canon dels = some (ts, ps) →
        (ts.map (encP F.rows)).Perm tgts →
        (∀ a ∈ adds, a.hash ≠ zero ∧ a.hash ∉ F.liveLeaves ∧ ∀ u v : H, a.hash ≠ ph u v) →
        (adds.map (·.hash)).Nodup → F.numLeaves + adds.length < 2 ^ 63 →
        ∃ m', MapPollard.modify adds dels tgts m = (m', .ok ())) ∧
      (∀ b st', st = b :: st' → ∃ m',
        MapPollard.undo nonZero (BitVec.ofNat 64 b.numAdds) (b.targets.map (encP b.prev.rows)) b.proof b.dels
          b.prev.roots m = (m', .ok ())) ∧
      (∀ w m0, Walk m w → m0.full = false → ReachSer nonZero (restore m0 w) F st)) := by
  refine ⟨fun m F st hr => ?_, fun m F st hr => ?_⟩
  · have s := (ReachSer.stack nz hnz hr).1
    exact ⟨s.full, s, s.inv nz, Props.C09.roots_eq (s.inv nz), inv_sane (s.inv nz)⟩
  · obtain ⟨s, hst⟩ := ReachSer.stack nz hnz hr
    refine ⟨?_, ?_, ?_, ?_, ?_⟩
    · intro L ts ps remember hnd hc
      obtain ⟨m1, h1, _⟩ := C09b.inv_verify nz s L ts ps [] hnd hc remember
      obtain ⟨m2, h2, _⟩ := C09b.inv_ingest nz s L ts ps [] hnd hc
      rw [List.append_nil] at h1 h2
      exact ⟨⟨m1, h1⟩, ⟨m2, h2⟩⟩
    · intro L
      obtain ⟨m1, h1, _⟩ := C09b.inv_prune nz s L
      exact ⟨m1, h1⟩
    · intro adds dels ts ps tgts hca hnd hc hp hfr hndA hn
      obtain ⟨m2, h2, _⟩ := inv_modify_any_order nz s adds dels ts ps hca hnd hc hp
        (fun a ha => ⟨(hfr a ha).2.1, (hfr a ha).1, (hfr a ha).2.2⟩) hndA hn
      exact ⟨m2, h2⟩
    · intro b st' e
      subst e
      obtain ⟨⟨adds, hlen, hF⟩, hy, hnd, hc, _⟩ := hst
      rw [hF] at s
      obtain ⟨m2, h2, _⟩ := C09b.inv_undo nz s hy hnd hc nonZero hnz
      rw [hlen] at h2
      exact ⟨m2, h2⟩
    · intro w m0 hw hfull
      exact .restore w m0 hr hw hfull

/-- the look-ups (C10 / C01 / C02 for the map forest) in every `ReachSer` state -/
theorem lookups_reach_ser (nz : NZ H) {nonZero : H} (hnz : nonZero ≠ (zero : H)) {m : MapPollard H} {F : Forest H}
    {st : List (BD H)} (hr : ReachSer nonZero m F st) :
    m.roots = F.roots ∧
    (∀ q, Valid F.rows q → m.getHash (encP F.rows q) = Hasher.zero ∨ F.nodeAt q = some (m.getHash (encP F.rows q))) ∧
    (∀ x p, m.getLeafPosition x = some p → m.hasCached x = true ∧ ∃ t, F.posOf x = some t ∧ p = encP F.rows t) ∧
    (∀ x, m.getLeafPosition x = none ↔ m.hasCached x = false) ∧
    (∀ L, (∀ x ∈ L, m.hasCached x = true) → L.Nodup →
      ∃ tgts hashes, F.canon L = some (tgts, hashes) ∧ m.prove L = .ok (tgts.map (encP F.rows), hashes)) := by
  obtain ⟨_, _, inv, hroots, _⟩ := (C09_reach_ser nz nonZero hnz).1 m F st hr
  exact ⟨hroots, fun q hq => Props.C09.getHash_true inv q hq,
    fun x p h => Props.C09.getLeafPosition_some inv h,
    fun x => Props.C09.getLeafPosition_none x,
    fun L hL hnd => Props.C09.prove_canon inv L hL hnd⟩

/-! #### full forests -/

/-- honest operations on a FULL map forest (`Props.C09c.ReachFullU`) AND `Write ; Read` into a
receiver with `Full = true` -/
inductive ReachFullSer (nonZero : H) : MapPollard H → Forest H → List (BD H) → Prop
  | new : ReachFullSer nonZero (MapPollard.new true) Forest.empty []
  | modify {m m' F st} (adds : List (Leaf H)) (dels : List H) (ts : List Pos) (ps : List H) (tgts : List U64) :
      ReachFullSer nonZero m F st → dels.Nodup → F.canon dels = some (ts, ps) → (ts.map (encP F.rows)).Perm tgts →
      (∀ a ∈ adds, a.hash ≠ zero ∧ a.hash ∉ F.liveLeaves ∧ ∀ u v : H, a.hash ≠ ph u v) →
      (adds.map (·.hash)).Nodup → F.numLeaves + adds.length < 2 ^ 63 →
      MapPollard.modify adds dels tgts m = (m', .ok ()) →
      ReachFullSer nonZero m' (F.modify dels (adds.map (·.hash))) (⟨F, adds.length, dels, ts, ps⟩ :: st)
  | verify {m m' F st} (L : List H) (ts : List Pos) (ps : List H) (remember : Bool) :
      ReachFullSer nonZero m F st → L.Nodup → F.canon L = some (ts, ps) →
      MapPollard.verifyM L (ts.map (encP F.rows)) ps remember m = (m', .ok ()) → ReachFullSer nonZero m' F st
  | ingest {m m' F st} (L : List H) (ts : List Pos) (ps : List H) :
      ReachFullSer nonZero m F st → L.Nodup → F.canon L = some (ts, ps) →
      MapPollard.ingest L (ts.map (encP F.rows)) ps m = (m', .ok ()) → ReachFullSer nonZero m' F st
  | prune {m m' F st} (L : List H) :
      ReachFullSer nonZero m F st → MapPollard.prune L m = (m', .ok ()) → ReachFullSer nonZero m' F st
  | undo {m m' F st} (b : BD H) :
      ReachFullSer nonZero m F (b :: st) →
      MapPollard.undo nonZero (BitVec.ofNat 64 b.numAdds) (b.targets.map (encP b.prev.rows)) b.proof b.dels
        b.prev.roots m = (m', .ok ()) →
      ReachFullSer nonZero m' b.prev st
  | restore {m F st} (w : MapSt H) (m0 : MapPollard H) :
      ReachFullSer nonZero m F st → Walk m w → m0.full = true → ReachFullSer nonZero (restore m0 w) F st

theorem ReachFullSer.of_reachFullU {nonZero : H} {m : MapPollard H} {F : Forest H} {st : List (BD H)}
    (hr : C09c.ReachFullU nonZero m F st) : ReachFullSer nonZero m F st := by
  induction hr with
  | new => exact .new
  | modify adds dels ts ps tgts _ hnd hc hp hfr hndA hn he ih =>
    exact .modify adds dels ts ps tgts ih hnd hc hp hfr hndA hn he
  | verify L ts ps remember _ hnd hc he ih => exact .verify L ts ps remember ih hnd hc he
  | ingest L ts ps _ hnd hc he ih => exact .ingest L ts ps ih hnd hc he
  | prune L _ he ih => exact .prune L ih he
  | undo b _ he ih => exact .undo b ih he

theorem ReachFullSer.stack (nz : NZ H) {nonZero : H} (hnz : nonZero ≠ (zero : H)) :
    ∀ {m : MapPollard H} {F : Forest H} {st : List (BD H)}, ReachFullSer nonZero m F st →
      FInv m F ∧ C09b.StackOK F st := by
  intro m F st hr
  induction hr with
  | new => exact ⟨C09c.finv_new, trivial⟩
  | modify adds dels ts ps tgts _ hnd hc hp hfr hndA hn he ih =>
    obtain ⟨m2, h2, s2, _⟩ := C09c.finv_modify_any_order nz ih.1 adds dels ts ps hnd hc
      (fun a ha => ⟨(hfr a ha).2.1, (hfr a ha).1, (hfr a ha).2.2⟩) hndA hn hp
    rw [he] at h2
    rw [(Prod.mk.inj h2).1]
    exact ⟨s2, ⟨adds.map (·.hash), by simp, rfl⟩, ih.1.hyg, hnd, hc, ih.2⟩
  | verify L ts ps remember _ hnd hc he ih =>
    obtain ⟨m2, h2, s2, _⟩ := C09c.finv_verify nz ih.1 L ts ps [] hnd hc remember
    rw [List.append_nil, he] at h2
    rw [(Prod.mk.inj h2).1]; exact ⟨s2, ih.2⟩
  | ingest L ts ps _ hnd hc he ih =>
    obtain ⟨m2, h2, s2, _⟩ := C09c.finv_ingest nz ih.1 L ts ps [] hnd hc
    rw [List.append_nil, he] at h2
    rw [(Prod.mk.inj h2).1]; exact ⟨s2, ih.2⟩
  | prune L _ he ih =>
    rw [C09c.finv_prune ih.1 L] at he
    rw [← (Prod.mk.inj he).1]; exact ih
  | undo b _ he ih =>
    obtain ⟨s, ⟨adds, hlen, hF⟩, hy, hnd, hc, hst⟩ := ih
    rw [hF] at s
    obtain ⟨m2, h2, s2, _⟩ := C09c.finv_undo nz s hy hnd hc nonZero hnz
    rw [hlen, he] at h2
    rw [(Prod.mk.inj h2).1]; exact ⟨s2, hst⟩
  | restore w m0 _ hw hfull ih => exact ⟨finv_restore ih.1 hw hfull, ih.2⟩

/-- **C09 for the FULL map forest, every operation AND `Write ; Read`** (`C09c.C09_reach_full`
extended) -/
theorem C09_reach_full_ser (nz : NZ H) (nonZero : H) (hnz : nonZero ≠ (zero : H)) :
    (∀ (m : MapPollard H) (F : Forest H) (st : List (BD H)), ReachFullSer nonZero m F st →
      m.full = true ∧ FInv m F ∧ Inv m F ∧ m.roots = F.roots ∧ Sane m) ∧
    (∀ (m : MapPollard H) (F : Forest H) (st : List (BD H)), ReachFullSer nonZero m F st →
      (∀ L ts ps remember, L.Nodup → F.canon L = some (ts, ps) →
        (∃ m', MapPollard.verifyM L (ts.map (encP F.rows)) ps remember m = (m', .ok ())) ∧
        (∃ m', MapPollard.ingest L (ts.map (encP F.rows)) ps m = (m', .ok ()))) ∧
      (∀ L, ∃ m', MapPollard.prune L m = (m', .ok ())) ∧
      (∀ adds dels, dels.Nodup → (∀ x ∈ dels, x ∈ F.liveLeaves) →
        (∀ a ∈ adds, a.hash ≠ zero ∧ a.hash ∉ F.liveLeaves ∧ ∀ u v : H, a.hash ≠ ph u v) →
        (adds.map (·.hash)).Nodup → F.numLeaves + adds.length < 2 ^ 63 →
        ∃ ts ps, F.canon dels = some (ts, ps) ∧ ∀ tgts, (ts.map (encP F.rows)).Perm tgts →
          ∃ m', MapPollard.modify adds dels tgts m = (m', .ok ())) ∧
      (∀ b st', st = b :: st' → ∃ m',
        MapPollard.undo nonZero (BitVec.ofNat 64 b.numAdds) (b.targets.map (encP b.prev.rows)) b.proof b.dels
          b.prev.roots m = (m', .ok ())) ∧
      (∀ w m0, Walk m w → m0.full = true → ReachFullSer nonZero (restore m0 w) F st)) := by
  refine ⟨fun m F st hr => ?_, fun m F st hr => ?_⟩
  · have s := (ReachFullSer.stack nz hnz hr).1
    exact ⟨s.full, s, s.inv nz, C09c.roots_full nz s, finv_sane s⟩
  · obtain ⟨s, hst⟩ := ReachFullSer.stack nz hnz hr
    refine ⟨?_, ?_, ?_, ?_, ?_⟩
    · intro L ts ps remember hnd hc
      obtain ⟨m1, h1, _⟩ := C09c.finv_verify nz s L ts ps [] hnd hc remember
      obtain ⟨m2, h2, _⟩ := C09c.finv_ingest nz s L ts ps [] hnd hc
      rw [List.append_nil] at h1 h2
      exact ⟨⟨m1, h1⟩, ⟨m2, h2⟩⟩
    · intro L
      exact ⟨m, C09c.finv_prune s L⟩
    · intro adds dels hnd hlive hfr hndA hn
      obtain ⟨ts, ps, hc, _⟩ := C09c.prove_full nz s dels hlive hnd
      refine ⟨ts, ps, hc, ?_⟩
      intro tgts hp
      obtain ⟨m2, h2, _⟩ := C09c.finv_modify_any_order nz s adds dels ts ps hnd hc
        (fun a ha => ⟨(hfr a ha).2.1, (hfr a ha).1, (hfr a ha).2.2⟩) hndA hn hp
      exact ⟨m2, h2⟩
    · intro b st' e
      subst e
      obtain ⟨⟨adds, hlen, hF⟩, hy, hnd, hc, _⟩ := hst
      rw [hF] at s
      obtain ⟨m2, h2, _⟩ := C09c.finv_undo nz s hy hnd hc nonZero hnz
      rw [hlen] at h2
      exact ⟨m2, h2⟩
    · intro w m0 hw hfull
      exact .restore w m0 hr hw hfull

/-- the look-ups of a full map forest in every `ReachFullSer` state: exact functions of `F` -/
theorem lookups_reach_full_ser (nz : NZ H) {nonZero : H} (hnz : nonZero ≠ (zero : H)) {m : MapPollard H}
    {F : Forest H} {st : List (BD H)} (hr : ReachFullSer nonZero m F st) :
    m.roots = F.roots ∧
    (∀ q, Valid F.rows q → m.getHash (encP F.rows q) = (F.nodeAt q).getD zero) ∧
    (∀ x, m.getLeafPosition x = (F.posOf x).map (encP F.rows)) ∧
    (∀ L, (∀ x ∈ L, x ∈ F.liveLeaves) → L.Nodup →
      ∃ tgts hashes, F.canon L = some (tgts, hashes) ∧ m.prove L = .ok (tgts.map (encP F.rows), hashes)) := by
  have s := (ReachFullSer.stack nz hnz hr).1
  exact ⟨C09c.roots_full nz s, fun q hq => C09c.getHash_full nz s q hq, fun x => C09c.getLeafPosition_full nz s x,
    fun L hL hnd => C09c.prove_full nz s L hL hnd⟩

end Closure

/-! ### 4. behaviour: the restored instance and the original, side by side -/

section Behaviour
variable {H : Type} [DecidableEq H] [Hasher H]

/-- two partial instances that track the same forest and cache the same leaves (e.g. an instance
and its restored copy, and — `twin_step` — whatever becomes of them under the same honest calls) -/
structure Twin (m m' : MapPollard H) (F : Forest H) : Prop where
  left : SInv m F
  right : SInv m' F
  cache : ∀ y, m.hasCached y = true ↔ m'.hasCached y = true

/-- the restored copy of an instance satisfying the strong invariant is its twin -/
theorem twin_restore {m m0 : MapPollard H} {F : Forest H} {st : MapSt H} (s : SInv m F) (w : Walk m st)
    (hfull : m0.full = false) : Twin m (restore m0 st) F :=
  ⟨s, sinv_restore s w hfull, fun y => by rw [(restore_equiv w (hfull.trans s.full.symm)).hasCached]⟩

/-- under the invariant a REQUIRED position (a root, a cached leaf, a sibling along the path of a
cached leaf) reads as the true hash -/
theorem getHash_required {m : MapPollard H} {F : Forest H} (inv : Inv m F) {q : Pos} (hq : Valid F.rows q)
    (hr : Required F (fun x => m.hasCached x = true) q) {h : H} (hn : F.nodeAt q = some h) :
    m.getHash (encP F.rows q) = h := by
  unfold MapPollard.getHash
  simp only [toStorage inv hq]
  unfold MapPollard.getNodeD
  have hst := inv.has_needed q hr
  rw [hasNode_eq] at hst
  cases hg : m.getNode (encP m.totalRows.toNat q) with
  | none => rw [hg] at hst; cases hst
  | some l =>
    have := getNode_true inv (hq.mono inv.rows_le) hg
    rw [hn] at this
    simp only [Option.getD_some]
    exact (Option.some.inj this).symm

/-- **twins answer every query alike**: `GetRoots` (the specification's roots), `GetLeafPosition` of
EVERY hash, `Prove` of every duplicate-free request (the canonical proof, or the same refusal),
`GetHash` at every required position (the true hash; elsewhere each answers the true hash or the
all-zero "not stored"), `NumLeaves`.  All of these are functions of `F` and of the cached set. -/
theorem twin_queries (nz : NZ H) {m m' : MapPollard H} {F : Forest H} (t : Twin m m' F) :
    (m.roots = F.roots ∧ m'.roots = F.roots) ∧
    (∀ x, m.getLeafPosition x = m'.getLeafPosition x) ∧
    (∀ L, L.Nodup → m.prove L = m'.prove L) ∧
    (∀ q h, Valid F.rows q → Required F (fun x => m.hasCached x = true) q → F.nodeAt q = some h →
      m.getHash (encP F.rows q) = h ∧ m'.getHash (encP F.rows q) = h) ∧
    (∀ q, Valid F.rows q →
      (m.getHash (encP F.rows q) = zero ∨ F.nodeAt q = some (m.getHash (encP F.rows q))) ∧
      (m'.getHash (encP F.rows q) = zero ∨ F.nodeAt q = some (m'.getHash (encP F.rows q)))) ∧
    m.numLeaves = m'.numLeaves := by
  have inv := t.left.inv nz
  have inv' := t.right.inv nz
  refine ⟨⟨Props.C09.roots_eq inv, Props.C09.roots_eq inv'⟩, ?_, ?_, ?_, ?_, ?_⟩
  · intro x
    cases h : m.getLeafPosition x with
    | none =>
      have h1 := (Props.C09.getLeafPosition_none x).1 h
      symm
      rw [Props.C09.getLeafPosition_none]
      cases h' : m'.hasCached x with
      | false => rfl
      | true => rw [(t.cache x).2 h'] at h1; cases h1
    | some p =>
      obtain ⟨hc, tt, ht, hp⟩ := Props.C09.getLeafPosition_some inv h
      have hc' := (t.cache x).1 hc
      cases h' : m'.getLeafPosition x with
      | none => have := (Props.C09.getLeafPosition_none x).1 h'; rw [hc'] at this; cases this
      | some p' =>
        obtain ⟨_, t2, ht2, hp2⟩ := Props.C09.getLeafPosition_some inv' h'
        rw [ht] at ht2; cases ht2
        rw [hp, hp2]
  · intro L hnd
    cases hall : L.all m.hasCached with
    | true =>
      have hall' : ∀ x ∈ L, m.hasCached x = true := List.all_eq_true.1 hall
      obtain ⟨tg, hs, hc, hp⟩ := Props.C09.prove_canon inv L hall' hnd
      obtain ⟨tg', hs', hc', hp'⟩ := Props.C09.prove_canon inv' L (fun x hx => (t.cache x).1 (hall' x hx)) hnd
      rw [hc] at hc'; cases hc'
      rw [hp, hp']
    | false =>
      obtain ⟨x, hx, hne⟩ := List.all_eq_false.1 hall
      have h1 : m.hasCached x = false := by simpa using hne
      have h2 : m'.hasCached x = false := by
        cases h' : m'.hasCached x with
        | false => rfl
        | true => rw [(t.cache x).2 h'] at h1; cases h1
      rw [Props.C09.prove_uncached L hx h1, Props.C09.prove_uncached L hx h2]
  · intro q h hq hr hn
    refine ⟨getHash_required inv hq hr hn, getHash_required inv' hq ?_ hn⟩
    rcases hr with hr | ⟨x, tt, hk, hp, hh⟩
    · exact Or.inl hr
    · exact Or.inr ⟨x, tt, (t.cache x).1 hk, hp, hh⟩
  · intro q hq
    exact ⟨Props.C09.getHash_true inv q hq, Props.C09.getHash_true inv' q hq⟩
  · rw [inv.n_eq, inv'.n_eq]

/-- an honest call of the API (the arguments a caller who follows the protocol passes) -/
inductive Op (H : Type) where
  /-- `Modify(adds, dels, proof)`: `ts`, `ps` = canonical proof of `dels`, `tgts` = its targets in any order -/
  | modify (adds : List (Leaf H)) (dels : List H) (ts : List Pos) (ps : List H) (tgts : List U64)
  | verify (L : List H) (ts : List Pos) (ps : List H) (remember : Bool)
  | ingest (L : List H) (ts : List Pos) (ps : List H)
  | prune (L : List H)
  /-- `Undo` of the newest block, with that block's data -/
  | undo

/-- the call is honest in the state `(m, F, st)` (`st` = the caller's undo history) -/
def Op.Honest (m : MapPollard H) (F : Forest H) (st : List (BD H)) : Op H → Prop
  | .modify adds dels ts ps tgts =>
    (∀ x ∈ dels, m.hasCached x = true) ∧ dels.Nodup ∧ F.canon dels = some (ts, ps) ∧
    (ts.map (encP F.rows)).Perm tgts ∧
    (∀ a ∈ adds, a.hash ≠ zero ∧ a.hash ∉ F.liveLeaves ∧ ∀ u v : H, a.hash ≠ ph u v) ∧
    (adds.map (·.hash)).Nodup ∧ F.numLeaves + adds.length < 2 ^ 63
  | .verify L ts ps _ => L.Nodup ∧ F.canon L = some (ts, ps)
  | .ingest L ts ps => L.Nodup ∧ F.canon L = some (ts, ps)
  | .prune _ => True
  | .undo => st ≠ []

/-- the model call -/
def Op.run (nonZero : H) (F : Forest H) (st : List (BD H)) : Op H → MPM H Unit
  | .modify adds dels _ _ tgts => MapPollard.modify adds dels tgts
  | .verify L ts ps remember => MapPollard.verifyM L (ts.map (encP F.rows)) ps remember
  | .ingest L ts ps => MapPollard.ingest L (ts.map (encP F.rows)) ps
  | .prune L => MapPollard.prune L
  | .undo =>
    match st with
    | b :: _ => MapPollard.undo nonZero (BitVec.ofNat 64 b.numAdds) (b.targets.map (encP b.prev.rows)) b.proof
        b.dels b.prev.roots
    | [] => fun m => (m, .ok ())

/-- the specification forest and the undo history after the call -/
def Op.after (F : Forest H) (st : List (BD H)) : Op H → Forest H × List (BD H)
  | .modify adds dels ts ps _ => (F.modify dels (adds.map (·.hash)), ⟨F, adds.length, dels, ts, ps⟩ :: st)
  | .undo =>
    match st with
    | b :: st' => (b.prev, st')
    | [] => (F, [])
  | _ => (F, st)

/-- **one honest call on twins**: it succeeds on BOTH, and the two results are twins again — for
the SAME new forest.  (`Modify`, `Verify`, `Ingest`, `Prune`, `Undo`; the honesty of the call is
judged on the first instance — its cache is the second one's.) -/
theorem twin_step (nz : NZ H) {nonZero : H} (hnz : nonZero ≠ (zero : H)) {m m' : MapPollard H} {F : Forest H}
    {st : List (BD H)} (t : Twin m m' F) (hst : C09b.StackOK F st) (op : Op H) (ho : op.Honest m F st) :
    ∃ m1 m1', op.run nonZero F st m = (m1, .ok ()) ∧ op.run nonZero F st m' = (m1', .ok ()) ∧
      Twin m1 m1' (op.after F st).1 ∧ C09b.StackOK (op.after F st).1 (op.after F st).2 := by
  obtain ⟨s, s', hc⟩ := t
  cases op with
  | modify adds dels ts ps tgts =>
    obtain ⟨hca, hnd, hcn, hp, hfr, hndA, hn⟩ := ho
    have hfr' := fun a ha => (⟨(hfr a ha).2.1, (hfr a ha).1, (hfr a ha).2.2⟩ :
      a.hash ∉ F.liveLeaves ∧ a.hash ≠ zero ∧ ∀ u v : H, a.hash ≠ ph u v)
    obtain ⟨m1, h1, s1, _, _, c1⟩ := inv_modify_any_order nz s adds dels ts ps hca hnd hcn hp hfr' hndA hn
    obtain ⟨m1', h1', s1', _, _, c1'⟩ := inv_modify_any_order nz s' adds dels ts ps
      (fun x hx => (hc x).1 (hca x hx)) hnd hcn hp hfr' hndA hn
    refine ⟨m1, m1', h1, h1', ⟨s1, s1', fun y => ?_⟩, ⟨adds.map (·.hash), by simp, rfl⟩, s.hyg, hnd, hcn, hst⟩
    rw [c1, c1', hc]
  | verify L ts ps remember =>
    obtain ⟨hnd, hcn⟩ := ho
    obtain ⟨m1, h1, s1, _, c1⟩ := C09b.inv_verify nz s L ts ps [] hnd hcn remember
    obtain ⟨m1', h1', s1', _, c1'⟩ := C09b.inv_verify nz s' L ts ps [] hnd hcn remember
    rw [List.append_nil] at h1 h1'
    exact ⟨m1, m1', h1, h1', ⟨s1, s1', fun y => by rw [c1, c1', hc]⟩, hst⟩
  | ingest L ts ps =>
    obtain ⟨hnd, hcn⟩ := ho
    obtain ⟨m1, h1, s1, _, c1⟩ := C09b.inv_ingest nz s L ts ps [] hnd hcn
    obtain ⟨m1', h1', s1', _, c1'⟩ := C09b.inv_ingest nz s' L ts ps [] hnd hcn
    rw [List.append_nil] at h1 h1'
    exact ⟨m1, m1', h1, h1', ⟨s1, s1', fun y => by rw [c1, c1', hc]⟩, hst⟩
  | prune L =>
    obtain ⟨m1, h1, s1, _, c1⟩ := C09b.inv_prune nz s L
    obtain ⟨m1', h1', s1', _, c1'⟩ := C09b.inv_prune nz s' L
    exact ⟨m1, m1', h1, h1', ⟨s1, s1', fun y => by rw [c1, c1', hc]⟩, hst⟩
  | undo =>
    cases st with
    | nil => exact absurd rfl ho
    | cons b st' =>
      obtain ⟨⟨adds, hlen, hF⟩, hy, hnd, hcn, hst'⟩ := hst
      subst hF
      obtain ⟨m1, h1, s1, _, _, c1⟩ := C09b.inv_undo nz s hy hnd hcn nonZero hnz
      obtain ⟨m1', h1', s1', _, _, c1'⟩ := C09b.inv_undo nz s' hy hnd hcn nonZero hnz
      rw [hlen] at h1 h1'
      exact ⟨m1, m1', h1, h1', ⟨s1, s1', fun y => by rw [c1, c1', hc]⟩, hst'⟩

/-- a sequence of calls, each executed on the result of the previous one; `none` as soon as a
call fails -/
def runOps (nonZero : H) : List (Op H) → Forest H → List (BD H) → MapPollard H → Option (MapPollard H)
  | [], _, _, m => some m
  | op :: ops, F, st, m =>
    match op.run nonZero F st m with
    | (m1, .ok ()) => runOps nonZero ops (op.after F st).1 (op.after F st).2 m1
    | (_, .error _) => none

/-- the forest and history after the sequence -/
def afterOps : List (Op H) → Forest H → List (BD H) → Forest H × List (BD H)
  | [], F, st => (F, st)
  | op :: ops, F, st => afterOps ops (op.after F st).1 (op.after F st).2

/-- every call of the sequence is honest in the state it is made in -/
def HonestRun (nonZero : H) : List (Op H) → Forest H → List (BD H) → MapPollard H → Prop
  | [], _, _, _ => True
  | op :: ops, F, st, m => op.Honest m F st ∧
      ∀ m1, op.run nonZero F st m = (m1, .ok ()) → HonestRun nonZero ops (op.after F st).1 (op.after F st).2 m1

/-- **every honest run, of any length, on twins**: it succeeds on both, call by call, and ends in
twins for the same final forest -/
theorem lockstep (nz : NZ H) {nonZero : H} (hnz : nonZero ≠ (zero : H)) (ops : List (Op H)) :
    ∀ {m m' : MapPollard H} {F : Forest H} {st : List (BD H)}, Twin m m' F → C09b.StackOK F st →
      HonestRun nonZero ops F st m →
      ∃ mk mk', runOps nonZero ops F st m = some mk ∧ runOps nonZero ops F st m' = some mk' ∧
        Twin mk mk' (afterOps ops F st).1 ∧ C09b.StackOK (afterOps ops F st).1 (afterOps ops F st).2 := by
  induction ops with
  | nil => intro m m' F st t hst _; exact ⟨m, m', rfl, rfl, t, hst⟩
  | cons op ops ih =>
    intro m m' F st t hst hr
    obtain ⟨ho, hrest⟩ := hr
    obtain ⟨m1, m1', h1, h1', t1, hst1⟩ := twin_step nz hnz t hst op ho
    obtain ⟨mk, mk', hk, hk', tk, hstk⟩ := ih t1 hst1 (hrest m1 h1)
    refine ⟨mk, mk', ?_, ?_, tk, hstk⟩
    · simp only [runOps, h1]; exact hk
    · simp only [runOps, h1']; exact hk'

/-- **C13 for the partial map forest, behavioural form.**  Let `(m, F, st)` be reachable by honest
operations and serialisation steps, and let `m'` be `m` written (maps walked in any order) and
restored into a fresh partial receiver.  Then
  (1) `m'` is reachable for the same forest and history, and `m`, `m'` are twins;
  (2) they answer every query alike (`twin_queries`);
  (3) EVERY honest run `ops` from there (blocks, `Verify(remember)`, `Ingest`, `Prune`, `Undo` — first
      of the blocks applied before the restore, then of later ones) succeeds on both, call by call,
      and the two final states are twins for the same final forest — so (2) holds again after every
      call. -/
theorem map_restored_behaves_identically (nz : NZ H) (nonZero : H) (hnz : nonZero ≠ (zero : H))
    {m : MapPollard H} {F : Forest H} {st : List (BD H)} (hr : ReachSer nonZero m F st)
    (w : MapSt H) (hw : Walk m w) (m0 : MapPollard H) (hfull : m0.full = false) :
    let m' := restore m0 w
    ReachSer nonZero m' F st ∧ Twin m m' F ∧
    (∀ ops, HonestRun nonZero ops F st m →
      ∃ mk mk', runOps nonZero ops F st m = some mk ∧ runOps nonZero ops F st m' = some mk' ∧
        Twin mk mk' (afterOps ops F st).1 ∧
        (mk.roots = (afterOps ops F st).1.roots ∧ mk'.roots = (afterOps ops F st).1.roots) ∧
        (∀ x, mk.getLeafPosition x = mk'.getLeafPosition x) ∧
        (∀ L, L.Nodup → mk.prove L = mk'.prove L)) := by
  intro m'
  obtain ⟨s, hst⟩ := ReachSer.stack nz hnz hr
  have t := twin_restore s hw hfull
  refine ⟨.restore w m0 hr hw hfull, t, ?_⟩
  intro ops hrun
  obtain ⟨mk, mk', hk, hk', tk, _⟩ := lockstep nz hnz ops t hst hrun
  obtain ⟨q1, q2, q3, _⟩ := twin_queries nz tk
  exact ⟨mk, mk', hk, hk', tk, q1, q2, q3⟩

/-! #### full forests -/

/-- two full instances tracking the same forest (everything a full forest stores and answers is a
function of the forest) -/
structure TwinF (m m' : MapPollard H) (F : Forest H) : Prop where
  left : FInv m F
  right : FInv m' F

theorem twinF_restore {m m0 : MapPollard H} {F : Forest H} {st : MapSt H} (s : FInv m F) (w : Walk m st)
    (hfull : m0.full = true) : TwinF m (restore m0 st) F := ⟨s, finv_restore s w hfull⟩

/-- **full twins answer EVERY query identically**: roots, `GetHash` at every position,
`GetLeafPosition` of every hash, `Prove` of every duplicate-free request -/
theorem twinF_queries (nz : NZ H) {m m' : MapPollard H} {F : Forest H} (t : TwinF m m' F) :
    m.roots = m'.roots ∧
    (∀ q, Valid F.rows q → m.getHash (encP F.rows q) = m'.getHash (encP F.rows q)) ∧
    (∀ x, m.getLeafPosition x = m'.getLeafPosition x) ∧
    (∀ L, L.Nodup → m.prove L = m'.prove L) ∧
    m.numLeaves = m'.numLeaves := by
  obtain ⟨s, s'⟩ := t
  refine ⟨by rw [C09c.roots_full nz s, C09c.roots_full nz s'],
    fun q hq => by rw [C09c.getHash_full nz s q hq, C09c.getHash_full nz s' q hq],
    fun x => by rw [C09c.getLeafPosition_full nz s, C09c.getLeafPosition_full nz s'], ?_,
    by rw [s.n_eq, s'.n_eq]⟩
  intro L hnd
  by_cases hall : ∀ x ∈ L, x ∈ F.liveLeaves
  · obtain ⟨tg, hs, hc, hp⟩ := C09c.prove_full nz s L hall hnd
    obtain ⟨tg', hs', hc', hp'⟩ := C09c.prove_full nz s' L hall hnd
    rw [hc] at hc'; cases hc'
    rw [hp, hp']
  · have : ∃ x, x ∈ L ∧ x ∉ F.liveLeaves := by
      apply Classical.byContradiction
      intro hne
      apply hall
      intro x hx
      apply Classical.byContradiction
      intro hx'
      exact hne ⟨x, hx, hx'⟩
    obtain ⟨x, hx, hdead⟩ := this
    rw [C09c.prove_full_dead nz s L hx hdead, C09c.prove_full_dead nz s' L hx hdead]

/-- one honest call on full twins (the cached-premise of `Op.Honest` is not needed: every live leaf
of a full forest is cached) -/
theorem twinF_step (nz : NZ H) {nonZero : H} (hnz : nonZero ≠ (zero : H)) {m m' : MapPollard H} {F : Forest H}
    {st : List (BD H)} (t : TwinF m m' F) (hst : C09b.StackOK F st) (op : Op H) (ho : op.Honest m F st) :
    ∃ m1 m1', op.run nonZero F st m = (m1, .ok ()) ∧ op.run nonZero F st m' = (m1', .ok ()) ∧
      TwinF m1 m1' (op.after F st).1 ∧ C09b.StackOK (op.after F st).1 (op.after F st).2 := by
  obtain ⟨s, s'⟩ := t
  cases op with
  | modify adds dels ts ps tgts =>
    obtain ⟨_, hnd, hcn, hp, hfr, hndA, hn⟩ := ho
    have hfr' := fun a ha => (⟨(hfr a ha).2.1, (hfr a ha).1, (hfr a ha).2.2⟩ :
      a.hash ∉ F.liveLeaves ∧ a.hash ≠ zero ∧ ∀ u v : H, a.hash ≠ ph u v)
    obtain ⟨m1, h1, s1, _⟩ := C09c.finv_modify_any_order nz s adds dels ts ps hnd hcn hfr' hndA hn hp
    obtain ⟨m1', h1', s1', _⟩ := C09c.finv_modify_any_order nz s' adds dels ts ps hnd hcn hfr' hndA hn hp
    exact ⟨m1, m1', h1, h1', ⟨s1, s1'⟩, ⟨adds.map (·.hash), by simp, rfl⟩, s.hyg, hnd, hcn, hst⟩
  | verify L ts ps remember =>
    obtain ⟨hnd, hcn⟩ := ho
    obtain ⟨m1, h1, s1, _⟩ := C09c.finv_verify nz s L ts ps [] hnd hcn remember
    obtain ⟨m1', h1', s1', _⟩ := C09c.finv_verify nz s' L ts ps [] hnd hcn remember
    rw [List.append_nil] at h1 h1'
    exact ⟨m1, m1', h1, h1', ⟨s1, s1'⟩, hst⟩
  | ingest L ts ps =>
    obtain ⟨hnd, hcn⟩ := ho
    obtain ⟨m1, h1, s1, _⟩ := C09c.finv_ingest nz s L ts ps [] hnd hcn
    obtain ⟨m1', h1', s1', _⟩ := C09c.finv_ingest nz s' L ts ps [] hnd hcn
    rw [List.append_nil] at h1 h1'
    exact ⟨m1, m1', h1, h1', ⟨s1, s1'⟩, hst⟩
  | prune L => exact ⟨m, m', C09c.finv_prune s L, C09c.finv_prune s' L, ⟨s, s'⟩, hst⟩
  | undo =>
    cases st with
    | nil => exact absurd rfl ho
    | cons b st' =>
      obtain ⟨⟨adds, hlen, hF⟩, hy, hnd, hcn, hst'⟩ := hst
      subst hF
      obtain ⟨m1, h1, s1, _⟩ := C09c.finv_undo nz s hy hnd hcn nonZero hnz
      obtain ⟨m1', h1', s1', _⟩ := C09c.finv_undo nz s' hy hnd hcn nonZero hnz
      rw [hlen] at h1 h1'
      exact ⟨m1, m1', h1, h1', ⟨s1, s1'⟩, hst'⟩

theorem lockstepF (nz : NZ H) {nonZero : H} (hnz : nonZero ≠ (zero : H)) (ops : List (Op H)) :
    ∀ {m m' : MapPollard H} {F : Forest H} {st : List (BD H)}, TwinF m m' F → C09b.StackOK F st →
      HonestRun nonZero ops F st m →
      ∃ mk mk', runOps nonZero ops F st m = some mk ∧ runOps nonZero ops F st m' = some mk' ∧
        TwinF mk mk' (afterOps ops F st).1 ∧ C09b.StackOK (afterOps ops F st).1 (afterOps ops F st).2 := by
  induction ops with
  | nil => intro m m' F st t hst _; exact ⟨m, m', rfl, rfl, t, hst⟩
  | cons op ops ih =>
    intro m m' F st t hst hr
    obtain ⟨ho, hrest⟩ := hr
    obtain ⟨m1, m1', h1, h1', t1, hst1⟩ := twinF_step nz hnz t hst op ho
    obtain ⟨mk, mk', hk, hk', tk, hstk⟩ := ih t1 hst1 (hrest m1 h1)
    refine ⟨mk, mk', ?_, ?_, tk, hstk⟩
    · simp only [runOps, h1]; exact hk
    · simp only [runOps, h1']; exact hk'

/-- **C13 for the FULL map forest, behavioural form**: the restored copy (receiver with
`Full = true`) of a reachable full instance is reachable for the same forest and history; every
honest run succeeds on both, and after it ALL queries agree (they are the specification's). -/
theorem map_restored_behaves_identically_full (nz : NZ H) (nonZero : H) (hnz : nonZero ≠ (zero : H))
    {m : MapPollard H} {F : Forest H} {st : List (BD H)} (hr : ReachFullSer nonZero m F st)
    (w : MapSt H) (hw : Walk m w) (m0 : MapPollard H) (hfull : m0.full = true) :
    let m' := restore m0 w
    ReachFullSer nonZero m' F st ∧ TwinF m m' F ∧
    (∀ ops, HonestRun nonZero ops F st m →
      ∃ mk mk', runOps nonZero ops F st m = some mk ∧ runOps nonZero ops F st m' = some mk' ∧
        TwinF mk mk' (afterOps ops F st).1 ∧
        mk.roots = mk'.roots ∧
        (∀ q, Valid (afterOps ops F st).1.rows q →
          mk.getHash (encP (afterOps ops F st).1.rows q) = mk'.getHash (encP (afterOps ops F st).1.rows q)) ∧
        (∀ x, mk.getLeafPosition x = mk'.getLeafPosition x) ∧
        (∀ L, L.Nodup → mk.prove L = mk'.prove L)) := by
  intro m'
  obtain ⟨s, hst⟩ := ReachFullSer.stack nz hnz hr
  have t := twinF_restore s hw hfull
  refine ⟨.restore w m0 hr hw hfull, t, ?_⟩
  intro ops hrun
  obtain ⟨mk, mk', hk, hk', tk, _⟩ := lockstepF nz hnz ops t hst hrun
  obtain ⟨q1, q2, q3, q4, _⟩ := twinF_queries nz tk
  exact ⟨mk, mk', hk, hk', tk, q1, q2, q3, q4⟩

end Behaviour

/-! ### 6. identical behaviour under ALL calls (no invariant, no collision-freeness)

`Proofs/MapSim*.lean` prove that every function of the model reads the two maps through look-ups
only: `Equiv` is a bisimulation for the whole API (`sim_call`, `observe_equiv`, `trace_equiv`).  Since
the restored instance is `Equiv` to the written one, it is indistinguishable from it for ever —
whatever is called, with whatever arguments (honest or not, succeeding or not). -/

section Bisim
variable {H : Type} [DecidableEq H] [Hasher H]

/-- **state level**: the instance `Read` leaves behind and the written instance give the same verdicts
and the same observations (`GetRoots`, `GetHash`, `GetLeafPosition`, `Prove`, `GetMissingPositions`,
`NumLeaves`, `TotalRows`, `Full`) after every call of every sequence of calls -/
theorem restored_bisim {m m0 : MapPollard H} {st : MapSt H} (w : Walk m st) (hfull : m0.full = m.full) :
    observe m = observe (restore m0 st) ∧
    ∀ cs : List (Call H), trace cs m = trace cs (restore m0 st) ∧
      Equiv (runCalls cs m) (runCalls cs (restore m0 st)) :=
  ⟨observe_equiv (restore_equiv w hfull), fun cs => trace_equiv cs (restore_equiv w hfull)⟩

variable [HashBytes H]

/-- **C13 for the map forest, at full strength.**  Let `m` be any state in which every cached leaf
has its node (`Sane`: implied by the storage invariant of either kind of forest, hence true of every
reachable state — `C09_reach_ser`, `C09_reach_full_ser`; it is the condition `Read` re-checks) and
whose map sizes fit Go's `int`.  Let `Write` walk the two maps in ANY order and let the stream be read
through ANY chunking into a receiver with empty maps and `m`'s `Full` flag.  Then `Read` accepts and
reports the length of the stream, and the restored instance `m'` behaves identically to `m` under all
later operations: for EVERY sequence of calls (`Modify`, `Verify`, `VerifyPartialProof`, `Ingest`,
`Prune`, `Undo`, any arguments) the verdicts and everything observable after every call coincide. -/
theorem map_restored_bisim (ok : HashBytesOK H) {m : MapPollard H} (hs : Sane m) (hf : Fits m) {st : MapSt H}
    (w : Walk m st) (m0 : MapPollard H) (hn0 : m0.nodes = []) (hc0 : m0.cached = []) (hfull : m0.full = m.full)
    (r : Reader) (hd : r.data = encodeMap st) :
    ∃ m', read m0 r = ⟨(encodeMap st).length, .ok m'⟩ ∧ Equiv m m' ∧ Sane m' ∧ Fits m' ∧ observe m = observe m' ∧
      ∀ cs : List (Call H), trace cs m = trace cs m' ∧ Equiv (runCalls cs m) (runCalls cs m') :=
  ⟨_, read_write ok w hs hf m0 hn0 hc0 r hd, restore_equiv w hfull, Sane_congr (restore_equiv w hfull) hs,
    restore_fits w hf, (restored_bisim w hfull).1, (restored_bisim w hfull).2⟩

/-- the hypothesis `Sane` of `map_restored_bisim` cannot be dropped: it is exactly what makes `Read`
accept (`sanityOk`); and a stream is accepted only if the restored state is sane -/
theorem read_ok_sane {m0 m' : MapPollard H} {r : Reader} {n : Nat} (h : read m0 r = ⟨n, .ok m'⟩) :
    ∃ st, mapRead (toSt m0) r = ⟨n, .ok st⟩ ∧ m' = restore m0 st ∧ sanityOk st.cached st.nodes = true := by
  unfold SerialMapInv.read at h
  cases hr : mapRead (toSt m0) r with
  | mk n' out =>
    rw [hr] at h
    cases out with
    | ok st =>
      simp only [Res.mk.injEq, Out.ok.injEq] at h
      refine ⟨st, by rw [h.1], h.2.symm, ?_⟩
      exact mapRead_ok_sane hr
    | err => simp at h
    | panic => simp at h
    | hang => simp at h

/-- **C13 for the map forest at Go's hash type** `[32]byte` and ANY parent-hash function (e.g.
SHA-512/256): no hypothesis on the hash type is left -/
theorem map_restored_bisim_bytes32 (ph : Props.C13.Bytes32 → Props.C13.Bytes32 → Props.C13.Bytes32) :
    letI : Hasher Props.C13.Bytes32 := ⟨ph, Props.C13.Bytes32.zero⟩
    ∀ {m : MapPollard Props.C13.Bytes32}, Sane m → Fits m → ∀ {st : MapSt Props.C13.Bytes32}, Walk m st →
      ∀ (m0 : MapPollard Props.C13.Bytes32), m0.nodes = [] → m0.cached = [] → m0.full = m.full →
      ∀ (r : Reader), r.data = encodeMap st →
      ∃ m', read m0 r = ⟨(encodeMap st).length, .ok m'⟩ ∧ Equiv m m' ∧ observe m = observe m' ∧
        ∀ cs : List (Call Props.C13.Bytes32), trace cs m = trace cs m' := by
  letI : Hasher Props.C13.Bytes32 := ⟨ph, Props.C13.Bytes32.zero⟩
  intro m hs hf st w m0 hn0 hc0 hfull r hd
  obtain ⟨m', h1, h2, _, _, h3, h4⟩ := map_restored_bisim Props.C13.okBytes32 hs hf w m0 hn0 hc0 hfull r hd
  exact ⟨m', h1, h2, h3, fun cs => (h4 cs).1⟩

end Bisim

/-! ### 5. non-vacuity -/

-- term-algebra hasher (collision-free): the closure and behaviour theorems
namespace Example
open Props.C09.Example MapSInv.Example C09b.Example

abbrev nz : T := T.leaf 9

/-- the forest after the first block (five additions, three of them remembered) -/
def FA : Forest T := Forest.empty.modify [] (adds5.map (·.hash))
def mA : MapPollard T := (MapPollard.modify adds5 [] [] (MapPollard.new false)).1
/-- … and after the second block, which deletes leaf 4: the root on row 0 is EMPTIED (stored as an
all-zero root), `TotalRows = 63 ≠ 3 = TreeRows(5)` -/
def FB : Forest T := FA.modify [T.leaf 4] []
def mB : MapPollard T := (MapPollard.modify [] [T.leaf 4] [4#64] mA).1

theorem eA : MapPollard.modify adds5 [] [] (MapPollard.new false) = (mA, .ok ()) :=
  C09b.Finding.pair_ok _ (by decide +kernel)
theorem eB : MapPollard.modify [] [T.leaf 4] [4#64] mA = (mB, .ok ()) :=
  C09b.Finding.pair_ok _ (by decide +kernel)

theorem adds5_ok : ∀ a ∈ adds5, a.hash ≠ zero ∧ a.hash ∉ (Forest.empty : Forest T).liveLeaves ∧
    ∀ u v : T, a.hash ≠ ph u v := by
  intro a ha
  simp only [adds5, List.mem_cons, List.mem_nil_iff, or_false] at ha
  rcases ha with rfl | rfl | rfl | rfl | rfl <;> exact ⟨leafT_nz _, by decide, leafT_nph _⟩

def bdA : BD T := ⟨Forest.empty, 5, [], [], []⟩
def bdB : BD T := ⟨FA, 0, [T.leaf 4], [(0, 4)], []⟩

theorem reachA : ReachSer nz mA FA [bdA] :=
  .modify adds5 [] [] [] [] .new (by simp) (by simp) (by decide +kernel) (List.Perm.refl _) adds5_ok (by decide)
    (by decide) eA

/-- a reachable partial map forest with an emptied root and `TotalRows ≠ TreeRows` -/
theorem reachB : ReachSer nz mB FB [bdB, bdA] :=
  .modify [] [T.leaf 4] [(0, 4)] [] [4#64] reachA (by decide +kernel) (by decide) (by decide +kernel)
    (by decide +kernel) (by simp) (by simp) (by decide) eB

example : mB.totalRows = 63#8 ∧ TreeRows mB.numLeaves = 3#8 ∧ (mB.getNodeD (encP 63 (0, 4))).hash = zero ∧
    mB.nodes.length = 8 ∧ mB.cached.length = 2 := by decide +kernel

/-- `Write` walks both maps in the REVERSE of the list order -/
def revWalk {H : Type} [DecidableEq H] (m : MapPollard H) : MapSt H :=
  ⟨m.totalRows, m.numLeaves, (toSt m).cached.reverse, (toSt m).nodes.reverse⟩
theorem walk_rev {H : Type} [DecidableEq H] (m : MapPollard H) : Walk m (revWalk m) :=
  ⟨rfl, rfl, List.reverse_perm _, List.reverse_perm _⟩
def wB : MapSt T := revWalk mB
theorem walkB : Walk mB wB := walk_rev mB

/-- the restored instance (receiver: a fresh `NewMapPollard(false)`) -/
def mB' : MapPollard T := restore (MapPollard.new false) wB

/-- it is NOT the written model state (its lists are in stream order) … -/
example : mB'.nodes ≠ mB.nodes ∧ mB'.cached ≠ mB.cached := by decide +kernel

/-- … but it is reachable, satisfies the invariant for the same forest and has the same roots -/
example : ReachSer nz mB' FB [bdB, bdA] ∧ Inv mB' FB ∧ mB'.roots = mB.roots := by
  have r := ReachSer.restore wB (MapPollard.new false) reachB walkB rfl
  obtain ⟨_, _, inv, h, _⟩ := (C09_reach_ser crT.toNZ nz (leafT_nz 9)).1 _ _ _ r
  obtain ⟨_, _, _, h0, _⟩ := (C09_reach_ser crT.toNZ nz (leafT_nz 9)).1 _ _ _ reachB
  exact ⟨r, inv, by rw [h0]; exact h⟩

/-- one more block on both — it deletes the cached leaf 0 and adds leaf 5, which is lifted over the
emptied root — and then `Undo` of that block, on both -/
def ops : List (Op T) :=
  [.modify [⟨T.leaf 5, true⟩] [T.leaf 0] [(0, 0)] [T.leaf 1, T.node (T.leaf 2) (T.leaf 3)] [0#64], .undo]

theorem ops_honest : HonestRun nz ops FB [bdB, bdA] mB := by
  refine ⟨⟨by decide +kernel, by decide, by decide +kernel, by decide +kernel, ?_, by decide, by decide⟩,
    fun m1 _ => ⟨by simp [Op.Honest, Op.after], fun _ _ => trivial⟩⟩
  intro a ha
  simp only [List.mem_cons, List.mem_nil_iff, or_false] at ha
  subst ha
  exact ⟨leafT_nz _, by decide +kernel, leafT_nph _⟩

/-- `map_restored_behaves_identically` instantiated: the run succeeds on the original and on the
restored instance, the results are twins for the same forest (`FB` again, after the `Undo`) and
answer alike -/
example : ∃ mk mk', runOps nz ops FB [bdB, bdA] mB = some mk ∧ runOps nz ops FB [bdB, bdA] mB' = some mk' ∧
    Twin mk mk' FB ∧ mk.roots = FB.roots ∧ mk'.roots = FB.roots ∧
    (∀ x, mk.getLeafPosition x = mk'.getLeafPosition x) := by
  obtain ⟨_, _, h⟩ := map_restored_behaves_identically crT.toNZ nz (leafT_nz 9) reachB wB walkB (MapPollard.new false) rfl
  obtain ⟨mk, mk', h1, h2, t, hroots, hpos, _⟩ := h ops ops_honest
  exact ⟨mk, mk', h1, h2, t, hroots.1, hroots.2, hpos⟩

/-- full forests: `C09_reach_full_ser` / `map_restored_behaves_identically_full` instantiated on the
full forest holding the same five leaves -/
def mF : MapPollard T := (MapPollard.modify adds5 [] [] (MapPollard.new true)).1
theorem eF : MapPollard.modify adds5 [] [] (MapPollard.new true) = (mF, .ok ()) :=
  C09b.Finding.pair_ok _ (by decide +kernel)
theorem reachF : ReachFullSer nz mF FA [bdA] :=
  .modify adds5 [] [] [] [] .new (by simp) (by decide +kernel) (List.Perm.refl _) adds5_ok (by decide)
    (by decide) eF
def wF : MapSt T := revWalk mF
theorem walkF : Walk mF wF := walk_rev mF

example : ∃ mk mk', runOps nz [Op.undo] FA [bdA] mF = some mk ∧
    runOps nz [Op.undo] FA [bdA] (restore (MapPollard.new true) wF) = some mk' ∧
    TwinF mk mk' Forest.empty ∧ mk.roots = mk'.roots := by
  obtain ⟨_, _, h⟩ := map_restored_behaves_identically_full crT.toNZ nz (leafT_nz 9) reachF wF walkF
    (MapPollard.new true) rfl
  obtain ⟨mk, mk', h1, h2, t, hr, _⟩ := h [Op.undo] ⟨by simp [Op.Honest], fun _ _ => trivial⟩
  exact ⟨mk, mk', h1, h2, t, hr⟩

end Example

-- one-byte hashes padded to 32 bytes on the wire (`Props.C13.Example`): the byte-level theorems.
-- (No collision-freeness here: the invariants are established by the executable check.)
namespace ExampleBytes
open Props.C13.Example Example

def addsU : List (Leaf U8) := [⟨1#8, true⟩, ⟨2#8, false⟩, ⟨3#8, true⟩, ⟨4#8, false⟩, ⟨5#8, true⟩]
def FU0 : Forest U8 := ⟨[some 1#8, some 2#8, some 3#8, some 4#8, some 5#8]⟩
/-- five slots, the last one deleted: the tree on row 0 is an emptied root -/
def FU : Forest U8 := FU0.delLeaves [5#8]
def mU0 : MapPollard U8 := (MapPollard.modify addsU [] [] (MapPollard.new false)).1
/-- a partial map forest built by the model's `Modify` (two blocks), `TotalRows = 63 ≠ TreeRows` -/
def mU : MapPollard U8 := (MapPollard.modify [] [5#8] [4#64] mU0).1

theorem mU_inv : Inv mU FU := Props.C09.invCheck_sound (by decide +kernel)
theorem mU_fits : Fits mU := by unfold Fits; decide +kernel

example : mU.totalRows = 63#8 ∧ TreeRows mU.numLeaves = 3#8 ∧ mU.getNode 4#64 = some ⟨0#8, false⟩ ∧
    mU.nodes.length = 8 ∧ mU.full = false := by decide +kernel

/-- the stream `Write` produces when it walks the maps in reverse list order: 433 bytes -/
def bytesU : List Byte := encodeMap (revWalk mU)
example : bytesU.length = 433 := by decide +kernel

/-- **`inv_write_read` instantiated**: the 433 bytes, delivered ONE BYTE PER `Read` CALL with `io.EOF`
on the last one, into a fresh `NewMapPollard(false)`: accepted, and the restored instance satisfies
the invariant for the same forest -/
theorem restoredU : read (MapPollard.new false) ⟨bytesU.map ([·]), true⟩ =
      ⟨433, .ok (restore (MapPollard.new false) (revWalk mU))⟩ ∧
    Inv (restore (MapPollard.new false) (revWalk mU)) FU := by
  obtain ⟨m', h1, h2, _, h4, _⟩ := inv_write_read okU8 mU_inv mU_fits (walk_rev mU) (MapPollard.new false) rfl rfl
    (by decide +kernel) ⟨bytesU.map ([·]), true⟩ (by simp [Reader.data, flatten_singletons, bytesU])
  subst h2
  have hl : (encodeMap (revWalk mU)).length = 433 := by decide +kernel
  rw [hl] at h1
  exact ⟨h1, h4⟩

def mU' : MapPollard U8 := restore (MapPollard.new false) (revWalk mU)

/-- the restored instance is a different model state (stream order) … -/
example : mU'.nodes ≠ mU.nodes := by decide +kernel

/-- … **one more block on both** (it deletes the cached leaf 1 and adds leaf 7, which is lifted over the
emptied root): accepted by both, both results satisfy the invariant for the SAME next forest, the
roots agree (although the two node lists are again in different orders) -/
def FU2 : Forest U8 := FU.modify [1#8] [7#8]
def mU2 : MapPollard U8 := (MapPollard.modify [⟨7#8, true⟩] [1#8] [0#64] mU).1
def mU2' : MapPollard U8 := (MapPollard.modify [⟨7#8, true⟩] [1#8] [0#64] mU').1
example :
    MapPollard.modify [⟨7#8, true⟩] [1#8] [0#64] mU = (mU2, .ok ()) ∧
    MapPollard.modify [⟨7#8, true⟩] [1#8] [0#64] mU' = (mU2', .ok ()) ∧
    Inv mU2 FU2 ∧ Inv mU2' FU2 ∧ mU2.roots = mU2'.roots ∧ mU2.nodes ≠ mU2'.nodes :=
  ⟨C09b.Finding.pair_ok _ (by decide +kernel), C09b.Finding.pair_ok _ (by decide +kernel),
    Props.C09.invCheck_sound (by decide +kernel), Props.C09.invCheck_sound (by decide +kernel),
    by decide +kernel, by decide +kernel⟩

/-- `Full` is not serialised: the same stream restored into a receiver with `Full = true` keeps
`Full = true` over a PARTIAL set of nodes.  (`Inv` does not constrain `Full`, so it still holds; but
the state is neither a partial forest — `SInv` demands `Full = false` — nor a full one — `FInv` demands
every node.)  It behaves differently: `Prune`, which forgets leaf 3 in the original, does nothing; a
leaf added with `Remember = false` is cached.  This is why every restore step above fixes the
receiver's flag to the original's. -/
example :
    let bad := restore (MapPollard.new true) (revWalk mU)
    bad.full = true ∧ bad.nodes.length = 8 ∧ invCheck bad FU = true ∧
    ((MapPollard.prune [3#8] mU).1.hasCached 3#8 = false ∧ (MapPollard.prune [3#8] bad).1.hasCached 3#8 = true) ∧
    ((MapPollard.modify [⟨7#8, false⟩] [1#8] [0#64] mU).1.hasCached 7#8 = false ∧
     (MapPollard.modify [⟨7#8, false⟩] [1#8] [0#64] bad).1.hasCached 7#8 = true) := by
  decide +kernel

/-- **`map_restored_bisim` instantiated** (real bytes, 1-byte chunks): the restored instance and the
original give the same verdicts and the same observations after every call of EVERY sequence of
calls — e.g. a block, a dishonest block (leaf 2 is not cached: refused by both, identically), an
`Undo` with stale data, a `Prune` -/
example : ∃ m', read (MapPollard.new false) ⟨bytesU.map ([·]), true⟩ = ⟨433, .ok m'⟩ ∧
    observe mU = observe m' ∧ ∀ cs : List (Call U8), trace cs mU = trace cs m' := by
  obtain ⟨m', h1, _, _, _, h3, h4⟩ := map_restored_bisim okU8 (inv_sane mU_inv) mU_fits (walk_rev mU)
    (MapPollard.new false) rfl rfl (by decide +kernel) ⟨bytesU.map ([·]), true⟩
    (by simp [Reader.data, flatten_singletons, bytesU])
  have hl : (encodeMap (revWalk mU)).length = 433 := by decide +kernel
  rw [hl] at h1
  exact ⟨m', h1, h3, fun cs => (h4 cs).1⟩

def someCalls : List (Call U8) :=
  [.modify [⟨7#8, true⟩] [1#8] [0#64], .modify [⟨9#8, false⟩] [2#8] [1#64], .undo 1#8 1#64 [0#64] [2#8, 98#8] [1#8] [129#8, 0#8],
   .prune [3#8], .verify [3#8] [2#64] [4#8, 34#8] true]

theorem mU_full : (MapPollard.new false : MapPollard U8).full = mU.full := by decide +kernel
example : trace someCalls mU = trace someCalls mU' :=
  ((restored_bisim (m0 := MapPollard.new false) (walk_rev mU) mU_full).2 someCalls).1

-- the trace is not trivial: the first call succeeds, the second is refused (on both)
example : ((trace someCalls mU).map (fun e => match e.1 with | .ok _ => true | .error _ => false)).take 2 = [true, false] := by
  decide +kernel

/-- OUTSIDE THE PROPERTY (C13 restores into a fresh instance): `Read` does not clear its receiver.
The same 433 bytes read into an instance that held another forest (eight leaves, none remembered:
one stored root) are ACCEPTED — the sanity check passes — and the old root survives next to the new
nodes (`overlay_getNode`): 9 nodes instead of 8, and the storage invariant does not hold -/
def mOld : MapPollard U8 := (MapPollard.modify [⟨11#8, false⟩, ⟨12#8, false⟩, ⟨13#8, false⟩, ⟨14#8, false⟩,
  ⟨15#8, false⟩, ⟨16#8, false⟩, ⟨17#8, false⟩, ⟨18#8, false⟩] [] [] (MapPollard.new false)).1
example : read mOld (Reader.whole bytesU) = ⟨433, .ok (restore mOld (overlay mOld (revWalk mU)))⟩ ∧
    (restore mOld (overlay mOld (revWalk mU))).nodes.length = 9 ∧
    invCheck (restore mOld (overlay mOld (revWalk mU))) FU = false := by
  refine ⟨?_, by decide +kernel, by decide +kernel⟩
  have h := read_into_used okU8 (walk_rev mU) mU_fits mOld (Reader.whole bytesU) (by simp [Reader.whole, Reader.data, bytesU])
  have hs : sanityOk (overlay mOld (revWalk mU)).cached (overlay mOld (revWalk mU)).nodes = true := by decide +kernel
  have hl : (encodeMap (revWalk mU)).length = 433 := by decide +kernel
  rw [if_pos hs, hl] at h
  exact h

end ExampleBytes

end UtreexoVerif.Props.C13Map

section Axioms
open UtreexoVerif.Props.C13Map UtreexoVerif.Proofs.SerialMapInv
#print axioms Inv_congr
#print axioms SInv_congr
#print axioms FInv_congr
#print axioms read_write
#print axioms restore_equiv
#print axioms inv_write_read
#print axioms finv_write_read
#print axioms C09_reach_ser
#print axioms C09_reach_full_ser
#print axioms lookups_reach_ser
#print axioms lookups_reach_full_ser
#print axioms twin_queries
#print axioms twin_step
#print axioms lockstep
#print axioms map_restored_behaves_identically
#print axioms map_restored_behaves_identically_full
#print axioms restored_bisim
#print axioms map_restored_bisim
#print axioms map_restored_bisim_bytes32
#print axioms UtreexoVerif.Proofs.MapSim.sim_call
#print axioms UtreexoVerif.Proofs.MapSim.trace_equiv
#print axioms UtreexoVerif.Proofs.MapSim.observe_equiv
end Axioms
