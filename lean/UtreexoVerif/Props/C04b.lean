/-
  C04b — totality of `MapPollard.VerifyPartialProof` and of `MapPollard.Verify` with
  `remember = true` (`ingest` after an accepted proof).

  * `mapVerifyPartialProof_total`  — the functional model of `VerifyPartialProof` never answers
    `panic`/`hang`, for arbitrary targets, hashes, proof hashes, stored hashes and `TotalRows`,
    for every leaf count `≤ 2^63`;
  * `verifyPartialProof_false_total` / `verifyM_false_total` — the same for the state machine
    without `remember`, and the state is left untouched;
  * `proofPositions_fuel` — the fuel of the `ProofPositions` model inside these calls is never
    what ends its loops;
  * `ingest_ok` — **`ingest` after an accepted proof returns `nil`**: the index
    `proof.Proof[i]`, `i < len(proofPos)`, is in range because an accepted proof has at least
    `len(ProofPositions(targets))` hashes (`Proofs/IngestBound.lean`), for `TotalRows = TreeRows`
    and for `TotalRows > TreeRows` (where `ProofPositions` is run in `TotalRows` coordinates on
    the re-translated targets, and possibly trimmed);
  * `verifyM_total`, `verifyPartialProof_total` — hence `Verify`/`VerifyPartialProof` with any
    `remember` never panic or hang, in ANY state with `TreeRows ≤ TotalRows ≤ 63` and at most
    `2^63` leaves (no hypothesis on stored hashes, roots, claimed hashes or the hash function);
    `verifyM_total_inv`, `verifyPartialProof_total_inv`: in particular in every state satisfying
    the storage invariant `Inv m F`.
-/
import UtreexoVerif.Props.C03c
import UtreexoVerif.Props.C04
import UtreexoVerif.Proofs.IngestBound

namespace UtreexoVerif.Props.C04b
open UtreexoVerif Model Hasher Spec Spec.Forest GoInt
open UtreexoVerif.Proofs UtreexoVerif.Proofs.SpecNodes UtreexoVerif.Proofs.SpecView
open UtreexoVerif.Props.C04 UtreexoVerif.Props.C03c

/-- "neither panics nor hangs" for the result type of the state machine -/
def TotalE {α : Type} (e : Except Fail α) : Prop := e ≠ .error .panic ∧ e ≠ .error .hang

section
set_option linter.unusedSectionVars false
variable {H : Type} [DecidableEq H] [Hasher H]

theorem totalE_toExcept {α : Type} {o : Out α} (h : Total o) : TotalE (toExcept o) := by
  cases o with
  | ok a => exact ⟨by simp [toExcept], by simp [toExcept]⟩
  | err => exact ⟨by simp [toExcept], by simp [toExcept]⟩
  | panic => exact absurd rfl h.2
  | hang => exact absurd rfl h.1

/-! ### `VerifyPartialProof`, functional model -/

/-- **`VerifyPartialProof` is total**: arbitrary targets (any values, multiplicities, order),
hashes, proof hashes, stored hashes, `TotalRows`; any leaf count up to `2^63`. -/
theorem mapVerifyPartialProof_total (n : U64) (hn : n.toNat ≤ 2 ^ 63) (totalRows : U8)
    (get : U64 → Option H) (ts : List U64) (hs ps : List H) :
    Total (mapVerifyPartialProof n totalRows get ts hs ps) := by
  rw [mapVerifyPartialProof_eq]
  rcases partialProofHashes_total get (partialPositions n totalRows ts) ps with ⟨l, hl⟩ | hl
  · rw [hl]
    simp only [Out.bind]
    have := mapVerify_total_uncond n totalRows hn (mapGetRoots n totalRows get) hs ts l
    generalize mapVerify n totalRows (mapGetRoots n totalRows get) hs ts l = v at this
    cases v with
    | ok a => exact Proofs.CalcTotal.total_ok _
    | err => exact Proofs.CalcTotal.total_err
    | panic => exact absurd rfl this.2
    | hang => exact absurd rfl this.1
  · rw [hl]
    exact Proofs.CalcTotal.total_err

/-- the `ProofPositions` call inside `VerifyPartialProof` / `GetMissingPositions` runs on
`TreeRows + 1` units of fuel for the outer loop; one more unit changes nothing, so it is the
loop condition `row <= totalRows` that ends it (the inner loop: `ProofOps.ppInner_fuel`) -/
theorem proofPositions_fuel (n : U64) (ts : List U64) :
    ppOuter n (TreeRows n) ((TreeRows n).toNat + 1) 0#8 { targets := ts, next := [], proofs := [] } =
      ppOuter n (TreeRows n) ((TreeRows n).toNat + 2) 0#8 { targets := ts, next := [], proofs := [] } :=
  ProofOps.ppOuter_fuel n (TreeRows n) (by have := Proofs.CalcTotal.treeRows_le_64 n; omega) _ _ _
    (by simp)

/-! ### the state machine without `remember` -/

/-- `Verify(…, remember=false)`: total, state unchanged -/
theorem verifyM_false_total (m : MapPollard H) (hn : m.numLeaves.toNat ≤ 2 ^ 63)
    (hs : List H) (ts : List U64) (ps : List H) :
    TotalE (MapPollard.verifyM hs ts ps false m).2 ∧ (MapPollard.verifyM hs ts ps false m).1 = m := by
  rw [verifyM_false]
  refine ⟨totalE_toExcept ?_, rfl⟩
  have := mapVerify_total_uncond m.numLeaves m.totalRows hn m.getRoots.1 hs ts ps
  generalize mapVerify m.numLeaves m.totalRows m.getRoots.1 hs ts ps = v at this
  cases v with
  | ok a => exact Proofs.CalcTotal.total_ok _
  | err => exact Proofs.CalcTotal.total_err
  | panic => exact absurd rfl this.2
  | hang => exact absurd rfl this.1

/-- `VerifyPartialProof(…, remember=false)`: total, state unchanged -/
theorem verifyPartialProof_false_total (m : MapPollard H) (hn : m.numLeaves.toNat ≤ 2 ^ 63)
    (ts : List U64) (hs ps : List H) :
    TotalE (MapPollard.verifyPartialProof ts hs ps false m).2 ∧
      (MapPollard.verifyPartialProof ts hs ps false m).1 = m := by
  rw [verifyPartialProof_false]
  exact ⟨totalE_toExcept (mapVerifyPartialProof_total _ hn _ _ _ _ _), rfl⟩

/-! ### `ingest` after an accepted proof -/

/-- the store loop of `ingest` never indexes `proof.Proof` out of range when the proof is at
least as long as the list of proof positions -/
theorem store_ok (ps : List H) : ∀ (l : List U64) (i : Nat) (m : MapPollard H),
    i + l.length ≤ ps.length →
    ∃ m', MapPollard.ingest.store ps l i m = (m', .ok ()) ∧ m'.numLeaves = m.numLeaves ∧
      m'.totalRows = m.totalRows := by
  intro l
  induction l with
  | nil => intro i m _; exact ⟨m, rfl, rfl, rfl⟩
  | cons pos l ih =>
    intro i m hle
    simp only [List.length_cons] at hle
    unfold MapPollard.ingest.store
    split
    · exact ih (i + 1) m (by omega)
    · have : i < ps.length := by omega
      rw [List.getElem?_eq_getElem this]
      simp only
      obtain ⟨m', h1, h2, h3⟩ := ih (i + 1) (m.putNode pos ⟨ps[i], m.full⟩) (by omega)
      exact ⟨m', h1, h2, h3⟩

/-- the targets re-translated to `TotalRows` coordinates and sorted again -/
theorem hnpPos_eq {rows T : Nat} (hrows : rows ≤ T) (hT : T ≤ 63) {Tg : List Pos}
    (hsorted : SSorted Tg) (hvalid : ∀ q ∈ Tg, ValidH rows q) :
    (if H8 T ≠ H8 rows then sortU64 (translatePositions (Tg.map (encP rows)) (H8 rows) (H8 T))
      else Tg.map (encP rows)) = Tg.map (encP T) := by
  have hvT : ∀ q ∈ Tg, ValidH T q := fun q hq =>
    ⟨Nat.le_trans (hvalid q hq).1 hrows,
      Nat.lt_of_lt_of_le (hvalid q hq).2 (two_pow_le_of_le (by omega))⟩
  split
  · have : translatePositions (Tg.map (encP rows)) (H8 rows) (H8 T) = Tg.map (encP T) := by
      unfold translatePositions
      rw [List.map_map]
      apply List.map_congr_left
      intro q hq
      exact Props.C16.translatePos_enc (by omega) (hvalid q hq).1 (hvalid q hq).2 hT (hvT q hq).1
        (hvT q hq).2
    rw [this, sortU64_encP hT Tg hvT, sortPos_of_ssorted hsorted]
  · rename_i h
    have h' : H8 T = H8 rows := by simpa using h
    have : T = rows := by
      have := congrArg BitVec.toNat h'
      rwa [toNat_H8 hT, toNat_H8 (by omega)] at this
    rw [this]

theorem trimmed_length_le (pp : List U64) (a b : U8) (n : U64) (c : Bool) :
    (if c = true then
        translatePositions (MapPollard.trimProofPos (translatePositions pp a b) n) b a
      else pp).length ≤ pp.length := by
  split
  · unfold translatePositions MapPollard.trimProofPos
    rw [List.length_map]
    refine Nat.le_trans (List.takeWhile_sublist _).length_le ?_
    rw [List.length_map]
    exact Nat.le_refl _
  · exact Nat.le_refl _

/-- **`ingest` after an accepted proof returns `nil`** (in particular `proof.Proof[i]` is in
range for every `i < len(proofPos)`) — in ANY state with `TreeRows ≤ TotalRows ≤ 63` and at most
`2^63` leaves: no hypothesis on the stored hashes, the roots, the claimed hashes or the hash
function.  `ts` are the targets as `verify` hands them to `ingest`, i.e. in `TreeRows`
coordinates. -/
theorem ingest_ok {m : MapPollard H} (hn : m.numLeaves.toNat ≤ 2 ^ 63)
    (hrows : (TreeRows m.numLeaves).toNat ≤ m.totalRows.toNat)
    (htot : m.totalRows.toNat ≤ 63) {hs : List H} {ts : List U64} {ps : List H} {idx : List Nat}
    (hv : verify m.numLeaves m.getRoots.1 hs ts ps = .ok idx) :
    ∃ m', MapPollard.ingest hs ts ps m = (m', .ok ()) := by
  obtain ⟨n, hnum⟩ : ∃ n, n = m.numLeaves.toNat := ⟨_, rfl⟩
  have hN : BitVec.ofNat 64 n = m.numLeaves := by rw [hnum]; simp
  rw [← hnum] at hn
  have htr : TreeRows m.numLeaves = H8 (forestRows n) := by
    rw [← hN]; exact CalcGeo.treeRows_eq' hn
  have hrows63 : forestRows n ≤ 63 := CalcGeo.rows_le_63 hn
  rw [htr, toNat_H8 hrows63] at hrows
  have hv' := hv
  rw [← hN] at hv'
  obtain ⟨Tg, hyp, hsort, hlen⟩ := IngestBound.accepted_targets hn hv'
  -- `verify` accepted, so the lengths agree and `calculateHashes` succeeds
  have hlens : ts.length = hs.length := by
    unfold verify at hv
    split at hv
    · simp at hv
    · rename_i h; have : hs.length = ts.length := by simpa using h
      exact this.symm
  obtain ⟨r, hcalc⟩ : ∃ r, calculateHashes m.numLeaves (some hs) ts ps = .ok r := by
    unfold verify at hv
    split at hv
    · simp at hv
    · simp only [bind] at hv
      rw [Proofs.CalcSound.bind_eq_ok] at hv
      obtain ⟨r, hr, _⟩ := hv
      exact ⟨r, hr⟩
  have hvalid : ∀ q ∈ Tg, ValidH (forestRows n) q := by
    intro q hq
    obtain ⟨R, hb⟩ := hyp.inForest q hq
    have := belowRoot_valid (le_two_pow_forestRows n) hb
    exact ⟨this.2.1, this.2.2⟩
  unfold MapPollard.ingest
  simp only
  have hthp : toHashAndPos ts hs = .ok (sortHP (ts.zip hs)) := by
    unfold toHashAndPos; rw [if_pos hlens]
  rw [hthp]
  simp only
  have hpos : (sortHP (ts.zip hs)).positions = Tg.map (encP (forestRows n)) := by
    rw [ProofOps.sortHP_positions, ProofOps.zip_positions ts hs hlens, hsort]
  have hnp := hnpPos_eq hrows htot hyp.sorted hvalid
  rw [← MapInv.totalRows_eq_H8 m] at hnp
  rw [hpos, htr, hnp]
  have hpp := IngestBound.proofPositions_any hn hyp hrows htot
  rw [← MapInv.totalRows_eq_H8 m, hN] at hpp
  rw [hpp]
  simp only
  generalize hfin : (if (decide (H8 (forestRows n) ≠ m.totalRows) &&
      decide ((List.map (encP m.totalRows.toNat) (refPP n m.totalRows.toNat Tg).1).length ≠ ps.length)) = true then
      translatePositions (MapPollard.trimProofPos
        (translatePositions (List.map (encP m.totalRows.toNat) (refPP n m.totalRows.toNat Tg).1) m.totalRows
          (H8 (forestRows n)))
        m.numLeaves) (H8 (forestRows n)) m.totalRows
      else List.map (encP m.totalRows.toNat) (refPP n m.totalRows.toNat Tg).1) = proofPos
  have hle : proofPos.length ≤ ps.length := by
    rw [← hfin]
    refine Nat.le_trans (trimmed_length_le _ _ _ _ _) ?_
    rw [List.length_map]
    exact hlen _ hrows
  obtain ⟨m1, hstore, hn1, _⟩ := store_ok ps proofPos 0 m (by omega)
  rw [hstore]
  simp only
  rw [hn1, hcalc]
  exact ⟨_, rfl⟩

/-! ### `Verify` / `VerifyPartialProof` with any `remember` -/

/-- **`MapPollard.Verify(delHashes, proof, remember)` never panics or hangs**, in any state with
`TreeRows ≤ TotalRows ≤ 63` and at most `2^63` leaves, for arbitrary input; and it returns `nil`
exactly when the proof is accepted (the error of `ingest` is dropped in Go; there is none) -/
theorem verifyM_total {m : MapPollard H} (hn : m.numLeaves.toNat ≤ 2 ^ 63)
    (hrows : (TreeRows m.numLeaves).toNat ≤ m.totalRows.toNat)
    (htot : m.totalRows.toNat ≤ 63) (hs : List H) (ts : List U64) (ps : List H) (remember : Bool) :
    TotalE (MapPollard.verifyM hs ts ps remember m).2 ∧
      ((MapPollard.verifyM hs ts ps remember m).2 = .ok () ↔
        ∃ idx, mapVerify m.numLeaves m.totalRows m.getRoots.1 hs ts ps = .ok idx) := by
  have htotal := mapVerify_total_uncond m.numLeaves m.totalRows hn m.getRoots.1 hs ts ps
  unfold mapVerify at htotal ⊢
  unfold MapPollard.verifyM
  simp only at htotal ⊢
  generalize hts' : (if TreeRows m.numLeaves ≠ m.totalRows then
    translatePositions ts m.totalRows (TreeRows m.numLeaves) else ts) = ts' at htotal ⊢
  cases hv : verify m.numLeaves m.getRoots.1 hs ts' ps with
  | ok idx =>
    simp only
    cases remember with
    | false => exact ⟨⟨by simp, by simp⟩, by simp⟩
    | true =>
      obtain ⟨m', hm'⟩ := ingest_ok hn hrows htot hv
      simp only [if_true, hm']
      exact ⟨⟨by simp, by simp⟩, by simp⟩
  | err => exact ⟨⟨by simp, by simp⟩, by simp⟩
  | panic => rw [hv] at htotal; exact absurd rfl htotal.2
  | hang => rw [hv] at htotal; exact absurd rfl htotal.1

/-- **`MapPollard.VerifyPartialProof(targets, hashes, proofHashes, remember)` never panics or
hangs**, for arbitrary input and arbitrary stored hashes -/
theorem verifyPartialProof_total {m : MapPollard H} (hn : m.numLeaves.toNat ≤ 2 ^ 63)
    (hrows : (TreeRows m.numLeaves).toNat ≤ m.totalRows.toNat)
    (htot : m.totalRows.toNat ≤ 63) (ts : List U64) (hs ps : List H) (remember : Bool) :
    TotalE (MapPollard.verifyPartialProof ts hs ps remember m).2 := by
  unfold MapPollard.verifyPartialProof
  simp only
  rw [show (if TreeRows m.numLeaves ≠ m.totalRows then
        translatePositions (ProofPositions (sortU64 ts) m.numLeaves (TreeRows m.numLeaves)).1
          (TreeRows m.numLeaves) m.totalRows
      else (ProofPositions (sortU64 ts) m.numLeaves (TreeRows m.numLeaves)).1) =
      partialPositions m.numLeaves m.totalRows ts from rfl, merge_eq]
  rcases partialProofHashes_total (storedHash m) (partialPositions m.numLeaves m.totalRows ts) ps with
    ⟨l, hl⟩ | hl
  · rw [hl]
    simp only [List.nil_append]
    exact (verifyM_total hn hrows htot hs ts l remember).1
  · rw [hl]
    exact ⟨by simp, by simp⟩

/-- **the two models of `VerifyPartialProof` agree on the verdict for every `remember`**
(for `remember = false` they agree on everything: `C03c.verifyPartialProof_false`) -/
theorem verifyPartialProof_verdict {m : MapPollard H} (hn : m.numLeaves.toNat ≤ 2 ^ 63)
    (hrows : (TreeRows m.numLeaves).toNat ≤ m.totalRows.toNat)
    (htot : m.totalRows.toNat ≤ 63) (ts : List U64) (hs ps : List H) (remember : Bool) :
    (MapPollard.verifyPartialProof ts hs ps remember m).2 = .ok () ↔
      mapVerifyPartialProof m.numLeaves m.totalRows (storedHash m) ts hs ps = .ok () := by
  constructor
  · exact verifyPartialProof_ok
  · intro h
    rw [mapVerifyPartialProof_eq, Proofs.CalcSound.bind_eq_ok] at h
    obtain ⟨all, hall, h⟩ := h
    rw [Proofs.CalcSound.bind_eq_ok] at h
    obtain ⟨idx, hidx, _⟩ := h
    unfold MapPollard.verifyPartialProof
    simp only
    rw [show (if TreeRows m.numLeaves ≠ m.totalRows then
          translatePositions (ProofPositions (sortU64 ts) m.numLeaves (TreeRows m.numLeaves)).1
            (TreeRows m.numLeaves) m.totalRows
        else (ProofPositions (sortU64 ts) m.numLeaves (TreeRows m.numLeaves)).1) =
        partialPositions m.numLeaves m.totalRows ts from rfl, merge_eq, hall]
    simp only [List.nil_append]
    rw [← getRoots_eq] at hidx
    exact (verifyM_total hn hrows htot hs ts all remember).2.2 ⟨idx, hidx⟩

open UtreexoVerif.Proofs.MapInv in
/-- the row hypotheses hold in every state satisfying the storage invariant -/
theorem inv_rows {m : MapPollard H} {F : Forest H} (inv : Inv m F) :
    m.numLeaves.toNat ≤ 2 ^ 63 ∧ (TreeRows m.numLeaves).toNat ≤ m.totalRows.toNat ∧
      m.totalRows.toNat ≤ 63 := by
  have h1 := inv.n_lt
  refine ⟨by rw [inv.n_eq, toNat_ofNat64_of_lt (by omega)]; omega, ?_, inv.total_le⟩
  rw [treeRows_numLeaves inv, toNat_H8 (rows_le_63 inv)]
  exact inv.rows_le

open UtreexoVerif.Proofs.MapInv in
theorem verifyM_total_inv {m : MapPollard H} {F : Forest H} (inv : Inv m F)
    (hs : List H) (ts : List U64) (ps : List H) (remember : Bool) :
    TotalE (MapPollard.verifyM hs ts ps remember m).2 :=
  (verifyM_total (inv_rows inv).1 (inv_rows inv).2.1 (inv_rows inv).2.2 hs ts ps remember).1

open UtreexoVerif.Proofs.MapInv in
theorem verifyPartialProof_total_inv {m : MapPollard H} {F : Forest H} (inv : Inv m F)
    (ts : List U64) (hs ps : List H) (remember : Bool) :
    TotalE (MapPollard.verifyPartialProof ts hs ps remember m).2 :=
  verifyPartialProof_total (inv_rows inv).1 (inv_rows inv).2.1 (inv_rows inv).2.2 ts hs ps remember

end

/-! ### non-vacuity -/

namespace Example
open C03.Example C03c.Finding

/-- arbitrary rubbish: targets up to `2^64-1`, duplicates, wrong lengths, `TotalRows` 200 -/
example : Total (mapVerifyPartialProof (H := T) 4#64 200#8 (fun _ => some (T.leaf 9))
    [BitVec.allOnes 64, 0#64, 0#64, 7#64] [T.leaf 1] [T.leaf 2, T.z]) :=
  mapVerifyPartialProof_total _ (by decide) _ _ _ _ _

example : mapVerifyPartialProof (H := T) 4#64 200#8 (fun _ => some (T.leaf 9))
    [BitVec.allOnes 64, 0#64, 0#64, 7#64] [T.leaf 1] [T.leaf 2, T.z] = .err := by decide +kernel

/-- the state of `C03c.Finding` (4 leaves, `TotalRows = 3`, root and position 9 stored) satisfies
the hypotheses of `ingest_ok` / `verifyM_total` -/
theorem st_hyps (h9 : T) : (st h9).numLeaves.toNat ≤ 2 ^ 63 ∧
    (TreeRows (st h9).numLeaves).toNat ≤ (st h9).totalRows.toNat ∧ (st h9).totalRows.toNat ≤ 63 := by
  show (4#64 : U64).toNat ≤ 2 ^ 63 ∧ (TreeRows 4#64).toNat ≤ (3#8 : U8).toNat ∧ (3#8 : U8).toNat ≤ 63
  refine ⟨?_, ?_, ?_⟩ <;> decide

/-- an accepted full proof of leaf 0 (`TotalRows = 3 ≠ TreeRows = 2`) … -/
theorem accepted0 :
    verify (st h5).numLeaves (st h5).getRoots.1 [T.leaf 0] [0#64] [T.leaf 1, h5] = .ok [0] := by
  decide +kernel

/-- … `ingest_ok` applies … -/
example : ∃ m', MapPollard.ingest [T.leaf 0] [0#64] [T.leaf 1, h5] (st h5) = (m', .ok ()) :=
  ingest_ok (st_hyps h5).1 (st_hyps h5).2.1 (st_hyps h5).2.2 accepted0

/-- … and indeed `Verify(remember=true)` returns `nil`, having stored leaf 0 and its proof -/
example : isOkE (MapPollard.verifyM [T.leaf 0] [0#64] [T.leaf 1, h5] true (st h5)).2 = true ∧
    ((MapPollard.verifyM [T.leaf 0] [0#64] [T.leaf 1, h5] true (st h5)).1.hasNode 0#64 &&
     (MapPollard.verifyM [T.leaf 0] [0#64] [T.leaf 1, h5] true (st h5)).1.hasNode 1#64 &&
     (MapPollard.verifyM [T.leaf 0] [0#64] [T.leaf 1, h5] true (st h5)).1.hasNode 8#64) = true := by
  decide +kernel

/-- a proof with a surplus hash is accepted too (`Verify` does not require the proof to be used
up); then `len(proofPos) ≠ len(proof.Proof)` and `ingest` takes the trimming branch -/
theorem accepted_surplus :
    verify (st h5).numLeaves (st h5).getRoots.1 [T.leaf 0] [0#64] [T.leaf 1, h5, T.leaf 99] = .ok [0] := by
  decide +kernel

example : ∃ m', MapPollard.ingest [T.leaf 0] [0#64] [T.leaf 1, h5, T.leaf 99] (st h5) = (m', .ok ()) :=
  ingest_ok (st_hyps h5).1 (st_hyps h5).2.1 (st_hyps h5).2.2 accepted_surplus

/-- a proof that is too short is rejected, so `ingest` is never reached -/
example : isErrE (MapPollard.verifyM [T.leaf 0] [0#64] [T.leaf 1] true (st h5)).2 = true := by
  decide +kernel

/-- `verifyM_total` / `verifyPartialProof_total` on that state — whatever is stored at position 9,
whatever the input -/
example (h9 : T) (hs : List T) (ts : List U64) (ps : List T) (remember : Bool) :
    TotalE (MapPollard.verifyM hs ts ps remember (st h9)).2 :=
  (verifyM_total (st_hyps h9).1 (st_hyps h9).2.1 (st_hyps h9).2.2 hs ts ps remember).1

example (h9 : T) (hs : List T) (ts : List U64) (ps : List T) (remember : Bool) :
    TotalE (MapPollard.verifyPartialProof ts hs ps remember (st h9)).2 :=
  verifyPartialProof_total (st_hyps h9).1 (st_hyps h9).2.1 (st_hyps h9).2.2 ts hs ps remember

/-- `VerifyPartialProof(…, remember=true)` with the stored hash of position 9 and the supplied
hash of position 1: accepted and ingested -/
example : isOkE (MapPollard.verifyPartialProof [0#64] [T.leaf 0] [T.leaf 1] true (st h5)).2 = true ∧
    (MapPollard.verifyPartialProof [0#64] [T.leaf 0] [T.leaf 1] true (st h5)).1.hasNode 1#64 = true := by
  decide +kernel

/-- the same with `TotalRows = TreeRows = 2` -/
def st2 : MapPollard T :=
  { nodes := [(6#64, ⟨T.node h4 h5, false⟩)], cached := [], numLeaves := 4#64, totalRows := 2#8,
    full := false }

theorem st2_hyps : st2.numLeaves.toNat ≤ 2 ^ 63 ∧
    (TreeRows st2.numLeaves).toNat ≤ st2.totalRows.toNat ∧ st2.totalRows.toNat ≤ 63 := by
  refine ⟨?_, ?_, ?_⟩ <;> decide

theorem accepted2 :
    verify st2.numLeaves st2.getRoots.1 [T.leaf 0, T.leaf 3] [0#64, 3#64]
      [T.leaf 1, T.leaf 2] = .ok [0] := by
  decide +kernel

example : ∃ m', MapPollard.ingest [T.leaf 0, T.leaf 3] [0#64, 3#64] [T.leaf 1, T.leaf 2] st2 = (m', .ok ()) :=
  ingest_ok st2_hyps.1 st2_hyps.2.1 st2_hyps.2.2 accepted2

/-- `accepted_targets` on that run: the targets are the leaves `(0,0)` and `(0,3)`, whose
canonical proof has two positions -/
example : ∃ Tg : List Pos, Proofs.PPHyp 4 Tg ∧
    sortU64 [0#64, 3#64] = Tg.map (Proofs.encP (forestRows 4)) ∧
    ∀ T', forestRows 4 ≤ T' → (Proofs.refPP 4 T' Tg).1.length ≤ 2 :=
  Proofs.IngestBound.accepted_targets (n := 4) (by decide)
    (show verify (BitVec.ofNat 64 4) F.roots [T.leaf 0, T.leaf 3] [0#64, 3#64]
      [T.leaf 1, T.leaf 2] = .ok [0] from by decide +kernel)

example : (Proofs.refPP 4 2 [(0, 0), (0, 3)]).1 = [(0, 1), (0, 2)] ∧
    (Proofs.refPP 4 3 [(0, 0), (0, 3)]).1 = [(0, 1), (0, 2)] ∧
    F.proofPositions [(0, 0), (0, 3)] = [(0, 1), (0, 2)] := by decide +kernel

/-- duplicate targets are never accepted (they would make `ProofPositions` longer than the
number of hashes `calculateHashes` uses) -/
example : verify (H := T) (BitVec.ofNat 64 F.numLeaves) F.roots [T.leaf 0, T.leaf 0] [0#64, 0#64]
    [T.leaf 1, T.leaf 1, h5, h5] = .err := by decide +kernel

end Example

end UtreexoVerif.Props.C04b
