/-
  C01.3 / C05 (Stump) — `Stump.del` and `Stump.Update` refine the specification.

  * `stump_del_refines`: from the stump of `F`, `Stump.del` fed the canonical proof of `L` ends in
    the stump of `F.delLeaves L` (any request order, any hashes appended to the proof);
  * `stump_del_order_independent`: two encodings of the same deletion (the same leaves in another
    order, other appended hashes) end in the same stump;
  * `stump_update_refines`: together with a refinement of `Stump.add` (a hypothesis here — it is
    proved elsewhere), `Stump.Update` ends in the stump of `F.modify L adds`.
-/
import UtreexoVerif.Props.C11del

namespace UtreexoVerif.Props.C01b
open UtreexoVerif Spec Model Hasher
open UtreexoVerif.Proofs UtreexoVerif.Proofs.SpecNodes UtreexoVerif.Proofs.CalcGeo
open UtreexoVerif.Proofs.CalcComplete UtreexoVerif.Proofs.SpecPlan
open UtreexoVerif.Props.C11del

section
set_option linter.unusedSectionVars false
variable {H : Type} [DecidableEq H] [Hasher H]

/-- the stump of a specification forest -/
def stumpOf (F : Forest H) : Stump H := ⟨F.roots, BitVec.ofNat 64 F.numLeaves⟩

/-- the standing hypotheses on a forest -/
structure ForestOK (F : Forest H) : Prop where
  small : F.numLeaves ≤ 2 ^ 63
  ph_nonzero : ∀ a b : H, ph a b ≠ (zero : H)
  live_nonzero : ∀ l ∈ F.liveLeaves, l ≠ (zero : H)
  live_nodup : F.liveLeaves.Nodup

/-- **`Stump.del` refines `Forest.delLeaves`** (C01.3 for deletions) -/
theorem stump_del_refines {F : Forest H} (ok : ForestOK F) {L : List H} {targets : List Pos}
    {proofHashes : List H} (junk : List H) (hL : L.Nodup)
    (hc : F.canon L = some (targets, proofHashes)) :
    Stump.delSt (stumpOf F) L (targets.map (fun p => encU F.rows p.1 p.2)) (proofHashes ++ junk) =
      (⟨(F.delLeaves L).roots, BitVec.ofNat 64 F.numLeaves⟩, .ok (newDelSpec F L targets)) :=
  stump_newDel F ok.small ok.ph_nonzero ok.live_nonzero ok.live_nodup L targets proofHashes junk
    hL hc

theorem stumpOf_delLeaves (F : Forest H) (L : List H) :
    stumpOf (F.delLeaves L) = ⟨(F.delLeaves L).roots, BitVec.ofNat 64 F.numLeaves⟩ := by
  unfold stumpOf
  rw [delLeaves_numLeaves]

/-- deleting the same set of leaves gives the same forest -/
theorem delLeaves_congr (F : Forest H) {L L' : List H} (h : ∀ l, l ∈ L' ↔ l ∈ L) :
    F.delLeaves L' = F.delLeaves L := by
  unfold Forest.delLeaves
  congr 1
  apply List.map_congr_left
  intro s _
  cases s with
  | none => rfl
  | some x =>
    by_cases hx : x ∈ L
    · simp [hx, (h x).2 hx]
    · have : x ∉ L' := fun h' => hx ((h x).1 h')
      simp [hx, this]

/-- **C05 for `Stump`, deletions**: the same leaves requested in another order, with other
hashes appended to the proof, leave the same stump behind -/
theorem stump_del_order_independent {F : Forest H} (ok : ForestOK F) {L L' : List H}
    {targets : List Pos} {proofHashes : List H} (junk junk' : List H) (hL : L.Nodup)
    (hL' : L'.Nodup) (hp : ∀ l, l ∈ L' ↔ l ∈ L) (hc : F.canon L = some (targets, proofHashes)) :
    ∃ targets', F.canon L' = some (targets', proofHashes) ∧
      (Stump.delSt (stumpOf F) L' (targets'.map (fun p => encU F.rows p.1 p.2))
        (proofHashes ++ junk')).1 =
      (Stump.delSt (stumpOf F) L (targets.map (fun p => encU F.rows p.1 p.2))
        (proofHashes ++ junk)).1 := by
  have hc' := C02.canon_perm hp hc
  refine ⟨_, hc', ?_⟩
  rw [stump_del_refines ok junk' hL' hc', stump_del_refines ok junk hL hc, delLeaves_congr F hp]

/-! ### `Stump.Update` -/

/-- what is assumed about `Stump.add` (proved elsewhere): from the stump of a forest `G`,
adding `adds` ends in the stump of `G.addMany adds` -/
def AddRefinesAt (nonZero : H) (G : Forest H) (adds : List H) : Prop :=
  ∃ r, Stump.add nonZero (stumpOf G) adds = .ok r ∧ r.1 = stumpOf (G.addMany adds)

/-- **`Stump.Update` refines `Forest.modify`**, given the refinement of `Stump.add` on the forest
after the deletions: the new stump is the stump of `F.modify L adds`, `NewDel` is as specified
and `PrevNumLeaves` is the old leaf count. -/
theorem stump_update_refines {F : Forest H} (ok : ForestOK F) {L : List H} {targets : List Pos}
    {proofHashes : List H} (junk : List H) (hL : L.Nodup)
    (hc : F.canon L = some (targets, proofHashes)) (nonZero : H) (adds : List H)
    (hadd : AddRefinesAt nonZero (F.delLeaves L) adds) :
    ∃ ud : UpdateData H,
      Stump.update nonZero (stumpOf F) L adds (targets.map (fun p => encU F.rows p.1 p.2))
        (proofHashes ++ junk) = .ok (stumpOf (F.modify L adds), ud) ∧
      ud.newDel = newDelSpec F L targets ∧
      ud.prevNumLeaves = BitVec.ofNat 64 F.numLeaves := by
  obtain ⟨r, hr, hr1⟩ := hadd
  rw [stumpOf_delLeaves] at hr
  refine ⟨{ toDestroy := r.2.2, prevNumLeaves := BitVec.ofNat 64 F.numLeaves,
            newDel := newDelSpec F L targets, newAdd := r.2.1 }, ?_, rfl, rfl⟩
  unfold Stump.update Stump.updateSt
  rw [stump_del_refines ok junk hL hc]
  simp only [hr]
  rw [hr1]
  rfl

/-- **`Stump.Update` refines `Forest.modify`, full statement** (the add refinement is a
hypothesis, so this file does not depend on its proof) -/
def stump_update_statement (H : Type) [DecidableEq H] [Hasher H] : Prop :=
  ∀ (F : Forest H), ForestOK F →
  ∀ (L : List H) (targets : List Pos) (proofHashes junk : List H), L.Nodup →
    F.canon L = some (targets, proofHashes) →
  ∀ (nonZero : H) (adds : List H), AddRefinesAt nonZero (F.delLeaves L) adds →
    ∃ ud : UpdateData H,
      Stump.update nonZero (stumpOf F) L adds (targets.map (fun p => encU F.rows p.1 p.2))
        (proofHashes ++ junk) = .ok (stumpOf (F.modify L adds), ud) ∧
      ud.newDel = newDelSpec F L targets ∧
      ud.prevNumLeaves = BitVec.ofNat 64 F.numLeaves

theorem stump_update_full : stump_update_statement H :=
  fun _ ok _ _ _ junk hL hc nonZero adds hadd =>
    stump_update_refines ok junk hL hc nonZero adds hadd

/-- the same with the add refinement as a general hypothesis over all forests satisfying a side
condition `C` (whatever the add theorem needs) -/
theorem stump_update_refines' (nonZero : H) (C : Forest H → List H → Prop)
    (hadd : ∀ (G : Forest H) (adds : List H), C G adds → AddRefinesAt nonZero G adds)
    {F : Forest H} (ok : ForestOK F) {L : List H} {targets : List Pos}
    {proofHashes : List H} (junk : List H) (hL : L.Nodup)
    (hc : F.canon L = some (targets, proofHashes)) (adds : List H) (hC : C (F.delLeaves L) adds) :
    ∃ ud : UpdateData H,
      Stump.update nonZero (stumpOf F) L adds (targets.map (fun p => encU F.rows p.1 p.2))
        (proofHashes ++ junk) = .ok (stumpOf (F.modify L adds), ud) ∧
      ud.newDel = newDelSpec F L targets ∧
      ud.prevNumLeaves = BitVec.ofNat 64 F.numLeaves :=
  stump_update_refines ok junk hL hc nonZero adds (hadd _ adds hC)

/-! ### closing the statement left open in `Props/C01.lean`

`Props/C01.lean` proves `stump_add_refines_statement` and leaves `stump_update_refines_statement`
open.  Both are restated here verbatim (so that this file does not depend on that one); the
second follows from the first. -/

/-- verbatim copy of `Props.C01.stump_add_refines_statement` -/
def stump_add_refines_statement (H : Type) [DecidableEq H] [Hasher H] : Prop :=
  ∀ (nonZero : H) (F : Forest H) (s : Stump H) (adds : List H),
    (∀ a b : H, ph a b ≠ (zero : H)) →
    s.roots = F.roots → s.numLeaves = BitVec.ofNat 64 F.numLeaves →
    F.numLeaves + adds.length < 2 ^ 64 →
    (∀ y ∈ F.liveLeaves, y ≠ (zero : H)) → (∀ y ∈ adds, y ≠ (zero : H)) →
    ∃ upd td, s.add nonZero adds =
      .ok (⟨(F.addMany adds).roots, BitVec.ofNat 64 (F.numLeaves + adds.length)⟩, upd, td)

/-- verbatim copy of `Props.C01.stump_update_refines_statement` -/
def stump_update_refines_statement (H : Type) [DecidableEq H] [Hasher H] : Prop :=
  ∀ (nonZero : H) (F : Forest H) (s : Stump H) (dels adds : List H) (targets : List Pos)
    (proof : List H),
    NZ H → nonZero ≠ (zero : H) →
    s.roots = F.roots → s.numLeaves = BitVec.ofNat 64 F.numLeaves →
    F.numLeaves + adds.length ≤ 2 ^ 63 →
    F.liveLeaves.Nodup → (∀ x ∈ F.liveLeaves, x ≠ (zero : H) ∧ ∀ a b : H, x ≠ ph a b) →
    (∀ y ∈ adds, y ≠ (zero : H)) →
    dels.Nodup → (∀ x ∈ dels, x ∈ F.liveLeaves) →
    F.canon dels = some (targets, proof) →
    ∃ ud, s.update nonZero dels adds (targets.map fun p => BitVec.ofNat 64 (enc F.rows p)) proof =
      .ok (⟨(F.modify dels adds).roots, BitVec.ofNat 64 (F.modify dels adds).numLeaves⟩, ud)

theorem liveLeaves_delLeaves (F : Forest H) (L : List H) :
    ∀ l ∈ (F.delLeaves L).liveLeaves, l ∈ F.liveLeaves := by
  intro l hl
  unfold Forest.liveLeaves at hl ⊢
  rw [delLeaves_slots, List.mem_filterMap] at hl
  obtain ⟨s, hs, hsl⟩ := hl
  obtain ⟨s0, hs0, rfl⟩ := List.mem_map.1 hs
  rw [List.mem_filterMap]
  refine ⟨s0, hs0, ?_⟩
  cases s0 with
  | none => simp [kill] at hsl
  | some x =>
    simp only [kill, id] at hsl ⊢
    split at hsl
    · cases hsl
    · exact hsl

theorem numLeaves_addMany (G : Forest H) (adds : List H) :
    (G.addMany adds).numLeaves = G.numLeaves + adds.length := by
  simp [Forest.addMany, Forest.numLeaves]

/-- **the whole-block refinement of `Stump.Update`** (the statement left open in
`Props/C01.lean`), from the add refinement proved there -/
theorem stump_update_refines_of_add (hadd : stump_add_refines_statement H) :
    stump_update_refines_statement H := by
  intro nonZero F s dels adds targets proof nz _ hr hn hlt hnd hlive hadds hdn _ hc
  have hs : s = stumpOf F := by
    cases s
    simp only at hr hn
    subst hr hn
    rfl
  subst hs
  have ok : ForestOK F := ⟨by omega, nz.nonzero, fun l hl => (hlive l hl).1, hnd⟩
  have haddAt : AddRefinesAt nonZero (F.delLeaves dels) adds := by
    obtain ⟨upd, td, h⟩ := hadd nonZero (F.delLeaves dels) (stumpOf (F.delLeaves dels)) adds
      nz.nonzero rfl rfl (by rw [delLeaves_numLeaves]; omega)
      (fun y hy => (hlive y (liveLeaves_delLeaves F dels y hy)).1) hadds
    refine ⟨_, h, ?_⟩
    simp only [stumpOf, numLeaves_addMany]
  obtain ⟨ud, h1, _, _⟩ := stump_update_refines ok [] hdn hc nonZero adds haddAt
  rw [List.append_nil] at h1
  exact ⟨ud, h1⟩

end

/-! ### non-vacuity -/

namespace Example
open C03.Example C03b.Example C02.Example C11del.Example

theorem ok : ForestOK F := ⟨Nat.le_of_lt small, cr.nonzero, live_nonzero, live_nodup⟩

/-- delete leaf 2 from the five-slot forest: the stump of the result -/
example : (Stump.delSt (stumpOf F) [T.leaf 2] [2#64] [T.leaf 3, .leaf 0]).1 =
    stumpOf (F.delLeaves [T.leaf 2]) := by
  have := stump_del_refines ok [] (by decide) canonA
  rw [List.append_nil] at this
  rw [stumpOf_delLeaves]
  exact congrArg Prod.fst this

/-- the add-refinement hypothesis holds on the concrete instance (adding two leaves after the
deletion), so `stump_update_refines` applies -/
theorem addAt : AddRefinesAt (T.leaf 1000) (F.delLeaves [T.leaf 2]) [T.leaf 5, .leaf 6] := by
  refine ⟨_, rfl, ?_⟩
  decide +kernel

example : ∃ ud : UpdateData T,
    Stump.update (T.leaf 1000) (stumpOf F) [T.leaf 2] [T.leaf 5, .leaf 6] [2#64]
      [T.leaf 3, .leaf 0] = .ok (stumpOf (F.modify [T.leaf 2] [T.leaf 5, .leaf 6]), ud) ∧
    ud.newDel = [(2#64, T.z), (9#64, T.leaf 3), (12#64, T.node (.leaf 0) (.leaf 3))] ∧
    ud.prevNumLeaves = 5#64 := by
  obtain ⟨ud, h1, h2, h3⟩ := stump_update_refines ok [] (by decide) canonA (T.leaf 1000)
    [T.leaf 5, .leaf 6] addAt
  rw [List.append_nil] at h1
  refine ⟨ud, h1, ?_, h3⟩
  rw [h2]
  decide +kernel

/-- `F.liveLeaves.Nodup` is necessary: with the same leaf hash in two slots the specification
(`delLeaves` deletes by leaf identity) kills both slots, while the canonical proof — and so
`Stump.del` — covers only the first one. -/
def Fdup : Forest T := ⟨[some (.leaf 7), some (.leaf 7)]⟩

example : Fdup.canon [T.leaf 7] = some ([(0, 0)], [T.leaf 7]) := by decide +kernel

example : (Stump.delSt (stumpOf Fdup) [T.leaf 7] [0#64] [T.leaf 7]).1.roots = [T.leaf 7] ∧
    (Fdup.delLeaves [T.leaf 7]).roots = [T.z] := by decide +kernel

end Example

end UtreexoVerif.Props.C01b
