/-
  C11 (NewDel) — the deletion half of the update data: what `Stump.del` returns.
  (The addition half — `NewAdd*`, `ToDestroy` — is `Props/C11.lean`.)

  Specification: for every pre-block node on a path from a target to its root, its pre-block
  position and the hash its subtree has after the deletions (zero if nothing survives), ascending
  by position.  Theorem: `Stump.del` fed the canonical proof returns exactly this list
  (`stump_newDel`), and leaves the stump with the roots of `F.delLeaves L`.

  Hypotheses: `F.numLeaves ≤ 2^63`; `ph a b ≠ zero`; live leaves non-zero and pairwise different
  (needed: `delLeaves` deletes by leaf identity, the proof covers one position per leaf);
  requested leaves pairwise different.
-/
import UtreexoVerif.Proofs.CalcComplete
import UtreexoVerif.Proofs.LeafDistinct
import UtreexoVerif.Props.C02

namespace UtreexoVerif.Props.C11del
open UtreexoVerif Spec Model Hasher
open UtreexoVerif.Proofs UtreexoVerif.Proofs.SpecNodes UtreexoVerif.Proofs.CalcGeo
open UtreexoVerif.Proofs.CalcComplete UtreexoVerif.Proofs.SpecPlan UtreexoVerif.Proofs.SpecSubs
open UtreexoVerif.Proofs.LeafDistinct

section
variable {H : Type} [DecidableEq H] [Hasher H]

/-! ### the specification of `NewDel` -/

/-- the pre-block nodes on the paths from the targets to their roots, by row then offset
(the set `P` of `Spec.Forest.proofPositions`) -/
def pathNodes (F : Forest H) (targets : List Pos) : List Pos :=
  Forest.sortDedup (targets.flatMap (Forest.pathUp F.numLeaves (F.rows + 1)))

/-- the collapsed subtree of `F` at a position (`none` if there is no node) -/
def subtreeAt (F : Forest H) (p : Pos) : Option (CTree H) := subAt F p

/-- the hash the subtree at `p` has after the leaves `L` are deleted; zero if nothing survives -/
def hashAfter (F : Forest H) (L : List H) (p : Pos) : H :=
  match subtreeAt F p with
  | some t => (match delT L t with
    | some t' => t'.hash
    | none => zero)
  | none => zero

/-- **specification of `NewDelPos`/`NewDelHash`** -/
def newDelSpec (F : Forest H) (L : List H) (targets : List Pos) : HP H :=
  (pathNodes F targets).map (fun p => (encU F.rows p.1 p.2, hashAfter F L p))

theorem hashAfter_eq_valAt (F : Forest H) (L : List H) (p : Pos) :
    hashAfter F L p = valAt (dhash L) F p := by
  unfold hashAfter subtreeAt valAt dhash hashO
  cases subAt F p with
  | none => rfl
  | some t => cases delT L t <;> rfl

end

section
variable (H : Type) [DecidableEq H] [Hasher H]

/-- **C01.3 / C11 (NewDel), full statement**: `Stump.del` on the canonical proof (with arbitrary
hashes appended) ends with the roots of `F.delLeaves L` and returns `newDelSpec`. -/
def stump_del_statement : Prop :=
  ∀ (F : Forest H), F.numLeaves ≤ 2 ^ 63 → (∀ a b : H, ph a b ≠ (zero : H)) →
    (∀ l ∈ F.liveLeaves, l ≠ (zero : H)) → F.liveLeaves.Nodup →
  ∀ (L : List H) (targets : List Pos) (proofHashes junk : List H), L.Nodup →
    F.canon L = some (targets, proofHashes) →
    Stump.delSt ⟨F.roots, BitVec.ofNat 64 F.numLeaves⟩ L
      (targets.map (fun p => encU F.rows p.1 p.2)) (proofHashes ++ junk) =
      (⟨(F.delLeaves L).roots, BitVec.ofNat 64 F.numLeaves⟩, .ok (newDelSpec F L targets))

/-- the second pass alone: `calculateHashes` with zeroed target hashes returns, as root
candidates, the post-deletion roots of the touched trees (lowest first; zero for a tree without
survivors) -/
def del_calc_statement : Prop :=
  ∀ (F : Forest H), F.numLeaves ≤ 2 ^ 63 → (∀ a b : H, ph a b ≠ (zero : H)) →
    (∀ l ∈ F.liveLeaves, l ≠ (zero : H)) → F.liveLeaves.Nodup →
  ∀ (L : List H) (targets : List Pos) (proofHashes junk : List H), L.Nodup →
    F.canon L = some (targets, proofHashes) →
    ∃ r : CalcResult H,
      calculateHashes (BitVec.ofNat 64 F.numLeaves) none
        (targets.map (fun p => encU F.rows p.1 p.2)) (proofHashes ++ junk) = .ok r ∧
      r.roots = (touchedRows F.numLeaves targets).map (treeRoot (F.delLeaves L)) ∧
      r.rootRows = (touchedRows F.numLeaves targets).map H8 ∧
      r.nodes = newDelSpec F L targets

end

section
set_option linter.unusedSectionVars false
variable {H : Type} [DecidableEq H] [Hasher H]

theorem newDelSpec_eq (F : Forest H) (L : List H) (targets : List Pos) :
    newDelSpec F L targets =
      (pathSet F targets).map (fun p => (E F.rows p, valAt (dhash L) F p)) := by
  unfold newDelSpec
  apply List.map_congr_left
  intro p _
  rw [hashAfter_eq_valAt]
  rfl

/-- **`Stump.del` returns the specified `NewDel` and refines `delLeaves`.** -/
theorem stump_newDel : stump_del_statement H := by
  intro F hn hnz hlive hnd L targets hashes junk hL hc
  rw [newDelSpec_eq]
  exact delSt_complete hn hnz hlive (leafDistinct_of_nodup hnd) hL hc junk

theorem del_calc_roots : del_calc_statement H := by
  intro F hn hnz hlive hnd L targets hashes junk hL hc
  obtain ⟨r, h1, h2, h3, h4⟩ := del_calc hn hnz hlive (leafDistinct_of_nodup hnd) hL hc junk
  exact ⟨r, h1, h2, h3, by rw [newDelSpec_eq]; exact h4⟩

/-! ### what the specification says -/

theorem mem_pathNodes {F : Forest H} {targets : List Pos} {p : Pos} :
    p ∈ pathNodes F targets ↔ ∃ t ∈ targets, p ∈ Forest.pathUp F.numLeaves (F.rows + 1) t :=
  mem_pathSet

/-- every listed position is a node of the pre-block forest -/
theorem pathNodes_are_nodes {F : Forest H} {L : List H} {targets : List Pos} {hashes : List H}
    (hc : F.canon L = some (targets, hashes)) {p : Pos} (hp : p ∈ pathNodes F targets) :
    ∃ t, subtreeAt F p = some t ∧ F.nodeAt p = some t.hash := by
  obtain ⟨h, t, s⟩ := pathSet_sub (canon_targetsOK hc) hp
  exact ⟨t, subAt_of s, s.nodeAt⟩

/-- the positions are listed in strictly ascending order -/
theorem newDelSpec_sorted {F : Forest H} (hn : F.numLeaves ≤ 2 ^ 63) {L : List H}
    {targets : List Pos} {hashes : List H} (hc : F.canon L = some (targets, hashes)) :
    (newDelSpec F L targets).Pairwise (fun a b => a.1 < b.1) := by
  have tok := canon_targetsOK hc
  unfold newDelSpec
  rw [List.pairwise_map]
  apply List.Pairwise.imp_of_mem _ (pathSet_sorted F targets)
  intro a b ha hb hab
  obtain ⟨_, _, sa⟩ := pathSet_sub tok ha
  obtain ⟨_, _, sb⟩ := pathSet_sub tok hb
  exact (E_lt_iff (rows_le_63 hn) sa.inF.valid sb.inF.valid).2 hab

/-- nothing survives below a node iff all its leaves are deleted -/
theorem delT_eq_none_iff (L : List H) : ∀ t : CTree H, delT L t = none ↔ ∀ l ∈ t.leaves, l ∈ L := by
  intro t
  induction t with
  | leaf h =>
    simp only [delT, CTree.leaves, List.mem_singleton, forall_eq]
    split <;> simp_all
  | node a b iha ihb =>
    simp only [delT, CTree.leaves, List.mem_append]
    constructor
    · intro h
      cases ha : delT L a <;> cases hb : delT L b <;> rw [ha, hb] at h <;> simp [join] at h
      intro l hl
      rcases hl with hl | hl
      · exact (iha.1 ha) l hl
      · exact (ihb.1 hb) l hl
    · intro h
      rw [iha.2 (fun l hl => h l (Or.inl hl)), ihb.2 (fun l hl => h l (Or.inr hl))]
      rfl

/-- the reported hash is zero exactly when every leaf below the node is deleted -/
theorem hashAfter_eq_zero_iff {F : Forest H} (hnz : ∀ a b : H, ph a b ≠ (zero : H))
    (hlive : ∀ l ∈ F.liveLeaves, l ≠ (zero : H)) {L : List H} {h : Nat} {p : Pos} {t : CTree H}
    (s : SubAtT F h p t) : hashAfter F L p = zero ↔ ∀ l ∈ t.leaves, l ∈ L := by
  rw [← delT_eq_none_iff]
  unfold hashAfter subtreeAt
  rw [subAt_of s]
  cases hd : delT L t with
  | none => simp [hd]
  | some t' =>
    simp only [hd, reduceCtorEq, iff_false]
    exact hashO_ne_zero hnz L (fun l hl => hlive l (s.leaves_live l hl)) hd

/-- a node without deleted leaves below it keeps its hash -/
theorem hashAfter_unchanged {F : Forest H} {L : List H} {h : Nat} {p : Pos} {t : CTree H}
    (s : SubAtT F h p t) (hno : ∀ l ∈ t.leaves, l ∉ L) : hashAfter F L p = t.hash := by
  rw [hashAfter_eq_valAt, valAt_of s]
  exact dhash_noleaf L hno

/-- the entry for an internal node is `getNextHash`'s combination of the entries of its two
children (skip a zero operand, otherwise `ph`) -/
theorem hashAfter_node {F : Forest H} (hnz : ∀ a b : H, ph a b ≠ (zero : H))
    (hlive : ∀ l ∈ F.liveLeaves, l ≠ (zero : H)) {L : List H} {h : Nat} {p : Pos} {a b : CTree H}
    (s : SubAtT F h p (.node a b)) :
    hashAfter F L p = comb (hashAfter F L (p.1 - 1, 2 * p.2)) (hashAfter F L (p.1 - 1, 2 * p.2 + 1)) := by
  obtain ⟨_, sa, sb⟩ := s.children
  have g : Good (CTree.node a b) := fun l hl => hlive l (s.leaves_live l hl)
  rw [hashAfter_eq_valAt, hashAfter_eq_valAt, hashAfter_eq_valAt, valAt_of s, valAt_of sa,
    valAt_of sb]
  exact dhash_node hnz L g.left g.right

end

/-! ### non-vacuity

The five-slot forest of `Props/C03b.lean` (slot 1 already dead).  Deleting leaf 2 makes leaf 3
move up to `(1, 1)`; deleting leaves 2 and 3 empties that subtree so leaf 0 becomes the root of
its tree; deleting leaf 4 leaves an empty root (hash zero) on row 0. -/

namespace Example
open C03.Example C03b.Example C02.Example

theorem live_nodup : F.liveLeaves.Nodup := by decide

theorem canonA : F.canon [T.leaf 2] = some ([(0, 2)], [T.leaf 3, .leaf 0]) := by decide +kernel

/-- the hypotheses of `stump_newDel` hold; its conclusion for deleting leaf 2 (with a junk hash
appended to the proof) … -/
theorem delA : Stump.delSt ⟨F.roots, BitVec.ofNat 64 F.numLeaves⟩ [T.leaf 2]
    ([(0, 2)].map (fun p => encU F.rows p.1 p.2)) ([T.leaf 3, .leaf 0] ++ [T.leaf 99]) =
    (⟨(F.delLeaves [T.leaf 2]).roots, BitVec.ofNat 64 F.numLeaves⟩,
      .ok (newDelSpec F [T.leaf 2] [(0, 2)])) :=
  stump_newDel F (Nat.le_of_lt small) cr.nonzero live_nonzero live_nodup [T.leaf 2] _ _
    [T.leaf 99] (by decide) canonA

/-- … read off: positions 2, 9, 12 (the path `(0,2)`, `(1,1)`, `(2,0)`) with hashes zero,
leaf 3 (moved up) and the new root -/
example : newDelSpec F [T.leaf 2] [(0, 2)] =
    [(2#64, T.z), (9#64, T.leaf 3), (12#64, T.node (.leaf 0) (.leaf 3))] := by decide +kernel

example : (F.delLeaves [T.leaf 2]).roots = [T.node (.leaf 0) (.leaf 3), .leaf 4] := by decide +kernel

/-- the model, simply run, agrees -/
example : Stump.delSt ⟨F.roots, 5#64⟩ [T.leaf 2] [2#64] [T.leaf 3, .leaf 0, .leaf 99] =
    (⟨[T.node (.leaf 0) (.leaf 3), .leaf 4], 5#64⟩,
      .ok [(2#64, T.z), (9#64, T.leaf 3), (12#64, T.node (.leaf 0) (.leaf 3))]) := by
  decide +kernel

/-- deleting leaves 3 and 2 (requested in that order) and leaf 4: a subtree and a whole tree
vanish -/
theorem canonB : F.canon [T.leaf 3, .leaf 4, .leaf 2] = some ([(0, 3), (0, 4), (0, 2)], [T.leaf 0]) := by
  decide +kernel

example : Stump.delSt ⟨F.roots, 5#64⟩ [T.leaf 3, .leaf 4, .leaf 2] [3#64, 4#64, 2#64] [T.leaf 0] =
    (⟨(F.delLeaves [T.leaf 3, .leaf 4, .leaf 2]).roots, 5#64⟩,
      .ok (newDelSpec F [T.leaf 3, .leaf 4, .leaf 2] [(0, 3), (0, 4), (0, 2)])) := by
  have := stump_newDel F (Nat.le_of_lt small) cr.nonzero live_nonzero live_nodup _ _ _ [] (by decide) canonB
  rw [List.append_nil] at this
  exact this

example : (F.delLeaves [T.leaf 3, .leaf 4, .leaf 2]).roots = [T.leaf 0, T.z] := by decide +kernel

example : newDelSpec F [T.leaf 3, .leaf 4, .leaf 2] [(0, 3), (0, 4), (0, 2)] =
    [(2#64, T.z), (3#64, T.z), (4#64, T.z), (9#64, T.z), (12#64, T.leaf 0)] := by decide +kernel

/-! An eleven-slot forest (trees on rows 3, 1, 0; slots 1, 4, 5 dead, so leaf 0 sits at `(1,0)`
and leaves 6, 7 at `(1,2)`, `(1,3)`).  The block deletes leaves 9, 3, 10 and 6 — it touches all
three trees, empties the tree on row 0 and collapses two levels of the big tree. -/

def F11 : Forest T := ⟨[some (.leaf 0), none, some (.leaf 2), some (.leaf 3), none, none,
  some (.leaf 6), some (.leaf 7), some (.leaf 8), some (.leaf 9), some (.leaf 10)]⟩

def L11 : List T := [.leaf 9, .leaf 3, .leaf 10, .leaf 6]

theorem canon11 : F11.canon L11 =
    some ([(0, 9), (0, 3), (0, 10), (1, 2)], [T.leaf 2, .leaf 8, .leaf 0, .leaf 7]) := by
  decide +kernel

theorem live11 : ∀ l ∈ F11.liveLeaves, l ≠ (zero : T) := by
  intro l hl
  have : l = .leaf 0 ∨ l = .leaf 2 ∨ l = .leaf 3 ∨ l = .leaf 6 ∨ l = .leaf 7 ∨ l = .leaf 8 ∨
      l = .leaf 9 ∨ l = .leaf 10 := by
    simpa [F11, Forest.liveLeaves] using hl
  rcases this with rfl | rfl | rfl | rfl | rfl | rfl | rfl | rfl <;> (intro h; cases h)

/-- `Verify` accepts and reports all three trees, lowest first -/
example : verify (BitVec.ofNat 64 F11.numLeaves) F11.roots L11 [9#64, 3#64, 10#64, 18#64]
    [T.leaf 2, .leaf 8, .leaf 0, .leaf 7] = .ok [2, 1, 0] :=
  C02.honest_proof_verifies_CR cr.toNZ (by decide) live11 (by decide) canon11

/-- `Stump.del` ends with the roots of the specification and returns the specified `NewDel` -/
theorem del11 : Stump.delSt ⟨F11.roots, 11#64⟩ L11 [9#64, 3#64, 10#64, 18#64]
    [T.leaf 2, .leaf 8, .leaf 0, .leaf 7] =
    (⟨(F11.delLeaves L11).roots, 11#64⟩,
      .ok (newDelSpec F11 L11 [(0, 9), (0, 3), (0, 10), (1, 2)])) := by
  have := stump_newDel F11 (by decide) cr.nonzero live11 (by decide) _ _ _ [] (by decide) canon11
  rw [List.append_nil] at this
  exact this

example : (F11.delLeaves L11).roots =
    [T.node (.node (.leaf 0) (.leaf 2)) (.leaf 7), .leaf 8, T.z] := by decide +kernel

example : newDelSpec F11 L11 [(0, 9), (0, 3), (0, 10), (1, 2)] =
    [(3#64, T.z), (9#64, T.z), (10#64, T.z), (17#64, T.leaf 2), (18#64, T.z), (20#64, T.leaf 8),
     (24#64, T.node (.leaf 0) (.leaf 2)), (25#64, T.leaf 7),
     (28#64, T.node (.node (.leaf 0) (.leaf 2)) (.leaf 7))] := by decide +kernel

end Example

end UtreexoVerif.Props.C11del
