/-
  The pointer forest (`Pollard`: pollard.go, polnode.go), heap model `Model/PollardHeap.lean` —
  part B: **deletion** (`deleteSingle`, `deleteRoot`, `remove`, `Modify`).

  ## What is proved here (all heaps / forests / blocks, no bounds except `NumLeaves < 2^63`)

  * `deleteSingle_refines`: on a heap representing `F` (`NodeMap` already without the hashes `D`
    of the block — `AbsD p F D`), for the position of ANY non-root node of `F` whose leaves are
    all in `D`, `deleteSingle` — `getNode`, `getParent`, `transferAunt`, `transferNiece` (twice),
    `updateAunt`, `delNode`, `hashToRoot`, both branches ("parent is a root" / "parent has an
    aunt") — returns without error / panic / fuel exhaustion and the heap represents `F` with
    that sub-tree's leaves dead (the sibling moved up, every hash on the way to the root
    re-computed, `NodeMap` re-pointed when a leaf moved into the root);
  * `deleteRoot_refines`: the same for a root position (the root becomes an empty root);
  * `removeLoop_refines`, `delSeq_targets`: the loop of `remove` over the sorted, de-twinned
    targets — the maximal fully-deleted sub-trees can be deleted one after the other in ascending
    order AT THEIR PRE-BLOCK POSITIONS (`DTE.step`: a later target keeps position, sub-tree
    and surviving sibling when an earlier one dies);
  * **`modify_refines`**: `Modify` of a valid block (distinct live deletions given by their
    positions, in any order; distinct fresh non-zero additions) succeeds and the resulting heap
    represents `F.modify dels adds`; `NumDels` grows by the number of targets, `NumLeaves` by the
    number of additions (C01 and C05 for the pointer forest).

  * queries: `getLeafPosition_refines` (`NodeMap` + `calculatePosition` along the aunt pointers =
    the specification position, for every hash), `prove_refines` (`Prove` = the canonical proof
    `Spec.Forest.canon`, C02 for the pointer forest), `verify_refines`; `queries_partial` is
    `Props.PollardHeap.queries_statement` with the hypotheses it lacks, and
    `queries_statement_false` shows one of them (duplicate-free request) is necessary;
  * `Undo`, first phase: `undoSingleAdd_refines`, `undoAdds_refines` (the merged roots are split
    again, the result represents the pre-addition forest up to the empty roots the additions
    skipped, `AbsE`); third phase, single operation: `undoSingleDel_aunt_refines` (the inverse
    surgery, branch "the original parent is not a root", on one represented tree); the rest
    (`undoEmptyRoots`, the root branch of `undoSingleDel`, `deTwinPolNode`, the loop of `undoDels`)
    is `undo_rest_statement`, open.

  ## A discrepancy: `Props.PollardHeap.modify_refines_statement` is FALSE as stated

  `deleteSingle` executes `delete(p.NodeMap, fromNodeSib.data.mini())` for EVERY deleted node,
  inner nodes included, and re-points `NodeMap[toNode.data]` whenever that key exists.  If a
  live leaf carries the hash of an inner node of the forest (leaf hashes are caller-supplied:
  anyone can add the leaf `parentHash(l1, l2)`), deleting `l1` and `l2` together makes
  `deleteSingle` delete the map entry of that unrelated live leaf: the leaf stays in the forest
  (it is still proved by `GetRoots`) but `GetLeafPosition` / `Prove` no longer find it.
  `modify_refines_statement_false` is the machine-checked witness (5 leaves, the fifth being
  the parent hash of the first two; the same happens in the Go code: replay in the report).
  The theorems above therefore assume `LeavesOK F`: no live leaf is the all-zero hash or a
  parent hash (the hypothesis `Props/C10.lean` already needs for the look-ups).
-/
import UtreexoVerif.Proofs.PollardHeapModify
import UtreexoVerif.Proofs.PollardHeapProve
import UtreexoVerif.Proofs.PollardHeapUndoAdds
import UtreexoVerif.Proofs.PollardHeapUndoDel
import UtreexoVerif.Props.PollardHeap
set_option linter.unusedSectionVars false
set_option linter.unusedVariables false

namespace UtreexoVerif.Props.PollardHeapB
open UtreexoVerif UtreexoVerif.Model UtreexoVerif.Model.PollardHeap UtreexoVerif.Spec Hasher
open UtreexoVerif.Proofs UtreexoVerif.Proofs.PollardHeap UtreexoVerif.Proofs.SpecSubs UtreexoVerif.Proofs.CalcGeo

variable {H : Type} [DecidableEq H] [Hasher H]

/-! ### single operations -/

/-- **`deleteSingle`** of the position of a non-root node `q` of `F` whose sub-tree `a` dies -/
theorem deleteSingle_refines {p : Pollard H} {F : Forest H} {D : List H} (hA : AbsD p F D)
    (hn : F.numLeaves < 2 ^ 63) {R : Nat} {q : Pos} {a : CTree H} (hs : SubAtT F R q a)
    (hnr : isRootPos F.numLeaves q = false) (hD : ∀ x ∈ a.leaves, x ∈ D)
    (hsep : ∀ x ∈ F.liveLeaves, ∀ u v : H, x ≠ ph u v) :
    ∃ hp' nm', deleteSingle (encU F.rows q.1 q.2) p = (.ok (), { p with heap := hp', nodeMap := nm' }) ∧
      AbsD { p with heap := hp', nodeMap := nm' } (F.delLeaves a.leaves) D :=
  deleteSingle_absD hA hn hs hnr hD hsep

/-- … in particular on `Abs p F` when one LEAF is deleted (its hash removed from the map first,
as `Modify` does) -/
theorem deleteSingle_leaf_refines {p : Pollard H} {F : Forest H} (hA : Abs p F)
    (hn : F.numLeaves < 2 ^ 63) {R : Nat} {q : Pos} {x : H} (hs : SubAtT F R q (.leaf x))
    (hnr : isRootPos F.numLeaves q = false)
    (hsep : ∀ y ∈ F.liveLeaves, ∀ u v : H, y ≠ ph u v) :
    ∃ p', (do deleteFromMap [x]; deleteSingle (encU F.rows q.1 q.2)) p = (.ok (), p') ∧
      Abs p' (F.delLeaves [x]) := by
  obtain ⟨nm1, e1, a1⟩ := deleteFromMap_absD [x] [] p hA.toAbsD
  simp only [List.nil_append] at a1
  obtain ⟨hp', nm', e2, a2⟩ := deleteSingle_absD a1 hn hs hnr (by simp [CTree.leaves]) hsep
  refine ⟨_, ?_, a2.toAbs (by rw [numLeaves_delLeaves]; omega)
    (fun y hy => (Proofs.LiveLeaves.mem_liveLeaves_delLeaves.1 hy).2)⟩
  simp only [bind_apply, e1]
  exact e2

/-- **`deleteRoot`**: the whole tree on row `R` dies -/
theorem deleteRoot_refines {p : Pollard H} {F : Forest H} {D : List H} (hA : AbsD p F D)
    (hn : F.numLeaves < 2 ^ 63) {R : Nat} {t0 : CTree H}
    (hs : SubAtT F R (rootPos F.numLeaves R) t0) (hD : ∀ x ∈ t0.leaves, x ∈ D)
    (hsep : ∀ x ∈ F.liveLeaves, ∀ u v : H, x ≠ ph u v) :
    ∃ hp' nm', deleteRoot (encU F.rows R (rootPos F.numLeaves R).2) p =
        (.ok (), { p with heap := hp', nodeMap := nm' }) ∧
      AbsD { p with heap := hp', nodeMap := nm' } (F.delLeaves t0.leaves) D :=
  deleteRoot_absD hA hn hs hD hsep

/-- **the loop of `remove`** along a deletable sequence of positions -/
theorem removeLoop_refines {D : List H} (ps : List U64) (p : Pollard H) (F F' : Forest H)
    (hA : AbsD p F D) (hn : F.numLeaves < 2 ^ 63)
    (hsep : ∀ x ∈ F.liveLeaves, ∀ u v : H, x ≠ ph u v) (hseq : DelSeq D F ps F') :
    ∃ hp' nm', removeLoop ps p = (.ok (), { p with heap := hp', nodeMap := nm' }) ∧
      AbsD { p with heap := hp', nodeMap := nm' } F' D :=
  removeLoop_absD ps p F F' hA hn hsep hseq

/-- **`remove`**: the targets are the positions of the (distinct, live) leaves `D` -/
theorem remove_refines {p : Pollard H} {F : Forest H} {D : List H} (hA : AbsD p F D)
    (hn : F.numLeaves < 2 ^ 63) (hsep : ∀ x ∈ F.liveLeaves, ∀ u v : H, x ≠ ph u v)
    (hD : D.Nodup) (hlive : ∀ x ∈ D, x ∈ F.liveLeaves) :
    ∃ hp' nm', remove ((D.map (fun l => (F.posOf l).getD (0, 0))).map (E F.rows)) p =
        (.ok (), { p with heap := hp', nodeMap := nm' }) ∧
      AbsD { p with heap := hp', nodeMap := nm' } (F.delLeaves D) D :=
  remove_absD hA hn hsep hD hlive

/-! ### `Modify` -/

theorem mapM_posOf {F : Forest H} : ∀ (l : List H) (ts : List Pos), l.mapM F.posOf = some ts →
    ts = l.map (fun x => (F.posOf x).getD (0, 0)) := by
  intro l
  induction l with
  | nil => intro ts h; simp at h; simp [h]
  | cons x l ih =>
    intro ts h
    rw [List.mapM_cons] at h
    cases hx : F.posOf x with
    | none => rw [hx] at h; simp at h
    | some q =>
      rw [hx] at h
      cases hl : l.mapM F.posOf with
      | none => rw [hl] at h; simp at h
      | some qs =>
        rw [hl] at h
        simp only [Option.pure_def, Option.bind_eq_bind, Option.bind_some, Option.some.injEq] at h
        rw [← h, ih qs hl]
        simp [hx]

/-- **`Modify` refines the specification** (C01 + C05 for the pointer forest): on a full
pollard representing `F` (below `2^63` leaves, no live leaf all-zero or a parent hash), for
every block — distinct live deletions `dels`, their positions as targets listed in ANY order
(`dels'` is a permutation of `dels`), distinct fresh non-zero additions — `Modify` returns
without error, panic or fuel exhaustion; the resulting heap represents `F.modify dels adds`,
`NumDels` has grown by the number of targets and `NumLeaves` by the number of additions. -/
theorem modify_refines (hph : ∀ a b : H, ph a b ≠ (zero : H)) (p : Pollard H) (F : Forest H)
    (dels dels' : List H) (targets : List U64) (adds : List (H × Bool))
    (hA : Abs p F) (hfull : p.full = true) (hok : LeavesOK F)
    (hn : F.numLeaves + adds.length < 2 ^ 63)
    (hnd : dels.Nodup) (hlive : ∀ d ∈ dels, d ∈ F.liveLeaves) (hperm : dels'.Perm dels)
    (htargets : ∀ ts, dels'.mapM F.posOf = some ts →
      targets = ts.map (fun q => BitVec.ofNat 64 (enc F.rows q)))
    (hpos : (dels'.mapM F.posOf).isSome)
    (hadd : (adds.map (·.1)).Nodup) (hfresh : ∀ e ∈ adds, e.1 ∉ F.liveLeaves ∧ e.1 ≠ zero) :
    ∃ p', PollardHeap.modify adds dels targets p = (.ok (), p') ∧
      Abs p' (F.modify dels (adds.map (·.1))) ∧ p'.full = true ∧
      p'.numDels = p.numDels + BitVec.ofNat 64 targets.length ∧
      p'.numLeaves.toNat = F.numLeaves + adds.length := by
  obtain ⟨ts, hts⟩ := Option.isSome_iff_exists.1 hpos
  have e1 := mapM_posOf dels' ts hts
  have e2 := htargets ts hts
  have etargets : targets = (dels'.map (fun l => (F.posOf l).getD (0, 0))).map (E F.rows) := by
    rw [e2, e1]; rfl
  have hlen : targets.length = dels.length := by rw [etargets]; simp [hperm.length_eq]
  -- run the block with `dels'` as the deletion list, then exchange the lists
  obtain ⟨p', h1, h2, h3, h4⟩ := modify_abs hph hA hfull hok dels' adds hn
    ((List.Perm.nodup_iff hperm).2 hnd) (fun x hx => hlive x (hperm.mem_iff.1 hx)) hadd hfresh
  have hsame : PollardHeap.modify adds dels targets p = PollardHeap.modify adds dels' targets p := by
    unfold PollardHeap.modify
    have hmap : ∀ (l1 l2 : List H), (∀ x, x ∈ l1 ↔ x ∈ l2) → ∀ q : Pollard H,
        deleteFromMap l1 q = deleteFromMap l2 q := by
      -- both remove exactly the entries whose key is in the list
      have key : ∀ (l : List H) (q : Pollard H), deleteFromMap l q =
          (.ok (), { q with nodeMap := q.nodeMap.filter (fun e => decide (e.1 ∉ l)) }) := by
        intro l
        induction l with
        | nil =>
          intro q; cases q; simp only [deleteFromMap, pure_apply, List.not_mem_nil, not_false_eq_true, decide_true]
          congr 2
          exact (List.filter_eq_self.2 (fun _ _ => rfl)).symm
        | cons d l ih =>
          intro q
          show (nodeMapDel d >>= fun _ => deleteFromMap l) q = _
          simp only [bind_apply, nodeMapDel_apply, ih]
          congr 2
          unfold mapDel
          rw [List.filter_filter]
          congr 1
          funext e
          by_cases h1 : e.1 = d <;> by_cases h2 : e.1 ∈ l <;> simp [h1, h2]
      intro l1 l2 h q
      rw [key, key]
      congr 3
      funext e
      simp [h e.1]
    simp only [bind_apply, hmap dels dels' (fun x => (hperm.mem_iff).symm) p]
  rw [← etargets] at h1
  refine ⟨p', hsame ▸ h1, ?_, h3, ?_, ?_⟩
  · have : F.modify dels (adds.map (·.1)) = F.modify dels' (adds.map (·.1)) := by
      unfold Forest.modify
      rw [delLeaves_congr F (fun x => (hperm.mem_iff).symm)]
    rw [this]; exact h2
  · rw [h4, hlen, hperm.length_eq]
  · rw [h2.numLeaves]
    simp [Forest.modify, Forest.addMany, Forest.numLeaves, Forest.delLeaves]

/-- every live leaf of a represented forest is tracked by `NodeMap` -/
theorem Abs.live_in_map {p : Pollard H} {F : Forest H} (a : Abs p F) (hn : F.numLeaves < 2 ^ 64)
    {x : H} (hx : x ∈ F.liveLeaves) : x ∈ p.nodeMap.map (·.1) := by
  obtain ⟨_, owned, lv, h1, _, h3⟩ := a
  rw [← h1.liveLeaves hn] at hx
  obtain ⟨e, he, rfl⟩ := List.mem_map.1 hx
  exact List.mem_map_of_mem ((h3.2 e).2 he)

theorem treesNZ_of_nonzero (hph : ∀ a b : H, ph a b ≠ (zero : H)) {F : Forest H}
    (h : ∀ x ∈ F.liveLeaves, x ≠ (zero : H)) (hn : F.numLeaves < 2 ^ 64) : TreesNZ F := by
  intro q hq t' ht'
  apply Spec.CTree.hash_ne_zero hph
  intro x hx
  apply h x
  rw [← trees_leaves F hn, List.mem_flatMap]
  exact ⟨q, hq, by rw [ht']; exact hx⟩

/-! ### queries -/

/-- **`GetLeafPosition` refines the specification** (`NodeMap` look-up + `calculatePosition`
along the aunt pointers): on a heap representing `F` (below `2^63` leaves, root hashes pairwise
different — the Go code tells the trees apart by their root hashes), for EVERY hash:
the encoded specification position and `true` for a live leaf, `(0, false)` otherwise;
the state is unchanged -/
theorem getLeafPosition_refines {p : Pollard H} {F : Forest H} (a : Abs p F)
    (hn : F.numLeaves < 2 ^ 63) (hroots : F.roots.Nodup) (h : H) :
    getLeafPosition h p = (.ok (PollardAbs.pollardGetLeafPosition F h), p) :=
  getLeafPosition_abs a hn hroots h

/-- **`Prove` returns the canonical proof** (C02 for the pointer forest) -/
theorem prove_refines (hph : ∀ a b : H, ph a b ≠ (zero : H)) {p : Pollard H} {F : Forest H}
    (a : Abs p F) (hn : F.numLeaves < 2 ^ 63) (hroots : F.roots.Nodup)
    (hnz : ∀ x ∈ F.liveLeaves, x ≠ (zero : H)) (hs : List H)
    (hlive : ∀ h ∈ hs, h ∈ F.liveLeaves) (hnd : hs.Nodup) (h1 : 1 < F.numLeaves) (hne : hs ≠ []) :
    ∃ ts ps, F.canon hs = some (ts, ps) ∧
      prove hs p = (.ok (ts.map (fun q => BitVec.ofNat 64 (enc F.rows q)), ps), p) :=
  prove_abs hph a hn hroots hnz hs hlive hnd h1 hne

/-- **`Verify`** on a heap representing `F` is the verifier model `pollardVerify` run on
`F.numLeaves` and `F.roots`; the state is unchanged -/
theorem verify_refines {p : Pollard H} {F : Forest H} (a : Abs p F) (hn : F.numLeaves < 2 ^ 64)
    (delHashes : List H) (targets : List U64) (proofHashes : List H) (remember : Bool) :
    PollardHeap.verify delHashes targets proofHashes remember p =
      (pollardVerify (BitVec.ofNat 64 F.numLeaves) F.roots delHashes targets proofHashes, p) := by
  have hN : p.numLeaves = BitVec.ofNat 64 F.numLeaves := by rw [← a.numLeaves]; simp
  unfold PollardHeap.verify
  simp only [bind_apply, getNumLeaves_apply, getRoots_abs a, hN]
  unfold liftOut
  cases pollardVerify (BitVec.ofNat 64 F.numLeaves) F.roots delHashes targets proofHashes <;> rfl

/-- the statement `Props.PollardHeap.queries_statement` with the three hypotheses it lacks:
`ph` never returns the all-zero hash, no live leaf is all-zero (`Prove` rejects all-zero proof
hashes), and the request is duplicate-free (`ProofPositions` pairs a duplicated right sibling
with itself) -/
theorem queries_partial (hph : ∀ a b : H, ph a b ≠ (zero : H)) (p : Pollard H) (F : Forest H)
    (a : Abs p F) (hroots : F.roots.Nodup) (hn : F.numLeaves < 2 ^ 63)
    (hnz : ∀ x ∈ F.liveLeaves, x ≠ (zero : H)) :
    (∀ h : H, getLeafPosition h p = (.ok (PollardAbs.pollardGetLeafPosition F h), p)) ∧
    (∀ hs : List H, (∀ h ∈ hs, h ∈ F.liveLeaves) → hs.Nodup → 1 < F.numLeaves → hs ≠ [] →
      ∃ ts ps, F.canon hs = some (ts, ps) ∧
        prove hs p = (.ok (ts.map (fun q => BitVec.ofNat 64 (enc F.rows q)), ps), p)) :=
  ⟨fun h => getLeafPosition_refines a hn hroots h,
   fun hs h1 h2 h3 h4 => prove_refines hph a hn hroots hnz hs h1 h2 h3 h4⟩

/-! ### `Undo`, first phase: the additions -/

/-- **`undoSingleAdd`**: on a heap representing `G.add x` (up to missing empty roots — `AbsE`),
`undoSingleAdd` splits the merged lowest root back into the trees it was merged from
(`swapNieces`, `delNode`), removes the leaf and its `NodeMap` entry, decrements `NumLeaves`;
the result represents `G` up to the empty roots the addition had skipped (those are restored
by `undoEmptyRoots`) -/
theorem undoSingleAdd_refines {p : Pollard H} {G : Forest H} {x : H} (a : AbsE p (G.add x))
    (hn : G.numLeaves + 1 < 2 ^ 63) (hsep : ∀ e ∈ p.nodeMap, ∀ u v : H, e.1 ≠ ph u v) :
    ∃ hp' nm' rs', undoSingleAdd p =
        (.ok (), ⟨hp', nm', rs', BitVec.ofNat 64 G.numLeaves, p.numDels, p.full⟩) ∧
      AbsE ⟨hp', nm', rs', BitVec.ofNat 64 G.numLeaves, p.numDels, p.full⟩ G ∧
      (∀ e ∈ nm', e ∈ p.nodeMap) :=
  undoSingleAdd_absE a hn hsep

/-- **the first loop of `Undo`**: all `adds.length` additions undone -/
theorem undoAdds_refines (adds : List H) (G : Forest H) (p : Pollard H)
    (a : Abs p (G.addMany adds)) (hn : G.numLeaves + adds.length < 2 ^ 63)
    (hsep : ∀ e ∈ p.nodeMap, ∀ u v : H, e.1 ≠ ph u v) :
    ∃ hp' nm' rs', undoAdds adds.length p =
        (.ok (), ⟨hp', nm', rs', p.numLeaves - BitVec.ofNat 64 adds.length, p.numDels, p.full⟩) ∧
      AbsE ⟨hp', nm', rs', p.numLeaves - BitVec.ofNat 64 adds.length, p.numDels, p.full⟩ G ∧
      (∀ e ∈ nm', e ∈ p.nodeMap) :=
  undoAdds_absE adds.length adds G p rfl a.toAbsE hn hsep

/-- **`undoSingleDel`, branch "the original parent is not a root"** (one represented tree,
collapsed-tree level): the node at the non-empty child path `π1` carries `b` (it moved up when
its sibling died), `nd` is the root of a detached represented tree `a`; `getNode` of the parent
position returns that node.  `undoSingleDel` — `calculateParentHash`, allocation of the parent,
`transferAunt`, `transferNiece` (twice), `updateAunt` (four times), `hashToRoot` — succeeds and
the root represents the tree with `node a b` (resp. `node b a`) in place of `b`. -/
theorem undoSingleDel_aunt_refines {hp : Heap H} {nm : List (H × Nat)} {rs : List Nat} {nl ndl : U64}
    {full : Bool} {r : Nat} {t : CTree H} {fp : List Nat} {lv : List (H × Nat)} (π1 : List Bool)
    {b : CTree H} {nd : Nat} {a : CTree H} {fa : List Nat} {la : List (H × Nat)}
    (hR : RootRepr hp r t fp lv) (hRn : RootRepr hp nd a fa la)
    (ndp : (r :: fp ++ nd :: fa).Nodup) (hne : π1 ≠ [])
    (hpath : PollardAbs.childPath t π1 = some b) (pos : U64)
    (hget : ∀ B S, walkChild hp r r π1 = some (B, S) →
      ∃ par, getNode (Parent pos (TreeRows nl)) ⟨hp, nm, rs, nl, ndl, full⟩ =
        (.ok (some B, some S, par), ⟨hp, nm, rs, nl, ndl, full⟩)) :
    ∃ (hp' : Heap H) (ctx : CCtx H) (fp' : List Nat) (pre lb post : List (H × Nat)),
      t = ctx.plug b ∧ ctx.depth = π1.length ∧ lv = pre ++ lb ++ post ∧
      undoSingleDel nd pos ⟨hp, nm, rs, nl, ndl, full⟩ = (.ok (), ⟨hp', nm, rs, nl, ndl, full⟩) ∧
      RootRepr hp' r (ctx.plug (if isLeftNiece pos then .node a b else .node b a)) fp'
        (pre ++ (if isLeftNiece pos then la ++ lb else lb ++ la) ++ post) ∧
      fp'.Perm (hp.size :: nd :: (fa ++ fp)) ∧
      (∀ j, j ∉ r :: fp ++ nd :: fa → j ≠ hp.size → hp'[j]? = hp[j]?) ∧
      hp'.size = hp.size + 1 :=
  undoSingleDel_tree_aunt π1 hR hRn ndp hne hpath pos hget

/-- what remains open of `Props.PollardHeap.undo_refines_statement` (with the hypotheses the
deletion theorems need): from a heap representing `F.delLeaves dels` up to missing empty roots
(the state `undoAdds_refines` reaches), `undoEmptyRoots` followed by `undoDels` yield a heap
representing `F` -/
def undo_rest_statement (H : Type) [DecidableEq H] [Hasher H] : Prop :=
  (∀ a b : H, ph a b ≠ (zero : H)) →
  ∀ (p : Pollard H) (F : Forest H) (dels : List H) (targets : List U64),
    AbsE p (F.delLeaves dels) → p.full = true → LeavesOK F → F.numLeaves < 2 ^ 63 →
    dels.Nodup → (∀ d ∈ dels, d ∈ F.liveLeaves) →
    targets = (dels.map (fun l => (F.posOf l).getD (0, 0))).map (E F.rows) →
    ∃ p'', (do undoEmptyRoots targets F.roots; undoDels targets dels) p = (.ok (), p'') ∧ Abs p'' F

/-! ### non-vacuity, and the counterexample to the statement without `LeavesOK` -/

namespace Example
open UtreexoVerif.Spec.NodesUniqueExample UtreexoVerif.Props.PollardHeap.Example

/-- the block of `Props.PollardHeap.Example` (delete leaves 1 and 4 of the five-leaf forest —
`deleteSingle` in both its branches — and add two leaves): `modify_refines` applies -/
example : ∃ p', PollardHeap.modify adds2 dels targets p5 = (.ok (), p') ∧
    Abs p' (F5.modify dels (adds2.map (·.1))) ∧ p'.full = true ∧
    p'.numDels = p5.numDels + BitVec.ofNat 64 targets.length ∧
    p'.numLeaves.toNat = F5.numLeaves + adds2.length :=
  modify_refines hphT p5 F5 dels dels targets adds2
    (abs_of_check p5 F5 (by decide +kernel) (by decide +kernel) (by decide +kernel) (by decide +kernel))
    (by decide +kernel)
    (by
      have : F5.liveLeaves = [.atom 1, .atom 2, .atom 3, .atom 4, .atom 5] := by decide +kernel
      intro x hx
      rw [this] at hx
      simp only [List.mem_cons, List.not_mem_nil, or_false] at hx
      rcases hx with rfl | rfl | rfl | rfl | rfl <;>
        exact ⟨fun h => (by cases h), fun a b h => (by cases h)⟩)
    (by decide +kernel) (by decide) (by decide +kernel) (List.Perm.refl _)
    (by
      have : dels.mapM F5.posOf = some [(0, 0), (0, 3)] := by decide +kernel
      intro ts h; rw [this] at h; cases h; decide +kernel)
    (by decide +kernel) (by decide) (by decide +kernel)

/-! #### queries: instances, and the counterexample to `queries_statement` -/

theorem abs5 : Abs p5 F5 :=
  abs_of_check p5 F5 (by decide +kernel) (by decide +kernel) (by decide +kernel) (by decide +kernel)

theorem live5 : F5.liveLeaves = [.atom 1, .atom 2, .atom 3, .atom 4, .atom 5] := by decide +kernel

/-- `GetLeafPosition` on the five-leaf heap, through `getLeafPosition_refines` -/
example : getLeafPosition (.atom 4) p5 = (.ok (PollardAbs.pollardGetLeafPosition F5 (.atom 4)), p5) :=
  getLeafPosition_refines abs5 (by decide +kernel) (by decide +kernel) _
example : PollardAbs.pollardGetLeafPosition F5 (.atom 4) = (3#64, true) := by decide +kernel
example : PollardAbs.pollardGetLeafPosition F5 (.atom 9) = (0#64, false) := by decide +kernel

/-- `Prove` on the five-leaf heap, through `prove_refines` -/
example : ∃ ts ps, F5.canon [.atom 4, .atom 1] = some (ts, ps) ∧
    prove [.atom 4, .atom 1] p5 =
      (.ok (ts.map (fun q => BitVec.ofNat 64 (enc F5.rows q)), ps), p5) :=
  prove_refines hphT abs5 (by decide +kernel) (by decide +kernel)
    (by
      intro x hx
      rw [live5] at hx
      simp only [List.mem_cons, List.not_mem_nil, or_false] at hx
      rcases hx with rfl | rfl | rfl | rfl | rfl <;> exact fun h => (by cases h))
    _ (by rw [live5]; decide) (by decide) (by decide +kernel) (by simp)
example : F5.canon [.atom 4, .atom 1] = some ([(0, 3), (0, 0)], [.atom 2, .atom 3]) := by
  decide +kernel

/-- **`Props.PollardHeap.queries_statement` is false**: it does not ask the request to be
duplicate-free.  Asking twice for leaf 2 (a right sibling): the sorted targets are `[1, 1]`,
`ProofPositions` pairs the duplicate with itself (`rightSib(1) == 1`) and the sibling hash of
leaf 2 is missing from the proof `Prove` returns — the canonical proof contains it. -/
theorem queries_statement_false : ¬ Props.PollardHeap.queries_statement Term := by
  intro h
  obtain ⟨_, h2⟩ := h p5 F5 abs5 (by decide +kernel) (by rw [live5]; decide)
    (treesNZ_of_nonzero hphT (by
      intro x hx
      rw [live5] at hx
      simp only [List.mem_cons, List.not_mem_nil, or_false] at hx
      rcases hx with rfl | rfl | rfl | rfl | rfl <;> exact fun h => (by cases h)) (by decide +kernel))
    (by decide +kernel) (by decide +kernel)
  obtain ⟨ts, ps, hc, hp⟩ := h2 [.atom 2, .atom 2] (by rw [live5]; decide) (by decide +kernel)
    (by simp)
  have e1 : F5.canon [.atom 2, .atom 2] =
      some ([(0, 1), (0, 1)], [.atom 1, .pair (.atom 3) (.atom 4)]) := by decide +kernel
  have e2 : (prove [Term.atom 2, .atom 2] p5).1 =
      .ok ([1#64, 1#64], [.pair (.atom 3) (.atom 4)]) := by decide +kernel
  rw [e1] at hc
  injection hc with hc
  have hps : ps = [.atom 1, .pair (.atom 3) (.atom 4)] := (Prod.mk.inj hc).2.symm
  rw [hp] at e2
  injection e2 with e2
  have := (Prod.mk.inj e2).2
  rw [hps] at this
  exact absurd this (by decide)

/-- the first phase of `Undo` on the block of `Props.PollardHeap.Example`: `p6` represents
`(F5.delLeaves dels).addMany [6, 7]`; the two additions are undone -/
example : ∃ hp' nm' rs', undoAdds 2 p6 =
    (.ok (), ⟨hp', nm', rs', p6.numLeaves - BitVec.ofNat 64 2, p6.numDels, p6.full⟩) ∧
    AbsE ⟨hp', nm', rs', p6.numLeaves - BitVec.ofNat 64 2, p6.numDels, p6.full⟩ (F5.delLeaves dels) ∧
    (∀ e ∈ nm', e ∈ p6.nodeMap) :=
  undoAdds_refines [.atom 6, .atom 7] (F5.delLeaves dels) p6
    (abs_of_check p6 _ (by decide +kernel) (by decide +kernel) (by decide +kernel) (by decide +kernel))
    (by decide +kernel)
    (by
      have : p6.nodeMap.map (·.1) = [.atom 7, .atom 6, .atom 5, .atom 3, .atom 2] := by decide +kernel
      intro e he u v h
      have hm : e.1 ∈ p6.nodeMap.map (·.1) := List.mem_map_of_mem he
      rw [this] at hm
      simp only [List.mem_cons, List.not_mem_nil, or_false] at hm
      rcases hm with h' | h' | h' | h' | h' <;> rw [h'] at h <;> cases h)

/-- five leaves, the fifth being the parent hash of the first two -/
def leavesC : List (Term × Bool) :=
  [(.atom 1, true), (.atom 2, true), (.atom 3, true), (.atom 4, true),
   (.pair (.atom 1) (.atom 2), true)]
def pC : Pollard Term := (PollardHeap.add leavesC newAccumulator).2
def FC : Forest Term := Forest.empty.addMany (leavesC.map (·.1))
def delsC : List Term := [.atom 1, .atom 2]
def targetsC : List U64 := [0#64, 1#64]
/-- the heap after `Modify(nil, [leaf 1, leaf 2], targets [0, 1])` -/
def pC' : Pollard Term := (PollardHeap.modify [] delsC targetsC pC).2

theorem absC : Abs pC FC :=
  abs_of_check pC FC (by decide +kernel) (by decide +kernel) (by decide +kernel) (by decide +kernel)

theorem prod_eta {α β : Type} (p : α × β) : p = (p.1, p.2) := by cases p; rfl

/-- the block runs without error … -/
theorem runC1 : (PollardHeap.modify [] delsC targetsC pC).1 = .ok () := by decide +kernel
theorem runC : PollardHeap.modify [] delsC targetsC pC = (.ok (), pC') := by
  have h := prod_eta (PollardHeap.modify [] delsC targetsC pC)
  rw [h, runC1]
  unfold pC'
  rfl
/-- … the fifth leaf is still live in the specification (and in the heap: it is the root of the
one-leaf tree) … -/
theorem liveC : Term.pair (.atom 1) (.atom 2) ∈
    (FC.modify delsC (([] : List (Term × Bool)).map (·.1))).liveLeaves := by decide +kernel
/-- … but `NodeMap` has lost it: `deleteSingle(8)` deleted the key `parentHash(leaf 1, leaf 2)` -/
theorem lostC : Term.pair (.atom 1) (.atom 2) ∉ pC'.nodeMap.map (·.1) := by decide +kernel

/-- **`Props.PollardHeap.modify_refines_statement` is false**: without the hypothesis that no
live leaf is a parent hash, a valid block can make `Modify` drop an unrelated live leaf from
`NodeMap` (the same happens in the Go code, see the report) -/
theorem modify_refines_statement_false : ¬ Props.PollardHeap.modify_refines_statement Term := by
  intro h
  have hliveC : FC.liveLeaves =
      [.atom 1, .atom 2, .atom 3, .atom 4, .pair (.atom 1) (.atom 2)] := by decide +kernel
  have h1 : pC.full = true := by decide +kernel
  have h2 : TreesNZ FC := treesNZ_of_nonzero hphT (by
      intro x hx
      rw [hliveC] at hx
      simp only [List.mem_cons, List.not_mem_nil, or_false] at hx
      rcases hx with rfl | rfl | rfl | rfl | rfl <;> exact fun h => (by cases h)) (by decide +kernel)
  have h3 : FC.numLeaves + ([] : List (Term × Bool)).length < 2 ^ 64 := by decide +kernel
  have h4 : delsC.Nodup := by decide
  have h5 : ∀ d ∈ delsC, d ∈ FC.liveLeaves := by rw [hliveC]; decide
  have h6 : ∀ ts, delsC.mapM FC.posOf = some ts →
      targetsC = ts.map (fun q => BitVec.ofNat 64 (enc FC.rows q)) := by
    have : delsC.mapM FC.posOf = some [(0, 0), (0, 1)] := by decide +kernel
    intro ts h; rw [this] at h; cases h; decide +kernel
  have h7 : (delsC.mapM FC.posOf).isSome = true := by decide +kernel
  have h8 : (([] : List (Term × Bool)).map (·.1)).Nodup := by decide
  have h9 : ∀ e ∈ ([] : List (Term × Bool)), e.1 ∉ FC.liveLeaves ∧ e.1 ≠ zero := by simp
  obtain ⟨p', e, a, _⟩ := h hphT pC FC delsC targetsC [] absC h1 h2 h3 h4 h5 h6 h7 h8 h9
  have e' : p' = pC' := by
    have := e.symm.trans runC
    exact (Prod.mk.inj this).2
  rw [e'] at a
  exact lostC (Abs.live_in_map a (by decide +kernel) liveC)

end Example

end UtreexoVerif.Props.PollardHeapB
