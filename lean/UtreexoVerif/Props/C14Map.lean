/-
  C14 for the MAP FOREST — `MapPollard.GetMissingPositions` is exact and `MapPollard.VerifyPartialProof`
  with the true hashes at those positions succeeds.

  Property text (last sentence of C14): "The positions reported as missing for proving extra
  targets are exactly the canonical proof positions that cannot be taken or computed from what is
  already held, and supplying the true hashes at those positions makes verification succeed."

  Setting: a model state `m` (`Model/MapPollard.lean`, transliteration of mappollard.go) satisfying
  the storage invariant for a specification forest `F` — `Inv m F` (`Proofs/MapInv.lean`; any
  allocation `TreeRows ≤ TotalRows ≤ 63`) for the statements about `GetMissingPositions`,
  `SInv m F` (`Proofs/MapSInv.lean`: `Inv` + root flags + leaf hygiene, partial forests — the
  invariant the C09 closure `Props.C09b.C09_reach` establishes for every reachable state) or
  `FInv m F` (`Proofs/MapFull.lean`, full forests; `Props.C09c.C09_reach_full`) for the statements
  about `VerifyPartialProof`.  Hash hypothesis: `NZ H` (parent hashes are non-zero) for everything
  except the last clause (a wrong hash is rejected), which needs collision-freeness `CR H`.

  "Positions of the leaves": as in `Props.C09.prove_canon` / `Props.C02.honest_proof_verifies`,
  a request is a duplicate-free list `L` of live leaves with `F.canon L = some (ts, ps)`:
  `ts` = their positions in the order of `L` (so any order), `ps` = the canonical proof hashes;
  the API receives `ts.map (encP F.rows)` (`TreeRows` coordinates).

    * `map_getMissingPositions_exact`     — the answer is the ascending list of the canonical proof
        positions of `L` whose node `m` does not store (API coordinates);
      `map_getMissingPositions_mem`, `map_getMissingPositions_mem_getHash` (the same read through
        `GetHash`: "the hash there reads as zero"), `map_getMissingPositions_positions` (the same
        for ANY duplicate-free list of positions of the forest, inner nodes included);
      `map_getMissingPositions_nil_iff`, `map_getMissingPositions_nil_iff_self` (`[]` iff `m`
        verifies `L` with no supplied hash), `map_getMissingPositions_cached` (`[]` for cached
        leaves — which `Prove` then proves with the canonical proof, `prove_canon`),
        `map_getMissingPositions_full` (always `[]` on a full forest);
    * `map_verifyPartialProof_eq_verify`  — the completed call IS `Verify(canonical proof, remember)`;
      `map_verifyPartialProof_complete`   — it succeeds for both values of `remember`, the state is
        unchanged without `remember`, with `remember` the invariant holds again for the same `F`
        with `L` added to the cache, and `Prove L` then returns the canonical proof;
      `map_verifyPartialProof_complete_full` — the same on a full forest (nothing to supply, nothing
        changes);
    * `map_verifyPartialProof_short`, `map_verifyPartialProof_dropped` — with fewer supplied hashes
        than missing positions (e.g. one position dropped) the call answers `err` and leaves the
        state alone; `map_verifyPartialProof_never_panics` (`Props.C04b`);
      `map_verifyPartialProof_accepts_only_true`, `map_verifyPartialProof_wrong_hash_rejected` (under
        `CR`) — whatever the call accepts consumed the TRUE hashes at the reported positions, so a wrong
        hash at any reported position gives `err` with the state unchanged
        (`Proofs/VerifyUnique.lean`: an accepted proof on canonical positions is the canonical proof);
    * `Example` — a partial forest with `TotalRows = 63 ≠ TreeRows = 3`, two cached leaves, a request
        for one cached and one uncached live leaf.
-/
import UtreexoVerif.Proofs.MapMissing
import UtreexoVerif.Proofs.VerifyUnique
import UtreexoVerif.Props.C09b
import UtreexoVerif.Props.C09c
import UtreexoVerif.Props.C04b

namespace UtreexoVerif.Props.C14Map
open UtreexoVerif Model Spec Spec.Forest Proofs MapAL MapInv MapSInv MapFull MapIngest MapMissing PForestSpec
  SpecPlan Hasher
set_option linter.unusedSectionVars false

variable {H : Type} [DecidableEq H] [Hasher H]
variable {m : MapPollard H} {F : Forest H} {L : List H} {ts : List Pos} {ps : List H}

/-- a truthful oracle over API positions: it answers every position of the forest with the hash
of the node there (what an honest peer holding the whole forest answers; `apiHash F` is one) -/
def TrueAt (F : Forest H) (hashAt : U64 → H) : Prop :=
  ∀ q h, F.nodeAt q = some h → hashAt (encP F.rows q) = h

theorem trueAt_apiHash (hn : F.numLeaves < 2 ^ 63) : TrueAt F (apiHash F) :=
  fun _ _ hq => apiHash_true hn hq

/-! ## 1. `GetMissingPositions` is exact -/

/-- **`GetMissingPositions` is exact.**  For a duplicate-free list `L` of live leaves with
positions `ts` (in the order of `L`), the answer is the list of the canonical proof positions of
`L` (`Spec.Forest.proofPositions`, by row then offset) whose node `m` does NOT store, encoded in
`TreeRows` coordinates — and that list is strictly ascending. -/
theorem map_getMissingPositions_exact (inv : Inv m F) (hnd : L.Nodup) (hc : F.canon L = some (ts, ps)) :
    m.getMissingPositions (ts.map (encP F.rows)) =
      ((F.proofPositions ts).filter (fun q => !m.hasNode (encP m.totalRows.toNat q))).map (encP F.rows) ∧
    (m.getMissingPositions (ts.map (encP F.rows))).Pairwise (· < ·) := by
  have h1 := getMissing_eq inv ts (canon_targets_nodup hc hnd) (ts_belowRoot hc)
  refine ⟨h1, ?_⟩
  rw [h1]
  exact (pp_enc_sorted (rows_le_63 inv) (Nat.le_refl _) (ts_belowRoot hc)).sublist
    (List.Sublist.map _ List.filter_sublist)

/-- membership form: reported ⟺ a canonical proof position that is not stored -/
theorem map_getMissingPositions_mem (inv : Inv m F) (hnd : L.Nodup) (hc : F.canon L = some (ts, ps)) (p : U64) :
    p ∈ m.getMissingPositions (ts.map (encP F.rows)) ↔
      ∃ q ∈ F.proofPositions ts, p = encP F.rows q ∧ m.hasNode (encP m.totalRows.toNat q) = false := by
  rw [(map_getMissingPositions_exact inv hnd hc).1, List.mem_map]
  constructor
  · rintro ⟨q, hq, rfl⟩
    obtain ⟨h1, h2⟩ := List.mem_filter.1 hq
    exact ⟨q, h1, rfl, by simpa using h2⟩
  · rintro ⟨q, h1, rfl, h2⟩
    exact ⟨q, List.mem_filter.2 ⟨h1, by simp [h2]⟩, rfl⟩

/-- the same through the API: reported ⟺ a canonical proof position at which `GetHash` answers the
all-zero hash ("not held") -/
theorem map_getMissingPositions_mem_getHash (nz : NZ H) (inv : Inv m F) (hy : Hyg F) (hnd : L.Nodup)
    (hc : F.canon L = some (ts, ps)) (p : U64) :
    p ∈ m.getMissingPositions (ts.map (encP F.rows)) ↔
      ∃ q ∈ F.proofPositions ts, p = encP F.rows q ∧ m.getHash p = zero := by
  rw [map_getMissingPositions_mem inv hnd hc]
  constructor
  · rintro ⟨q, h1, rfl, h2⟩
    exact ⟨q, h1, rfl, (getHash_zero_iff nz inv hy hc h1).2 h2⟩
  · rintro ⟨q, h1, rfl, h2⟩
    exact ⟨q, h1, rfl, (getHash_zero_iff nz inv hy hc h1).1 h2⟩

/-- **targets that are not leaves**: for ANY duplicate-free list of positions of the forest
(`BelowRoot`: at or below a root — inner nodes, nested targets and positions of the collapsed
region included, any order) the answer is again the unstored part of the specification's
`proofPositions` -/
theorem map_getMissingPositions_positions (inv : Inv m F) (ts : List Pos) (hnd : ts.Nodup)
    (hb : ∀ t ∈ ts, ∃ R, BelowRoot F.numLeaves t.1 t.2 R) :
    m.getMissingPositions (ts.map (encP F.rows)) =
      ((F.proofPositions ts).filter (fun q => !m.hasNode (encP m.totalRows.toNat q))).map (encP F.rows) :=
  getMissing_eq inv ts hnd hb

/-- nothing is missing ⟺ every canonical proof position is stored -/
theorem map_getMissingPositions_nil_iff (inv : Inv m F) (hnd : L.Nodup) (hc : F.canon L = some (ts, ps)) :
    m.getMissingPositions (ts.map (encP F.rows)) = [] ↔
      ∀ q ∈ F.proofPositions ts, m.hasNode (encP m.totalRows.toNat q) = true := by
  rw [(map_getMissingPositions_exact inv hnd hc).1, List.map_eq_nil_iff, List.filter_eq_nil_iff]
  simp

/-- **cached leaves need nothing**, and `Prove` proves them with the canonical proof
(`Props.C09.prove_canon`) -/
theorem map_getMissingPositions_cached (inv : Inv m F) (hnd : L.Nodup) (hc : F.canon L = some (ts, ps))
    (hL : ∀ x ∈ L, m.hasCached x = true) :
    m.getMissingPositions (ts.map (encP F.rows)) = [] ∧ m.prove L = .ok (ts.map (encP F.rows), ps) := by
  constructor
  · rw [(map_getMissingPositions_exact inv hnd hc).1]
    have := missingQ_nil_of_cached inv hc hL
    unfold missingQ at this
    rw [this]; rfl
  · obtain ⟨tgts, hashes, h1, h2⟩ := Props.C09.prove_canon inv L hL hnd
    rw [hc] at h1
    obtain ⟨rfl, rfl⟩ := Prod.mk.inj (Option.some.inj h1)
    exact h2

/-- **on a full forest nothing is ever missing** -/
theorem map_getMissingPositions_full (nz : NZ H) (s : FInv m F) (hnd : L.Nodup) (hc : F.canon L = some (ts, ps)) :
    m.getMissingPositions (ts.map (encP F.rows)) = [] := by
  rw [(map_getMissingPositions_exact (s.inv nz) hnd hc).1]
  have := missingQ_nil_full s hc
  unfold missingQ at this
  rw [this]; rfl

/-! ## 2. completing with the true hashes verifies -/

/-- **the completed call IS `Verify` of the canonical proof**: with the true hashes at the reported
positions, in the reported order (asked from any truthful oracle; surplus hashes appended are never
looked at), `VerifyPartialProof` is the same state transformer with the same outcome as
`Verify(L, ⟨targets, canonical proof⟩, remember)` -/
theorem map_verifyPartialProof_eq_verify (nz : NZ H) (inv : Inv m F) (hy : Hyg F) (hnd : L.Nodup)
    (hc : F.canon L = some (ts, ps)) (hashAt : U64 → H) (htrue : TrueAt F hashAt) (junk : List H)
    (remember : Bool) :
    MapPollard.verifyPartialProof (ts.map (encP F.rows)) L
        ((m.getMissingPositions (ts.map (encP F.rows))).map hashAt ++ junk) remember m =
      MapPollard.verifyM L (ts.map (encP F.rows)) ps remember m := by
  rw [supplied_eq inv hnd hc hashAt htrue]
  exact verifyPartial_eq_verifyM nz inv hy hnd hc junk remember

/-- **completeness on a partial forest.**  `missing := GetMissingPositions(targets)`, `supplied :=`
the true hashes at `missing`, in that order.  Then `VerifyPartialProof(targets, L, supplied,
remember)` succeeds for both values of `remember`; it is the run of `Verify` on the full canonical
proof; the invariant holds again for the SAME forest; the cache grows by exactly `L` when `remember`
is set (and then `Prove L` returns the canonical proof) and the state is untouched when it is not. -/
theorem map_verifyPartialProof_complete (nz : NZ H) (s : SInv m F) (hnd : L.Nodup)
    (hc : F.canon L = some (ts, ps)) (hashAt : U64 → H) (htrue : TrueAt F hashAt) (junk : List H)
    (remember : Bool) :
    ∃ m', MapPollard.verifyPartialProof (ts.map (encP F.rows)) L
          ((m.getMissingPositions (ts.map (encP F.rows))).map hashAt ++ junk) remember m = (m', .ok ()) ∧
      MapPollard.verifyM L (ts.map (encP F.rows)) ps remember m = (m', .ok ()) ∧
      SInv m' F ∧ Inv m' F ∧
      (∀ y, m'.hasCached y = true ↔ (m.hasCached y = true ∨ (remember = true ∧ y ∈ L))) ∧
      (remember = false → m' = m) ∧
      (remember = true → m'.getMissingPositions (ts.map (encP F.rows)) = [] ∧
        m'.prove L = .ok (ts.map (encP F.rows), ps)) := by
  have I := s.inv nz
  obtain ⟨m', h1, h2, h3, h4⟩ := Props.C09b.inv_verify nz s L ts ps [] hnd hc remember
  rw [List.append_nil] at h1
  refine ⟨m', ?_, h1, h2, h3, h4, ?_, ?_⟩
  · rw [map_verifyPartialProof_eq_verify nz I s.hyg hnd hc hashAt htrue junk remember]
    exact h1
  · intro hr
    subst hr
    rw [Props.C03c.verifyM_false] at h1
    exact (Prod.mk.inj h1).1.symm
  · intro hr
    exact map_getMissingPositions_cached h3 hnd hc (fun x hx => (h4 x).2 (Or.inr ⟨hr, hx⟩))

/-- **completeness on a full forest**: nothing has to be supplied, the call succeeds for both values
of `remember` and changes nothing (same look-ups, counters and flags) -/
theorem map_verifyPartialProof_complete_full (nz : NZ H) (s : FInv m F) (hnd : L.Nodup)
    (hc : F.canon L = some (ts, ps)) (junk : List H) (remember : Bool) :
    m.getMissingPositions (ts.map (encP F.rows)) = [] ∧
    ∃ m', MapPollard.verifyPartialProof (ts.map (encP F.rows)) L junk remember m = (m', .ok ()) ∧
      MapPollard.verifyM L (ts.map (encP F.rows)) ps remember m = (m', .ok ()) ∧ FInv m' F ∧
      (∀ p, m'.getNode p = m.getNode p) ∧ (∀ x, m'.getCached x = m.getCached x) ∧
      m'.numLeaves = m.numLeaves ∧ m'.totalRows = m.totalRows ∧ m'.full = m.full := by
  have hmiss := map_getMissingPositions_full nz s hnd hc
  refine ⟨hmiss, ?_⟩
  obtain ⟨m', h1, h2⟩ := Props.C09c.finv_verify nz s L ts ps [] hnd hc remember
  rw [List.append_nil] at h1
  refine ⟨m', ?_, h1, h2⟩
  have := map_verifyPartialProof_eq_verify nz (s.inv nz) s.hyg hnd hc (apiHash F) (trueAt_apiHash s.n_lt) junk
    remember
  rw [hmiss] at this
  simp only [List.map_nil, List.nil_append] at this
  rw [this]
  exact h1

/-! ## 3. exactness in the other direction -/

/-- **nothing reported can be left out.**  If fewer hashes are supplied than positions were reported
— whatever the hashes are — `VerifyPartialProof` answers `err` and leaves the state alone. -/
theorem map_verifyPartialProof_short (nz : NZ H) (inv : Inv m F) (hy : Hyg F) (hnd : L.Nodup)
    (hc : F.canon L = some (ts, ps)) (supplied : List H)
    (hlen : supplied.length < (m.getMissingPositions (ts.map (encP F.rows))).length) (remember : Bool) :
    MapPollard.verifyPartialProof (ts.map (encP F.rows)) L supplied remember m = (m, .error .err) := by
  apply verifyPartial_short nz inv hy hnd hc supplied _ remember
  rw [getMissing_eq inv ts (canon_targets_nodup hc hnd) (ts_belowRoot hc), List.length_map] at hlen
  exact hlen

/-- … in particular when any one reported position is dropped from an otherwise complete answer -/
theorem map_verifyPartialProof_dropped (nz : NZ H) (inv : Inv m F) (hy : Hyg F) (hnd : L.Nodup)
    (hc : F.canon L = some (ts, ps)) (hashAt : U64 → H) (i : Nat)
    (hi : i < (m.getMissingPositions (ts.map (encP F.rows))).length) (remember : Bool) :
    MapPollard.verifyPartialProof (ts.map (encP F.rows)) L
      (((m.getMissingPositions (ts.map (encP F.rows))).eraseIdx i).map hashAt) remember m = (m, .error .err) := by
  apply map_verifyPartialProof_short nz inv hy hnd hc
  rw [List.length_map, List.length_eraseIdx, if_pos hi]
  omega

/-- **nothing is missing ⟺ `m` verifies `L` by itself** (no hash supplied) -/
theorem map_getMissingPositions_nil_iff_self (nz : NZ H) (s : SInv m F) (hnd : L.Nodup)
    (hc : F.canon L = some (ts, ps)) :
    m.getMissingPositions (ts.map (encP F.rows)) = [] ↔
      MapPollard.verifyPartialProof (ts.map (encP F.rows)) L [] false m = (m, .ok ()) := by
  constructor
  · intro h0
    obtain ⟨m', h1, _, _, _, _, h6, _⟩ :=
      map_verifyPartialProof_complete nz s hnd hc (apiHash F) (trueAt_apiHash s.n_lt) [] false
    rw [h0] at h1
    rw [h6 rfl] at h1
    exact h1
  · intro h
    cases hm : m.getMissingPositions (ts.map (encP F.rows)) with
    | nil => rfl
    | cons p rest =>
      have := map_verifyPartialProof_short nz (s.inv nz) s.hyg hnd hc [] (by rw [hm]; simp) false
      rw [this] at h
      cases (Prod.mk.inj h).2

/-- `VerifyPartialProof` never panics or hangs, whatever is supplied (`Props.C04b`) -/
theorem map_verifyPartialProof_never_panics (inv : Inv m F) (tgts : List U64) (hs supplied : List H)
    (remember : Bool) :
    Props.C04b.TotalE (MapPollard.verifyPartialProof tgts hs supplied remember m).2 :=
  Props.C04b.verifyPartialProof_total_inv inv tgts hs supplied remember


/-- an `err` outcome of `VerifyPartialProof` leaves the state alone (only `ingest`, whose `err` is
dropped, writes) -/
theorem verifyPartialProof_err_state (m : MapPollard H) (tgts : List U64) (hs supplied : List H) (remember : Bool)
    (h : (MapPollard.verifyPartialProof tgts hs supplied remember m).2 = .error .err) :
    (MapPollard.verifyPartialProof tgts hs supplied remember m).1 = m := by
  unfold MapPollard.verifyPartialProof at h ⊢
  simp only at h ⊢
  split
  · rfl
  · rename_i all hall
    rw [hall] at h
    simp only at h
    unfold MapPollard.verifyM at h ⊢
    simp only at h ⊢
    split
    · rfl
    · rfl
    · rfl
    · rename_i idx hv
      rw [hv] at h
      simp only at h
      cases remember with
      | false => rfl
      | true =>
        simp only [if_true] at h ⊢
        split at h <;> simp at h

/-- **a supplied hash that is not the true one cannot be accepted** (collision-freeness `CR`): if
`VerifyPartialProof` accepts the true leaves `L` with the supplied hashes, then the hashes it consumed
— the first `|missing|` of them — are the true hashes at the reported positions, in that order. -/
theorem map_verifyPartialProof_accepts_only_true (cr : CR H) (inv : Inv m F) (hy : Hyg F) (hnd : L.Nodup)
    (hc : F.canon L = some (ts, ps)) (supplied : List H) (remember : Bool)
    (h : (MapPollard.verifyPartialProof (ts.map (encP F.rows)) L supplied remember m).2 = .ok ())
    (hashAt : U64 → H) (htrue : TrueAt F hashAt) :
    supplied.take (m.getMissingPositions (ts.map (encP F.rows))).length =
      (m.getMissingPositions (ts.map (encP F.rows))).map hashAt := by
  have nz := cr.toNZ
  have hn64 : F.numLeaves < 2 ^ 64 := by have := inv.n_lt; omega
  obtain ⟨all, idx, hm, hlen, hv⟩ := verifyPartial_accepts inv hnd hc supplied remember h
  have hall : all = ps :=
    VerifyUnique.verify_proof_unique cr (Nat.le_of_lt inv.n_lt) hy hnd hc all hlen hv
  subst hall
  have hm' : MapPollard.verifyPartialProof.merge m ((F.proofPositions ts).map (encP m.totalRows.toNat)) supplied [] =
      some ([] ++ (F.proofPositions ts).map (tvF F)) := by
    rw [hm, List.nil_append, ← ps_hashes hc]
  have := merge_true_inv (tvF F) (F.proofPositions ts)
    (fun q hq l hg => by
      rw [stored_true inv (pp_valid hc inv.rows_le hq) hg]; exact pp_nonzero nz hn64 hy hc hq)
    supplied [] hm'
  rw [supplied_eq inv hnd hc hashAt htrue,
    getMissing_eq inv ts (canon_targets_nodup hc hnd) (ts_belowRoot hc), List.length_map]
  exact this

/-- … contrapositive: **a wrong hash at any reported position is rejected** — the call answers `err`
(it neither accepts nor panics) and leaves the state alone -/
theorem map_verifyPartialProof_wrong_hash_rejected (cr : CR H) (inv : Inv m F) (hy : Hyg F) (hnd : L.Nodup)
    (hc : F.canon L = some (ts, ps)) (supplied : List H) (remember : Bool)
    (hashAt : U64 → H) (htrue : TrueAt F hashAt) (i : Nat)
    (hi : i < (m.getMissingPositions (ts.map (encP F.rows))).length)
    (hw : supplied[i]? ≠ ((m.getMissingPositions (ts.map (encP F.rows)))[i]?).map hashAt) :
    MapPollard.verifyPartialProof (ts.map (encP F.rows)) L supplied remember m = (m, .error .err) := by
  have hne : (MapPollard.verifyPartialProof (ts.map (encP F.rows)) L supplied remember m).2 ≠ .ok () := by
    intro h
    have ht := map_verifyPartialProof_accepts_only_true cr inv hy hnd hc supplied remember h hashAt htrue
    apply hw
    have : (supplied.take (m.getMissingPositions (ts.map (encP F.rows))).length)[i]? = supplied[i]? := by
      rw [List.getElem?_take, if_pos hi]
    rw [← this, ht, List.getElem?_map]
  have htot := Props.C04b.verifyPartialProof_total_inv inv (ts.map (encP F.rows)) L supplied remember
  have herr : (MapPollard.verifyPartialProof (ts.map (encP F.rows)) L supplied remember m).2 = .error .err := by
    cases hr : (MapPollard.verifyPartialProof (ts.map (encP F.rows)) L supplied remember m).2 with
    | ok u => exact absurd hr hne
    | error e =>
      cases e with
      | err => rfl
      | panic => rw [hr] at htot; exact absurd rfl htot.1
      | hang => rw [hr] at htot; exact absurd rfl htot.2
  have hst := verifyPartialProof_err_state m _ _ _ _ herr
  exact Prod.ext hst herr

/-! ## 4. non-vacuity

`F5` / `m5` of `Props/C09.lean` (five live leaves; `TotalRows = 63 ≠ TreeRows = 3`) after
`Prune [leaf 0]`: the map stores leaf 2, leaf 3, the node above leaves 0 and 1 and the two roots; it
caches leaves 2 and 4.  Request: leaf 2 (cached) and leaf 1 (live, not cached).  Canonical proof
positions: (0,0) and (0,3); leaf 3 is stored (proof of leaf 2), leaf 0 is not. -/

namespace Example
open Props.C09.Example MapSInv.Example

/-- `m5` after `Prune [leaf 0]` -/
def mq : MapPollard T := (MapPollard.prune [T.leaf 0] m5).1

theorem mq_sinv : SInv mq F5 :=
  SInv.of_inv crT.toNZ (Props.C09.invCheck_sound (by decide +kernel)) (by decide +kernel) F5_hyg
    (rootFlagsCheck_sound (by decide +kernel) (by decide +kernel))

/-- the state: partial, `TotalRows = 63`, `TreeRows = 3`, five nodes, leaves 2 and 4 cached -/
example : mq.full = false ∧ mq.totalRows = 63#8 ∧ TreeRows mq.numLeaves = 3#8 ∧ mq.nodes.length = 5 ∧
    mq.hasCached (.leaf 2) = true ∧ mq.hasCached (.leaf 4) = true ∧ mq.hasCached (.leaf 1) = false ∧
    mq.cached.length = 2 := by decide +kernel

/-- the request: leaf 2 (cached) and leaf 1 (not cached), in that order -/
theorem canon21 : F5.canon [T.leaf 2, .leaf 1] = some ([(0, 2), (0, 1)], [T.leaf 0, .leaf 3]) := by
  decide +kernel

theorem tgts21 : ([(0, 2), (0, 1)] : List Pos).map (encP F5.rows) = [2#64, 1#64] := by decide +kernel

/-- `GetMissingPositions` is NOT empty: position 0 (leaf 0) is missing, position 3 is held -/
theorem missing21 : mq.getMissingPositions [2#64, 1#64] = [0#64] := by decide +kernel

/-- `map_getMissingPositions_exact` instantiated -/
example : mq.getMissingPositions [2#64, 1#64] =
    ((F5.proofPositions [(0, 2), (0, 1)]).filter (fun q => !mq.hasNode (encP mq.totalRows.toNat q))).map
      (encP F5.rows) := by
  have := (map_getMissingPositions_exact (mq_sinv.inv crT.toNZ) (by decide) canon21).1
  rw [tgts21] at this
  exact this

/-- `TrueAt` is satisfiable: `apiHash F5`; at the missing position it answers leaf 0 -/
example : TrueAt F5 (apiHash F5) ∧ apiHash F5 0#64 = T.leaf 0 :=
  ⟨trueAt_apiHash (by decide), by decide +kernel⟩

/-- `map_verifyPartialProof_complete` instantiated, `remember = true`: the completed call succeeds,
the invariant holds again and leaf 1 has become provable -/
example : ∃ m', MapPollard.verifyPartialProof [2#64, 1#64] [T.leaf 2, .leaf 1] [T.leaf 0] true mq = (m', .ok ()) ∧
    SInv m' F5 ∧ m'.hasCached (.leaf 1) = true ∧
    m'.prove [T.leaf 2, .leaf 1] = .ok ([2#64, 1#64], [T.leaf 0, .leaf 3]) := by
  obtain ⟨m', h1, _, h3, _, h5, _, h7⟩ := map_verifyPartialProof_complete crT.toNZ mq_sinv (by decide) canon21
    (apiHash F5) (trueAt_apiHash (by decide)) [] true
  rw [tgts21, missing21] at h1
  have e : List.map (apiHash F5) [0#64] ++ [] = [T.leaf 0] := by decide +kernel
  rw [e] at h1
  have h8 := (h7 rfl).2
  rw [tgts21] at h8
  exact ⟨m', h1, h3, (h5 _).2 (Or.inr ⟨rfl, by simp⟩), h8⟩

/-- … and `remember = false`: accepted, state unchanged -/
example : MapPollard.verifyPartialProof [2#64, 1#64] [T.leaf 2, .leaf 1] [T.leaf 0] false mq = (mq, .ok ()) := by
  obtain ⟨m', h1, _, _, _, _, h6, _⟩ := map_verifyPartialProof_complete crT.toNZ mq_sinv (by decide) canon21
    (apiHash F5) (trueAt_apiHash (by decide)) [] false
  rw [tgts21, missing21] at h1
  have e : List.map (apiHash F5) [0#64] ++ [] = [T.leaf 0] := by decide +kernel
  rw [e, h6 rfl] at h1
  exact h1

/-- `map_verifyPartialProof_short` instantiated: without the missing hash the call fails -/
example : MapPollard.verifyPartialProof [2#64, 1#64] [T.leaf 2, .leaf 1] [] true mq = (mq, .error .err) := by
  have := map_verifyPartialProof_short crT.toNZ (mq_sinv.inv crT.toNZ) F5_hyg (by decide) canon21 []
    (by rw [tgts21, missing21]; decide) true
  rw [tgts21] at this
  exact this

/-- `map_verifyPartialProof_wrong_hash_rejected` instantiated (`CR` holds of the term algebra): any
hash other than leaf 0 at the missing position is rejected with `err`, state unchanged -/
example (x : T) (hx : x ≠ T.leaf 0) (junk : List T) (remember : Bool) :
    MapPollard.verifyPartialProof [2#64, 1#64] [T.leaf 2, .leaf 1] (x :: junk) remember mq = (mq, .error .err) := by
  have := map_verifyPartialProof_wrong_hash_rejected crT (mq_sinv.inv crT.toNZ) F5_hyg (by decide) canon21
    (x :: junk) remember (apiHash F5) (trueAt_apiHash (by decide)) 0 (by rw [tgts21, missing21]; decide)
    (by
      rw [tgts21, missing21]
      have e : apiHash F5 0#64 = T.leaf 0 := by decide +kernel
      simp only [List.getElem?_cons_zero, Option.map_some, e]
      intro h
      exact hx (Option.some.inj h))
  rw [tgts21] at this
  exact this

/-- `map_verifyPartialProof_accepts_only_true` instantiated: whatever is accepted started with leaf 0 -/
example (supplied : List T) (remember : Bool)
    (h : (MapPollard.verifyPartialProof [2#64, 1#64] [T.leaf 2, .leaf 1] supplied remember mq).2 = .ok ()) :
    supplied.take 1 = [T.leaf 0] := by
  rw [← tgts21] at h
  have := map_verifyPartialProof_accepts_only_true crT (mq_sinv.inv crT.toNZ) F5_hyg (by decide) canon21
    supplied remember h (apiHash F5) (trueAt_apiHash (by decide))
  rw [tgts21, missing21] at this
  have e : List.map (apiHash F5) [0#64] = [T.leaf 0] := by decide +kernel
  rw [e] at this
  exact this

def isOkU : Except Fail Unit → Bool
  | .ok _ => true
  | .error _ => false

def isErrU : Except Fail Unit → Bool
  | .error .err => true
  | _ => false

def proveIs (r : Except Fail (List U64 × List T)) (x : List U64 × List T) : Bool :=
  match r with
  | .ok y => decide (y = x)
  | .error _ => false

def proveErr (r : Except Fail (List U64 × List T)) : Bool :=
  match r with
  | .error .err => true
  | _ => false

/-- the concrete runs, evaluated: before the call leaf 1 is not provable and position 0 reads as
zero; with the true hash the call succeeds, afterwards nothing is missing, leaves 1 and 2 are proved
with the canonical proof, and 8 nodes are stored; a wrong hash at the missing position is rejected -/
example : proveErr (mq.prove [T.leaf 2, .leaf 1]) = true ∧ mq.getHash 0#64 = T.z ∧
    isOkU (MapPollard.verifyPartialProof [2#64, 1#64] [T.leaf 2, .leaf 1] [T.leaf 0] true mq).2 = true ∧
    (MapPollard.verifyPartialProof [2#64, 1#64] [T.leaf 2, .leaf 1] [T.leaf 0] true mq).1.getMissingPositions
      [2#64, 1#64] = [] ∧
    proveIs ((MapPollard.verifyPartialProof [2#64, 1#64] [T.leaf 2, .leaf 1] [T.leaf 0] true mq).1.prove
      [T.leaf 2, .leaf 1]) ([2#64, 1#64], [T.leaf 0, .leaf 3]) = true ∧
    (MapPollard.verifyPartialProof [2#64, 1#64] [T.leaf 2, .leaf 1] [T.leaf 0] true mq).1.nodes.length = 8 ∧
    isErrU (MapPollard.verifyPartialProof [2#64, 1#64] [T.leaf 2, .leaf 1] [T.leaf 7] true mq).2 = true := by
  decide +kernel

/-- **"not stored" is not "not computable"**: in `mq`, API position 9 (the node above leaves 2 and 3,
removed by `Prune` as computable) is reported as missing for leaf 0 although both its children,
positions 2 and 3, are stored — `GetMissingPositions` (and the merge loop of `VerifyPartialProof`)
look at `Nodes` only.  The Go code answers `[1 9]` on this state as well.  Exactness therefore reads
"canonical proof positions that are not STORED" (theorem 1), which for this entry point is what
"cannot be taken from what is held" means; positions computable from stored children are still asked for. -/
theorem missing_reports_computable : mq.getMissingPositions [0#64] = [1#64, 9#64] ∧
    mq.hasNode (encP 63 (0, 2)) = true ∧ mq.hasNode (encP 63 (0, 3)) = true ∧
    encP F5.rows (1, 1) = 9#64 ∧ mq.hasNode (encP 63 (1, 1)) = false := by decide +kernel

/-- **why "`[]` iff `Prove` succeeds" would be false**: leaf 3 is live and not cached; nothing is
missing for it (its proof, leaf 2 and the node above leaves 0 and 1, is stored for the cached leaf 2)
and `VerifyPartialProof` accepts it with no supplied hash, but `Prove` refuses every hash that is not
cached.  The correct reading is `map_getMissingPositions_nil_iff_self` (verification by itself) plus
`map_getMissingPositions_cached` (cached ⟹ `[]` and `Prove` = canonical proof). -/
theorem nil_but_not_cached : mq.getMissingPositions [3#64] = [] ∧ mq.hasCached (.leaf 3) = false ∧
    proveErr (mq.prove [T.leaf 3]) = true ∧
    isOkU (MapPollard.verifyPartialProof [3#64] [T.leaf 3] [] false mq).2 = true := by decide +kernel

/-- a full forest (`mf5` of `Props/C09c.lean`): nothing missing, the bare call succeeds -/
example : Props.C09c.Example.mf5.getMissingPositions (([(0, 2), (0, 1)] : List Pos).map (encP F5.rows)) = [] ∧
    ∃ m', MapPollard.verifyPartialProof (([(0, 2), (0, 1)] : List Pos).map (encP F5.rows)) [T.leaf 2, .leaf 1] []
      true Props.C09c.Example.mf5 = (m', .ok ()) := by
  obtain ⟨h0, m', h1, _⟩ := map_verifyPartialProof_complete_full crT.toNZ Props.C09c.Example.mf5_finv
    (by decide) canon21 [] true
  exact ⟨h0, m', h1⟩

end Example

end UtreexoVerif.Props.C14Map
