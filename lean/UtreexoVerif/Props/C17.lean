/-
  Props/C17.lean — C17: library calls never modify the caller's slices.

  PARTIAL BY NATURE.  The functional models of this development cannot exhibit aliasing, so
  C17 is addressed in three parts (DESIGN §5 C17):
  1. a frame theorem on a minimal model of Go's slice heap (`Model/Mem.lean`): a sequence of
     slice operations all of whose store/append/copy DESTINATIONS are rooted in arrays
     allocated during the sequence leaves every pre-existing array unchanged (`frame`), and
     the static provenance discipline "write only through fresh-tagged slices" implies that
     condition (`provenance_sound`);
  2. the write-site table regenerated from the Go source on every check
     (`Gen/Ownership.lean`, translator `/verif/translate/ownership`): every write-through-a-
     slice site reachable from the C17 API set must be `fresh`/`field`, or a `param` site on
     the committed, reviewed allow-list below (`ownership_ok`).  The provenance analysis is
     syntactic and TRUSTED;
  3. the runtime part (harness family `alias`): canary snapshots of every argument and of
     every earlier result, adversarially aliased arguments — sampling.
-/
import UtreexoVerif.Gen.Ownership
import UtreexoVerif.Proofs.Mem

namespace UtreexoVerif.Props.C17
open UtreexoVerif.Model.Mem UtreexoVerif.Proofs.Mem
open UtreexoVerif.Gen.Ownership

variable {α : Type}

/-! ## Full statement (kept visible) -/

/-- What C17 says of an implementation, rendered over the slice heap: `impl c` is the heap
transformer of API call `c` (`none` = panic), `state c h` the ids of the arrays that are
accumulator state of the receiver.  Every array that existed before the call and is not
accumulator state has the same contents afterwards — arguments (including their spare
capacity) and results returned by earlier calls alike, because both are "arrays that
existed before the call".  For the Go code itself this is NOT a Lean theorem (Go's heap has
no semantics here): it is checked by the regenerated table below plus the runtime family. -/
def C17_statement (Call : Type) (impl : Call → Heap α → Option (Heap α)) (state : Call → Heap α → List Nat) : Prop :=
  ∀ c h h', impl c h = some h' → ∀ id, id < h.arrays.length → id ∉ state c h →
    h'.arrays[id]? = h.arrays[id]?

/-! ## Part 1: frame theorem -/

/-- **Frame theorem.**  Run a sequence of slice operations (make, reslice, index store,
append of values or of a slice, copy) from any heap and any registers.  If along the run
every store/append/copy destination slice is rooted in an array allocated during the
sequence (`writesFresh` with `base` = the number of arrays at the start), every
pre-existing array is unchanged — whatever aliasing exists between the registers. -/
theorem frame (zero : α) (st st' : St α) (ops : List (Op α))
    (hrun : run zero st ops = some st')
    (hw : writesFresh zero st.heap.arrays.length st ops = true) :
    ∀ id, id < st.heap.arrays.length → st'.heap.arrays[id]? = st.heap.arrays[id]? :=
  (run_frame zero ops st st' hrun hw (Nat.le_refl _)).2

/-- consequently every slice over a pre-existing array reads the same, and so does every
wider slice of that array (the spare capacity) -/
theorem frame_read (zero : α) (st st' : St α) (ops : List (Op α))
    (hrun : run zero st ops = some st')
    (hw : writesFresh zero st.heap.arrays.length st ops = true) (s : Slice)
    (hs : s.arr < st.heap.arrays.length) : st'.heap.read s = st.heap.read s := by
  have h := frame zero st st' ops hrun hw s.arr hs
  unfold Heap.read
  have e : st'.heap.arrays.getD s.arr [] = st.heap.arrays.getD s.arr [] := by
    simp only [List.getD_eq_getElem?_getD, h]
  rw [e]

/-- **Soundness of the provenance discipline** (what the generated table encodes): tag every
register that exists at the start `param`; `make` yields `fresh`, slicing and `append` keep
the tag of their operand, and index stores, appends and copy destinations are allowed only
on `fresh`-tagged registers (`wellTagged`).  Then the run leaves every pre-existing array
unchanged.  In particular an `append` to a caller's slice is rejected even though it may
only touch spare capacity. -/
theorem provenance_sound (zero : α) (st st' : St α) (ops : List (Op α))
    (hrun : run zero st ops = some st')
    (hw : wellTagged (List.replicate st.regs.length Tag.param) ops = true) :
    ∀ id, id < st.heap.arrays.length → st'.heap.arrays[id]? = st.heap.arrays[id]? := by
  apply frame zero st st' ops hrun
  apply wellTagged_writesFresh zero ops st _ hw _ (Nat.le_refl _)
  refine ⟨by simp, fun r s _ ht => ?_⟩
  rcases hlt : (List.replicate st.regs.length Tag.param)[r]? with _ | t
  · rw [hlt] at ht; cases ht
  · have := List.mem_replicate.mp (List.mem_of_getElem? hlt)
    rw [hlt, this.2] at ht
    cases ht

/-- the full statement holds of every implementation that IS a well-tagged slice program
(no accumulator state): the proved instance of `C17_statement` -/
theorem C17_for_slice_programs_partial (zero : α) (prog : Unit → List (Op α)) (regs : List Slice)
    (hw : wellTagged (List.replicate regs.length Tag.param) (prog ()) = true) :
    C17_statement Unit (fun c h => (run zero ⟨h, regs⟩ (prog c)).map (·.heap)) (fun _ _ => []) := by
  intro c h h' e id hid _
  dsimp only at e
  cases hr : run zero ⟨h, regs⟩ (prog c) with
  | none => rw [hr] at e; cases e
  | some st' =>
    rw [hr] at e
    simp only [Option.map_some, Option.some.injEq] at e
    subst e
    exact provenance_sound zero ⟨h, regs⟩ st' (prog ()) hr hw id hid

/-! ### non-vacuity and the reason for canaries in the spare capacity -/

/-- the caller's array `[4,5,9,77]`; register 0 = its first three elements (cap 4) -/
def callerHeap : Heap Nat := ⟨[[4, 5, 9, 77]]⟩
def callerRegs : List Slice := [⟨0, 0, 3, 4⟩]

/-- `Pollard.Modify` as written: copy the targets, then the in-place helper on the copy
(`deTwin`-like: `dels = append(dels[:0], dels[2:]...)`, then `insertInOrder`) -/
def withCopy : List (Op Nat) :=
  [.make 3 3, .copy 1 0, .reslice 1 0 0, .reslice 1 2 3, .appendSlice 2 3, .appendVals 4 [8], .store 5 0 6]

/-- the same helper applied to the caller's slice directly (the copy removed) -/
def withoutCopy : List (Op Nat) :=
  [.reslice 0 0 0, .reslice 0 2 3, .appendSlice 1 2, .appendVals 3 [8], .store 4 0 6]

example : wellTagged (List.replicate callerRegs.length Tag.param) withCopy = true := by decide
example : (run 0 ⟨callerHeap, callerRegs⟩ withCopy).map (·.heap.arrays) =
    some [[4, 5, 9, 77], [6, 8, 9]] := by decide
example : writesFresh 0 1 ⟨callerHeap, callerRegs⟩ withCopy = true := by decide

/-- without the copy the discipline rejects the program, and the caller's array changes -/
example : wellTagged (List.replicate callerRegs.length Tag.param) withoutCopy = false := by decide
example : (run 0 ⟨callerHeap, callerRegs⟩ withoutCopy).map (·.heap.arrays) = some [[6, 8, 9, 77]] := by decide

/-- an `append` to the caller's slice that fits its capacity changes nothing within `len`
but overwrites the spare capacity (77 ↦ 1): visible only to a snapshot of the whole backing
array — hence the canaries of the harness -/
example : (run 0 ⟨callerHeap, callerRegs⟩ [.appendVals 0 [1]]).map (fun st => (st.heap.arrays, st.heap.read ⟨0, 0, 3, 4⟩)) =
    some ([[4, 5, 9, 1]], [4, 5, 9]) := by decide

/-! ## Part 2: the regenerated write-site table -/

/-- a reviewed `param` site: writes through memory of the API's caller, accepted for the
stated reason -/
structure Allowed where
  fn : Fn
  kind : Kind
  root : Root
  reason : String

/-- The COMMITTED allow-list.  Every entry is a write through caller memory that was reviewed
by hand; the reason says why it cannot change the caller's data, and the harness family
`alias` checks the claim dynamically on every call. -/
def allowList : List Allowed := [
  ⟨.MapPollard_undoDeletion, .indexStore, .v_proof,
   "mappollard.go `proof.Proof[i] = leaf.Hash`: when the proof position is already present in Nodes the " ++
   "caller's proof hash is overwritten with the stored hash.  For the proof of the block being undone the " ++
   "stored hash at a proof position is the hash the proof carries (C09 storage invariant: Nodes holds only " ++
   "true hashes), so the store writes the value already there.  Checked dynamically: argument proof.Proof " ++
   "of every MapPollard.Undo (full and partial, all TotalRows) is snapshot-compared by the alias family."⟩]

def allowed (s : Site) : Bool :=
  allowList.any (fun a => a.fn == s.fn && a.kind == s.kind && a.root == s.root)

/-- a site is accepted iff the written slice is allocated by the call (`fresh`), is
accumulator state (`field`), or is a reviewed `param` site; `unknown` is never accepted -/
def accepted (s : Site) : Bool :=
  match s.prov with
  | .fresh => true
  | .field => true
  | .param => allowed s
  | .unknown => false

set_option maxRecDepth 8192 in
/-- **every write-through-a-slice site reachable from the C17 API set is accepted.**
Re-proved against the table regenerated from the current Go source on every check; a removed
defensive copy turns `fresh` sites into `param` sites and breaks this theorem. -/
theorem ownership_ok : table.all accepted = true := by decide

set_option maxRecDepth 8192 in
/-- every allow-list entry is still needed (a stale entry breaks the build) -/
theorem allowList_used :
    allowList.all (fun a => table.any (fun s => s.prov == .param && a.fn == s.fn && a.kind == s.kind && a.root == s.root)) = true := by
  decide

/-- the helpers the provenance analysis relies on as "copying" are derived, not assumed: all
their reference-carrying results are fresh according to the analysis of their bodies
(`toHashAndPos` copies both slices before sorting, `copySortedFunc`, `translatePositions`,
`ProofPositions`, `mergeSortedHashAndPos`, `getHashAndPosSubset` allocate) -/
theorem copying_helpers_fresh :
    [Fn.toHashAndPos, .copySortedFunc, .translatePositions, .ProofPositions, .mergeSortedHashAndPos,
     .getHashAndPosSubset, .calculateHashesAndRows].all (freshResult.contains ·) = true := by decide

/-- the analysed entry points are exactly the property's API set (plus the root getters whose
results the harness tracks) -/
theorem entries_are_the_api_set :
    entries = [.AddProof, .GetProofSubset, .MapPollard_GetMissingPositions, .MapPollard_GetRoots,
      .MapPollard_Modify, .MapPollard_Prove, .MapPollard_Undo, .MapPollard_Verify,
      .MapPollard_VerifyPartialProof, .Pollard_GetRoots, .Pollard_Modify, .Pollard_Prove,
      .Pollard_Undo, .Pollard_Verify, .Proof_Undo, .Proof_Update, .Stump_Update, .Verify] := by decide

/-- non-vacuity: the table is not trivial — it lists the in-place helpers' writes, which are
accepted only because every caller hands them a fresh copy -/
example : table.length ≥ 100 := by decide +kernel
example : (table.filter (fun s => s.fn == .deTwin || s.fn == .insertInOrder || s.fn == .hashAndPos_Swap ||
    s.fn == .subtractSortedSlice)).length ≥ 6 := by decide
example : (table.filter (fun s => s.prov == .param)).length = allowList.length := by decide
example : accepted ⟨.Pollard_remove, .sortInPlace, .v_dels, .param, 0⟩ = false := by decide
example : accepted ⟨.Pollard_remove, .sortInPlace, .v_dels, .unknown, 0⟩ = false := by decide

end UtreexoVerif.Props.C17
