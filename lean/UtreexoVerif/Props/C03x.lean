/-
  C03x — verification is sound, in COLLISION-EXTRACTING form (no global `CR H` hypothesis).

  `Props/C03.lean`, `C03b.lean`, `C03c.lean` prove "an accepted proof only states true facts" under
  `CR H` (`ph` injective and never zero).  `CR H` is unsatisfiable for every finite hash type
  (`Props/C13MapNote.lean: cr_hashBytesOK_incompatible`), so for a real 32-byte hash those theorems
  are vacuous, and "true ∨ ∃ a b c d, collision" is trivial by pigeonhole.  Here the statement is

      accepted  ⇒  every claim is true  ∨  `Collision F hashes targets proof`

  for EVERY hash type, where `Collision` names an explicit witness among finitely many values that
  are computed from the verifier's input and the forest:

  * `hashedPairs n hashes targets proof` (`Model/CalcX.lean`) — the argument pairs of every
    `parentHash` call the model of `calculateHashes` makes on that input (an instrumented twin of
    the model that provably projects to it: `Proofs.CalcSoundX.calculateHashesX_fst`);
  * `F.nodePairs`, `F.upLeaves` (`Spec/NodePairs.lean`) — the child-hash pairs of the internal nodes
    of `F`, and the hashes of the live leaves of `F` that have moved up to a row `≥ 1`.

  A hashed pair `x` is a collision witness when
    (1) `ph x.1 x.2 = zero`                                   — a zero output,
    (2) `ph x.1 x.2 = ph y.1 y.2`, `x ≠ y`, `y ∈ F.nodePairs`  — a collision with a node of `F`,
    (3) `ph x.1 x.2 ∈ F.upLeaves`                             — a pre-image of a moved-up LEAF hash
        under `ph` (leaf/inner-node confusion; not excluded by `CR`: this is what the hypothesis
        `LeafOK F` of the old theorems rules out, and `Example.confusion` shows the disjunct is
        needed — without it the statement is false).
  NO hypothesis on `F` is needed beyond `F.numLeaves ≤ 2^63`.

  That `hashedPairs` is what the Go code passes to `parentHash` was also checked by execution:
  178 runs of stump.go `Verify` (59 accepted, 119 rejected after a corrupted hash) on random forests
  with deletions, SHA-512/256, `getNextHash` instrumented in a scratch clone — 4342 pairs, all equal
  to the Lean value of `hashedPairs` in order.

  * `verify_sound_extract`, `pollardVerify_sound_extract`, `mapVerify_sound_extract`: main theorems;
    `…_strong`: in the left disjunct additionally every hashed pair is a pair of `F`;
  * `verify_extracts`: the EXTRACTOR — `findCollision F hashes targets proof` (executable) returns
    the witness pair whenever a false claim is accepted (`collision_iff_findCollision`);
    `verify_sound_extract_at`: at a valid `(r, o)` the accepted hash is the node's hash, or collision;
  * `verify_sound_extract_leafOK`: under `LeafOK F` disjunct (3) disappears (`Collision2`);
  * `ForestHyg F` (finite, decidable hygiene of the forest's own nodes): under it the witness pair
    is FOREIGN to the forest (`x ∉ F.nodePairs`, `verify_sound_extract_hyg`), and for an accepted
    run `Collision` holds IFF some hashed pair is foreign (`collision_iff_foreign_pair`); holds under `CR`
    (`ForestHyg.of_CR`) and for a forest over a finite toy hash (`Example.hygB`);
  * `verify_sound_of_CR` (+ pollard/map): under `CR H` and `LeafOK F` no `Collision` exists, which
    gives back the statements of `Props/C03b.lean` (`verify_sound_spec_statement_of_extract`), now
    for `F.numLeaves ≤ 2^63` instead of `< 2^63`;
  * `stump_delSt_sound_extract`, `stump_update_sound_extract`: acceptance by `Stump.del` /
    `Stump.Update` has the same consequence;
  * `Example`: a FINITE hash (`B8`, one byte, `ph a b = 31a + b + 1`, for which `CR` is false):
    an accepted true claim (left disjunct, `Collision` decidably false), an accepted FALSE claim
    produced by a real collision of the toy hash with the `Collision` witness computed, and an
    accepted FALSE claim produced by leaf/inner-node confusion (disjunct (3)).
-/
import UtreexoVerif.Props.C03b
import UtreexoVerif.Proofs.SpecViewX
import UtreexoVerif.Model.Stump

namespace UtreexoVerif.Props.C03x
open UtreexoVerif Model Hasher Spec
open UtreexoVerif.Proofs UtreexoVerif.Proofs.SpecNodes UtreexoVerif.Proofs.SpecView
open UtreexoVerif.Proofs.CalcSoundX UtreexoVerif.Proofs.SpecViewX
open UtreexoVerif.Props.C03b (TrueClaim)

section
set_option linter.unusedSectionVars false
variable {H : Type} [DecidableEq H] [Hasher H]

/-! ### the statement's vocabulary -/

/-- what makes a hashed pair `x` a collision witness against the forest `F` -/
def PairBad (F : Forest H) (x : H × H) : Prop :=
  ph x.1 x.2 = (zero : H) ∨ ph x.1 x.2 ∈ F.upLeaves ∨
    ∃ y ∈ F.nodePairs, ph x.1 x.2 = ph y.1 y.2 ∧ x ≠ y

/-- **an explicit collision**: one of the pairs the verifier hashed on input
`(F.numLeaves, hashes, targets, proof)` hashes to zero, to a moved-up leaf hash of `F`, or to the
hash of an internal node of `F` that was produced from a different pair.  All witnesses range over
finite lists computed from the input and the forest; the proposition is decidable. -/
def Collision (F : Forest H) (hs : List H) (ts : List U64) (ps : List H) : Prop :=
  ∃ x ∈ hashedPairs (BitVec.ofNat 64 F.numLeaves) hs ts ps, PairBad F x

/-- the two-disjunct form (zero output, or collision with a node pair of `F`) -/
def Collision2 (F : Forest H) (hs : List H) (ts : List U64) (ps : List H) : Prop :=
  ∃ x ∈ hashedPairs (BitVec.ofNat 64 F.numLeaves) hs ts ps,
    ph x.1 x.2 = (zero : H) ∨ ∃ y ∈ F.nodePairs, ph x.1 x.2 = ph y.1 y.2 ∧ x ≠ y

instance (F : Forest H) (x : H × H) : Decidable (PairBad F x) := by
  unfold PairBad; infer_instance

instance (F : Forest H) (hs : List H) (ts : List U64) (ps : List H) :
    Decidable (Collision F hs ts ps) := by
  unfold Collision; infer_instance

instance (F : Forest H) (hs : List H) (ts : List U64) (ps : List H) :
    Decidable (Collision2 F hs ts ps) := by
  unfold Collision2; infer_instance

theorem forestBad_iff (F : Forest H) (a b : H) : ForestBad F a b ↔ PairBad F (a, b) := Iff.rfl

/-- truth of a claim is a computable look-up: decode the target, read the node -/
theorem trueClaim_iff {F : Forest H} (hn : F.numLeaves ≤ 2 ^ 63) (x : U64 × H) :
    TrueClaim F x ↔ viewNodeAt F x.1 = some x.2 := by
  constructor
  · rintro ⟨r, o, hr, ho, h1, h2⟩
    rw [h1, viewNodeAt_encU' hn hr ho]
    exact h2
  · exact viewNodeAt_eq_some

instance (F : Forest H) (x : U64 × H) : Decidable (viewNodeAt F x.1 = some x.2) := inferInstance

/-! ### the main theorems -/

theorem collision_of_core {F : Forest H} {hs : List H} {ts : List U64} {ps : List H}
    (h : ∃ x ∈ hashedPairs (BitVec.ofNat 64 F.numLeaves) hs ts ps,
      ph x.1 x.2 = (zero : H) ∨ ForestBad F x.1 x.2) : Collision F hs ts ps := by
  obtain ⟨x, hx, hb⟩ := h
  refine ⟨x, hx, ?_⟩
  rcases hb with h0 | hb
  · exact Or.inl h0
  · exact hb

/-- **`Verify` is sound, collision-extracting form — strong version.**  If `Verify` accepts, then
EITHER every claim is true AND every pair the verifier hashed is a pair of the forest (the run
replays the forest's own hashing), OR an explicit collision exists. -/
theorem verify_sound_extract_strong (F : Forest H) (hn : F.numLeaves ≤ 2 ^ 63)
    {hs : List H} {ts : List U64} {ps : List H} {idx : List Nat}
    (hnz : ∀ h ∈ hs, h ≠ (zero : H))
    (h : verify (BitVec.ofNat 64 F.numLeaves) F.roots hs ts ps = .ok idx) :
    ((∀ x ∈ ts.zip hs, TrueClaim F x) ∧
      ∀ x ∈ hashedPairs (BitVec.ofNat 64 F.numLeaves) hs ts ps, x ∈ F.nodePairs) ∨
    Collision F hs ts ps := by
  rcases verify_sound_x (specViewX F hn) hnz h with ⟨ht, hg⟩ | hc
  · exact Or.inl ⟨fun x hx => viewNodeAt_eq_some (ht x hx), hg⟩
  · exact Or.inr (collision_of_core hc)

/-- **`Verify` is sound, collision-extracting form.**  For every hash type `H` — finite or not,
no `CR` — and every specification forest `F` with at most `2^63` leaves: if the model of
stump.go's `Verify` accepts `(hashes, targets, proof)` against `(F.numLeaves, F.roots)` and the
claimed hashes are non-zero, then EITHER every claim is true (each target is the encoding of a
valid position of `F` whose node has the claimed hash) OR an explicit collision exists among the
pairs the verifier hashed on this input and the nodes of `F`. -/
theorem verify_sound_extract (F : Forest H) (hn : F.numLeaves ≤ 2 ^ 63)
    {hs : List H} {ts : List U64} {ps : List H} {idx : List Nat}
    (hnz : ∀ h ∈ hs, h ≠ (zero : H))
    (h : verify (BitVec.ofNat 64 F.numLeaves) F.roots hs ts ps = .ok idx) :
    (∀ x ∈ ts.zip hs, TrueClaim F x) ∨ Collision F hs ts ps :=
  (verify_sound_extract_strong F hn hnz h).imp_left And.left

/-- `Pollard.Verify`, collision-extracting form (strong version) -/
theorem pollardVerify_sound_extract_strong (F : Forest H) (hn : F.numLeaves ≤ 2 ^ 63)
    {hs : List H} {ts : List U64} {ps : List H}
    (hnz : ∀ h ∈ hs, h ≠ (zero : H))
    (h : pollardVerify (BitVec.ofNat 64 F.numLeaves) F.roots hs ts ps = .ok ()) :
    ((∀ x ∈ ts.zip hs, TrueClaim F x) ∧
      ∀ x ∈ hashedPairs (BitVec.ofNat 64 F.numLeaves) hs ts ps, x ∈ F.nodePairs) ∨
    Collision F hs ts ps := by
  rcases pollardVerify_sound_x (specViewX F hn) hnz h with ⟨ht, hg⟩ | hc
  · exact Or.inl ⟨fun x hx => viewNodeAt_eq_some (ht x hx), hg⟩
  · exact Or.inr (collision_of_core hc)

/-- `Pollard.Verify`, collision-extracting form -/
theorem pollardVerify_sound_extract (F : Forest H) (hn : F.numLeaves ≤ 2 ^ 63)
    {hs : List H} {ts : List U64} {ps : List H}
    (hnz : ∀ h ∈ hs, h ≠ (zero : H))
    (h : pollardVerify (BitVec.ofNat 64 F.numLeaves) F.roots hs ts ps = .ok ()) :
    (∀ x ∈ ts.zip hs, TrueClaim F x) ∨ Collision F hs ts ps :=
  (pollardVerify_sound_extract_strong F hn hnz h).imp_left And.left

/-- `MapPollard.verify` with `TotalRows = TreeRows`, collision-extracting form (strong version) -/
theorem mapVerify_sound_extract_strong (F : Forest H) (hn : F.numLeaves ≤ 2 ^ 63)
    {hs : List H} {ts : List U64} {ps : List H} {idx : List Nat}
    (hnz : ∀ h ∈ hs, h ≠ (zero : H))
    (h : mapVerify (BitVec.ofNat 64 F.numLeaves) (TreeRows (BitVec.ofNat 64 F.numLeaves)) F.roots
      hs ts ps = .ok idx) :
    ((∀ x ∈ ts.zip hs, TrueClaim F x) ∧
      ∀ x ∈ hashedPairs (BitVec.ofNat 64 F.numLeaves) hs ts ps, x ∈ F.nodePairs) ∨
    Collision F hs ts ps := by
  rcases mapVerify_sound_x (specViewX F hn) hnz h with ⟨ht, hg⟩ | hc
  · exact Or.inl ⟨fun x hx => viewNodeAt_eq_some (ht x hx), hg⟩
  · exact Or.inr (collision_of_core hc)

/-- `MapPollard.verify` with `TotalRows = TreeRows`, collision-extracting form -/
theorem mapVerify_sound_extract (F : Forest H) (hn : F.numLeaves ≤ 2 ^ 63)
    {hs : List H} {ts : List U64} {ps : List H} {idx : List Nat}
    (hnz : ∀ h ∈ hs, h ≠ (zero : H))
    (h : mapVerify (BitVec.ofNat 64 F.numLeaves) (TreeRows (BitVec.ofNat 64 F.numLeaves)) F.roots
      hs ts ps = .ok idx) :
    (∀ x ∈ ts.zip hs, TrueClaim F x) ∨ Collision F hs ts ps :=
  (mapVerify_sound_extract_strong F hn hnz h).imp_left And.left

/-- the full statement, as a closed proposition (for the audit) -/
def verify_sound_extract_statement (H : Type) [DecidableEq H] [Hasher H] : Prop :=
  ∀ (F : Forest H), F.numLeaves ≤ 2 ^ 63 →
  ∀ (hs : List H) (ts : List U64) (ps : List H) (idx : List Nat),
    (∀ h ∈ hs, h ≠ (zero : H)) →
    verify (BitVec.ofNat 64 F.numLeaves) F.roots hs ts ps = .ok idx →
    (∀ x ∈ ts.zip hs, TrueClaim F x) ∨
    ∃ x ∈ hashedPairs (BitVec.ofNat 64 F.numLeaves) hs ts ps,
      ph x.1 x.2 = (zero : H) ∨ ph x.1 x.2 ∈ F.upLeaves ∨
        ∃ y ∈ F.nodePairs, ph x.1 x.2 = ph y.1 y.2 ∧ x ≠ y

theorem verify_sound_extract_full : verify_sound_extract_statement H :=
  fun F hn _ _ _ _ hnz h => verify_sound_extract F hn hnz h

/-- the contrapositive reading: an accepted FALSE claim yields the collision -/
theorem collision_of_false_claim (F : Forest H) (hn : F.numLeaves ≤ 2 ^ 63)
    {hs : List H} {ts : List U64} {ps : List H} {idx : List Nat}
    (hnz : ∀ h ∈ hs, h ≠ (zero : H))
    (h : verify (BitVec.ofNat 64 F.numLeaves) F.roots hs ts ps = .ok idx)
    {x : U64 × H} (hx : x ∈ ts.zip hs) (hfalse : ¬ TrueClaim F x) : Collision F hs ts ps := by
  rcases verify_sound_extract F hn hnz h with ht | hc
  · exact absurd (ht x hx) hfalse
  · exact hc

/-- at a valid position the claimed hash is THE hash of the node there (or a collision exists) -/
theorem verify_sound_extract_at (F : Forest H) (hn : F.numLeaves ≤ 2 ^ 63)
    {hs : List H} {ts : List U64} {ps : List H} {idx : List Nat}
    (hnz : ∀ h ∈ hs, h ≠ (zero : H))
    (h : verify (BitVec.ofNat 64 F.numLeaves) F.roots hs ts ps = .ok idx)
    {r o : Nat} {c : H} (hr : r ≤ F.rows) (ho : o < 2 ^ (F.rows - r))
    (hx : (encU F.rows r o, c) ∈ ts.zip hs) :
    F.nodeAt (r, o) = some c ∨ Collision F hs ts ps := by
  rcases verify_sound_extract F hn hnz h with ht | hc
  · left
    have := (trueClaim_iff hn _).1 (ht _ hx)
    rwa [viewNodeAt_encU' hn hr ho] at this
  · exact Or.inr hc

/-! ### the extractor: the collision is COMPUTED from the input and the forest -/

/-- the first hashed pair that is a collision witness against `F` (executable) -/
def findCollision (F : Forest H) (hs : List H) (ts : List U64) (ps : List H) : Option (H × H) :=
  (hashedPairs (BitVec.ofNat 64 F.numLeaves) hs ts ps).find? (fun x => decide (PairBad F x))

/-- the pair of `F` a hashed pair collides with, if that is how it is bad (executable) -/
def collidesWith (F : Forest H) (x : H × H) : Option (H × H) :=
  F.nodePairs.find? (fun y => decide (ph x.1 x.2 = ph y.1 y.2 ∧ x ≠ y))

theorem findCollision_some {F : Forest H} {hs : List H} {ts : List U64} {ps : List H} {x : H × H}
    (h : findCollision F hs ts ps = some x) :
    x ∈ hashedPairs (BitVec.ofNat 64 F.numLeaves) hs ts ps ∧ PairBad F x := by
  unfold findCollision at h
  exact ⟨List.mem_of_find?_eq_some h, by simpa using List.find?_some h⟩

theorem collidesWith_some {F : Forest H} {x y : H × H} (h : collidesWith F x = some y) :
    y ∈ F.nodePairs ∧ ph x.1 x.2 = ph y.1 y.2 ∧ x ≠ y := by
  unfold collidesWith at h
  exact ⟨List.mem_of_find?_eq_some h, by simpa using List.find?_some h⟩

theorem collision_iff_findCollision (F : Forest H) (hs : List H) (ts : List U64) (ps : List H) :
    Collision F hs ts ps ↔ (findCollision F hs ts ps).isSome = true := by
  unfold Collision findCollision
  rw [List.find?_isSome]
  simp

/-- **the extractor is correct**: whenever `Verify` accepts a false claim, `findCollision`
RETURNS a pair `x` that the verifier hashed and that hashes to zero, to a moved-up leaf of `F`, or
to the hash of a node of `F` built from another pair -/
theorem verify_extracts (F : Forest H) (hn : F.numLeaves ≤ 2 ^ 63)
    {hs : List H} {ts : List U64} {ps : List H} {idx : List Nat}
    (hnz : ∀ h ∈ hs, h ≠ (zero : H))
    (h : verify (BitVec.ofNat 64 F.numLeaves) F.roots hs ts ps = .ok idx)
    {c : U64 × H} (hc : c ∈ ts.zip hs) (hfalse : ¬ TrueClaim F c) :
    ∃ x, findCollision F hs ts ps = some x ∧
      x ∈ hashedPairs (BitVec.ofNat 64 F.numLeaves) hs ts ps ∧ PairBad F x := by
  have hcol := collision_of_false_claim F hn hnz h hc hfalse
  rw [collision_iff_findCollision] at hcol
  obtain ⟨x, hx⟩ := Option.isSome_iff_exists.1 hcol
  exact ⟨x, hx, findCollision_some hx⟩

/-! ### under `LeafOK F`: the two-disjunct form -/

/-- a moved-up leaf whose hash is `ph` of a hashed pair contradicts `LeafOK` -/
theorem not_upLeaf_of_leafOK {F : Forest H} (hF : LeafOK F) {a b : H} (ha : a ≠ zero)
    (hb : b ≠ zero) : ph a b ∉ F.upLeaves := by
  intro hmem
  unfold Forest.upLeaves at hmem
  rw [List.mem_map] at hmem
  obtain ⟨x, hx, he⟩ := hmem
  rw [List.mem_filter] at hx
  obtain ⟨hx, hc⟩ := hx
  simp only [Bool.and_eq_true, decide_eq_true_eq] at hc
  exact hF x hx hc.1 hc.2 a b ha hb he

theorem Collision.to_two {F : Forest H} (hF : LeafOK F) {hs : List H} {ts : List U64}
    {ps : List H} (h : Collision F hs ts ps) : Collision2 F hs ts ps := by
  obtain ⟨x, hx, hb⟩ := h
  refine ⟨x, hx, ?_⟩
  obtain ⟨h1, h2⟩ := hashedPairs_nonzero _ _ _ _ x hx
  rcases hb with h0 | hl | hc
  · exact Or.inl h0
  · exact absurd hl (not_upLeaf_of_leafOK hF h1 h2)
  · exact Or.inr hc

/-- under `LeafOK F` (a hypothesis on the LEAVES of `F`, independent of the hash's
collision-freeness): accepted ⇒ true ∨ zero output ∨ collision with a node pair of `F` -/
theorem verify_sound_extract_leafOK (F : Forest H) (hF : LeafOK F) (hn : F.numLeaves ≤ 2 ^ 63)
    {hs : List H} {ts : List U64} {ps : List H} {idx : List Nat}
    (hnz : ∀ h ∈ hs, h ≠ (zero : H))
    (h : verify (BitVec.ofNat 64 F.numLeaves) F.roots hs ts ps = .ok idx) :
    (∀ x ∈ ts.zip hs, TrueClaim F x) ∨ Collision2 F hs ts ps :=
  (verify_sound_extract F hn hnz h).imp_right (Collision.to_two hF)

/-! ### hygiene of the forest's own nodes -/

/-- **finite, decidable hygiene of a forest** (statements about `F` alone, satisfiable for real
hashes): live leaves are non-zero and differ from the hashes of `F`'s internal nodes, those
hashes are non-zero, and `ph` is injective ON THE PAIRS OF `F`. -/
structure ForestHyg (F : Forest H) : Prop where
  leaf_nonzero : ∀ l ∈ F.liveLeaves, l ≠ (zero : H)
  leaf_not_inner : ∀ l ∈ F.liveLeaves, ∀ y ∈ F.nodePairs, l ≠ ph y.1 y.2
  inner_nonzero : ∀ y ∈ F.nodePairs, ph y.1 y.2 ≠ (zero : H)
  pairs_inj : ∀ y ∈ F.nodePairs, ∀ z ∈ F.nodePairs, ph y.1 y.2 = ph z.1 z.2 → y = z

instance (F : Forest H) : Decidable (ForestHyg F) :=
  decidable_of_iff
    ((∀ l ∈ F.liveLeaves, l ≠ (zero : H)) ∧
     (∀ l ∈ F.liveLeaves, ∀ y ∈ F.nodePairs, l ≠ ph y.1 y.2) ∧
     (∀ y ∈ F.nodePairs, ph y.1 y.2 ≠ (zero : H)) ∧
     (∀ y ∈ F.nodePairs, ∀ z ∈ F.nodePairs, ph y.1 y.2 = ph z.1 z.2 → y = z))
    ⟨fun ⟨a, b, c, d⟩ => ⟨a, b, c, d⟩, fun ⟨a, b, c, d⟩ => ⟨a, b, c, d⟩⟩

/-- under `CR`, hygiene only asks the leaves to be non-zero and not parent hashes -/
theorem ForestHyg.of_CR {F : Forest H} (cr : CR H)
    (h0 : ∀ l ∈ F.liveLeaves, l ≠ (zero : H))
    (hl : ∀ l ∈ F.liveLeaves, ∀ a b : H, l ≠ ph a b) : ForestHyg F where
  leaf_nonzero := h0
  leaf_not_inner := fun l hl' y _ => hl l hl' y.1 y.2
  inner_nonzero := fun y _ => cr.nonzero y.1 y.2
  pairs_inj := fun _ _ _ _ h => Prod.ext (cr.inj _ _ _ _ h).1 (cr.inj _ _ _ _ h).2

theorem upLeaves_live {F : Forest H} {l : H} (h : l ∈ F.upLeaves) : l ∈ F.liveLeaves := by
  unfold Forest.upLeaves at h
  rw [List.mem_map] at h
  obtain ⟨x, hx, rfl⟩ := h
  rw [List.mem_filter] at hx
  obtain ⟨hx, hc⟩ := hx
  simp only [Bool.and_eq_true, decide_eq_true_eq] at hc
  exact leaf_node_live hx hc.1

/-- a hygienic forest has no collision witness among its own pairs -/
theorem ForestHyg.not_bad {F : Forest H} (hyg : ForestHyg F) {x : H × H} (hx : x ∈ F.nodePairs) :
    ¬ PairBad F x := by
  rintro (h0 | hl | ⟨y, hy, he, hne⟩)
  · exact hyg.inner_nonzero x hx h0
  · exact hyg.leaf_not_inner _ (upLeaves_live hl) x hx rfl
  · exact hne (hyg.pairs_inj x hx y hy he)

/-- the collision witness is foreign to the forest: a pair the prover brought, not one of `F` -/
def CollisionForeign (F : Forest H) (hs : List H) (ts : List U64) (ps : List H) : Prop :=
  ∃ x ∈ hashedPairs (BitVec.ofNat 64 F.numLeaves) hs ts ps, x ∉ F.nodePairs ∧ PairBad F x

theorem Collision.foreign {F : Forest H} (hyg : ForestHyg F) {hs : List H} {ts : List U64}
    {ps : List H} (h : Collision F hs ts ps) : CollisionForeign F hs ts ps := by
  obtain ⟨x, hx, hb⟩ := h
  exact ⟨x, hx, fun hmem => hyg.not_bad hmem hb, hb⟩

/-- for a hygienic forest: accepted ⇒ true ∨ a collision whose witness pair is NOT a pair of the
forest (the forest's own hashing never produces the witness) -/
theorem verify_sound_extract_hyg (F : Forest H) (hyg : ForestHyg F) (hn : F.numLeaves ≤ 2 ^ 63)
    {hs : List H} {ts : List U64} {ps : List H} {idx : List Nat}
    (hnz : ∀ h ∈ hs, h ≠ (zero : H))
    (h : verify (BitVec.ofNat 64 F.numLeaves) F.roots hs ts ps = .ok idx) :
    (∀ x ∈ ts.zip hs, TrueClaim F x) ∨ CollisionForeign F hs ts ps :=
  (verify_sound_extract F hn hnz h).imp_right (Collision.foreign hyg)

/-- **for a hygienic forest the collision disjunct is exact**: an accepted run has a collision
IF AND ONLY IF the verifier hashed a pair that is not a pair of the forest.  (So honest proofs —
whose hashing replays the forest's — never trigger the right disjunct, and the right disjunct
always exhibits a pair brought by the prover.) -/
theorem collision_iff_foreign_pair (F : Forest H) (hyg : ForestHyg F) (hn : F.numLeaves ≤ 2 ^ 63)
    {hs : List H} {ts : List U64} {ps : List H} {idx : List Nat}
    (hnz : ∀ h ∈ hs, h ≠ (zero : H))
    (h : verify (BitVec.ofNat 64 F.numLeaves) F.roots hs ts ps = .ok idx) :
    Collision F hs ts ps ↔
      ∃ x ∈ hashedPairs (BitVec.ofNat 64 F.numLeaves) hs ts ps, x ∉ F.nodePairs := by
  constructor
  · intro hc
    obtain ⟨x, hx, hne, _⟩ := hc.foreign hyg
    exact ⟨x, hx, hne⟩
  · rintro ⟨x, hx, hne⟩
    rcases verify_sound_extract_strong F hn hnz h with ⟨_, hg⟩ | hc
    · exact absurd (hg x hx) hne
    · exact hc

/-! ### under `CR`: the old theorems are corollaries -/

/-- under `CR H` and `LeafOK F` there is no collision -/
theorem not_collision_of_CR {F : Forest H} (cr : CR H) (hF : LeafOK F) (hs : List H)
    (ts : List U64) (ps : List H) : ¬ Collision F hs ts ps := by
  intro h
  obtain ⟨x, _, hb⟩ := Collision.to_two hF h
  rcases hb with h0 | ⟨y, _, he, hne⟩
  · exact cr.nonzero _ _ h0
  · exact hne (Prod.ext (cr.inj _ _ _ _ he).1 (cr.inj _ _ _ _ he).2)

/-- **corollary: the `CR` form** (the conclusion of `C03b.verify_sound_spec_full`, for
`F.numLeaves ≤ 2^63`) -/
theorem verify_sound_of_CR {F : Forest H} (cr : CR H) (hF : LeafOK F) (hn : F.numLeaves ≤ 2 ^ 63)
    {hs : List H} {ts : List U64} {ps : List H} {idx : List Nat}
    (hnz : ∀ h ∈ hs, h ≠ (zero : H))
    (h : verify (BitVec.ofNat 64 F.numLeaves) F.roots hs ts ps = .ok idx) :
    ∀ x ∈ ts.zip hs, TrueClaim F x :=
  (verify_sound_extract F hn hnz h).resolve_right (not_collision_of_CR cr hF hs ts ps)

theorem pollardVerify_sound_of_CR {F : Forest H} (cr : CR H) (hF : LeafOK F)
    (hn : F.numLeaves ≤ 2 ^ 63) {hs : List H} {ts : List U64} {ps : List H}
    (hnz : ∀ h ∈ hs, h ≠ (zero : H))
    (h : pollardVerify (BitVec.ofNat 64 F.numLeaves) F.roots hs ts ps = .ok ()) :
    ∀ x ∈ ts.zip hs, TrueClaim F x :=
  (pollardVerify_sound_extract F hn hnz h).resolve_right (not_collision_of_CR cr hF hs ts ps)

theorem mapVerify_sound_of_CR {F : Forest H} (cr : CR H) (hF : LeafOK F)
    (hn : F.numLeaves ≤ 2 ^ 63) {hs : List H} {ts : List U64} {ps : List H} {idx : List Nat}
    (hnz : ∀ h ∈ hs, h ≠ (zero : H))
    (h : mapVerify (BitVec.ofNat 64 F.numLeaves) (TreeRows (BitVec.ofNat 64 F.numLeaves)) F.roots
      hs ts ps = .ok idx) :
    ∀ x ∈ ts.zip hs, TrueClaim F x :=
  (mapVerify_sound_extract F hn hnz h).resolve_right (not_collision_of_CR cr hF hs ts ps)

/-- the three statements of `Props/C03b.lean`, re-derived from the extracting theorems -/
theorem verify_sound_spec_statement_of_extract : C03b.verify_sound_spec_statement H :=
  fun _ cr hF hn _ _ _ _ hnz h => verify_sound_of_CR cr hF (Nat.le_of_lt hn) hnz h

theorem pollardVerify_sound_spec_statement_of_extract :
    C03b.pollardVerify_sound_spec_statement H :=
  fun _ cr hF hn _ _ _ hnz h => pollardVerify_sound_of_CR cr hF (Nat.le_of_lt hn) hnz h

theorem mapVerify_sound_spec_statement_of_extract : C03b.mapVerify_sound_spec_statement H :=
  fun _ cr hF hn _ _ _ _ hnz h => mapVerify_sound_of_CR cr hF (Nat.le_of_lt hn) hnz h

/-! ### `Stump.del` / `Stump.Update`: acceptance has the same consequence -/

/-- the stump of a specification forest (as `Props.C01b.stumpOf`) -/
def stumpOf (F : Forest H) : Stump H := ⟨F.roots, BitVec.ofNat 64 F.numLeaves⟩

theorem delSt_ok_verify {s : Stump H} {hs : List H} {ts : List U64} {ps : List H} {nd : HP H}
    (h : (s.delSt hs ts ps).2 = .ok nd) : ∃ idx, verify s.numLeaves s.roots hs ts ps = .ok idx := by
  unfold Stump.delSt at h
  cases hv : verify s.numLeaves s.roots hs ts ps with
  | ok idx => exact ⟨idx, rfl⟩
  | err => rw [hv] at h; simp at h
  | panic => rw [hv] at h; simp at h
  | hang => rw [hv] at h; simp at h

/-- **`Stump.del` (the deletion half of `Stump.Update`)**: if it accepts the deletion of
`hashes` at `targets`, every deleted `(target, hash)` was a node of `F` — or an explicit
collision exists -/
theorem stump_delSt_sound_extract (F : Forest H) (hn : F.numLeaves ≤ 2 ^ 63)
    {hs : List H} {ts : List U64} {ps : List H} {nd : HP H}
    (hnz : ∀ h ∈ hs, h ≠ (zero : H))
    (h : ((stumpOf F).delSt hs ts ps).2 = .ok nd) :
    (∀ x ∈ ts.zip hs, TrueClaim F x) ∨ Collision F hs ts ps := by
  obtain ⟨idx, hv⟩ := delSt_ok_verify h
  exact verify_sound_extract F hn hnz hv

/-- **`Stump.Update`**: a block whose deletions are accepted only deletes nodes of `F` — or an
explicit collision exists -/
theorem stump_update_sound_extract (F : Forest H) (hn : F.numLeaves ≤ 2 ^ 63) (nonZero : H)
    {dels adds : List H} {ts : List U64} {ps : List H} {r : Stump H × UpdateData H}
    (hnz : ∀ h ∈ dels, h ≠ (zero : H))
    (h : (stumpOf F).update nonZero dels adds ts ps = .ok r) :
    (∀ x ∈ ts.zip dels, TrueClaim F x) ∨ Collision F dels ts ps := by
  unfold Stump.update Stump.updateSt at h
  cases hd : (stumpOf F).delSt dels ts ps with
  | mk s1 o =>
    cases o with
    | ok nd =>
      exact stump_delSt_sound_extract F hn hnz (nd := nd) (by rw [hd])
    | err => rw [hd] at h; simp at h
    | panic => rw [hd] at h; simp at h
    | hang => rw [hd] at h; simp at h

end

/-! ### non-vacuity on a FINITE hash type -/

namespace Example

/-- a one-byte hash (256 values): `ph a b = 31·a + b + 1 (mod 256)`, zero hash `0` -/
structure B8 where
  v : U8
deriving DecidableEq, Repr

instance : Hasher B8 := ⟨fun a b => ⟨a.v * 31#8 + b.v + 1#8⟩, ⟨0#8⟩⟩

def b (n : Nat) : B8 := ⟨BitVec.ofNat 8 n⟩

/-- `CR` is FALSE for this hash: `ph 10 50 = ph 11 19` (both `105`) -/
theorem not_CR : ¬ CR B8 := by
  intro cr
  have := (cr.inj (b 10) (b 50) (b 11) (b 19) (by decide)).1
  exact absurd this (by decide)

/-- … and it has zero outputs: `ph 8 7 = 0` -/
example : ph (b 8) (b 7) = (zero : B8) := by decide

/-! #### (a) an accepted TRUE claim

Five slots, slot 1 dead (the forest of `Props/C03b.lean`'s example, over `B8`):
```
row 2:            (2,0)
row 1:   (1,0) = leaf 1 (moved up)      (1,1) = ph 3 4
row 0:                             (0,2) = leaf 3   (0,3) = leaf 4        (0,4) = leaf 5
```
-/

def FA : Forest B8 := ⟨[some (b 1), none, some (b 3), some (b 4), some (b 5)]⟩

theorem smallA : FA.numLeaves ≤ 2 ^ 63 := by decide

/-- the hygiene hypotheses hold for `FA` — over a hash for which `CR` is impossible -/
theorem hygA : ForestHyg FA := by decide +kernel

example : FA.nodePairs = [(b 1, b 98), (b 3, b 4)] := by decide +kernel
example : FA.upLeaves = [b 1] := by decide +kernel

/-- leaf 1 at its moved-up position 8 = `(1,0)` and leaf 3 at position 2, proof hash leaf 4 -/
theorem acceptedA :
    verify (BitVec.ofNat 64 FA.numLeaves) FA.roots [b 1, b 3] [8#64, 2#64] [b 4] = .ok [0] := by
  decide +kernel

/-- what the verifier hashed: exactly two pairs, both pairs of the forest -/
example : hashedPairs (BitVec.ofNat 64 FA.numLeaves) [b 1, b 3] [8#64, 2#64] [b 4]
    = [(b 3, b 4), (b 1, b 98)] := by decide +kernel

/-- `collision_iff_foreign_pair` on this run: both hashed pairs are pairs of `FA` -/
example : ¬ Collision FA [b 1, b 3] [8#64, 2#64] [b 4] := by
  rw [collision_iff_foreign_pair FA hygA smallA (by decide) acceptedA]
  decide +kernel

/-- no collision on this input (decided by evaluation) … -/
theorem no_collisionA : ¬ Collision FA [b 1, b 3] [8#64, 2#64] [b 4] := by decide +kernel

/-- … so the theorem yields the LEFT disjunct: both claims are true -/
theorem trueA : ∀ x ∈ [8#64, 2#64].zip [b 1, b 3], TrueClaim FA x :=
  (verify_sound_extract FA smallA (by decide) acceptedA).resolve_right no_collisionA

example : FA.nodeAt (1, 0) = some (b 1) ∧ FA.nodeAt (0, 2) = some (b 3) := by decide +kernel

/-! #### (b) an accepted FALSE claim from a real collision, with the witness

Two leaves `10`, `50`; root `ph 10 50 = 105`.  The prover claims "position 0 holds `11`" with the
proof hash `19`: `ph 11 19 = 105` as well, so `Verify` accepts.  The theorem's right disjunct
holds, and its witness is the colliding pair itself. -/

def FB : Forest B8 := ⟨[some (b 10), some (b 50)]⟩

theorem smallB : FB.numLeaves ≤ 2 ^ 63 := by decide

theorem hygB : ForestHyg FB := by decide +kernel

example : FB.roots = [b 105] := by decide +kernel
example : FB.nodePairs = [(b 10, b 50)] := by decide +kernel

theorem acceptedB :
    verify (BitVec.ofNat 64 FB.numLeaves) FB.roots [b 11] [0#64] [b 19] = .ok [0] := by
  decide +kernel

/-- the claim is FALSE: position 0 holds `10`, not `11` -/
theorem falseB : ¬ TrueClaim FB (0#64, b 11) := by
  rw [trueClaim_iff smallB]; decide +kernel

example : FB.nodeAt (0, 0) = some (b 10) := by decide +kernel

example : hashedPairs (BitVec.ofNat 64 FB.numLeaves) [b 11] [0#64] [b 19] = [(b 11, b 19)] := by
  decide +kernel

/-- the collision delivered by the theorem … -/
theorem collisionB : Collision FB [b 11] [0#64] [b 19] :=
  collision_of_false_claim FB smallB (by decide) acceptedB (x := (0#64, b 11)) (by decide) falseB

/-- … and its witness, computed: the hashed pair `(11, 19)` against the forest pair `(10, 50)` -/
theorem collisionB_witness : Collision FB [b 11] [0#64] [b 19] :=
  ⟨(b 11, b 19), by decide +kernel,
    Or.inr (Or.inr ⟨(b 10, b 50), by decide +kernel, by decide, by decide⟩)⟩

/-- the extractor run on the forged proof returns exactly that data -/
example : findCollision FB [b 11] [0#64] [b 19] = some (b 11, b 19) ∧
    collidesWith FB (b 11, b 19) = some (b 10, b 50) := by decide +kernel

/-- `verify_extracts` on this run -/
example : ∃ x, findCollision FB [b 11] [0#64] [b 19] = some x ∧
    x ∈ hashedPairs (BitVec.ofNat 64 FB.numLeaves) [b 11] [0#64] [b 19] ∧ PairBad FB x :=
  verify_extracts FB smallB (by decide) acceptedB (c := (0#64, b 11)) (by decide) falseB

/-- the witness pair is foreign to the forest (`verify_sound_extract_hyg`) -/
example : CollisionForeign FB [b 11] [0#64] [b 19] := collisionB.foreign hygB

/-- the honest proof for the same position is accepted without any collision -/
example : verify (BitVec.ofNat 64 FB.numLeaves) FB.roots [b 10] [0#64] [b 50] = .ok [0] ∧
    ¬ Collision FB [b 10] [0#64] [b 50] := by decide +kernel

/-! #### (c) disjunct (3) is needed: leaf / inner-node confusion

Four slots, slot 1 dead, and leaf 0 carries the value `227 = ph 7 9`.  Leaf 0 has moved up to
`(1,0)`.  The prover claims "position 0 holds `7`" with proof `[9, ph 3 4]`: the verifier computes
`ph 7 9 = 227` for position 4 = `(1,0)` — the moved-up LEAF — and reaches the root.  Accepted,
false (position 0 is empty), no zero output, no collision with a node pair of the forest:
the only witness is "a hashed pair hashes to a moved-up leaf". -/

def FC : Forest B8 := ⟨[some (b 227), none, some (b 3), some (b 4)]⟩

theorem smallC : FC.numLeaves ≤ 2 ^ 63 := by decide

/-- the forest itself is hygienic -/
theorem hygC : ForestHyg FC := by decide +kernel

theorem acceptedC :
    verify (BitVec.ofNat 64 FC.numLeaves) FC.roots [b 7] [0#64] [b 9, b 98] = .ok [0] := by
  decide +kernel

theorem falseC : ¬ TrueClaim FC (0#64, b 7) := by
  rw [trueClaim_iff smallC]; decide +kernel

example : FC.nodeAt (0, 0) = none := by decide +kernel

/-- no zero output and no collision with a node pair of the forest … -/
theorem confusion_not_two : ¬ Collision2 FC [b 7] [0#64] [b 9, b 98] := by decide +kernel

/-- … but the three-disjunct `Collision` holds, with the leaf witness -/
theorem confusion : Collision FC [b 7] [0#64] [b 9, b 98] :=
  ⟨(b 7, b 9), by decide +kernel, Or.inr (Or.inl (by decide +kernel))⟩

example : findCollision FC [b 7] [0#64] [b 9, b 98] = some (b 7, b 9) ∧
    collidesWith FC (b 7, b 9) = none ∧ ph (b 7) (b 9) ∈ FC.upLeaves := by decide +kernel

/-- so "accepted ⇒ true ∨ `Collision2`" is FALSE without a hypothesis on the leaves -/
theorem two_disjuncts_insufficient :
    ¬ (∀ (F : Forest B8), F.numLeaves ≤ 2 ^ 63 → ∀ (hs : List B8) (ts : List U64) (ps : List B8)
        (idx : List Nat), (∀ h ∈ hs, h ≠ (zero : B8)) →
        verify (BitVec.ofNat 64 F.numLeaves) F.roots hs ts ps = .ok idx →
        (∀ x ∈ ts.zip hs, TrueClaim F x) ∨ Collision2 F hs ts ps) := by
  intro hall
  rcases hall FC smallC [b 7] [0#64] [b 9, b 98] [0] (by decide) acceptedC with ht | hc
  · exact falseC (ht (0#64, b 7) (by decide))
  · exact confusion_not_two hc

/-- `Stump.del` accepts the forged deletion of example (b); the theorem gives the collision -/
example : Collision FB [b 11] [0#64] [b 19] :=
  (stump_delSt_sound_extract FB smallB (nd := ((stumpOf FB).delSt [b 11] [0#64] [b 19]).2.toOption.getD [])
    (by decide) (by decide +kernel)).resolve_left
    (fun ht => falseB (ht (0#64, b 11) (by decide)))

end Example

end UtreexoVerif.Props.C03x

section Axioms
open UtreexoVerif.Props.C03x
#print axioms verify_sound_extract_strong
#print axioms verify_sound_extract
#print axioms collision_iff_foreign_pair
#print axioms pollardVerify_sound_extract
#print axioms mapVerify_sound_extract
#print axioms verify_sound_extract_full
#print axioms verify_sound_extract_at
#print axioms verify_extracts
#print axioms verify_sound_extract_leafOK
#print axioms verify_sound_extract_hyg
#print axioms verify_sound_of_CR
#print axioms verify_sound_spec_statement_of_extract
#print axioms stump_delSt_sound_extract
#print axioms stump_update_sound_extract
#print axioms Example.collisionB
#print axioms Example.collisionB_witness
#print axioms Example.confusion
#print axioms Example.two_disjuncts_insufficient
#print axioms Example.trueA
#print axioms Example.not_CR
end Axioms
