/-
  Property C09 — "a partial forest stores only true, needed hashes and can always prove its
  cache" — theorems about the transliterated model of mappollard.go (`Model/MapPollard.lean`).

  The invariant `Inv m F` (`Proofs/MapInv.lean`) relates a model state `m` to the
  specification forest `F`.  Proved here, for ALL states / forests (no bounds):

    * `inv_new`, `inv_fromRoots`          — `Inv` holds for `NewMapPollard(full)` and for
                                            `NewMapPollardFromRoots` at the roots of ANY forest;
    * `getHash_true`, `getLeafPosition_*`,
      `roots_eq`                          — look-ups of a state satisfying `Inv` tell the truth
                                            (property C10 for the map forest; C01 clause 4);
    * `inv_prune`                         — `Prune` preserves `Inv` (for the cache minus the pruned leaves);
    * `prove_canon`                       — under `Inv`, `Prove` of cached leaves = the canonical proof;
    * `inv_add_even`                      — adding a leaf to an even number of slots preserves `Inv`;
    * `invCheck_sound`                    — the executable check used by the driver implies `Inv`.

  The full preservation statement for every operation is `C09_statement`; what is proved of
  it is listed at the end of the file.
-/
import UtreexoVerif.Proofs.MapInv
import UtreexoVerif.Proofs.MapPrune
import UtreexoVerif.Proofs.MapProve
import UtreexoVerif.Proofs.MapInvCheck
import UtreexoVerif.Proofs.MapAdd

namespace UtreexoVerif.Props.C09
open UtreexoVerif Model Spec Spec.Forest Proofs MapAL MapInv
set_option linter.unusedSectionVars false

variable {H : Type} [DecidableEq H] [Hasher H]

/-! ### initial states -/

/-- `NewMapPollard(full)` satisfies the invariant for the empty forest -/
theorem inv_new (full : Bool) : Inv (MapPollard.new full : MapPollard H) Forest.empty where
  n_lt := by show (0 : Nat) < 2 ^ 63; omega
  n_eq := rfl
  rows_le := by show forestRows 0 ≤ _; simp [forestRows]
  total_le := by show (63#8).toNat ≤ 63; decide
  true_hash := by intro p l h; simp [MapPollard.getNode, MapPollard.new, get?_nil] at h
  cached_pos := by intro x p h; simp [MapPollard.getCached, MapPollard.new, get?_nil] at h
  only_needed := by intro q l _ h; simp [MapPollard.getNode, MapPollard.new, get?_nil] at h
  has_needed := by
    intro q h
    rcases h with h | ⟨x, t, hk, _, _⟩
    · have : (Forest.empty : Forest H).numLeaves = 0 := rfl
      rw [this] at h
      simp [isRootPos] at h
    · simp [MapPollard.hasCached, MapPollard.getCached, MapPollard.new, get?_nil] at hk
  flags := by intro _ q l _ _ h; simp [MapPollard.getNode, MapPollard.new, get?_nil] at h

/-- the insertion loop of `NewMapPollardFromRoots` -/
theorem foldl_put_getNode (full : Bool) : ∀ (l : List (U64 × H)) (m : MapPollard H) (p : U64) (lf : Leaf H),
    (l.foldl (fun m (e : U64 × H) => m.putNode e.1 ⟨e.2, full⟩) m).getNode p = some lf →
    (∃ e ∈ l, e.1 = p ∧ lf = ⟨e.2, full⟩) ∨ m.getNode p = some lf
  | [], m, p, lf, h => Or.inr h
  | e :: t, m, p, lf, h => by
    rw [List.foldl_cons] at h
    rcases foldl_put_getNode full t _ p lf h with ⟨e', he', h1, h2⟩ | h'
    · exact Or.inl ⟨e', List.mem_cons_of_mem _ he', h1, h2⟩
    · rw [getNode_putNode] at h'
      split at h'
      · rename_i hp
        simp only [Option.some.injEq] at h'
        exact Or.inl ⟨e, List.mem_cons_self, hp.symm, h'.symm⟩
      · exact Or.inr h'

theorem foldl_put_hasNode (full : Bool) : ∀ (l : List (U64 × H)) (m : MapPollard H) (p : U64),
    (m.hasNode p = true ∨ ∃ e ∈ l, e.1 = p) →
    (l.foldl (fun m (e : U64 × H) => m.putNode e.1 ⟨e.2, full⟩) m).hasNode p = true
  | [], m, p, h => by
    rcases h with h | ⟨e, he, _⟩
    · exact h
    · simp at he
  | e :: t, m, p, h => by
    rw [List.foldl_cons]
    apply foldl_put_hasNode full t
    rcases h with h | ⟨e', he', h1⟩
    · left
      rw [hasNode_eq, getNode_putNode]
      split
      · rfl
      · exact h
    · rcases List.mem_cons.1 he' with rfl | h2
      · left; rw [hasNode_eq, getNode_putNode, if_pos h1.symm]; rfl
      · exact Or.inr ⟨e', h2, h1⟩

theorem foldl_put_frame (full : Bool) : ∀ (l : List (U64 × H)) (m : MapPollard H),
    let m' := l.foldl (fun m (e : U64 × H) => m.putNode e.1 ⟨e.2, full⟩) m
    m'.cached = m.cached ∧ m'.numLeaves = m.numLeaves ∧ m'.totalRows = m.totalRows ∧ m'.full = m.full
  | [], m => ⟨rfl, rfl, rfl, rfl⟩
  | e :: t, m => by
    simp only [List.foldl_cons]
    exact foldl_put_frame full t _

/-- the nodes `NewMapPollardFromRoots` stores for the roots of `F`, in `T`-row coordinates -/
theorem fromRootsAt_spec (F : Forest H) (hn : F.numLeaves < 2 ^ 63) (T : Nat) (hT : T ≤ 63)
    (hrows : F.rows ≤ T) (full : Bool) :
    ∃ m : MapPollard H,
      MapPollard.fromRootsAt (H8 T) F.roots (BitVec.ofNat 64 F.numLeaves) full = .ok m ∧
      m.cached = [] ∧ m.numLeaves = BitVec.ofNat 64 F.numLeaves ∧ m.totalRows = H8 T ∧ m.full = full ∧
      (∀ p lf, m.getNode p = some lf → ∃ r, F.numLeaves.testBit r = true ∧
          p = encP T (rootPos F.numLeaves r) ∧ lf = ⟨SpecNodes.treeRoot F r, full⟩) ∧
      (∀ r, F.numLeaves.testBit r = true → m.hasNode (encP T (rootPos F.numLeaves r)) = true) := by
  have hle : F.numLeaves ≤ 2 ^ T := Nat.le_trans (numLeaves_le_pow_rows F) (two_pow_le_of_le hrows)
  have hn64 : F.numLeaves < 2 ^ 64 := by omega
  have htoNat : (BitVec.ofNat 64 F.numLeaves).toNat = F.numLeaves := toNat_ofNat64_of_lt hn64
  have hRP := Props.C16.rootPositions_spec hT (BitVec.ofNat 64 F.numLeaves) (by rw [htoNat]; exact hle)
  rw [htoNat] at hRP
  have hroots := SpecNodes.roots_eq F
  unfold MapPollard.fromRootsAt
  rw [hRP, hroots]
  simp only [List.length_map, Nat.lt_irrefl, if_false]
  rw [List.zip_map']
  have hfold : ∀ (l : List (U64 × H)) (m0 : MapPollard H),
      l.foldl (fun m (x : U64 × H) => match x with | (p, h) => m.putNode p ⟨h, full⟩) m0 =
      l.foldl (fun m (e : U64 × H) => m.putNode e.1 ⟨e.2, full⟩) m0 := by
    intro l m0; rfl
  refine ⟨_, rfl, ?_⟩
  rw [hfold]
  obtain ⟨f1, f2, f3, f4⟩ := foldl_put_frame full
    ((treeRows F.numLeaves).map fun a => (encU T a (rootPos F.numLeaves a).2, SpecNodes.treeRoot F a))
    { (MapPollard.new full : MapPollard H) with numLeaves := BitVec.ofNat 64 F.numLeaves, totalRows := H8 T }
  refine ⟨f1, f2, f3, f4, ?_, ?_⟩
  · intro p lf h
    rcases foldl_put_getNode full _ _ p lf h with ⟨e, he, h1, h2⟩ | h'
    · obtain ⟨r, hr, rfl⟩ := List.mem_map.1 he
      exact ⟨r, (Spec.mem_treeRows.1 hr).2, h1.symm, h2⟩
    · simp [MapPollard.getNode, MapPollard.new, get?_nil] at h'
  · intro r hb
    apply foldl_put_hasNode
    right
    have hr64 : r ≤ 64 := by have := testBit_lt_of_lt hn hb; omega
    exact ⟨_, List.mem_map.2 ⟨r, Spec.mem_treeRows.2 ⟨hr64, hb⟩, rfl⟩, rfl⟩

/-- **`NewMapPollardFromRoots` at the roots of any forest satisfies the invariant** (in any
allocation `T ≥ TreeRows`, `T ≤ 63`; `NewMapPollardFromRoots` itself uses `T = 63`) -/
theorem inv_fromRootsAt (F : Forest H) (hn : F.numLeaves < 2 ^ 63) (T : Nat) (hT : T ≤ 63)
    (hrows : F.rows ≤ T) :
    ∃ m : MapPollard H,
      MapPollard.fromRootsAt (H8 T) F.roots (BitVec.ofNat 64 F.numLeaves) false = .ok m ∧ Inv m F := by
  obtain ⟨m, hm, hc, hnl, htr, hfull, hget, hhas⟩ := fromRootsAt_spec F hn T hT hrows false
  have hTn : m.totalRows.toNat = T := by rw [htr]; exact toNat_H8 hT
  have hle : F.numLeaves ≤ 2 ^ T := Nat.le_trans (numLeaves_le_pow_rows F) (two_pow_le_of_le hrows)
  have hvalid : ∀ r, F.numLeaves.testBit r = true → Valid T (rootPos F.numLeaves r) := by
    intro r hb
    have := Props.C16.rootPos_valid hle hb
    exact ⟨this.1, this.2⟩
  have hnoc : ∀ x, m.hasCached x = false := by
    intro x; simp [MapPollard.hasCached, MapPollard.getCached, hc, get?_nil]
  refine ⟨m, hm, ?_⟩
  refine { n_lt := hn, n_eq := hnl, rows_le := by rw [hTn]; exact hrows, total_le := by rw [hTn]; exact hT,
           true_hash := ?_, cached_pos := ?_, only_needed := ?_, has_needed := ?_, flags := ?_ }
  · intro p l h
    obtain ⟨r, hb, hp, hl⟩ := hget p l h
    rw [hTn]
    refine ⟨rootPos F.numLeaves r, hvalid r hb, hp, ?_⟩
    rw [hl]
    have hr64 : r ≤ 64 := by have := testBit_lt_of_lt hn hb; omega
    exact SpecNodes.nodeAt_rootPos F (Spec.mem_treeRows.2 ⟨hr64, hb⟩)
  · intro x p h
    simp [MapPollard.getCached, hc, get?_nil] at h
  · intro q l hv h
    rw [hTn] at hv h
    obtain ⟨r, hb, hp, _⟩ := hget _ l h
    have := encP_inj' hT hv (hvalid r hb) hp
    left
    rw [this]
    exact isRootPos_rootPos hb
  · intro q h
    rw [hTn]
    rcases h with h | ⟨x, _, hk, _, _⟩
    · obtain ⟨hb, hq⟩ := eq_rootPos_of_isRootPos h
      rw [hq]
      exact hhas _ hb
    · rw [hnoc x] at hk; cases hk
  · intro _ q l hv hnr h
    rw [hTn] at hv h
    obtain ⟨r, hb, hp, _⟩ := hget _ l h
    have := encP_inj' hT hv (hvalid r hb) hp
    rw [this, isRootPos_rootPos hb] at hnr
    cases hnr

/-- **`NewMapPollardFromRoots(roots F, numLeaves F, false)` satisfies the invariant**, for the
roots of any forest with fewer than 2^63 leaves -/
theorem inv_fromRoots (F : Forest H) (hn : F.numLeaves < 2 ^ 63) :
    ∃ m : MapPollard H,
      MapPollard.fromRoots F.roots (BitVec.ofNat 64 F.numLeaves) false = .ok m ∧ Inv m F :=
  inv_fromRootsAt F hn 63 (Nat.le_refl _) (SpecView.forestRows_le_63 hn)

/-! ### look-ups of a state satisfying the invariant tell the truth (C10 for the map forest) -/

/-- **`GetHash` tells the truth**: for every position of the forest (API coordinates) the
answer is the hash of the node of `F` at that position, or the all-zero hash (not stored) -/
theorem getHash_true {m : MapPollard H} {F : Forest H} (inv : Inv m F) (q : Pos) (hq : Valid F.rows q) :
    m.getHash (encP F.rows q) = Hasher.zero ∨ F.nodeAt q = some (m.getHash (encP F.rows q)) := by
  unfold MapPollard.getHash
  simp only [toStorage inv hq]
  unfold MapPollard.getNodeD
  cases h : m.getNode (encP m.totalRows.toNat q) with
  | none => left; rfl
  | some l => right; exact getNode_true inv (hq.mono inv.rows_le) h

/-- a position where `F` has no node reads as the all-zero hash -/
theorem getHash_none {m : MapPollard H} {F : Forest H} (inv : Inv m F) (q : Pos) (hq : Valid F.rows q)
    (hnone : F.nodeAt q = none) : m.getHash (encP F.rows q) = Hasher.zero := by
  rcases getHash_true inv q hq with h | h
  · exact h
  · rw [hnone] at h; cases h

/-- **`GetLeafPosition` tells the truth**: a reported position is the position of that live
leaf of `F`, in API coordinates … -/
theorem getLeafPosition_some {m : MapPollard H} {F : Forest H} (inv : Inv m F) {x : H} {p : U64}
    (h : m.getLeafPosition x = some p) :
    m.hasCached x = true ∧ ∃ t, F.posOf x = some t ∧ p = encP F.rows t := by
  unfold MapPollard.getLeafPosition at h
  cases hc : m.getCached x with
  | none => rw [hc] at h; cases h
  | some pos =>
    rw [hc] at h
    simp only [Option.some.injEq] at h
    obtain ⟨t, ht, hp⟩ := inv.cached_pos x pos hc
    obtain ⟨R, hb⟩ := posOf_belowRoot ht
    have hv : Valid F.rows t := belowRoot_valid' (Nat.le_refl _) hb
    refine ⟨by simp [MapPollard.hasCached, hc], t, ht, ?_⟩
    rw [← h, hp]
    exact toApi inv hv

/-- … and "not found" is answered exactly for the hashes that are not cached -/
theorem getLeafPosition_none {m : MapPollard H} (x : H) :
    m.getLeafPosition x = none ↔ m.hasCached x = false := by
  unfold MapPollard.getLeafPosition MapPollard.hasCached
  cases m.getCached x <;> simp

/-- a hash that is not a live leaf of `F` is never reported -/
theorem getLeafPosition_dead {m : MapPollard H} {F : Forest H} (inv : Inv m F) {x : H}
    (hdead : F.posOf x = none) : m.getLeafPosition x = none := by
  cases h : m.getLeafPosition x with
  | none => rfl
  | some p =>
    obtain ⟨_, t, ht, _⟩ := getLeafPosition_some inv h
    rw [hdead] at ht; cases ht

/-- **`GetRoots` returns the roots of `F`** (C01 clause 4 for a state satisfying the invariant) -/
theorem roots_eq {m : MapPollard H} {F : Forest H} (inv : Inv m F) : m.roots = F.roots := by
  have hn64 : F.numLeaves < 2 ^ 64 := by have := inv.n_lt; omega
  have htoNat : (BitVec.ofNat 64 F.numLeaves).toNat = F.numLeaves := toNat_ofNat64_of_lt hn64
  have hle : F.numLeaves ≤ 2 ^ m.totalRows.toNat :=
    Nat.le_trans (numLeaves_le_pow_rows F) (two_pow_le_of_le inv.rows_le)
  have hRP := Props.C16.rootPositions_spec inv.total_le (BitVec.ofNat 64 F.numLeaves) (by rw [htoNat]; exact hle)
  rw [htoNat] at hRP
  unfold MapPollard.roots MapPollard.getRoots
  simp only
  rw [inv.n_eq, totalRows_eq_H8 m, hRP, SpecNodes.roots_eq, List.map_map]
  apply List.map_congr_left
  intro r hr
  have hb := (Spec.mem_treeRows.1 hr).2
  have hv : Valid m.totalRows.toNat (rootPos F.numLeaves r) := by
    have := Props.C16.rootPos_valid hle hb
    exact ⟨this.1, this.2⟩
  have hstored := inv.has_needed (rootPos F.numLeaves r) (Or.inl (isRootPos_rootPos hb))
  simp only [Function.comp]
  show (MapPollard.getNodeD _ (encP m.totalRows.toNat (rootPos F.numLeaves r))).hash = _
  unfold MapPollard.getNodeD
  cases hg : m.getNode (encP m.totalRows.toNat (rootPos F.numLeaves r)) with
  | none => rw [hasNode_eq, hg] at hstored; cases hstored
  | some l =>
    have := getNode_true inv hv hg
    rw [SpecNodes.nodeAt_rootPos F hr] at this
    simp only [Option.getD_some]
    exact (Option.some.inj this).symm

/-! ### `Prune` -/

/-- **`Prune(hashes)` on a partial forest satisfying the invariant**: it succeeds, the result
satisfies the invariant again — for the cache minus the named leaves: every stored hash is
still true, everything the remaining cached leaves need is still stored ("nothing needed was
removed") and everything stored is a root or lies on the path / proof path of a remaining
cached leaf ("nothing unneeded remains") —, the cache loses exactly the named leaves, and
`Prune` adds no node and changes no hash. -/
theorem inv_prune {m : MapPollard H} {F : Forest H} (inv : Inv m F) (hfull : m.full = false) (hashes : List H) :
    ∃ m', MapPollard.prune hashes m = (m', .ok ()) ∧ Inv m' F ∧ m'.full = false ∧
      (∀ y, m'.getCached y = if y ∈ hashes then none else m.getCached y) ∧
      (∀ q l, m'.getNode q = some l → ∃ l0, m.getNode q = some l0 ∧ l0.hash = l.hash) := by
  obtain ⟨m', e, h⟩ := MapPrune.inv_pruneGo hashes inv hfull
  refine ⟨m', ?_, h⟩
  unfold MapPollard.prune
  rw [hfull]
  exact e

/-- on a full forest `Prune` does nothing -/
theorem prune_full {m : MapPollard H} (hfull : m.full = true) (hashes : List H) :
    MapPollard.prune hashes m = (m, .ok ()) := by
  unfold MapPollard.prune
  rw [hfull]; rfl

/-! ### `add` of a leaf (simplest case) -/

/-- **adding one leaf (any Remember flag) to a partial forest with an EVEN number of slots
preserves the invariant**: the new leaf becomes the root on row 0, is cached iff its flag is
set, and nothing else changes.  (`TreeRows(n+1) ≤ TotalRows`: no re-allocation — always true
for the default 63 rows.  The merging case, odd leaf count, is open.) -/
theorem inv_add_even {m : MapPollard H} {F : Forest H} (inv : Inv m F) (hfull : m.full = false)
    (x : H) (rem : Bool) (he : F.numLeaves % 2 = 0) (hn : F.numLeaves + 1 < 2 ^ 63)
    (hrows : forestRows (F.numLeaves + 1) ≤ m.totalRows.toNat) (hfresh : F.posOf x = none) :
    ∃ m', MapPollard.add [⟨x, rem⟩] m = (m', .ok ()) ∧ Inv m' (F.add x) ∧ m'.full = false ∧
      (∀ y, m'.getCached y =
        if rem = true ∧ y = x then some (encP m.totalRows.toNat (0, F.numLeaves)) else m.getCached y) :=
  MapAdd.inv_add_even inv hfull x rem he hn hrows hfresh

/-! ### `Prove` -/

/-- **a state satisfying the invariant can always prove its cache, with the canonical proof**:
`Prove L` for any duplicate-free list `L` of cached leaves succeeds and equals `canon F L`
(targets = the leaves' positions in the order of `L`, API coordinates; proof hashes = the
canonical ones, by row then position). -/
theorem prove_canon {m : MapPollard H} {F : Forest H} (inv : Inv m F) (L : List H)
    (hL : ∀ x ∈ L, m.hasCached x = true) (hnd : L.Nodup) :
    ∃ tgts hashes, F.canon L = some (tgts, hashes) ∧
      m.prove L = .ok (tgts.map (encP F.rows), hashes) :=
  MapProve.prove_canon inv L hL hnd

/-- `Prove` refuses a request that contains a hash that is not cached -/
theorem prove_uncached {m : MapPollard H} (L : List H) {x : H} (hx : x ∈ L) (hc : m.hasCached x = false) :
    m.prove L = .error .err := by
  unfold MapPollard.prove
  have : m.allCached L = false := by
    unfold MapPollard.allCached
    cases h : L.all m.hasCached with
    | false => rfl
    | true => have := List.all_eq_true.1 h x hx; rw [hc] at this; cases this
  rw [this]; rfl

/-! ### the executable invariant -/

/-- **the executable check `invCheck` (Model/MapInvCheck.lean) is sound for `Inv`**: a state
the driver accepts with it satisfies the hypothesis of the theorems above -/
theorem invCheck_sound {m : MapPollard H} {F : Forest H} (h : invCheck m F = true) : Inv m F :=
  MapInvCheck.invCheck_sound h

/-! ### non-vacuity: concrete states (term-algebra hash) -/

namespace Example

inductive T where
  | z
  | leaf (n : Nat)
  | node (a b : T)
deriving DecidableEq, Repr

instance : Hasher T := ⟨T.node, T.z⟩

/-- five live leaves -/
def F5 : Forest T := ⟨[some (.leaf 0), some (.leaf 1), some (.leaf 2), some (.leaf 3), some (.leaf 4)]⟩

def adds5 : List (Leaf T) :=
  [⟨.leaf 0, true⟩, ⟨.leaf 1, false⟩, ⟨.leaf 2, true⟩, ⟨.leaf 3, false⟩, ⟨.leaf 4, true⟩]

/-- `NewMapPollard(false)` (TotalRows 63) after adding the five leaves, three of them remembered -/
def m5 : MapPollard T := (MapPollard.add adds5 (MapPollard.new false)).1

/-- the same with `TotalRows = 0` (grow on demand: `remap` runs three times) -/
def m5g : MapPollard T := (MapPollard.add adds5 { (MapPollard.new false : MapPollard T) with totalRows := 0#8 }).1

theorem m5_inv : Inv m5 F5 := invCheck_sound (by decide +kernel)
theorem m5g_inv : Inv m5g F5 := invCheck_sound (by decide +kernel)
theorem m5_partial : m5.full = false := by decide +kernel

-- 8 nodes are stored: 5 leaves, the three inner nodes; the cache holds leaves 0, 2, 4
example : m5.nodes.length = 8 ∧ m5.cached.length = 3 ∧ m5g.totalRows = 3#8 := by decide +kernel

/-- `inv_fromRoots` / `roots_eq` instantiated: a forest started from the bare roots of `F5` -/
example : ∃ m : MapPollard T, MapPollard.fromRoots F5.roots 5#64 false = .ok m ∧ m.roots = F5.roots := by
  obtain ⟨m, hm, inv⟩ := inv_fromRoots F5 (by decide)
  exact ⟨m, hm, roots_eq inv⟩

/-- `inv_prune` instantiated: pruning leaf 0 leaves a state that still satisfies the invariant,
caches exactly leaves 2 and 4 … -/
example : ∃ m', MapPollard.prune [T.leaf 0] m5 = (m', .ok ()) ∧ Inv m' F5 ∧
    m'.getCached (.leaf 0) = none ∧ m'.getCached (.leaf 2) = m5.getCached (.leaf 2) := by
  obtain ⟨m', h1, h2, _, h4, _⟩ := inv_prune m5_inv m5_partial [T.leaf 0]
  exact ⟨m', h1, h2, by rw [h4, if_pos (by decide)], by rw [h4, if_neg (by decide)]⟩

-- … and really removes something: leaf 0, its sibling leaf 1 and the (computable) node above
-- leaves 2 and 3 go; leaf 2, its proof (leaf 3 and the node above leaves 0 and 1) and the two
-- roots stay: 5 of 8 nodes.  Pruning leaf 2 as well leaves the two roots only.
example : ((MapPollard.prune [T.leaf 0] m5).1.nodes.length, (MapPollard.prune [T.leaf 0, T.leaf 2] m5).1.nodes.length) = (5, 2) := by
  decide +kernel

/-- `prove_canon` instantiated -/
example : ∃ tgts hashes, F5.canon [T.leaf 2, T.leaf 0] = some (tgts, hashes) ∧
    m5.prove [T.leaf 2, T.leaf 0] = .ok (tgts.map (encP F5.rows), hashes) :=
  prove_canon m5_inv _ (by decide +kernel) (by decide)

example : (match m5.prove [T.leaf 2, T.leaf 0] with
    | .ok r => decide (r = ([2#64, 0#64], [T.leaf 1, T.leaf 3]))
    | .error _ => false) = true := by decide +kernel

/-- `inv_add_even` instantiated: four leaves, then a fifth (remembered) -/
def F4 : Forest T := ⟨[some (.leaf 0), some (.leaf 1), some (.leaf 2), some (.leaf 3)]⟩
def m4 : MapPollard T := (MapPollard.add (adds5.take 4) (MapPollard.new false)).1
theorem m4_inv : Inv m4 F4 := invCheck_sound (by decide +kernel)
example : ∃ m', MapPollard.add [⟨T.leaf 4, true⟩] m4 = (m', .ok ()) ∧ Inv m' (F4.add (.leaf 4)) :=
  let ⟨m', h1, h2, _⟩ := inv_add_even m4_inv (by decide +kernel) (T.leaf 4) true (by decide) (by decide)
    (by decide +kernel) (by decide +kernel)
  ⟨m', h1, h2⟩

/-- the check is not vacuous: it rejects a state with a wrong hash, a state that lacks a proof
position, and a state that stores an unneeded node -/
example : invCheck (m5.putNode 1#64 ⟨.leaf 7, false⟩) F5 = false ∧
    invCheck (m5.delNode 1#64) F5 = false ∧
    invCheck ((MapPollard.prune [T.leaf 0, T.leaf 2] m5).1.putNode 1#64 ⟨.leaf 1, false⟩) F5 = false := by
  decide +kernel

end Example

/-! ### the full statement -/

/-- One honest operation on a partial map forest `m` tracking the specification forest `F`
(`st` = the undo stack: forest before each applied block and the data `Undo` needs). -/
structure BlockData (H : Type) where
  prev : Forest H
  numAdds : Nat
  dels : List H
  targets : List Pos
  proof : List H

inductive Reach (nonZero : H) : MapPollard H → Forest H → List (BlockData H) → Prop
  /-- `NewMapPollard(false)` -/
  | new : Reach nonZero (MapPollard.new false) Forest.empty []
  /-- `NewMapPollardFromRoots` at the roots of any forest -/
  | fromRoots (F : Forest H) (m : MapPollard H) :
      F.numLeaves < 2 ^ 63 → MapPollard.fromRoots F.roots (BitVec.ofNat 64 F.numLeaves) false = .ok m →
      Reach nonZero m F []
  /-- `Modify`: the deletions are cached live leaves given with their canonical proof, the
  additions are fresh, distinct, non-zero, with arbitrary Remember flags -/
  | modify {m m' F st} (adds : List (Leaf H)) (dels : List H) (ts : List Pos) (ps : List H) :
      Reach nonZero m F st → (∀ x ∈ dels, m.hasCached x = true) → dels.Nodup → F.canon dels = some (ts, ps) →
      (∀ a ∈ adds, a.hash ≠ Hasher.zero ∧ a.hash ∉ F.liveLeaves ∧ ∀ u v : H, a.hash ≠ Hasher.ph u v) →
      (adds.map (·.hash)).Nodup → (F.numLeaves + adds.length < 2 ^ 63) →
      MapPollard.modify adds dels (ts.map (encP F.rows)) m = (m', .ok ()) →
      Reach nonZero m' (F.modify dels (adds.map (·.hash))) (⟨F, adds.length, dels, ts, ps⟩ :: st)
  /-- `Verify(hashes, canonical proof, remember = true)` of live leaves -/
  | verify {m m' F st} (L : List H) (ts : List Pos) (ps : List H) :
      Reach nonZero m F st → L.Nodup → F.canon L = some (ts, ps) →
      MapPollard.verifyM L (ts.map (encP F.rows)) ps true m = (m', .ok ()) → Reach nonZero m' F st
  /-- `Ingest(hashes, canonical proof)` of live leaves -/
  | ingest {m m' F st} (L : List H) (ts : List Pos) (ps : List H) :
      Reach nonZero m F st → L.Nodup → F.canon L = some (ts, ps) →
      MapPollard.ingest L (ts.map (encP F.rows)) ps m = (m', .ok ()) → Reach nonZero m' F st
  /-- `Prune` of arbitrary hashes -/
  | prune {m m' F st} (L : List H) :
      Reach nonZero m F st → MapPollard.prune L m = (m', .ok ()) → Reach nonZero m' F st
  /-- `Undo` of the newest block with that block's data -/
  | undo {m m' F st} (b : BlockData H) :
      Reach nonZero m F (b :: st) →
      MapPollard.undo nonZero (BitVec.ofNat 64 b.numAdds) (b.targets.map (encP b.prev.rows)) b.proof b.dels
        b.prev.roots m = (m', .ok ()) →
      Reach nonZero m' b.prev st

/-- **Full statement of C09 for the model** (collision-freeness as a hypothesis): every state
reachable by honest operations satisfies the storage invariant (true hashes, exact cache, only
needed positions, everything `Prove` needs — hence, by `prove_canon`, every cached leaf set is
provable with the canonical proof), and the operations do not fail on such states. -/
def C09_statement (H : Type) [DecidableEq H] [Hasher H] : Prop :=
  CR H → ∀ (nonZero : H), nonZero ≠ Hasher.zero →
    (∀ m F st, Reach nonZero m F st → m.full = false ∧ Inv m F) ∧
    -- progress: on a reachable state the honest calls succeed
    (∀ m F st, Reach nonZero m F st →
      (∀ L ts ps, L.Nodup → F.canon L = some (ts, ps) →
        (∃ m', MapPollard.verifyM L (ts.map (encP F.rows)) ps true m = (m', .ok ())) ∧
        (∃ m', MapPollard.ingest L (ts.map (encP F.rows)) ps m = (m', .ok ()))) ∧
      (∀ L, ∃ m', MapPollard.prune L m = (m', .ok ())) ∧
      (∀ adds dels ts ps, (∀ x ∈ dels, m.hasCached x = true) → dels.Nodup → F.canon dels = some (ts, ps) →
        (F.numLeaves + adds.length < 2 ^ 63) →
        ∃ m', MapPollard.modify adds dels (ts.map (encP F.rows)) m = (m', .ok ())) ∧
      (∀ b st', st = b :: st' → ∃ m',
        MapPollard.undo nonZero (BitVec.ofNat 64 b.numAdds) (b.targets.map (encP b.prev.rows)) b.proof b.dels
          b.prev.roots m = (m', .ok ())))

/-- **What is proved of `C09_statement`** (no collision-freeness needed for these parts):
the two base cases and the `Prune` step of the reachability induction, and the `Prune` progress
clause (plus, outside this theorem, `inv_add_even`: the `add` half of `modify` for one leaf on an
even leaf count).  Open: preservation of `Inv` by `modify` (`remove` = `removeSingle` surgery, `add`
in the merging case),
`verifyM`/`ingest` (needs the truth of ALL hashes computed by `calculateHashes`, a strengthening of
the C03 soundness theorem) and `undo`; these are covered by the correspondence run (model =
implementation entry by entry, `Inv` evaluated on every state), labelled as testing. -/
theorem C09_partial :
    Inv (MapPollard.new false : MapPollard H) Forest.empty ∧
    (∀ (F : Forest H) m, F.numLeaves < 2 ^ 63 →
      MapPollard.fromRoots F.roots (BitVec.ofNat 64 F.numLeaves) false = .ok m → Inv m F) ∧
    (∀ (m m' : MapPollard H) (F : Forest H) L, m.full = false → Inv m F → MapPollard.prune L m = (m', .ok ()) →
      m'.full = false ∧ Inv m' F) ∧
    (∀ (m : MapPollard H) (F : Forest H) L, m.full = false → Inv m F → ∃ m', MapPollard.prune L m = (m', .ok ())) := by
  refine ⟨inv_new false, ?_, ?_, ?_⟩
  · intro F m hn hm
    obtain ⟨m0, hm0, inv⟩ := inv_fromRoots F hn
    rw [hm] at hm0
    rw [Except.ok.inj hm0]
    exact inv
  · intro m m' F L hf inv hp
    obtain ⟨m1, h1, inv1, hf1, _⟩ := inv_prune inv hf L
    rw [hp] at h1
    rw [(Prod.mk.inj h1).1]
    exact ⟨hf1, inv1⟩
  · intro m F L hf inv
    obtain ⟨m1, h1, _⟩ := inv_prune inv hf L
    exact ⟨m1, h1⟩

end UtreexoVerif.Props.C09
