/-
  C03xc — the collision-extracting form (`Props/C03x.lean`) of the theorems of `Props/C03c.lean`:
  `MapPollard.verify` for EVERY `TotalRows`, `VerifyPartialProof`, and the state machine's
  `Verify` / `VerifyPartialProof` — without `CR H`, without `LeafOK F`.

  The hashed pairs are those of the run of `calculateHashes` that the entry point performs:
  on the TRANSLATED targets (`xlate`), and, for `VerifyPartialProof`, on the proof hashes merged
  from the caller's hashes and the stored ones (`partialAll`, the list `partialProofHashes` returns).
-/
import UtreexoVerif.Props.C03c
import UtreexoVerif.Props.C03x

namespace UtreexoVerif.Props.C03xc
open UtreexoVerif Model Hasher Spec GoInt
open UtreexoVerif.Proofs UtreexoVerif.Proofs.SpecNodes UtreexoVerif.Proofs.SpecView
open UtreexoVerif.Props.C03b (TrueClaim)
open UtreexoVerif.Props.C03c UtreexoVerif.Props.C03x

section
set_option linter.unusedSectionVars false
variable {H : Type} [DecidableEq H] [Hasher H]

/-- the proof hashes `VerifyPartialProof` hands to `verify`: the caller's hashes merged with the
stored ones (empty when the merge fails) -/
def partialAll (n : U64) (totalRows : U8) (get : U64 → Option H) (ts : List U64) (ps : List H) :
    List H :=
  match partialProofHashes get (partialPositions n totalRows ts) ps with
  | .ok all => all
  | _ => []

/-- **`MapPollard.verify`, any `TotalRows`, collision-extracting form**: every accepted
`(target, hash)` is a true claim about the node at the translated target, or an explicit
collision exists among the pairs hashed on the translated targets -/
theorem mapVerify_sound_any_extract (F : Forest H) (hn : F.numLeaves ≤ 2 ^ 63) (totalRows : U8)
    {hs : List H} {ts : List U64} {ps : List H} {idx : List Nat}
    (hnz : ∀ h ∈ hs, h ≠ (zero : H))
    (h : mapVerify (BitVec.ofNat 64 F.numLeaves) totalRows F.roots hs ts ps = .ok idx) :
    (∀ x ∈ ts.zip hs, TrueClaim F (xlate (BitVec.ofNat 64 F.numLeaves) totalRows x.1, x.2)) ∨
    Collision F hs (ts.map (xlate (BitVec.ofNat 64 F.numLeaves) totalRows)) ps := by
  rw [mapVerify_eq] at h
  rcases verify_sound_extract F hn hnz h with ht | hc
  · left
    intro x hx
    apply ht
    rw [List.zip_map_left]
    exact List.mem_map.2 ⟨x, hx, rfl⟩
  · exact Or.inr hc

/-- for targets below the boundary `2^totalRows` (every position of the API's coordinates) the
claim is true as given -/
theorem mapVerify_sound_below_extract (F : Forest H) (hn : F.numLeaves ≤ 2 ^ 63) (totalRows : U8)
    {hs : List H} {ts : List U64} {ps : List H} {idx : List Nat}
    (hnz : ∀ h ∈ hs, h ≠ (zero : H))
    (h : mapVerify (BitVec.ofNat 64 F.numLeaves) totalRows F.roots hs ts ps = .ok idx) :
    (∀ x ∈ ts.zip hs, x.1.toNat < 2 ^ totalRows.toNat → TrueClaim F x) ∨
    Collision F hs (ts.map (xlate (BitVec.ofNat 64 F.numLeaves) totalRows)) ps := by
  rcases mapVerify_sound_any_extract F hn totalRows hnz h with ht | hc
  · left
    intro x hx hlt
    have := ht x hx
    rwa [xlate_eq_self_of_lt _ hlt] at this
  · exact Or.inr hc

/-- **`VerifyPartialProof` is sound, collision-extracting form, whatever the instance has
stored** (only the stored ROOTS are assumed to be the roots of `F`) -/
theorem mapVerifyPartialProof_sound_extract (F : Forest H) (hn : F.numLeaves ≤ 2 ^ 63)
    (totalRows : U8) (get : U64 → Option H)
    (hroots : mapGetRoots (BitVec.ofNat 64 F.numLeaves) totalRows get = F.roots)
    {ts : List U64} {hs ps : List H}
    (hnz : ∀ h ∈ hs, h ≠ (zero : H))
    (h : mapVerifyPartialProof (BitVec.ofNat 64 F.numLeaves) totalRows get ts hs ps = .ok ()) :
    (∀ x ∈ ts.zip hs, TrueClaim F (xlate (BitVec.ofNat 64 F.numLeaves) totalRows x.1, x.2)) ∨
    Collision F hs (ts.map (xlate (BitVec.ofNat 64 F.numLeaves) totalRows))
      (partialAll (BitVec.ofNat 64 F.numLeaves) totalRows get ts ps) := by
  rw [mapVerifyPartialProof_eq, Proofs.CalcSound.bind_eq_ok] at h
  obtain ⟨all, hall, h⟩ := h
  rw [Proofs.CalcSound.bind_eq_ok] at h
  obtain ⟨idx, h, _⟩ := h
  rw [hroots] at h
  have hpa : partialAll (BitVec.ofNat 64 F.numLeaves) totalRows get ts ps = all := by
    unfold partialAll; rw [hall]
  rw [hpa]
  exact mapVerify_sound_any_extract F hn totalRows hnz h

/-- the state machine's `Verify(delHashes, proof, remember)` -/
theorem verifyM_sound_extract {m : MapPollard H} {F : Forest H}
    (hn : F.numLeaves ≤ 2 ^ 63) (hnum : m.numLeaves = BitVec.ofNat 64 F.numLeaves)
    (hroots : m.roots = F.roots) {hs : List H} {ts : List U64} {ps : List H} {remember : Bool}
    (hnz : ∀ h ∈ hs, h ≠ (zero : H))
    (h : (MapPollard.verifyM hs ts ps remember m).2 = .ok ()) :
    (∀ x ∈ ts.zip hs, TrueClaim F (xlate m.numLeaves m.totalRows x.1, x.2)) ∨
    Collision F hs (ts.map (xlate m.numLeaves m.totalRows)) ps := by
  obtain ⟨idx, hidx⟩ := verifyM_ok h
  rw [show m.getRoots.1 = m.roots from rfl, hroots, hnum] at hidx
  rw [hnum]
  exact mapVerify_sound_any_extract F hn m.totalRows hnz hidx

/-- the state machine's `VerifyPartialProof(targets, hashes, proofHashes, remember)` -/
theorem verifyPartialProof_sound_extract {m : MapPollard H} {F : Forest H}
    (hn : F.numLeaves ≤ 2 ^ 63) (hnum : m.numLeaves = BitVec.ofNat 64 F.numLeaves)
    (hroots : m.roots = F.roots) {hs ps : List H} {ts : List U64} {remember : Bool}
    (hnz : ∀ h ∈ hs, h ≠ (zero : H))
    (h : (MapPollard.verifyPartialProof ts hs ps remember m).2 = .ok ()) :
    (∀ x ∈ ts.zip hs, TrueClaim F (xlate m.numLeaves m.totalRows x.1, x.2)) ∨
    Collision F hs (ts.map (xlate m.numLeaves m.totalRows))
      (partialAll m.numLeaves m.totalRows (storedHash m) ts ps) := by
  have h' := verifyPartialProof_ok h
  rw [hnum] at h' ⊢
  refine mapVerifyPartialProof_sound_extract F hn m.totalRows (storedHash m) ?_ hnz h'
  rw [← hnum, ← getRoots_eq]
  exact hroots

open UtreexoVerif.Proofs.MapInv in
/-- **`VerifyPartialProof` under the storage invariant**: for targets below the boundary
`2^TotalRows` every accepted claim is true as given, or an explicit collision exists -/
theorem verifyPartialProof_sound_inv_below_extract {m : MapPollard H} {F : Forest H}
    (inv : Inv m F) {hs ps : List H} {ts : List U64} {remember : Bool}
    (hnz : ∀ h ∈ hs, h ≠ (zero : H))
    (h : (MapPollard.verifyPartialProof ts hs ps remember m).2 = .ok ()) :
    (∀ x ∈ ts.zip hs, x.1.toNat < 2 ^ m.totalRows.toNat → TrueClaim F x) ∨
    Collision F hs (ts.map (xlate m.numLeaves m.totalRows))
      (partialAll m.numLeaves m.totalRows (storedHash m) ts ps) := by
  rcases verifyPartialProof_sound_extract (Nat.le_of_lt inv.n_lt) inv.n_eq (Props.C09.roots_eq inv)
    hnz h with ht | hc
  · left
    intro x hx hlt
    have := ht x hx
    rwa [xlate_eq_self_of_lt _ hlt] at this
  · exact Or.inr hc

open UtreexoVerif.Proofs.MapInv in
theorem verifyM_sound_inv_below_extract {m : MapPollard H} {F : Forest H}
    (inv : Inv m F) {hs ps : List H} {ts : List U64} {remember : Bool}
    (hnz : ∀ h ∈ hs, h ≠ (zero : H))
    (h : (MapPollard.verifyM hs ts ps remember m).2 = .ok ()) :
    (∀ x ∈ ts.zip hs, x.1.toNat < 2 ^ m.totalRows.toNat → TrueClaim F x) ∨
    Collision F hs (ts.map (xlate m.numLeaves m.totalRows)) ps := by
  rcases verifyM_sound_extract (Nat.le_of_lt inv.n_lt) inv.n_eq (Props.C09.roots_eq inv) hnz h
    with ht | hc
  · left
    intro x hx hlt
    have := ht x hx
    rwa [xlate_eq_self_of_lt _ hlt] at this
  · exact Or.inr hc

/-- under `CR` and `LeafOK` the statement of `C03c.mapVerifyPartialProof_sound` is a corollary -/
theorem mapVerifyPartialProof_sound_statement_of_extract :
    C03c.mapVerifyPartialProof_sound_statement H := by
  intro F cr hF hn totalRows get hroots ts hs ps hnz h
  exact (mapVerifyPartialProof_sound_extract F (Nat.le_of_lt hn) totalRows get hroots hnz h
    ).resolve_right (not_collision_of_CR cr hF _ _ _)

theorem mapVerify_sound_any_statement_of_extract : C03c.mapVerify_sound_any_statement H := by
  intro F cr hF hn totalRows hs ts ps idx hnz h
  exact (mapVerify_sound_any_extract F (Nat.le_of_lt hn) totalRows hnz h
    ).resolve_right (not_collision_of_CR cr hF _ _ _)

end

/-! ### non-vacuity on the finite toy hash

The two-leaf forest `FB` of `Props/C03x.lean` (`leaves 10, 50`, root `105`) held by a non-full
`MapPollard` with `TotalRows = 3` that stores only the root (position 8 = `(1,0)` in the 3-row geometry).
`VerifyPartialProof` accepts the forged claim "position 0 holds 11" with the supplied hash `19`. -/

namespace Example
open C03x.Example C03c.Finding

def st : MapPollard B8 :=
  { nodes := [(8#64, ⟨b 105, false⟩)], cached := [], numLeaves := 2#64, totalRows := 3#8,
    full := false }

example : st.roots = FB.roots := by decide +kernel

theorem partial_forged :
    (MapPollard.verifyPartialProof [0#64] [b 11] [b 19] false st).2 = .ok () :=
  eq_ok_of_isOkE (by decide +kernel)

example : partialAll st.numLeaves st.totalRows (storedHash st) [0#64] [b 19] = [b 19] := by
  decide +kernel

/-- the extracted collision for the forged partial proof -/
theorem partial_collision :
    Collision FB [b 11] ([0#64].map (xlate st.numLeaves st.totalRows))
      (partialAll st.numLeaves st.totalRows (storedHash st) [0#64] [b 19]) := by
  rcases verifyPartialProof_sound_extract (m := st) (F := FB) smallB rfl (by decide +kernel)
    (by decide) partial_forged with ht | hc
  · exact absurd (ht (0#64, b 11) (by decide)) (by
      rw [show xlate st.numLeaves st.totalRows 0#64 = 0#64 from by decide +kernel]
      exact falseB)
  · exact hc

/-- the honest partial proof is accepted and produces no collision -/
example : (MapPollard.verifyPartialProof [0#64] [b 10] [b 50] false st).2 = .ok () :=
  eq_ok_of_isOkE (by decide +kernel)

example : ¬ Collision FB [b 10] ([0#64].map (xlate st.numLeaves st.totalRows))
    (partialAll st.numLeaves st.totalRows (storedHash st) [0#64] [b 50]) := by decide +kernel

end Example

end UtreexoVerif.Props.C03xc

section Axioms
open UtreexoVerif.Props.C03xc
#print axioms mapVerify_sound_any_extract
#print axioms mapVerifyPartialProof_sound_extract
#print axioms verifyM_sound_extract
#print axioms verifyPartialProof_sound_extract
#print axioms verifyPartialProof_sound_inv_below_extract
#print axioms verifyM_sound_inv_below_extract
#print axioms mapVerifyPartialProof_sound_statement_of_extract
#print axioms Example.partial_collision
end Axioms
