/-
  C03c — soundness of `MapPollard.verify` for EVERY `TotalRows`, and of
  `VerifyPartialProof`.

  `MapPollard.verify` (mappollard.go) first rewrites the targets
  `proof.Targets = translatePositions(proof.Targets, m.TotalRows, TreeRows(m.NumLeaves))`
  when the two row counts differ and then runs the stand-alone `Verify`.  `Props/C03b.lean`
  proves soundness for `TotalRows = TreeRows`.  Here:

  * `mapVerify_sound_any` — for every `totalRows`: whatever is accepted is a true claim about
    the node at the TRANSLATED target (`xlate`);
  * `xlate_eq_self_of_lt` / `mapVerify_sound_below` — the translation is the identity on every
    target `t < 2^totalRows`; for those targets the claim is true as given.  Every position of
    the API's `TreeRows` coordinates lies in that range when `TreeRows < TotalRows`
    (`valid_pos_lt_boundary`), so no honest claim is affected;
  * `not_trueClaim_of_ge` — a target `t ≥ 2^totalRows` (with `TreeRows < TotalRows`) is never a
    position of the forest in the API's coordinates, so ANY acceptance of such a target is a
    deviation from the documented meaning; `Finding.accepted` exhibits one (4 leaves,
    `TotalRows = 3`: the hash of position 4 is accepted at position 8) — the known finding
    `C03.mapverify.totalrows`.  The boundary `2^totalRows` is exact: below it claims are judged
    as given, at or above it nothing accepted is a true claim as given.
  * `verifyPartialProof_*` — the two models of `VerifyPartialProof` agree on the verdict, and
    the verdict is sound with NO hypothesis on the stored hashes other than "the stored roots
    are the roots of `F`".
-/
import UtreexoVerif.Props.C03b
import UtreexoVerif.Props.C16
import UtreexoVerif.Props.C09
import UtreexoVerif.Model.ProofOps
import UtreexoVerif.Model.MapPollard

namespace UtreexoVerif.Props.C03c
open UtreexoVerif Model Hasher Spec GoInt
open UtreexoVerif.Proofs UtreexoVerif.Proofs.SpecNodes UtreexoVerif.Proofs.SpecView
open UtreexoVerif.Props.C03b

/-- the position `MapPollard.verify` checks for a claimed target `t` -/
def xlate (n : U64) (totalRows : U8) (t : U64) : U64 :=
  if TreeRows n ≠ totalRows then translatePos t totalRows (TreeRows n) else t

section
variable {H : Type} [DecidableEq H] [Hasher H]

theorem mapVerify_eq (n : U64) (totalRows : U8) (roots hs : List H) (ts : List U64) (ps : List H) :
    mapVerify n totalRows roots hs ts ps = verify n roots hs (ts.map (xlate n totalRows)) ps := by
  unfold mapVerify xlate translatePositions
  simp only
  split
  · rfl
  · simp

end

section
variable (H : Type) [DecidableEq H] [Hasher H]

/-- **`MapPollard.verify`, any `TotalRows`**: every accepted `(target, hash)` is a true claim
about the node at the translated target. -/
def mapVerify_sound_any_statement : Prop :=
  ∀ (F : Forest H), CR H → LeafOK F → F.numLeaves < 2 ^ 63 →
  ∀ (totalRows : U8) (hs : List H) (ts : List U64) (ps : List H) (idx : List Nat),
    (∀ h ∈ hs, h ≠ (zero : H)) →
    mapVerify (BitVec.ofNat 64 F.numLeaves) totalRows F.roots hs ts ps = .ok idx →
    ∀ x ∈ ts.zip hs, TrueClaim F (xlate (BitVec.ofNat 64 F.numLeaves) totalRows x.1, x.2)

end

section
variable {H : Type} [DecidableEq H] [Hasher H]

theorem mapVerify_sound_any : mapVerify_sound_any_statement H := by
  intro F cr hF hn totalRows hs ts ps idx hnz h x hx
  rw [mapVerify_eq] at h
  apply verify_sound_spec_full F cr hF hn hs _ ps idx hnz h
  rw [List.zip_map_left]
  exact List.mem_map.2 ⟨x, hx, rfl⟩

/-! ### where the translation is the identity -/

theorem and_one_shl_eq_zero {t : U64} {k : Nat} (h : t.toNat < 2 ^ k) :
    t &&& shl 1#64 k = 0#64 := by
  by_cases hk : k < 64
  · have := and_twoPow_ne_zero t hk
    rw [one_shl_eq_twoPow]
    have hb : t.getLsbD k = false := by
      rw [BitVec.getLsbD]
      exact Nat.testBit_lt_two_pow h
    rw [hb] at this
    simpa using this
  · rw [shl_eq, BitVec.shiftLeft_eq_zero (by omega)]
    simp

/-- positions below `2^rows` are on row 0 -/
theorem detectRow_eq_zero {t : U64} {rows : U8} (h : t.toNat < 2 ^ rows.toNat) :
    DetectRow t rows = 0#8 := by
  unfold DetectRow
  simp only
  have : DetectRow.loop1 t 300 (shl 1#64 rows.toNat) 0#8 = .done (shl 1#64 rows.toNat, 0#8) := by
    rw [show (300 : Nat) = 299 + 1 from rfl, DetectRow.loop1, and_one_shl_eq_zero h]
    simp
  rw [this]

theorem translatePos_eq_self {t : U64} {fromRows toRows : U8} (h : t.toNat < 2 ^ fromRows.toNat) :
    translatePos t fromRows toRows = t := by
  unfold translatePos
  rw [detectRow_eq_zero h]
  simp

/-- the translation of `MapPollard.verify` is the identity below `2^totalRows` -/
theorem xlate_eq_self_of_lt (n : U64) {totalRows : U8} {t : U64} (h : t.toNat < 2 ^ totalRows.toNat) :
    xlate n totalRows t = t := by
  unfold xlate
  split
  · exact translatePos_eq_self h
  · rfl

/-- **below the boundary the claim is true as given** -/
theorem mapVerify_sound_below {F : Forest H} (cr : CR H) (hF : LeafOK F) (hn : F.numLeaves < 2 ^ 63)
    {totalRows : U8} {hs : List H} {ts : List U64} {ps : List H} {idx : List Nat}
    (hnz : ∀ h ∈ hs, h ≠ (zero : H))
    (h : mapVerify (BitVec.ofNat 64 F.numLeaves) totalRows F.roots hs ts ps = .ok idx) :
    ∀ x ∈ ts.zip hs, x.1.toNat < 2 ^ totalRows.toNat → TrueClaim F x := by
  intro x hx hlt
  have := mapVerify_sound_any F cr hF hn totalRows hs ts ps idx hnz h x hx
  rwa [xlate_eq_self_of_lt _ hlt] at this

/-- every position of the forest, written in the API's `TreeRows` coordinates, lies below the
boundary as soon as `TreeRows < TotalRows`: the translation never touches an honest claim -/
theorem valid_pos_lt_boundary {rows T r o : Nat} (hrows : rows ≤ 63) (hlt : rows < T)
    (hr : r ≤ rows) (ho : o < 2 ^ (rows - r)) : (encU rows r o).toNat < 2 ^ T := by
  rw [toNat_encU hrows hr ho]
  have h1 := enc_lt_aux hr ho
  have h2 : 2 ^ (rows + 1) ≤ 2 ^ T := two_pow_le_of_le (by omega)
  omega

/-- **at or above the boundary no claim is true as given** (`TreeRows < TotalRows`) -/
theorem not_trueClaim_of_ge {F : Forest H} (hn : F.numLeaves < 2 ^ 63) {T : Nat} (hlt : F.rows < T)
    {x : U64 × H} (hge : 2 ^ T ≤ x.1.toNat) : ¬ TrueClaim F x := by
  rintro ⟨r, o, hr, ho, he, _⟩
  have := valid_pos_lt_boundary (rows := F.rows) (forestRows_le_63 hn) hlt hr ho
  rw [← he] at this
  omega

/-- **the method accepts both coordinate systems**: a target written as position `(r, o)` in
`TotalRows` coordinates is checked against the node at `(r, o)` -/
theorem mapVerify_sound_at_totalRows {F : Forest H} (cr : CR H) (hF : LeafOK F)
    (hn : F.numLeaves < 2 ^ 63) {T : Nat} (hT : T ≤ 63)
    {hs : List H} {ts : List U64} {ps : List H} {idx : List Nat}
    (hnz : ∀ h ∈ hs, h ≠ (zero : H))
    (h : mapVerify (BitVec.ofNat 64 F.numLeaves) (H8 T) F.roots hs ts ps = .ok idx)
    {r o : Nat} {c : H} (hr : r ≤ F.rows) (ho : o < 2 ^ (F.rows - r)) (hr' : r ≤ T)
    (ho' : o < 2 ^ (T - r)) (hx : (encU T r o, c) ∈ ts.zip hs) : F.nodeAt (r, o) = some c := by
  have hrows : F.rows ≤ 63 := forestRows_le_63 hn
  rw [mapVerify_eq] at h
  apply verify_sound_spec_at cr hF hn hnz h hr ho
  rw [List.zip_map_left]
  refine List.mem_map.2 ⟨(encU T r o, c), hx, ?_⟩
  simp only [Prod.map, id, Prod.mk.injEq, and_true]
  unfold xlate
  rw [treeRows_eq hn]
  split
  · exact Props.C16.translatePos_enc hT hr' ho' hrows hr ho
  · rename_i hne
    have h' : H8 (forestRows F.numLeaves) = H8 T := by simpa using hne
    have : forestRows F.numLeaves = T := by
      have := congrArg BitVec.toNat h'
      rwa [toNat_H8 (h := forestRows F.numLeaves) hrows, toNat_H8 hT] at this
    rw [← this]; rfl

/-- so: with `TreeRows < TotalRows`, an accepted target is a position of the forest (and the
claim about it is true) iff it is below `2^TotalRows` -/
theorem mapVerify_accepts_exact {F : Forest H} (cr : CR H) (hF : LeafOK F) (hn : F.numLeaves < 2 ^ 63)
    {totalRows : U8} (hlt : F.rows < totalRows.toNat)
    {hs : List H} {ts : List U64} {ps : List H} {idx : List Nat}
    (hnz : ∀ h ∈ hs, h ≠ (zero : H))
    (h : mapVerify (BitVec.ofNat 64 F.numLeaves) totalRows F.roots hs ts ps = .ok idx) :
    ∀ x ∈ ts.zip hs, (TrueClaim F x ↔ x.1.toNat < 2 ^ totalRows.toNat) := by
  intro x hx
  constructor
  · intro ht
    by_cases hc : x.1.toNat < 2 ^ totalRows.toNat
    · exact hc
    · exact absurd ht (not_trueClaim_of_ge hn hlt (by omega))
  · exact mapVerify_sound_below cr hF hn hnz h x hx

end

/-! ### `VerifyPartialProof`: the two models agree -/

section
set_option linter.unusedSectionVars false
variable {H : Type} [DecidableEq H] [Hasher H]

/-- the stored hashes of a state, as the `get` argument of `mapVerifyPartialProof` -/
def storedHash (m : MapPollard H) (p : U64) : Option H := (m.getNode p).map (·.hash)

/-- `Out` → the result type of the state machine -/
def toExcept {α : Type} : Out α → Except Fail α
  | .ok a => .ok a
  | .err => .error .err
  | .panic => .error .panic
  | .hang => .error .hang

theorem getNodeD_hash (m : MapPollard H) (p : U64) :
    (m.getNodeD p).hash = (storedHash m p).getD zero := by
  unfold MapPollard.getNodeD storedHash
  cases m.getNode p <;> rfl

theorem getRoots_eq (m : MapPollard H) :
    m.getRoots.1 = mapGetRoots m.numLeaves m.totalRows (storedHash m) := by
  unfold MapPollard.getRoots mapGetRoots
  simp only
  apply List.map_congr_left
  intro p _
  exact getNodeD_hash m p

/-- the accumulator loop of the state machine = the list recursion of `partialProofHashes` -/
theorem merge_eq (m : MapPollard H) : ∀ (ps : List U64) (supplied acc : List H),
    MapPollard.verifyPartialProof.merge m ps supplied acc =
      match partialProofHashes (storedHash m) ps supplied with
      | .ok l => some (acc ++ l)
      | _ => none := by
  intro ps
  induction ps with
  | nil => intro supplied acc; simp [MapPollard.verifyPartialProof.merge, partialProofHashes]
  | cons pos ps ih =>
    intro supplied acc
    unfold MapPollard.verifyPartialProof.merge partialProofHashes
    simp only [getNodeD_hash]
    split
    · cases supplied with
      | nil => rfl
      | cons s rest =>
        simp only
        rw [ih]
        cases partialProofHashes (storedHash m) ps rest <;> simp [Out.bind]
    · rw [ih]
      cases partialProofHashes (storedHash m) ps supplied <;> simp [Out.bind]

/-- `partialProofHashes` only ever answers `ok` or `err` -/
theorem partialProofHashes_total (get : U64 → Option H) : ∀ (ps : List U64) (supplied : List H),
    (∃ l, partialProofHashes get ps supplied = .ok l) ∨ partialProofHashes get ps supplied = .err := by
  intro ps
  induction ps with
  | nil => intro s; exact Or.inl ⟨[], rfl⟩
  | cons pos ps ih =>
    intro supplied
    unfold partialProofHashes
    simp only
    split
    · cases supplied with
      | nil => exact Or.inr rfl
      | cons s rest =>
        rcases ih rest with ⟨l, hl⟩ | hl
        · exact Or.inl ⟨s :: l, by simp [hl, Out.bind]⟩
        · exact Or.inr (by simp [hl, Out.bind])
    · rcases ih supplied with ⟨l, hl⟩ | hl
      · exact Or.inl ⟨(get pos).getD zero :: l, by simp [hl, Out.bind]⟩
      · exact Or.inr (by simp [hl, Out.bind])

/-- the proof positions both models look up -/
def partialPositions (n : U64) (totalRows : U8) (origTargets : List U64) : List U64 :=
  let tr := TreeRows n
  let pp := (ProofPositions (sortU64 origTargets) n tr).1
  if tr ≠ totalRows then translatePositions pp tr totalRows else pp

theorem mapVerifyPartialProof_eq (n : U64) (totalRows : U8) (get : U64 → Option H)
    (ts : List U64) (hs ps : List H) :
    mapVerifyPartialProof n totalRows get ts hs ps =
      (partialProofHashes get (partialPositions n totalRows ts) ps).bind fun all =>
        (mapVerify n totalRows (mapGetRoots n totalRows get) hs ts all).bind fun _ => .ok () := rfl

/-- `verifyM` without `remember` is `mapVerify` on the stored roots -/
theorem verifyM_false (m : MapPollard H) (hs : List H) (ts : List U64) (ps : List H) :
    MapPollard.verifyM hs ts ps false m =
      (m, toExcept ((mapVerify m.numLeaves m.totalRows m.getRoots.1 hs ts ps).bind fun _ => .ok ())) := by
  unfold MapPollard.verifyM mapVerify
  simp only
  cases verify m.numLeaves m.getRoots.1 hs
    (if TreeRows m.numLeaves ≠ m.totalRows then translatePositions ts m.totalRows (TreeRows m.numLeaves) else ts)
    ps <;> rfl

/-- **the two models of `VerifyPartialProof` agree** (no `remember`): same state, same outcome -/
theorem verifyPartialProof_false (m : MapPollard H) (ts : List U64) (hs ps : List H) :
    MapPollard.verifyPartialProof ts hs ps false m =
      (m, toExcept (mapVerifyPartialProof m.numLeaves m.totalRows (storedHash m) ts hs ps)) := by
  rw [mapVerifyPartialProof_eq]
  unfold MapPollard.verifyPartialProof
  simp only
  rw [show (if TreeRows m.numLeaves ≠ m.totalRows then
        translatePositions (ProofPositions (sortU64 ts) m.numLeaves (TreeRows m.numLeaves)).1
          (TreeRows m.numLeaves) m.totalRows
      else (ProofPositions (sortU64 ts) m.numLeaves (TreeRows m.numLeaves)).1) =
      partialPositions m.numLeaves m.totalRows ts from rfl, merge_eq]
  rcases partialProofHashes_total (storedHash m) (partialPositions m.numLeaves m.totalRows ts) ps with
    ⟨l, hl⟩ | hl
  · rw [hl]
    simp only [List.nil_append]
    rw [verifyM_false, getRoots_eq]
    rfl
  · rw [hl]; rfl

/-- with `remember` the verdict is still that of the functional model: `ok` implies `ok` … -/
theorem verifyM_ok {m : MapPollard H} {hs : List H} {ts : List U64} {ps : List H} {remember : Bool}
    (h : (MapPollard.verifyM hs ts ps remember m).2 = .ok ()) :
    ∃ idx, mapVerify m.numLeaves m.totalRows m.getRoots.1 hs ts ps = .ok idx := by
  unfold MapPollard.verifyM at h
  unfold mapVerify
  simp only at h ⊢
  generalize verify m.numLeaves m.getRoots.1 hs
    (if TreeRows m.numLeaves ≠ m.totalRows then translatePositions ts m.totalRows (TreeRows m.numLeaves) else ts)
    ps = v at h ⊢
  cases v with
  | ok idx => exact ⟨idx, rfl⟩
  | err => simp at h
  | panic => simp at h
  | hang => simp at h

theorem verifyPartialProof_ok {m : MapPollard H} {ts : List U64} {hs ps : List H} {remember : Bool}
    (h : (MapPollard.verifyPartialProof ts hs ps remember m).2 = .ok ()) :
    mapVerifyPartialProof m.numLeaves m.totalRows (storedHash m) ts hs ps = .ok () := by
  rw [mapVerifyPartialProof_eq]
  unfold MapPollard.verifyPartialProof at h
  simp only at h
  rw [show (if TreeRows m.numLeaves ≠ m.totalRows then
        translatePositions (ProofPositions (sortU64 ts) m.numLeaves (TreeRows m.numLeaves)).1
          (TreeRows m.numLeaves) m.totalRows
      else (ProofPositions (sortU64 ts) m.numLeaves (TreeRows m.numLeaves)).1) =
      partialPositions m.numLeaves m.totalRows ts from rfl, merge_eq] at h
  rcases partialProofHashes_total (storedHash m) (partialPositions m.numLeaves m.totalRows ts) ps with
    ⟨l, hl⟩ | hl
  · rw [hl] at h ⊢
    simp only [List.nil_append] at h
    obtain ⟨idx, hidx⟩ := verifyM_ok h
    rw [getRoots_eq] at hidx
    simp [Out.bind, hidx]
  · rw [hl] at h; simp at h

end

/-! ### soundness of `VerifyPartialProof` and of the stateful `Verify` -/

section
variable (H : Type) [DecidableEq H] [Hasher H]

/-- **`VerifyPartialProof` is sound, whatever the instance has stored.**  The only link between
the state and the forest `F` is that the stored ROOTS are the roots of `F`; every other stored
hash is used as a proof hash only, so it needs no hypothesis at all (a wrong stored hash can
make an honest proof fail, never a false claim pass). -/
def mapVerifyPartialProof_sound_statement : Prop :=
  ∀ (F : Forest H), CR H → LeafOK F → F.numLeaves < 2 ^ 63 →
  ∀ (totalRows : U8) (get : U64 → Option H),
    mapGetRoots (BitVec.ofNat 64 F.numLeaves) totalRows get = F.roots →
  ∀ (ts : List U64) (hs ps : List H),
    (∀ h ∈ hs, h ≠ (zero : H)) →
    mapVerifyPartialProof (BitVec.ofNat 64 F.numLeaves) totalRows get ts hs ps = .ok () →
    ∀ x ∈ ts.zip hs, TrueClaim F (xlate (BitVec.ofNat 64 F.numLeaves) totalRows x.1, x.2)

end

section
variable {H : Type} [DecidableEq H] [Hasher H]

theorem mapVerifyPartialProof_sound : mapVerifyPartialProof_sound_statement H := by
  intro F cr hF hn totalRows get hroots ts hs ps hnz h x hx
  rw [mapVerifyPartialProof_eq, Proofs.CalcSound.bind_eq_ok] at h
  obtain ⟨all, _, h⟩ := h
  rw [Proofs.CalcSound.bind_eq_ok] at h
  obtain ⟨idx, h, _⟩ := h
  rw [hroots] at h
  exact mapVerify_sound_any F cr hF hn totalRows hs ts all idx hnz h x hx

/-- the state machine's `Verify(delHashes, proof, remember)` -/
theorem verifyM_sound {m : MapPollard H} {F : Forest H} (cr : CR H) (hF : LeafOK F)
    (hn : F.numLeaves < 2 ^ 63) (hnum : m.numLeaves = BitVec.ofNat 64 F.numLeaves)
    (hroots : m.roots = F.roots) {hs : List H} {ts : List U64} {ps : List H} {remember : Bool}
    (hnz : ∀ h ∈ hs, h ≠ (zero : H))
    (h : (MapPollard.verifyM hs ts ps remember m).2 = .ok ()) :
    ∀ x ∈ ts.zip hs, TrueClaim F (xlate m.numLeaves m.totalRows x.1, x.2) := by
  obtain ⟨idx, hidx⟩ := verifyM_ok h
  rw [show m.getRoots.1 = m.roots from rfl, hroots, hnum] at hidx
  rw [hnum]
  exact mapVerify_sound_any F cr hF hn m.totalRows hs ts ps idx hnz hidx

/-- the state machine's `VerifyPartialProof(targets, hashes, proofHashes, remember)` -/
theorem verifyPartialProof_sound {m : MapPollard H} {F : Forest H} (cr : CR H) (hF : LeafOK F)
    (hn : F.numLeaves < 2 ^ 63) (hnum : m.numLeaves = BitVec.ofNat 64 F.numLeaves)
    (hroots : m.roots = F.roots) {hs ps : List H} {ts : List U64} {remember : Bool}
    (hnz : ∀ h ∈ hs, h ≠ (zero : H))
    (h : (MapPollard.verifyPartialProof ts hs ps remember m).2 = .ok ()) :
    ∀ x ∈ ts.zip hs, TrueClaim F (xlate m.numLeaves m.totalRows x.1, x.2) := by
  have h' := verifyPartialProof_ok h
  rw [hnum] at h' ⊢
  refine mapVerifyPartialProof_sound F cr hF hn m.totalRows (storedHash m) ?_ ts hs ps hnz h'
  rw [← hnum, ← getRoots_eq]
  exact hroots

/-! ### under the storage invariant -/

open UtreexoVerif.Proofs.MapInv in
/-- under `Inv m F` the translated target is the decoding of the target in the coordinates the
method actually reads (`TotalRows` at or above the boundary, `TreeRows` below it) -/
theorem verifyPartialProof_sound_inv {m : MapPollard H} {F : Forest H} (inv : Inv m F)
    (cr : CR H) (hF : LeafOK F) {hs ps : List H} {ts : List U64} {remember : Bool}
    (hnz : ∀ h ∈ hs, h ≠ (zero : H))
    (h : (MapPollard.verifyPartialProof ts hs ps remember m).2 = .ok ()) :
    ∀ x ∈ ts.zip hs, TrueClaim F (xlate m.numLeaves m.totalRows x.1, x.2) :=
  verifyPartialProof_sound cr hF inv.n_lt inv.n_eq (Props.C09.roots_eq inv) hnz h

open UtreexoVerif.Proofs.MapInv in
/-- **`VerifyPartialProof` under the invariant, `TotalRows = TreeRows`: every claim is true at
the position given** -/
theorem verifyPartialProof_sound_inv_eq {m : MapPollard H} {F : Forest H} (inv : Inv m F)
    (cr : CR H) (hF : LeafOK F) (heq : m.totalRows = TreeRows m.numLeaves)
    {hs ps : List H} {ts : List U64} {remember : Bool}
    (hnz : ∀ h ∈ hs, h ≠ (zero : H))
    (h : (MapPollard.verifyPartialProof ts hs ps remember m).2 = .ok ()) :
    ∀ x ∈ ts.zip hs, TrueClaim F x := by
  intro x hx
  have := verifyPartialProof_sound_inv inv cr hF hnz h x hx
  unfold xlate at this
  rwa [if_neg (by simp [heq])] at this

open UtreexoVerif.Proofs.MapInv in
/-- … and for any `TotalRows`, at the position given whenever the target is below the boundary
`2^TotalRows` (in particular for every position of the API's coordinates) -/
theorem verifyPartialProof_sound_inv_below {m : MapPollard H} {F : Forest H} (inv : Inv m F)
    (cr : CR H) (hF : LeafOK F) {hs ps : List H} {ts : List U64} {remember : Bool}
    (hnz : ∀ h ∈ hs, h ≠ (zero : H))
    (h : (MapPollard.verifyPartialProof ts hs ps remember m).2 = .ok ()) :
    ∀ x ∈ ts.zip hs, x.1.toNat < 2 ^ m.totalRows.toNat → TrueClaim F x := by
  intro x hx hlt
  have := verifyPartialProof_sound_inv inv cr hF hnz h x hx
  rwa [xlate_eq_self_of_lt _ hlt] at this

open UtreexoVerif.Proofs.MapInv in
theorem verifyM_sound_inv_below {m : MapPollard H} {F : Forest H} (inv : Inv m F)
    (cr : CR H) (hF : LeafOK F) {hs ps : List H} {ts : List U64} {remember : Bool}
    (hnz : ∀ h ∈ hs, h ≠ (zero : H))
    (h : (MapPollard.verifyM hs ts ps remember m).2 = .ok ()) :
    ∀ x ∈ ts.zip hs, x.1.toNat < 2 ^ m.totalRows.toNat → TrueClaim F x := by
  intro x hx hlt
  have := verifyM_sound cr hF inv.n_lt inv.n_eq (Props.C09.roots_eq inv) hnz h x hx
  rwa [xlate_eq_self_of_lt _ hlt] at this

end

/-! ### the known finding `C03.mapverify.totalrows`, and non-vacuity

Four leaves `0..3` over the free term algebra, `TreeRows = 2`:

```
row 2:                 6
row 1:        4 = (0,1)      5 = (2,3)
row 0:      0     1        2     3
```

In a `MapPollard` whose `TotalRows` is 3 the same nodes are stored at `0..3, 8, 9, 12`. -/

namespace Finding
open C03.Example

def F : Forest T := ⟨[some (.leaf 0), some (.leaf 1), some (.leaf 2), some (.leaf 3)]⟩

def h4 : T := .node (.leaf 0) (.leaf 1)
def h5 : T := .node (.leaf 2) (.leaf 3)

example : F.numLeaves = 4 ∧ F.rows = 2 ∧ F.roots = [T.node h4 h5] := by decide +kernel

theorem leafOK : LeafOK F := by
  apply LeafOK.of_liveLeaves
  intro l hl a b _ _ he
  have : l = .leaf 0 ∨ l = .leaf 1 ∨ l = .leaf 2 ∨ l = .leaf 3 := by
    simpa [F, Forest.liveLeaves] using hl
  rcases this with rfl | rfl | rfl | rfl <;> cases he

theorem small : F.numLeaves < 2 ^ 63 := by decide

theorem nz {l : List T} (h : ∀ x ∈ l, x ≠ T.z) : ∀ x ∈ l, x ≠ (zero : T) := h

/-- **the finding**: `TotalRows = 3`; the hash of position 4 is accepted at position 8, with the
hash of position 5 as the proof -/
theorem accepted :
    mapVerify (BitVec.ofNat 64 F.numLeaves) 3#8 F.roots [h4] [8#64] [h5] = .ok [0] := by
  decide +kernel

/-- the position checked is 4 … -/
example : xlate (BitVec.ofNat 64 F.numLeaves) 3#8 8#64 = 4#64 := by decide +kernel

/-- … where the claim is true (`mapVerify_sound_any` on the accepted run) … -/
example : TrueClaim F (4#64, h4) := by
  have := mapVerify_sound_any F cr leafOK small 3#8 [h4] [8#64] [h5] [0]
    (by intro h hh; simp at hh; subst hh; intro hz; cases hz) accepted (8#64, h4) (by simp)
  rwa [show xlate (BitVec.ofNat 64 F.numLeaves) 3#8 8#64 = 4#64 from by decide +kernel] at this

/-- … but position 8 is not a position of a 4-leaf forest: the accepted claim, read as the API
documents it, is false -/
theorem claim_false : ¬ TrueClaim F (8#64, h4) :=
  not_trueClaim_of_ge small (T := 3) (by decide) (by decide)

/-- the same in the configuration every `NewMapPollard` starts in, `TotalRows = 63`: the hash of
position 4 is accepted at position `2^63` (replayed on the Go code: `Verify` and
`VerifyPartialProof` of a fresh 4-leaf `MapPollard` return `nil` for it) -/
theorem accepted63 :
    mapVerify (BitVec.ofNat 64 F.numLeaves) 63#8 F.roots [h4] [BitVec.twoPow 64 63] [h5] = .ok [0] := by
  decide +kernel

example : ¬ TrueClaim F (BitVec.twoPow 64 63, h4) :=
  not_trueClaim_of_ge small (T := 63) (by decide) (by decide)

/-- `mapVerify_sound_at_totalRows` on the accepted run: position 8 of the 3-row geometry is
`(1, 0)`, and the node of `F` at `(1, 0)` (API position 4) has the claimed hash -/
example : F.nodeAt (1, 0) = some h4 :=
  mapVerify_sound_at_totalRows (F := F) cr leafOK small (T := 3) (by decide)
    (by intro h hh; simp at hh; subst hh; intro hz; cases hz) accepted (r := 1) (o := 0)
    (by decide) (by decide) (by decide) (by decide) (by decide)

/-- the same claim is rejected when `TotalRows = TreeRows` -/
example : mapVerify (BitVec.ofNat 64 F.numLeaves) 2#8 F.roots [h4] [8#64] [h5] = .err := by
  decide +kernel

/-- the honest claim (position 4) is accepted for both row counts, and it is below the boundary -/
theorem accepted_honest :
    mapVerify (BitVec.ofNat 64 F.numLeaves) 3#8 F.roots [h4] [4#64] [h5] = .ok [0] := by
  decide +kernel

example : TrueClaim F (4#64, h4) :=
  mapVerify_sound_below cr leafOK small
    (by intro h hh; simp at hh; subst hh; intro hz; cases hz) accepted_honest (4#64, h4) (by simp)
    (by decide)

/-- `mapVerify_accepts_exact` on the two accepted runs -/
example : TrueClaim F (4#64, h4) ↔ (4#64 : U64).toNat < 2 ^ (3#8 : U8).toNat :=
  mapVerify_accepts_exact cr leafOK small (totalRows := 3#8) (by decide)
    (by intro h hh; simp at hh; subst hh; intro hz; cases hz) accepted_honest (4#64, h4) (by simp)

example : TrueClaim F (8#64, h4) ↔ (8#64 : U64).toNat < 2 ^ (3#8 : U8).toNat :=
  mapVerify_accepts_exact cr leafOK small (totalRows := 3#8) (by decide)
    (by intro h hh; simp at hh; subst hh; intro hz; cases hz) accepted (8#64, h4) (by simp)

/-! #### `VerifyPartialProof` on a concrete state

A non-full `MapPollard` with `TotalRows = 3` holding the root (position 12) and, wrongly or
rightly, a hash at position 9 (= node 5 of the API).  The proof for leaf 0 needs positions
1 and 9 (API: 1 and 5); position 9 is stored, so the caller supplies the hash of position 1
only. -/

def st (h9 : T) : MapPollard T :=
  { nodes := [(12#64, ⟨T.node h4 h5, false⟩), (9#64, ⟨h9, false⟩)], cached := [],
    numLeaves := 4#64, totalRows := 3#8, full := false }

example : (st h5).roots = F.roots ∧ (st (T.leaf 77)).roots = F.roots := by decide +kernel

def isOkE : Except Fail Unit → Bool
  | .ok _ => true
  | _ => false

def isErrE : Except Fail Unit → Bool
  | .error .err => true
  | _ => false

theorem eq_ok_of_isOkE {e : Except Fail Unit} (h : isOkE e = true) : e = .ok () := by
  cases e with
  | ok u => rfl
  | error f => simp [isOkE] at h

theorem eq_err_of_isErrE {e : Except Fail Unit} (h : isErrE e = true) : e = .error .err := by
  cases e with
  | ok u => simp [isErrE] at h
  | error f => cases f <;> simp_all [isErrE]

/-- with the true hash stored at 9 the partial proof is accepted (both models) -/
theorem partial_accepted :
    (MapPollard.verifyPartialProof [0#64] [T.leaf 0] [T.leaf 1] false (st h5)).2 = .ok () :=
  eq_ok_of_isOkE (by decide +kernel)

example : mapVerifyPartialProof (st h5).numLeaves (st h5).totalRows (storedHash (st h5))
    [0#64] [T.leaf 0] [T.leaf 1] = .ok () := verifyPartialProof_ok partial_accepted

/-- `verifyPartialProof_sound` on that run: leaf 0 is at position 0 -/
example : TrueClaim F (0#64, T.leaf 0) := by
  have := verifyPartialProof_sound (m := st h5) (F := F) cr leafOK small rfl (by decide +kernel)
    (by intro h hh; simp at hh; subst hh; intro hz; cases hz) partial_accepted (0#64, T.leaf 0)
    (by simp)
  rwa [show xlate (st h5).numLeaves (st h5).totalRows 0#64 = 0#64 from by decide +kernel] at this

/-- a WRONG stored hash at 9 (no invariant!) only makes the honest proof fail … -/
example : (MapPollard.verifyPartialProof [0#64] [T.leaf 0] [T.leaf 1] false (st (T.leaf 77))).2
    = .error .err := eq_err_of_isErrE (by decide +kernel)

/-- … and a false claim is rejected whatever is stored there -/
example : (MapPollard.verifyPartialProof [0#64] [T.leaf 5] [T.leaf 1] false (st h5)).2
    = .error .err := eq_err_of_isErrE (by decide +kernel)

/-- the finding through `VerifyPartialProof`: the hashes of API positions 4 and 5 accepted at
targets 8 and 9.  (`VerifyPartialProof` computes the proof positions from the UNtranslated
targets in `TreeRows` coordinates, where 8 and 9 are out of range and yield no proof position;
so only claims that need no proof hash get through this entry point: a single target 8 is
rejected for lack of the hash of position 5.) -/
theorem partial_finding :
    (MapPollard.verifyPartialProof [8#64, 9#64] [h4, h5] [] false (st h5)).2 = .ok () :=
  eq_ok_of_isOkE (by decide +kernel)

example : (MapPollard.verifyPartialProof [8#64] [h4] [h5] false (st h5)).2 = .error .err :=
  eq_err_of_isErrE (by decide +kernel)

example : ¬ TrueClaim F (9#64, h5) := not_trueClaim_of_ge small (T := 3) (by decide) (by decide)

end Finding

end UtreexoVerif.Props.C03c
