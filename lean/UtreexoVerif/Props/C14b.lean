/-
  C14 (specification level) — `GetMissingPositions` is exact.

  On top of `proofPositions_spec` (C16c: `ProofPositions` on sorted, un-nested nodes of the
  forest returns the specification's canonical proof positions and computable ancestors):

  `getMissingPositions_refines`: for held and desired target lists in ANY order (no target
  desired twice) whose sorted versions satisfy the hypotheses of `proofPositions_spec`
  (`PPHyp`: nodes of the forest, none an ancestor of another — true of every set of leaves),
  `GetMissingPositions` returns — ascending — exactly the encodings of

      Spec.Forest.proofPositions (desired \ held)
        minus (held ∪ Spec.Forest.proofPositions held ∪ Spec.Forest.computable held),

  i.e. the body of `C14_missing_statement` with the leaf positions replaced by lists that
  satisfy `PPHyp`.  What is still missing for `C14_missing_statement` itself is the lemma
  that the positions of distinct live leaves of a `Spec.Forest` satisfy `PPHyp`.
-/
import UtreexoVerif.Props.C14
import UtreexoVerif.Props.C16c
import UtreexoVerif.Proofs.SortedLists

namespace UtreexoVerif.Props.C14
open UtreexoVerif Model Spec Spec.Forest Proofs Proofs.ProofOps Props.C16

/-! ### strictly ascending `U64` lists are determined by their members -/

theorem eq_of_strict_of_mem_iff (l1 l2 : List U64) (h1 : l1.Pairwise (· < ·)) (h2 : l2.Pairwise (· < ·))
    (h : ∀ x, x ∈ l1 ↔ x ∈ l2) : l1 = l2 :=
  Proofs.Sorted.eq_of_sorted_of_mem_iff (R := fun (a b : U64) => a < b) (fun a => by bv_omega)
    (fun a b c hab hbc => by bv_omega) l1 l2 h1 h2 h

theorem le_of_strict {l : List U64} (h : l.Pairwise (· < ·)) : l.Pairwise (· ≤ ·) :=
  h.imp (fun hab => by bv_omega)

section
variable {h : Nat}

/-- the encodings of a strictly sorted list of valid positions are strictly ascending -/
theorem strict_map_encP (hh : h ≤ 63) (l : List Pos) (hs : SSorted l) (hv : ∀ p ∈ l, ValidH h p) :
    (l.map (encP h)).Pairwise (· < ·) := by
  rw [List.pairwise_map]
  refine hs.imp_of_mem ?_
  intro a b ha hb hab
  exact (encP_lt_iff hh (hv a ha) (hv b hb)).mpr hab

theorem mem_map_encP_iff (hh : h ≤ 63) (l : List Pos) (hv : ∀ p ∈ l, ValidH h p) (p : Pos) (hp : ValidH h p) :
    encP h p ∈ l.map (encP h) ↔ p ∈ l := by
  constructor
  · intro hm
    obtain ⟨q, hq, e⟩ := List.mem_map.mp hm
    rw [← encP_inj hh (hv q hq) hp e]
    exact hq
  · exact List.mem_map_of_mem

/-- subtraction of encoded position lists is the encoded filter -/
theorem subtract_map_encP (hh : h ≤ 63) (X : List Pos) (Y : List U64) (Yp : List Pos)
    (hX : SSorted X) (hvX : ∀ p ∈ X, ValidH h p) (hvY : ∀ p ∈ Yp, ValidH h p)
    (hY : Y.Pairwise (· ≤ ·)) (hYmem : ∀ x, x ∈ Y ↔ x ∈ Yp.map (encP h)) :
    subtractU64 (X.map (encP h)) Y = (X.filter (fun p => !Yp.contains p)).map (encP h) := by
  have hsX := strict_map_encP hh X hX hvX
  apply eq_of_strict_of_mem_iff
  · exact hsX.sublist (subtractU64_sublist _ _)
  · exact strict_map_encP hh _ (hX.sublist List.filter_sublist)
      (fun p hp => hvX p (List.mem_filter.mp hp).1)
  · intro x
    rw [mem_subtractU64_iff _ _ hsX hY, hYmem]
    simp only [List.mem_map, List.mem_filter, Bool.not_eq_true', List.contains_eq_mem, decide_eq_false_iff_not]
    constructor
    · rintro ⟨⟨p, hp, rfl⟩, hn⟩
      refine ⟨p, ⟨hp, ?_⟩, rfl⟩
      intro hpy
      exact hn ⟨p, hpy, rfl⟩
    · rintro ⟨p, ⟨hp, hn⟩, rfl⟩
      refine ⟨⟨p, hp, rfl⟩, ?_⟩
      rintro ⟨q, hq, e⟩
      rw [encP_inj hh (hvY q hq) (hvX p hp) e] at hq
      exact hn hq

end

section
variable {Hh : Type} (F : Forest Hh) {h : Nat}

theorem valid_of_belowRoot {n r o R : Nat} (hn : n ≤ 2 ^ h) (hb : BelowRoot n r o R) : ValidH h (r, o) :=
  let ⟨_, h1, h2⟩ := belowRoot_valid hn hb
  ⟨h1, h2⟩

theorem valid_targets {Tg : List Pos} (hn : F.numLeaves ≤ 2 ^ h) (hyp : PPHyp F.numLeaves Tg) :
    ∀ p ∈ Tg, ValidH h p := by
  intro p hp
  obtain ⟨R, hb⟩ := hyp.inForest p hp
  exact valid_of_belowRoot hn hb

theorem valid_proofPositions {Tg : List Pos} (hn : F.numLeaves ≤ 2 ^ h) (hyp : PPHyp F.numLeaves Tg) :
    ∀ p ∈ F.proofPositions Tg, ValidH h p := by
  intro q hq
  obtain ⟨x, hx, hr, rfl, _⟩ := (mem_spec_proofPositions F hyp q).mp hq
  obtain ⟨R, hb⟩ := hx.belowRoot
  have hne : x.1 ≠ R := by
    intro e
    have := belowRoot_isRootPos hb
    rw [show (x.1, x.2) = x from rfl, hr] at this
    simp [e] at this
  exact valid_of_belowRoot hn (belowRoot_sib hb hne)

theorem valid_computable {Tg : List Pos} (hn : F.numLeaves ≤ 2 ^ h) (hyp : PPHyp F.numLeaves Tg) :
    ∀ p ∈ F.computable Tg, ValidH h p := by
  intro q hq
  obtain ⟨x, hx, hr, rfl⟩ := (mem_spec_computable F hyp q).mp hq
  obtain ⟨R, hb⟩ := hx.belowRoot
  have hne : x.1 ≠ R := by
    intro e
    have := belowRoot_isRootPos hb
    rw [show (x.1, x.2) = x from rfl, hr] at this
    simp [e] at this
  exact valid_of_belowRoot hn (belowRoot_parent hb hne)

theorem proofPositions_nil : F.proofPositions [] = [] := by
  simp [Forest.proofPositions, Forest.sortDedup]

/-- **`GetMissingPositions` is exact** (see the header). -/
theorem getMissingPositions_refines (n : U64) (hn : n.toNat = F.numLeaves) (hT : TreeRows n = H8 h)
    (hh : h ≤ 63) (held desired : List Pos) (hnd : desired.Nodup)
    (hvD : ∀ p ∈ desired, ValidH h p)
    (hA : PPHyp F.numLeaves (sortPos held))
    (hD : PPHyp F.numLeaves ((sortPos desired).filter (fun p => !(sortPos held).contains p))) :
    getMissingPositions n (held.map (encP h)) (desired.map (encP h)) =
      ((F.proofPositions ((sortPos desired).filter (fun p => !(sortPos held).contains p))).filter
        (fun p => !(sortPos held ++ F.proofPositions (sortPos held) ++ F.computable (sortPos held)).contains p)).map
        (encP h) := by
  have hle : F.numLeaves ≤ 2 ^ h := by rw [← hn]; exact le_of_treeRows n hT hh
  have hvA := valid_targets F hle hA
  have hvHeld : ∀ p ∈ held, ValidH h p := fun p hp => hvA p (mem_sortPos.mpr hp)
  have hvDs : ∀ p ∈ sortPos desired, ValidH h p := fun p hp => hvD p (mem_sortPos.mp hp)
  -- the sorted inputs
  have e1 : sortU64 (held.map (encP h)) = (sortPos held).map (encP h) := sortU64_encP hh held hvHeld
  have e2 : sortU64 (desired.map (encP h)) = (sortPos desired).map (encP h) := sortU64_encP hh desired hvD
  -- the extra targets
  have e3 : subtractU64 ((sortPos desired).map (encP h)) ((sortPos held).map (encP h)) =
      ((sortPos desired).filter (fun p => !(sortPos held).contains p)).map (encP h) :=
    subtract_map_encP hh _ _ (sortPos held) (sortPos_ssorted hnd) hvDs hvA
      (le_of_strict (strict_map_encP hh _ hA.sorted hvA)) (fun _ => Iff.rfl)
  unfold getMissingPositions
  simp only [hT, e1, e2, e3]
  cases hDe : (sortPos desired).filter (fun p => !(sortPos held).contains p) with
  | nil => simp [proofPositions_nil]
  | cons d ds =>
    rw [← hDe]
    have hne : (List.map (encP h) ((sortPos desired).filter (fun p => !(sortPos held).contains p))).isEmpty = false := by
      rw [hDe]; rfl
    simp only [hne, Bool.false_eq_true, if_false]
    rw [proofPositions_spec F n hn hT hh (Nat.le_refl h) _ hD, proofPositions_spec F n hn hT hh (Nat.le_refl h) _ hA]
    simp only
    have hvPD := valid_proofPositions F hle hD
    have hvPA := valid_proofPositions F hle hA
    have hvCA := valid_computable F hle hA
    apply subtract_map_encP hh _ _ (sortPos held ++ F.proofPositions (sortPos held) ++ F.computable (sortPos held))
      (sortDedup_ssorted _) hvPD
    · intro p hp
      simp only [List.mem_append] at hp
      rcases hp with (hp | hp) | hp
      · exact hvA p hp
      · exact hvPA p hp
      · exact hvCA p hp
    · exact sorted_sortU64 _
    · intro x
      rw [mem_sortU64]
      simp only [List.mem_append, List.map_append]
      constructor
      · rintro ((hx | hx) | hx)
        · exact Or.inl (Or.inr hx)
        · exact Or.inl (Or.inl hx)
        · exact Or.inr hx
      · rintro ((hx | hx) | hx)
        · exact Or.inl (Or.inr hx)
        · exact Or.inl (Or.inl hx)
        · exact Or.inr hx

end

/-! ## Non-vacuity: the hypotheses hold for two leaves of a 4-leaf forest -/

section examples

def F4u : Forest Unit := ⟨[some (), some (), some (), some ()]⟩

theorem F4u_hyp (p : Pos) (hp : p = (0, 0) ∨ p = (0, 2)) : PPHyp F4u.numLeaves [p] where
  inForest := by
    intro t ht
    simp only [List.mem_cons, List.not_mem_nil, or_false] at ht
    subst ht
    rcases hp with rfl | rfl
    · exact ⟨2, by decide, by decide, by decide⟩
    · exact ⟨2, by decide, by decide, by decide⟩
  sorted := by simp [SSorted]
  anti := by
    intro a ha b hb _
    simp only [List.mem_cons, List.not_mem_nil, or_false] at ha hb
    rw [ha, hb]

/-- held = leaf 0, desired = leaf 2 and leaf 0 (in that order): only position 3 is missing -/
example : getMissingPositions 4#64 ([(0, 0)].map (encP 2)) ([(0, 2), (0, 0)].map (encP 2)) = [3#64] := by
  rw [getMissingPositions_refines F4u (h := 2) 4#64 (by decide) (by decide) (by decide) [(0, 0)] [(0, 2), (0, 0)]
    (by decide)
    (by intro p hp
        simp only [List.mem_cons, List.not_mem_nil, or_false] at hp
        rcases hp with rfl | rfl <;> exact ⟨by decide, by decide⟩)
    (F4u_hyp _ (Or.inl rfl)) (F4u_hyp _ (Or.inr rfl))]
  decide +kernel

end examples

end UtreexoVerif.Props.C14
