/-
  C13 instantiated at Go's hash type: `Hash = [32]byte`.

  `Props/C13.lean` proves the serialization property for every hash type whose wire form is
  32 decodable bytes (`HashBytesOK`).  Here that hypothesis is discharged for the type the Go
  code uses — arrays of exactly 32 bytes, written and read verbatim — and for EVERY parent-hash
  function on it (the round-trip does not depend on SHA-512/256), so the statement no longer
  carries a hypothesis about the hash type.
-/
import UtreexoVerif.Props.C13

namespace UtreexoVerif.Props.C13
open UtreexoVerif Model.Serial Spec Hasher Proofs.Serial

/-- Go's `type Hash [32]byte` -/
abbrev Bytes32 := { l : List Byte // l.length = 32 }

/-- the all-zero hash (`empty` in the Go code) -/
def Bytes32.zero : Bytes32 := ⟨List.replicate 32 0#8, by simp⟩

/-- a hash is written as its 32 bytes and read back from 32 bytes (`copy(h[:], buf)`) -/
instance : HashBytes Bytes32 :=
  ⟨fun h => h.1, fun bs => if h : bs.length = 32 then ⟨bs, h⟩ else Bytes32.zero⟩

theorem okBytes32 : HashBytesOK Bytes32 :=
  ⟨fun h => h.2, fun h => by simp [toBytes, ofBytes, h.2]⟩

/-- **C13 for `[32]byte` hashes and any parent-hash function**: no hypothesis on the hash type
is left. -/
theorem C13_bytes32 (ph : Bytes32 → Bytes32 → Bytes32) :
    letI : Hasher Bytes32 := ⟨ph, Bytes32.zero⟩
    (∀ F : Forest Bytes32, LeavesOK F → PollardClaims F) ∧
    (∀ m : MapSt Bytes32, MapOK m → MapClaims m) ∧
    AllStreamsClaims Bytes32 :=
  letI : Hasher Bytes32 := ⟨ph, Bytes32.zero⟩
  C13 Bytes32 okBytes32

end UtreexoVerif.Props.C13
