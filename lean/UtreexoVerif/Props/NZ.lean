/-
  `NZ H` ("the parent hash is never the all-zero hash", `Spec/View.lean`) on a FINITE hash type.

  Most honest-behaviour theorems (C01, C02, C05, C07, C08, C09, C13Map, …) assume only `NZ H`,
  no longer the injectivity half of `CR H`.  `CR H` is impossible for every finite hash type
  (`Props/C13MapNote.lean`), so a theorem assuming it says nothing about a real 32-byte hash;
  `NZ H` is satisfiable by finite hash types.  This file exhibits one — a ONE-BYTE hash, for which
  `CR` is false — and applies converted main theorems to concrete forests over it.
-/
import UtreexoVerif.Props.C01
import UtreexoVerif.Props.C02
import UtreexoVerif.Props.C08b
import UtreexoVerif.Props.C09c
import UtreexoVerif.Props.C10
import UtreexoVerif.Props.C13b

namespace UtreexoVerif.Props.NZ
open UtreexoVerif Spec Spec.Forest Model Hasher
open UtreexoVerif.Proofs.PollardLookup UtreexoVerif.Model.PollardAbs UtreexoVerif.Proofs.CalcGeo

/-- a one-byte hash (256 values): `ph a b = (31·a + b) ||| 1 (mod 256)`, zero hash `0`.
Every parent hash is odd, hence never the zero hash; the even non-zero bytes are not parent
hashes at all (so they can serve as leaves where a theorem asks for that). -/
structure B8 where
  v : U8
deriving DecidableEq, Repr

instance : Hasher B8 := ⟨fun a b => ⟨(a.v * 31#8 + b.v) ||| 1#8⟩, ⟨0#8⟩⟩

def b (n : Nat) : B8 := ⟨BitVec.ofNat 8 n⟩

/-- **`NZ` holds for the one-byte hash** -/
theorem nzB8 : NZ B8 where
  nonzero := by
    intro x y h
    have h' : (x.v * 31#8 + y.v) ||| 1#8 = 0#8 := congrArg B8.v h
    have := congrArg (fun z => z.getLsbD 0) h'
    simp at this

/-- … while `CR` is FALSE for it (as for every finite hash): `ph 0 0 = ph 0 1 = 1` -/
theorem not_CR : ¬ CR B8 := by
  intro cr
  have := (cr.inj (b 0) (b 0) (b 0) (b 1) (by decide)).2
  exact absurd this (by decide)

/-- even bytes are not parent hashes -/
theorem even_not_parent (n : Nat) (hn : n % 2 = 0) (x y : B8) : b n ≠ ph x y := by
  intro h
  have h' : BitVec.ofNat 8 n = (x.v * 31#8 + y.v) ||| 1#8 := congrArg B8.v h
  have := congrArg (fun z => z.getLsbD 0) h'
  simp only [BitVec.getLsbD_or, BitVec.getLsbD_ofNat, Nat.testBit_zero] at this
  simp at this
  omega

/-! ### C02 over the one-byte hash: an honest canonical proof verifies

Five slots, slot 1 dead:
```
row 2:            (2,0)
row 1:   (1,0) = leaf 2 (moved up)      (1,1) = ph 4 6
row 0:                             (0,2) = leaf 4   (0,3) = leaf 6        (0,4) = leaf 8
```
-/

def F : Forest B8 := ⟨[some (b 2), none, some (b 4), some (b 6), some (b 8)]⟩

theorem small : F.numLeaves ≤ 2 ^ 63 := by decide

theorem live_nonzero : ∀ l ∈ F.liveLeaves, l ≠ (zero : B8) := by decide

/-- the canonical proof of `[leaf 4, leaf 2]`: targets `(0,2)` and `(1,0)`, one proof hash -/
theorem canon1 : F.canon [b 4, b 2] = some ([(0, 2), (1, 0)], [b 6]) := by decide +kernel

/-- `C02.honest_proof_verifies_CR` (hypothesis `NZ`) at the finite hash type: accepted, tree 0
(the tree on row 2) touched -/
example : verify (BitVec.ofNat 64 F.numLeaves) F.roots [b 4, b 2] [2#64, 8#64] [b 6] = .ok [0] :=
  C02.honest_proof_verifies_CR nzB8 small live_nonzero (by decide) canon1

/-- … and the model agrees when simply run -/
example : verify (BitVec.ofNat 64 F.numLeaves) F.roots [b 4, b 2] [2#64, 8#64] [b 6] = .ok [0] := by
  decide +kernel

/-! ### C01 over the one-byte hash: `Stump.add` refines the specification -/

/-- `C01.stump_add_refines_CR` (hypothesis `NZ`) at the finite hash type -/
example : ∃ upd td, (⟨F.roots, BitVec.ofNat 64 F.numLeaves⟩ : Stump B8).add (b 1) [b 10, b 12] =
    .ok (⟨(F.addMany [b 10, b 12]).roots, BitVec.ofNat 64 (F.numLeaves + 2)⟩, upd, td) :=
  C01.stump_add_refines_CR nzB8 (b 1) F ⟨F.roots, BitVec.ofNat 64 F.numLeaves⟩ [b 10, b 12] rfl rfl
    (by decide) live_nonzero (by decide)

/-! ### the theorems that need "equal hashes, equal nodes": `NZ` plus the finite `NodesDistinct`

C07 (along histories), C08, C10 (`calculatePosition` finds the tree by its root hash) and C11
(`NewAdd` is collected in a map keyed by hash) are false for a hash with a collision among the
nodes of the forest at hand.  Their `…_nd` forms assume, instead of `CR H`, the decidable
`NodesDistinct G` / `DistinctRun` of `Proofs/NodesUnique.lean`.  Over the one-byte hash: -/

theorem F_live : F.liveLeaves = [b 2, b 4, b 6, b 8] := by decide

/-- no non-zero hash sits at two places of `F` (decided by evaluation) -/
theorem F_distinct : NodesDistinct F := by decide +kernel

/-- `C10.getLeafPosition_calculatePosition_nd` at the finite hash type -/
example : ∃ R t path, R ∈ treeRows F.numLeaves ∧ Proofs.PollardLookup.treeOf F R = some t ∧
    childPath t path = some (CTree.leaf (b 6)) ∧
    calculatePosition F (nieceFlags path) t.hash =
      (pollardGetLeafPosition F (b 6)).1 ∧
    (pollardGetLeafPosition F (b 6)).2 = true :=
  C10.getLeafPosition_calculatePosition_nd nzB8 F (by decide) (by decide) live_nonzero F_distinct
    (h := b 6) (by rw [F_live]; decide)

/-- a three-block history over the one-byte hash (all leaves even, hence not parent hashes):
block 1 adds `2 4 6` (remember leaf 4); block 2 deletes leaf 6 and adds `8 10` (remember both);
block 3 deletes leaves 2 and 8 and adds leaf 12 -/
def histR : List (C07.CBlock B8) :=
  [([], [b 2, b 4, b 6], [1]), ([b 6], [b 8, b 10], [0, 1]), ([b 2, b 8], [b 12], [])]

theorem histR_valid : C01.ValidHistory (histR.map C07.toBlock) where
  live := by
    simp only [histR, C07.toBlock, List.map_cons, List.map_nil, LiveDels]
    decide +kernel
  dels_nodup := by
    intro x hx
    simp only [histR, C07.toBlock, List.map_cons, List.map_nil, List.mem_cons, List.not_mem_nil,
      or_false] at hx
    rcases hx with rfl | rfl | rfl <;> decide
  adds_nodup := by decide
  adds_leaf := by
    intro x hx
    have : x = b 2 ∨ x = b 4 ∨ x = b 6 ∨ x = b 8 ∨ x = b 10 ∨ x = b 12 := by
      simpa [histR, C07.toBlock, allAdds] using hx
    rcases this with rfl | rfl | rfl | rfl | rfl | rfl <;>
      exact ⟨by decide, even_not_parent _ (by decide)⟩
  small := by
    have : (allAdds (histR.map C07.toBlock)).length = 6 := by decide
    omega

/-- every forest reached along the history has pairwise distinct non-zero node hashes -/
theorem histR_distinct : DistinctRun Forest.empty (histR.map C07.toBlock) := by decide +kernel

theorem histR_rems : ∀ x ∈ histR, x.2.2.Pairwise (· ≤ ·) := by
  intro x hx
  simp only [histR, List.mem_cons, List.not_mem_nil, or_false] at hx
  rcases hx with rfl | rfl | rfl <;> decide

/-- **`C07.client_history_nd` at the finite hash type**: the light client ends with the canonical
proof of the leaves it is expected to hold -/
example : ∃ C tg hs,
    C07.clientRun (b 1) Forest.empty (⟨[], []⟩, []) histR =
      some (⟨tg.map (E (run Forest.empty (histR.map C07.toBlock)).rows), hs⟩, C) ∧
    (run Forest.empty (histR.map C07.toBlock)).canon C = some (tg, hs) ∧
    C.Perm (C07.expectedRun [] histR) :=
  C07.client_history_nd nzB8 (b 1) (by decide) histR histR_valid histR_rems histR_distinct

/-- **`C11.stump_update_data_history_nd` at the finite hash type** (block 2 of the history) -/
example : ∃ (targets : List Pos) (proof : List B8) (ud : UpdateData B8),
    C01.stumpRun (b 1) Forest.empty ⟨[], 0#64⟩ [([], [b 2, b 4, b 6])] =
      some (C01b.stumpOf (run Forest.empty [([], [b 2, b 4, b 6])])) ∧
    (run Forest.empty [([], [b 2, b 4, b 6])]).canon [b 6] = some (targets, proof) ∧
    (C01b.stumpOf (run Forest.empty [([], [b 2, b 4, b 6])])).update (b 1) [b 6] [b 8, b 10]
        (C01.encTargets (run Forest.empty [([], [b 2, b 4, b 6])]).rows targets) proof =
      .ok (C01b.stumpOf (run Forest.empty ([([], [b 2, b 4, b 6])] ++ [([b 6], [b 8, b 10])])), ud) ∧
    ud.prevNumLeaves = BitVec.ofNat 64 (run Forest.empty [([], [b 2, b 4, b 6])]).numLeaves ∧
    ud.newDel = C11del.newDelSpec (run Forest.empty [([], [b 2, b 4, b 6])]) [b 6] targets ∧
    C11.AddDataSpec ((run Forest.empty [([], [b 2, b 4, b 6])]).delLeaves [b 6]) [b 8, b 10]
      ud.newAdd ud.toDestroy :=
  C11.stump_update_data_history_nd nzB8 (b 1) (by decide) [([], [b 2, b 4, b 6])]
    [([b 2, b 8], [b 12])] [b 6] [b 8, b 10] histR_valid (by decide +kernel)

/-- **`C08b.client_history_undo_last_nd` at the finite hash type**: following the history and then
undoing its newest block gives back the canonical proof before that block -/
example : ∃ (tgD : List Pos) (hsD : List B8) (ud : UpdateData B8) (p' : CProof B8) (C' : List B8),
    (run Forest.empty ((histR.take 2).map C07.toBlock)).canon [b 2, b 8] = some (tgD, hsD) ∧
    (C01b.stumpOf (run Forest.empty ((histR.take 2).map C07.toBlock))).update (b 1) [b 2, b 8] [b 12]
        (C01.encTargets (run Forest.empty ((histR.take 2).map C07.toBlock)).rows tgD) hsD =
      .ok (C01b.stumpOf (run Forest.empty ((histR.take 2 ++ [([b 2, b 8], [b 12], [])]).map
        C07.toBlock)), ud) ∧
    C07.clientRun (b 1) Forest.empty (⟨[], []⟩, []) (histR.take 2 ++ [([b 2, b 8], [b 12], [])]) =
      some (p', C') ∧
    ∃ K tg hs, K.Perm ((C07.expectedRun [] (histR.take 2)).filter (fun x => decide (x ∉ [b 2, b 8]))) ∧
      (run Forest.empty ((histR.take 2).map C07.toBlock)).canon K = some (tg, hs) ∧
      tg.Pairwise Proofs.Sorted.PLt ∧
      proofUndo p' (BitVec.ofNat 64 [b 12].length)
          (BitVec.ofNat 64 (run Forest.empty ((histR.take 2 ++ [([b 2, b 8], [b 12], [])]).map
            C07.toBlock)).numLeaves)
          (C01.encTargets (run Forest.empty ((histR.take 2).map C07.toBlock)).rows tgD) [b 2, b 8] C'
          ud.toDestroy
          (C01.encTargets (run Forest.empty ((histR.take 2).map C07.toBlock)).rows tgD) hsD =
        .ok (⟨tg.map (E (run Forest.empty ((histR.take 2).map C07.toBlock)).rows), hs⟩, K) :=
  C08b.client_history_undo_last_nd nzB8 (b 1) (by decide) (histR.take 2) [b 2, b 8] [b 12] []
    histR_valid histR_rems histR_distinct

/-! ### C09 over the one-byte hash: the storage invariant of a map forest (hypothesis `NZ` only) -/

section C09
open Proofs.MapFull C09c

def adds5 : List (Leaf B8) := [⟨b 2, true⟩, ⟨b 4, false⟩, ⟨b 6, true⟩, ⟨b 8, false⟩, ⟨b 10, false⟩]

/-- the full map forest after adding five leaves -/
def mf5 : MapPollard B8 := (MapPollard.add adds5 (MapPollard.new true)).1

def F5 : Forest B8 := (Forest.empty : Forest B8).addMany (adds5.map (·.hash))

theorem adds5_fresh : ∀ a ∈ adds5, a.hash ∉ (Forest.empty : Forest B8).liveLeaves ∧ a.hash ≠ zero ∧
    ∀ u v : B8, a.hash ≠ ph u v := by
  intro a ha
  simp only [adds5, List.mem_cons, List.mem_nil_iff, or_false] at ha
  rcases ha with rfl | rfl | rfl | rfl | rfl <;>
    exact ⟨by decide, by decide, even_not_parent _ (by decide)⟩

/-- `C09c.finv_add` at the finite hash type: `mf5` satisfies the storage invariant for `F5` -/
theorem mf5_finv : FInv mf5 F5 := by
  obtain ⟨m', h1, h2⟩ := finv_add nzB8 (finv_new (H := B8)) adds5 (by decide) adds5_fresh (by decide)
  have : mf5 = m' := by unfold mf5; rw [h1]
  rw [this]; exact h2

/-- `roots_full`, `getLeafPosition_full`, `prove_full` at the finite hash type -/
example : mf5.roots = F5.roots ∧
    mf5.getLeafPosition (b 8) = (F5.posOf (b 8)).map (Proofs.encP F5.rows) ∧
    ∃ tgts hashes, F5.canon [b 8, b 4] = some (tgts, hashes) ∧
      mf5.prove [b 8, b 4] = .ok (tgts.map (Proofs.encP F5.rows), hashes) :=
  ⟨roots_full nzB8 mf5_finv, getLeafPosition_full nzB8 mf5_finv _,
    prove_full nzB8 mf5_finv _ (by decide) (by decide)⟩

/-- **`C09c.C09_reach_full` at the finite hash type**: every state reached by honest calls (here: a
block applied to the empty full forest and undone again) satisfies the invariant and every honest
call succeeds -/
example : ∃ m, ReachFullU (b 1) m (Forest.empty : Forest B8) [] := by
  obtain ⟨_, hprog⟩ := C09_reach_full (H := B8) nzB8 (b 1) (by decide)
  obtain ⟨_, _, hm, _⟩ := hprog _ _ _ ReachFullU.new
  have hfr : ∀ a ∈ [(⟨b 2, true⟩ : Leaf B8), ⟨b 4, false⟩, ⟨b 6, true⟩],
      a.hash ≠ Hasher.zero ∧ a.hash ∉ (Forest.empty : Forest B8).liveLeaves ∧
        ∀ u v : B8, a.hash ≠ Hasher.ph u v := by
    intro a ha
    simp only [List.mem_cons, List.mem_nil_iff, or_false] at ha
    rcases ha with rfl | rfl | rfl <;> exact ⟨by decide, by decide, even_not_parent _ (by decide)⟩
  obtain ⟨ts, ps, hc, hmod⟩ := hm [⟨b 2, true⟩, ⟨b 4, false⟩, ⟨b 6, true⟩] [] (by simp) (by simp) hfr
    (by decide) (by decide)
  obtain ⟨m', h⟩ := hmod _ (List.Perm.refl _)
  have r1 := ReachFullU.modify (nonZero := b 1) _ _ ts ps _ ReachFullU.new (by simp) hc
    (List.Perm.refl _) hfr (by decide) (by decide) h
  obtain ⟨_, _, _, hu⟩ := hprog _ _ _ r1
  obtain ⟨m'', h2⟩ := hu _ _ rfl
  exact ⟨m'', ReachFullU.undo _ r1 h2⟩

end C09

/-! ### `NZ` on Go's `[32]byte`, together with `HashBytesOK`

`CR H` contradicts `HashBytesOK H` (`Props/C13MapNote.lean`); `NZ H` does not: ANY function
`g : [32]byte → [32]byte → [32]byte` with one output bit forced to 1 is an `NZ` parent hash on
the 32-byte type whose wire format satisfies `HashBytesOK`.  (For `g` itself, e.g. SHA-512/256,
`NZ` says that no pair of hashes is a preimage of the all-zero hash.) -/

section Bytes32
open Props.C13 Proofs.Serial

/-- force the lowest bit of the first byte -/
def forceBit (h : Bytes32) : Bytes32 :=
  ⟨(h.1.headD 0#8 ||| 1#8) :: h.1.tail, by
    have := h.2
    cases hh : h.1 with
    | nil => rw [hh] at this; cases this
    | cons x xs => rw [hh] at this; simpa using this⟩

theorem forceBit_ne_zero (h : Bytes32) : forceBit h ≠ Bytes32.zero := by
  intro e
  have h1 : (h.1.headD 0#8 ||| 1#8) :: h.1.tail = List.replicate 32 0#8 := congrArg Subtype.val e
  have h2 := congrArg (fun l => (l.headD 7#8).getLsbD 0) h1
  simp at h2

/-- **`NZ` and `HashBytesOK` hold together** on `[32]byte`, for every `g` with one bit forced -/
theorem nz_hashBytesOK_compatible (g : Bytes32 → Bytes32 → Bytes32) :
    letI : Hasher Bytes32 := ⟨fun a b => forceBit (g a b), Bytes32.zero⟩
    NZ Bytes32 ∧ HashBytesOK Bytes32 :=
  letI : Hasher Bytes32 := ⟨fun a b => forceBit (g a b), Bytes32.zero⟩
  ⟨⟨fun a b => forceBit_ne_zero (g a b)⟩, okBytes32⟩

end Bytes32

end UtreexoVerif.Props.NZ
