/-
  C03 — verification is sound.  Full statements (at full strength); proofs in Props/C03.lean.
-/
import UtreexoVerif.Spec.View
import UtreexoVerif.Model.Verifiers

namespace UtreexoVerif.Props.C03
open UtreexoVerif Model Hasher

variable (H : Type) [DecidableEq H] [Hasher H]

/-- Stand-alone `Verify`: whatever it accepts only states true facts about the forest
committed to by the roots — for arbitrary targets (any values, multiplicities, order) and
arbitrary proof hashes. -/
def verify_sound_statement : Prop :=
  ∀ (n : U64) (roots : List H) (V : ForestView H n roots), CR H →
  ∀ (hs : List H) (ts : List U64) (ps : List H) (idx : List Nat),
    (∀ h ∈ hs, h ≠ (zero : H)) →
    verify n roots hs ts ps = .ok idx →
    ∀ x ∈ ts.zip hs, V.nodeAt x.1 = some x.2

/-- `Pollard.Verify` (non-empty hash list; an empty list claims nothing) -/
def pollardVerify_sound_statement : Prop :=
  ∀ (n : U64) (roots : List H) (V : ForestView H n roots), CR H →
  ∀ (hs : List H) (ts : List U64) (ps : List H),
    (∀ h ∈ hs, h ≠ (zero : H)) →
    pollardVerify n roots hs ts ps = .ok () →
    ∀ x ∈ ts.zip hs, V.nodeAt x.1 = some x.2

/-- `MapPollard.verify`, with `TotalRows = TreeRows` (no translation) -/
def mapVerify_sound_statement : Prop :=
  ∀ (n : U64) (roots : List H) (V : ForestView H n roots), CR H →
  ∀ (hs : List H) (ts : List U64) (ps : List H) (idx : List Nat),
    (∀ h ∈ hs, h ≠ (zero : H)) →
    mapVerify n (TreeRows n) roots hs ts ps = .ok idx →
    ∀ x ∈ ts.zip hs, V.nodeAt x.1 = some x.2

end UtreexoVerif.Props.C03
