/-
  C02 — every set of live leaves is provable: the canonical proof of the specification forest is
  accepted by `Verify`, in any request order, and `Verify` reports exactly the trees that contain
  a target.

  Hypotheses (all necessary for the model as it stands):
  * `F.numLeaves ≤ 2^63`          — positions fit Go's `uint64` arithmetic;
  * `∀ a b, ph a b ≠ zero`        — the all-zero hash is never a parent hash (half of `CR`;
                                    injectivity of `ph` is NOT needed for completeness);
  * live leaves are non-zero      — `calculateHashes` rejects zero proof hashes and `getNextHash`
                                    skips zero operands;
  * the requested leaves are pairwise different (`L.Nodup`).
  The request may be empty (then nothing is checked and no tree is reported).

  The proof (`Proofs/CalcPlan.lean`, `Proofs/SpecPlan.lean`, `Proofs/CalcComplete.lean`) shows
  that the streaming two-queue loop of `calculateHashes` processes the path positions in
  ascending order with the true hashes, consuming the canonical proof hashes in order.
-/
import UtreexoVerif.Proofs.CalcComplete
import UtreexoVerif.Proofs.LeafDistinct
import UtreexoVerif.Proofs.CanonTotal
import UtreexoVerif.Props.C03b

namespace UtreexoVerif.Props.C02
open UtreexoVerif Spec Model Hasher
open UtreexoVerif.Proofs UtreexoVerif.Proofs.SpecNodes UtreexoVerif.Proofs.CalcGeo
open UtreexoVerif.Proofs.CalcComplete UtreexoVerif.Proofs.SpecPlan UtreexoVerif.Proofs.SpecSubs
open UtreexoVerif.Proofs.CanonTotal

section
variable (H : Type) [DecidableEq H] [Hasher H]

/-- **C02.2, full statement.**  The canonical proof `canon F L` of any list `L` of pairwise
different live leaves (in any order; `canon` is defined exactly when all of `L` is live) is
accepted by `Verify` against the roots of `F`, also with arbitrary hashes appended to the proof,
and the returned indexes are those of exactly the trees containing a target (`touchedIdx`,
lowest tree first — the order in which the root candidates are produced). -/
def verify_complete_statement : Prop :=
  ∀ (F : Forest H), F.numLeaves ≤ 2 ^ 63 → (∀ a b : H, ph a b ≠ (zero : H)) →
    (∀ l ∈ F.liveLeaves, l ≠ (zero : H)) →
  ∀ (L : List H) (targets : List Pos) (proofHashes junk : List H), L.Nodup →
    F.canon L = some (targets, proofHashes) →
    verify (BitVec.ofNat 64 F.numLeaves) F.roots L
      (targets.map (fun p => encU F.rows p.1 p.2)) (proofHashes ++ junk) =
      .ok (touchedIdx F.numLeaves targets)

end

section
variable {H : Type} [DecidableEq H] [Hasher H]

/-- **Honest canonical proofs verify.** -/
theorem honest_proof_verifies : verify_complete_statement H := by
  intro F hn hnz hlive L targets hashes junk hnd hc
  exact verify_complete hn hnz hlive hnd hc junk

/-- the same under the bundled hypothesis `NZ` (parent hashes are never the zero hash; the name of
the theorem is historical: it used to take the collision-freeness bundle `CR` of C03) -/
theorem honest_proof_verifies_CR {F : Forest H} (nz : NZ H) (hn : F.numLeaves ≤ 2 ^ 63)
    (hlive : ∀ l ∈ F.liveLeaves, l ≠ (zero : H)) {L : List H} {targets : List Pos}
    {proofHashes : List H} (hnd : L.Nodup) (hc : F.canon L = some (targets, proofHashes)) :
    verify (BitVec.ofNat 64 F.numLeaves) F.roots L
      (targets.map (fun p => encU F.rows p.1 p.2)) proofHashes =
      .ok (touchedIdx F.numLeaves targets) := by
  have := honest_proof_verifies F hn nz.nonzero hlive L targets proofHashes [] hnd hc
  simpa using this

/-- `canon` is defined exactly on lists of live leaves: (⇐) -/
theorem canon_defined {F : Forest H} (hn : F.numLeaves ≤ 2 ^ 63) {L : List H}
    (hL : ∀ l ∈ L, l ∈ F.liveLeaves) : ∃ targets proofHashes, F.canon L = some (targets, proofHashes) :=
  canon_total hn hL

/-- … and (⇒) -/
theorem canon_live {F : Forest H} {L : List H} {targets : List Pos} {proofHashes : List H}
    (hc : F.canon L = some (targets, proofHashes)) : ∀ l ∈ L, l ∈ F.liveLeaves := by
  intro l hl
  obtain ⟨h, s⟩ := canon_target_leaf hc hl
  exact s.leaves_live l (by simp [CTree.leaves])

/-- **C02: every set of live leaves is provable, and its canonical proof verifies**, whatever the
order in which the leaves are requested. -/
theorem every_live_set_provable {F : Forest H} (hn : F.numLeaves ≤ 2 ^ 63)
    (hnz : ∀ a b : H, ph a b ≠ (zero : H)) (hlive : ∀ l ∈ F.liveLeaves, l ≠ (zero : H))
    {L : List H} (hnd : L.Nodup) (hL : ∀ l ∈ L, l ∈ F.liveLeaves) :
    ∃ targets proofHashes, F.canon L = some (targets, proofHashes) ∧
      verify (BitVec.ofNat 64 F.numLeaves) F.roots L
        (targets.map (fun p => encU F.rows p.1 p.2)) proofHashes =
        .ok (touchedIdx F.numLeaves targets) := by
  obtain ⟨targets, hashes, hc⟩ := canon_total hn hL
  refine ⟨targets, hashes, hc, ?_⟩
  have := honest_proof_verifies F hn hnz hlive L targets hashes [] hnd hc
  simpa using this

/-! ### what the returned index list is -/

/-- the reported indexes are those of exactly the trees that contain a target: index `i` is
reported iff the `i`-th tree (row `h`) has a target below its root -/
theorem mem_touchedIdx {n : Nat} {targets : List Pos} {i : Nat} :
    i ∈ touchedIdx n targets ↔
      ∃ h, (treeRows n)[i]? = some h ∧ ∃ t ∈ targets, Under h (2 * (n >>> (h + 1))) t := by
  unfold touchedIdx touchedRows
  rw [List.mem_map]
  constructor
  · rintro ⟨h, hh, rfl⟩
    obtain ⟨h1, h2⟩ := List.mem_filter.1 hh
    rw [List.mem_reverse] at h1
    rw [List.any_eq_true] at h2
    obtain ⟨t, ht, hin⟩ := h2
    refine ⟨h, ?_, t, ht, (inTree_iff _ _ _).1 hin⟩
    have hlt : (treeRows n).idxOf h < (treeRows n).length := List.idxOf_lt_length_iff.2 h1
    rw [List.getElem?_eq_getElem hlt, List.getElem_idxOf hlt]
  · rintro ⟨h, hget, t, ht, hu⟩
    obtain ⟨hlt, he⟩ := List.getElem?_eq_some_iff.1 hget
    refine ⟨h, List.mem_filter.2 ⟨?_, ?_⟩, ?_⟩
    · rw [List.mem_reverse, ← he]; exact List.getElem_mem hlt
    · rw [List.any_eq_true]; exact ⟨t, ht, (inTree_iff _ _ _).2 hu⟩
    · rw [← he]; exact (treeRows_nodup n).idxOf_getElem _ hlt

/-- in a strictly descending list, larger elements come first -/
theorem idxOf_lt_of_gt {l : List Nat} (hl : l.Pairwise (fun a b => a > b)) {a b : Nat}
    (ha : a ∈ l) (hb : b ∈ l) (hab : a < b) : l.idxOf b < l.idxOf a := by
  have hia : l.idxOf a < l.length := List.idxOf_lt_length_iff.2 ha
  have hib : l.idxOf b < l.length := List.idxOf_lt_length_iff.2 hb
  have ea := List.getElem_idxOf hia
  have eb := List.getElem_idxOf hib
  rcases Nat.lt_trichotomy (l.idxOf b) (l.idxOf a) with h | h | h
  · exact h
  · exfalso
    have : l[l.idxOf a] = l[l.idxOf b] := by congr 1; exact h.symm
    rw [ea, eb] at this
    omega
  · exfalso
    have := (List.pairwise_iff_getElem.1 hl) _ _ hia hib h
    rw [ea, eb] at this
    omega

/-- the indexes are reported lowest tree first, i.e. in strictly descending index order -/
theorem touchedIdx_sorted (n : Nat) (targets : List Pos) :
    (touchedIdx n targets).Pairwise (fun a b => a > b) := by
  unfold touchedIdx
  rw [List.pairwise_map]
  apply List.Pairwise.imp_of_mem _ (touchedRows_sorted n targets)
  intro a b ha hb hab
  have ma : a ∈ treeRows n := by
    have := (List.mem_filter.1 ha).1; rwa [List.mem_reverse] at this
  have mb : b ∈ treeRows n := by
    have := (List.mem_filter.1 hb).1; rwa [List.mem_reverse] at this
  exact idxOf_lt_of_gt (treeRows_sorted n) ma mb hab

/-! ### C05 (encoding independence on the specification side): request order -/

theorem pathSet_congr (F : Forest H) {t1 t2 : List Pos} (h : ∀ x, x ∈ t1 ↔ x ∈ t2) :
    pathSet F t1 = pathSet F t2 := by
  apply Sorted.eq_of_psorted (pathSet_sorted F t1) (pathSet_sorted F t2)
  intro x
  rw [mem_pathSet, mem_pathSet]
  constructor
  · rintro ⟨t, ht, hx⟩; exact ⟨t, (h t).1 ht, hx⟩
  · rintro ⟨t, ht, hx⟩; exact ⟨t, (h t).2 ht, hx⟩

/-- requesting the same leaves in another order permutes the targets and leaves the proof hashes
unchanged -/
theorem canon_perm {F : Forest H} {L L' : List H} {targets : List Pos} {proofHashes : List H}
    (hp : ∀ l, l ∈ L' ↔ l ∈ L) (hc : F.canon L = some (targets, proofHashes)) :
    F.canon L' = some (L'.map (fun l => (F.posOf l).getD (0, 0)), proofHashes) := by
  obtain ⟨ht, hpos, hh, hnode⟩ := canon_spec hc
  have hmem : ∀ x, x ∈ L'.map (fun l => (F.posOf l).getD (0, 0)) ↔ x ∈ targets := by
    intro x
    rw [ht, List.mem_map, List.mem_map]
    constructor
    · rintro ⟨l, hl, rfl⟩; exact ⟨l, (hp l).1 hl, rfl⟩
    · rintro ⟨l, hl, rfl⟩; exact ⟨l, (hp l).2 hl, rfl⟩
  have hpp : F.proofPositions (L'.map (fun l => (F.posOf l).getD (0, 0))) =
      F.proofPositions targets := by
    rw [proofPositions_eq, proofPositions_eq, pathSet_congr F hmem]
  unfold Forest.canon
  rw [mapM_of_forall_some F.posOf (0, 0) L' (fun l hl => hpos l ((hp l).1 hl))]
  simp only [bind, Option.bind]
  rw [hpp, mapM_of_forall_some F.nodeAt zero _ hnode, ← hh]
  rfl

end

/-! ### non-vacuity

The five-slot forest of `Props/C03b.lean` (leaf 1 deleted, so the tree on row 2 is collapsed and
leaf 0 sits at `(1, 0)` = position 8).  Requests in both orders, across both trees. -/

namespace Example
open C03.Example C03b.Example

theorem live_nonzero : ∀ l ∈ F.liveLeaves, l ≠ (zero : T) := by
  intro l hl
  have : l = .leaf 0 ∨ l = .leaf 2 ∨ l = .leaf 3 ∨ l = .leaf 4 := by
    simpa [F, Forest.liveLeaves] using hl
  rcases this with rfl | rfl | rfl | rfl <;> (intro h; cases h)

/-- the canonical proof of `[leaf 2, leaf 0]` (request order: leaf 2 first): targets `(0,2)` and
`(1,0)`, one proof hash (leaf 3) -/
theorem canon1 : F.canon [T.leaf 2, .leaf 0] = some ([(0, 2), (1, 0)], [T.leaf 3]) := by
  decide +kernel

/-- the hypotheses of `honest_proof_verifies` hold for this request, and it yields: accepted,
tree 0 (the tree on row 2) touched -/
example : verify (BitVec.ofNat 64 F.numLeaves) F.roots [T.leaf 2, .leaf 0] [2#64, 8#64] [T.leaf 3]
    = .ok [0] :=
  honest_proof_verifies_CR cr.toNZ (Nat.le_of_lt small) live_nonzero (by decide) canon1

/-- the same request in the other order -/
example : F.canon [T.leaf 0, .leaf 2] = some ([(1, 0), (0, 2)], [T.leaf 3]) :=
  canon_perm (L := [T.leaf 2, .leaf 0]) (by intro l; simp [or_comm]) canon1

/-- a request across both trees: leaf 4 (the lone root on row 0) and leaf 3; both trees are
reported, lowest tree first (indexes `[1, 0]`), with junk appended to the proof -/
theorem canon2 : F.canon [T.leaf 4, .leaf 3] = some ([(0, 4), (0, 3)], [T.leaf 2, .leaf 0]) := by
  decide +kernel

example : verify (BitVec.ofNat 64 F.numLeaves) F.roots [T.leaf 4, .leaf 3] [4#64, 3#64]
    ([T.leaf 2, .leaf 0] ++ [T.leaf 77]) = .ok [1, 0] :=
  honest_proof_verifies F (Nat.le_of_lt small) cr.nonzero live_nonzero _ _ _ [T.leaf 77] (by decide) canon2

/-- … and the model agrees when simply run -/
example : verify (BitVec.ofNat 64 F.numLeaves) F.roots [T.leaf 4, .leaf 3] [4#64, 3#64]
    [T.leaf 2, .leaf 0, .leaf 77] = .ok [1, 0] := by
  decide +kernel

end Example

end UtreexoVerif.Props.C02
