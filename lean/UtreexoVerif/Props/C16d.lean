/-
  C16 (continued) — the remaining tree-selection helpers of utils.go:
  `numRoots`, `rootIdxOnRow`, `getLowestRoot`, `subtreeRow`, `translatePositions`.
-/
import UtreexoVerif.Proofs.RootIdx
import UtreexoVerif.Props.C16c

namespace UtreexoVerif.Props.C16
open UtreexoVerif UtreexoVerif.GoInt UtreexoVerif.Proofs

/-- `numRoots` is the number of trees (`Spec.treeRows` lists them) -/
theorem numRoots_spec (n : U64) :
    Model.numRoots n = BitVec.ofNat 8 (Spec.treeRows n.toNat).length := by
  have h64 : n.toNat.testBit 64 = false := Nat.testBit_lt_two_pow n.isLt
  unfold Model.numRoots onesCount64 ofInt Spec.treeRows
  rw [BitVec.ofInt_natCast, treeRowsFrom_length, List.range_succ (n := 64), List.countP_append]
  simp only [List.countP_cons, List.countP_nil, h64, Bool.false_eq_true, if_false, Nat.add_zero]
  rfl

/-- `rootIdxOnRow numLeaves R` is the index, in the list of trees (highest first), of the
tree on row `R` -/
theorem rootIdxOnRow_spec (n : U64) {R : Nat} (hR : R ≤ 63) (hb : n.toNat.testBit R = true) :
    Model.rootIdxOnRow n (H8 R) = (((Spec.treeRows n.toNat).idxOf R : Nat) : Int) := by
  have e1 : (conv 64 (H8 R) + 1#64 : U64).toNat = R + 1 := by
    rw [BitVec.toNat_add, toNat_conv64_U8, toNat_H8 hR]
    simp only [BitVec.toNat_ofNat]
    omega
  have hz : ∀ j, R + (64 - R) < j → n.toNat.testBit j = false := by
    intro j hj
    exact Nat.testBit_lt_two_pow (Nat.lt_of_lt_of_le n.isLt (two_pow_le_of_le (by omega)))
  have e2 : cntBits n.toNat R 64 = cntBits n.toNat R (64 - R) := by
    have := cntBits_add_zero hz R
    rwa [show 64 - R + R = 64 by omega] at this
  have e3 : (Spec.treeRows n.toNat).idxOf R = cntBits n.toNat R (64 - R) := by
    unfold Spec.treeRows
    have := idxOf_treeRowsFrom hb (64 - R)
    rwa [show R + (64 - R) = 64 by omega] at this
  have hle := cntBits_le n.toNat R (64 - R)
  unfold Model.rootIdxOnRow Model.numRoots toInt ofInt
  rw [e1, onesCount64_shr, BitVec.ofInt_natCast, e2, e3, BitVec.toNat_ofNat]
  congr 1
  omega

/-- `getLowestRoot`: the lowest row `≤ totalRows` that carries a tree … -/
theorem getLowestRoot_found (n : U64) {h R : Nat} (hh : h ≤ 63) (hR : R ≤ h)
    (hb : n.toNat.testBit R = true) (hlow : ∀ j, j < R → n.toNat.testBit j = false) :
    Model.getLowestRoot n (H8 h) = H8 R := by
  have key := getLowestRoot_loop_found n hh hR hb R 0 300 (by omega) (fun j _ h2 => hlow j h2)
    (by omega)
  unfold Model.getLowestRoot
  simp only [show (0#8 : U8) = H8 0 from rfl, key]

/-- … and `totalRows + 1` if there is none -/
theorem getLowestRoot_none (n : U64) {h : Nat} (hh : h ≤ 63)
    (hz : ∀ j, j ≤ h → n.toNat.testBit j = false) :
    Model.getLowestRoot n (H8 h) = H8 (h + 1) := by
  have key := getLowestRoot_loop_none n hh (h + 1) 0 300 (by omega) (fun j _ h2 => hz j h2)
    (by omega)
  unfold Model.getLowestRoot
  simp only [show (0#8 : U8) = H8 0 from rfl, key]

/-- `subtreeRow numLeaves k` is the row of the `k`-th tree (highest first) -/
theorem subtreeRow_spec (n : U64) {h k R : Nat} (hT : Model.TreeRows n = H8 h) (hh : h ≤ 63)
    (hk : (Spec.treeRows n.toNat)[k]? = some R) :
    Model.subtreeRow n (H8 k) = H8 R := by
  have hn := le_of_treeRows n hT hh
  have f := two_pow_succ' h
  have f' := Nat.two_pow_pos h
  have hlen : (Spec.treeRows n.toNat).length ≤ 65 := by
    unfold Spec.treeRows
    rw [treeRowsFrom_length]
    exact Nat.le_trans List.countP_le_length (by simp)
  have hk255 : k ≤ 255 := by
    have := (List.getElem?_eq_some_iff.1 hk).1
    omega
  rw [treeRows_eq_from (by omega) (show n.toNat < 2 ^ (h + 1) by omega)] at hk
  obtain ⟨s', hloop⟩ := subtreeRow_loop n hk255 h 0 300 R hh (Nat.zero_le _) (by simpa using hk) (by omega)
  unfold Model.subtreeRow
  have e1 : toInt (Model.TreeRows n) = (h : Int) := by unfold toInt; rw [hT, toNat_H8 hh]
  simp only [e1]
  rw [show ((0 : Int)) = ((0 : Nat) : Int) from rfl, hloop]
  simp only
  unfold ofInt
  rw [BitVec.ofInt_natCast]

/-- `translatePositions` maps `translatePos` over the slice -/
theorem translatePositions_enc {H H' : Nat} (hH : H ≤ 63) (hH' : H' ≤ 63) (L : List Spec.Pos)
    (hL : ∀ p ∈ L, ValidH H p ∧ ValidH H' p) :
    Model.translatePositions (L.map (encP H)) (H8 H) (H8 H') = L.map (encP H') := by
  unfold Model.translatePositions
  rw [List.map_map]
  apply List.map_congr_left
  intro p hp
  obtain ⟨h1, h2⟩ := hL p hp
  exact translatePos_enc hH h1.1 h1.2 hH' h2.1 h2.2

/-- 5 leaves = 101b: two trees, on rows 2 and 0 -/
example : Model.numRoots 5#64 = 2#8 ∧ Model.rootIdxOnRow 5#64 0#8 = 1 ∧
    Model.getLowestRoot 5#64 3#8 = 0#8 ∧ Model.getLowestRoot 4#64 3#8 = 2#8 ∧
    Model.subtreeRow 5#64 0#8 = 2#8 ∧ Model.subtreeRow 5#64 1#8 = 0#8 := by decide +kernel
example : Model.rootIdxOnRow 5#64 (H8 0) = (((Spec.treeRows (5#64 : U64).toNat).idxOf 0 : Nat) : Int) :=
  rootIdxOnRow_spec 5#64 (by decide) (by decide)
example : Model.subtreeRow 5#64 (H8 1) = H8 0 :=
  subtreeRow_spec (h := 3) 5#64 (by decide) (by decide) (by decide)
example : Model.getLowestRoot 4#64 (H8 3) = H8 2 :=
  getLowestRoot_found 4#64 (by decide) (by decide) (by decide)
    (by intro j hj; have : j = 0 ∨ j = 1 := by omega
        rcases this with rfl | rfl <;> decide)
example : Model.translatePositions ([(1, 1), (0, 2)].map (encP 3)) (H8 3) (H8 4) =
    [(1, 1), (0, 2)].map (encP 4) :=
  translatePositions_enc (by decide) (by decide) _ (by
    intro p hp
    simp only [List.mem_cons, List.not_mem_nil, or_false] at hp
    rcases hp with rfl | rfl <;> exact ⟨⟨by decide, by decide⟩, ⟨by decide, by decide⟩⟩)

end UtreexoVerif.Props.C16
