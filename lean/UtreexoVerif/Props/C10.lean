/-
  C10 — position and hash look-ups tell the truth.

  Property text: "Looking up a hash returns its current position if and only if it is a live
  leaf the instance tracks, and reports not-found for deleted leaves, never-added hashes and
  hashes of internal nodes.  Reading a position returns the true hash of the node there when
  it exists and is stored, and the all-zero hash for positions that are outside the forest,
  vacated by a move, or not stored; the number of tracked live leaves always equals additions
  minus deletions."

  This file: the specification level (A) and the model of `Pollard`'s look-ups on A
  (`Model/PollardAbs.lean`; read its header for the correspondence with polnode.go /
  pollard.go, the aunt/niece inversion and what is out of scope: pruned instances — the "not
  stored" clause — and 12-byte `NodeMap` key collisions).

  A. hash look-up (`Forest.posOf` = `GetLeafPosition` abstractly)
     `posOf_eq_some_iff`, `posOf_eq_none_iff`, `posOf_nodeAt`, `posOf_internal_node`,
     `posOf_deleted`, `posOf_never_added`, `posOf_live`, `getLeafPosition_found_iff`,
     `getLeafPosition_eq`, `getLeafPosition_run`, `getHash_getLeafPosition`
  B. position look-up (`Forest.nodeAt` / `pollardGetHash` = `Pollard.GetHash`)
     `pollardGetHash_spec` (every `uint64`), `pollardGetHashNiece_spec`, `getNode_niece_eq_child`,
     `getHash_node`, `getHash_rootPos`, `getHash_not_a_position`, `getHash_outside`, `getHash_vacated`,
     `nodeAt_outside`, `nodeAt_none_iff` (which positions are empty, exactly),
     `nodeAt_below_leaf_none`
  C. count: `trackedCount_run`, `trackedCount_run_gen`, `trackedCount_eq_numLeaves_sub_dels`
  D. `calculatePosition` (the second half of `GetLeafPosition`): `calculatePosition_node`,
     `getLeafPosition_calculatePosition`, `roots_distinct` (under `CR H`), and
     `getLeafPosition_calculatePosition_nd`, `roots_distinct_nd` (under `NZ H` and the finite,
     decidable `NodesDistinct F` of `Proofs/NodesUnique.lean` — `CR H` is impossible for a finite
     hash type; the Go code tells trees apart by their root hashes, so some such hypothesis is needed)
-/
import UtreexoVerif.Proofs.PollardLookup
import UtreexoVerif.Proofs.PollardCalcPos

namespace UtreexoVerif.Props.C10
open UtreexoVerif UtreexoVerif.GoInt UtreexoVerif.Proofs Spec Spec.Forest Hasher Model
open UtreexoVerif.Proofs.SpecNodes UtreexoVerif.Proofs.SpecView UtreexoVerif.Proofs.PollardLookup
open UtreexoVerif.Model.PollardAbs

section
set_option linter.unusedSectionVars false
variable {H : Type} [DecidableEq H] [Hasher H]

/-! ### A. looking up a hash -/

/-- **A hash look-up returns a position iff the hash is a live leaf, and then it is the
position of that leaf** (the leaf node carrying `h` sits at `p` in the collapsed forest).
Hypotheses: fewer than `2^64` slots, live leaves pairwise distinct. -/
theorem posOf_eq_some_iff (F : Forest H) (hn : F.numLeaves < 2 ^ 64) (hnd : F.liveLeaves.Nodup)
    (h : H) (p : Pos) :
    F.posOf h = some p ↔ h ∈ F.liveLeaves ∧ (p, h, true) ∈ F.nodes := by
  rw [PollardLookup.posOf_eq_some_iff F hn hnd]
  exact ⟨fun hp => ⟨(mem_liveLeaves_iff_leaf_node F hn h).2 ⟨p, hp⟩, hp⟩, fun hp => hp.2⟩

/-- not-found exactly for hashes that are not live leaves (no distinctness needed) -/
theorem posOf_eq_none_iff (F : Forest H) (hn : F.numLeaves < 2 ^ 64) (h : H) :
    F.posOf h = none ↔ h ∉ F.liveLeaves :=
  PollardLookup.posOf_eq_none_iff F hn h

/-- the position returned is current: reading it back gives the hash (no hypotheses) -/
theorem posOf_nodeAt (F : Forest H) {h : H} {p : Pos} (hp : F.posOf h = some p) :
    F.nodeAt p = some h :=
  nodeAt_of_mem (posOf_some_mem hp)

/-- every live leaf has exactly one position -/
theorem posOf_live_unique (F : Forest H) (hn : F.numLeaves < 2 ^ 64) (hnd : F.liveLeaves.Nodup)
    {h : H} (hl : h ∈ F.liveLeaves) : ∃ p, F.posOf h = some p ∧ ∀ q, (q, h, true) ∈ F.nodes → q = p := by
  obtain ⟨p, hp⟩ := (mem_liveLeaves_iff_leaf_node F hn h).1 hl
  exact ⟨p, (PollardLookup.posOf_eq_some_iff F hn hnd h p).2 hp,
    fun q hq => leaf_node_pos_unique F hn hnd hq hp⟩

/-- **hashes of internal nodes (and of empty roots) are reported not-found**, provided no
live leaf carries the all-zero hash or a parent hash (the `LeafOK`-style hypothesis: without
it a hash could be a leaf and an internal node at once and "internal hashes are not found"
would contradict "live leaves are found"). -/
theorem posOf_internal_node (F : Forest H) (hn : F.numLeaves < 2 ^ 64)
    (hleaf : ∀ x ∈ F.liveLeaves, x ≠ (zero : H) ∧ ∀ a b : H, x ≠ ph a b)
    {p : Pos} {h : H} (hx : (p, h, false) ∈ F.nodes) : F.posOf h = none := by
  rw [posOf_eq_none_iff F hn]
  intro hl
  rcases internal_node_hash hx with hz | ⟨a, b, hab⟩
  · exact (hleaf h hl).1 hz
  · exact (hleaf h hl).2 a b hab

/-- the hypothesis of `posOf_internal_node` is necessary: if the node at a non-leaf position
carries the hash of a live leaf, the look-up finds that hash -/
theorem posOf_internal_node_needs_hyp (F : Forest H) (hn : F.numLeaves < 2 ^ 64)
    {h : H} (hl : h ∈ F.liveLeaves) : F.posOf h ≠ none :=
  fun hc => (posOf_eq_none_iff F hn h).1 hc hl

/-! #### along a history -/

/-- the live leaves after a valid history are the additions never deleted, in order -/
theorem liveLeaves_run (hist : List (Block H)) (hnd : (allAdds hist).Nodup)
    (hlive : LiveDels Forest.empty hist) :
    (run Forest.empty hist).liveLeaves =
      (allAdds hist).filter (fun x => decide (x ∉ allDels hist)) :=
  PollardLookup.liveLeaves_run hist hnd hlive

theorem numLeaves_run_empty (hist : List (Block H)) :
    (run (Forest.empty : Forest H) hist).numLeaves = (allAdds hist).length := by
  have := Proofs.PollardLookup.numLeaves_run_aux (Forest.empty : Forest H) hist
  simpa [Forest.empty, Forest.numLeaves] using this

/-- a deleted leaf is not found -/
theorem posOf_deleted (hist : List (Block H)) (hnd : (allAdds hist).Nodup)
    (hlive : LiveDels Forest.empty hist) (hlen : (allAdds hist).length < 2 ^ 64)
    {h : H} (hd : h ∈ allDels hist) : (run Forest.empty hist).posOf h = none := by
  rw [posOf_eq_none_iff _ (by rw [numLeaves_run_empty]; exact hlen), liveLeaves_run hist hnd hlive]
  simp [hd]

/-- a hash that was never added is not found -/
theorem posOf_never_added (hist : List (Block H)) (hnd : (allAdds hist).Nodup)
    (hlive : LiveDels Forest.empty hist) (hlen : (allAdds hist).length < 2 ^ 64)
    {h : H} (ha : h ∉ allAdds hist) : (run Forest.empty hist).posOf h = none := by
  rw [posOf_eq_none_iff _ (by rw [numLeaves_run_empty]; exact hlen), liveLeaves_run hist hnd hlive]
  simp [ha]

/-- a leaf added and not deleted is found, at the position where its node is -/
theorem posOf_live (hist : List (Block H)) (hnd : (allAdds hist).Nodup)
    (hlive : LiveDels Forest.empty hist) (hlen : (allAdds hist).length < 2 ^ 64)
    {h : H} (ha : h ∈ allAdds hist) (hd : h ∉ allDels hist) :
    ∃ p, (run Forest.empty hist).posOf h = some p ∧ (p, h, true) ∈ (run Forest.empty hist).nodes ∧
      (run Forest.empty hist).nodeAt p = some h := by
  have hn : (run Forest.empty hist).numLeaves < 2 ^ 64 := by rw [numLeaves_run_empty]; exact hlen
  have hl : h ∈ (run Forest.empty hist).liveLeaves := by
    rw [liveLeaves_run hist hnd hlive]; simp [ha, hd]
  obtain ⟨p, hp⟩ := (mem_liveLeaves_iff_leaf_node _ hn h).1 hl
  have hndl : (run Forest.empty hist).liveLeaves.Nodup := by
    rw [liveLeaves_run hist hnd hlive]
    exact List.Nodup.sublist List.filter_sublist hnd
  exact ⟨p, (PollardLookup.posOf_eq_some_iff _ hn hndl h p).2 hp, hp, nodeAt_of_mem hp⟩

/-- the look-up after a valid history, all cases in one statement -/
theorem posOf_run_isSome_iff (hist : List (Block H)) (hnd : (allAdds hist).Nodup)
    (hlive : LiveDels Forest.empty hist) (hlen : (allAdds hist).length < 2 ^ 64) (h : H) :
    ((run Forest.empty hist).posOf h).isSome ↔ h ∈ allAdds hist ∧ h ∉ allDels hist := by
  constructor
  · intro hs
    by_cases ha : h ∈ allAdds hist
    · by_cases hd : h ∈ allDels hist
      · rw [posOf_deleted hist hnd hlive hlen hd] at hs; cases hs
      · exact ⟨ha, hd⟩
    · rw [posOf_never_added hist hnd hlive hlen ha] at hs; cases hs
  · rintro ⟨ha, hd⟩
    obtain ⟨p, hp, _⟩ := posOf_live hist hnd hlive hlen ha hd
    rw [hp]; rfl

/-! #### the model of `Pollard.GetLeafPosition` -/

/-- `GetLeafPosition` reports found iff the hash is a tracked live leaf -/
theorem getLeafPosition_found_iff (F : Forest H) (hn : F.numLeaves < 2 ^ 64) (h : H) :
    (pollardGetLeafPosition F h).2 = true ↔ h ∈ F.liveLeaves := by
  unfold pollardGetLeafPosition
  cases hp : F.posOf h with
  | none => simpa using (posOf_eq_none_iff F hn h).1 hp
  | some p =>
    simp only [true_iff]
    exact Classical.byContradiction fun hc => by
      rw [(posOf_eq_none_iff F hn h).2 hc] at hp; cases hp

/-- … and then returns the (encoded) position of that leaf; otherwise `(0, false)` -/
theorem getLeafPosition_eq (F : Forest H) (hn : F.numLeaves < 2 ^ 64) (hnd : F.liveLeaves.Nodup)
    (h : H) (pos : U64) :
    pollardGetLeafPosition F h = (pos, true) ↔
      h ∈ F.liveLeaves ∧ ∃ p, (p, h, true) ∈ F.nodes ∧ pos = BitVec.ofNat 64 (enc F.rows p) := by
  unfold pollardGetLeafPosition
  cases hp : F.posOf h with
  | none =>
    simp only [Prod.mk.injEq, Bool.false_eq_true, and_false, false_iff]
    rintro ⟨hl, _⟩
    exact (posOf_eq_none_iff F hn h).1 hp hl
  | some p =>
    obtain ⟨hl, hm⟩ := (posOf_eq_some_iff F hn hnd h p).1 hp
    simp only [Prod.mk.injEq, and_true]
    constructor
    · intro e; exact ⟨hl, p, hm, e.symm⟩
    · rintro ⟨_, q, hq, e⟩
      rw [e, leaf_node_pos_unique F hn hnd hq hm]

theorem getLeafPosition_not_found (F : Forest H) (hn : F.numLeaves < 2 ^ 64) (h : H) :
    pollardGetLeafPosition F h = (0#64, false) ↔ h ∉ F.liveLeaves := by
  rw [← posOf_eq_none_iff F hn]
  unfold pollardGetLeafPosition
  cases F.posOf h <;> simp

/-- **the look-up clause along a history**: after any valid history, `GetLeafPosition` finds a
hash iff it was added and not deleted (deleted leaves, never-added hashes: not found) -/
theorem getLeafPosition_run (hist : List (Block H)) (hnd : (allAdds hist).Nodup)
    (hlive : LiveDels Forest.empty hist) (hlen : (allAdds hist).length < 2 ^ 64) (h : H) :
    (pollardGetLeafPosition (run Forest.empty hist) h).2 = true ↔
      h ∈ allAdds hist ∧ h ∉ allDels hist := by
  rw [getLeafPosition_found_iff _ (by rw [numLeaves_run_empty]; exact hlen),
    liveLeaves_run hist hnd hlive]
  simp

/-! ### B. reading a position -/

/-- **`Pollard.GetHash` tells the truth for every `uint64`**: the model of `getNode`/`getHash`
(guards `pos >= maxPosition`, `inForest`; `DetectOffset`; the descent along the returned bits)
returns the hash of the node at the decoded position when there is one, and the all-zero
hash otherwise — inside or outside the forest, for every forest below `2^63` leaves. -/
theorem pollardGetHash_spec (F : Forest H) (hn : F.numLeaves < 2 ^ 63) (pos : U64) :
    pollardGetHash F pos = ((dec F.rows pos.toNat).bind F.nodeAt).getD zero := by
  unfold pollardGetHash
  rw [getNodeHash_spec false F hn pos]

/-- the same for the loop transcribed literally (nodes point to their nieces) -/
theorem pollardGetHashNiece_spec (F : Forest H) (hn : F.numLeaves < 2 ^ 63) (pos : U64) :
    pollardGetHashNiece F pos = ((dec F.rows pos.toNat).bind F.nodeAt).getD zero := by
  unfold pollardGetHashNiece
  rw [getNodeHash_spec true F hn pos]

/-- even before the final `getD zero`: node found / not found agrees with the specification -/
theorem getNodeHash_spec (useNiece : Bool) (F : Forest H) (hn : F.numLeaves < 2 ^ 63) (pos : U64) :
    getNodeHash useNiece F pos = (dec F.rows pos.toNat).bind F.nodeAt :=
  PollardLookup.getNodeHash_spec useNiece F hn pos

/-- the aunt/niece inversion: the literal niece walk and the child walk with the un-inverted
path agree on every tree, step count and bit field (no hypotheses at all) -/
theorem getNode_niece_eq_child (t : CTree H) (k : Nat) (bits : U64) :
    nieceWalk t t k bits = descend t k bits :=
  nieceWalk_eq_descend t k bits

/-- hence the two models of `GetHash` are the same function (no bound on the forest needed) -/
theorem pollardGetHashNiece_eq (F : Forest H) (pos : U64) :
    pollardGetHashNiece F pos = pollardGetHash F pos := by
  unfold pollardGetHashNiece pollardGetHash getNodeHash
  simp only [nieceWalk_eq_descend, ite_self]

/-- reading the position of a node returns that node's hash -/
theorem getHash_node (F : Forest H) (hn : F.numLeaves < 2 ^ 63) {p : Pos} {h : H} {lf : Bool}
    (hx : (p, h, lf) ∈ F.nodes) : pollardGetHash F (BitVec.ofNat 64 (enc F.rows p)) = h := by
  obtain ⟨v1, v2⟩ := node_pos_valid hx
  have htr : F.rows ≤ 63 := forestRows_le_63 hn
  have e : BitVec.ofNat 64 (enc F.rows p) = encU F.rows p.1 p.2 := rfl
  rw [pollardGetHash_spec F hn, e, toNat_encU htr v1 v2, dec_enc _ _ _ v1 v2, Option.bind_some,
    nodeAt_of_mem hx]
  rfl

/-- reading a root position returns that tree's root (the all-zero hash for an empty tree) -/
theorem getHash_rootPos (F : Forest H) (hn : F.numLeaves < 2 ^ 63) {R : Nat}
    (hR : R ∈ treeRows F.numLeaves) :
    pollardGetHash F (BitVec.ofNat 64 (enc F.rows (rootPos F.numLeaves R))) = treeRoot F R := by
  obtain ⟨b, hb⟩ := rootNode_mem F R
  exact getHash_node F hn (mem_nodes.2 ⟨R, ⟨(Spec.mem_treeRows.1 hR).2, hR⟩, hb⟩)

/-- a `uint64` that encodes no position of the forest's geometry reads as the all-zero hash -/
theorem getHash_not_a_position (F : Forest H) (hn : F.numLeaves < 2 ^ 63) {pos : U64}
    (hp : 2 ^ (F.rows + 1) - 1 ≤ pos.toNat) : pollardGetHash F pos = zero := by
  rw [pollardGetHash_spec F hn]
  cases hd : dec F.rows pos.toNat with
  | none => rfl
  | some q =>
    obtain ⟨a, b, c⟩ := dec_some _ _ q.1 q.2 hd
    have := enc_lt_aux a b
    omega

/-- positions outside the forest carry no node … -/
theorem nodeAt_outside (F : Forest H) {r o : Nat} (h : F.numLeaves < (o + 1) * 2 ^ r) :
    F.nodeAt (r, o) = none :=
  PollardLookup.nodeAt_outside F h

/-- … and read as the all-zero hash -/
theorem getHash_outside (F : Forest H) (hn : F.numLeaves < 2 ^ 63) {r o : Nat} (hr : r ≤ F.rows)
    (ho : o < 2 ^ (F.rows - r)) (h : F.numLeaves < (o + 1) * 2 ^ r) :
    pollardGetHash F (encU F.rows r o) = zero := by
  have htr : F.rows ≤ 63 := forestRows_le_63 hn
  rw [pollardGetHash_spec F hn, toNat_encU htr hr ho, dec_enc _ _ _ hr ho, Option.bind_some,
    nodeAt_outside F h]
  rfl

/-- **Which positions are empty**: exactly those outside the forest, those strictly below a
leaf node (vacated by a move: when a leaf's sibling dies the leaf — or the sub-tree holding it
— moves up and the old positions stay empty) and those strictly below the root of a tree
without survivors. -/
theorem nodeAt_none_iff (F : Forest H) (hn : F.numLeaves < 2 ^ 64) (r o : Nat) :
    F.nodeAt (r, o) = none ↔
      F.numLeaves < (o + 1) * 2 ^ r ∨
      (∃ r' h, r < r' ∧ ((r', o / 2 ^ (r' - r)), h, true) ∈ F.nodes) ∨
      (∃ R, R ∈ treeRows F.numLeaves ∧ treeOf F R = none ∧ r < R ∧
        o / 2 ^ (R - r) = (rootPos F.numLeaves R).2) :=
  nodeAt_eq_none_iff_vacated F hn r o

/-- no node of the collapsed forest maps to `p` ⇒ nothing is read there -/
theorem nodeAt_none_of_no_node (F : Forest H) {p : Pos} (h : ∀ x ∈ F.nodes, x.1 ≠ p) :
    F.nodeAt p = none :=
  nodeAt_eq_none h

/-- a position strictly below a leaf node is vacated -/
theorem nodeAt_below_leaf_none (F : Forest H) (hn : F.numLeaves < 2 ^ 64) {r r' o : Nat} {h : H}
    (hr : r < r') (hx : ((r', o / 2 ^ (r' - r)), h, true) ∈ F.nodes) : F.nodeAt (r, o) = none :=
  (nodeAt_none_iff F hn r o).2 (Or.inr (Or.inl ⟨r', h, hr, hx⟩))

/-- every empty position reads as the all-zero hash -/
theorem getHash_vacated (F : Forest H) (hn : F.numLeaves < 2 ^ 63) {r o : Nat} (hr : r ≤ F.rows)
    (ho : o < 2 ^ (F.rows - r)) (h : F.nodeAt (r, o) = none) :
    pollardGetHash F (encU F.rows r o) = zero := by
  have htr : F.rows ≤ 63 := forestRows_le_63 hn
  rw [pollardGetHash_spec F hn, toNat_encU htr hr ho, dec_enc _ _ _ hr ho, Option.bind_some, h]
  rfl

/-- the two look-ups are inverse on live leaves: reading the position `GetLeafPosition`
returns gives the leaf hash back -/
theorem getHash_getLeafPosition (F : Forest H) (hn : F.numLeaves < 2 ^ 63) {h : H}
    (hl : h ∈ F.liveLeaves) : pollardGetHash F (pollardGetLeafPosition F h).1 = h := by
  have hn64 : F.numLeaves < 2 ^ 64 := by omega
  unfold pollardGetLeafPosition
  cases hp : F.posOf h with
  | none => exact absurd hl ((posOf_eq_none_iff F hn64 h).1 hp)
  | some p => exact getHash_node F hn (posOf_some_mem hp)

/-! ### C. the number of tracked live leaves -/

/-- **tracked live leaves = additions − deletions**, for every history from the empty
accumulator whose additions are pairwise distinct and whose blocks delete currently live
leaves, each at most once per block.  (Go: `len(NodeMap) = NumLeaves - NumDels`.) -/
theorem trackedCount_run (hist : List (Block H)) (hnd : (allAdds hist).Nodup)
    (hlive : LiveDels Forest.empty hist) (hdn : ∀ b ∈ hist, b.1.Nodup) :
    trackedCount (run Forest.empty hist) = (allAdds hist).length - (allDels hist).length ∧
      (allDels hist).length ≤ (allAdds hist).length := by
  have := trackedCount_run_gen hist Forest.empty
    (by simpa [Forest.empty, Forest.liveLeaves] using hnd) hlive hdn
  have h0 : trackedCount (Forest.empty : Forest H) = 0 := rfl
  omega

/-- from any forest with distinct live leaves, when the leaves added are new -/
theorem trackedCount_run_gen (hist : List (Block H)) (F : Forest H)
    (hnd : (F.liveLeaves ++ allAdds hist).Nodup) (hlive : LiveDels F hist)
    (hdn : ∀ b ∈ hist, b.1.Nodup) :
    trackedCount (run F hist) + (allDels hist).length = trackedCount F + (allAdds hist).length :=
  PollardLookup.trackedCount_run_gen hist F hnd hlive hdn

/-- in `Pollard`'s own terms: `len(NodeMap) = NumLeaves - NumDels` -/
theorem trackedCount_eq_numLeaves_sub_dels (hist : List (Block H)) (hnd : (allAdds hist).Nodup)
    (hlive : LiveDels Forest.empty hist) (hdn : ∀ b ∈ hist, b.1.Nodup) :
    trackedCount (run Forest.empty hist) =
      (run Forest.empty hist).numLeaves - (allDels hist).length := by
  rw [numLeaves_run_empty]
  exact (trackedCount_run hist hnd hlive hdn).1

/-! ### D. `calculatePosition` -/

/-- **`calculatePosition` returns the position of the node it is called on**: for every node
`((r, o), h, lf)` of the forest, lying in the tree on row `R`, the model of the Go function
(climb along the aunt pointers recording `leftRightIndicator`, search of the root row by root
hash, descent with `sibling(LeftChild/RightChild)`) run on what the climb from that node
observes returns the `uint64` position of `(r, o)` — provided no lower tree has the same root
hash as this tree (the Go code tells trees apart by their root hashes). -/
theorem calculatePosition_node (F : Forest H) (hn : F.numLeaves < 2 ^ 63) {r o : Nat} {h : H}
    {lf : Bool} (hx : ((r, o), h, lf) ∈ F.nodes) :
    ∃ R, R ∈ treeRows F.numLeaves ∧ r ≤ R ∧ ((r, o), h, lf) ∈ treeNodes F R ∧
      ((∀ R', R' < R → F.numLeaves.testBit R' = true → treeRoot F R' ≠ treeRoot F R) →
        calculatePosition F (nieceFlags (pathBits (R - r) o)) (treeRoot F R) = encU F.rows r o) := by
  obtain ⟨R, ⟨hb, hRmem⟩, hx'⟩ := mem_nodes.1 hx
  obtain ⟨u1, u2⟩ := treeNodes_under F R _ hx'
  exact ⟨R, hRmem, u1, hx', fun hmin => PollardCalcPos.calculatePosition_enc F hn hb u1 u2 hmin⟩

/-- distinct roots: under collision-freeness and pairwise distinct live leaves none of which is
a parent hash, a non-empty tree's root hash differs from every other tree's -/
theorem roots_distinct (cr : CR H) (F : Forest H) (hn : F.numLeaves < 2 ^ 64)
    (hnd : F.liveLeaves.Nodup) (hleaf : ∀ x ∈ F.liveLeaves, ∀ a b : H, x ≠ ph a b)
    {R R' : Nat} (hb : F.numLeaves.testBit R = true) (hb' : F.numLeaves.testBit R' = true)
    (hne : R' ≠ R) (hz : treeRoot F R ≠ zero) : treeRoot F R' ≠ treeRoot F R :=
  PollardCalcPos.roots_distinct cr F hn hnd hleaf hb hb' hne hz

/-- **`GetLeafPosition` = `NodeMap` look-up + `calculatePosition`** agrees with the abstract
look-up: for a live leaf `h` (collision-free hash, distinct live leaves that are neither zero
nor parent hashes) there is a tree `t` and a child path in it ending at the leaf node `h`, and
`calculatePosition` on what the climb from that node observes returns the position reported
by `pollardGetLeafPosition` (= `posOf`, encoded). -/
theorem getLeafPosition_calculatePosition (cr : CR H) (F : Forest H) (hn : F.numLeaves < 2 ^ 63)
    (hnd : F.liveLeaves.Nodup)
    (hleaf : ∀ x ∈ F.liveLeaves, x ≠ (zero : H) ∧ ∀ a b : H, x ≠ ph a b)
    {h : H} (hl : h ∈ F.liveLeaves) :
    ∃ R t path, R ∈ treeRows F.numLeaves ∧ treeOf F R = some t ∧
      childPath t path = some (.leaf h) ∧
      calculatePosition F (nieceFlags path) t.hash = (pollardGetLeafPosition F h).1 ∧
      (pollardGetLeafPosition F h).2 = true :=
  PollardCalcPos.getLeafPosition_calculatePosition cr F hn hnd hleaf hl

/-- **distinct roots from a finite hypothesis**: if no non-zero hash sits at two places of `F`
(`Spec.NodesDistinct F` — decidable, about this forest only, no assumption on the hash function)
a non-empty tree's root hash differs from every other tree's -/
theorem roots_distinct_nd (F : Forest H) (hn : F.numLeaves < 2 ^ 64) (hd : NodesDistinct F)
    {R R' : Nat} (hb : F.numLeaves.testBit R = true) (hb' : F.numLeaves.testBit R' = true)
    (hne : R' ≠ R) (hz : treeRoot F R ≠ zero) : treeRoot F R' ≠ treeRoot F R :=
  PollardCalcPos.roots_distinct_nd F hn hd hb hb' hne hz

/-- **`GetLeafPosition` = `NodeMap` look-up + `calculatePosition`, for hashes that are not
collision-free**: the same conclusion from `NZ H` (parent hashes are never zero), non-zero
pairwise distinct live leaves and `NodesDistinct F`.  Satisfiable over finite hash types
(`Props/NZ.lean`). -/
theorem getLeafPosition_calculatePosition_nd (nz : NZ H) (F : Forest H) (hn : F.numLeaves < 2 ^ 63)
    (hnd : F.liveLeaves.Nodup) (hleaf : ∀ x ∈ F.liveLeaves, x ≠ (zero : H))
    (hd : NodesDistinct F) {h : H} (hl : h ∈ F.liveLeaves) :
    ∃ R t path, R ∈ treeRows F.numLeaves ∧ treeOf F R = some t ∧
      childPath t path = some (.leaf h) ∧
      calculatePosition F (nieceFlags path) t.hash = (pollardGetLeafPosition F h).1 ∧
      (pollardGetLeafPosition F h).2 = true :=
  PollardCalcPos.getLeafPosition_calculatePosition_nd nz F hn hnd hleaf hd hl

end

/-! ### non-vacuity -/

namespace Example

/-- free term algebra hash (collision-free by construction) -/
inductive T where
  | z
  | leaf (n : Nat)
  | node (l r : T)
deriving DecidableEq, Repr

instance : Hasher T := ⟨T.node, T.z⟩

/-- block 1 adds leaves 1…5; block 2 deletes leaf 2 and adds leaf 6 -/
def hist : List (Block T) :=
  [([], [.leaf 1, .leaf 2, .leaf 3, .leaf 4, .leaf 5]), ([.leaf 2], [.leaf 6])]

/-- the forest: 6 slots, slot 1 dead.  Trees on rows 2 and 1, `rows = 3`.  In the first tree
leaf 1 lost its sibling and moved up to `(1, 0)` = position 8; positions 0 and 1 are vacated.

    row 3:                          (14)
    row 2:        12 = ph(1, ph(3,4))              (13)
    row 1:   8 = leaf 1     9 = ph(3,4)      10 = ph(5,6)     (11)
    row 0:   (0)  (1)     2 = 3   3 = 4     4 = 5   5 = 6     (6) (7)                        -/
def exF : Forest T := run Forest.empty hist

theorem hist_nodup : (allAdds hist).Nodup := by decide
theorem hist_live : LiveDels Forest.empty hist := by
  simp [hist, LiveDels, Forest.liveLeaves, Forest.modify, Forest.delLeaves, Forest.addMany,
    Forest.empty]
theorem hist_dels_nodup : ∀ b ∈ hist, b.1.Nodup := by decide
theorem exF_slots : exF.slots =
    [some (.leaf 1), none, some (.leaf 3), some (.leaf 4), some (.leaf 5), some (.leaf 6)] := by
  decide +kernel
theorem exF_num : exF.numLeaves < 2 ^ 63 := by decide +kernel
theorem exF_live : exF.liveLeaves = [.leaf 1, .leaf 3, .leaf 4, .leaf 5, .leaf 6] := by
  decide +kernel
theorem exF_nodup : exF.liveLeaves.Nodup := by rw [exF_live]; decide
theorem exF_leafOK : ∀ x ∈ exF.liveLeaves, x ≠ (zero : T) ∧ ∀ a b : T, x ≠ ph a b := by
  rw [exF_live]
  intro x hx
  simp only [List.mem_cons, List.not_mem_nil, or_false] at hx
  rcases hx with rfl | rfl | rfl | rfl | rfl <;>
    exact ⟨fun h => (by cases h), fun a b h => (by cases h)⟩

/-- the whole position space of the model of `Pollard.GetHash` on that forest, positions 0…16:
the moved-up leaf 1 is read at 8, the vacated positions 0, 1, the positions outside the forest
(6, 7, 11, 13, 14) and the non-positions (15, 16) read as the all-zero hash -/
example : (List.range 17).map (fun k => pollardGetHash exF (BitVec.ofNat 64 k)) =
    [.z, .z, .leaf 3, .leaf 4, .leaf 5, .leaf 6, .z, .z,
     .leaf 1, .node (.leaf 3) (.leaf 4), .node (.leaf 5) (.leaf 6), .z,
     .node (.leaf 1) (.node (.leaf 3) (.leaf 4)), .z, .z, .z, .z] := by decide +kernel

/-- the literal niece walk computes the same values -/
example : (List.range 17).map (fun k => pollardGetHashNiece exF (BitVec.ofNat 64 k)) =
    (List.range 17).map (fun k => pollardGetHash exF (BitVec.ofNat 64 k)) := by decide +kernel

/-- and so does the specification (this is `pollardGetHash_spec` evaluated) -/
example : (List.range 17).map (fun k => ((dec exF.rows k).bind exF.nodeAt).getD zero) =
    [.z, .z, .leaf 3, .leaf 4, .leaf 5, .leaf 6, .z, .z,
     .leaf 1, .node (.leaf 3) (.leaf 4), .node (.leaf 5) (.leaf 6), .z,
     .node (.leaf 1) (.node (.leaf 3) (.leaf 4)), .z, .z, .z, .z] := by decide +kernel

example : pollardGetHash exF (BitVec.ofNat 64 (2 ^ 64 - 1)) = T.z := by decide +kernel

/-- `pollardGetHash_spec` applies (and is used at the moved-up leaf's position 8) -/
example : pollardGetHash exF 8#64 = ((dec exF.rows (8#64 : U64).toNat).bind exF.nodeAt).getD zero :=
  pollardGetHash_spec exF exF_num 8#64

/-- hash look-ups: live leaves at their current positions (leaf 1 at (1,0), not at its
insertion slot (0,0)); deleted leaf 2, never-added leaf 7, the internal hashes and the
all-zero hash are not found -/
example : [T.leaf 1, .leaf 3, .leaf 4, .leaf 5, .leaf 6].map exF.posOf =
    [some (1, 0), some (0, 2), some (0, 3), some (0, 4), some (0, 5)] := by decide +kernel
example : [T.leaf 2, .leaf 7, .node (.leaf 3) (.leaf 4), .node (.leaf 5) (.leaf 6),
      .node (.leaf 1) (.node (.leaf 3) (.leaf 4)), .z].map exF.posOf =
    [none, none, none, none, none, none] := by decide +kernel
example : [T.leaf 1, .leaf 2, .leaf 6].map (pollardGetLeafPosition exF) =
    [(8#64, true), (0#64, false), (5#64, true)] := by decide +kernel

example : exF.posOf (.leaf 1) = some (1, 0) ↔
    T.leaf 1 ∈ exF.liveLeaves ∧ ((1, 0), T.leaf 1, true) ∈ exF.nodes :=
  posOf_eq_some_iff exF (by decide +kernel) exF_nodup _ _
example : exF.posOf (.leaf 2) = none :=
  posOf_deleted hist hist_nodup hist_live (by decide) (by decide)
example : exF.posOf (.leaf 7) = none :=
  posOf_never_added hist hist_nodup hist_live (by decide) (by decide)
example : exF.posOf (.node (.leaf 3) (.leaf 4)) = none :=
  posOf_internal_node exF (by decide +kernel) exF_leafOK (p := (1, 1)) (by decide +kernel)
example : ∃ p, exF.posOf (.leaf 1) = some p ∧ (p, T.leaf 1, true) ∈ exF.nodes ∧
    exF.nodeAt p = some (.leaf 1) :=
  posOf_live hist hist_nodup hist_live (by decide) (by decide) (by decide)
example : pollardGetHash exF (pollardGetLeafPosition exF (.leaf 1)).1 = .leaf 1 :=
  getHash_getLeafPosition exF exF_num (by rw [exF_live]; decide)

example : (pollardGetLeafPosition exF (.leaf 2)).2 = true ↔
    T.leaf 2 ∈ allAdds hist ∧ T.leaf 2 ∉ allDels hist :=
  getLeafPosition_run hist hist_nodup hist_live (by decide) _
example : pollardGetHash exF (BitVec.ofNat 64 (enc exF.rows (rootPos exF.numLeaves 2))) =
    treeRoot exF 2 :=
  getHash_rootPos exF exF_num (by decide +kernel)

/-- vacated positions: (0,0) and (0,1) lie strictly below the leaf node at (1,0) -/
example : exF.nodeAt (0, 1) = none :=
  nodeAt_below_leaf_none exF (by decide +kernel) (r' := 1) (h := .leaf 1) (by decide)
    (by decide +kernel)
/-- outside the forest: (1,3) = position 11 covers slots 6, 7 of a 6-slot forest -/
example : exF.nodeAt (1, 3) = none := nodeAt_outside exF (by decide +kernel)
example : pollardGetHash exF (encU exF.rows 1 3) = zero :=
  getHash_outside exF exF_num (by decide +kernel) (by decide +kernel) (by decide +kernel)

theorem cr : CR T :=
  ⟨fun _ _ _ _ h => by cases h; exact ⟨rfl, rfl⟩, fun _ _ h => by cases h⟩

/-- `calculatePosition`: leaf 4 is reached from the root of the first tree by right, right
(`path = [true, true]`); the climb observes `[false, true]` (leaf 4 is a right niece; then the
sibling of `ph(3,4)`, leaf 1, is a left niece of the root) and ends at the root `12`; the
function returns position 3.  Leaf 1 (moved up): path `[false]`, position 8. -/
example : calculatePosition exF (nieceFlags [true, true])
    (T.node (.leaf 1) (.node (.leaf 3) (.leaf 4))) = 3#64 := by decide +kernel
example : nieceFlags [true, true] = [false, true] := by decide
example : calculatePosition exF (nieceFlags [false])
    (T.node (.leaf 1) (.node (.leaf 3) (.leaf 4))) = 8#64 := by decide +kernel
example : calculatePosition exF (nieceFlags [true]) (T.node (.leaf 5) (.leaf 6)) = 5#64 := by
  decide +kernel
example : ∃ R t path, R ∈ treeRows exF.numLeaves ∧ treeOf exF R = some t ∧
    childPath t path = some (.leaf (.leaf 4)) ∧
    calculatePosition exF (nieceFlags path) t.hash = (pollardGetLeafPosition exF (.leaf 4)).1 ∧
    (pollardGetLeafPosition exF (.leaf 4)).2 = true :=
  getLeafPosition_calculatePosition cr exF exF_num exF_nodup exF_leafOK (by rw [exF_live]; decide)

/-- the count: 6 additions, 1 deletion, 5 tracked leaves -/
example : trackedCount exF = 6 - 1 ∧ 1 ≤ 6 :=
  trackedCount_run hist hist_nodup hist_live hist_dels_nodup
example : trackedCount exF = 5 := by decide +kernel

/-- the per-block `Nodup` hypothesis of `trackedCount_run` cannot be dropped: a block that
names a live leaf twice satisfies `LiveDels`, removes one leaf and lists two deletions -/
example : let h : List (Block T) := [([], [.leaf 1, .leaf 2]), ([.leaf 1, .leaf 1], [])]
    (allAdds h).Nodup ∧ LiveDels Forest.empty h ∧
    trackedCount (run Forest.empty h) ≠ (allAdds h).length - (allDels h).length := by
  refine ⟨by decide, ?_, by decide +kernel⟩
  simp [LiveDels, Forest.liveLeaves, Forest.modify, Forest.delLeaves, Forest.addMany, Forest.empty]

/-- a tree without survivors: delete 5 and 6 as well; the root position 10 of the second tree
reads as the all-zero hash (an empty root is a node with hash zero), its children 4, 5 are empty -/
def exG : Forest T := run Forest.empty (hist ++ [([.leaf 5, .leaf 6], [])])

example : [4, 5, 10, 8, 12].map (fun k => pollardGetHash exG (BitVec.ofNat 64 k)) =
    [.z, .z, .z, .leaf 1, .node (.leaf 1) (.node (.leaf 3) (.leaf 4))] := by decide +kernel
example : exG.nodeAt (1, 2) = some T.z ∧ exG.nodeAt (0, 4) = none := by decide +kernel
example : exG.nodeAt (0, 4) = none ↔
      exG.numLeaves < (4 + 1) * 2 ^ 0 ∨
      (∃ r' h, 0 < r' ∧ ((r', 4 / 2 ^ (r' - 0)), h, true) ∈ exG.nodes) ∨
      (∃ R, R ∈ treeRows exG.numLeaves ∧ treeOf exG R = none ∧ 0 < R ∧
        4 / 2 ^ (R - 0) = (rootPos exG.numLeaves R).2) :=
  nodeAt_none_iff exG (by decide +kernel) 0 4

end Example

end UtreexoVerif.Props.C10
