/-
  Property C09 (full forests) — the FULL map forest (`NewMapPollard(true)`) refines the
  specification: C01 / C02 / C05 / C06 / C10 for the transliterated model of mappollard.go.

  The invariant is `FInv m F` (`Proofs/MapFull.lean`):

      FInv m F  ↔  m.full = true
                 ∧ Nodes        = { enc_TotalRows q ↦ ⟨h, remember := true⟩ | (q, h, _) a node of F }
                                  (EVERY node of `F`, the empty roots included, and nothing else)
                 ∧ CachedLeaves = { x ↦ enc_TotalRows t | x a live leaf of F at position t }
                 ∧ NumLeaves = F.numLeaves < 2^63 ∧ F.rows ≤ TotalRows ≤ 63 ∧ Hyg F.

  Level 1: `finv_new`, and the consequences of `FInv`: roots (C01), `Prove` = canonical proof for
           every duplicate-free list of live leaves (C02), `GetHash` / `GetLeafPosition` answer the
           truth for every position / hash (C10).
  Level 2: preservation by `add`, `remove`, `Modify` (any duplicate-free list of live leaves, any
           target order: C05), `Ingest` / `Verify` (nothing changes), `Prune` (a no-op), `Undo` of the
           newest block (C06).
  Level 3: the closure theorems: `C01_full` (= `Props.C09b.C01_full_statement`) and `C09_reach_full`
           (every state reachable from `NewMapPollard(true)` by honest `Modify` / `Verify` / `Ingest` /
           `Prune` / `Undo` satisfies `FInv`, and every honest call succeeds).
-/
import UtreexoVerif.Proofs.MapFullAdd
import UtreexoVerif.Proofs.MapFullRemove
import UtreexoVerif.Proofs.MapFullIngest
import UtreexoVerif.Proofs.MapFullUndo
import UtreexoVerif.Props.C09b
import UtreexoVerif.Props.C03c

namespace UtreexoVerif.Props.C09c
open UtreexoVerif Model Spec Spec.Forest Proofs MapAL MapInv MapSInv PForestSpec MapFull Hasher
set_option linter.unusedSectionVars false
set_option linter.unusedVariables false

variable {H : Type} [DecidableEq H] [Hasher H]

/-! ### Level 1: the initial state and what `FInv` gives -/

theorem nodes_empty : (Forest.empty : Forest H).nodes = [] := by
  simp [Forest.nodes, Forest.trees, Forest.empty, Forest.numLeaves, treeRows, treeRowsFrom]

/-- **`NewMapPollard(true)` satisfies `FInv` for the empty forest** -/
theorem finv_new : FInv (MapPollard.new true : MapPollard H) Forest.empty where
  n_lt := by show (0 : Nat) < 2 ^ 63; omega
  n_eq := rfl
  rows_le := by show forestRows 0 ≤ _; simp [forestRows]
  total_le := by show (63#8).toNat ≤ 63; decide
  full := rfl
  hyg := C09b.hyg_empty
  nodes := by
    intro p l
    constructor
    · intro h; simp [MapPollard.getNode, MapPollard.new, get?_nil] at h
    · rintro ⟨q, b, hm, _⟩; rw [nodes_empty] at hm; cases hm
  cached := by
    intro x p
    constructor
    · intro h; simp [MapPollard.getCached, MapPollard.new, get?_nil] at h
    · rintro ⟨t, hm, _⟩; rw [nodes_empty] at hm; cases hm

/-- … and so does the empty full forest in any allocation `TotalRows = T ≤ 63` (it grows on
demand: `remap`) -/
theorem finv_newAt {T : Nat} (hT : T ≤ 63) :
    FInv ({ (MapPollard.new true : MapPollard H) with totalRows := H8 T }) Forest.empty where
  n_lt := by show (0 : Nat) < 2 ^ 63; omega
  n_eq := rfl
  rows_le := by show forestRows 0 ≤ _; simp [forestRows]
  total_le := by show (H8 T).toNat ≤ 63; rw [toNat_H8 hT]; exact hT
  full := rfl
  hyg := C09b.hyg_empty
  nodes := by
    intro p l
    constructor
    · intro h; simp [MapPollard.getNode, MapPollard.new, get?_nil] at h
    · rintro ⟨q, b, hm, _⟩; rw [nodes_empty] at hm; cases hm
  cached := by
    intro x p
    constructor
    · intro h; simp [MapPollard.getCached, MapPollard.new, get?_nil] at h
    · rintro ⟨t, hm, _⟩; rw [nodes_empty] at hm; cases hm

/-- `FInv` implies the storage invariant `Inv` of `Props/C09.lean` -/
theorem finv_inv (nz : NZ H) {m : MapPollard H} {F : Forest H} (s : FInv m F) : Inv m F := s.inv nz

/-- **C01**: the roots of a full forest are the specification's -/
theorem roots_full (nz : NZ H) {m : MapPollard H} {F : Forest H} (s : FInv m F) : m.roots = F.roots :=
  Props.C09.roots_eq (s.inv nz)

/-- in a full forest exactly the live leaves are cached -/
theorem hasCached_full (nz : NZ H) {m : MapPollard H} {F : Forest H} (s : FInv m F) (x : H) :
    m.hasCached x = true ↔ x ∈ F.liveLeaves := MapFullRemove.FInv.hasCached_iff nz s x

/-- **C02**: `Prove` of ANY duplicate-free list of live leaves, in any order, succeeds and returns
the canonical proof (targets in request order, API coordinates; canonical proof hashes) -/
theorem prove_full (nz : NZ H) {m : MapPollard H} {F : Forest H} (s : FInv m F) (L : List H)
    (hL : ∀ x ∈ L, x ∈ F.liveLeaves) (hnd : L.Nodup) :
    ∃ tgts hashes, F.canon L = some (tgts, hashes) ∧ m.prove L = .ok (tgts.map (encP F.rows), hashes) :=
  Props.C09.prove_canon (s.inv nz) L (fun x hx => (hasCached_full nz s x).2 (hL x hx)) hnd

/-- … and `Prove` refuses a request containing a hash that is not a live leaf -/
theorem prove_full_dead (nz : NZ H) {m : MapPollard H} {F : Forest H} (s : FInv m F) (L : List H)
    {x : H} (hx : x ∈ L) (hdead : x ∉ F.liveLeaves) : m.prove L = .error .err := by
  apply Props.C09.prove_uncached L hx
  cases h : m.hasCached x with
  | false => rfl
  | true => exact absurd ((hasCached_full nz s x).1 h) hdead

/-- **C10, `GetHash`**: for EVERY position of the forest geometry (API coordinates) the answer is
the hash of the node of `F` there, and the all-zero hash where `F` has no node -/
theorem getHash_full (nz : NZ H) {m : MapPollard H} {F : Forest H} (s : FInv m F) (q : Pos)
    (hq : Valid F.rows q) : m.getHash (encP F.rows q) = (F.nodeAt q).getD zero := by
  have inv := s.inv nz
  unfold MapPollard.getHash
  simp only [toStorage inv hq]
  unfold MapPollard.getNodeD
  cases hn : F.nodeAt q with
  | none =>
    cases hg : m.getNode (encP m.totalRows.toNat q) with
    | none => rfl
    | some l =>
      have := getNode_true inv (hq.mono inv.rows_le) hg
      rw [hn] at this; cases this
  | some h =>
    obtain ⟨b, hb⟩ := mem_nodes_of_nodeAt hn
    rw [(s.nodes _ ⟨h, true⟩).2 ⟨q, b, hb, rfl, rfl⟩]
    rfl

/-- **C10, `GetLeafPosition`**: for EVERY hash the answer is the position of that live leaf of `F`
(API coordinates), and "not found" iff the hash is not a live leaf -/
theorem getLeafPosition_full (nz : NZ H) {m : MapPollard H} {F : Forest H} (s : FInv m F) (x : H) :
    m.getLeafPosition x = (F.posOf x).map (encP F.rows) := by
  have inv := s.inv nz
  cases hp : F.posOf x with
  | none => exact Props.C09.getLeafPosition_dead inv hp
  | some t =>
    have hm := posOf_mem hp
    have hc : m.getCached x = some (encP m.totalRows.toNat t) := (s.cached x _).2 ⟨t, hm, rfl⟩
    obtain ⟨R, hb⟩ := posOf_belowRoot hp
    have hv : Valid F.rows t := belowRoot_valid' (Nat.le_refl _) hb
    unfold MapPollard.getLeafPosition
    rw [hc]
    simp only [Option.map_some, Option.some.injEq]
    exact toApi inv hv

/-! ### Level 2: the operations preserve `FInv` -/

/-- **one addition** (`addSingle` followed by `NumLeaves++`), in every case: even or odd leaf
count, non-empty and empty roots on the way up (`moveUpDescendants`), with or without `remap`.
The leaf is appended to the specification forest and cached whatever its `Remember` flag -/
theorem finv_addSingle (nz : NZ H) {m : MapPollard H} {F : Forest H} (s : FInv m F) (a : Leaf H)
    (hn : F.numLeaves + 1 < 2 ^ 63) (hfresh : a.hash ∉ F.liveLeaves) (hx0 : a.hash ≠ zero)
    (hxph : ∀ u v : H, a.hash ≠ ph u v) :
    ∃ m', MapPollard.add [a] m = (m', .ok ()) ∧ FInv m' (F.add a.hash) := by
  obtain ⟨m', h1, h2⟩ := MapFullAdd.finv_addSingle nz s a hn hfresh hx0 hxph
  refine ⟨{ m' with numLeaves := m'.numLeaves + 1 }, ?_, h2⟩
  unfold MapPollard.add
  rw [h1]
  rfl

/-- **`add` of any list of fresh, distinct, non-zero leaves that are not parent hashes** -/
theorem finv_add (nz : NZ H) {m : MapPollard H} {F : Forest H} (s : FInv m F) (adds : List (Leaf H))
    (hn : F.numLeaves + adds.length < 2 ^ 63)
    (hfr : ∀ a ∈ adds, a.hash ∉ F.liveLeaves ∧ a.hash ≠ zero ∧ ∀ u v : H, a.hash ≠ ph u v)
    (hnd : (adds.map (·.hash)).Nodup) :
    ∃ m', MapPollard.add adds m = (m', .ok ()) ∧ FInv m' (F.addMany (adds.map (·.hash))) :=
  MapFullAdd.finv_add nz adds s hn hfr hnd

/-- **`remove` of ANY duplicate-free list of live leaves** (targets of their canonical proof) -/
theorem finv_remove (nz : NZ H) {m : MapPollard H} {F : Forest H} (s : FInv m F) (L : List H) (ts : List Pos)
    (ps : List H) (hnd : L.Nodup) (hc : F.canon L = some (ts, ps)) :
    ∃ m', MapPollard.remove (ts.map (encP F.rows)) L m = (m', .ok ()) ∧ FInv m' (F.delLeaves L) :=
  MapFullRemove.finv_remove nz s L ts ps hnd hc

/-- **`Modify` (a valid block) on a full forest**: any duplicate-free list of live leaves is
deleted, any list of fresh leaves is added; the result satisfies `FInv` for the specification's
next forest and has its roots (C01) -/
theorem finv_modify (nz : NZ H) {m : MapPollard H} {F : Forest H} (s : FInv m F) (adds : List (Leaf H))
    (dels : List H) (ts : List Pos) (ps : List H) (hnd : dels.Nodup) (hc : F.canon dels = some (ts, ps))
    (hfr : ∀ a ∈ adds, a.hash ∉ F.liveLeaves ∧ a.hash ≠ zero ∧ ∀ u v : H, a.hash ≠ ph u v)
    (hndA : (adds.map (·.hash)).Nodup) (hn : F.numLeaves + adds.length < 2 ^ 63) :
    ∃ m', MapPollard.modify adds dels (ts.map (encP F.rows)) m = (m', .ok ()) ∧
      FInv m' (F.modify dels (adds.map (·.hash))) ∧
      m'.roots = (F.modify dels (adds.map (·.hash))).roots := by
  obtain ⟨m1, h1, s1⟩ := finv_remove nz s dels ts ps hnd hc
  have hfr' : ∀ a ∈ adds, a.hash ∉ (F.delLeaves dels).liveLeaves ∧ a.hash ≠ zero ∧ ∀ u v : H, a.hash ≠ ph u v := by
    intro a ha
    obtain ⟨g1, g2, g3⟩ := hfr a ha
    refine ⟨?_, g2, g3⟩
    rw [PForestDel.liveLeaves_delLeaves]
    intro h
    exact g1 (List.mem_filter.1 h).1
  have hn' : (F.delLeaves dels).numLeaves + adds.length < 2 ^ 63 := by
    rw [Spec.numLeaves_delLeaves]; exact hn
  obtain ⟨m2, h2, s2⟩ := finv_add nz s1 adds hn' hfr' hndA
  refine ⟨m2, ?_, s2, roots_full nz s2⟩
  unfold MapPollard.modify
  rw [h1]
  exact h2

/-- the encoded targets of a canonical proof are pairwise different -/
theorem canon_enc_nodup {F : Forest H} (hn : F.numLeaves < 2 ^ 63) {L : List H}
    {ts : List Pos} {ps : List H} (hnd : L.Nodup) (hc : F.canon L = some (ts, ps)) :
    (ts.map (encP F.rows)).Nodup := by
  have hts := SpecPlan.canon_targets_nodup hc hnd
  have h63 : F.rows ≤ 63 := SpecView.forestRows_le_63 hn
  have hv : ∀ t ∈ ts, Valid F.rows t := by
    intro t ht
    obtain ⟨x, hx⟩ := MapIngest.ts_node hc ht
    exact node_valid (Nat.le_refl _) hx
  unfold List.Nodup
  rw [List.pairwise_map]
  apply List.Pairwise.imp_of_mem _ hts
  intro a b ha hb hab e
  exact hab (encP_inj' h63 (hv a ha) (hv b hb) e)

/-- **C05 for the full map forest**: the block may name its targets in ANY order (any permutation
of the targets of the canonical proof; the proof hashes are not read at all) -/
theorem finv_modify_any_order (nz : NZ H) {m : MapPollard H} {F : Forest H} (s : FInv m F) (adds : List (Leaf H))
    (dels : List H) (ts : List Pos) (ps : List H) (hnd : dels.Nodup) (hc : F.canon dels = some (ts, ps))
    (hfr : ∀ a ∈ adds, a.hash ∉ F.liveLeaves ∧ a.hash ≠ zero ∧ ∀ u v : H, a.hash ≠ ph u v)
    (hndA : (adds.map (·.hash)).Nodup) (hn : F.numLeaves + adds.length < 2 ^ 63)
    {tgts' : List U64} (hp : (ts.map (encP F.rows)).Perm tgts') :
    ∃ m', MapPollard.modify adds dels tgts' m = (m', .ok ()) ∧
      FInv m' (F.modify dels (adds.map (·.hash))) ∧
      m'.roots = (F.modify dels (adds.map (·.hash))).roots := by
  rw [C09b.modify_encoding_independent m adds dels hp (canon_enc_nodup s.n_lt hnd hc)]
  exact finv_modify nz s adds dels ts ps hnd hc hfr hndA hn

/-- **`Ingest` of a canonical proof** (surplus hashes allowed) succeeds and changes NOTHING: the
result has the same `Nodes` / `CachedLeaves` look-ups, counters and flags, and satisfies `FInv` -/
theorem finv_ingest (nz : NZ H) {m : MapPollard H} {F : Forest H} (s : FInv m F) (L : List H) (ts : List Pos)
    (ps junk : List H) (hnd : L.Nodup) (hc : F.canon L = some (ts, ps)) :
    ∃ m', MapPollard.ingest L (ts.map (encP F.rows)) (ps ++ junk) m = (m', .ok ()) ∧ FInv m' F ∧
      (∀ p, m'.getNode p = m.getNode p) ∧ (∀ x, m'.getCached x = m.getCached x) ∧
      m'.numLeaves = m.numLeaves ∧ m'.totalRows = m.totalRows ∧ m'.full = m.full :=
  MapFullIngest.finv_ingest nz s L ts ps junk hnd hc

/-- **`Verify(…, remember)` of a canonical proof is total and sound on a full forest**: it accepts
(the roots it checks against are the specification's) and changes nothing -/
theorem finv_verify (nz : NZ H) {m : MapPollard H} {F : Forest H} (s : FInv m F) (L : List H) (ts : List Pos)
    (ps junk : List H) (hnd : L.Nodup) (hc : F.canon L = some (ts, ps)) (remember : Bool) :
    ∃ m', MapPollard.verifyM L (ts.map (encP F.rows)) (ps ++ junk) remember m = (m', .ok ()) ∧ FInv m' F ∧
      (∀ p, m'.getNode p = m.getNode p) ∧ (∀ x, m'.getCached x = m.getCached x) ∧
      m'.numLeaves = m.numLeaves ∧ m'.totalRows = m.totalRows ∧ m'.full = m.full :=
  MapFullIngest.finv_verifyM nz s L ts ps junk hnd hc remember

/-- hygiene gives the side condition of the soundness theorems of `Props/C03b.lean` -/
theorem leafOK_of_hyg {F : Forest H} (hy : Hyg F) : SpecNodes.LeafOK F :=
  fun x hx hl _ a b _ _ => hy.nph _ (SpecNodes.leaf_node_live hx hl) a b

/-- **`Verify` is sound on a full forest**: whatever `Verify(hashes, proof, remember)` accepts —
honest or not — is a true claim about `F`: every target (below the boundary `2^TotalRows`, i.e. every
position of the API's coordinates) names a node of `F` with the claimed hash.  (The roots the call
checks against are the specification's, `roots_full`; `Props.C03c.verifyM_sound_inv_below`.) -/
theorem verify_sound_full (cr : CR H) {m : MapPollard H} {F : Forest H} (s : FInv m F)
    {hs ps : List H} {ts : List U64} {remember : Bool} (hnz : ∀ h ∈ hs, h ≠ (zero : H))
    (h : (MapPollard.verifyM hs ts ps remember m).2 = .ok ()) :
    ∀ x ∈ ts.zip hs, x.1.toNat < 2 ^ m.totalRows.toNat → Props.C03b.TrueClaim F x :=
  Props.C03c.verifyM_sound_inv_below (s.inv cr.toNZ) cr (leafOK_of_hyg s.hyg) hnz h

/-- `Prune` is a no-op on a full forest -/
theorem finv_prune {m : MapPollard H} {F : Forest H} (s : FInv m F) (hashes : List H) :
    MapPollard.prune hashes m = (m, .ok ()) := Props.C09.prune_full s.full hashes

/-- **`Undo` on a full forest (C06)**: if `m` tracks `F.modify dels adds` (e.g. the state after the
`Modify`, possibly followed by `Verify` / `Ingest` / `Prune`, which change nothing), then
`Undo(len adds, canonical proof of dels in F, dels, roots of F)` succeeds and the result tracks `F`
again: `FInv m' F`, in particular its roots are `F.roots` -/
theorem finv_undo (nz : NZ H) {m : MapPollard H} {F : Forest H} {dels adds : List H} {ts : List Pos} {ps : List H}
    (s : FInv m (F.modify dels adds)) (hyF : Hyg F) (hnd : dels.Nodup) (hc : F.canon dels = some (ts, ps))
    (nonZero : H) (hnz : nonZero ≠ (zero : H)) :
    ∃ m', MapPollard.undo nonZero (BitVec.ofNat 64 adds.length) (ts.map (encP F.rows)) ps dels F.roots m = (m', .ok ()) ∧
      FInv m' F ∧ m'.roots = F.roots := by
  obtain ⟨m', h1, h2⟩ := MapFullUndo.finv_undo nz s hyF hnd hc nonZero hnz
  exact ⟨m', h1, h2, roots_full nz h2⟩

/-! ### Level 3: C01 for full forests — `Props.C09b.C01_full_statement` -/

/-- every state reachable from `NewMapPollard(true)` by honest blocks satisfies `FInv` -/
theorem reachFull_finv (nz : NZ H) {m : MapPollard H} {F : Forest H} (hr : C09b.ReachFull m F) : FInv m F := by
  induction hr with
  | new => exact finv_new
  | modify adds dels ts ps _ hnd hc hfr hndA hn he ih =>
    obtain ⟨m2, h2, s2, _⟩ := finv_modify nz ih adds dels ts ps hnd hc
      (fun a ha => ⟨(hfr a ha).2.1, (hfr a ha).1, (hfr a ha).2.2⟩) hndA hn
    rw [he] at h2
    rw [(Prod.mk.inj h2).1]; exact s2

/-- **C01 for `Full` map forests** (the statement left open in `Props/C09b.lean`): every state
reachable from `NewMapPollard(true)` by honest blocks has the specification's roots -/
theorem C01_full : C09b.C01_full_statement H :=
  fun nz m F hr => roots_full nz (reachFull_finv nz hr)

/-! ### all operations, `Undo` included -/

/-- honest operations on a FULL map forest, `Undo` included: `Modify` deletes ANY duplicate-free list
of live leaves (every live leaf is cached), names its targets in ANY order, and adds fresh leaves;
`Verify` / `Ingest` of canonical proofs; `Prune`; `Undo` of the newest block with that block's data -/
inductive ReachFullU (nonZero : H) : MapPollard H → Forest H → List (Props.C09.BlockData H) → Prop
  | new : ReachFullU nonZero (MapPollard.new true) Forest.empty []
  | modify {m m' F st} (adds : List (Leaf H)) (dels : List H) (ts : List Pos) (ps : List H) (tgts : List U64) :
      ReachFullU nonZero m F st → dels.Nodup → F.canon dels = some (ts, ps) → (ts.map (encP F.rows)).Perm tgts →
      (∀ a ∈ adds, a.hash ≠ zero ∧ a.hash ∉ F.liveLeaves ∧ ∀ u v : H, a.hash ≠ ph u v) →
      (adds.map (·.hash)).Nodup → F.numLeaves + adds.length < 2 ^ 63 →
      MapPollard.modify adds dels tgts m = (m', .ok ()) →
      ReachFullU nonZero m' (F.modify dels (adds.map (·.hash))) (⟨F, adds.length, dels, ts, ps⟩ :: st)
  | verify {m m' F st} (L : List H) (ts : List Pos) (ps : List H) (remember : Bool) :
      ReachFullU nonZero m F st → L.Nodup → F.canon L = some (ts, ps) →
      MapPollard.verifyM L (ts.map (encP F.rows)) ps remember m = (m', .ok ()) → ReachFullU nonZero m' F st
  | ingest {m m' F st} (L : List H) (ts : List Pos) (ps : List H) :
      ReachFullU nonZero m F st → L.Nodup → F.canon L = some (ts, ps) →
      MapPollard.ingest L (ts.map (encP F.rows)) ps m = (m', .ok ()) → ReachFullU nonZero m' F st
  | prune {m m' F st} (L : List H) :
      ReachFullU nonZero m F st → MapPollard.prune L m = (m', .ok ()) → ReachFullU nonZero m' F st
  | undo {m m' F st} (b : Props.C09.BlockData H) :
      ReachFullU nonZero m F (b :: st) →
      MapPollard.undo nonZero (BitVec.ofNat 64 b.numAdds) (b.targets.map (encP b.prev.rows)) b.proof b.dels
        b.prev.roots m = (m', .ok ()) →
      ReachFullU nonZero m' b.prev st

/-- the induction: every `ReachFullU` state satisfies `FInv`, and its undo stack fits its forest -/
theorem ReachFullU.stack (nz : NZ H) {nonZero : H} (hnz : nonZero ≠ (zero : H)) :
    ∀ {m : MapPollard H} {F : Forest H} {st : List (Props.C09.BlockData H)}, ReachFullU nonZero m F st →
      FInv m F ∧ C09b.StackOK F st := by
  intro m F st hr
  induction hr with
  | new => exact ⟨finv_new, trivial⟩
  | modify adds dels ts ps tgts _ hnd hc hp hfr hndA hn he ih =>
    obtain ⟨m2, h2, s2, _⟩ := finv_modify_any_order nz ih.1 adds dels ts ps hnd hc
      (fun a ha => ⟨(hfr a ha).2.1, (hfr a ha).1, (hfr a ha).2.2⟩) hndA hn hp
    rw [he] at h2
    rw [(Prod.mk.inj h2).1]
    exact ⟨s2, ⟨adds.map (·.hash), by simp, rfl⟩, ih.1.hyg, hnd, hc, ih.2⟩
  | verify L ts ps remember _ hnd hc he ih =>
    obtain ⟨m2, h2, s2, _⟩ := finv_verify nz ih.1 L ts ps [] hnd hc remember
    rw [List.append_nil, he] at h2
    rw [(Prod.mk.inj h2).1]; exact ⟨s2, ih.2⟩
  | ingest L ts ps _ hnd hc he ih =>
    obtain ⟨m2, h2, s2, _⟩ := finv_ingest nz ih.1 L ts ps [] hnd hc
    rw [List.append_nil, he] at h2
    rw [(Prod.mk.inj h2).1]; exact ⟨s2, ih.2⟩
  | prune L _ he ih =>
    rw [finv_prune ih.1 L] at he
    rw [← (Prod.mk.inj he).1]; exact ih
  | undo b _ he ih =>
    obtain ⟨s, ⟨adds, hlen, hF⟩, hy, hnd, hc, hst⟩ := ih
    rw [hF] at s
    obtain ⟨m2, h2, s2, _⟩ := finv_undo nz s hy hnd hc nonZero hnz
    rw [hlen, he] at h2
    rw [(Prod.mk.inj h2).1]; exact ⟨s2, hst⟩

/-- **C09 for the FULL map forest, every operation (`Undo` included)**: every state reachable from
`NewMapPollard(true)` by honest `Modify` / `Verify` / `Ingest` / `Prune` / `Undo` is full, satisfies
`FInv` (hence `Inv`) and has the specification's roots; and on a reachable state every honest call
succeeds: `Verify` and `Ingest` of every canonical proof, `Prune`, `Modify` deleting ANY
duplicate-free list of live leaves (their canonical proof exists) with the targets in ANY order, and
`Undo` of the newest block -/
theorem C09_reach_full (nz : NZ H) (nonZero : H) (hnz : nonZero ≠ (zero : H)) :
    (∀ (m : MapPollard H) (F : Forest H) (st : List (Props.C09.BlockData H)), ReachFullU nonZero m F st →
      m.full = true ∧ FInv m F ∧ Inv m F ∧ m.roots = F.roots) ∧
    (∀ (m : MapPollard H) (F : Forest H) (st : List (Props.C09.BlockData H)), ReachFullU nonZero m F st →
      (∀ L ts ps remember, L.Nodup → F.canon L = some (ts, ps) →
        (∃ m', MapPollard.verifyM L (ts.map (encP F.rows)) ps remember m = (m', .ok ())) ∧
        (∃ m', MapPollard.ingest L (ts.map (encP F.rows)) ps m = (m', .ok ()))) ∧
      (∀ L, ∃ m', MapPollard.prune L m = (m', .ok ())) ∧
      (∀ adds dels, dels.Nodup → (∀ x ∈ dels, x ∈ F.liveLeaves) →
        (∀ a ∈ adds, a.hash ≠ zero ∧ a.hash ∉ F.liveLeaves ∧ ∀ u v : H, a.hash ≠ ph u v) →
        (adds.map (·.hash)).Nodup → F.numLeaves + adds.length < 2 ^ 63 →
        ∃ ts ps, F.canon dels = some (ts, ps) ∧ ∀ tgts, (ts.map (encP F.rows)).Perm tgts →
          ∃ m', MapPollard.modify adds dels tgts m = (m', .ok ())) ∧
      (∀ b st', st = b :: st' → ∃ m',
        MapPollard.undo nonZero (BitVec.ofNat 64 b.numAdds) (b.targets.map (encP b.prev.rows)) b.proof b.dels
          b.prev.roots m = (m', .ok ()))) := by
  refine ⟨fun m F st hr => ?_, fun m F st hr => ?_⟩
  · have s := (ReachFullU.stack nz hnz hr).1
    exact ⟨s.full, s, s.inv nz, roots_full nz s⟩
  · obtain ⟨s, hst⟩ := ReachFullU.stack nz hnz hr
    refine ⟨?_, ?_, ?_, ?_⟩
    · intro L ts ps remember hnd hc
      obtain ⟨m1, h1, _⟩ := finv_verify nz s L ts ps [] hnd hc remember
      obtain ⟨m2, h2, _⟩ := finv_ingest nz s L ts ps [] hnd hc
      rw [List.append_nil] at h1 h2
      exact ⟨⟨m1, h1⟩, ⟨m2, h2⟩⟩
    · intro L
      exact ⟨m, finv_prune s L⟩
    · intro adds dels hnd hlive hfr hndA hn
      obtain ⟨ts, ps, hc, _⟩ := prove_full nz s dels hlive hnd
      refine ⟨ts, ps, hc, ?_⟩
      intro tgts hp
      obtain ⟨m2, h2, _⟩ := finv_modify_any_order nz s adds dels ts ps hnd hc
        (fun a ha => ⟨(hfr a ha).2.1, (hfr a ha).1, (hfr a ha).2.2⟩) hndA hn hp
      exact ⟨m2, h2⟩
    · intro b st' e
      subst e
      obtain ⟨⟨adds, hlen, hF⟩, hy, hnd, hc, _⟩ := hst
      rw [hF] at s
      obtain ⟨m2, h2, _⟩ := finv_undo nz s hy hnd hc nonZero hnz
      rw [hlen] at h2
      exact ⟨m2, h2⟩

/-- **C01 / C02 / C10 for the full map forest in every reachable state** (`Undo` included):
`GetRoots` returns the specification's roots; `GetHash` answers, for EVERY position, the hash of the
node there (zero where there is none); `GetLeafPosition` answers, for EVERY hash, the position of
that live leaf ("not found" iff it is not live); `Prove` of ANY duplicate-free list of live leaves
returns the canonical proof -/
theorem lookups_reach_full (nz : NZ H) {nonZero : H} (hnz : nonZero ≠ (zero : H)) {m : MapPollard H} {F : Forest H}
    {st : List (Props.C09.BlockData H)} (hr : ReachFullU nonZero m F st) :
    m.roots = F.roots ∧
    (∀ q, Valid F.rows q → m.getHash (encP F.rows q) = (F.nodeAt q).getD zero) ∧
    (∀ x, m.getLeafPosition x = (F.posOf x).map (encP F.rows)) ∧
    (∀ L, (∀ x ∈ L, x ∈ F.liveLeaves) → L.Nodup →
      ∃ tgts hashes, F.canon L = some (tgts, hashes) ∧ m.prove L = .ok (tgts.map (encP F.rows), hashes)) := by
  have s := (ReachFullU.stack nz hnz hr).1
  exact ⟨roots_full nz s, fun q hq => getHash_full nz s q hq, fun x => getLeafPosition_full nz s x,
    fun L hL hnd => prove_full nz s L hL hnd⟩

/-! ### non-vacuity (term-algebra hash of `Props/C09.lean`) -/

namespace Example
open Props.C09.Example MapSInv.Example C09b.Example

/-- the full forest after adding the five leaves of `F5` (whatever their `Remember` flags) -/
def mf5 : MapPollard T := (MapPollard.add adds5 (MapPollard.new true)).1

theorem F5_eq : (Forest.empty : Forest T).addMany (adds5.map (·.hash)) = F5 := rfl

theorem adds5_fresh : ∀ a ∈ adds5, a.hash ∉ (Forest.empty : Forest T).liveLeaves ∧ a.hash ≠ zero ∧
    ∀ u v : T, a.hash ≠ ph u v := by
  intro a ha
  simp only [adds5, List.mem_cons, List.mem_nil_iff, or_false] at ha
  rcases ha with rfl | rfl | rfl | rfl | rfl <;> exact ⟨by decide, leafT_nz _, leafT_nph _⟩

/-- `finv_new` + `finv_add`: `mf5` satisfies `FInv` for `F5` (three of the five leaves were added with
`Remember = false`; all are cached) -/
theorem mf5_finv : FInv mf5 F5 := by
  obtain ⟨m', h1, h2⟩ := finv_add crT.toNZ (finv_new (H := T)) adds5 (by decide) adds5_fresh (by decide)
  have : mf5 = m' := by unfold mf5; rw [h1]
  rw [this, ← F5_eq]; exact h2

-- all eight nodes are stored, all five leaves are cached, every flag is set
example : mf5.nodes.length = 8 ∧ mf5.cached.length = 5 ∧ mf5.nodes.all (fun e => e.2.remember) = true := by
  decide +kernel

/-- `roots_full`, `getLeafPosition_full`, `getHash_full` instantiated -/
example : mf5.roots = F5.roots ∧ mf5.getLeafPosition (.leaf 3) = (F5.posOf (.leaf 3)).map (encP F5.rows) ∧
    mf5.getHash (encP F5.rows (1, 1)) = (F5.nodeAt (1, 1)).getD zero :=
  ⟨roots_full crT.toNZ mf5_finv, getLeafPosition_full crT.toNZ mf5_finv _, getHash_full crT.toNZ mf5_finv (1, 1) (by decide)⟩

/-- `prove_full`: leaves 3 and 1 were added with `Remember = false`; a full forest proves them -/
example : ∃ tgts hashes, F5.canon [T.leaf 3, T.leaf 1] = some (tgts, hashes) ∧
    mf5.prove [T.leaf 3, T.leaf 1] = .ok (tgts.map (encP F5.rows), hashes) :=
  prove_full crT.toNZ mf5_finv _ (by decide) (by decide)

theorem canon31 : F5.canon [T.leaf 3, T.leaf 1] = some ([(0, 3), (0, 1)], [T.leaf 0, T.leaf 2]) := by
  decide +kernel

/-- `finv_verify`: nothing changes -/
example : ∃ m', MapPollard.verifyM [T.leaf 3, T.leaf 1] ([(0, 3), (0, 1)].map (encP F5.rows))
    ([T.leaf 0, T.leaf 2] ++ [T.leaf 9]) true mf5 = (m', .ok ()) ∧ FInv m' F5 ∧
    (∀ p, m'.getNode p = mf5.getNode p) := by
  obtain ⟨m', h1, h2, h3, _⟩ := finv_verify crT.toNZ mf5_finv _ _ _ [T.leaf 9] (by decide) canon31 true
  exact ⟨m', h1, h2, h3⟩

/-- `finv_ingest`: nothing changes -/
example : ∃ m', MapPollard.ingest [T.leaf 3, T.leaf 1] ([(0, 3), (0, 1)].map (encP F5.rows))
    ([T.leaf 0, T.leaf 2] ++ []) mf5 = (m', .ok ()) ∧ FInv m' F5 ∧ (∀ x, m'.getCached x = mf5.getCached x) := by
  obtain ⟨m', h1, h2, _, h4, _⟩ := finv_ingest crT.toNZ mf5_finv _ _ _ [] (by decide) canon31
  exact ⟨m', h1, h2, h4⟩

/-- `finv_remove`: leaves 3 and 1 (never added with `Remember`) are deleted -/
example : ∃ m', MapPollard.remove ([(0, 3), (0, 1)].map (encP F5.rows)) [T.leaf 3, T.leaf 1] mf5 = (m', .ok ()) ∧
    FInv m' (F5.delLeaves [T.leaf 3, T.leaf 1]) :=
  finv_remove crT.toNZ mf5_finv _ _ _ (by decide) canon31

/-- `finv_modify_any_order` + `finv_undo`: a block deleting leaves 3 and 1 (neither was added with
`Remember`; targets in ascending order although the proof lists them as 3, 1) and adding leaves
5, 6, 7 (the last addition merges all the way up over the re-used positions); then the block is
undone and the state tracks `F5` again -/
example : ∃ m' m'', MapPollard.modify [⟨T.leaf 5, false⟩, ⟨T.leaf 6, false⟩, ⟨T.leaf 7, true⟩] [T.leaf 3, T.leaf 1]
      [1#64, 3#64] mf5 = (m', .ok ()) ∧
    FInv m' (F5.modify [T.leaf 3, T.leaf 1] [T.leaf 5, T.leaf 6, T.leaf 7]) ∧
    MapPollard.undo (T.leaf 9) 3#64 ([(0, 3), (0, 1)].map (encP F5.rows)) [T.leaf 0, T.leaf 2] [T.leaf 3, T.leaf 1]
      F5.roots m' = (m'', .ok ()) ∧
    FInv m'' F5 ∧ m''.roots = F5.roots := by
  obtain ⟨m', h1, s1, _⟩ := finv_modify_any_order crT.toNZ mf5_finv
    [⟨T.leaf 5, false⟩, ⟨T.leaf 6, false⟩, ⟨T.leaf 7, true⟩] [T.leaf 3, T.leaf 1] _ _ (by decide) canon31
    (by
      intro a ha
      simp only [List.mem_cons, List.mem_nil_iff, or_false] at ha
      rcases ha with rfl | rfl | rfl <;> exact ⟨by decide, leafT_nz _, leafT_nph _⟩)
    (by decide) (by decide) (tgts' := [1#64, 3#64]) (List.Perm.swap _ _ _)
  obtain ⟨m'', h2, s2, r2⟩ := finv_undo crT.toNZ s1 F5_hyg (by decide) canon31 (T.leaf 9) (leafT_nz 9)
  exact ⟨m', m'', h1, s1, h2, s2, r2⟩

/-- `ReachFullU` with an `Undo`: a block is applied to the empty full forest and undone again -/
example : ∃ m, ReachFullU (T.leaf 9) m (Forest.empty : Forest T) [] := by
  obtain ⟨_, hprog⟩ := C09_reach_full (H := T) crT.toNZ (T.leaf 9) (leafT_nz 9)
  obtain ⟨_, _, hm, _⟩ := hprog _ _ _ ReachFullU.new
  have hfr : ∀ a ∈ [(⟨T.leaf 0, true⟩ : Leaf T), ⟨T.leaf 1, false⟩, ⟨T.leaf 2, true⟩],
      a.hash ≠ Hasher.zero ∧ a.hash ∉ (Forest.empty : Forest T).liveLeaves ∧ ∀ u v : T, a.hash ≠ Hasher.ph u v := by
    intro a ha
    simp only [List.mem_cons, List.mem_nil_iff, or_false] at ha
    rcases ha with rfl | rfl | rfl <;> exact ⟨leafT_nz _, by decide, leafT_nph _⟩
  obtain ⟨ts, ps, hc, hmod⟩ := hm [⟨T.leaf 0, true⟩, ⟨T.leaf 1, false⟩, ⟨T.leaf 2, true⟩] [] (by simp) (by simp) hfr
    (by decide) (by decide)
  obtain ⟨m', h⟩ := hmod _ (List.Perm.refl _)
  have r1 := ReachFullU.modify (nonZero := T.leaf 9) _ _ ts ps _ ReachFullU.new (by simp) hc (List.Perm.refl _) hfr
    (by decide) (by decide) h
  obtain ⟨_, _, _, hu⟩ := hprog _ _ _ r1
  obtain ⟨m'', h2⟩ := hu _ _ rfl
  exact ⟨m'', ReachFullU.undo _ r1 h2⟩

/-- nine leaves, none of them to be remembered -/
def adds9 : List (Leaf T) :=
  [⟨.leaf 0, false⟩, ⟨.leaf 1, false⟩, ⟨.leaf 2, false⟩, ⟨.leaf 3, false⟩, ⟨.leaf 4, false⟩, ⟨.leaf 5, false⟩,
   ⟨.leaf 6, false⟩, ⟨.leaf 7, false⟩, ⟨.leaf 8, false⟩]

/-- the empty full forest allocated for 0 rows -/
def m0g : MapPollard T := { (MapPollard.new true : MapPollard T) with totalRows := H8 0 }

theorem m0g_finv : FInv m0g (Forest.empty : Forest T) := finv_newAt (H := T) (T := 0) (by decide)

/-- the state after nine additions -/
def m9g : MapPollard T := (MapPollard.add adds9 m0g).1

/-- the GROWING case on a full forest: allocated for 0 rows, nine additions force `remap` four times -/
example : MapPollard.add adds9 m0g = (m9g, .ok ()) ∧
    FInv m9g ((Forest.empty : Forest T).addMany (adds9.map (·.hash))) ∧ m9g.totalRows = 4#8 := by
  obtain ⟨m', h1, h2⟩ := finv_add crT.toNZ m0g_finv adds9 (by decide)
    (by
      intro a ha
      simp only [adds9, List.mem_cons, List.mem_nil_iff, or_false] at ha
      rcases ha with rfl | rfl | rfl | rfl | rfl | rfl | rfl | rfl | rfl <;>
        exact ⟨by decide, leafT_nz _, leafT_nph _⟩)
    (by decide)
  have e : m9g = m' := by unfold m9g; rw [h1]
  exact ⟨by rw [e]; exact h1, by rw [e]; exact h2, by decide +kernel⟩

theorem canon4 : F5.canon [T.leaf 4] = some ([(0, 4)], []) := by decide +kernel

/-- the EMPTY-ROOT case on a full forest: deleting leaf 4 of `mf5` empties the root on row 0 (it is
stored as an empty root with the flag set); the next addition is lifted over it -/
example : ∃ m' m'', MapPollard.modify [] [T.leaf 4] ([(0, 4)].map (encP F5.rows)) mf5 = (m', .ok ()) ∧
    m'.getNode (encP 63 (0, 4)) = some ⟨Hasher.zero, true⟩ ∧
    MapPollard.add [⟨T.leaf 5, false⟩] m' = (m'', .ok ()) ∧
    FInv m'' ((F5.delLeaves [T.leaf 4]).add (T.leaf 5)) := by
  obtain ⟨m', h1, s1, _⟩ := finv_modify crT.toNZ mf5_finv [] [T.leaf 4] _ _ (by decide) canon4 (by simp) (by simp)
    (by decide)
  have hF : F5.modify [T.leaf 4] (([] : List (Leaf T)).map (·.hash)) = F5.delLeaves [T.leaf 4] := by
    simp [Forest.modify, Forest.addMany]
  rw [hF] at s1
  obtain ⟨m'', h2, s2⟩ := finv_addSingle crT.toNZ s1 ⟨T.leaf 5, false⟩ (by decide) (by decide) (leafT_nz _) (leafT_nph _)
  refine ⟨m', m'', h1, ?_, h2, s2⟩
  have : (MapPollard.modify [] [T.leaf 4] ([(0, 4)].map (encP F5.rows)) mf5).1.getNode (encP 63 (0, 4)) =
      some ⟨Hasher.zero, true⟩ := by decide +kernel
  rw [h1] at this
  exact this

/-- `verify_sound_full` instantiated: an accepted claim is true -/
example : ∀ x ∈ ([(0, 3), (0, 1)].map (encP F5.rows)).zip [T.leaf 3, T.leaf 1],
    x.1.toNat < 2 ^ mf5.totalRows.toNat → Props.C03b.TrueClaim F5 x :=
  verify_sound_full crT mf5_finv (remember := false) (ps := [T.leaf 0, T.leaf 2])
    (by
      intro h hh
      simp only [List.mem_cons, List.mem_nil_iff, or_false] at hh
      rcases hh with rfl | rfl <;> exact leafT_nz _)
    (by
      obtain ⟨m', h1, _⟩ := finv_verify crT.toNZ mf5_finv _ _ _ [] (by decide) canon31 false
      rw [List.append_nil] at h1
      rw [h1])

/-- `C01_full` instantiated on a two-block run -/
example : ∀ m F, C09b.ReachFull (H := T) m F → m.roots = F.roots := C01_full crT.toNZ

end Example

end UtreexoVerif.Props.C09c

section Axioms
open UtreexoVerif.Props.C09c
#print axioms finv_new
#print axioms roots_full
#print axioms prove_full
#print axioms getHash_full
#print axioms getLeafPosition_full
#print axioms finv_modify
#print axioms finv_verify
#print axioms C01_full
#print axioms finv_undo
#print axioms C09_reach_full
#print axioms lookups_reach_full
#print axioms verify_sound_full
#print axioms finv_modify_any_order
#print axioms finv_ingest
#print axioms finv_remove
#print axioms finv_add
end Axioms
