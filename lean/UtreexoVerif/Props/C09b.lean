/-
  Property C09 (continued) — preservation of the storage invariant of a partial map forest by
  the operations of `Model/MapPollard.lean`, and hence C01 / C05 / C10 for the map forest.

  The invariant used for the induction is `SInv m F` (`Proofs/MapSInv.lean`):

      SInv m F  ↔  Inv m F  ∧  RootFlags m F  ∧  Hyg F  ∧  m.full = false        (under `NZ`)

  i.e. the storage invariant `Inv` of `Props/C09.lean` strengthened by
    * `RootFlags`: a stored NON-EMPTY ROOT carries the remember flag iff it is a cached leaf
      (`Inv` is silent about the flags of roots, but `addSingle` prunes the old root and the new
      node exactly according to those flags, so `Inv` alone is NOT inductive:
      `MapSInv.Example` shows a state satisfying `Inv` whose flag is wrong);
    * `Hyg F`: the live leaves are pairwise different, non-zero and not parent hashes (the
      conditions `Reach.modify` of `Props/C09.lean` imposes on additions).
  `SInv.inv : SInv m F → Inv m F`, and `invCheck`/`rootFlagsCheck` are sound executable checks
  (`Props.C09.invCheck_sound`, `MapSInv.rootFlagsCheck_sound`), so everything `Props/C09.lean`
  proves from `Inv` (`roots_eq`, `prove_canon`, `getHash_true`, …) holds in every state reached.

  Contents: Level 1 `add` (`inv_addSingle`, `inv_add`), Level 2 `ingest`/`verify` (`inv_ingest`,
  `inv_verify`), Level 3 `remove`/`prune` (`inv_remove`, `inv_prune`), Level 4 `Modify` + C01 + C05
  (`inv_modify`, `modify_encoding_independent`), Level 5 `Undo` (`inv_undo`), and the closure over
  all honest operations: `C09_reach` (every `ReachU` state, `Undo` included, satisfies `SInv`/`Inv`,
  has the specification's roots, and every honest call succeeds) — this is `Props.C09.C09_statement`
  with the hygiene premise it lacks; `Finding.C09_fails_leaf_is_node` proves the original statement
  FALSE.

  LEVEL 1 (this section): `add` — any list of fresh leaves, odd leaf counts (the leaf is hashed
  with the existing roots), empty roots (the accumulated subtree is lifted over them with
  `moveUpDescendants`), and growth of `TotalRows` (`remap`).
-/
import UtreexoVerif.Proofs.MapAddMerge
import UtreexoVerif.Proofs.MapRemoveAll
import UtreexoVerif.Proofs.MapIngest
import UtreexoVerif.Proofs.MapPruneS
import UtreexoVerif.Proofs.MapUndoAll

namespace UtreexoVerif.Props.C09b
open UtreexoVerif Model Spec Spec.Forest Proofs MapAL MapInv MapSInv PForestSpec Hasher
set_option linter.unusedSectionVars false

variable {H : Type} [DecidableEq H] [Hasher H]

/-! ### Level 1: `add` -/

/-- **One addition preserves the invariant, in every case** (`addSingle` followed by
`NumLeaves++`): even or odd leaf count, non-empty and empty roots on the way up, with or without
re-allocation.  The leaf is appended to the specification forest; it joins the cache iff its
`Remember` flag is set; nothing else changes in the cache. -/
theorem inv_addSingle (nz : NZ H) {m : MapPollard H} {F : Forest H} (s : SInv m F) (a : Leaf H)
    (hn : F.numLeaves + 1 < 2 ^ 63) (hfresh : a.hash ∉ F.liveLeaves) (hx0 : a.hash ≠ zero)
    (hxph : ∀ u v : H, a.hash ≠ ph u v) :
    ∃ m', MapPollard.add [a] m = (m', .ok ()) ∧ SInv m' (F.add a.hash) ∧ Inv m' (F.add a.hash) ∧
      (∀ y, m'.hasCached y = true ↔ (m.hasCached y = true ∨ (a.remember = true ∧ y = a.hash))) := by
  obtain ⟨m', h1, h2, h3⟩ := MapAddMerge.sinv_addSingle nz s a hn hfresh hx0 hxph
  refine ⟨{ m' with numLeaves := m'.numLeaves + 1 }, ?_, h2, h2.inv nz, h3⟩
  unfold MapPollard.add
  rw [h1]
  rfl

/-- **`add` of any list of fresh, distinct, non-zero leaves that are not parent hashes preserves
the invariant**: `m'` tracks `F.addMany adds` and the cache grows by exactly the remembered
leaves (`K' = K ∪ remembered adds`). -/
theorem inv_add (nz : NZ H) {m : MapPollard H} {F : Forest H} (s : SInv m F) (adds : List (Leaf H))
    (hn : F.numLeaves + adds.length < 2 ^ 63)
    (hfr : ∀ a ∈ adds, a.hash ∉ F.liveLeaves ∧ a.hash ≠ zero ∧ ∀ u v : H, a.hash ≠ ph u v)
    (hnd : (adds.map (·.hash)).Nodup) :
    ∃ m', MapPollard.add adds m = (m', .ok ()) ∧ SInv m' (F.addMany (adds.map (·.hash))) ∧
      Inv m' (F.addMany (adds.map (·.hash))) ∧
      (∀ y, m'.hasCached y = true ↔ (m.hasCached y = true ∨ ∃ a ∈ adds, a.remember = true ∧ a.hash = y)) := by
  obtain ⟨m', h1, h2, h3⟩ := MapAddMerge.sinv_add nz adds s hn hfr hnd
  exact ⟨m', h1, h2, h2.inv nz, h3⟩

/-- C01 for `add` on the map forest: the roots after the additions are the specification's -/
theorem roots_add (nz : NZ H) {m : MapPollard H} {F : Forest H} (s : SInv m F) (adds : List (Leaf H))
    (hn : F.numLeaves + adds.length < 2 ^ 63)
    (hfr : ∀ a ∈ adds, a.hash ∉ F.liveLeaves ∧ a.hash ≠ zero ∧ ∀ u v : H, a.hash ≠ ph u v)
    (hnd : (adds.map (·.hash)).Nodup) :
    ∃ m', MapPollard.add adds m = (m', .ok ()) ∧ m'.roots = (F.addMany (adds.map (·.hash))).roots := by
  obtain ⟨m', h1, _, h3, _⟩ := inv_add nz s adds hn hfr hnd
  exact ⟨m', h1, Props.C09.roots_eq h3⟩

/-! ### non-vacuity -/

namespace Example
open Props.C09.Example MapSInv.Example

theorem leafT_nz (k : Nat) : T.leaf k ≠ (Hasher.zero : T) := by
  simp only [Hasher.zero]; intro h; cases h

theorem leafT_nph (k : Nat) : ∀ u v : T, T.leaf k ≠ Hasher.ph u v := by
  intro u v; simp only [Hasher.ph]; intro h; cases h

/-- `inv_addSingle` in the MERGING case: `F5` has 5 leaves (trees on rows 2 and 0); the sixth
leaf is hashed with the root on row 0 -/
example : ∃ m', MapPollard.add [⟨T.leaf 5, true⟩] m5 = (m', .ok ()) ∧ Inv m' (F5.add (.leaf 5)) ∧
    m'.hasCached (.leaf 5) = true := by
  obtain ⟨m', h1, _, h3, h4⟩ := inv_addSingle crT.toNZ m5_sinv ⟨T.leaf 5, true⟩ (by decide) (by decide)
    (leafT_nz _) (leafT_nph _)
  exact ⟨m', h1, h3, (h4 _).2 (Or.inr ⟨rfl, rfl⟩)⟩

/-- … three leaves at once: the eighth leaf merges all the way up to row 3 -/
example : ∃ m', MapPollard.add [⟨T.leaf 5, true⟩, ⟨T.leaf 6, false⟩, ⟨T.leaf 7, true⟩] m5 = (m', .ok ()) ∧
    Inv m' (F5.addMany [.leaf 5, .leaf 6, .leaf 7]) := by
  obtain ⟨m', h1, _, h3, _⟩ := inv_add crT.toNZ m5_sinv [⟨T.leaf 5, true⟩, ⟨T.leaf 6, false⟩, ⟨T.leaf 7, true⟩]
    (by decide)
    (by
      intro a ha
      simp only [List.mem_cons, List.mem_nil_iff, or_false] at ha
      rcases ha with rfl | rfl | rfl <;> exact ⟨by decide, leafT_nz _, leafT_nph _⟩)
    (by decide)
  exact ⟨m', h1, h3⟩

/-- the EMPTY-ROOT case really occurs: after deleting leaf 4 of `m5` the root on row 0 is empty
and the next addition is lifted over it (evaluated on the model; the state before the addition
satisfies the strong invariant by the executable checks) -/
def m5d : MapPollard T := (MapPollard.modify [] [T.leaf 4] [4#64] m5).1
def F5d : Forest T := F5.delLeaves [.leaf 4]

theorem m5d_sinv : SInv m5d F5d :=
  SInv.of_inv crT.toNZ (Props.C09.invCheck_sound (by decide +kernel)) (by decide +kernel)
    { nodup := by decide
      nz := by
        intro x hx
        have : x = .leaf 0 ∨ x = .leaf 1 ∨ x = .leaf 2 ∨ x = .leaf 3 := by
          simpa [F5d, F5, Forest.delLeaves, Forest.liveLeaves] using hx
        rcases this with rfl | rfl | rfl | rfl <;> (simp only [Hasher.zero]; intro h; cases h)
      nph := by
        intro x hx a b
        have : x = .leaf 0 ∨ x = .leaf 1 ∨ x = .leaf 2 ∨ x = .leaf 3 := by
          simpa [F5d, F5, Forest.delLeaves, Forest.liveLeaves] using hx
        rcases this with rfl | rfl | rfl | rfl <;> (simp only [Hasher.ph]; intro h; cases h) }
    (rootFlagsCheck_sound (by decide +kernel) (by decide +kernel))

example : (m5d.getNodeD (encP 63 (0, 4))).hash = Hasher.zero ∧
    ∃ m', MapPollard.add [⟨T.leaf 5, true⟩] m5d = (m', .ok ()) ∧ Inv m' (F5d.add (.leaf 5)) := by
  refine ⟨by decide +kernel, ?_⟩
  obtain ⟨m', h1, _, h3, _⟩ := inv_addSingle crT.toNZ m5d_sinv ⟨T.leaf 5, true⟩ (by decide) (by decide)
    (leafT_nz _) (leafT_nph _)
  exact ⟨m', h1, h3⟩

/-- the GROWING case: `m5g` was allocated on demand (`TotalRows = 3 = TreeRows 5`); three more
leaves fill the 8 slots and the ninth forces `remap` to 4 rows -/
theorem m5g_sinv : SInv m5g F5 :=
  SInv.of_inv crT.toNZ m5g_inv (by decide +kernel) F5_hyg (rootFlagsCheck_sound (by decide +kernel) (by decide +kernel))

example : ∃ m', MapPollard.add [⟨T.leaf 5, true⟩, ⟨T.leaf 6, false⟩, ⟨T.leaf 7, true⟩, ⟨T.leaf 8, true⟩] m5g
      = (m', .ok ()) ∧ Inv m' (F5.addMany [.leaf 5, .leaf 6, .leaf 7, .leaf 8]) ∧ m'.totalRows = 4#8 := by
  obtain ⟨m', h1, _, h3, _⟩ := inv_add crT.toNZ m5g_sinv
    [⟨T.leaf 5, true⟩, ⟨T.leaf 6, false⟩, ⟨T.leaf 7, true⟩, ⟨T.leaf 8, true⟩] (by decide)
    (by
      intro a ha
      simp only [List.mem_cons, List.mem_nil_iff, or_false] at ha
      rcases ha with rfl | rfl | rfl | rfl <;> exact ⟨by decide, leafT_nz _, leafT_nph _⟩)
    (by decide)
  refine ⟨m', h1, h3, ?_⟩
  have : (MapPollard.add [⟨T.leaf 5, true⟩, ⟨T.leaf 6, false⟩, ⟨T.leaf 7, true⟩, ⟨T.leaf 8, true⟩] m5g).1.totalRows
      = 4#8 := by decide +kernel
  rw [h1] at this
  exact this

end Example

/-! ### Level 2: `Ingest` / `Verify(remember)` of an accepted canonical proof -/

/-- **`Ingest` of the canonical proof of live leaves `L` (possibly with surplus hashes appended)
preserves the invariant**: every stored hash stays true, `K' = K ∪ L` -/
theorem inv_ingest (nz : NZ H) {m : MapPollard H} {F : Forest H} (s : SInv m F) (L : List H) (ts : List Pos)
    (ps junk : List H) (hnd : L.Nodup) (hc : F.canon L = some (ts, ps)) :
    ∃ m', MapPollard.ingest L (ts.map (encP F.rows)) (ps ++ junk) m = (m', .ok ()) ∧ SInv m' F ∧ Inv m' F ∧
      (∀ y, m'.hasCached y = true ↔ (m.hasCached y = true ∨ y ∈ L)) := by
  obtain ⟨m', h1, h2, h3⟩ := MapIngest.sinv_ingest nz s L ts ps junk hnd hc
  exact ⟨m', h1, h2, h2.inv nz, h3⟩

/-- **`Verify(…, remember)` of the canonical proof succeeds and preserves the invariant**;
with `remember = true` the proven leaves join the cache -/
theorem inv_verify (nz : NZ H) {m : MapPollard H} {F : Forest H} (s : SInv m F) (L : List H) (ts : List Pos)
    (ps junk : List H) (hnd : L.Nodup) (hc : F.canon L = some (ts, ps)) (remember : Bool) :
    ∃ m', MapPollard.verifyM L (ts.map (encP F.rows)) (ps ++ junk) remember m = (m', .ok ()) ∧ SInv m' F ∧
      Inv m' F ∧ (∀ y, m'.hasCached y = true ↔ (m.hasCached y = true ∨ (remember = true ∧ y ∈ L))) := by
  obtain ⟨m', h1, h2, h3⟩ := MapIngest.sinv_verifyM nz s L ts ps junk hnd hc remember
  exact ⟨m', h1, h2, h2.inv nz, h3⟩

/-! ### Level 3: `remove` -/

/-- **`remove` of cached live leaves `L` (targets of their canonical proof) preserves the
invariant**: `m'` tracks `F.delLeaves L`, `K' = K \ L` -/
theorem inv_remove (nz : NZ H) {m : MapPollard H} {F : Forest H} (s : SInv m F) (L : List H) (ts : List Pos)
    (ps : List H) (hnd : L.Nodup) (hc : F.canon L = some (ts, ps)) (hcached : ∀ x ∈ L, m.hasCached x = true) :
    ∃ m', MapPollard.remove (ts.map (encP F.rows)) L m = (m', .ok ()) ∧ SInv m' (F.delLeaves L) ∧
      Inv m' (F.delLeaves L) ∧ (∀ y, m'.hasCached y = true ↔ (m.hasCached y = true ∧ y ∉ L)) := by
  obtain ⟨m', h1, h2, h3⟩ := MapRemoveAll.sinv_remove nz s L ts ps hnd hc hcached
  exact ⟨m', h1, h2, h2.inv nz, h3⟩

/-- `Prune` preserves the strong invariant (`Props.C09.inv_prune` strengthened) -/
theorem inv_prune (nz : NZ H) {m : MapPollard H} {F : Forest H} (s : SInv m F) (hashes : List H) :
    ∃ m', MapPollard.prune hashes m = (m', .ok ()) ∧ SInv m' F ∧ Inv m' F ∧
      (∀ y, m'.hasCached y = true ↔ (m.hasCached y = true ∧ y ∉ hashes)) := by
  obtain ⟨m', h1, h2, h3⟩ := MapPruneS.sinv_prune nz s hashes
  exact ⟨m', h1, h2, h2.inv nz, h3⟩

/-! ### Level 4: `Modify`, C01 and C05 for the map forest -/

/-- **`Modify` (a valid block) preserves the invariant and yields the specification's roots**
(C01 for the map forest, any allocation `TotalRows ≥ TreeRows`, growing on demand) -/
theorem inv_modify (nz : NZ H) {m : MapPollard H} {F : Forest H} (s : SInv m F) (adds : List (Leaf H))
    (dels : List H) (ts : List Pos) (ps : List H)
    (hcached : ∀ x ∈ dels, m.hasCached x = true) (hnd : dels.Nodup) (hc : F.canon dels = some (ts, ps))
    (hfr : ∀ a ∈ adds, a.hash ∉ F.liveLeaves ∧ a.hash ≠ zero ∧ ∀ u v : H, a.hash ≠ ph u v)
    (hndA : (adds.map (·.hash)).Nodup) (hn : F.numLeaves + adds.length < 2 ^ 63) :
    ∃ m', MapPollard.modify adds dels (ts.map (encP F.rows)) m = (m', .ok ()) ∧
      SInv m' (F.modify dels (adds.map (·.hash))) ∧ Inv m' (F.modify dels (adds.map (·.hash))) ∧
      m'.roots = (F.modify dels (adds.map (·.hash))).roots ∧
      (∀ y, m'.hasCached y = true ↔
        ((m.hasCached y = true ∧ y ∉ dels) ∨ ∃ a ∈ adds, a.remember = true ∧ a.hash = y)) := by
  obtain ⟨m1, h1, s1, c1⟩ := MapRemoveAll.sinv_remove nz s dels ts ps hnd hc hcached
  have hfr' : ∀ a ∈ adds, a.hash ∉ (F.delLeaves dels).liveLeaves ∧ a.hash ≠ zero ∧ ∀ u v : H, a.hash ≠ ph u v := by
    intro a ha
    obtain ⟨g1, g2, g3⟩ := hfr a ha
    refine ⟨?_, g2, g3⟩
    rw [PForestDel.liveLeaves_delLeaves]
    intro h
    exact g1 (List.mem_filter.1 h).1
  have hn' : (F.delLeaves dels).numLeaves + adds.length < 2 ^ 63 := by
    rw [Spec.numLeaves_delLeaves]; exact hn
  obtain ⟨m2, h2, s2, c2⟩ := MapAddMerge.sinv_add nz adds s1 hn' hfr' hndA
  refine ⟨m2, ?_, s2, s2.inv nz, Props.C09.roots_eq (s2.inv nz), ?_⟩
  · unfold MapPollard.modify
    rw [h1]
    exact h2
  · intro y
    rw [c2, c1]

theorem sortU64_eq_of_perm {l1 l2 : List U64} (hp : l1.Perm l2) (hnd : l1.Nodup) : sortU64 l1 = sortU64 l2 := by
  apply Sorted.eq_of_sorted_of_mem_iff (R := fun a b : U64 => a < b)
  · intro a h; exact absurd h (by bv_omega)
  · intro a b c h1 h2; bv_omega
  · exact ProofOps.strict_sortU64 l1 hnd
  · exact ProofOps.strict_sortU64 l2 (hp.nodup_iff.1 hnd)
  · intro x
    rw [ProofOps.mem_sortU64, ProofOps.mem_sortU64]
    exact hp.mem_iff

/-- **C05 for the map forest**: `Modify` reads only the multiset of targets — any re-ordering of
the targets of an accepted proof (and any proof hashes: they are not read at all) applies the
block identically -/
theorem modify_encoding_independent (m : MapPollard H) (adds : List (Leaf H)) (dels : List H)
    {tgts tgts' : List U64} (hp : tgts.Perm tgts') (hnd : tgts.Nodup) :
    MapPollard.modify adds dels tgts' m = MapPollard.modify adds dels tgts m := by
  unfold MapPollard.modify MapPollard.remove
  simp only
  rw [sortU64_eq_of_perm hp hnd]

/-! ### all operations but `Undo`: reachable states satisfy the (strong) invariant -/

/-- honest operations on a partial map forest (as `Props.C09.Reach`, without `Undo`, and with leaf
hygiene required of the forest a `NewMapPollardFromRoots` starts from — without it the claim is
FALSE, see `C09_fails_leaf_is_node` below) -/
inductive ReachS : MapPollard H → Forest H → Prop
  | new : ReachS (MapPollard.new false) Forest.empty
  | fromRoots (F : Forest H) (m : MapPollard H) : F.numLeaves < 2 ^ 63 → Hyg F →
      MapPollard.fromRoots F.roots (BitVec.ofNat 64 F.numLeaves) false = .ok m → ReachS m F
  | modify {m m' F} (adds : List (Leaf H)) (dels : List H) (ts : List Pos) (ps : List H) :
      ReachS m F → (∀ x ∈ dels, m.hasCached x = true) → dels.Nodup → F.canon dels = some (ts, ps) →
      (∀ a ∈ adds, a.hash ≠ zero ∧ a.hash ∉ F.liveLeaves ∧ ∀ u v : H, a.hash ≠ ph u v) →
      (adds.map (·.hash)).Nodup → F.numLeaves + adds.length < 2 ^ 63 →
      MapPollard.modify adds dels (ts.map (encP F.rows)) m = (m', .ok ()) →
      ReachS m' (F.modify dels (adds.map (·.hash)))
  | verify {m m' F} (L : List H) (ts : List Pos) (ps : List H) (remember : Bool) :
      ReachS m F → L.Nodup → F.canon L = some (ts, ps) →
      MapPollard.verifyM L (ts.map (encP F.rows)) ps remember m = (m', .ok ()) → ReachS m' F
  | ingest {m m' F} (L : List H) (ts : List Pos) (ps : List H) :
      ReachS m F → L.Nodup → F.canon L = some (ts, ps) →
      MapPollard.ingest L (ts.map (encP F.rows)) ps m = (m', .ok ()) → ReachS m' F
  | prune {m m' F} (L : List H) :
      ReachS m F → MapPollard.prune L m = (m', .ok ()) → ReachS m' F

theorem hyg_empty : Hyg (Forest.empty : Forest H) where
  nodup := by simp [Forest.empty, Forest.liveLeaves]
  nz := by intro x hx; simp [Forest.empty, Forest.liveLeaves] at hx
  nph := by intro x hx; simp [Forest.empty, Forest.liveLeaves] at hx

theorem rootFlags_noCache {m : MapPollard H} {F : Forest H}
    (h1 : ∀ p l, m.getNode p = some l → l.remember = false) (h2 : ∀ x, m.getCached x = none) :
    RootFlags m F := by
  intro q l _ _ hg _
  rw [h1 _ l hg]
  constructor
  · intro h; cases h
  · rintro ⟨x, hx⟩; rw [h2 x] at hx; cases hx

/-- **C09 for every operation except `Undo`**: every state reachable by `NewMapPollard(false)`,
`NewMapPollardFromRoots` (at the roots of a hygienic forest), `Modify`, `Verify(…, remember)`,
`Ingest` and `Prune` satisfies the strong invariant — hence `Inv` (true hashes, exact cache,
required ⊆ stored ⊆ allowed), the roots are the specification's (C01) and every cached set is
provable with the canonical proof (`Props.C09.prove_canon`) — and on such a state each of these
operations, called honestly, succeeds. -/
theorem C09_reach_all_but_undo (nz : NZ H) :
    (∀ (m : MapPollard H) (F : Forest H), ReachS m F → SInv m F ∧ Inv m F ∧ m.roots = F.roots) ∧
    (∀ (m : MapPollard H) (F : Forest H), ReachS m F →
      (∀ L ts ps remember, L.Nodup → F.canon L = some (ts, ps) →
        (∃ m', MapPollard.verifyM L (ts.map (encP F.rows)) ps remember m = (m', .ok ())) ∧
        (∃ m', MapPollard.ingest L (ts.map (encP F.rows)) ps m = (m', .ok ()))) ∧
      (∀ L, ∃ m', MapPollard.prune L m = (m', .ok ())) ∧
      (∀ adds dels ts ps, (∀ x ∈ dels, m.hasCached x = true) → dels.Nodup → F.canon dels = some (ts, ps) →
        (∀ a ∈ adds, a.hash ≠ zero ∧ a.hash ∉ F.liveLeaves ∧ ∀ u v : H, a.hash ≠ ph u v) →
        (adds.map (·.hash)).Nodup → F.numLeaves + adds.length < 2 ^ 63 →
        ∃ m', MapPollard.modify adds dels (ts.map (encP F.rows)) m = (m', .ok ()))) := by
  have key : ∀ (m : MapPollard H) (F : Forest H), ReachS m F → SInv m F := by
    intro m F hr
    induction hr with
    | new =>
      refine SInv.of_inv nz (Props.C09.inv_new false) rfl hyg_empty ?_
      intro q l _ _ hg
      simp [MapPollard.getNode, MapPollard.new, get?_nil] at hg
    | fromRoots F m hn hy hm =>
      obtain ⟨m0, hm0, inv⟩ := Props.C09.inv_fromRoots F hn
      obtain ⟨m1, hm1, hc, _, _, hf, hget, _⟩ := Props.C09.fromRootsAt_spec F hn 63 (Nat.le_refl _)
        (SpecView.forestRows_le_63 hn) false
      have e0 : m0 = m := by
        rw [hm] at hm0; exact (Except.ok.inj hm0).symm
      have e1 : m1 = m := by
        have : MapPollard.fromRoots F.roots (BitVec.ofNat 64 F.numLeaves) false = .ok m1 := hm1
        rw [hm] at this; exact (Except.ok.inj this).symm
      subst e0
      refine SInv.of_inv nz inv (by rw [← e1]; exact hf) hy ?_
      apply rootFlags_noCache
      · intro p l hg
        rw [← e1] at hg
        obtain ⟨r, _, _, hl⟩ := hget p l hg
        rw [hl]
      · intro x
        rw [← e1]
        simp [MapPollard.getCached, hc, get?_nil]
    | modify adds dels ts ps _ hca hnd hc hfr hndA hn he ih =>
      obtain ⟨m2, h2, s2, _⟩ := inv_modify nz ih adds dels ts ps hca hnd hc
        (fun a ha => ⟨(hfr a ha).2.1, (hfr a ha).1, (hfr a ha).2.2⟩) hndA hn
      rw [he] at h2
      rw [(Prod.mk.inj h2).1]; exact s2
    | verify L ts ps remember _ hnd hc he ih =>
      obtain ⟨m2, h2, s2, _⟩ := inv_verify nz ih L ts ps [] hnd hc remember
      rw [List.append_nil, he] at h2
      rw [(Prod.mk.inj h2).1]; exact s2
    | ingest L ts ps _ hnd hc he ih =>
      obtain ⟨m2, h2, s2, _⟩ := inv_ingest nz ih L ts ps [] hnd hc
      rw [List.append_nil, he] at h2
      rw [(Prod.mk.inj h2).1]; exact s2
    | prune L _ he ih =>
      obtain ⟨m2, h2, s2, _⟩ := inv_prune nz ih L
      rw [he] at h2
      rw [(Prod.mk.inj h2).1]; exact s2
  refine ⟨fun m F hr => ⟨key m F hr, (key m F hr).inv nz, Props.C09.roots_eq ((key m F hr).inv nz)⟩, ?_⟩
  intro m F hr
  have s := key m F hr
  refine ⟨?_, ?_, ?_⟩
  · intro L ts ps remember hnd hc
    obtain ⟨m1, h1, _⟩ := inv_verify nz s L ts ps [] hnd hc remember
    obtain ⟨m2, h2, _⟩ := inv_ingest nz s L ts ps [] hnd hc
    rw [List.append_nil] at h1 h2
    exact ⟨⟨m1, h1⟩, ⟨m2, h2⟩⟩
  · intro L
    obtain ⟨m1, h1, _⟩ := inv_prune nz s L
    exact ⟨m1, h1⟩
  · intro adds dels ts ps hca hnd hc hfr hndA hn
    obtain ⟨m2, h2, _⟩ := inv_modify nz s adds dels ts ps hca hnd hc
      (fun a ha => ⟨(hfr a ha).2.1, (hfr a ha).1, (hfr a ha).2.2⟩) hndA hn
    exact ⟨m2, h2⟩

/-- **C10 / C01 / C02 for the map forest in every reachable state (all operations but `Undo`)**:
`GetRoots` returns the specification's roots, `GetHash` answers the true hash or zero,
`GetLeafPosition` answers exactly the cached live leaves with their true positions, and `Prove`
of any duplicate-free list of cached leaves returns the canonical proof. -/
theorem lookups_reach (nz : NZ H) {m : MapPollard H} {F : Forest H} (hr : ReachS m F) :
    m.roots = F.roots ∧
    (∀ q, Valid F.rows q → m.getHash (encP F.rows q) = Hasher.zero ∨ F.nodeAt q = some (m.getHash (encP F.rows q))) ∧
    (∀ x p, m.getLeafPosition x = some p → m.hasCached x = true ∧ ∃ t, F.posOf x = some t ∧ p = encP F.rows t) ∧
    (∀ x, m.getLeafPosition x = none ↔ m.hasCached x = false) ∧
    (∀ L, (∀ x ∈ L, m.hasCached x = true) → L.Nodup →
      ∃ tgts hashes, F.canon L = some (tgts, hashes) ∧ m.prove L = .ok (tgts.map (encP F.rows), hashes)) := by
  obtain ⟨_, inv, hroots⟩ := (C09_reach_all_but_undo nz).1 m F hr
  exact ⟨hroots, fun q hq => Props.C09.getHash_true inv q hq,
    fun x p h => Props.C09.getLeafPosition_some inv h,
    fun x => Props.C09.getLeafPosition_none x,
    fun L hL hnd => Props.C09.prove_canon inv L hL hnd⟩


/-! ### Level 5: `Undo` -/

/-- **`Undo` preserves the invariant**: if `m` tracks `F.modify dels adds` (any state satisfying the
strong invariant for that forest — e.g. the state after the `Modify`, possibly followed by
`Verify`/`Ingest`/`Prune`), then `Undo(len adds, canonical proof of dels in F, dels, roots of F)`
succeeds, the result tracks `F` again (strong invariant, `Inv`, the roots are `F.roots`), and the
cache is `(K \ adds) ∪ dels`. -/
theorem inv_undo (nz : NZ H) {m : MapPollard H} {F : Forest H} {dels adds : List H} {ts : List Pos} {ps : List H}
    (s : SInv m (F.modify dels adds)) (hyF : Hyg F) (hnd : dels.Nodup) (hc : F.canon dels = some (ts, ps))
    (nonZero : H) (hnz : nonZero ≠ (zero : H)) :
    ∃ m', MapPollard.undo nonZero (BitVec.ofNat 64 adds.length) (ts.map (encP F.rows)) ps dels F.roots m = (m', .ok ()) ∧
      SInv m' F ∧ Inv m' F ∧ m'.roots = F.roots ∧
      (∀ y, m'.hasCached y = true ↔ ((m.hasCached y = true ∧ y ∉ adds) ∨ y ∈ dels)) := by
  obtain ⟨m', h1, h2, h3⟩ := MapUndoAll.sinv_undo nz s hyF hnd hc nonZero hnz
  exact ⟨m', h1, h2, h2.inv nz, Props.C09.roots_eq (h2.inv nz), h3⟩

/-! ### all operations, `Undo` included -/

/-- the undo stack fits the current forest: the newest block leads from its `prev` to the current
forest, `prev` is hygienic, and the block's proof is the canonical one of its deletions in `prev` -/
def StackOK : Forest H → List (Props.C09.BlockData H) → Prop
  | _, [] => True
  | F, b :: st => (∃ adds : List H, adds.length = b.numAdds ∧ F = b.prev.modify b.dels adds) ∧ Hyg b.prev ∧
      b.dels.Nodup ∧ b.prev.canon b.dels = some (b.targets, b.proof) ∧ StackOK b.prev st

/-- honest operations on a partial map forest, `Undo` included: `Props.C09.Reach` with leaf
hygiene required of the forest a `NewMapPollardFromRoots` starts from (without it the claim is
FALSE, see `C09_fails_leaf_is_node` below) and any `remember` flag for `Verify` -/
inductive ReachU (nonZero : H) : MapPollard H → Forest H → List (Props.C09.BlockData H) → Prop
  | new : ReachU nonZero (MapPollard.new false) Forest.empty []
  | fromRoots (F : Forest H) (m : MapPollard H) : F.numLeaves < 2 ^ 63 → Hyg F →
      MapPollard.fromRoots F.roots (BitVec.ofNat 64 F.numLeaves) false = .ok m → ReachU nonZero m F []
  | modify {m m' F st} (adds : List (Leaf H)) (dels : List H) (ts : List Pos) (ps : List H) :
      ReachU nonZero m F st → (∀ x ∈ dels, m.hasCached x = true) → dels.Nodup → F.canon dels = some (ts, ps) →
      (∀ a ∈ adds, a.hash ≠ zero ∧ a.hash ∉ F.liveLeaves ∧ ∀ u v : H, a.hash ≠ ph u v) →
      (adds.map (·.hash)).Nodup → F.numLeaves + adds.length < 2 ^ 63 →
      MapPollard.modify adds dels (ts.map (encP F.rows)) m = (m', .ok ()) →
      ReachU nonZero m' (F.modify dels (adds.map (·.hash))) (⟨F, adds.length, dels, ts, ps⟩ :: st)
  | verify {m m' F st} (L : List H) (ts : List Pos) (ps : List H) (remember : Bool) :
      ReachU nonZero m F st → L.Nodup → F.canon L = some (ts, ps) →
      MapPollard.verifyM L (ts.map (encP F.rows)) ps remember m = (m', .ok ()) → ReachU nonZero m' F st
  | ingest {m m' F st} (L : List H) (ts : List Pos) (ps : List H) :
      ReachU nonZero m F st → L.Nodup → F.canon L = some (ts, ps) →
      MapPollard.ingest L (ts.map (encP F.rows)) ps m = (m', .ok ()) → ReachU nonZero m' F st
  | prune {m m' F st} (L : List H) :
      ReachU nonZero m F st → MapPollard.prune L m = (m', .ok ()) → ReachU nonZero m' F st
  | undo {m m' F st} (b : Props.C09.BlockData H) :
      ReachU nonZero m F (b :: st) →
      MapPollard.undo nonZero (BitVec.ofNat 64 b.numAdds) (b.targets.map (encP b.prev.rows)) b.proof b.dels
        b.prev.roots m = (m', .ok ()) →
      ReachU nonZero m' b.prev st

/-- the induction: every `ReachU` state satisfies the strong invariant, and its undo stack fits
its forest (so that `inv_undo` applies to the newest block) -/
theorem ReachU.stack (nz : NZ H) {nonZero : H} (hnz : nonZero ≠ (zero : H)) :
    ∀ {m : MapPollard H} {F : Forest H} {st : List (Props.C09.BlockData H)}, ReachU nonZero m F st → SInv m F ∧ StackOK F st := by
  intro m F st hr
  induction hr with
  | new =>
    refine ⟨SInv.of_inv nz (Props.C09.inv_new false) rfl hyg_empty ?_, trivial⟩
    intro q l _ _ hg
    simp [MapPollard.getNode, MapPollard.new, get?_nil] at hg
  | fromRoots F m hn hy hm =>
    exact ⟨((C09_reach_all_but_undo nz).1 m F (ReachS.fromRoots F m hn hy hm)).1, trivial⟩
  | modify adds dels ts ps _ hca hnd hc hfr hndA hn he ih =>
    obtain ⟨m2, h2, s2, _⟩ := inv_modify nz ih.1 adds dels ts ps hca hnd hc
      (fun a ha => ⟨(hfr a ha).2.1, (hfr a ha).1, (hfr a ha).2.2⟩) hndA hn
    rw [he] at h2
    rw [(Prod.mk.inj h2).1]
    exact ⟨s2, ⟨adds.map (·.hash), by simp, rfl⟩, ih.1.hyg, hnd, hc, ih.2⟩
  | verify L ts ps remember _ hnd hc he ih =>
    obtain ⟨m2, h2, s2, _⟩ := inv_verify nz ih.1 L ts ps [] hnd hc remember
    rw [List.append_nil, he] at h2
    rw [(Prod.mk.inj h2).1]; exact ⟨s2, ih.2⟩
  | ingest L ts ps _ hnd hc he ih =>
    obtain ⟨m2, h2, s2, _⟩ := inv_ingest nz ih.1 L ts ps [] hnd hc
    rw [List.append_nil, he] at h2
    rw [(Prod.mk.inj h2).1]; exact ⟨s2, ih.2⟩
  | prune L _ he ih =>
    obtain ⟨m2, h2, s2, _⟩ := inv_prune nz ih.1 L
    rw [he] at h2
    rw [(Prod.mk.inj h2).1]; exact ⟨s2, ih.2⟩
  | undo b _ he ih =>
    obtain ⟨s, ⟨adds, hlen, hF⟩, hy, hnd, hc, hst⟩ := ih
    rw [hF] at s
    obtain ⟨m2, h2, s2, _⟩ := inv_undo nz s hy hnd hc nonZero hnz
    rw [hlen, he] at h2
    rw [(Prod.mk.inj h2).1]; exact ⟨s2, hst⟩

/-- **C09 for the model, every operation (`Undo` included)**: this is `Props.C09.C09_statement`
with the two premises that are needed for it to be true — the forest a `NewMapPollardFromRoots`
starts from is hygienic, and the additions of a `Modify` are fresh (as `Reach.modify` demands).
Every reachable state satisfies the strong invariant (hence `m.full = false`, `Inv`, and its roots
are the specification's), and on a reachable state every honest call — `Verify`, `Ingest`, `Prune`,
`Modify`, and `Undo` of the newest block — succeeds. -/
theorem C09_reach (nz : NZ H) (nonZero : H) (hnz : nonZero ≠ (zero : H)) :
    (∀ (m : MapPollard H) (F : Forest H) (st : List (Props.C09.BlockData H)), ReachU nonZero m F st →
      m.full = false ∧ SInv m F ∧ Inv m F ∧ m.roots = F.roots) ∧
    (∀ (m : MapPollard H) (F : Forest H) (st : List (Props.C09.BlockData H)), ReachU nonZero m F st →
      (∀ L ts ps remember, L.Nodup → F.canon L = some (ts, ps) →
        (∃ m', MapPollard.verifyM L (ts.map (encP F.rows)) ps remember m = (m', .ok ())) ∧
        (∃ m', MapPollard.ingest L (ts.map (encP F.rows)) ps m = (m', .ok ()))) ∧
      (∀ L, ∃ m', MapPollard.prune L m = (m', .ok ())) ∧
      (∀ adds dels ts ps, (∀ x ∈ dels, m.hasCached x = true) → dels.Nodup → F.canon dels = some (ts, ps) →
        (∀ a ∈ adds, a.hash ≠ zero ∧ a.hash ∉ F.liveLeaves ∧ ∀ u v : H, a.hash ≠ ph u v) →
        (adds.map (·.hash)).Nodup → F.numLeaves + adds.length < 2 ^ 63 →
        ∃ m', MapPollard.modify adds dels (ts.map (encP F.rows)) m = (m', .ok ())) ∧
      (∀ b st', st = b :: st' → ∃ m',
        MapPollard.undo nonZero (BitVec.ofNat 64 b.numAdds) (b.targets.map (encP b.prev.rows)) b.proof b.dels
          b.prev.roots m = (m', .ok ()))) := by
  refine ⟨fun m F st hr => ?_, fun m F st hr => ?_⟩
  · have s := (ReachU.stack nz hnz hr).1
    exact ⟨s.full, s, s.inv nz, Props.C09.roots_eq (s.inv nz)⟩
  · obtain ⟨s, hst⟩ := ReachU.stack nz hnz hr
    refine ⟨?_, ?_, ?_, ?_⟩
    · intro L ts ps remember hnd hc
      obtain ⟨m1, h1, _⟩ := inv_verify nz s L ts ps [] hnd hc remember
      obtain ⟨m2, h2, _⟩ := inv_ingest nz s L ts ps [] hnd hc
      rw [List.append_nil] at h1 h2
      exact ⟨⟨m1, h1⟩, ⟨m2, h2⟩⟩
    · intro L
      obtain ⟨m1, h1, _⟩ := inv_prune nz s L
      exact ⟨m1, h1⟩
    · intro adds dels ts ps hca hnd hc hfr hndA hn
      obtain ⟨m2, h2, _⟩ := inv_modify nz s adds dels ts ps hca hnd hc
        (fun a ha => ⟨(hfr a ha).2.1, (hfr a ha).1, (hfr a ha).2.2⟩) hndA hn
      exact ⟨m2, h2⟩
    · intro b st' e
      subst e
      obtain ⟨⟨adds, hlen, hF⟩, hy, hnd, hc, _⟩ := hst
      rw [hF] at s
      obtain ⟨m2, h2, _⟩ := inv_undo nz s hy hnd hc nonZero hnz
      rw [hlen] at h2
      exact ⟨m2, h2⟩

/-- the lookups (C10 / C01 / C02 for the map forest) in every reachable state, `Undo` included -/
theorem lookups_reachU (nz : NZ H) {nonZero : H} (hnz : nonZero ≠ (zero : H)) {m : MapPollard H} {F : Forest H}
    {st : List (Props.C09.BlockData H)} (hr : ReachU nonZero m F st) :
    m.roots = F.roots ∧
    (∀ q, Valid F.rows q → m.getHash (encP F.rows q) = Hasher.zero ∨ F.nodeAt q = some (m.getHash (encP F.rows q))) ∧
    (∀ x p, m.getLeafPosition x = some p → m.hasCached x = true ∧ ∃ t, F.posOf x = some t ∧ p = encP F.rows t) ∧
    (∀ x, m.getLeafPosition x = none ↔ m.hasCached x = false) ∧
    (∀ L, (∀ x ∈ L, m.hasCached x = true) → L.Nodup →
      ∃ tgts hashes, F.canon L = some (tgts, hashes) ∧ m.prove L = .ok (tgts.map (encP F.rows), hashes)) := by
  obtain ⟨_, _, inv, hroots⟩ := (C09_reach nz nonZero hnz).1 m F st hr
  exact ⟨hroots, fun q hq => Props.C09.getHash_true inv q hq,
    fun x p h => Props.C09.getLeafPosition_some inv h,
    fun x => Props.C09.getLeafPosition_none x,
    fun L hL hnd => Props.C09.prove_canon inv L hL hnd⟩


/-! ### `Full` map forests: statement left open -/

/-- honest blocks on a FULL map forest (`NewMapPollard(true)`: every node is kept, every leaf is
cached, whatever the `Remember` flags) -/
inductive ReachFull : MapPollard H → Forest H → Prop
  | new : ReachFull (MapPollard.new true) Forest.empty
  | modify {m m' F} (adds : List (Leaf H)) (dels : List H) (ts : List Pos) (ps : List H) :
      ReachFull m F → dels.Nodup → F.canon dels = some (ts, ps) →
      (∀ a ∈ adds, a.hash ≠ zero ∧ a.hash ∉ F.liveLeaves ∧ ∀ u v : H, a.hash ≠ ph u v) →
      (adds.map (·.hash)).Nodup → F.numLeaves + adds.length < 2 ^ 63 →
      MapPollard.modify adds dels (ts.map (encP F.rows)) m = (m', .ok ()) →
      ReachFull m' (F.modify dels (adds.map (·.hash)))

/-- **NOT PROVED** — C01 for `Full` map forests.  Everything above is about `full = false` (the
strong invariant `SInv` contains `m.full = false`, as does the conclusion of
`Props.C09.C09_statement`); in `Full` mode the flag computations `remember || m.full` and the
skipped pruning change every step lemma.  The statement is kept visible; it holds on the concrete
run checked below and in the differential tests against the Go code. -/
def C01_full_statement (H : Type) [DecidableEq H] [Hasher H] : Prop :=
  NZ H → ∀ (m : MapPollard H) (F : Forest H), ReachFull m F → m.roots = F.roots

/-! ### non-vacuity for levels 2–4 -/

namespace Example2
open Props.C09.Example MapSInv.Example Example

theorem canon13 : F5.canon [T.leaf 1, T.leaf 3] = some ([(0, 1), (0, 3)], [T.leaf 0, T.leaf 2]) := by
  decide +kernel
theorem canon20 : F5.canon [T.leaf 2, T.leaf 0] = some ([(0, 2), (0, 0)], [T.leaf 1, T.leaf 3]) := by
  decide +kernel

/-- `inv_verify`: the uncached leaves 1 and 3 are verified and remembered (one surplus hash) -/
example : ∃ m', MapPollard.verifyM [T.leaf 1, T.leaf 3] ([(0, 1), (0, 3)].map (encP F5.rows))
    ([T.leaf 0, T.leaf 2] ++ [T.leaf 9]) true m5 = (m', .ok ()) ∧ Inv m' F5 ∧ m'.hasCached (T.leaf 3) = true := by
  obtain ⟨m', h1, _, h3, h4⟩ := inv_verify crT.toNZ m5_sinv _ _ _ [T.leaf 9] (by decide) canon13 true
  exact ⟨m', h1, h3, (h4 _).2 (Or.inr ⟨rfl, by decide⟩)⟩

/-- `inv_remove`: the cached leaves 2 and 0 are deleted (request order 2, 0) -/
example : ∃ m', MapPollard.remove ([(0, 2), (0, 0)].map (encP F5.rows)) [T.leaf 2, T.leaf 0] m5 = (m', .ok ()) ∧
    Inv m' (F5.delLeaves [T.leaf 2, T.leaf 0]) ∧ m'.hasCached (T.leaf 4) = true ∧ m'.hasCached (T.leaf 0) = false := by
  obtain ⟨m', h1, _, h3, h4⟩ := inv_remove crT.toNZ m5_sinv _ _ _ (by decide) canon20 (by decide +kernel)
  refine ⟨m', h1, h3, (h4 _).2 ⟨by decide +kernel, by decide⟩, ?_⟩
  cases hh : m'.hasCached (T.leaf 0) with
  | false => rfl
  | true => exact absurd ((h4 _).1 hh).2 (by decide)

/-- `inv_modify`: a block deleting leaves 2, 0 and adding leaves 5, 6, 7 (the last addition merges
all the way up); the roots are the specification's -/
example : ∃ m', MapPollard.modify [⟨T.leaf 5, true⟩, ⟨T.leaf 6, false⟩, ⟨T.leaf 7, true⟩] [T.leaf 2, T.leaf 0]
      ([(0, 2), (0, 0)].map (encP F5.rows)) m5 = (m', .ok ()) ∧
    m'.roots = (F5.modify [T.leaf 2, T.leaf 0] [T.leaf 5, T.leaf 6, T.leaf 7]).roots := by
  obtain ⟨m', h1, _, _, h4, _⟩ := inv_modify crT.toNZ m5_sinv
    [⟨T.leaf 5, true⟩, ⟨T.leaf 6, false⟩, ⟨T.leaf 7, true⟩] [T.leaf 2, T.leaf 0] _ _
    (by decide +kernel) (by decide) canon20
    (by
      intro a ha
      simp only [List.mem_cons, List.mem_nil_iff, or_false] at ha
      rcases ha with rfl | rfl | rfl <;> exact ⟨by decide, leafT_nz _, leafT_nph _⟩)
    (by decide) (by decide)
  exact ⟨m', h1, h4⟩

/-- `modify_encoding_independent`: the same block with the targets in the other order -/
example : MapPollard.modify [] [T.leaf 2, T.leaf 0] [0#64, 2#64] m5 =
    MapPollard.modify [] [T.leaf 2, T.leaf 0] [2#64, 0#64] m5 :=
  modify_encoding_independent m5 [] _ (List.Perm.swap _ _ _) (by decide)

/-- `ReachS` is inhabited beyond the initial states -/
example : ∃ m, ReachS m (Forest.empty.modify ([] : List T) [T.leaf 0, T.leaf 1, T.leaf 2]) := by
  obtain ⟨_, hprog⟩ := C09_reach_all_but_undo (H := T) crT.toNZ
  obtain ⟨_, _, hm⟩ := hprog _ _ ReachS.new
  have hc : (Forest.empty : Forest T).canon [] = some ([], []) := by decide +kernel
  obtain ⟨m', h⟩ := hm [⟨T.leaf 0, true⟩, ⟨T.leaf 1, false⟩, ⟨T.leaf 2, true⟩] [] [] [] (by simp) (by simp) hc
    (by
      intro a ha
      simp only [List.mem_cons, List.mem_nil_iff, or_false] at ha
      rcases ha with rfl | rfl | rfl <;> exact ⟨leafT_nz _, by decide, leafT_nph _⟩)
    (by decide) (by decide)
  exact ⟨m', ReachS.modify _ _ _ _ ReachS.new (by simp) (by simp) hc
    (by
      intro a ha
      simp only [List.mem_cons, List.mem_nil_iff, or_false] at ha
      rcases ha with rfl | rfl | rfl <;> exact ⟨leafT_nz _, by decide, leafT_nph _⟩)
    (by decide) (by decide) h⟩

/-- `inv_undo`: the block of the previous example (deleting the cached leaves 2, 0 and adding
leaves 5, 6, 7 — the last addition merges over all rows and the deleted tree positions are
re-used) is undone: the state tracks `F5` again, leaves 2 and 0 are cached again and the added
leaves are forgotten -/
example : ∃ m' m'', MapPollard.modify [⟨T.leaf 5, true⟩, ⟨T.leaf 6, false⟩, ⟨T.leaf 7, true⟩] [T.leaf 2, T.leaf 0]
      ([(0, 2), (0, 0)].map (encP F5.rows)) m5 = (m', .ok ()) ∧
    MapPollard.undo (T.leaf 9) 3#64 ([(0, 2), (0, 0)].map (encP F5.rows)) [T.leaf 1, T.leaf 3] [T.leaf 2, T.leaf 0]
      F5.roots m' = (m'', .ok ()) ∧
    Inv m'' F5 ∧ m''.roots = F5.roots ∧ m''.hasCached (T.leaf 2) = true ∧ m''.hasCached (T.leaf 0) = true ∧
    m''.hasCached (T.leaf 5) = false := by
  obtain ⟨m', h1, s1, _, _, c1⟩ := inv_modify crT.toNZ m5_sinv
    [⟨T.leaf 5, true⟩, ⟨T.leaf 6, false⟩, ⟨T.leaf 7, true⟩] [T.leaf 2, T.leaf 0] _ _
    (by decide +kernel) (by decide) canon20
    (by
      intro a ha
      simp only [List.mem_cons, List.mem_nil_iff, or_false] at ha
      rcases ha with rfl | rfl | rfl <;> exact ⟨by decide, leafT_nz _, leafT_nph _⟩)
    (by decide) (by decide)
  obtain ⟨m'', h2, _, i2, r2, c2⟩ := inv_undo crT.toNZ s1 m5_sinv.hyg (by decide) canon20 (T.leaf 9) (leafT_nz 9)
  refine ⟨m', m'', h1, h2, i2, r2, (c2 _).2 (Or.inr (by decide)), (c2 _).2 (Or.inr (by decide)), ?_⟩
  cases hh : m''.hasCached (T.leaf 5) with
  | false => rfl
  | true =>
    rcases (c2 _).1 hh with h | h
    · exact absurd (show T.leaf 5 ∈ [T.leaf 5, T.leaf 6, T.leaf 7] by decide) h.2
    · exact absurd h (by decide)

/-- `ReachU` with an `Undo`: a block is applied to the empty forest and undone again -/
example : ∃ m, ReachU (T.leaf 9) m (Forest.empty : Forest T) [] := by
  obtain ⟨_, hprog⟩ := C09_reach (H := T) crT.toNZ (T.leaf 9) (leafT_nz 9)
  obtain ⟨_, _, hm, _⟩ := hprog _ _ _ ReachU.new
  have hc : (Forest.empty : Forest T).canon [] = some ([], []) := by decide +kernel
  have hfr : ∀ a ∈ [(⟨T.leaf 0, true⟩ : Leaf T), ⟨T.leaf 1, false⟩, ⟨T.leaf 2, true⟩],
      a.hash ≠ Hasher.zero ∧ a.hash ∉ (Forest.empty : Forest T).liveLeaves ∧ ∀ u v : T, a.hash ≠ Hasher.ph u v := by
    intro a ha
    simp only [List.mem_cons, List.mem_nil_iff, or_false] at ha
    rcases ha with rfl | rfl | rfl <;> exact ⟨leafT_nz _, by decide, leafT_nph _⟩
  obtain ⟨m', h⟩ := hm [⟨T.leaf 0, true⟩, ⟨T.leaf 1, false⟩, ⟨T.leaf 2, true⟩] [] [] [] (by simp) (by simp) hc hfr
    (by decide) (by decide)
  have r1 := ReachU.modify (nonZero := T.leaf 9) _ _ _ _ ReachU.new (by simp) (by simp) hc hfr (by decide) (by decide) h
  obtain ⟨_, _, _, hu⟩ := hprog _ _ _ r1
  obtain ⟨m'', h2⟩ := hu _ _ rfl
  exact ⟨m'', ReachU.undo _ r1 h2⟩

/-- the open `C01_full_statement` on a concrete run: a full forest after a block adding leaves
0, 1, 2 has the specification's roots -/
example : (MapPollard.modify [⟨T.leaf 0, false⟩, ⟨T.leaf 1, false⟩, ⟨T.leaf 2, true⟩] [] []
      (MapPollard.new true : MapPollard T)).1.roots =
    (Forest.empty.modify ([] : List T) [T.leaf 0, T.leaf 1, T.leaf 2]).roots := by decide +kernel

end Example2

/-! ### FINDING: the full statement `Props.C09.C09_statement` is false

`Reach.fromRoots` admits ANY forest.  If a live leaf carries the hash of an inner node (the
hash function does not separate leaves from inner nodes), `removeSingle` / `moveUpChild` — which
look up the hash of every node they move in `CachedLeaves` — re-point the cached LEAF to the
moved INNER node.  Witness: 8 leaves, leaf 4 = `ph (leaf 0) (leaf 1)`; `Verify(remember)` of
leaves 2, 3, 4; then the block deleting leaves 2, 3 lifts the node above leaves 0, 1 to row 2.
The same run on the Go code (`/repo`, `NewMapPollardFromRoots` + `Verify(…, true)` + `Modify`)
gives `GetLeafPosition(X) = 12` instead of 4 and `Prove(X)` fails.  With leaf hygiene (`Hyg`:
no live leaf is a parent hash — what `Reach.modify` demands of additions) the invariant IS
preserved: `C09_reach_all_but_undo`. -/

namespace Finding
open Props.C09 Props.C09.Example MapSInv.Example


theorem ok_of_isOk {x : Except Fail Unit}
    (h : (match x with | .ok _ => true | .error _ => false) = true) : x = .ok () := by
  cases x with
  | ok u => rfl
  | error e => simp at h

/-- a leaf hash that is also the hash of an inner node -/
def X : T := T.node (.leaf 0) (.leaf 1)
/-- eight live leaves; the fifth one carries the hash of the node above the first two -/
def F8 : Forest T := ⟨[some (.leaf 0), some (.leaf 1), some (.leaf 2), some (.leaf 3), some X, some (.leaf 5), some (.leaf 6), some (.leaf 7)]⟩
def m0 : MapPollard T := match MapPollard.fromRoots F8.roots 8#64 false with | .ok m => m | .error _ => MapPollard.new false
def L1 : List T := [.leaf 2, .leaf 3, X]
def ts1 : List Pos := [(0, 2), (0, 3), (0, 4)]
def ps1 : List T := [.leaf 5, T.node (.leaf 0) (.leaf 1), T.node (.leaf 6) (.leaf 7)]
def m1 : MapPollard T := (MapPollard.verifyM L1 (ts1.map (encP F8.rows)) ps1 true m0).1
def L2 : List T := [.leaf 2, .leaf 3]
def ts2 : List Pos := [(0, 2), (0, 3)]
def ps2 : List T := [T.node (.leaf 0) (.leaf 1), T.node (T.node X (.leaf 5)) (T.node (.leaf 6) (.leaf 7))]
def m2 : MapPollard T := (MapPollard.modify [] L2 (ts2.map (encP F8.rows)) m1).1

theorem c1 : F8.canon L1 = some (ts1, ps1) := by decide +kernel
theorem c2 : F8.canon L2 = some (ts2, ps2) := by decide +kernel
theorem e0 : MapPollard.fromRoots F8.roots (BitVec.ofNat 64 F8.numLeaves) false = .ok m0 := by
  obtain ⟨m, hm, _⟩ := inv_fromRoots F8 (by decide)
  have : m0 = m := by
    unfold m0
    rw [show (8#64) = BitVec.ofNat 64 F8.numLeaves from rfl, hm]
  rw [this]; exact hm
theorem pair_ok {α : Type} (p : α × Except Fail Unit)
    (h : (match p.2 with | .ok _ => true | .error _ => false) = true) : p = (p.1, .ok ()) := by
  obtain ⟨a, b⟩ := p
  simp only at h ⊢
  rw [ok_of_isOk h]
theorem e1 : MapPollard.verifyM L1 (ts1.map (encP F8.rows)) ps1 true m0 = (m1, .ok ()) :=
  pair_ok (MapPollard.verifyM L1 (ts1.map (encP F8.rows)) ps1 true m0) (by decide +kernel)
theorem e2 : MapPollard.modify [] L2 (ts2.map (encP F8.rows)) m1 = (m2, .ok ()) :=
  pair_ok (MapPollard.modify [] L2 (ts2.map (encP F8.rows)) m1) (by decide +kernel)
theorem cachedX : m2.getCached X = some 0xc000000000000000#64 := by decide +kernel
theorem posX : (F8.modify L2 (([] : List (Leaf T)).map (·.hash))).posOf X = some (0, 4) := by decide +kernel
theorem cached1 : ∀ x ∈ L2, m1.hasCached x = true := by decide +kernel
theorem totalRows2 : m2.totalRows.toNat = 63 := by decide +kernel

/-- **`Props.C09.C09_statement` is FALSE** (for the term-algebra hasher, which is collision-free):
`Reach.fromRoots` admits a forest in which a live leaf carries the hash of an inner node; after
`Verify(remember)` of that leaf and a block that lifts the inner node, `CachedLeaves` maps the leaf
to the inner node's new position (`removeSingle` looks the moved node's hash up in the cache). -/
theorem C09_fails_leaf_is_node : ¬ C09_statement T := by
  intro h
  obtain ⟨h1, _⟩ := h crT (T.leaf 0) (by simp only [Hasher.zero]; intro e; cases e)
  have r0 : Reach (T.leaf 0) m0 F8 [] := Reach.fromRoots F8 m0 (by decide) e0
  have r1 : Reach (T.leaf 0) m1 F8 [] := Reach.verify L1 ts1 ps1 r0 (by decide) c1 e1
  have r2 := Reach.modify (nonZero := T.leaf 0) [] L2 ts2 ps2 r1 cached1 (by decide) c2 (by simp) (by simp)
    (by decide) e2
  obtain ⟨_, inv⟩ := h1 _ _ _ r2
  obtain ⟨t, ht, hp⟩ := inv.cached_pos X _ cachedX
  rw [posX] at ht
  simp only [Option.some.injEq] at ht
  subst ht
  rw [totalRows2] at hp
  revert hp
  decide +kernel

end Finding

end UtreexoVerif.Props.C09b
