/-
  C14 (specification level) — `AddProof` is exact.

  `addProof_refines`: two proofs over the same labelling `val` of the forest's positions —
  proof hashes `val` at `Spec.Forest.proofPositions`, target hashes `val` at the targets, targets
  in ANY order — are combined by `AddProof` into: targets = the union, ascending; hashes
  parallel to them; proof hashes = `val` at `Spec.Forest.proofPositions (union)`, i.e. the
  canonical proof of the union — provided the two target sets and their union satisfy the
  hypotheses of `proofPositions_spec` (`PPHyp`: nodes of the forest, none an ancestor of
  another; true of every set of leaves).  With `val p = (F.nodeAt p).get` this is the body of
  `C14_addProof_statement`; what is missing for that statement itself is the lemma that leaf
  positions satisfy `PPHyp`.
-/
import UtreexoVerif.Props.C14b

namespace UtreexoVerif.Props.C14
open UtreexoVerif Model Spec Spec.Forest Proofs Proofs.ProofOps Props.C16

/-! ### the canonical proof positions of a union -/

section spec
variable {Hh : Type} (F : Forest Hh) {A B U : List Pos}

theorem inP_union (hU : ∀ p, p ∈ U ↔ p ∈ A ∨ p ∈ B) (x : Pos) :
    InP F.numLeaves U x ↔ InP F.numLeaves A x ∨ InP F.numLeaves B x := by
  constructor
  · rintro ⟨t, ht, R, hb, ha, hp⟩
    rcases (hU t).mp ht with h | h
    · exact Or.inl ⟨t, h, R, hb, ha, hp⟩
    · exact Or.inr ⟨t, h, R, hb, ha, hp⟩
  · rintro (⟨t, ht, R, hb, ha, hp⟩ | ⟨t, ht, R, hb, ha, hp⟩)
    · exact ⟨t, (hU t).mpr (Or.inl ht), R, hb, ha, hp⟩
    · exact ⟨t, (hU t).mpr (Or.inr ht), R, hb, ha, hp⟩

/-- on a path of `Tg`: a target itself or a computable position -/
theorem inP_iff_target_or_comp {Tg : List Pos} (hyp : PPHyp F.numLeaves Tg) (q : Pos) :
    InP F.numLeaves Tg q ↔ q ∈ Tg ∨ q ∈ F.computable Tg := by
  rw [mem_spec_computable F hyp, isComp_iff F hyp]
  constructor
  · rintro ⟨t, ht, R, hb, ha, hp⟩
    by_cases e : q.1 = t.1
    · left; rw [ha.eq_of_row e]; exact ht
    · right; exact ⟨t, ht, R, hb, ha, by have := ha.1; omega, hp⟩
  · rintro (h | ⟨t, ht, R, hb, ha, _, hp⟩)
    · exact InP.self hyp h
    · exact ⟨t, ht, R, hb, ha, hp⟩

/-- **The canonical proof positions of a union**: the proof positions of either part that are
neither targets nor computable from either part. -/
theorem mem_proofPositions_union (hA : PPHyp F.numLeaves A) (hB : PPHyp F.numLeaves B)
    (hUh : PPHyp F.numLeaves U) (hU : ∀ p, p ∈ U ↔ p ∈ A ∨ p ∈ B) (q : Pos) :
    q ∈ F.proofPositions U ↔
      (q ∈ F.proofPositions A ∨ q ∈ F.proofPositions B) ∧
      q ∉ F.computable A ∧ q ∉ F.computable B ∧ q ∉ A ∧ q ∉ B := by
  rw [mem_spec_proofPositions F hUh, mem_spec_proofPositions F hA, mem_spec_proofPositions F hB]
  have key : ¬ InP F.numLeaves U q ↔
      (q ∉ F.computable A ∧ q ∉ F.computable B ∧ q ∉ A ∧ q ∉ B) := by
    rw [inP_union F hU, inP_iff_target_or_comp F hA, inP_iff_target_or_comp F hB]
    constructor
    · intro h
      exact ⟨fun x => h (Or.inl (Or.inr x)), fun x => h (Or.inr (Or.inr x)),
        fun x => h (Or.inl (Or.inl x)), fun x => h (Or.inr (Or.inl x))⟩
    · rintro ⟨h1, h2, h3, h4⟩ ((h | h) | (h | h))
      · exact h3 h
      · exact h1 h
      · exact h4 h
      · exact h2 h
  constructor
  · rintro ⟨x, hx, hr, rfl, hq⟩
    refine ⟨?_, key.mp hq⟩
    have hq' := hq
    rw [inP_union F hU] at hq'
    rcases (inP_union F hU x).mp hx with h | h
    · exact Or.inl ⟨x, h, hr, rfl, fun c => hq' (Or.inl c)⟩
    · exact Or.inr ⟨x, h, hr, rfl, fun c => hq' (Or.inr c)⟩
  · rintro ⟨h | h, hrest⟩
    · obtain ⟨x, hx, hr, rfl, _⟩ := h
      exact ⟨x, (inP_union F hU x).mpr (Or.inl hx), hr, rfl, key.mpr hrest⟩
    · obtain ⟨x, hx, hr, rfl, _⟩ := h
      exact ⟨x, (inP_union F hU x).mpr (Or.inr hx), hr, rfl, key.mpr hrest⟩

end spec

/-! ### a `hashAndPos` over a labelling is determined by its positions -/

section labelled
variable {H : Type} {h : Nat}

/-- every element is `(enc p, val p)` for a valid `p`, and the positions are those of `U` in
order: the list is `U` labelled -/
theorem labelled_eq (hh : h ≤ 63) (val : Pos → H) : ∀ (U : List Pos) (c : HP H),
    (∀ p ∈ U, ValidH h p) →
    (∀ x ∈ c, ∃ p, ValidH h p ∧ x = (encP h p, val p)) →
    c.positions = U.map (encP h) →
    c = U.map (fun p => (encP h p, val p))
  | [], c, _, _, hpos => by
    cases c with
    | nil => rfl
    | cons x xs => simp [HP.positions] at hpos
  | u :: U, c, hv, hc, hpos => by
    cases c with
    | nil => simp [HP.positions] at hpos
    | cons x xs =>
      simp only [HP.positions, List.map_cons, List.cons.injEq] at hpos
      obtain ⟨p, hp, rfl⟩ := hc x (List.mem_cons_self ..)
      have e := encP_inj hh hp (hv u (List.mem_cons_self ..)) hpos.1
      subst e
      rw [labelled_eq hh val U xs (fun q hq => hv q (List.mem_cons_of_mem _ hq))
        (fun y hy => hc y (List.mem_cons_of_mem _ hy)) hpos.2]
      rfl

theorem zip_map_labelled (val : Pos → H) (l : List Pos) :
    (l.map (encP h)).zip (l.map val) = l.map (fun p => (encP h p, val p)) := by
  induction l with
  | nil => rfl
  | cons x xs ih => simp [ih]

end labelled

/-! ### AddProof -/

theorem ssorted_proofPositions {Hh : Type} (F : Forest Hh) (Tg : List Pos) : SSorted (F.proofPositions Tg) := by
  unfold Forest.proofPositions
  exact sortDedup_ssorted _

theorem ssorted_computable {Hh : Type} (F : Forest Hh) (Tg : List Pos) : SSorted (F.computable Tg) := by
  unfold Forest.computable
  exact sortDedup_ssorted _

section
variable {Hh : Type} (F : Forest Hh) {H : Type} [DecidableEq H] [Hasher H] {h : Nat}

/-- **`AddProof` is exact** (see the header). -/
theorem addProof_refines (n : U64) (hn : n.toNat = F.numLeaves) (hT : TreeRows n = H8 h) (hh : h ≤ 63)
    (val : Pos → H) (A B : List Pos)
    (hA : PPHyp F.numLeaves (sortPos A)) (hB : PPHyp F.numLeaves (sortPos B))
    (hU : PPHyp F.numLeaves (sortDedup (A ++ B))) :
    addProof n (A.map (encP h)) ((F.proofPositions (sortPos A)).map val) (A.map val)
        (B.map (encP h)) ((F.proofPositions (sortPos B)).map val) (B.map val) =
      .ok ((sortDedup (A ++ B)).map val, (sortDedup (A ++ B)).map (encP h),
           (F.proofPositions (sortDedup (A ++ B))).map val) := by
  have hle : F.numLeaves ≤ 2 ^ h := by rw [← hn]; exact le_of_treeRows n hT hh
  have hvSA := valid_targets F hle hA
  have hvSB := valid_targets F hle hB
  have hvA : ∀ p ∈ A, ValidH h p := fun p hp => hvSA p (mem_sortPos.mpr hp)
  have hvB : ∀ p ∈ B, ValidH h p := fun p hp => hvSB p (mem_sortPos.mpr hp)
  have hvU := valid_targets F hle hU
  have hvPA := valid_proofPositions F hle hA
  have hvPB := valid_proofPositions F hle hB
  have hvPU := valid_proofPositions F hle hU
  have hvCA := valid_computable F hle hA
  have hvCB := valid_computable F hle hB
  have eA : sortU64 (A.map (encP h)) = (sortPos A).map (encP h) := sortU64_encP hh A hvA
  have eB : sortU64 (B.map (encP h)) = (sortPos B).map (encP h) := sortU64_encP hh B hvB
  have ppA := proofPositions_spec F n hn hT hh (Nat.le_refl h) _ hA
  have ppB := proofPositions_spec F n hn hT hh (Nat.le_refl h) _ hB
  have hUmem : ∀ p, p ∈ sortDedup (A ++ B) ↔ p ∈ sortPos A ∨ p ∈ sortPos B := by
    intro p
    rw [Proofs.mem_sortDedup, List.mem_append, mem_sortPos, mem_sortPos]
  -- consistency of the lengths
  have hc : AddProofConsistent n (A.map (encP h)) ((F.proofPositions (sortPos A)).map val) (A.map val)
      (B.map (encP h)) ((F.proofPositions (sortPos B)).map val) (B.map val) := by
    refine ⟨by simp, by simp, ?_, ?_⟩
    · rw [eA, hT, ppA]; simp
    · rw [eB, hT, ppB]; simp
  rw [addProof_closed_form n _ _ _ _ _ _ hc]
  rw [eA, eB, hT, ppA, ppB]
  simp only
  -- the targets
  have hsA := strict_map_encP hh _ hA.sorted hvSA
  have hsB := strict_map_encP hh _ hB.sorted hvSB
  have hsU := strict_map_encP hh _ hU.sorted hvU
  have eT : mergeU64 ((sortPos A).map (encP h)) ((sortPos B).map (encP h)) =
      (sortDedup (A ++ B)).map (encP h) := by
    apply eq_of_strict_of_mem_iff _ _ (strict_mergeU64 _ _ hsA hsB) hsU
    intro x
    rw [mem_mergeU64]
    simp only [List.mem_map, hUmem]
    constructor
    · rintro (⟨p, hp, rfl⟩ | ⟨p, hp, rfl⟩)
      · exact ⟨p, Or.inl hp, rfl⟩
      · exact ⟨p, Or.inr hp, rfl⟩
    · rintro ⟨p, hp | hp, rfl⟩
      · exact Or.inl ⟨p, hp, rfl⟩
      · exact Or.inr ⟨p, hp, rfl⟩
  rw [eT]
  -- the cached hashes
  have eH : mergeHP (sortHP ((A.map (encP h)).zip (A.map val))) (sortHP ((B.map (encP h)).zip (B.map val))) =
      (sortDedup (A ++ B)).map (fun p => (encP h p, val p)) := by
    apply labelled_eq hh val _ _ hvU
    · intro x hx
      rcases mem_mergeHP _ _ x hx with hx | hx
      · have := (mem_sortBy _ x _).mp hx
        rw [zip_map_labelled] at this
        obtain ⟨p, hp, rfl⟩ := List.mem_map.mp this
        exact ⟨p, hvA p hp, rfl⟩
      · have := (mem_sortBy _ x _).mp hx
        rw [zip_map_labelled] at this
        obtain ⟨p, hp, rfl⟩ := List.mem_map.mp this
        exact ⟨p, hvB p hp, rfl⟩
    · rw [mergeHP_positions, sortHP_positions, sortHP_positions, zip_positions _ _ (by simp),
        zip_positions _ _ (by simp), eA, eB, eT]
  rw [eH]
  -- the proof hashes
  have hsPA := strict_map_encP hh _ (ssorted_proofPositions F (sortPos A)) hvPA
  have hsPB := strict_map_encP hh _ (ssorted_proofPositions F (sortPos B)) hvPB
  have hsCA := le_of_strict (strict_map_encP hh _ (ssorted_computable F (sortPos A)) hvCA)
  have hsCB := le_of_strict (strict_map_encP hh _ (ssorted_computable F (sortPos B)) hvCB)
  have eP : subtractHP (subtractHP
        (mergeHP (((F.proofPositions (sortPos A)).map (encP h)).zip ((F.proofPositions (sortPos A)).map val))
                 (((F.proofPositions (sortPos B)).map (encP h)).zip ((F.proofPositions (sortPos B)).map val)))
        (mergeU64 ((F.computable (sortPos A)).map (encP h)) ((F.computable (sortPos B)).map (encP h))))
        ((sortDedup (A ++ B)).map (encP h)) =
      (F.proofPositions (sortDedup (A ++ B))).map (fun p => (encP h p, val p)) := by
    apply labelled_eq hh val _ _ hvPU
    · intro x hx
      have h1 := (subtractBy_sublist (fun (y : U64 × H) => y.1) _ _).subset hx
      have h2 := (subtractBy_sublist (fun (y : U64 × H) => y.1) _ _).subset h1
      rcases mem_mergeHP _ _ x h2 with hx | hx
      · rw [zip_map_labelled] at hx
        obtain ⟨p, hp, rfl⟩ := List.mem_map.mp hx
        exact ⟨p, hvPA p hp, rfl⟩
      · rw [zip_map_labelled] at hx
        obtain ⟨p, hp, rfl⟩ := List.mem_map.mp hx
        exact ⟨p, hvPB p hp, rfl⟩
    · rw [subtractHP_positions, subtractHP_positions, mergeHP_positions, zip_positions _ _ (by simp),
        zip_positions _ _ (by simp)]
      have hm := strict_mergeU64 _ _ hsPA hsPB
      apply eq_of_strict_of_mem_iff
      · exact (hm.sublist (subtractU64_sublist _ _)).sublist (subtractU64_sublist _ _)
      · exact strict_map_encP hh _ (ssorted_proofPositions F _) hvPU
      · intro x
        rw [mem_subtractU64_iff _ _ (hm.sublist (subtractU64_sublist _ _)) (le_of_strict hsU),
          mem_subtractU64_iff _ _ hm (sorted_mergeU64 _ _ hsCA hsCB), mem_mergeU64, mem_mergeU64]
        simp only [List.mem_map]
        constructor
        · rintro ⟨⟨hx, hnc⟩, hnt⟩
          have main : ∀ p, (p ∈ F.proofPositions (sortPos A) ∨ p ∈ F.proofPositions (sortPos B)) → ValidH h p →
              x = encP h p → ∃ a, a ∈ F.proofPositions (sortDedup (A ++ B)) ∧ encP h a = x := by
            intro p hp hv e
            refine ⟨p, ?_, e.symm⟩
            rw [mem_proofPositions_union F hA hB hU hUmem]
            refine ⟨hp, ?_, ?_, ?_, ?_⟩
            · intro hc'; exact hnc (Or.inl ⟨p, hc', e.symm⟩)
            · intro hc'; exact hnc (Or.inr ⟨p, hc', e.symm⟩)
            · intro ht; exact hnt ⟨p, (hUmem p).mpr (Or.inl ht), e.symm⟩
            · intro ht; exact hnt ⟨p, (hUmem p).mpr (Or.inr ht), e.symm⟩
          rcases hx with ⟨p, hp, rfl⟩ | ⟨p, hp, rfl⟩
          · exact main p (Or.inl hp) (hvPA p hp) rfl
          · exact main p (Or.inr hp) (hvPB p hp) rfl
        · rintro ⟨p, hp, rfl⟩
          obtain ⟨hpp, hc1, hc2, ht1, ht2⟩ := (mem_proofPositions_union F hA hB hU hUmem p).mp hp
          have hvp := hvPU p hp
          refine ⟨⟨?_, ?_⟩, ?_⟩
          · rcases hpp with h1 | h1
            · exact Or.inl ⟨p, h1, rfl⟩
            · exact Or.inr ⟨p, h1, rfl⟩
          · rintro (⟨q, hq, e⟩ | ⟨q, hq, e⟩)
            · rw [encP_inj hh (hvCA q hq) hvp e] at hq; exact hc1 hq
            · rw [encP_inj hh (hvCB q hq) hvp e] at hq; exact hc2 hq
          · rintro ⟨q, hq, e⟩
            rw [encP_inj hh (hvU q hq) hvp e] at hq
            rcases (hUmem p).mp hq with h1 | h1
            · exact ht1 h1
            · exact ht2 h1
  rw [eP]
  simp [HP.hashes, List.map_map, Function.comp_def]

end


/-! ## Non-vacuity -/

section examples

theorem F4u_hyp2 : PPHyp F4u.numLeaves (sortDedup ([(0, 2)] ++ [(0, 0)])) where
  inForest := by
    intro t ht
    have : t = (0, 0) ∨ t = (0, 2) := by
      have h2 : sortDedup ([(0, 2)] ++ [(0, 0)]) = [(0, 0), (0, 2)] := by decide
      rw [h2] at ht
      simpa using ht
    rcases this with rfl | rfl
    · exact ⟨2, by decide, by decide, by decide⟩
    · exact ⟨2, by decide, by decide, by decide⟩
  sorted := sortDedup_ssorted _
  anti := by
    intro a ha b hb hab
    have h2 : sortDedup ([(0, 2)] ++ [(0, 0)]) = [(0, 0), (0, 2)] := by decide
    rw [h2] at ha hb
    simp only [List.mem_cons, List.not_mem_nil, or_false] at ha hb
    rcases ha with rfl | rfl <;> rcases hb with rfl | rfl
    · rfl
    · exact absurd hab.2 (by decide)
    · exact absurd hab.2 (by decide)
    · rfl

/-- the labelling of the 4-leaf forest with leaves `1 2 3 4` over the term algebra -/
def val4 : Pos → T
  | (0, o) => T.leaf (o + 1)
  | (1, 0) => T.node (T.leaf 1) (T.leaf 2)
  | (1, _) => T.node (T.leaf 3) (T.leaf 4)
  | _ => T.leaf 99

open T in
/-- the theorem applied: proofs of leaf 3 (position 2) and of leaf 1 (position 0) combine to the
proof `[leaf 2, leaf 4]` of both -/
example : addProof (H := T) 4#64 [2#64] [leaf 4, node (leaf 1) (leaf 2)] [leaf 3]
    [0#64] [leaf 2, node (leaf 3) (leaf 4)] [leaf 1] =
    .ok ([leaf 1, leaf 3], [0#64, 2#64], [leaf 2, leaf 4]) := by
  have := addProof_refines F4u (h := 2) (H := T) 4#64 (by decide) (by decide) (by decide) val4 [(0, 2)] [(0, 0)]
    (F4u_hyp _ (Or.inr rfl)) (F4u_hyp _ (Or.inl rfl)) F4u_hyp2
  have e1 : F4u.proofPositions (sortPos [(0, 2)]) = [(0, 3), (1, 0)] := by decide
  have e2 : F4u.proofPositions (sortPos [(0, 0)]) = [(0, 1), (1, 1)] := by decide
  have e3 : sortDedup ([(0, 2)] ++ [(0, 0)]) = [(0, 0), (0, 2)] := by decide
  have e4 : F4u.proofPositions [(0, 0), (0, 2)] = [(0, 1), (0, 3)] := by decide
  rw [e1, e2, e3, e4] at this
  exact this

end examples

end UtreexoVerif.Props.C14
