/-
  C08 — undoing a cached proof yields a canonical proof for the previous state: the REPAIRED
  `Proof.undoAdd` (fix of the two recorded defects `C08.undo.emptyRootsOverwritten` and
  `C08.undo.toEmpty`), proved in full.

  "After a cached proof has been updated for a block and is then undone with that block's data, it
  is a canonical, verifying proof against the pre-block verifier state for exactly those of its
  leaves that already existed before the block.  It never contains a leaf the undone block added,
  never invents a leaf, and - apart from leaves the block itself deleted, which are documented as
  not restored - never loses a leaf that is live both before and after the block."

  Model: `Model/ProofUpdate.lean`, `proofUndo` = `proofUndoAdd` then `proofUndoDel`, transliterated
  from the repaired prove.go `Proof.Undo`: `undoAdd` now walks through `ToDestroy` backwards and
  moves every target and proof position down with `moveDownPositions` (the inverse of the
  `getNewPositions` walk of `updateProofAdd`), no longer prunes "everything in the tree of a
  destroyed root", sorts the moved positions, and `pruneEdges` keeps nothing for an empty previous
  forest.  (`Props/C08.lean` is about the code BEFORE the repair — `proofUndoOld` —, of which the
  statement is false: `C08.C08_fails_emptyRootsOverwritten`, `C08.C08_fails_toEmpty`.)

  * `C08_statement` — the full statement (the text of `Props/C08.lean`, for `proofUndo`): for every
    valid block on `F` (deleting `D`, adding `adds`; `G = F.modify D adds`; at most `2^63` leaves),
    every duplicate-free list `C'` of live leaves of `G` with its canonical proof, and the update
    data `ud` that `Stump.Update` returns for the block, `proofUndo (canon G C') (block data,
    ud.ToDestroy)` returns, without error, the canonical proof in `F` of a permutation `K` of
    `C' \ adds` (targets ascending) and `K` as the cached hashes.
  * `C08 : C08_statement H` — proved, no side condition.
  * `proofUndoAdd_canonical` (level 1, any destroyed roots, any previous forest), `proofUndo_canonical`
    (level 3); level 2 is `C08.proofUndoDel_canonical`.
  * the clauses of the property text are the corollaries `C08.undone_*` of `Props/C08.lean` (they
    only use the conclusion); `update_then_undo`, `client_history_undo_last`: along histories.
  * `Example`: the two former witnesses, now correct (theorem applied + model evaluated).
  * hypothesis on the hash: `proofUndoAdd_canonical`, `proofUndo_canonical`, `destroySpec_of_addData`
    need only `NZ H` (parent hashes are never the zero hash).  The theorems that go through
    `Stump.Update` exist under `CR H` (`C08`, `update_then_undo`, `client_history_undo_last`; `CR` is
    impossible for a finite hash type) and under `NZ H` + the finite, decidable `NodesDistinct` /
    `DistinctRun` of `Proofs/NodesUnique.lean` (`C08_nd`, `update_then_undo_nd`,
    `client_history_undo_last_nd`; instantiated over a one-byte hash in `Props/NZ.lean`).
-/
import UtreexoVerif.Proofs.ProofUndoAddFix
import UtreexoVerif.Props.C08

namespace UtreexoVerif.Props.C08b
open UtreexoVerif Spec Spec.Forest Hasher Model
open UtreexoVerif.Proofs UtreexoVerif.Proofs.SpecNodes UtreexoVerif.Proofs.SpecSubs
open UtreexoVerif.Proofs.SpecPlan UtreexoVerif.Proofs.CalcComplete
open UtreexoVerif.Proofs.CalcGeo UtreexoVerif.Proofs.Movement
open UtreexoVerif.Proofs.Sorted UtreexoVerif.Proofs.FinalPos
open UtreexoVerif.Proofs.AddMove
open UtreexoVerif.Props.C11 UtreexoVerif.Props.C11del
open UtreexoVerif.Props.C08

section
set_option linter.unusedSectionVars false
variable {H : Type} [DecidableEq H] [Hasher H]

section statement
variable (H : Type) [DecidableEq H] [Hasher H]

/-- **C08, one block, full statement** (for the repaired `Proof.Undo`).  `F`: the accumulator before
the block (at most `2^63` leaves after it; live leaves pairwise distinct, non-zero, not parent
hashes); the block deletes the duplicate-free list `D` with canonical proof `(tgD, hsD)` and adds
`adds` (pairwise distinct, non-zero, not parent hashes, different from every leaf that stays
alive); `ud` is the update data `Stump.Update` returns for the block; the client holds the
canonical proof `(tgG, hsG)`, in the forest after the block, of a duplicate-free list `C'` of live
leaves (any order).  Then `Proof.Undo`, given the block's data, returns without error the canonical
proof in `F` of a permutation `K` of `expectedUndo C' adds`, targets ascending, and `K` as the
cached hashes. -/
def C08_statement : Prop :=
  ∀ (nonZero : H) (F : Forest H) (C' D adds : List H) (tgG tgD : List Pos) (hsG hsD : List H)
    (s' : Stump H) (ud : UpdateData H),
    CR H → nonZero ≠ (zero : H) → F.numLeaves + adds.length ≤ 2 ^ 63 → F.liveLeaves.Nodup →
    (∀ x ∈ F.liveLeaves, x ≠ (zero : H) ∧ ∀ a b : H, x ≠ ph a b) →
    (∀ x ∈ adds, x ≠ (zero : H) ∧ ∀ a b : H, x ≠ ph a b) → adds.Nodup →
    (∀ x ∈ adds, x ∈ F.liveLeaves → x ∈ D) →
    D.Nodup → F.canon D = some (tgD, hsD) →
    C'.Nodup → (F.modify D adds).canon C' = some (tgG, hsG) →
    (C01b.stumpOf F).update nonZero D adds (C01.encTargets F.rows tgD) hsD = .ok (s', ud) →
    ∃ K tg hs, K.Perm (expectedUndo C' adds) ∧ F.canon K = some (tg, hs) ∧
      tg.Pairwise Sorted.PLt ∧
      proofUndo ⟨tgG.map (E (F.modify D adds).rows), hsG⟩ (BitVec.ofNat 64 adds.length)
          (BitVec.ofNat 64 (F.modify D adds).numLeaves) (C01.encTargets F.rows tgD) D C'
          ud.toDestroy (C01.encTargets F.rows tgD) hsD =
        .ok (⟨tg.map (E F.rows), hs⟩, K)

end statement

/-! ### Level 1 -/

/-- **Level 1: the repaired `proofUndoAdd` is the inverse of the addition step**, whatever empty
roots the additions destroyed (`L` = their rows, `ToDestroy` = their positions in the forest after
the additions) and also for an empty forest before them (see `Proofs/ProofUndoAddFix.lean`) -/
theorem proofUndoAdd_canonical {F : Forest H} {adds : List H} (nz : NZ H)
    (hN : F.numLeaves + adds.length ≤ 2 ^ 63)
    (hndG : (F.addMany adds).liveLeaves.Nodup)
    (hleaf : ∀ x ∈ (F.addMany adds).liveLeaves, x ≠ (zero : H) ∧ ∀ a b : H, x ≠ ph a b)
    {L : List Nat} (hL : DestroySpec F.slots adds.length L)
    {C' : List H} {tgG : List Pos} {hsG : List H} (hC' : C'.Nodup)
    (hcG : (F.addMany adds).canon C' = some (tgG, hsG)) :
    ∃ K tgK hsK, K.Perm (expectedUndo C' adds) ∧
      F.canon K = some (tgK, hsK) ∧ tgK.Pairwise Sorted.PLt ∧
      proofUndoAdd ⟨tgG.map (E (F.addMany adds).rows), hsG⟩ (BitVec.ofNat 64 adds.length)
          (BitVec.ofNat 64 (F.addMany adds).numLeaves) C'
          ((destroyedPos F.numLeaves L).map (E (forestRows (F.numLeaves + adds.length)))) =
        .ok (⟨tgK.map (E F.rows), hsK⟩, K) :=
  ProofUndoAddFix.proofUndoAdd_canonical nz hN hndG hleaf hL hC' hcG

/-! ### Level 3: one block -/

/-- **the repaired `Proof.Undo` is canonical** (specification form: `L` lists the rows of the
all-zero roots of the forest after the deletions that the additions merge over, `ToDestroy` their
positions) -/
theorem proofUndo_canonical (nz : NZ H) (F : Forest H) (C' D adds : List H)
    (tgG tgD : List Pos) (hsG hsD : List H)
    (hN : F.numLeaves + adds.length ≤ 2 ^ 63) (hnd : F.liveLeaves.Nodup)
    (hleaf : ∀ x ∈ F.liveLeaves, x ≠ (zero : H) ∧ ∀ a b : H, x ≠ ph a b)
    (hadds : ∀ x ∈ adds, x ≠ (zero : H) ∧ ∀ a b : H, x ≠ ph a b) (haddsnd : adds.Nodup)
    (hnew : ∀ x ∈ adds, x ∈ F.liveLeaves → x ∈ D)
    (hD : D.Nodup) (hcD : F.canon D = some (tgD, hsD))
    (hC' : C'.Nodup) (hcG : (F.modify D adds).canon C' = some (tgG, hsG))
    {L : List Nat} (hL : DestroySpec (F.delLeaves D).slots adds.length L) :
    ∃ K tg hs, K.Perm (expectedUndo C' adds) ∧ F.canon K = some (tg, hs) ∧
      tg.Pairwise Sorted.PLt ∧
      proofUndo ⟨tgG.map (E (F.modify D adds).rows), hsG⟩ (BitVec.ofNat 64 adds.length)
          (BitVec.ofNat 64 (F.modify D adds).numLeaves) (tgD.map (E F.rows)) D C'
          ((destroyedPos F.numLeaves L).map (E (forestRows (F.numLeaves + adds.length))))
          (tgD.map (E F.rows)) hsD =
        .ok (⟨tg.map (E F.rows), hs⟩, K) := by
  have hn : F.numLeaves ≤ 2 ^ 63 := by omega
  obtain ⟨g1, g2⟩ := addMany_delLeaves_ok (dels := D) hnd hleaf hadds haddsnd hnew
  have hn' : (F.delLeaves D).numLeaves = F.numLeaves := delLeaves_numLeaves F D
  have hrows : (F.delLeaves D).rows = F.rows := by unfold Forest.rows; rw [hn']
  obtain ⟨K1, tgK1, hsK1, hperm1, hcK1, hsorted1, hua⟩ :=
    ProofUndoAddFix.proofUndoAdd_canonical (F := F.delLeaves D) nz (by rw [hn']; exact hN) g1 g2 hL
      hC' hcG
  obtain ⟨K, tg, hs, hperm2, hcK, hsorted, hud⟩ :=
    ProofUndoDel.proofUndoDel_canonical hn nz.nonzero (fun l hl => (hleaf l hl).1) hnd hD hcD hcK1
      hsorted1
  refine ⟨K, tg, hs, hperm2.trans hperm1, hcK, hsorted, ?_⟩
  have hnumG : (F.modify D adds).numLeaves = F.numLeaves + adds.length := by
    show ((F.delLeaves D).addMany adds).numLeaves = _
    simp [Forest.addMany, Forest.numLeaves, Forest.delLeaves]
  have hsub : BitVec.ofNat 64 (F.modify D adds).numLeaves - BitVec.ofNat 64 adds.length =
      BitVec.ofNat 64 F.numLeaves := by
    rw [hnumG, BitVec.ofNat_add, BitVec.add_sub_cancel]
  unfold proofUndo
  have hua' : proofUndoAdd ⟨tgG.map (E (F.modify D adds).rows), hsG⟩ (BitVec.ofNat 64 adds.length)
      (BitVec.ofNat 64 (F.modify D adds).numLeaves) C'
      ((destroyedPos F.numLeaves L).map (E (forestRows (F.numLeaves + adds.length)))) =
      .ok (⟨tgK1.map (E F.rows), hsK1⟩, K1) := by
    rw [← hrows, ← hn']; exact hua
  rw [hua']
  simp only [bind, Out.bind, hsub]
  exact hud

/-- the destroyed roots from the update data of `Stump.Update`: their rows satisfy `DestroySpec`
and `ToDestroy` lists their positions in the forest after the additions -/
theorem destroySpec_of_addData (nz : NZ H) {G : Forest H} {adds : List H} {upd : HP H}
    {td : List U64} (hN : G.numLeaves + adds.length ≤ 2 ^ 63)
    (hndG : (G.addMany adds).liveLeaves.Nodup)
    (hleaf : ∀ x ∈ (G.addMany adds).liveLeaves, x ≠ (zero : H) ∧ ∀ a b : H, x ≠ ph a b)
    (hspec : AddDataSpec G adds upd td) :
    ∃ L, DestroySpec G.slots adds.length L ∧
      td = (destroyedPos G.numLeaves L).map (E (forestRows (G.numLeaves + adds.length))) := by
  obtain ⟨_, _, _, L, htd, hLasc, hLmem⟩ := hspec
  refine ⟨L, ProofUpdateAdd.destroySpec_of nz hN hndG hleaf hLasc hLmem, ?_⟩
  rw [htd]
  unfold destroyedPos
  rw [List.map_map]
  rfl

/-- **C08 for one block, in full**, fed by the update data of the verifier-state update -/
theorem C08 : C08_statement H := by
  intro nonZero F C' D adds tgG tgD hsG hsD s' ud cr hnz hN hnd hleaf hadds haddsnd hnew hD hcD hC'
    hcG hupd
  obtain ⟨ud', h1, _, _, h4⟩ := stump_update_data cr nonZero hnz F (C01b.stumpOf F) D adds tgD hsD
    [] rfl rfl hN hnd hleaf hadds haddsnd hnew hD hcD
  rw [List.append_nil, hupd] at h1
  have e : ud = ud' := by
    injection h1 with h1
    exact (Prod.mk.inj h1).2
  subst e
  obtain ⟨g1, g2⟩ := addMany_delLeaves_ok (dels := D) hnd hleaf hadds haddsnd hnew
  have hn' : (F.delLeaves D).numLeaves = F.numLeaves := delLeaves_numLeaves F D
  obtain ⟨L, hL, htd⟩ := destroySpec_of_addData cr.toNZ (by rw [hn']; exact hN) g1 g2 h4
  rw [hn'] at htd
  rw [htd]
  exact proofUndo_canonical cr.toNZ F C' D adds tgG tgD hsG hsD hN hnd hleaf hadds haddsnd hnew hD
    hcD hC' hcG hL

/-- **C08 for one block, in full, without collision-freeness**: `CR H` is replaced by `NZ H`
(parent hashes are never the zero hash) and the FINITE hypothesis `NodesDistinct (F.modify D adds)`
(no non-zero hash sits at two places of the forest after the block; `Proofs/NodesUnique.lean`) -/
theorem C08_nd (nz : NZ H) (nonZero : H) (F : Forest H) (C' D adds : List H) (tgG tgD : List Pos)
    (hsG hsD : List H) (s' : Stump H) (ud : UpdateData H)
    (hnz : nonZero ≠ (zero : H)) (hN : F.numLeaves + adds.length ≤ 2 ^ 63) (hnd : F.liveLeaves.Nodup)
    (hleaf : ∀ x ∈ F.liveLeaves, x ≠ (zero : H) ∧ ∀ a b : H, x ≠ ph a b)
    (hadds : ∀ x ∈ adds, x ≠ (zero : H) ∧ ∀ a b : H, x ≠ ph a b) (haddsnd : adds.Nodup)
    (hnew : ∀ x ∈ adds, x ∈ F.liveLeaves → x ∈ D)
    (hD : D.Nodup) (hcD : F.canon D = some (tgD, hsD))
    (hC' : C'.Nodup) (hcG : (F.modify D adds).canon C' = some (tgG, hsG))
    (hupd : (C01b.stumpOf F).update nonZero D adds (C01.encTargets F.rows tgD) hsD = .ok (s', ud))
    (hd : NodesDistinct (F.modify D adds)) :
    ∃ K tg hs, K.Perm (expectedUndo C' adds) ∧ F.canon K = some (tg, hs) ∧
      tg.Pairwise Sorted.PLt ∧
      proofUndo ⟨tgG.map (E (F.modify D adds).rows), hsG⟩ (BitVec.ofNat 64 adds.length)
          (BitVec.ofNat 64 (F.modify D adds).numLeaves) (C01.encTargets F.rows tgD) D C'
          ud.toDestroy (C01.encTargets F.rows tgD) hsD =
        .ok (⟨tg.map (E F.rows), hs⟩, K) := by
  obtain ⟨ud', h1, _, _, h4⟩ := stump_update_data_nd nz nonZero hnz F (C01b.stumpOf F) D adds tgD hsD
    [] rfl rfl hN hnd (fun x hx => (hleaf x hx).1) (fun x hx => (hadds x hx).1) hD hcD hd
  rw [List.append_nil, hupd] at h1
  have e : ud = ud' := by
    injection h1 with h1
    exact (Prod.mk.inj h1).2
  subst e
  obtain ⟨g1, g2⟩ := addMany_delLeaves_ok (dels := D) hnd hleaf hadds haddsnd hnew
  have hn' : (F.delLeaves D).numLeaves = F.numLeaves := delLeaves_numLeaves F D
  obtain ⟨L, hL, htd⟩ := destroySpec_of_addData nz (by rw [hn']; exact hN) g1 g2 h4
  rw [hn'] at htd
  rw [htd]
  exact proofUndo_canonical nz F C' D adds tgG tgD hsG hsD hN hnd hleaf hadds haddsnd hnew hD
    hcD hC' hcG hL

/-! ### update, then undo -/

/-- **`Proof.Update` followed by `Proof.Undo` with the same block** gives back the canonical proof,
in the accumulator before the block, of the previously cached leaves minus those the block
deleted (every block: also when its additions overwrite empty roots, also on the empty
accumulator) -/
theorem update_then_undo (cr : CR H) (nonZero : H) (hnz : nonZero ≠ (zero : H))
    (F : Forest H) (C D adds : List H) (tgC tgD : List Pos) (hsC hsD : List H)
    (remembers : List Nat)
    (hN : F.numLeaves + adds.length ≤ 2 ^ 63) (hnd : F.liveLeaves.Nodup)
    (hleaf : ∀ x ∈ F.liveLeaves, x ≠ (zero : H) ∧ ∀ a b : H, x ≠ ph a b)
    (hadds : ∀ x ∈ adds, x ≠ (zero : H) ∧ ∀ a b : H, x ≠ ph a b) (haddsnd : adds.Nodup)
    (hnew : ∀ x ∈ adds, x ∈ F.liveLeaves → x ∈ D)
    (hD : D.Nodup) (hcD : F.canon D = some (tgD, hsD))
    (hC : C.Nodup) (hcC : F.canon C = some (tgC, hsC))
    (hrem : remembers.Pairwise (· ≤ ·)) :
    ∃ (ud : UpdateData H) (p' : CProof H) (C' : List H),
      (C01b.stumpOf F).update nonZero D adds (C01.encTargets F.rows tgD) hsD =
        .ok (C01b.stumpOf (F.modify D adds), ud) ∧
      proofUpdate ⟨tgC.map (E F.rows), hsC⟩ C adds (C01.encTargets F.rows tgD) remembers
        (C07.toM ud) = .ok (p', C') ∧
      ∃ K tg hs, K.Perm (C.filter (fun x => decide (x ∉ D))) ∧ F.canon K = some (tg, hs) ∧
        tg.Pairwise Sorted.PLt ∧
        proofUndo p' (BitVec.ofNat 64 adds.length) (BitVec.ofNat 64 (F.modify D adds).numLeaves)
            (C01.encTargets F.rows tgD) D C' ud.toDestroy (C01.encTargets F.rows tgD) hsD =
          .ok (⟨tg.map (E F.rows), hs⟩, K) := by
  obtain ⟨ud, C', tg', hs', h1, h2, h3, h4, h5⟩ := C07.proofUpdate_with_stump cr nonZero hnz F C D
    adds tgC tgD hsC hsD [] remembers hN hnd hleaf hadds haddsnd hnew hD hcD hC hcC hrem
  rw [List.append_nil] at h1
  refine ⟨ud, _, C', h1, h5, ?_⟩
  have hC' : C'.Nodup := by
    have := h4
    rw [ProofUpdateRemove.canon_targets_eq h3, List.pairwise_map] at this
    exact this.imp (fun {x y} hxy e => by rw [e] at hxy; exact PLt.irrefl _ hxy)
  obtain ⟨K, tg, hs, g1, g2, g3, g4⟩ := C08 nonZero F C' D adds tg' tgD hs' hsD _ ud cr hnz hN
    hnd hleaf hadds haddsnd hnew hD hcD hC' h3 h1
  refine ⟨K, tg, hs, g1.trans ?_, g2, g3, g4⟩
  -- the leaves that were not added are the old cached leaves that were not deleted
  have hCl : ∀ x ∈ C, x ∈ F.liveLeaves := fun x hx => C02.canon_live hcC x hx
  unfold expectedUndo
  refine (h2.filter _).trans ?_
  unfold C07.expected
  rw [List.filter_append]
  have e1 : (ProofUpdateAdd.remAdds adds remembers).filter (fun x => decide (x ∉ adds)) = [] := by
    apply List.filter_eq_nil_iff.2
    intro x hx
    simp only [decide_eq_true_eq, Decidable.not_not]
    exact ProofUpdateAdd.remAdds_sub hx
  have e2 : (C.filter (fun x => decide (x ∉ D))).filter (fun x => decide (x ∉ adds)) =
      C.filter (fun x => decide (x ∉ D)) := by
    apply List.filter_eq_self.2
    intro x hx
    obtain ⟨hxC, hxD⟩ := List.mem_filter.1 hx
    simp only [decide_eq_true_eq] at hxD ⊢
    exact fun ha => hxD (hnew x ha (hCl x hxC))
  rw [e1, e2, List.append_nil]

/-- **`Proof.Update` followed by `Proof.Undo` with the same block, without collision-freeness**
(`NZ H` and `NodesDistinct` of the forest after the block) gives back the canonical proof,
in the accumulator before the block, of the previously cached leaves minus those the block
deleted (every block: also when its additions overwrite empty roots, also on the empty
accumulator) -/
theorem update_then_undo_nd (nz : NZ H) (nonZero : H) (hnz : nonZero ≠ (zero : H))
    (F : Forest H) (C D adds : List H) (tgC tgD : List Pos) (hsC hsD : List H)
    (remembers : List Nat)
    (hN : F.numLeaves + adds.length ≤ 2 ^ 63) (hnd : F.liveLeaves.Nodup)
    (hleaf : ∀ x ∈ F.liveLeaves, x ≠ (zero : H) ∧ ∀ a b : H, x ≠ ph a b)
    (hadds : ∀ x ∈ adds, x ≠ (zero : H) ∧ ∀ a b : H, x ≠ ph a b) (haddsnd : adds.Nodup)
    (hnew : ∀ x ∈ adds, x ∈ F.liveLeaves → x ∈ D)
    (hD : D.Nodup) (hcD : F.canon D = some (tgD, hsD))
    (hC : C.Nodup) (hcC : F.canon C = some (tgC, hsC))
    (hrem : remembers.Pairwise (· ≤ ·)) (hd : NodesDistinct (F.modify D adds)) :
    ∃ (ud : UpdateData H) (p' : CProof H) (C' : List H),
      (C01b.stumpOf F).update nonZero D adds (C01.encTargets F.rows tgD) hsD =
        .ok (C01b.stumpOf (F.modify D adds), ud) ∧
      proofUpdate ⟨tgC.map (E F.rows), hsC⟩ C adds (C01.encTargets F.rows tgD) remembers
        (C07.toM ud) = .ok (p', C') ∧
      ∃ K tg hs, K.Perm (C.filter (fun x => decide (x ∉ D))) ∧ F.canon K = some (tg, hs) ∧
        tg.Pairwise Sorted.PLt ∧
        proofUndo p' (BitVec.ofNat 64 adds.length) (BitVec.ofNat 64 (F.modify D adds).numLeaves)
            (C01.encTargets F.rows tgD) D C' ud.toDestroy (C01.encTargets F.rows tgD) hsD =
          .ok (⟨tg.map (E F.rows), hs⟩, K) := by
  obtain ⟨ud, C', tg', hs', h1, h2, h3, h4, h5⟩ := C07.proofUpdate_with_stump_nd nz nonZero hnz F C D
    adds tgC tgD hsC hsD [] remembers hN hnd hleaf hadds haddsnd hnew hD hcD hC hcC hrem hd
  rw [List.append_nil] at h1
  refine ⟨ud, _, C', h1, h5, ?_⟩
  have hC' : C'.Nodup := by
    have := h4
    rw [ProofUpdateRemove.canon_targets_eq h3, List.pairwise_map] at this
    exact this.imp (fun {x y} hxy e => by rw [e] at hxy; exact PLt.irrefl _ hxy)
  obtain ⟨K, tg, hs, g1, g2, g3, g4⟩ := C08_nd nz nonZero F C' D adds tg' tgD hs' hsD _ ud hnz hN
    hnd hleaf hadds haddsnd hnew hD hcD hC' h3 h1 hd
  refine ⟨K, tg, hs, g1.trans ?_, g2, g3, g4⟩
  -- the leaves that were not added are the old cached leaves that were not deleted
  have hCl : ∀ x ∈ C, x ∈ F.liveLeaves := fun x hx => C02.canon_live hcC x hx
  unfold expectedUndo
  refine (h2.filter _).trans ?_
  unfold C07.expected
  rw [List.filter_append]
  have e1 : (ProofUpdateAdd.remAdds adds remembers).filter (fun x => decide (x ∉ adds)) = [] := by
    apply List.filter_eq_nil_iff.2
    intro x hx
    simp only [decide_eq_true_eq, Decidable.not_not]
    exact ProofUpdateAdd.remAdds_sub hx
  have e2 : (C.filter (fun x => decide (x ∉ D))).filter (fun x => decide (x ∉ adds)) =
      C.filter (fun x => decide (x ∉ D)) := by
    apply List.filter_eq_self.2
    intro x hx
    obtain ⟨hxC, hxD⟩ := List.mem_filter.1 hx
    simp only [decide_eq_true_eq] at hxD ⊢
    exact fun ha => hxD (hnew x ha (hCl x hxC))
  rw [e1, e2, List.append_nil]

/-! ### along a valid history: undoing the newest block -/

/-- **C08 along a valid history**: a light client that started from the empty proof and followed
the history `pre ++ [(d, a, r)]` with `Proof.Update`, and then undoes the newest block with that
block's data, holds exactly the canonical proof, in the accumulator before the block, of the leaves
it held before the block minus those the block deleted (every valid history, every block). -/
theorem client_history_undo_last (cr : CR H) (nonZero : H) (hnz : nonZero ≠ (zero : H))
    (pre : List (C07.CBlock H)) (d a : List H) (r : List Nat)
    (v : C01.ValidHistory ((pre ++ [(d, a, r)]).map C07.toBlock))
    (hrem : ∀ b ∈ pre ++ [(d, a, r)], b.2.2.Pairwise (· ≤ ·)) :
    ∃ (tgD : List Pos) (hsD : List H) (ud : UpdateData H) (p' : CProof H) (C' : List H),
      (run Forest.empty (pre.map C07.toBlock)).canon d = some (tgD, hsD) ∧
      (C01b.stumpOf (run Forest.empty (pre.map C07.toBlock))).update nonZero d a
          (C01.encTargets (run Forest.empty (pre.map C07.toBlock)).rows tgD) hsD =
        .ok (C01b.stumpOf (run Forest.empty ((pre ++ [(d, a, r)]).map C07.toBlock)), ud) ∧
      C07.clientRun nonZero Forest.empty (⟨[], []⟩, []) (pre ++ [(d, a, r)]) = some (p', C') ∧
      ∃ K tg hs, K.Perm ((C07.expectedRun [] pre).filter (fun x => decide (x ∉ d))) ∧
        (run Forest.empty (pre.map C07.toBlock)).canon K = some (tg, hs) ∧
        tg.Pairwise Sorted.PLt ∧
        proofUndo p' (BitVec.ofNat 64 a.length)
            (BitVec.ofNat 64 (run Forest.empty ((pre ++ [(d, a, r)]).map C07.toBlock)).numLeaves)
            (C01.encTargets (run Forest.empty (pre.map C07.toBlock)).rows tgD) d C' ud.toDestroy
            (C01.encTargets (run Forest.empty (pre.map C07.toBlock)).rows tgD) hsD =
          .ok (⟨tg.map (E (run Forest.empty (pre.map C07.toBlock)).rows), hs⟩, K) := by
  -- the invariant at the accumulator before the newest block
  have inv0 : C07.Inv (Forest.empty : Forest H) (pre ++ [(d, a, r)]) :=
    { ok := ⟨List.nodup_nil, fun x hx => (by cases hx), v.adds_nodup, fun x _ hx => (by cases hx),
        fun x hx => (v.adds_leaf x hx).1, (by show 0 + _ ≤ _; have := v.small; omega)⟩
      live := v.live
      dnd := v.dels_nodup
      leafF := fun x hx => (by cases hx)
      leafA := fun x hx => (v.adds_leaf x hx).2
      rems := hrem }
  have inv := inv_prefix pre [(d, a, r)] Forest.empty inv0
  generalize hF : run Forest.empty (pre.map C07.toBlock) = F at *
  have hsm := inv.ok.small
  simp only [List.map_cons, List.map_nil, C07.toBlock, allAdds_cons, List.length_append] at hsm
  have hN : F.numLeaves + a.length ≤ 2 ^ 63 := by omega
  have hand := inv.ok.adds_nodup
  simp only [List.map_cons, List.map_nil, C07.toBlock, allAdds_cons] at hand
  have hleaf : ∀ x ∈ F.liveLeaves, x ≠ (zero : H) ∧ ∀ p q : H, x ≠ ph p q :=
    fun x hx => ⟨inv.ok.live_nonzero x hx, inv.leafF x hx⟩
  have hadds : ∀ x ∈ a, x ≠ (zero : H) ∧ ∀ p q : H, x ≠ ph p q := by
    intro x hx
    have hm : x ∈ allAdds ([(d, a, r)].map C07.toBlock) := by
      simp only [List.map_cons, List.map_nil, C07.toBlock, allAdds_cons]
      exact List.mem_append_left _ hx
    exact ⟨inv.ok.adds_nonzero x hm, inv.leafA x hm⟩
  have hnew : ∀ x ∈ a, x ∈ F.liveLeaves → x ∈ d := by
    intro x hx hl
    exact absurd hl (inv.ok.adds_new x (by
      simp only [List.map_cons, List.map_nil, C07.toBlock, allAdds_cons]
      exact List.mem_append_left _ hx))
  have hD : d.Nodup := inv.dnd (d, a) (by simp [C07.toBlock])
  obtain ⟨tgD, hsD, hcD⟩ := C02.canon_defined (L := d) (by omega : F.numLeaves ≤ 2 ^ 63) inv.live.1
  -- the client before the newest block
  have vpre : C01.ValidHistory (pre.map C07.toBlock) := by
    have e : (pre ++ [(d, a, r)]).map C07.toBlock = pre.map C07.toBlock ++ [(d, a)] := by
      simp [C07.toBlock]
    rw [e] at v
    exact C07.validHistory_prefix v
  have invpre : C07.Inv (Forest.empty : Forest H) pre :=
    { ok := ⟨List.nodup_nil, fun x hx => (by cases hx), vpre.adds_nodup, fun x _ hx => (by cases hx),
        fun x hx => (vpre.adds_leaf x hx).1, (by show 0 + _ ≤ _; have := vpre.small; omega)⟩
      live := vpre.live
      dnd := vpre.dels_nodup
      leafF := fun x hx => (by cases hx)
      leafA := fun x hx => (vpre.adds_leaf x hx).2
      rems := fun b hb => hrem b (List.mem_append_left _ hb) }
  obtain ⟨C, tgC, hsC, hrun, hcC, hpermC, hC⟩ := client_from_nodup cr nonZero hnz pre Forest.empty
    [] [] [] [] invpre List.nodup_nil rfl (List.Perm.refl _)
  rw [hF] at hrun hcC
  -- update, then undo
  obtain ⟨ud, p', C', h1, h2, h3⟩ := update_then_undo cr nonZero hnz F C d a tgC tgD hsC hsD r
    hN inv.ok.live_nodup hleaf hadds (List.nodup_append.1 hand).1 hnew hD hcD hC hcC
    (hrem (d, a, r) (by simp))
  have hFG : run Forest.empty ((pre ++ [(d, a, r)]).map C07.toBlock) = F.modify d a := by
    rw [List.map_append, run_append, hF]
    rfl
  refine ⟨tgD, hsD, ud, p', C', hcD, by rw [hFG]; exact h1, ?_, ?_⟩
  · -- the client run over the whole history
    have hrun' : C07.clientRun nonZero Forest.empty (⟨[], []⟩, []) pre =
        some (⟨tgC.map (E F.rows), hsC⟩, C) := hrun
    rw [client_run_append, hrun', hF]
    simp only [Option.bind_some, C07.clientRun, hcD, h1, h2]
  · obtain ⟨K, tg, hs, g1, g2, g3, g4⟩ := h3
    refine ⟨K, tg, hs, g1.trans (hpermC.filter _), g2, g3, ?_⟩
    rw [hFG]
    exact g4

/-- **C08 along a valid history, without collision-freeness** (`NZ H`; every forest reached along
the history has pairwise distinct non-zero node hashes, `DistinctRun`): a light client that started from the empty proof and followed
the history `pre ++ [(d, a, r)]` with `Proof.Update`, and then undoes the newest block with that
block's data, holds exactly the canonical proof, in the accumulator before the block, of the leaves
it held before the block minus those the block deleted (every valid history, every block). -/
theorem client_history_undo_last_nd (nz : NZ H) (nonZero : H) (hnz : nonZero ≠ (zero : H))
    (pre : List (C07.CBlock H)) (d a : List H) (r : List Nat)
    (v : C01.ValidHistory ((pre ++ [(d, a, r)]).map C07.toBlock))
    (hrem : ∀ b ∈ pre ++ [(d, a, r)], b.2.2.Pairwise (· ≤ ·))
    (hdr : DistinctRun Forest.empty ((pre ++ [(d, a, r)]).map C07.toBlock)) :
    ∃ (tgD : List Pos) (hsD : List H) (ud : UpdateData H) (p' : CProof H) (C' : List H),
      (run Forest.empty (pre.map C07.toBlock)).canon d = some (tgD, hsD) ∧
      (C01b.stumpOf (run Forest.empty (pre.map C07.toBlock))).update nonZero d a
          (C01.encTargets (run Forest.empty (pre.map C07.toBlock)).rows tgD) hsD =
        .ok (C01b.stumpOf (run Forest.empty ((pre ++ [(d, a, r)]).map C07.toBlock)), ud) ∧
      C07.clientRun nonZero Forest.empty (⟨[], []⟩, []) (pre ++ [(d, a, r)]) = some (p', C') ∧
      ∃ K tg hs, K.Perm ((C07.expectedRun [] pre).filter (fun x => decide (x ∉ d))) ∧
        (run Forest.empty (pre.map C07.toBlock)).canon K = some (tg, hs) ∧
        tg.Pairwise Sorted.PLt ∧
        proofUndo p' (BitVec.ofNat 64 a.length)
            (BitVec.ofNat 64 (run Forest.empty ((pre ++ [(d, a, r)]).map C07.toBlock)).numLeaves)
            (C01.encTargets (run Forest.empty (pre.map C07.toBlock)).rows tgD) d C' ud.toDestroy
            (C01.encTargets (run Forest.empty (pre.map C07.toBlock)).rows tgD) hsD =
          .ok (⟨tg.map (E (run Forest.empty (pre.map C07.toBlock)).rows), hs⟩, K) := by
  -- the invariant at the accumulator before the newest block
  have inv0 : C07.Inv (Forest.empty : Forest H) (pre ++ [(d, a, r)]) :=
    { ok := ⟨List.nodup_nil, fun x hx => (by cases hx), v.adds_nodup, fun x _ hx => (by cases hx),
        fun x hx => (v.adds_leaf x hx).1, (by show 0 + _ ≤ _; have := v.small; omega)⟩
      live := v.live
      dnd := v.dels_nodup
      leafF := fun x hx => (by cases hx)
      leafA := fun x hx => (v.adds_leaf x hx).2
      rems := hrem }
  have inv := inv_prefix pre [(d, a, r)] Forest.empty inv0
  rw [List.map_append] at hdr
  obtain ⟨hdr1, hdr2⟩ := distinctRun_append.1 hdr
  generalize hF : run Forest.empty (pre.map C07.toBlock) = F at *
  have hsm := inv.ok.small
  simp only [List.map_cons, List.map_nil, C07.toBlock, allAdds_cons, List.length_append] at hsm
  have hN : F.numLeaves + a.length ≤ 2 ^ 63 := by omega
  have hand := inv.ok.adds_nodup
  simp only [List.map_cons, List.map_nil, C07.toBlock, allAdds_cons] at hand
  have hleaf : ∀ x ∈ F.liveLeaves, x ≠ (zero : H) ∧ ∀ p q : H, x ≠ ph p q :=
    fun x hx => ⟨inv.ok.live_nonzero x hx, inv.leafF x hx⟩
  have hadds : ∀ x ∈ a, x ≠ (zero : H) ∧ ∀ p q : H, x ≠ ph p q := by
    intro x hx
    have hm : x ∈ allAdds ([(d, a, r)].map C07.toBlock) := by
      simp only [List.map_cons, List.map_nil, C07.toBlock, allAdds_cons]
      exact List.mem_append_left _ hx
    exact ⟨inv.ok.adds_nonzero x hm, inv.leafA x hm⟩
  have hnew : ∀ x ∈ a, x ∈ F.liveLeaves → x ∈ d := by
    intro x hx hl
    exact absurd hl (inv.ok.adds_new x (by
      simp only [List.map_cons, List.map_nil, C07.toBlock, allAdds_cons]
      exact List.mem_append_left _ hx))
  have hD : d.Nodup := inv.dnd (d, a) (by simp [C07.toBlock])
  obtain ⟨tgD, hsD, hcD⟩ := C02.canon_defined (L := d) (by omega : F.numLeaves ≤ 2 ^ 63) inv.live.1
  -- the client before the newest block
  have vpre : C01.ValidHistory (pre.map C07.toBlock) := by
    have e : (pre ++ [(d, a, r)]).map C07.toBlock = pre.map C07.toBlock ++ [(d, a)] := by
      simp [C07.toBlock]
    rw [e] at v
    exact C07.validHistory_prefix v
  have invpre : C07.Inv (Forest.empty : Forest H) pre :=
    { ok := ⟨List.nodup_nil, fun x hx => (by cases hx), vpre.adds_nodup, fun x _ hx => (by cases hx),
        fun x hx => (vpre.adds_leaf x hx).1, (by show 0 + _ ≤ _; have := vpre.small; omega)⟩
      live := vpre.live
      dnd := vpre.dels_nodup
      leafF := fun x hx => (by cases hx)
      leafA := fun x hx => (vpre.adds_leaf x hx).2
      rems := fun b hb => hrem b (List.mem_append_left _ hb) }
  obtain ⟨C, tgC, hsC, hrun, hcC, hpermC, hC⟩ := client_from_nodup_nd nz nonZero hnz pre Forest.empty
    [] [] [] [] invpre hdr1 List.nodup_nil rfl (List.Perm.refl _)
  rw [hF] at hrun hcC
  -- update, then undo
  obtain ⟨ud, p', C', h1, h2, h3⟩ := update_then_undo_nd nz nonZero hnz F C d a tgC tgD hsC hsD r
    hN inv.ok.live_nodup hleaf hadds (List.nodup_append.1 hand).1 hnew hD hcD hC hcC
    (hrem (d, a, r) (by simp)) hdr2.1
  have hFG : run Forest.empty ((pre ++ [(d, a, r)]).map C07.toBlock) = F.modify d a := by
    rw [List.map_append, run_append, hF]
    rfl
  refine ⟨tgD, hsD, ud, p', C', hcD, by rw [hFG]; exact h1, ?_, ?_⟩
  · -- the client run over the whole history
    have hrun' : C07.clientRun nonZero Forest.empty (⟨[], []⟩, []) pre =
        some (⟨tgC.map (E F.rows), hsC⟩, C) := hrun
    rw [client_run_append, hrun', hF]
    simp only [Option.bind_some, C07.clientRun, hcD, h1, h2]
  · obtain ⟨K, tg, hs, g1, g2, g3, g4⟩ := h3
    refine ⟨K, tg, hs, g1.trans (hpermC.filter _), g2, g3, ?_⟩
    rw [hFG]
    exact g4

/-! ### non-vacuity: the two former defect witnesses, now correct -/

namespace Example
open UtreexoVerif.Props.C01 UtreexoVerif.Props.C01.Example UtreexoVerif.Props.C11.Example
open UtreexoVerif.Props.C08.Example

/-- **the former witness of `C08.undo.emptyRootsOverwritten`**: accumulator `[dead, 1, 2]`, the
client caches leaf 1 (at `(1,0)`, position 4); the block deletes leaf 2 and adds leaves 3 and 4
(leaf 3 is merged over the emptied root: `ToDestroy = [2]`, the forest grows to 3 rows, leaf 1 is
cached at position 8 with proof `[3]`).  `C08` applies: the undo returns the canonical proof, before
the block, of a permutation of `[1]` -/
example : ∃ (s' : Stump T) (ud : UpdateData T) (K : List T) (tg : List Pos) (hs : List T),
    (C01b.stumpOf Fw).update (T.leaf 0) [T.leaf 2] [T.leaf 3, .leaf 4] (encTargets Fw.rows [(0, 2)]) [] =
      .ok (s', ud) ∧
    ud.toDestroy = [2#64] ∧
    K.Perm (expectedUndo [T.leaf 1] [T.leaf 3, .leaf 4]) ∧
    Fw.canon K = some (tg, hs) ∧ tg.Pairwise Sorted.PLt ∧
    proofUndo ⟨[((1, 0) : Pos)].map (E (Fw.modify [T.leaf 2] [T.leaf 3, .leaf 4]).rows), [T.leaf 3]⟩
        (BitVec.ofNat 64 [T.leaf 3, T.leaf 4].length)
        (BitVec.ofNat 64 (Fw.modify [T.leaf 2] [T.leaf 3, .leaf 4]).numLeaves)
        (encTargets Fw.rows [(0, 2)]) [T.leaf 2] [T.leaf 1] ud.toDestroy
        (encTargets Fw.rows [(0, 2)]) [] =
      .ok (⟨tg.map (E Fw.rows), hs⟩, K) := by
  have hcD : Fw.canon [T.leaf 2] = some ([(0, 2)], []) := by decide +kernel
  have hcG : (Fw.modify [T.leaf 2] [T.leaf 3, .leaf 4]).canon [T.leaf 1] =
      some ([(1, 0)], [T.leaf 3]) := by decide +kernel
  obtain ⟨ud, hupd, _, _, _⟩ := stump_update_data' cr (T.leaf 0) (by intro h; cases h) Fw
    [T.leaf 2] [T.leaf 3, T.leaf 4] [(0, 2)] [] (by decide) (by decide) Fw_live adds34 (by decide)
    adds34_new (by decide) hcD
  have htd : ud.toDestroy = [2#64] := by
    have : ((C01b.stumpOf Fw).update (T.leaf 0) [T.leaf 2] [T.leaf 3, T.leaf 4]
        (encTargets Fw.rows [(0, 2)]) []).toOption.map (fun r => r.2.toDestroy) = some [2#64] := by
      decide +kernel
    rw [hupd] at this
    simpa [Out.toOption] using this
  obtain ⟨K, tg, hs, g1, g2, g3, g4⟩ := C08 (T.leaf 0) Fw [T.leaf 1] [T.leaf 2] [T.leaf 3, .leaf 4]
    [(1, 0)] [(0, 2)] [T.leaf 3] [] _ ud cr (by intro h; cases h) (by decide) (by decide) Fw_live
    adds34 (by decide) (fun x hx hx' => absurd hx' (adds34_new x hx)) (by decide) hcD (by decide)
    hcG hupd
  exact ⟨_, ud, K, tg, hs, hupd, htd, g1, g2, g3, g4⟩

/-- the repaired model, simply run on that witness: leaf 1 is back at position 4 with the empty
proof (the code before the repair returned the empty proof: `C08.Example.fails_emptyRootsOverwritten`) -/
example : proofUndo (H := T) ⟨[8#64], [T.leaf 3]⟩ 2#64 5#64 [2#64] [T.leaf 2] [T.leaf 1] [2#64] [2#64] [] =
    .ok (⟨[4#64], []⟩, [T.leaf 1]) := by decide +kernel

example : proofUndoOld (H := T) ⟨[8#64], [T.leaf 3]⟩ 2#64 5#64 [2#64] [T.leaf 2] [T.leaf 1] [2#64] [2#64] [] =
    .ok (⟨[], []⟩, []) := by decide +kernel

/-- … which is the canonical proof of leaf 1 before the block -/
example : Fw.canon [T.leaf 1] = some ([(1, 0)], []) := by decide +kernel

/-- **the former witness of `C08.undo.toEmpty`**: empty accumulator, the block adds leaf 1, which
the client caches.  `C08` applies: the undo returns the canonical proof of a permutation of `[]` -/
example : ∃ (s' : Stump T) (ud : UpdateData T) (K : List T) (tg : List Pos) (hs : List T),
    (C01b.stumpOf (Forest.empty : Forest T)).update (T.leaf 0) [] [T.leaf 1]
      (encTargets (Forest.empty : Forest T).rows []) [] = .ok (s', ud) ∧
    K.Perm (expectedUndo [T.leaf 1] [T.leaf 1]) ∧
    (Forest.empty : Forest T).canon K = some (tg, hs) ∧ tg.Pairwise Sorted.PLt ∧
    proofUndo ⟨[((0, 0) : Pos)].map (E ((Forest.empty : Forest T).modify [] [T.leaf 1]).rows), []⟩
        (BitVec.ofNat 64 [T.leaf 1].length)
        (BitVec.ofNat 64 ((Forest.empty : Forest T).modify [] [T.leaf 1]).numLeaves)
        (encTargets (Forest.empty : Forest T).rows []) [] [T.leaf 1] ud.toDestroy
        (encTargets (Forest.empty : Forest T).rows []) [] =
      .ok (⟨tg.map (E (Forest.empty : Forest T).rows), hs⟩, K) := by
  have hcD : (Forest.empty : Forest T).canon [] = some ([], []) := rfl
  have hcG : ((Forest.empty : Forest T).modify [] [T.leaf 1]).canon [T.leaf 1] =
      some ([(0, 0)], []) := by decide +kernel
  have hadd : ∀ x ∈ [T.leaf 1], x ≠ (zero : T) ∧ ∀ a b : T, x ≠ ph a b := by
    intro x hx
    have : x = .leaf 1 := by simpa using hx
    subst this
    exact leafT _
  obtain ⟨ud, hupd, _, _, _⟩ := stump_update_data' cr (T.leaf 0) (by intro h; cases h)
    (Forest.empty : Forest T) [] [T.leaf 1] [] [] (by decide) (by decide)
    (fun x hx => by cases hx) hadd (by decide) (fun x _ hx => by cases hx) (by decide) hcD
  obtain ⟨K, tg, hs, g1, g2, g3, g4⟩ := C08 (T.leaf 0) (Forest.empty : Forest T) [T.leaf 1] []
    [T.leaf 1] [(0, 0)] [] [] [] _ ud cr (by intro h; cases h) (by decide) (by decide)
    (fun x hx => by cases hx) hadd (by decide) (fun x _ hx => by cases hx) (by decide) hcD
    (by decide) hcG hupd
  exact ⟨_, ud, K, tg, hs, hupd, g1, g2, g3, g4⟩

/-- the repaired model, simply run: nothing is left (before the repair: leaf 1 kept at position 0) -/
example : proofUndo (H := T) ⟨[0#64], []⟩ 1#64 1#64 [] [] [T.leaf 1] [] [] [] = .ok (⟨[], []⟩, []) := by
  decide +kernel

example : proofUndoOld (H := T) ⟨[0#64], []⟩ 1#64 1#64 [] [] [T.leaf 1] [] [] [] =
    .ok (⟨[0#64], []⟩, [T.leaf 1]) := by decide +kernel

/-- a block in which an OLD cached leaf moves when an empty root is overwritten: seven slots
`[1, 2, 3, 4, dead, dead, 7]` (trees on rows 2, 1 — all-zero — and 0); the block adds leaf 8, which
merges with leaf 7 and is then moved over the empty root on row 1 (`ToDestroy = [10]`): leaf 7 moves
from `(0,6)` to `(1,2)` (position 10 of the 3-row forest).  The undo moves it back to position 6,
BEHIND leaf 2 (position 1): the sort is needed. -/
def F7 : Forest T :=
  ⟨[some (.leaf 1), some (.leaf 2), some (.leaf 3), some (.leaf 4), none, none, some (.leaf 7)]⟩

example : (F7.modify [] [T.leaf 8]).canon [T.leaf 7, .leaf 2] =
    some ([(1, 2), (0, 1)], [T.leaf 1, .node (.leaf 3) (.leaf 4), .leaf 8]) := by decide +kernel

example : proofUndo (H := T) ⟨[10#64, 1#64], [T.leaf 1, .node (.leaf 3) (.leaf 4), .leaf 8]⟩ 1#64 8#64 [] []
    [T.leaf 7, .leaf 2] [10#64] [] [] =
    .ok (⟨[1#64, 6#64], [T.leaf 1, .node (.leaf 3) (.leaf 4)]⟩, [T.leaf 2, .leaf 7]) := by decide +kernel

example : F7.canon [T.leaf 2, .leaf 7] = some ([(0, 1), (0, 6)], [T.leaf 1, .node (.leaf 3) (.leaf 4)]) := by
  decide +kernel

/-- level 1, `proofUndoAdd_canonical` applies to it (`L = [1]`: the all-zero root on row 1 is
destroyed) -/
example : ∃ K tgK hsK, K.Perm (expectedUndo [T.leaf 7, .leaf 2] [T.leaf 8]) ∧
    F7.canon K = some (tgK, hsK) ∧ tgK.Pairwise Sorted.PLt ∧
    proofUndoAdd ⟨[((1, 2) : Pos), (0, 1)].map (E (F7.addMany [T.leaf 8]).rows),
        [T.leaf 1, .node (.leaf 3) (.leaf 4), .leaf 8]⟩ (BitVec.ofNat 64 [T.leaf 8].length)
        (BitVec.ofNat 64 (F7.addMany [T.leaf 8]).numLeaves) [T.leaf 7, .leaf 2]
        ((destroyedPos F7.numLeaves [1]).map (E (forestRows (F7.numLeaves + [T.leaf 8].length)))) =
      .ok (⟨tgK.map (E F7.rows), hsK⟩, K) := by
  have hlive : ∀ x ∈ (F7.addMany [T.leaf 8]).liveLeaves, x ≠ (zero : T) ∧ ∀ a b : T, x ≠ ph a b := by
    intro x hx
    have : x = .leaf 1 ∨ x = .leaf 2 ∨ x = .leaf 3 ∨ x = .leaf 4 ∨ x = .leaf 7 ∨ x = .leaf 8 := by
      simpa [F7, Forest.liveLeaves, Forest.addMany] using hx
    rcases this with rfl | rfl | rfl | rfl | rfl | rfl <;> exact leafT _
  refine proofUndoAdd_canonical cr.toNZ (by decide) (by decide) hlive ?_ (by decide) (by decide +kernel)
  refine ⟨by simp [AscFrom], ?_⟩
  intro h
  match h with
  | 0 => decide
  | 1 => decide
  | 2 => decide
  | h + 3 =>
    have : (7 : Nat).testBit (h + 3) = false :=
      Nat.testBit_lt_two_pow (Nat.lt_of_lt_of_le (by decide) (Nat.pow_le_pow_right (by decide)
        (Nat.le_add_left 3 h)))
    simp [F7, this]

example : (destroyedPos F7.numLeaves [1]).map (E (forestRows (F7.numLeaves + [T.leaf 8].length))) =
    [10#64] := by decide

/-- a history whose newest block overwrites an empty root: block 1 adds leaves 10, 1, 2 (leaf 1
remembered), block 2 deletes leaf 10 (leaf 1 moves up to `(1,0)`), block 3 deletes leaf 2 and adds
leaves 3, 4 over the emptied root (`ToDestroy = [2]`) -/
def histE : List (C07.CBlock T) :=
  [([], [.leaf 10, .leaf 1, .leaf 2], [1]), ([.leaf 10], [], []), ([.leaf 2], [.leaf 3, .leaf 4], [])]

theorem histE_valid : ValidHistory (histE.map C07.toBlock) where
  live := by
    simp [histE, C07.toBlock, LiveDels, Forest.liveLeaves, Forest.modify, Forest.delLeaves,
      Forest.addMany, Forest.empty]
  dels_nodup := by
    intro b hb
    simp only [histE, C07.toBlock, List.map_cons, List.map_nil, List.mem_cons, List.not_mem_nil,
      or_false] at hb
    rcases hb with rfl | rfl | rfl <;> decide
  adds_nodup := by decide
  adds_leaf := by
    intro x hx
    have : x = .leaf 10 ∨ x = .leaf 1 ∨ x = .leaf 2 ∨ x = .leaf 3 ∨ x = .leaf 4 := by
      simpa [histE, C07.toBlock, allAdds] using hx
    rcases this with rfl | rfl | rfl | rfl | rfl <;>
      exact ⟨fun h => (by cases h), fun a b h => (by cases h)⟩
  small := by
    have : (allAdds (histE.map C07.toBlock)).length = 5 := by decide
    omega

/-- `client_history_undo_last` applies to it: after undoing block 3 the client holds, in the
accumulator `[dead, 1, 2]`, the canonical proof of what it held before block 3 (leaf 1) -/
example : ∃ (tgD : List Pos) (hsD : List T) (ud : UpdateData T) (p' : CProof T) (C' : List T),
    (run Forest.empty ((histE.take 2).map C07.toBlock)).canon [T.leaf 2] = some (tgD, hsD) ∧
    (C01b.stumpOf (run Forest.empty ((histE.take 2).map C07.toBlock))).update (T.leaf 0)
        [T.leaf 2] [T.leaf 3, .leaf 4]
        (encTargets (run Forest.empty ((histE.take 2).map C07.toBlock)).rows tgD) hsD =
      .ok (C01b.stumpOf (run Forest.empty ((histE.take 2 ++
        [([T.leaf 2], [T.leaf 3, .leaf 4], [])]).map C07.toBlock)), ud) ∧
    C07.clientRun (T.leaf 0) Forest.empty (⟨[], []⟩, [])
      (histE.take 2 ++ [([T.leaf 2], [T.leaf 3, .leaf 4], [])]) = some (p', C') ∧
    ∃ K tg hs, K.Perm ((C07.expectedRun [] (histE.take 2)).filter
        (fun x => decide (x ∉ [T.leaf 2]))) ∧
      (run Forest.empty ((histE.take 2).map C07.toBlock)).canon K = some (tg, hs) ∧
      tg.Pairwise Sorted.PLt ∧
      proofUndo p' (BitVec.ofNat 64 [T.leaf 3, T.leaf 4].length)
          (BitVec.ofNat 64 (run Forest.empty ((histE.take 2 ++
            [([T.leaf 2], [T.leaf 3, .leaf 4], [])]).map C07.toBlock)).numLeaves)
          (encTargets (run Forest.empty ((histE.take 2).map C07.toBlock)).rows tgD)
          [T.leaf 2] C' ud.toDestroy
          (encTargets (run Forest.empty ((histE.take 2).map C07.toBlock)).rows tgD) hsD =
        .ok (⟨tg.map (E (run Forest.empty ((histE.take 2).map C07.toBlock)).rows), hs⟩, K) :=
  client_history_undo_last cr (T.leaf 0) (by intro h; cases h) (histE.take 2)
    [T.leaf 2] [T.leaf 3, .leaf 4] [] histE_valid
    (by
      intro b hb
      have : b = ([], [T.leaf 10, .leaf 1, .leaf 2], [1]) ∨ b = ([T.leaf 10], [], []) ∨
          b = ([T.leaf 2], [T.leaf 3, .leaf 4], []) := by
        simpa [histE] using hb
      rcases this with rfl | rfl | rfl <;> decide)

/-- on that history the client, simply run: after the three blocks it holds leaf 1 at position 8
with proof `[3]` … -/
example : C07.clientRun (T.leaf 0) Forest.empty (⟨[], []⟩, []) histE =
    some (⟨[8#64], [T.leaf 3]⟩, [T.leaf 1]) := by decide +kernel

/-- … and block 3 is the witness block above (`run empty (histE.take 2) = Fw`) -/
example : (run Forest.empty ((histE.take 2).map C07.toBlock)).slots = Fw.slots := by decide +kernel

/-- `update_then_undo` applies to the witness block: the client holds leaf 1 in `[dead, 1, 2]`; the
block deletes leaf 2 and adds 3, 4 over the emptied root -/
example : ∃ (ud : UpdateData T) (p' : CProof T) (C' : List T),
    (C01b.stumpOf Fw).update (T.leaf 0) [T.leaf 2] [T.leaf 3, .leaf 4]
        (encTargets Fw.rows [(0, 2)]) [] =
      .ok (C01b.stumpOf (Fw.modify [T.leaf 2] [T.leaf 3, .leaf 4]), ud) ∧
    proofUpdate ⟨[((1, 0) : Pos)].map (E Fw.rows), []⟩ [T.leaf 1]
        [T.leaf 3, .leaf 4] (encTargets Fw.rows [(0, 2)]) [] (C07.toM ud) = .ok (p', C') ∧
    ∃ K tg hs, K.Perm ([T.leaf 1].filter (fun x => decide (x ∉ [T.leaf 2]))) ∧
      Fw.canon K = some (tg, hs) ∧ tg.Pairwise Sorted.PLt ∧
      proofUndo p' (BitVec.ofNat 64 [T.leaf 3, T.leaf 4].length)
          (BitVec.ofNat 64 (Fw.modify [T.leaf 2] [T.leaf 3, .leaf 4]).numLeaves)
          (encTargets Fw.rows [(0, 2)]) [T.leaf 2] C' ud.toDestroy
          (encTargets Fw.rows [(0, 2)]) [] =
        .ok (⟨tg.map (E Fw.rows), hs⟩, K) :=
  update_then_undo cr (T.leaf 0) (by intro h; cases h) Fw [T.leaf 1] [T.leaf 2]
    [T.leaf 3, .leaf 4] _ _ _ _ [] (by decide) (by decide) Fw_live adds34 (by decide)
    (fun x hx hx' => absurd hx' (adds34_new x hx)) (by decide) (by decide +kernel) (by decide)
    (by decide +kernel) (by decide)

end Example

end
end UtreexoVerif.Props.C08b
